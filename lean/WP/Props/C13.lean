import WP.Model.DynArray
/-
  Property C13 — a dynamic tick array behaves exactly like a fixed one, and its encoding stays
  well formed.

  Model: WP/Model/DynArray.lean (bytes; `rotR`/`rotL` are slice::rotate_right/left; the data area
  is a byte list of the length the accessor views: 9952 for the Anchor loader, 9944 for Pinocchio).
  Abstract state: `es : List Slot` (88 slots, `none` or the 112 payload bytes).

  Proved here, for EVERY array state satisfying `WF` (in particular every state reachable from a
  new array by any sequence of updates — `run_refines`), every slot, every bitmap prefix, every
  padding content and both region lengths:
   * `update_refines`: update_tick keeps the encoding well formed and changes exactly the addressed
     slot (initialize = insert 112 bytes, de-initialize = remove them, modify = overwrite in place);
     it never fails where the fixed array succeeds and fails with the same error otherwise;
   * `get_refines`, `next_refines`: get_tick / get_next_init_tick_index answer as the fixed array
     holding the decoded slots;
   * `used_len`: the used length is 148 + 112 × (number of initialized ticks), and the bitmap marks
     exactly the initialized slots (`WF.bits`);
   * `dec_enc`: decoding the Borsh payload returns the written tick (so tick CONTENTS agree);
   * `run_refines`: by induction over an arbitrary operation sequence, the two arrays give the same
     outputs and the dynamic one stays well formed.
-/
set_option linter.unusedSimpArgs false
namespace WP.C13
open WP

abbrev Slot := Option (List Nat)

def encSlot : Slot → List Nat
  | none => [0]
  | some p => 1 :: p

def encSlots (es : List Slot) : List Nat := es.flatMap encSlot
def countInit (es : List Slot) : Nat := es.countP Option.isSome
def absTick : Slot → TickData
  | none => {}
  | some p => decTick p

def absArr (start : Int) (es : List Slot) : FixArr := { start := start, ticks := es.map absTick }

structure WF (a : DynArr) (es : List Slot) : Prop where
  len : es.length = 88
  pay : ∀ p, some p ∈ es → p.length = 112
  bits : ∀ k, a.bitmap.testBit k = (es.getD k none).isSome
  data : ∃ pad, a.data = encSlots es ++ pad
  region : a.data.length ≥ 113 * 88

/-! ### byte lists -/

theorem encSlots_append (a b : List Slot) : encSlots (a ++ b) = encSlots a ++ encSlots b := by
  simp [encSlots]

theorem encSlots_cons (x : Slot) (b : List Slot) : encSlots (x :: b) = encSlot x ++ encSlots b := by
  simp [encSlots]

theorem encSlots_length (es : List Slot) (h : ∀ p, some p ∈ es → p.length = 112) :
    (encSlots es).length = es.length + 112 * countInit es := by
  induction es with
  | nil => simp [encSlots, countInit]
  | cons x r ih =>
    have ihr := ih (fun p hp => h p (List.mem_cons_of_mem _ hp))
    rw [encSlots_cons, List.length_append, ihr]
    cases x with
    | none => simp [encSlot, countInit]; omega
    | some p =>
      have := h p (List.mem_cons_self)
      simp [encSlot, countInit, this]; omega

theorem countInit_le (es : List Slot) : countInit es ≤ es.length := List.countP_le_length

theorem rotR_append (A B : List Nat) (n : Nat) (h : B.length = n) : rotR n (A ++ B) = B ++ A := by
  unfold rotR
  have : (A ++ B).length - n = A.length := by simp [h]
  rw [this, List.drop_left, List.take_left]

theorem rotL_append (A B : List Nat) (n : Nat) (h : A.length = n) : rotL n (A ++ B) = B ++ A := by
  unfold rotL
  subst h
  rw [List.drop_left, List.take_left]

theorem getD_at (P : List Nat) (t : Nat) (r : List Nat) : (P ++ t :: r).getD P.length 0 = t := by
  simp [List.getD_eq_getElem?_getD]

theorem writeAt_at (P S bytes : List Nat) :
    writeAt (P ++ S) P.length bytes = P ++ bytes ++ S.drop bytes.length := by
  unfold writeAt
  rw [List.take_left]
  congr 1
  rw [List.drop_append]
  simp

/-! ### bitmap -/

theorem popBelow_succ (bm i : Nat) : popBelow bm (i + 1) = popBelow bm i + (if bm.testBit i then 1 else 0) := by
  unfold popBelow
  rw [List.range_succ, List.countP_append]
  simp [List.countP_cons]

theorem popBelow_eq (bm : Nat) (es : List Slot) (hb : ∀ k, bm.testBit k = (es.getD k none).isSome) (i : Nat) :
    popBelow bm i = countInit (es.take i) := by
  induction i with
  | zero => simp [popBelow, countInit]
  | succ i ih =>
    rw [popBelow_succ, ih, List.take_add_one, hb i]
    unfold countInit
    rw [List.countP_append]
    congr 1
    rw [List.getD_eq_getElem?_getD]
    cases h : es[i]? with
    | none => simp
    | some x => cases x <;> simp

theorem byteOffset_eq (bm : Nat) (es : List Slot) (hb : ∀ k, bm.testBit k = (es.getD k none).isSome)
    (hp : ∀ p, some p ∈ es → p.length = 112) (i : Nat) (hi : i ≤ es.length) :
    byteOffset bm i = (encSlots (es.take i)).length := by
  have hp' : ∀ p, some p ∈ es.take i → p.length = 112 := fun p h => hp p (List.mem_of_mem_take h)
  rw [encSlots_length _ hp', byteOffset, popBelow_eq bm es hb i, List.length_take, DYN_TICK_LEN]
  have := countInit_le (es.take i)
  rw [List.length_take] at this
  omega

theorem testBit_set (bm i k : Nat) : (bm ||| 2 ^ i).testBit k = (bm.testBit k || decide (k = i)) := by
  rw [Nat.testBit_or, Nat.testBit_two_pow]
  by_cases h : k = i
  · subst h; simp
  · have : ¬ i = k := fun e => h e.symm
    simp [h, this]

theorem testBit_clear (bm i k : Nat) (hi : i < 128) (hbm : bm < TWO128) :
    (bm &&& ((TWO128 - 1) ^^^ 2 ^ i)).testBit k = (bm.testBit k && !decide (k = i)) := by
  have h128 : TWO128 = 2 ^ 128 := rfl
  rw [Nat.testBit_and, Nat.testBit_xor, h128, Nat.testBit_two_pow_sub_one, Nat.testBit_two_pow]
  by_cases hk : k < 128
  · by_cases h : k = i
    · subst h; simp [hk]
    · have : ¬ i = k := fun e => h e.symm
      simp [h, this, hk]
  · have : bm.testBit k = false := by
      apply Nat.testBit_lt_two_pow
      have : 2 ^ 128 ≤ 2 ^ k := Nat.pow_le_pow_right (by decide) (by omega)
      omega
    simp [this]


/-! ### payload -/

theorem leBytes_length (n x : Nat) : (leBytes n x).length = n := by
  induction n generalizing x with
  | zero => rfl
  | succ n ih => simp [leBytes, ih]

theorem leVal_leBytes (n x : Nat) (h : x < 256 ^ n) : leVal (leBytes n x) = x := by
  induction n generalizing x with
  | zero => simp at h; subst h; rfl
  | succ n ih =>
    have : x / 256 < 256 ^ n := by
      rw [Nat.div_lt_iff_lt_mul (by decide)]; rw [Nat.pow_succ] at h; exact h
    simp only [leBytes, leVal, ih _ this]
    omega

theorem encTick_length (u : TickData) : (encTick u).length = 112 := by
  simp [encTick, leBytes_length]

/-- the values a `TickUpdate` with `initialized = true` can carry -/
structure TickOK (u : TickData) : Prop where
  init : u.initialized = true
  net : -(2 ^ 127 : Int) ≤ u.net ∧ u.net < 2 ^ 127
  gross : u.gross < TWO128
  fa : u.fgoA < TWO128
  fb : u.fgoB < TWO128
  rgo : ∃ r0 r1 r2, u.rgo = [r0, r1, r2] ∧ r0 < TWO128 ∧ r1 < TWO128 ∧ r2 < TWO128

theorem dec_enc_i128 (x : Int) (h : -(2 ^ 127 : Int) ≤ x ∧ x < 2 ^ 127) : decI128 (encI128 x) = x := by
  have h128 : TWO128 = 340282366920938463463374607431768211456 := rfl
  unfold decI128 encI128
  rw [h128]
  by_cases hx : x ≥ 0
  · simp only [hx, if_true]
    have : ¬ (x.toNat ≥ 340282366920938463463374607431768211456 / 2) := by omega
    simp only [this, if_false]; omega
  · simp only [hx, if_false]
    have : (x + (340282366920938463463374607431768211456 : Nat)).toNat ≥ 340282366920938463463374607431768211456 / 2 := by omega
    simp only [this, if_true]; omega

theorem encI128_lt (x : Int) (h : -(2 ^ 127 : Int) ≤ x ∧ x < 2 ^ 127) : encI128 x < 256 ^ 16 := by
  have h128 : TWO128 = 340282366920938463463374607431768211456 := rfl
  unfold encI128; rw [h128]
  split <;> omega

theorem take16 (a r : List Nat) (h : a.length = 16) : (a ++ r).take 16 = a := by
  rw [← h, List.take_left]
theorem drop16 (a r : List Nat) (h : a.length = 16) : (a ++ r).drop 16 = r := by
  rw [← h, List.drop_left]

/-- decoding the 112 Borsh bytes written for an initialized tick returns that tick -/
theorem dec_enc (u : TickData) (h : TickOK u) : decTick (encTick u) = u := by
  obtain ⟨r0, r1, r2, hr, h0, h1, h2⟩ := h.rgo
  have h128 : TWO128 = 256 ^ 16 := by decide
  have L := fun x => leBytes_length 16 x
  unfold decTick encTick
  simp only [List.append_assoc]
  have e32 : ∀ l : List Nat, l.drop 32 = (l.drop 16).drop 16 := by intro l; simp [List.drop_drop]
  have e48 : ∀ l : List Nat, l.drop 48 = ((l.drop 16).drop 16).drop 16 := by intro l; simp [List.drop_drop]
  have e64 : ∀ l : List Nat, l.drop 64 = (((l.drop 16).drop 16).drop 16).drop 16 := by intro l; simp [List.drop_drop]
  have e80 : ∀ l : List Nat, l.drop 80 = ((((l.drop 16).drop 16).drop 16).drop 16).drop 16 := by intro l; simp [List.drop_drop]
  have e96 : ∀ l : List Nat, l.drop 96 = (((((l.drop 16).drop 16).drop 16).drop 16).drop 16).drop 16 := by intro l; simp [List.drop_drop]
  rw [e32, e48, e64, e80, e96]
  simp only [drop16 _ _ (L _), take16 _ _ (L _)]
  have t7 : ∀ x, (leBytes 16 x).take 16 = leBytes 16 x := by intro x; exact List.take_of_length_le (by rw [L]; exact Nat.le_refl _)
  rw [t7]
  rw [leVal_leBytes _ _ (encI128_lt _ h.net), dec_enc_i128 _ h.net,
      leVal_leBytes _ _ (h128 ▸ h.gross), leVal_leBytes _ _ (h128 ▸ h.fa), leVal_leBytes _ _ (h128 ▸ h.fb)]
  rw [hr]
  simp only [List.getD_cons_zero, List.getD_cons_succ]
  rw [leVal_leBytes _ _ (h128 ▸ h0), leVal_leBytes _ _ (h128 ▸ h1), leVal_leBytes _ _ (h128 ▸ h2)]
  have hi := h.init
  cases u
  simp_all


/-! ### update_tick on the bytes -/

def slotOfUpdate (u : TickData) : Slot := if u.initialized then some (encTick u) else none

def bitmapAfter (bm i : Nat) (x : Slot) (u : TickData) : Nat :=
  if x.isNone && u.initialized then bm ||| 2 ^ i
  else if x.isSome && !u.initialized then bm &&& ((TWO128 - 1) ^^^ 2 ^ i)
  else bm

theorem update_core (start : Int) (bm : Nat) (pre post : List Slot) (x : Slot) (pad : List Nat) (u : TickData)
    (hx : ∀ p, x = some p → p.length = 112)
    (hoff : byteOffset bm pre.length = (encSlots pre).length)
    (hpad : x = none → pad.length ≥ 112) :
    ∃ pad', DynArr.updateAt ⟨start, bm, encSlots pre ++ (encSlot x ++ (encSlots post ++ pad))⟩ pre.length u =
        .ok ⟨start, bitmapAfter bm pre.length x u,
             encSlots pre ++ (encSlot (slotOfUpdate u) ++ (encSlots post ++ pad'))⟩ ∧
      pad'.length + (encSlot (slotOfUpdate u)).length = pad.length + (encSlot x).length := by
  have hE := encTick_length u
  cases x with
  | none =>
    by_cases hu : u.initialized = true
    · -- initialize: insert 112 bytes
      have hp := hpad rfl
      refine ⟨pad.take (pad.length - 112), ?_, ?_⟩
      · unfold DynArr.updateAt
        simp only [hoff, encSlot, List.singleton_append, getD_at, List.take_left, List.drop_left, hu, DYN_TICK_LEN,
          slotOfUpdate, bitmapAfter]
        have hsplit : (0 :: (encSlots post ++ pad)) =
            (0 :: (encSlots post ++ pad.take (pad.length - 112))) ++ pad.drop (pad.length - 112) := by
          simp [List.take_append_drop]
        have hl : (pad.drop (pad.length - 112)).length = 112 := by simp; omega
        rw [hsplit, rotR_append _ _ _ hl]
        simp only [ne_eq, not_true_eq_false, decide_false, Bool.false_and, Bool.false_eq_true, if_false,
          Nat.zero_ne_one, Bool.not_false, Bool.and_self, if_true, Option.isNone_none, Option.isSome_none,
          Bool.true_and, Bool.not_true, Bool.and_false, decide_true]
        rw [writeAt_at]
        have : ((pad.drop (pad.length - 112)) ++ 0 :: (encSlots post ++ pad.take (pad.length - 112))).drop (1 :: encTick u).length =
            encSlots post ++ pad.take (pad.length - 112) := by
          have e : (1 :: encTick u).length = (pad.drop (pad.length - 112) ++ [0]).length := by simp [hE]; omega
          rw [e, show pad.drop (pad.length - 112) ++ 0 :: (encSlots post ++ pad.take (pad.length - 112)) =
              (pad.drop (pad.length - 112) ++ [0]) ++ (encSlots post ++ pad.take (pad.length - 112)) by simp,
            List.drop_left]
        rw [this]
        simp
      · simp [slotOfUpdate, hu, encSlot, hE]; omega
    · -- uninitialized stays uninitialized
      have hu' : u.initialized = false := by simpa using hu
      refine ⟨pad, ?_, ?_⟩
      · unfold DynArr.updateAt
        simp only [hoff, encSlot, List.singleton_append, getD_at, hu', slotOfUpdate, bitmapAfter]
        simp only [ne_eq, not_true_eq_false, decide_false, Bool.false_and, Bool.false_eq_true, if_false,
          Nat.zero_ne_one, Bool.not_false, Bool.and_false, Bool.and_true, Option.isNone_none, Option.isSome_none]
        rw [writeAt_at]
        simp
      · simp [slotOfUpdate, hu', encSlot]
  | some p =>
    have hp := hx p rfl
    by_cases hu : u.initialized = true
    · -- modify in place
      refine ⟨pad, ?_, ?_⟩
      · unfold DynArr.updateAt
        simp only [hoff, encSlot, List.cons_append, getD_at, hu, slotOfUpdate, bitmapAfter]
        simp only [ne_eq, Nat.one_ne_zero, not_false_eq_true, decide_true, not_true_eq_false, decide_false,
          Bool.and_false, Bool.false_eq_true, if_false, Bool.not_true, Bool.false_and, Bool.not_false, Bool.and_true,
          Option.isNone_some, Option.isSome_some, if_true]
        rw [show encSlots pre ++ 1 :: (p ++ (encSlots post ++ pad)) = encSlots pre ++ ((1 :: p) ++ (encSlots post ++ pad)) by simp,
          writeAt_at]
        have e : (1 :: encTick u).length = (1 :: p).length := by simp [hE, hp]
        rw [e, List.drop_left]
        simp
      · simp [slotOfUpdate, hu, encSlot, hE, hp]
    · -- de-initialize: remove 112 bytes
      have hu' : u.initialized = false := by simpa using hu
      have h1 : (p.drop 111).length = 1 := by simp [hp]
      obtain ⟨c, hc⟩ := List.length_eq_one_iff.mp h1
      refine ⟨pad ++ (1 :: p.take 111), ?_, ?_⟩
      · unfold DynArr.updateAt
        simp only [hoff, encSlot, List.cons_append, getD_at, List.take_left, List.drop_left, hu', DYN_TICK_LEN,
          slotOfUpdate, bitmapAfter]
        simp only [ne_eq, Nat.one_ne_zero, not_false_eq_true, decide_true, not_true_eq_false, decide_false,
          Bool.and_false, Bool.false_eq_true, if_false, Bool.not_true, Bool.false_and, Bool.not_false, Bool.and_true,
          Bool.and_self, Option.isNone_some, Option.isSome_some, if_true]
        have hsplit : (1 :: (p ++ (encSlots post ++ pad))) = (1 :: p.take 111) ++ (c :: (encSlots post ++ pad)) := by
          have : p = p.take 111 ++ [c] := by rw [← hc, List.take_append_drop]
          conv => lhs; rw [this]
          simp
        have hl : (1 :: p.take 111).length = 112 := by simp [hp]
        rw [hsplit, rotL_append _ _ _ hl, writeAt_at]
        simp
      · simp [slotOfUpdate, hu', encSlot, hp]


/-! ### lifting to the whole array -/

theorem slotOf_lt (start t : Int) (ts i : Nat) (h : slotOf start t ts = .ok i) : i < 88 := by
  unfold slotOf at h
  have hT : ((TICK_ARRAY_SIZE : Nat) : Int) = 88 := rfl
  by_cases hb : inBounds start t ts = true
  · by_cases hts : ts = 0
    · subst hts
      unfold inBounds at hb
      simp at hb; omega
    · by_cases hc : (!inBounds start t ts || !isUsableTick t ts) = true
      · rw [if_pos hc] at h; cases h
      · rw [if_neg hc, if_neg hts] at h
        by_cases ho : (t - start) / (ts : Int) < 0
        · rw [if_pos ho] at h; cases h
        · rw [if_neg ho] at h
          cases h
          unfold inBounds at hb
          simp only [Bool.and_eq_true, decide_eq_true_eq] at hb
          have htspos : (0 : Int) < ts := by omega
          have : (t - start) / (ts : Int) < 88 := by
            apply Int.ediv_lt_of_lt_mul htspos
            rw [hT] at hb; omega
          omega
  · have hb' : inBounds start t ts = false := by simpa using hb
    rw [hb'] at h
    simp at h

theorem split_at (es : List Slot) (i : Nat) (hi : i < es.length) :
    es = es.take i ++ es.getD i none :: es.drop (i + 1) := by
  have : es.getD i none = es[i] := by simp [List.getD_eq_getElem?_getD, hi]
  rw [this]; simp

theorem set_split (pre post : List Slot) (x y : Slot) : (pre ++ x :: post).set pre.length y = pre ++ y :: post := by
  simp [List.set_append]

theorem getD_set (es : List Slot) (i k : Nat) (y : Slot) (hi : i < es.length) :
    (es.set i y).getD k none = if k = i then y else es.getD k none := by
  simp only [List.getD_eq_getElem?_getD, List.getElem?_set]
  by_cases h : k = i
  · subst h; simp [hi]
  · have : ¬ i = k := fun e => h e.symm
    simp [h, this]

theorem bitmap_lt (bm : Nat) (es : List Slot) (hl : es.length = 88) (hb : ∀ k, bm.testBit k = (es.getD k none).isSome) :
    bm < TWO128 := by
  have : bm < 2 ^ 88 := by
    apply Nat.lt_pow_two_of_testBit
    intro k hk
    rw [hb k, List.getD_eq_getElem?_getD, List.getElem?_eq_none (by omega)]
    rfl
  have h128 : TWO128 = 2 ^ 128 := rfl
  have : (2:Nat) ^ 88 < 2 ^ 128 := by decide
  omega

theorem eta (a : DynArr) (d : List Nat) (h : a.data = d) : a = ⟨a.start, a.bitmap, d⟩ := by
  cases a; simp_all

theorem bits_after (bm : Nat) (es : List Slot) (i : Nat) (hi : i < es.length) (hl : es.length = 88) (u : TickData)
    (hb : ∀ k, bm.testBit k = (es.getD k none).isSome) (k : Nat) :
    (bitmapAfter bm i (es.getD i none) u).testBit k = ((es.set i (slotOfUpdate u)).getD k none).isSome := by
  rw [getD_set es i k _ hi]
  unfold bitmapAfter slotOfUpdate
  have hbk := hb k
  have hbi := hb i
  generalize es.getD i none = x at *
  by_cases hu : u.initialized = true
  · cases x with
    | some p =>
      simp only [hu, Option.isNone_some, Option.isSome_some, Bool.false_and, Bool.false_eq_true, if_false,
        Bool.not_true, Bool.and_false, if_true]
      by_cases hk : k = i
      · subst hk; simp [hbi]
      · simp [hk, hbk]
    | none =>
      simp only [hu, Option.isNone_none, Bool.and_self, if_true]
      rw [testBit_set]
      by_cases hk : k = i
      · subst hk; simp
      · simp [hk, hbk]
  · have hu' : u.initialized = false := by simpa using hu
    cases x with
    | some p =>
      simp only [hu', Option.isNone_some, Option.isSome_some, Bool.and_false, Bool.false_eq_true, if_false,
        Bool.not_false, Bool.and_self, if_true]
      rw [testBit_clear _ _ _ (by omega) (bitmap_lt _ es hl hb)]
      by_cases hk : k = i
      · subst hk; simp
      · simp [hk, hbk]
    | none =>
      simp only [hu', Option.isNone_none, Option.isSome_none, Bool.and_false, Bool.false_eq_true, if_false,
        Bool.false_and]
      by_cases hk : k = i
      · subst hk; simp [hbi]
      · simp [hk, hbk]

/-- update_tick on a well-formed array succeeds, stays well formed, and changes exactly slot `i`
    of the abstract slot list; the region length is unchanged -/
theorem updateAt_wf (a : DynArr) (es : List Slot) (wf : WF a es) (i : Nat) (hi : i < 88) (u : TickData) :
    ∃ a', a.updateAt i u = .ok a' ∧ WF a' (es.set i (slotOfUpdate u)) ∧ a'.start = a.start ∧
      a'.data.length = a.data.length := by
  obtain ⟨pad, hd⟩ := wf.data
  have hlen := wf.len
  have hi' : i < es.length := by omega
  have hes := split_at es i hi'
  have hpre : (es.take i).length = i := by simp; omega
  have hoff := byteOffset_eq a.bitmap es wf.bits wf.pay i (by omega)
  have hx : ∀ p, es.getD i none = some p → p.length = 112 := by
    intro p hp
    apply wf.pay
    rw [← hp, List.getD_eq_getElem?_getD, List.getElem?_eq_getElem hi']
    simp
  have hpad : es.getD i none = none → pad.length ≥ 112 := by
    intro hn
    have hL := encSlots_length es wf.pay
    have hc : countInit es ≤ 87 := by
      rw [hes, countInit, List.countP_append, List.countP_cons, hn]
      have h1 := countInit_le (es.take i)
      have h2 := countInit_le (es.drop (i + 1))
      simp only [countInit, List.length_take, List.length_drop] at h1 h2
      simp; omega
    have hr := wf.region
    rw [hd, List.length_append, hL] at hr
    omega
  have hdata : a.data = encSlots (es.take i) ++ (encSlot (es.getD i none) ++ (encSlots (es.drop (i + 1)) ++ pad)) := by
    rw [hd]; conv => lhs; rw [hes]
    rw [encSlots_append, encSlots_cons]; simp
  obtain ⟨pad', hup, hpl⟩ := update_core a.start a.bitmap (es.take i) (es.drop (i + 1)) (es.getD i none) pad u hx
    (by rw [hpre]; exact hoff) hpad
  rw [hpre] at hup
  have ha := eta a _ hdata
  rw [← ha] at hup
  have hset : es.set i (slotOfUpdate u) = es.take i ++ slotOfUpdate u :: es.drop (i + 1) := by
    conv => lhs; rw [hes]
    have := set_split (es.take i) (es.drop (i + 1)) (es.getD i none) (slotOfUpdate u)
    rw [hpre] at this; exact this
  refine ⟨_, hup, ⟨?_, ?_, ?_, ?_, ?_⟩, rfl, ?_⟩
  · simp [hlen]
  · intro p hp
    rcases List.mem_or_eq_of_mem_set hp with h | h
    · exact wf.pay p h
    · unfold slotOfUpdate at h
      split at h
      · cases h; exact encTick_length u
      · cases h
  · intro k
    exact bits_after a.bitmap es i hi' hlen u wf.bits k
  · refine ⟨pad', ?_⟩
    simp only []
    rw [hset, encSlots_append, encSlots_cons]; simp
  · simp only []
    have h0 := wf.region
    rw [hdata] at h0
    simp only [List.length_append] at h0 ⊢
    omega
  · simp only []
    rw [hdata]
    simp only [List.length_append]
    omega


/-- get_tick at a slot of a well-formed array returns the decoded slot -/
theorem getAt_wf (a : DynArr) (es : List Slot) (wf : WF a es) (i : Nat) (hi : i < 88) :
    a.getAt i = .ok (absTick (es.getD i none)) := by
  obtain ⟨pad, hd⟩ := wf.data
  have hi' : i < es.length := by rw [wf.len]; exact hi
  have hes := split_at es i hi'
  have hoff := byteOffset_eq a.bitmap es wf.bits wf.pay i (by omega)
  have hdata : a.data = encSlots (es.take i) ++ (encSlot (es.getD i none) ++ (encSlots (es.drop (i + 1)) ++ pad)) := by
    rw [hd]; conv => lhs; rw [hes]
    rw [encSlots_append, encSlots_cons]; simp
  have hx : ∀ p, es.getD i none = some p → p.length = 112 := by
    intro p hp
    apply wf.pay
    rw [← hp, List.getD_eq_getElem?_getD, List.getElem?_eq_getElem hi']
    simp
  unfold DynArr.getAt
  rw [hoff, hdata]
  generalize es.getD i none = x at *
  cases x with
  | none => simp [encSlot, getD_at, absTick]
  | some p =>
    have hp := hx p rfl
    simp only [encSlot, List.cons_append, getD_at, Nat.one_ne_zero, if_false, if_true, absTick, DYN_TICK_LEN]
    congr 2
    rw [show encSlots (List.take i es) ++ 1 :: (p ++ (encSlots (List.drop (i + 1) es) ++ pad)) =
        (encSlots (List.take i es) ++ [1]) ++ (p ++ (encSlots (List.drop (i + 1) es) ++ pad)) by simp]
    rw [show (encSlots (List.take i es)).length + 1 = (encSlots (List.take i es) ++ [1]).length by simp,
      List.drop_left, ← hp, List.take_left]

/-- the abstract array after an update -/
theorem abs_set (start : Int) (es : List Slot) (i : Nat) (u : TickData) (hu : if u.initialized then TickOK u else u = {}) :
    (absArr start es).ticks.set i u = (absArr start (es.set i (slotOfUpdate u))).ticks := by
  unfold absArr slotOfUpdate
  simp only [List.map_set]
  congr 1
  by_cases h : u.initialized = true
  · simp only [h, if_true] at hu ⊢
    exact (dec_enc u hu).symm
  · have h' : u.initialized = false := by simpa using h
    simp only [h', Bool.false_eq_true, if_false] at hu ⊢
    rw [hu]; rfl

/-- **update_tick**: same error, or both succeed, the dynamic array stays well formed and its
    abstraction is the fixed array's result -/
theorem update_refines (a : DynArr) (es : List Slot) (wf : WF a es) (t : Int) (ts : Nat) (u : TickData)
    (hu : if u.initialized then TickOK u else u = {}) :
    (∃ e, a.updateTick t ts u = .error e ∧ (absArr a.start es).updateTick t ts u = .error e) ∨
    (∃ a' es', a.updateTick t ts u = .ok a' ∧ WF a' es' ∧ a'.data.length = a.data.length ∧
      (absArr a.start es).updateTick t ts u = .ok (absArr a'.start es')) := by
  unfold DynArr.updateTick FixArr.updateTick
  have hs : (absArr a.start es).start = a.start := rfl
  rw [hs]
  cases h : slotOf a.start t ts with
  | error e => left; exact ⟨e, rfl, rfl⟩
  | ok i =>
    right
    have hi := slotOf_lt _ _ _ _ h
    obtain ⟨a', h1, h2, h3, h4⟩ := updateAt_wf a es wf i hi u
    refine ⟨a', es.set i (slotOfUpdate u), h1, h2, h4, ?_⟩
    simp only []
    rw [abs_set a.start es i u hu, h3]
    rfl

/-- **get_tick**: same answer or same error -/
theorem get_refines (a : DynArr) (es : List Slot) (wf : WF a es) (t : Int) (ts : Nat) :
    a.getTick t ts = (absArr a.start es).getTick t ts := by
  unfold DynArr.getTick FixArr.getTick
  have hs : (absArr a.start es).start = a.start := rfl
  rw [hs]
  cases h : slotOf a.start t ts with
  | error e => rfl
  | ok i =>
    simp only []
    rw [getAt_wf a es wf i (slotOf_lt _ _ _ _ h)]
    congr 1
    unfold absArr
    simp only [List.getD_eq_getElem?_getD, List.getElem?_map]
    cases es[i]? <;> rfl

theorem absTick_init (x : Slot) : (absTick x).initialized = x.isSome := by
  cases x <;> rfl

/-- **get_next_init_tick_index**: the bitmap scan answers as the fixed array's scan of the
    `initialized` flags -/
theorem next_refines (a : DynArr) (es : List Slot) (wf : WF a es) (t : Int) (ts : Nat) (aToB : Bool) :
    a.nextInit t ts aToB = (absArr a.start es).nextInit t ts aToB := by
  unfold DynArr.nextInit FixArr.nextInit
  have hp : (fun k => a.bitmap.testBit k) = (fun k => (((absArr a.start es).ticks.getD k {}).initialized)) := by
    funext k
    rw [wf.bits k]
    unfold absArr
    simp only [List.getD_eq_getElem?_getD, List.getElem?_map]
    cases es[k]? with
    | none => rfl
    | some x => simp [absTick_init]
  have hs : (absArr a.start es).start = a.start := rfl
  simp only [hs]
  rw [hp]

/-- **used length**: 8 + 52 + encoded slots = 148 + 112 × (number of initialized ticks), where the
    number of initialized ticks is the popcount of the bitmap -/
theorem used_len (a : DynArr) (es : List Slot) (wf : WF a es) :
    8 + 52 + (encSlots es).length = a.usedLen ∧ popBelow a.bitmap 88 = countInit es := by
  have h := popBelow_eq a.bitmap es wf.bits 88
  rw [← wf.len, List.take_length] at h
  constructor
  · unfold DynArr.usedLen
    rw [encSlots_length es wf.pay, wf.len]
    rw [← wf.len] ; rw [h]; rw [wf.len]; omega
  · rw [← wf.len]; exact h

theorem getD_replicate_none (n k : Nat) : (List.replicate n (none : Slot)).getD k none = none := by
  simp only [List.getD_eq_getElem?_getD, List.getElem?_replicate]
  split <;> rfl

theorem encSlots_replicate_none (n : Nat) : encSlots (List.replicate n (none : Slot)) = List.replicate n 0 := by
  induction n with
  | zero => rfl
  | succ n ih => rw [List.replicate_succ, encSlots_cons, ih]; rfl

/-- a new (zeroed) array is well formed -/
theorem new_wf (start : Int) (region : Nat) (h : region ≥ 113 * 88) :
    WF (DynArr.new start region) (List.replicate 88 none) := by
  refine ⟨List.length_replicate, ?_, ?_, ?_, ?_⟩
  · intro p hp; rw [List.mem_replicate] at hp; cases hp.2
  · intro k
    rw [getD_replicate_none]
    simp [DynArr.new]
  · refine ⟨List.replicate (region - 88) 0, ?_⟩
    rw [encSlots_replicate_none, List.replicate_append_replicate]
    simp only [DynArr.new]
    congr 1; omega
  · simp only [DynArr.new, List.length_replicate]; omega

/-! ### whole histories -/

inductive Op where
  | update (t : Int) (ts : Nat) (u : TickData)
  | get (t : Int) (ts : Nat)
  | next (t : Int) (ts : Nat) (aToB : Bool)

inductive Out where
  | unit (r : R Unit)
  | tick (r : R TickData)
  | idx (r : R (Option Int))

def Op.ok : Op → Prop
  | .update _ _ u => if u.initialized then TickOK u else u = {}
  | _ => True

def stepDyn (a : DynArr) : Op → DynArr × Out
  | .update t ts u => match a.updateTick t ts u with
    | .ok a' => (a', .unit (.ok ()))
    | .error e => (a, .unit (.error e))
  | .get t ts => (a, .tick (a.getTick t ts))
  | .next t ts d => (a, .idx (a.nextInit t ts d))

def stepFix (a : FixArr) : Op → FixArr × Out
  | .update t ts u => match a.updateTick t ts u with
    | .ok a' => (a', .unit (.ok ()))
    | .error e => (a, .unit (.error e))
  | .get t ts => (a, .tick (a.getTick t ts))
  | .next t ts d => (a, .idx (a.nextInit t ts d))

def runDyn (a : DynArr) : List Op → DynArr × List Out
  | [] => (a, [])
  | op :: r => let s := stepDyn a op; let t := runDyn s.1 r; (t.1, s.2 :: t.2)

def runFix (a : FixArr) : List Op → FixArr × List Out
  | [] => (a, [])
  | op :: r => let s := stepFix a op; let t := runFix s.1 r; (t.1, s.2 :: t.2)

theorem step_refines (a : DynArr) (es : List Slot) (wf : WF a es) (op : Op) (hop : op.ok) :
    ∃ es', WF (stepDyn a op).1 es' ∧ (stepFix (absArr a.start es) op).1 = absArr (stepDyn a op).1.start es' ∧
      (stepDyn a op).2 = (stepFix (absArr a.start es) op).2 ∧ (stepDyn a op).1.data.length = a.data.length := by
  cases op with
  | update t ts u =>
    rcases update_refines a es wf t ts u hop with ⟨e, h1, h2⟩ | ⟨a', es', h1, h2, h3, h4⟩
    · exact ⟨es, by simp [stepDyn, h1, wf], by simp [stepDyn, stepFix, h1, h2], by simp [stepDyn, stepFix, h1, h2],
        by simp [stepDyn, h1]⟩
    · exact ⟨es', by simp [stepDyn, h1, h2], by simp [stepDyn, stepFix, h1, h4], by simp [stepDyn, stepFix, h1, h4],
        by simp [stepDyn, h1, h3]⟩
  | get t ts => exact ⟨es, wf, rfl, by simp [stepDyn, stepFix, get_refines a es wf], rfl⟩
  | next t ts d => exact ⟨es, wf, rfl, by simp [stepDyn, stepFix, next_refines a es wf], rfl⟩

/-- **C13, every history**: from any well-formed dynamic array and the fixed array holding the
    same ticks, any sequence of updates and queries produces the same outputs (tick contents,
    next-initialized answers, errors), and the dynamic array ends well formed -/
theorem run_refines (ops : List Op) (a : DynArr) (es : List Slot) (wf : WF a es) (hops : ∀ op ∈ ops, op.ok) :
    (runDyn a ops).2 = (runFix (absArr a.start es) ops).2 ∧ ∃ es', WF (runDyn a ops).1 es' ∧
      (runFix (absArr a.start es) ops).1 = absArr (runDyn a ops).1.start es' := by
  induction ops generalizing a es with
  | nil => exact ⟨rfl, es, wf, rfl⟩
  | cons op r ih =>
    obtain ⟨es1, w1, f1, o1, _⟩ := step_refines a es wf op (hops op List.mem_cons_self)
    have := ih (stepDyn a op).1 es1 w1 (fun o ho => hops o (List.mem_cons_of_mem _ ho))
    simp only [runDyn, runFix]
    rw [f1, o1]
    exact ⟨by rw [this.1], this.2⟩

/-- from a NEW array of either accessor's region length -/
theorem run_from_new (ops : List Op) (start : Int) (region : Nat) (h : region ≥ 113 * 88) (hops : ∀ op ∈ ops, op.ok) :
    (runDyn (DynArr.new start region) ops).2 = (runFix (FixArr.new start) ops).2 ∧
    ∃ es', WF (runDyn (DynArr.new start region) ops).1 es' := by
  have hn : absArr (DynArr.new start region).start (List.replicate 88 none) = FixArr.new start := by
    simp [absArr, FixArr.new, DynArr.new, absTick]
  have := run_refines ops _ _ (new_wf start region h) hops
  rw [hn] at this
  exact ⟨this.1, this.2.imp fun _ h => h.1⟩

/-! ### account size -/

/-- `calculate_modify_tick_array`'s size decision: +1 tick when an uninitialized tick is
    initialized, −1 when an initialized tick is de-initialized (the account is then resized by
    112 bytes) -/
def sizeUpdate (wasInit updInit : Bool) : Int :=
  if !wasInit && updInit then 1 else if wasInit && !updInit then -1 else 0

theorem countInit_set_split (pre post : List Slot) (x y : Slot) :
    (countInit (pre ++ y :: post) : Int) = countInit (pre ++ x :: post) + (if y.isSome then 1 else 0) - (if x.isSome then 1 else 0) := by
  unfold countInit
  simp only [List.countP_append, List.countP_cons]
  cases x <;> cases y <;> simp <;> omega

theorem countInit_set (es : List Slot) (i : Nat) (hi : i < es.length) (y : Slot) :
    (countInit (es.set i y) : Int) = countInit es + (if y.isSome then 1 else 0) - (if (es.getD i none).isSome then 1 else 0) := by
  have hes := split_at es i hi
  have hpre : (es.take i).length = i := by simp; omega
  have hset : es.set i y = es.take i ++ y :: es.drop (i + 1) := by
    conv => lhs; rw [hes]
    have := set_split (es.take i) (es.drop (i + 1)) (es.getD i none) y
    rw [hpre] at this; exact this
  rw [hset]
  have := countInit_set_split (es.take i) (es.drop (i + 1)) (es.getD i none) y
  rw [← hes] at this
  exact this

/-- the used length moves by exactly 112 × the size decision taken from (tick read before the
    update).initialized and update.initialized — so an account resized by that decision always has
    length 148 + 112 × (initialized ticks) -/
theorem used_len_step (a : DynArr) (es : List Slot) (wf : WF a es) (i : Nat) (hi : i < 88) (u : TickData)
    (a' : DynArr) (h : a.updateAt i u = .ok a') :
    (a'.usedLen : Int) = a.usedLen + 112 * sizeUpdate (absTick (es.getD i none)).initialized u.initialized := by
  obtain ⟨a2, h1, wf2, _, _⟩ := updateAt_wf a es wf i hi u
  rw [h] at h1; cases h1
  have u1 := (used_len a es wf).2
  have u2 := (used_len a' _ wf2).2
  unfold DynArr.usedLen
  rw [u1, u2]
  have hc := countInit_set es i (by rw [wf.len]; exact hi) (slotOfUpdate u)
  rw [absTick_init]
  unfold sizeUpdate
  have hs : (slotOfUpdate u).isSome = u.initialized := by unfold slotOfUpdate; split <;> simp_all
  rw [hs] at hc
  push_cast
  rw [hc]
  cases (es.getD i none).isSome <;> cases u.initialized <;> simp <;> omega

/-! ### the Pinocchio accessor -/

theorem tag_wf (a : DynArr) (es : List Slot) (wf : WF a es) (i : Nat) (hi : i < 88) :
    a.data.getD (byteOffset a.bitmap i) 0 = if (es.getD i none).isSome then 1 else 0 := by
  obtain ⟨pad, hd⟩ := wf.data
  have hi' : i < es.length := by rw [wf.len]; exact hi
  have hes := split_at es i hi'
  have hoff := byteOffset_eq a.bitmap es wf.bits wf.pay i (by omega)
  have hdata : a.data = encSlots (es.take i) ++ (encSlot (es.getD i none) ++ (encSlots (es.drop (i + 1)) ++ pad)) := by
    rw [hd]; conv => lhs; rw [hes]
    rw [encSlots_append, encSlots_cons]; simp
  rw [hoff, hdata]
  generalize es.getD i none = x
  cases x <;> simp [encSlot, getD_at]

/-- on a well-formed array the Pinocchio accessor (tag ≠ 0 ⇒ initialized, no decode error) and the
    Anchor accessor (Borsh decode) coincide -/
theorem pino_eq (a : DynArr) (es : List Slot) (wf : WF a es) (i : Nat) (hi : i < 88) (u : TickData) :
    a.updateAtP i u = a.updateAt i u ∧ a.getAtP i = a.getAt i := by
  have ht := tag_wf a es wf i hi
  unfold DynArr.updateAtP DynArr.updateAt DynArr.getAtP DynArr.getAt
  simp only [ht]
  cases (es.getD i none).isSome <;> simp

/-! ### the updates the program produces are canonical -/

/-- canonical tick value: initialized with in-range fields, or the default -/
def Canon (u : TickData) : Prop := if u.initialized then TickOK u else u = {}

/-- `next_tick_modify_liquidity_update` applied to a canonical tick yields a canonical update
    (in particular an uninitialized update carries no data, which is what makes the fixed array —
    which stores the update verbatim — and the dynamic array — which stores one byte — agree) -/
theorem modify_update_canon (t : TickData) (ti ci : Int) (fgA fgB : Nat) (rw : List RewardInfo) (delta : Int)
    (up : Bool) (u : TickData) (ht : Canon t) (ha : fgA < TWO128) (hb : fgB < TWO128)
    (hr : ∃ a b c : RewardInfo, rw = [a, b, c] ∧ a.growth < TWO128 ∧ b.growth < TWO128 ∧ c.growth < TWO128)
    (h : nextTickModifyLiquidityUpdate t ti ci fgA fgB rw delta up = .ok u) : Canon u := by
  have h128 : TWO128 = 340282366920938463463374607431768211456 := rfl
  have hmax : U128_MAX = 340282366920938463463374607431768211455 := rfl
  unfold nextTickModifyLiquidityUpdate at h
  by_cases hd : delta = 0
  · rw [if_pos hd] at h; cases h; exact ht
  · rw [if_neg hd] at h
    cases hg : addLiquidityDelta t.gross delta with
    | error e => rw [hg] at h; cases h
    | ok gross =>
      rw [hg] at h
      simp only [] at h
      by_cases hz : gross = 0
      · rw [if_pos hz] at h; cases h; unfold Canon; simp
      · rw [if_neg hz] at h
        cases hn : checkedI128 (if up = true then t.net - delta else t.net + delta) with
        | error e => rw [hn] at h; cases h
        | ok net =>
          rw [hn] at h
          cases h
          have hgross : gross < TWO128 := by
            unfold addLiquidityDelta at hg
            rw [if_neg hd] at hg
            have hto : t.gross < TWO128 := by
              unfold Canon at ht
              by_cases hi : t.initialized = true
              · rw [if_pos hi] at ht; exact ht.gross
              · rw [if_neg hi] at ht; rw [ht]; decide
            split at hg
            · split at hg
              · cases hg; omega
              · cases hg
            · split at hg
              · cases hg; omega
              · cases hg
          have hnet : -(2 ^ 127 : Int) ≤ net ∧ net < 2 ^ 127 := by
            generalize (if up = true then t.net - delta else t.net + delta) = x at hn
            unfold checkedI128 at hn
            by_cases hx : -170141183460469231731687303715884105728 ≤ x ∧ x ≤ 170141183460469231731687303715884105727
            · rw [if_pos hx] at hn; cases hn; omega
            · rw [if_neg hx] at hn; cases hn
          obtain ⟨a, b, c, hrw, h0, h1, h2⟩ := hr
          unfold Canon
          simp only [if_true]
          refine ⟨rfl, hnet, hgross, ?_, ?_, ?_⟩
          · simp only []
            by_cases hg0 : t.gross = 0
            · simp only [hg0, if_true]; split
              · exact ha
              · decide
            · simp only [hg0, if_false]
              unfold Canon at ht
              by_cases hi : t.initialized = true
              · rw [if_pos hi] at ht; exact ht.fa
              · rw [if_neg hi] at ht; rw [ht]; decide
          · simp only []
            by_cases hg0 : t.gross = 0
            · simp only [hg0, if_true]; split
              · exact hb
              · decide
            · simp only [hg0, if_false]
              unfold Canon at ht
              by_cases hi : t.initialized = true
              · rw [if_pos hi] at ht; exact ht.fb
              · rw [if_neg hi] at ht; rw [ht]; decide
          · simp only []
            by_cases hg0 : t.gross = 0
            · simp only [hg0, if_true]
              split
              · exact ⟨a.growth, b.growth, c.growth, by simp [hrw], h0, h1, h2⟩
              · exact ⟨0, 0, 0, rfl, by decide, by decide, by decide⟩
            · simp only [hg0, if_false]
              unfold Canon at ht
              by_cases hi : t.initialized = true
              · rw [if_pos hi] at ht; exact ht.rgo
              · rw [if_neg hi] at ht; rw [ht]; exact ⟨0, 0, 0, rfl, by decide, by decide, by decide⟩

/-- crossing keeps a canonical initialized tick canonical -/
theorem cross_update_canon (t : TickData) (fgA fgB : Nat) (rw : List RewardInfo) (ht : TickOK t) :
    TickOK (nextTickCrossUpdate t fgA fgB rw) := by
  have hw : ∀ a b, wsub a b < TWO128 := by
    intro a b; unfold wsub; exact Nat.mod_lt _ (by decide)
  obtain ⟨r0, r1, r2, hr, h0, h1, h2⟩ := ht.rgo
  unfold nextTickCrossUpdate
  refine ⟨ht.init, ht.net, ht.gross, hw _ _, hw _ _, ?_⟩
  refine ⟨_, _, _, rfl, ?_, ?_, ?_⟩ <;> simp only [hr] <;> split <;> first | exact hw _ _ | simp [h0, h1, h2]

-- Non-vacuity: an initialized tick update satisfying TickOK, applied to a new array
example : TickOK { initialized := true, net := -5, gross := 7, fgoA := 1, fgoB := 2, rgo := [3, 4, 5] } :=
  ⟨rfl, by decide, by decide, by decide, by decide, ⟨3, 4, 5, rfl, by decide, by decide, by decide⟩⟩

end WP.C13
