import WP.Props.SdkStep
import WP.Props.SdkSearch
import WP.Props.SwapPath
import WP.Props.Reach
/-
  C20, whole swap: the SDK's `compute_swap` (model `sdkSwap`: own step function, own tick search over the whole
  sequence, unchecked liquidity arithmetic, wrapping fee sum) returns the token amounts and the total fee of the
  program's `swap` on the same pool, tick map and tick arrays, whenever the program's swap succeeds —
  for every amount, limit, mode, direction, static and adaptive fee, over any aligned consecutive array sequence.

  The proof is a lock-step simulation of the two loops along the invariant `Path` of the program's loop
  (WP/Props/SwapPath.lean): the search results coincide (SdkSearch + C10's interval theorems), each step is the same
  record (SdkStep.sdk_step_eq), crossing changes the liquidity by the same amount because the program's checked
  result is in range, and the tick maps agree on `initialized` / `liquidity_net` because crossing a tick only
  rewrites its outside growths.
-/
set_option linter.unusedSimpArgs false
namespace WP.SdkSim
open WP WP.Gen WP.C05 WP.C10 WP.Path WP.SdkSearch

/-- the SDK reads the tick map as it was before the swap: same flags and net liquidity as the program's evolving map -/
def TickAgree (cur m0 : TickMap) : Prop :=
  ∀ t, (cur.get t).initialized = (m0.get t).initialized ∧ (cur.get t).net = (m0.get t).net

/-- the two loop states hold the same values -/
structure Rel (s : SwapSt) (σ : SdkSt) : Prop where
  rem : σ.remaining = s.remaining
  cal : σ.calculated = s.calculated
  price : σ.price = s.price
  tick : σ.tick = s.tick
  liq : σ.liq = s.liq
  fee : σ.fee = s.feeSum
  fm : σ.fm = s.fm

/-- the SDK context belongs to the program context -/
structure CtxRel (c : SwapCtx) (k : SdkCtx) : Prop where
  ts : k.ts = c.ts
  dir : k.aToB = c.aToB
  inp : k.isInput = c.isInput
  lim : k.limit = c.limit

/-- the window of the SDK's sequence against the program's array list -/
structure Win (arrays : List Int) (ts : Nat) (aToB : Bool) (lo hi : Int) (first last : Int) : Prop where
  mem : ∀ (k : Nat) (st : Int), arrays[k]? = some st → first ≤ st ∧ st ≤ last
  lo_eq : lo = max first MIN_TICK_INDEX
  hi_eq : hi = min (last + 88 * (ts : Int) - 1) MAX_TICK_INDEX
  grid : first % (ts : Int) = 0
  endpt : ∀ st, arrays[arrays.length - 1]? = some st → st = (if aToB then first else last)
  span : last + 88 * (ts : Int) ≤ first + (arrays.length : Int) * 88 * ts

/-- the step's well-formedness facts from the loop invariant (as in `step_down` / `step_up`) -/
theorem wf_of_path (c : SwapCtx) (ps : List (Nat × PositionD)) (p0 : Nat) (s : SwapSt) (nai : Nat) (nti : Int)
    (ok : CtxOK c) (P : Path c ps p0 s) (A : Aim c s nai nti) :
    C02.WFStep s.remaining s.fm.updateVolAcc.totalFeeRate s.liq s.price
      (s.fm.updateVolAcc.boundedTarget (if c.aToB then max c.limit (sp nti) else min c.limit (sp nti)) s.liq).1 c.aToB := by
  have hpb := TP_price_bounds _ _ P.tp
  have hlim := P.lim
  unfold Aim at A
  by_cases hd : c.aToB = true
  · have hfm0 : FmOK true s.tick s.fm := by rw [← hd]; exact P.fm
    rw [if_pos hd] at A hlim ⊢
    obtain ⟨n1, n2, _, n3, _⟩ := A
    have hsn : sp nti ≤ s.price := by
      rcases P.tp with ⟨a, b, c', _, _⟩ | ⟨a, _⟩
      · have := C09.sp_le nti s.tick n1 n3 b; omega
      · omega
    have htk : MIN_TICK_INDEX ≤ s.tick ∧ s.tick ≤ MAX_TICK_INDEX ∧ sp s.tick ≤ s.price := by
      rcases P.tp with ⟨a, b, c', _, _⟩ | ⟨a, _⟩
      · exact ⟨a, b, c'⟩
      · omega
    have htgt : max c.limit (sp nti) ≤ s.price := Nat.max_le.mpr ⟨hlim.1, hsn⟩
    have hbd := fm_bounded_down s.fm s.tick s.price (max c.limit (sp nti)) s.liq hfm0 htk.1 htk.2.1 htk.2.2 htgt
    exact { cur_lo := hpb.1, cur_hi := hpb.2,
            tgt_lo := Nat.le_trans (Nat.le_trans ok.lim_lo (Nat.le_max_left _ _)) hbd.1,
            tgt_hi := Nat.le_trans hbd.2 hpb.2,
            dirOk := by rw [if_pos hd]; exact hbd.2,
            remU := P.remU, LU := P.liqU, rateOk := rate_ok true s.tick s.fm hfm0 }
  · have hd' : c.aToB = false := by cases hb : c.aToB <;> simp_all
    have hfm0 : FmOK false s.tick s.fm := by rw [← hd']; exact P.fm
    rw [if_neg hd] at A hlim ⊢
    obtain ⟨n1, n2, _, n3, _⟩ := A
    have hsn : s.price ≤ sp nti := by
      rcases P.tp with ⟨a, b, _, d, _⟩ | ⟨a, b⟩
      · have h1 := d (by omega)
        have := C09.sp_le (s.tick + 1) nti (by omega) (by omega) n2; omega
      · rw [b]; exact C09.sp_le _ _ (Int.le_refl _) n1 n2
    have htk : MIN_TICK_INDEX - 1 ≤ s.tick ∧ s.tick < MAX_TICK_INDEX ∧ s.price ≤ sp (s.tick + 1) := by
      rcases P.tp with ⟨a, b, _, d, _⟩ | ⟨a, b⟩
      · exact ⟨by omega, by omega, d (by omega)⟩
      · refine ⟨by omega, by omega, ?_⟩
        rw [a, b, show MIN_TICK_INDEX - 1 + 1 = MIN_TICK_INDEX by omega]
    have htgt : s.price ≤ min c.limit (sp nti) := Nat.le_min.mpr ⟨hlim.2, hsn⟩
    have hbd := fm_bounded_up s.fm s.tick s.price (min c.limit (sp nti)) s.liq hfm0 htk.1 htk.2.1 htk.2.2 htgt
    exact { cur_lo := hpb.1, cur_hi := hpb.2,
            tgt_lo := Nat.le_trans hpb.1 hbd.1,
            tgt_hi := Nat.le_trans hbd.2 (Nat.le_trans (Nat.min_le_left _ _) ok.lim_hi),
            dirOk := by rw [if_neg hd]; exact hbd.1,
            remU := P.remU, LU := P.liqU, rateOk := rate_ok false s.tick s.fm hfm0 }

/-- all parts of one successful iteration of the program's loop -/
theorem swapStep_full (c : SwapCtx) (s s' : SwapSt) (nai : Nat) (nti : Int) (ntp tgt : Nat)
    (h : swapStep c s nai nti ntp tgt = .ok s') :
    ∃ sc ra cr fm', computeSwap s.remaining s.fm.updateVolAcc.totalFeeRate s.liq s.price
        (s.fm.updateVolAcc.boundedTarget tgt s.liq).1 c.isInput c.aToB = .ok sc ∧
      stepAmounts c.isInput s.remaining s.calculated sc = .ok ra ∧
      s.feeSum + sc.feeAmount ≤ U64_MAX ∧
      stepCross c s sc (calculateFees sc.feeAmount c.protoRate s.liq s.protoFee s.fgIn).2 nai nti ntp = .ok cr ∧
      (if !(s.fm.updateVolAcc.boundedTarget tgt s.liq).2 then (.ok s.fm.updateVolAcc.advance : R FeeMgr)
        else s.fm.updateVolAcc.advanceAfterSkip sc.nextPrice ntp nti) = .ok fm' ∧
      s'.remaining = ra.1 ∧ s'.calculated = ra.2 ∧ s'.price = sc.nextPrice ∧ s'.tick = cr.tick ∧ s'.liq = cr.liq ∧
      s'.feeSum = s.feeSum + sc.feeAmount ∧ s'.fm = fm' ∧ s'.ticks = cr.ticks := by
  unfold swapStep at h
  simp only [] at h
  split at h
  · cases h
  · rename_i sc hsc
    split at h
    · cases h
    · rename_i ra hra
      split at h
      · cases h
      · rename_i feeSum hfee
        split at h
        · cases h
        · rename_i cr hcross
          split at h
          · cases h
          · rename_i fm' hfm
            simp only [Except.ok.injEq] at h
            subst h
            have hf : feeSum = s.feeSum + sc.feeAmount ∧ feeSum ≤ U64_MAX := by
              unfold checkedAdd64 at hfee
              by_cases c1 : s.feeSum + sc.feeAmount ≤ U64_MAX
              · rw [if_pos c1] at hfee; simp only [Except.ok.injEq] at hfee; subst hfee; exact ⟨rfl, c1⟩
              · rw [if_neg c1] at hfee; cases hfee
            exact ⟨sc, ra, cr, fm', hsc, hra, by omega, hcross, hfm, rfl, rfl, rfl, rfl, rfl, hf.1, rfl, rfl⟩

/-- a step the bookkeeping accepts has input plus fee within a u64 -/
theorem amounts_sum (isInput : Bool) (rem cal : Nat) (sc : SwapStep) (ra : Nat × Nat) (hrem : rem ≤ U64_MAX)
    (h : stepAmounts isInput rem cal sc = .ok ra) : sc.amountIn + sc.feeAmount ≤ U64_MAX := by
  unfold stepAmounts checkedSub64 checkedAdd64 at h
  cases isInput with
  | true =>
    simp only [if_true] at h
    by_cases c1 : sc.amountIn ≤ rem
    · rw [if_pos c1] at h
      simp only [] at h
      by_cases c2 : sc.feeAmount ≤ rem - sc.amountIn
      · omega
      · rw [if_neg c2] at h; cases h
    · rw [if_neg c1] at h; cases h
  | false =>
    simp only [Bool.false_eq_true, if_false] at h
    by_cases c1 : sc.amountOut ≤ rem
    · rw [if_pos c1] at h
      simp only [] at h
      by_cases c2 : cal + sc.amountIn ≤ U64_MAX
      · rw [if_pos c2] at h
        simp only [] at h
        by_cases c3 : cal + sc.amountIn + sc.feeAmount ≤ U64_MAX
        · omega
        · rw [if_neg c3] at h; cases h
      · rw [if_neg c2] at h; cases h
    · rw [if_neg c1] at h; cases h

/-- `get_next_liquidity` on the crossed tick is the program's checked result -/
theorem nextLiq_eq (liq l : Nat) (net : Int) (aToB : Bool) (hl : liq ≤ U128_MAX)
    (h : addLiquidityDelta liq (if aToB then -net else net) = .ok l) (t : TickData) (ht : t.net = net) :
    sdkNextLiq liq (some t) aToB = l := by
  have h128 : U128_MAX + 1 = TWO128 := by decide +kernel
  obtain ⟨e, hle⟩ := addLiq_spec liq l _ h hl
  unfold sdkNextLiq
  simp only [ht]
  cases aToB with
  | true =>
    simp only [if_true] at e ⊢
    by_cases hn : net < 0
    · rw [if_pos hn]
      have : liq + net.natAbs = l := by omega
      rw [this]; exact Nat.mod_eq_of_lt (by omega)
    · rw [if_neg hn]
      have : liq + TWO128 - net.natAbs = l + TWO128 := by omega
      rw [this, Nat.add_mod_right]; exact Nat.mod_eq_of_lt (by omega)
  | false =>
    simp only [Bool.false_eq_true, if_false] at e ⊢
    by_cases hn : net < 0
    · rw [if_pos hn]
      have : liq + TWO128 - net.natAbs = l + TWO128 := by omega
      rw [this, Nat.add_mod_right]; exact Nat.mod_eq_of_lt (by omega)
    · rw [if_neg hn]
      have : liq + net.natAbs = l := by omega
      rw [this]; exact Nat.mod_eq_of_lt (by omega)

theorem nextLiq_none (liq : Nat) (aToB : Bool) (hl : liq ≤ U128_MAX) : sdkNextLiq liq none aToB = liq := by
  have h128 : U128_MAX + 1 = TWO128 := by decide +kernel
  unfold sdkNextLiq
  cases aToB <;> simp <;> exact Nat.mod_eq_of_lt (by omega)

/-- crossing a tick leaves the flags and the net liquidity of every tick as they were -/
theorem agree_cross (cur m0 : TickMap) (nti : Int) (ga gb : Nat) (rw : List RewardInfo) (ag : TickAgree cur m0) :
    TickAgree (cur.set nti (nextTickCrossUpdate (cur.get nti) ga gb rw)) m0 := by
  intro t
  rw [C05.tick_get_set]
  by_cases ht : t = nti
  · rw [if_pos ht]
    obtain ⟨a, _, b⟩ := cross_upd_same (cur.get nti) ga gb rw
    rw [a, b, ← ht]; exact ⟨(ag t).1, (ag t).2⟩
  · rw [if_neg ht]; exact ag t

/-- **one iteration of the two loops**: same step, same bookkeeping, same liquidity and tick index -/
theorem iter_sim (c : SwapCtx) (k : SdkCtx) (ps : List (Nat × PositionD)) (p0 : Nat) (s s' : SwapSt) (σ : SdkSt)
    (nai : Nat) (nti : Int) (tgt : Nat) (ok : CtxOK c) (ck : CtxRel c k) (P : Path c ps p0 s) (A : Aim c s nai nti)
    (ag : TickAgree s.ticks k.ticks) (R : Rel s σ)
    (htgt : tgt = if c.aToB then max c.limit (sp nti) else min c.limit (sp nti))
    (h : swapStep c s nai nti (sp nti) tgt = .ok s') :
    ∃ σ', sdkIter k σ (answer k.ticks c.ts nti).1 nti (sp nti) tgt = .ok σ' ∧ Rel s' σ' ∧ TickAgree s'.ticks k.ticks := by
  obtain ⟨sc, ra, cr, fm', hsc, hra, hfeeU, hcross, hfm, e1, e2, e3, e4, e5, e6, e7, e8⟩ := swapStep_full c s s' nai nti (sp nti) tgt h
  have wf := wf_of_path c ps p0 s nai nti ok P A
  rw [← htgt] at wf
  have hsum := amounts_sum c.isInput s.remaining s.calculated sc ra P.remU hra
  have hstep := SdkStep.sdk_step_eq _ _ _ _ _ _ _ sc wf hsc hsum
  have h64 : U64_MAX + 1 = TWO64 := by decide +kernel
  -- liquidity and tick index after the step
  have hlt : (if sc.nextPrice = sp nti then (sdkNextLiq s.liq (answer k.ticks c.ts nti).1 c.aToB, if c.aToB then nti - 1 else nti)
              else if sc.nextPrice ≠ s.price then (s.liq, ti sc.nextPrice) else (s.liq, s.tick)) = (cr.liq, cr.tick) ∧
             TickAgree cr.ticks k.ticks := by
    unfold Aim at A
    obtain ⟨_, _, ⟨st, hst, l1, l2⟩, _⟩ := A
    rcases stepCross_spec c s sc _ nai nti (sp nti) cr hcross with
      ⟨hp, htick, start, hstart, hcase⟩ | ⟨hp, hq, htick, hliq, hticks⟩ | ⟨hp, hq, htick, hliq, hticks⟩
    · rw [hst] at hstart
      cases hstart
      rw [if_pos hp, htick]
      rcases hcase with ⟨hti, hadd, htk⟩ | ⟨hno2, hl, htk⟩
      · simp only [Bool.and_eq_true] at hti
        have hinit : initAt s.ticks nti = true := hti.2
        have hgrid := (init_grid s.ticks ps c.ts P.tf nti hinit).1
        have hg : gridInit k.ticks c.ts nti = true := by
          unfold gridInit initAt
          rw [← (ag nti).1]
          unfold initAt at hinit
          rw [hinit]; simp [hgrid]
        unfold answer
        rw [hg]
        simp only [if_true]
        rw [nextLiq_eq s.liq cr.liq (s.ticks.get nti).net c.aToB P.liqU hadd (k.ticks.get nti) (ag nti).2.symm]
        refine ⟨rfl, ?_⟩
        rw [htk]; exact agree_cross _ _ _ _ _ _ ag
      · have hni := not_init_of_not_crossed c ps s st nti ok P.tf (ok.aligned nai st hst) l1 l2 hno2
        have hg : gridInit k.ticks c.ts nti = false := by
          unfold gridInit initAt
          rw [← (ag nti).1]
          unfold initAt at hni
          rw [hni]; rfl
        unfold answer
        rw [hg]
        simp only [Bool.false_eq_true, if_false]
        rw [nextLiq_none s.liq c.aToB P.liqU, hl]
        refine ⟨rfl, ?_⟩
        rw [htk]; exact ag
    · rw [if_neg hp, if_pos hq, hliq, htick]
      refine ⟨rfl, ?_⟩
      rw [hticks]; exact ag
    · rw [if_neg hp, if_neg (by simpa using hq), hliq, htick]
      refine ⟨rfl, ?_⟩
      rw [hticks]; exact ag
  refine ⟨{ remaining := ra.1, calculated := ra.2, price := sc.nextPrice, tick := cr.tick, liq := cr.liq,
            fee := s.feeSum + sc.feeAmount, fm := fm' }, ?_, ?_, ?_⟩
  · unfold sdkIter
    simp only [R.fm, R.rem, R.liq, R.price, R.cal, R.tick, R.fee, ck.dir, ck.inp, hstep, hra, hfm, hlt.1]
    rw [Nat.mod_eq_of_lt (by omega)]
  · exact { rem := e1.symm, cal := e2.symm, price := e3.symm, tick := e4.symm, liq := e5.symm, fee := e6.symm, fm := e7.symm }
  · rw [e8]; exact hlt.2

theorem initAt_agree (cur m0 : TickMap) (ag : TickAgree cur m0) (x : Int) : initAt m0 x = initAt cur x := by
  unfold initAt; exact (ag x).1.symm

/-- a grid tick at or below `s` is at or below `s` rounded down to the grid -/
theorem grid_le_floor (g s : Int) (ts : Nat) (hts : 0 < ts) (hg : g % (ts : Int) = 0) (h : g ≤ s) : g ≤ s - s % (ts : Int) := by
  have htsI : (0 : Int) < (ts : Int) := by omega
  have hm := Int.emod_nonneg s (by omega : (ts : Int) ≠ 0)
  have hm2 := Int.emod_lt_of_pos s htsI
  by_cases c : g ≤ s - s % (ts : Int)
  · exact c
  · exfalso
    have := mult_gap (ts : Int) (s - s % (ts : Int)) g htsI Int.dvd_self_sub_emod (Int.dvd_of_emod_eq_zero hg) (by omega)
    omega

/-- **the searches agree**: where the program's array-by-array search finds the next tick, the SDK's grid walk over
    the whole sequence returns the same index, with the tick's data exactly when it is initialized -/
theorem search_sim (c : SwapCtx) (k : SdkCtx) (ps : List (Nat × PositionD)) (p0 : Nat) (s : SwapSt) (first last : Int)
    (ok : CtxOK c) (ck : CtxRel c k) (P : Path c ps p0 s) (hne : c.limit ≠ s.price)
    (ag : TickAgree s.ticks k.ticks) (W : Win c.arrays c.ts c.aToB k.lo k.hi first last)
    (hfuel : k.searchFuel = c.arrays.length * 88 + 2) (r : Nat × Int)
    (h : seqNextInit s.ticks c.arrays c.ts c.aToB (c.arrays.length + 1) s.tick s.arrayIdx = .ok r) :
    (if c.aToB then sdkPrevInit k.ticks k.lo k.hi c.ts k.searchFuel s.tick
     else sdkNextInit k.ticks k.lo k.hi c.ts k.searchFuel s.tick) = .ok (answer k.ticks c.ts r.2) := by
  have htsI : (0 : Int) < (c.ts : Int) := by have := ok.ts; omega
  obtain ⟨start, harr, hrange⟩ := seq_first _ _ _ _ _ _ _ _ h
  have hcons := ok.consec
  have hlim := P.lim
  have hstm := W.mem _ _ harr
  have hspan := W.span
  have hlen : ((c.arrays.length * 88 + 1 : Nat) : Int) * (c.ts : Int) = (c.arrays.length : Int) * 88 * c.ts + c.ts := by
    push_cast; ring
  rw [hfuel]
  by_cases hd : c.aToB = true
  · rw [if_pos hd] at hrange hcons hlim ⊢
    rw [hd] at h
    have htick : MIN_TICK_INDEX ≤ s.tick ∧ s.tick ≤ MAX_TICK_INDEX := by
      rcases P.tp with ⟨a, b, _⟩ | ⟨_, b⟩
      · exact ⟨a, b⟩
      · exfalso; apply hne; rw [b, sp_min] at hlim ⊢; have := ok.lim_lo; omega
    obtain ⟨i, r', hrun, _, hrs, ⟨st, hst, q1, q2⟩, hno, hkind⟩ :=
      C10.seqNext_down_interval s.ticks c.arrays c.ts ok.ts hcons ok.aligned (c.arrays.length + 1) s.arrayIdx s.tick start
        harr hrange.1 hrange.2 htick.1 (by omega)
    rw [hrun] at h
    cases h
    have hstm' := W.mem _ _ hst
    have hr'min : MIN_TICK_INDEX ≤ r' := by
      rcases hkind with hi | hm | ⟨st', _, _, _, hgt⟩
      · exact (init_grid s.ticks ps c.ts P.tf r' hi).2.1
      · omega
      · omega
    have hlo : k.lo ≤ r' := by rw [W.lo_eq]; omega
    have hhi : s.tick ≤ k.hi := by rw [W.hi_eq]; omega
    have hno' : ∀ x, r' < x → x ≤ s.tick → x % (c.ts : Int) = 0 → initAt k.ticks x = false := by
      intro x a b d; rw [initAt_agree _ _ ag]; exact hno x a b d
    have hk : gridInit k.ticks c.ts r' = true ∨ r' = k.lo := by
      rcases hkind with hi | hm | ⟨st', hst', hrst, hlast, hgt⟩
      · left
        have hg := (init_grid s.ticks ps c.ts P.tf r' hi).1
        unfold gridInit; rw [initAt_agree _ _ ag, hi]; simp [hg]
      · right; rw [W.lo_eq]; omega
      · right
        rw [hst] at hst'; cases hst'
        have hidx : i = c.arrays.length - 1 := by omega
        rw [hidx] at hst
        have := W.endpt _ hst
        rw [hd, if_pos rfl] at this
        rw [W.lo_eq]; omega
    have hf : s.tick < k.lo + ((c.arrays.length * 88 + 1 : Nat) : Int) * c.ts := by
      rw [hlen, W.lo_eq]; omega
    exact prevInit_spec k.ticks k.lo k.hi c.ts ok.ts s.tick r' hlo hrs hhi hno' hk _ hf
  · rw [if_neg hd] at hrange hcons hlim ⊢
    have hd' : c.aToB = false := by cases hb : c.aToB <;> simp_all
    rw [hd'] at h
    have htick : s.tick < MAX_TICK_INDEX ∧ MIN_TICK_INDEX - 1 ≤ s.tick := by
      rcases P.tp with ⟨a, b, _, _, e⟩ | ⟨a, _⟩
      · refine ⟨?_, by omega⟩
        by_cases hm : s.tick = MAX_TICK_INDEX
        · exfalso; apply hne; rw [e hm, hm, sp_max] at hlim ⊢; have := ok.lim_hi; omega
        · omega
      · rw [a]; exact ⟨by decide, Int.le_refl _⟩
    obtain ⟨i, r', hrun, _, hrs, ⟨st, hst, q1, q2⟩, hno, hkind⟩ :=
      C10.seqNext_up_interval s.ticks c.arrays c.ts ok.ts hcons ok.aligned (c.arrays.length + 1) s.arrayIdx s.tick start
        harr hrange.1 hrange.2 htick.1 (by omega)
    rw [hrun] at h
    cases h
    have hstm' := W.mem _ _ hst
    have hr'max : r' ≤ MAX_TICK_INDEX := by
      rcases hkind with hi | hm | ⟨st', _, _, _, hgt⟩
      · exact (init_grid s.ticks ps c.ts P.tf r' hi).2.2
      · omega
      · omega
    have hhi : r' ≤ k.hi := by rw [W.hi_eq]; omega
    have hlow : ∀ x, s.tick < x → x % (c.ts : Int) = 0 → k.lo ≤ x := by
      intro x hx hg
      have := C10.grid_ge first x c.ts ok.ts W.grid hg (by omega)
      rw [W.lo_eq]; omega
    have hno' : ∀ x, s.tick < x → x < r' → x % (c.ts : Int) = 0 → initAt k.ticks x = false := by
      intro x a b d; rw [initAt_agree _ _ ag]; exact hno x a b d
    have hk : gridInit k.ticks c.ts r' = true ∨ r' = k.hi := by
      rcases hkind with hi | hm | ⟨st', hst', hrst, hlast, hgt⟩
      · left
        have hg := (init_grid s.ticks ps c.ts P.tf r' hi).1
        unfold gridInit; rw [initAt_agree _ _ ag, hi]; simp [hg]
      · right; rw [W.hi_eq]; omega
      · right
        rw [hst] at hst'; cases hst'
        have hidx : i = c.arrays.length - 1 := by omega
        rw [hidx] at hst
        have := W.endpt _ hst
        rw [hd', if_neg (by simp)] at this
        rw [W.hi_eq]; omega
    have hfl := grid_le_floor (first - c.ts) s.tick c.ts ok.ts (by rw [Int.sub_emod, W.grid]; simp) (by omega)
    have hf : k.hi - (s.tick - s.tick % (c.ts : Int)) < ((c.arrays.length * 88 + 1 : Nat) : Int) * c.ts := by
      rw [hlen, W.hi_eq]; omega
    exact nextInit_spec k.ticks k.lo k.hi c.ts ok.ts s.tick r' hrs hhi hlow hno' hk _ hf

/-- the SDK's view of the program's inner-loop target -/
def toSdkInner (m0 : TickMap) (ts : Nat) : Option (Nat × Int × Nat × Nat) → Option (Option TickData × Int × Nat × Nat)
  | none => none
  | some (_, nti, ntp, tgt) => some ((answer m0 ts nti).1, nti, ntp, tgt)

/-- **the two nested loops in lock step** -/
theorem loop_sim (c : SwapCtx) (k : SdkCtx) (ps : List (Nat × PositionD)) (p0 : Nat) (first last : Int)
    (ok : CtxOK c) (ck : CtxRel c k) (W : Win c.arrays c.ts c.aToB k.lo k.hi first last)
    (hfuel : k.searchFuel = c.arrays.length * 88 + 2) :
    ∀ (fuel : Nat) (s : SwapSt) (inner : Option (Nat × Int × Nat × Nat)) (s' : SwapSt) (σ : SdkSt),
      Path c ps p0 s → TickAgree s.ticks k.ticks → Rel s σ →
      (∀ nai nti ntp tgt, inner = some (nai, nti, ntp, tgt) →
        Aim c s nai nti ∧ ntp = sp nti ∧ tgt = (if c.aToB then max c.limit (sp nti) else min c.limit (sp nti))) →
      swapLoop c fuel s inner = .ok s' →
      ∃ σ', sdkLoop k fuel σ (toSdkInner k.ticks c.ts inner) = .ok σ' ∧ Rel s' σ' := by
  intro fuel
  induction fuel with
  | zero => intro s inner s' σ _ _ _ _ h; unfold swapLoop at h; cases h
  | succ fuel ih =>
    intro s inner s' σ P ag R hin h
    cases inner with
    | none =>
      unfold swapLoop at h
      unfold toSdkInner sdkLoop
      rw [R.rem, R.price, ck.lim]
      by_cases hc : (decide (s.remaining > 0) && decide (c.limit ≠ s.price)) = true
      · rw [if_pos hc] at h ⊢
        simp only [Bool.and_eq_true, decide_eq_true_eq] at hc
        cases hs : seqNextInit s.ticks c.arrays c.ts c.aToB (c.arrays.length + 1) s.tick s.arrayIdx with
        | error e => rw [hs] at h; cases h
        | ok r =>
          rw [hs] at h
          simp only [] at h
          have hsearch := search_sim c k ps p0 s first last ok ck P hc.2 ag W hfuel r hs
          rw [ck.dir, ck.ts, R.tick, hsearch]
          simp only []
          have A := aim_of_search c ps p0 s ok P hc.2 r hs
          exact ih s (some (r.1, r.2, sp r.2, if c.aToB then max c.limit (sp r.2) else min c.limit (sp r.2))) s' σ P ag R
            (fun nai nti ntp tgt he => by cases he; exact ⟨A, rfl, rfl⟩) h
      · rw [if_neg hc] at h ⊢; cases h; exact ⟨σ, rfl, R⟩
    | some w =>
      obtain ⟨nai, nti, ntp, tgt⟩ := w
      obtain ⟨A, hntp, htgt⟩ := hin nai nti ntp tgt rfl
      unfold swapLoop at h
      unfold toSdkInner sdkLoop
      cases hst : swapStep c s nai nti ntp tgt with
      | error e => rw [hst] at h; cases h
      | ok s1 =>
        rw [hst] at h
        simp only [] at h
        rw [hntp] at hst
        obtain ⟨σ1, hiter, R1, ag1⟩ := iter_sim c k ps p0 s s1 σ nai nti tgt ok ck P A ag R htgt hst
        have hstep : Path c ps p0 s1 ∧ (s1.price ≠ tgt → Aim c s1 nai nti) ∧ Shape c s s1 nti := by
          by_cases hd : c.aToB = true
          · rw [if_pos hd] at htgt; rw [htgt] at hst ⊢
            exact step_down c ps p0 s s1 nai nti ok hd P A hst
          · rw [if_neg hd] at htgt; rw [htgt] at hst ⊢
            exact step_up c ps p0 s s1 nai nti ok hd P A hst
        rw [hntp, hiter]
        simp only []
        rw [R1.rem, R1.price]
        by_cases hc : (decide (s1.remaining = 0) || decide (s1.price = tgt)) = true
        · rw [if_pos hc] at h ⊢
          exact ih s1 none s' σ1 hstep.1 ag1 R1 (fun _ _ _ _ he => by cases he) h
        · rw [if_neg hc] at h ⊢
          simp only [Bool.or_eq_true, decide_eq_true_eq, not_or] at hc
          have := ih s1 (some (nai, nti, ntp, tgt)) s' σ1 hstep.1 ag1 R1
            (fun nai' nti' ntp' tgt' he => by cases he; exact ⟨hstep.2.1 hc.2, hntp, htgt⟩) h
          rw [hntp] at this
          exact this

/-! ### the SDK's sequence bounds for the program's array list -/

theorem consecUp_index (l : List Int) (ts : Nat) (first : Int) (hc : ConsecUp l ts) (h0 : l[0]? = some first) :
    ∀ (k : Nat) (st : Int), l[k]? = some st → st = first + (k : Int) * (88 * (ts : Int)) := by
  intro k
  induction k with
  | zero => intro st h; rw [h0] at h; cases h; simp
  | succ k ih =>
    intro st h
    have hk : k < l.length := by
      rcases List.getElem?_eq_some_iff.mp h with ⟨hh, _⟩; omega
    have hget : l[k]? = some l[k] := List.getElem?_eq_getElem hk
    have := hc k _ _ hget h
    rw [this, ih _ hget]
    push_cast; ring

theorem consecUp_tail (a : Int) (l : List Int) (ts : Nat) (hc : ConsecUp (a :: l) ts) : ConsecUp l ts := by
  intro k x y hx hy
  exact hc (k + 1) x y (by simpa using hx) (by simpa using hy)

theorem evenly_of_consecUp (ts : Nat) : ∀ (l : List Int), ConsecUp l ts → sdkEvenly (88 * (ts : Int)) l = true := by
  intro l
  induction l with
  | nil => intro _; rfl
  | cons a rest ih =>
    intro hc
    cases rest with
    | nil => rfl
    | cons b rest2 =>
      unfold sdkEvenly
      have := hc 0 a b (by simp) (by simp)
      rw [ih (consecUp_tail a _ ts hc)]
      simp; omega

theorem consecUp_reverse (l : List Int) (ts : Nat) (hc : ConsecDown l ts) : ConsecUp l.reverse ts := by
  intro k a b ha hb
  have hk1 : k + 1 < l.length := by
    rcases List.getElem?_eq_some_iff.mp hb with ⟨hh, _⟩; simpa using hh
  rw [List.getElem?_reverse (by omega)] at ha
  rw [List.getElem?_reverse hk1] at hb
  have e : l.length - 1 - k = (l.length - 1 - (k + 1)) + 1 := by omega
  rw [e] at ha
  have := hc _ _ _ hb ha
  omega

/-- an ascending, aligned, consecutive list of starts gives the SDK sequence its bounds -/
theorem bounds_up (asc : List Int) (ts : Nat) (hc : ConsecUp asc ts) (hal : StartsAligned asc ts) (hne : asc ≠ []) :
    ∃ first last, sdkBounds asc ts = .ok (max first MIN_TICK_INDEX, min (last + 88 * (ts : Int) - 1) MAX_TICK_INDEX) ∧
      asc[0]? = some first ∧ asc[asc.length - 1]? = some last ∧ first % (ts : Int) = 0 ∧
      (∀ (k : Nat) (st : Int), asc[k]? = some st → st = first + (k : Int) * (88 * (ts : Int))) ∧
      last = first + ((asc.length - 1 : Nat) : Int) * (88 * (ts : Int)) := by
  have hT : ((TICK_ARRAY_SIZE : Nat) : Int) = 88 := rfl
  have hlen : 0 < asc.length := List.length_pos_iff.mpr hne
  have h0 : asc[0]? = some asc[0] := List.getElem?_eq_getElem hlen
  have hl : asc[asc.length - 1]? = some (asc[asc.length - 1]'(by omega)) := List.getElem?_eq_getElem (by omega)
  have hidx := consecUp_index asc ts asc[0] hc h0
  refine ⟨asc[0], asc[asc.length - 1]'(by omega), ?_, h0, hl, hal 0 _ h0, hidx, hidx _ _ hl⟩
  unfold sdkBounds
  rw [List.head?_eq_getElem?, List.getLast?_eq_getElem?, h0, hl]
  simp only [hT]
  rw [evenly_of_consecUp ts asc hc]
  rfl

theorem win_up (arrays : List Int) (ts : Nat) (hc : ConsecUp arrays ts) (hal : StartsAligned arrays ts) (hne : arrays ≠ []) :
    ∃ lo hi first last, sdkBounds arrays ts = .ok (lo, hi) ∧ Win arrays ts false lo hi first last := by
  obtain ⟨first, last, hb, h0, hl, hg, hidx, hlast⟩ := bounds_up arrays ts hc hal hne
  have hlen : 0 < arrays.length := List.length_pos_iff.mpr hne
  refine ⟨_, _, first, last, hb, ?_⟩
  exact
    { mem := by
        intro k st hk
        have hkl : k < arrays.length := by
          rcases List.getElem?_eq_some_iff.mp hk with ⟨hh, _⟩; exact hh
        have e := hidx k st hk
        have h1 : (0 : Int) ≤ (k : Int) * (88 * (ts : Int)) := Int.mul_nonneg (by omega) (by omega)
        have h2 : (k : Int) * (88 * (ts : Int)) ≤ ((arrays.length - 1 : Nat) : Int) * (88 * (ts : Int)) :=
          Int.mul_le_mul_of_nonneg_right (by omega) (by omega)
        omega,
      lo_eq := rfl, hi_eq := rfl, grid := hg,
      endpt := by
        intro st hst
        rw [hl] at hst; cases hst; simp,
      span := by
        rw [hlast]
        have : ((arrays.length - 1 : Nat) : Int) = (arrays.length : Int) - 1 := by omega
        rw [this]; ring_nf; omega }

theorem win_down (arrays : List Int) (ts : Nat) (hc : ConsecDown arrays ts) (hal : StartsAligned arrays ts) (hne : arrays ≠ []) :
    ∃ lo hi first last, sdkBounds arrays.reverse ts = .ok (lo, hi) ∧ Win arrays ts true lo hi first last := by
  have hlen : 0 < arrays.length := List.length_pos_iff.mpr hne
  have hal' : StartsAligned arrays.reverse ts := by
    intro k st hk
    have hkl : k < arrays.length := by
      rcases List.getElem?_eq_some_iff.mp hk with ⟨hh, _⟩; simpa using hh
    rw [List.getElem?_reverse hkl] at hk
    exact hal _ _ hk
  obtain ⟨first, last, hb, h0, hl, hg, hidx, hlast⟩ :=
    bounds_up arrays.reverse ts (consecUp_reverse arrays ts hc) hal' (by simpa using hne)
  rw [List.length_reverse] at hl hlast
  refine ⟨_, _, first, last, hb, ?_⟩
  exact
    { mem := by
        intro k st hk
        have hkl : k < arrays.length := by
          rcases List.getElem?_eq_some_iff.mp hk with ⟨hh, _⟩; exact hh
        have hk' : arrays.reverse[arrays.length - 1 - k]? = some st := by
          rw [List.getElem?_reverse (by omega)]
          have : arrays.length - 1 - (arrays.length - 1 - k) = k := by omega
          rw [this]; exact hk
        have e := hidx _ st hk'
        have h1 : (0 : Int) ≤ ((arrays.length - 1 - k : Nat) : Int) * (88 * (ts : Int)) := Int.mul_nonneg (by omega) (by omega)
        have h2 : ((arrays.length - 1 - k : Nat) : Int) * (88 * (ts : Int)) ≤ ((arrays.length - 1 : Nat) : Int) * (88 * (ts : Int)) :=
          Int.mul_le_mul_of_nonneg_right (by omega) (by omega)
        omega,
      lo_eq := rfl, hi_eq := rfl, grid := hg,
      endpt := by
        intro st hst
        rw [List.getElem?_reverse (by omega)] at h0
        simp only [Nat.sub_zero] at h0
        rw [h0] at hst; cases hst; simp,
      span := by
        rw [hlast]
        have : ((arrays.length - 1 : Nat) : Int) = (arrays.length : Int) - 1 := by omega
        rw [this]; ring_nf; omega }

/-! ### the whole swap -/

/-- **C20 at swap level.**  On a pool whose tick map is consistent with a set of positions (`TickFacts`), whose
    liquidity is the sum of the positions covering the current tick and whose tick index matches its price, over
    an aligned consecutive non-empty array sequence, with a fee rate up to the hard limit, a protocol rate up to
    100 %, an in-range adaptive-fee state and any u64 amount: whenever the program's `swap` succeeds, the SDK's
    `compute_swap` on facades of the same state returns the same token A amount, token B amount and total fee. -/
theorem sdk_swap_eq (p : PoolD) (ticks : TickMap) (ps : List (Nat × PositionD)) (arrays : List Int) (amount limit : Nat)
    (isInput aToB : Bool) (now fuel : Nat) (af : Option AfInfo) (u : PostSwap)
    (hts : 0 < p.ts) (hseq : SeqOK arrays p.ts aToB) (hne : arrays ≠ [])
    (hliq : (p.liq : Int) = sumBy (inRangeLiq p.tick) ps) (tf : TickFacts ticks ps p.ts) (tp : TP p.tick p.price)
    (hL : p.liq ≤ U128_MAX) (hfee : p.feeRate ≤ FEE_RATE_HARD_LIMIT) (hproto : p.protoRate ≤ PROTOCOL_FEE_RATE_MUL_VALUE)
    (hamt : amount ≤ U64_MAX) (haf : ∀ info, af = some info → InfoOK info)
    (h : swap p ticks arrays amount limit isInput aToB now af fuel = .ok u) :
    sdkSwap p ticks (if aToB then arrays.reverse else arrays) amount limit isInput aToB now af fuel
      = .ok (u.amountA, u.amountB, u.lpFee + u.protoFee) := by
  obtain ⟨g1, g2, g3, g4⟩ := C03.swap_limit_guard _ _ _ _ _ _ _ _ _ _ _ h
  obtain ⟨rewards, fm, s, hfm, hloop, hfin, hrw⟩ := swap_parts _ _ _ _ _ _ _ _ _ _ _ h
  have htb : MIN_TICK_INDEX - 1 ≤ p.tick ∧ p.tick ≤ MAX_TICK_INDEX := by
    have := min_le_max
    rcases tp with ⟨a, b, _⟩ | ⟨a, _⟩ <;> omega
  have hfm0 := new_ok aToB p.tick now p.feeRate af fm hfee haf htb.1 htb.2 hfm
  have ok : CtxOK (swapCtxOf p arrays limit isInput aToB rewards) :=
    { ts := hts, consec := hseq.1, aligned := hseq.2, lim_lo := g1, lim_hi := g2 }
  have P0 : Path (swapCtxOf p arrays limit isInput aToB rewards) ps p.price (swapInit p ticks amount aToB fm) :=
    { liq := hliq, tf := tf, tp := tp,
      lim := by
        show if aToB = true then adjLimit limit aToB ≤ p.price ∧ p.price ≤ p.price else p.price ≤ p.price ∧ p.price ≤ adjLimit limit aToB
        by_cases hd : aToB = true
        · rw [if_pos hd] at g3 ⊢; exact ⟨Nat.le_of_lt g3, Nat.le_refl _⟩
        · rw [if_neg hd] at g3 ⊢; exact ⟨Nat.le_refl _, Nat.le_of_lt g3⟩,
      fm := hfm0, remU := hamt, liqU := hL }
  -- the SDK's sequence bounds
  obtain ⟨lo, hi, first, last, hb, W⟩ : ∃ lo hi first last,
      sdkBounds (if aToB then arrays.reverse else arrays) p.ts = .ok (lo, hi) ∧ Win arrays p.ts aToB lo hi first last := by
    have hs1 := hseq.1
    by_cases hd : aToB = true
    · rw [if_pos hd] at hs1 ⊢; rw [hd]; exact win_down arrays p.ts hs1 hseq.2 hne
    · rw [if_neg hd] at hs1 ⊢
      have hd' : aToB = false := by cases hb : aToB <;> simp_all
      rw [hd']; exact win_up arrays p.ts hs1 hseq.2 hne
  -- protocol fee ≤ fee sum at the end of the loop
  have hpf : s.protoFee ≤ s.feeSum := by
    have inv0 : C06.LoopInv (swapCtxOf p arrays limit isInput aToB rewards) amount (swapInit p ticks amount aToB fm) := by
      refine ⟨?_, by simp [swapInit, C06.sumFee], by simp [swapInit, U64_MAX], by simp [swapInit, C06.sumCut], ?_⟩
      · cases isInput <;> simp [swapCtxOf, swapInit, C06.sumIn, C06.sumOut, C06.sumFee]
      · intro st hst; simp [swapInit] at hst
    obtain ⟨inv, _⟩ := C06.loop_preserves _ amount (by simpa [swapCtxOf] using hproto) fuel _ s none inv0 hloop
    rw [inv.fees, inv.proto]
    exact C06.sumCut_le _ (by simpa [swapCtxOf] using hproto) _
  let k : SdkCtx := { ticks := ticks, lo := lo, hi := hi, ts := p.ts, aToB := aToB, isInput := isInput,
                      limit := adjLimit limit aToB,
                      searchFuel := (if aToB then arrays.reverse else arrays).length * TICK_ARRAY_SIZE + 2 }
  have ck : CtxRel (swapCtxOf p arrays limit isInput aToB rewards) k := { ts := rfl, dir := rfl, inp := rfl, lim := rfl }
  have hfuelk : k.searchFuel = (swapCtxOf p arrays limit isInput aToB rewards).arrays.length * 88 + 2 := by
    show (if aToB then arrays.reverse else arrays).length * TICK_ARRAY_SIZE + 2 = arrays.length * 88 + 2
    cases aToB <;> simp [TICK_ARRAY_SIZE]
  let σ0 : SdkSt := { remaining := amount, calculated := 0, price := p.price, tick := p.tick, liq := p.liq, fee := 0, fm := fm }
  have R0 : Rel (swapInit p ticks amount aToB fm) σ0 :=
    { rem := rfl, cal := rfl, price := rfl, tick := rfl, liq := rfl, fee := rfl, fm := rfl }
  obtain ⟨σ', hσ, R'⟩ := loop_sim (swapCtxOf p arrays limit isInput aToB rewards) k ps p.price first last ok ck W hfuelk
    fuel (swapInit p ticks amount aToB fm) none s σ0 P0 (fun t => ⟨rfl, rfl⟩) R0 (fun _ _ _ _ he => by cases he) hloop
  unfold sdkSwap
  rw [hb]
  simp only []
  have c1 : ¬ (!(decide (MIN_SQRT_PRICE_X64 ≤ adjLimit limit aToB) && decide (adjLimit limit aToB ≤ MAX_SQRT_PRICE_X64))) = true := by
    simp [g1, g2]
  have c2 : ¬ ((aToB && decide (adjLimit limit aToB ≥ p.price)) || (!aToB && decide (adjLimit limit aToB ≤ p.price))) = true := by
    cases aToB <;> simp at g3 ⊢ <;> omega
  rw [if_neg c1, if_neg c2, if_neg g4, hfm]
  simp only []
  have hσ' : sdkLoop k fuel σ0 none = .ok σ' := hσ
  rw [hσ']
  simp only []
  unfold swapFinish at hfin
  split at hfin
  · cases hfin
  · split at hfin
    · cases hfin
    · cases hfin
      simp only [R'.rem, R'.cal, R'.fee]
      have : s.feeSum - s.protoFee + s.protoFee = s.feeSum := by omega
      rw [this]

/-- **C20 at every reachable state.**  After ANY finite history of operations (opens, liquidity changes, collections,
    reward settings, clock moves, swaps) on a pool — static or adaptive fee — a quote taken by the SDK on the resulting
    state equals what the program then executes for the same swap: token A, token B and total fee. -/
theorem sdk_quote_reachable {ts0 : Nat} (ops : List HistOp) (s0 : HistState) (inv0 : Inv s0) (g0 : Reach.Geo ts0 s0)
    (hops : ∀ op ∈ ops, Reach.OpOK ts0 op)
    (amount limit : Nat) (isInput aToB : Bool) (arrays : List Int) (u : PostSwap)
    (hseq : SeqOK arrays ts0 aToB) (hne : arrays ≠ []) (hamt : amount ≤ U64_MAX)
    (hproto : (ops.foldl Reach.histApply s0).pool.protoRate ≤ PROTOCOL_FEE_RATE_MUL_VALUE)
    (h : swap (ops.foldl Reach.histApply s0).pool (ops.foldl Reach.histApply s0).ticks arrays amount limit isInput aToB
          (ops.foldl Reach.histApply s0).now (ops.foldl Reach.histApply s0).af SWAP_FUEL = .ok u) :
    sdkSwap (ops.foldl Reach.histApply s0).pool (ops.foldl Reach.histApply s0).ticks (if aToB then arrays.reverse else arrays)
        amount limit isInput aToB (ops.foldl Reach.histApply s0).now (ops.foldl Reach.histApply s0).af SWAP_FUEL
      = .ok (u.amountA, u.amountB, u.lpFee + u.protoFee) := by
  obtain ⟨inv, g⟩ := Reach.reach ops s0 inv0 g0 hops
  generalize ops.foldl Reach.histApply s0 = st at *
  have hseq' : SeqOK arrays st.pool.ts aToB := by rw [g.spacing]; exact hseq
  exact sdk_swap_eq st.pool st.ticks st.positions arrays amount limit isInput aToB st.now SWAP_FUEL st.af u
    g.ts hseq' hne inv.liq (Reach.tickFacts_of st inv g) g.tp g.liqU g.fee hproto hamt g.af h

/-- non-vacuity: on the state after the example history of Reach.lean (two positions, a crossing swap, a swap back;
    current tick −1414) a b→a swap of 900000 succeeds in the program, crosses the initialized tick −128 and ends at
    tick −111; the SDK model returns the same three numbers (kernel-evaluated) -/
example : let st := Reach.exOps.foldl Reach.histApply { pool := Reach.exPool, now := 10 }
    ((swap st.pool st.ticks [-5632, 0] 900000 0 true false st.now st.af SWAP_FUEL).toOption.map
        (fun u => (u.amountA, u.amountB, u.lpFee + u.protoFee, u.tick)) = some (908368, 900000, 2701, -111) ∧
     (sdkSwap st.pool st.ticks [-5632, 0] 900000 0 true false st.now st.af SWAP_FUEL).toOption = some (908368, 900000, 2701)) = True := by
  decide +kernel

end WP.SdkSim
