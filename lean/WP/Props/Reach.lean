import WP.Props.SwapPath
/-
  Every reachable state of a pool (static or adaptive fee): the two invariants
     `C05.Inv`  (liquidity = covering sum; tick net/gross/initialized = sums over positions)
     `Geo`      (tick index ↔ price consistency; every position on the spacing grid, inside the
                 protocol bounds, lower < upper; machine-type bounds)
  hold after EVERY finite history of operations — including swaps — executed the way the driver and
  the program execute them (a failing operation changes nothing; `reward` commits its partial
  effects).  This discharges the swap case of C05 and the price bound of C03 for pools whose
  swaps run over aligned, consecutive array sequences (which is what the account loader produces:
  `buildSeq_seqOK`).
-/
set_option linter.unusedSimpArgs false
namespace WP.Reach
open WP WP.Gen WP.C05 WP.C10 WP.Path

def PosOK (ts : Nat) (lo hi : Int) : Prop :=
  lo < hi ∧ lo % (ts : Int) = 0 ∧ hi % (ts : Int) = 0 ∧ MIN_TICK_INDEX ≤ lo ∧ hi ≤ MAX_TICK_INDEX

structure Geo (ts0 : Nat) (s : HistState) : Prop where
  spacing : s.pool.ts = ts0
  tp : TP s.pool.tick s.pool.price
  pos : ∀ kp ∈ s.positions, PosOK s.pool.ts kp.2.lower kp.2.upper
  ts : 0 < s.pool.ts
  liqU : s.pool.liq ≤ U128_MAX
  fee : s.pool.feeRate ≤ FEE_RATE_HARD_LIMIT
  af : ∀ info, s.af = some info → InfoOK info

variable {ts0 : Nat}

theorem mem_posReplace (id : Nat) (v : PositionD) (kp : Nat × PositionD) :
    ∀ l : List (Nat × PositionD), kp ∈ posReplace l id v → kp ∈ l ∨ kp.2 = v := by
  intro l
  induction l with
  | nil => intro h; simp [posReplace] at h
  | cons hd tl ih =>
    obtain ⟨k, w⟩ := hd
    intro h
    unfold posReplace at h
    by_cases e : k = id
    · rw [if_pos e] at h
      rcases List.mem_cons.mp h with h | h
      · right; rw [h]
      · left; exact List.mem_cons_of_mem _ h
    · rw [if_neg e] at h
      rcases List.mem_cons.mp h with h | h
      · left; rw [h]; exact List.mem_cons_self
      · rcases ih h with h | h
        · left; exact List.mem_cons_of_mem _ h
        · right; exact h

theorem mem_posSet (id : Nat) (v : PositionD) (kp : Nat × PositionD) :
    ∀ l : List (Nat × PositionD), kp ∈ posSet l id v → kp ∈ l ∨ kp.2 = v := by
  intro l
  induction l with
  | nil => intro h; simp [posSet] at h; right; rw [h]
  | cons hd tl ih =>
    obtain ⟨k, w⟩ := hd
    intro h
    unfold posSet at h
    by_cases e : k = id
    · rw [if_pos e] at h
      rcases List.mem_cons.mp h with h | h
      · right; rw [h]
      · left; exact List.mem_cons_of_mem _ h
    · rw [if_neg e] at h
      by_cases e2 : id < k
      · rw [if_pos e2] at h
        rcases List.mem_cons.mp h with h | h
        · right; rw [h]
        · left; exact h
      · rw [if_neg e2] at h
        rcases List.mem_cons.mp h with h | h
        · left; rw [h]; exact List.mem_cons_self
        · rcases ih h with h | h
          · left; exact List.mem_cons_of_mem _ h
          · right; exact h

theorem posGet_mem (id : Nat) (v : PositionD) : ∀ l : List (Nat × PositionD), posGet l id = some v → (id, v) ∈ l := by
  intro l
  induction l with
  | nil => intro h; simp [posGet] at h
  | cons hd tl ih =>
    obtain ⟨k, w⟩ := hd
    intro h
    unfold posGet at h
    by_cases e : k = id
    · rw [if_pos e] at h; cases h; rw [e]; exact List.mem_cons_self
    · rw [if_neg e] at h; exact List.mem_cons_of_mem _ (ih h)

/-- membership-form ordering from `Geo` gives the lookup-form ordering of `Inv` -/
theorem tickFacts_of (s : HistState) (inv : Inv s) (g : Geo ts0 s) : TickFacts s.ticks s.positions s.pool.ts :=
  { net := inv.net, gross := inv.gross, init := inv.init,
    ordered := fun kp hk => (g.pos kp hk).1,
    grid := fun kp hk => ⟨(g.pos kp hk).2.1, (g.pos kp hk).2.2.1, (g.pos kp hk).2.2.2.1, (g.pos kp hk).2.2.2.2⟩ }

/-- an operation that keeps tick, price, spacing, fee rate and fee mode, keeps the liquidity inside
    its type, and only replaces positions by ones with the same range, keeps `Geo` -/
theorem geo_of_same (s st : HistState) (g : Geo ts0 s)
    (e1 : st.pool.tick = s.pool.tick) (e2 : st.pool.price = s.pool.price) (e3 : st.pool.ts = s.pool.ts)
    (e4 : st.pool.feeRate = s.pool.feeRate) (e5 : st.af = s.af) (hL : st.pool.liq ≤ U128_MAX)
    (hpos : ∀ kp ∈ st.positions, ∃ q ∈ s.positions, kp.2.lower = q.2.lower ∧ kp.2.upper = q.2.upper) : Geo ts0 st :=
  { spacing := by rw [e3]; exact g.spacing, tp := by rw [e1, e2]; exact g.tp,
    pos := fun kp hk => by
      obtain ⟨q, hq, a, b⟩ := hpos kp hk
      rw [e3, a, b]; exact g.pos q hq,
    ts := by rw [e3]; exact g.ts, liqU := hL, fee := by rw [e4]; exact g.fee, af := by rw [e5]; exact g.af }

theorem replace_same_range (l : List (Nat × PositionD)) (id : Nat) (old new : PositionD) (h : posGet l id = some old)
    (b : new.lower = old.lower) (c : new.upper = old.upper) :
    ∀ kp ∈ posReplace l id new, ∃ q ∈ l, kp.2.lower = q.2.lower ∧ kp.2.upper = q.2.upper := by
  intro kp hk
  rcases mem_posReplace id new kp l hk with h1 | h1
  · exact ⟨kp, h1, rfl, rfl⟩
  · exact ⟨(id, old), posGet_mem id old l h, by rw [h1]; exact b, by rw [h1]; exact c⟩

/-- what `calculateModifyLiquidity` does to the geometry -/
theorem calcModify_geo (p : PoolD) (pos : PositionD) (tl tu : TickData) (delta : Int) (now : Nat) (u : ModifyUpdate)
    (hL : p.liq ≤ U128_MAX) (h : calculateModifyLiquidity p pos tl tu delta now = .ok u) :
    u.position.lower = pos.lower ∧ u.position.upper = pos.upper ∧ u.poolLiq ≤ U128_MAX := by
  unfold calculateModifyLiquidity at h
  split at h
  · cases h
  · split at h
    · cases h
    · split at h
      · cases h
      · rename_i poolLiq hpl
        split at h
        · cases h
        · split at h
          · cases h
          · simp only [] at h
            split at h
            · cases h
            · rename_i pu hpu
              cases h
              have h1 : pu.lower = pos.lower ∧ pu.upper = pos.upper := by
                unfold nextPositionUpdate at hpu
                simp only [] at hpu
                split at hpu
                · cases hpu
                · cases hpu; exact ⟨rfl, rfl⟩
              refine ⟨h1.1, h1.2, ?_⟩
              unfold nextWhirlpoolLiquidity at hpl
              split at hpl
              · exact (addLiq_spec _ _ _ hpl hL).2
              · cases hpl; exact hL


/-! ### every non-swap operation keeps `Geo` -/

theorem geo_open (s s' : HistState) (id : Nat) (lo hi : Int) (outs : List Nat) (g : Geo ts0 s)
    (h : histStep s (.openPos id lo hi) = .ok (s', outs)) : Geo ts0 s' := by
  unfold histStep at h
  simp only [] at h
  split at h
  · cases h
  · rename_i hc
    split at h
    · cases h
    · split at h
      · cases h
      · simp only [Except.ok.injEq, Prod.mk.injEq] at h
        obtain ⟨h1, _⟩ := h
        subst h1
        have hok : PosOK s.pool.ts lo hi := by
          unfold isUsableTick at hc
          simp only [Bool.not_eq_true, Bool.and_eq_true, decide_eq_true_eq, Bool.not_eq_eq_eq_not, Bool.not_true,
            Bool.and_eq_false_iff, decide_eq_false_iff_not] at hc
          unfold PosOK
          omega
        exact { spacing := g.spacing, tp := g.tp,
                pos := fun kp hk => by
                  rcases mem_posSet id _ kp s.positions hk with h1 | h1
                  · exact g.pos kp h1
                  · rw [h1]; exact hok,
                ts := g.ts, liqU := g.liqU, fee := g.fee, af := g.af }

theorem geo_modify (s s' : HistState) (id amount : Nat) (positive : Bool) (outs : List Nat) (g : Geo ts0 s)
    (h : histStep s (.modify id amount positive) = .ok (s', outs)) : Geo ts0 s' := by
  unfold histStep at h
  simp only [] at h
  split at h
  · cases h
  · split at h
    · cases h
    · split at h
      · cases h
      · rename_i pos hpos
        split at h
        · cases h
        · rename_i u hu
          obtain ⟨a, b, c⟩ := calcModify_geo _ _ _ _ _ _ _ g.liqU hu
          split at h
          · cases h
          · split at h
            · simp only [Except.ok.injEq, Prod.mk.injEq] at h
              obtain ⟨h1, _⟩ := h
              subst h1
              exact geo_of_same s _ g rfl rfl rfl rfl rfl c (replace_same_range _ _ _ _ hpos a b)
            · split at h
              · cases h
              · simp only [Except.ok.injEq, Prod.mk.injEq] at h
                obtain ⟨h1, _⟩ := h
                subst h1
                exact geo_of_same s _ g rfl rfl rfl rfl rfl c (replace_same_range _ _ _ _ hpos a b)

theorem geo_upd (s s' : HistState) (id : Nat) (outs : List Nat) (g : Geo ts0 s)
    (h : histStep s (.upd id) = .ok (s', outs)) : Geo ts0 s' := by
  unfold histStep at h
  simp only [] at h
  split at h
  · cases h
  · rename_i pos hpos
    split at h
    · cases h
    · rename_i u hu
      obtain ⟨a, b, _⟩ := calcModify_geo _ _ _ _ _ _ _ g.liqU hu
      simp only [Except.ok.injEq, Prod.mk.injEq] at h
      obtain ⟨h1, _⟩ := h
      subst h1
      exact geo_of_same s _ g rfl rfl rfl rfl rfl g.liqU (replace_same_range _ _ _ _ hpos a b)

theorem geo_cfees (s s' : HistState) (id : Nat) (outs : List Nat) (g : Geo ts0 s)
    (h : histStep s (.cfees id) = .ok (s', outs)) : Geo ts0 s' := by
  unfold histStep at h
  simp only [] at h
  split at h
  · cases h
  · rename_i pos hpos
    split at h
    · cases h
    · simp only [Except.ok.injEq, Prod.mk.injEq] at h
      obtain ⟨h1, _⟩ := h
      subst h1
      exact geo_of_same s _ g rfl rfl rfl rfl rfl g.liqU (replace_same_range _ _ pos _ hpos rfl rfl)

theorem geo_crew (s s' : HistState) (id i : Nat) (outs : List Nat) (g : Geo ts0 s)
    (h : histStep s (.crew id i) = .ok (s', outs)) : Geo ts0 s' := by
  unfold histStep at h
  simp only [] at h
  split at h
  · cases h
  · split at h
    · cases h
    · rename_i pos hpos
      simp only [Except.ok.injEq, Prod.mk.injEq] at h
      obtain ⟨h1, _⟩ := h
      subst h1
      exact geo_of_same s _ g rfl rfl rfl rfl rfl g.liqU (replace_same_range _ _ pos _ hpos rfl rfl)

theorem geo_cproto (s s' : HistState) (outs : List Nat) (g : Geo ts0 s)
    (h : histStep s .cproto = .ok (s', outs)) : Geo ts0 s' := by
  unfold histStep at h
  simp only [] at h
  split at h
  · cases h
  · simp only [Except.ok.injEq, Prod.mk.injEq] at h
    obtain ⟨h1, _⟩ := h
    subst h1
    exact geo_of_same s _ g rfl rfl rfl rfl rfl g.liqU (fun kp hk => ⟨kp, hk, rfl, rfl⟩)

theorem geo_clock (s s' : HistState) (now : Nat) (outs : List Nat) (g : Geo ts0 s)
    (h : histStep s (.clock now) = .ok (s', outs)) : Geo ts0 s' := by
  unfold histStep at h
  simp only [Except.ok.injEq, Prod.mk.injEq] at h
  obtain ⟨h1, _⟩ := h
  subst h1
  exact geo_of_same s _ g rfl rfl rfl rfl rfl g.liqU (fun kp hk => ⟨kp, hk, rfl, rfl⟩)


/-! ### the swap -/

theorem uas_fields (p : PoolD) (u : PostSwap) (aToB : Bool) (now : Nat) :
    (updateAfterSwap p u aToB now).liq = u.liq ∧ (updateAfterSwap p u aToB now).tick = u.tick ∧
    (updateAfterSwap p u aToB now).price = u.price ∧ (updateAfterSwap p u aToB now).ts = p.ts ∧
    (updateAfterSwap p u aToB now).feeRate = p.feeRate := by
  unfold updateAfterSwap
  simp only []
  split <;> exact ⟨rfl, rfl, rfl, rfl, rfl⟩

/-- **the swap keeps both invariants and ends between the limit and the starting price** -/
theorem swap_step (s s' : HistState) (amount limit : Nat) (isInput aToB : Bool) (arrays : List Int) (outs : List Nat)
    (inv : Inv s) (g : Geo ts0 s) (hseq : SeqOK arrays s.pool.ts aToB) (hamt : amount ≤ U64_MAX)
    (h : histStep s (.swap amount limit isInput aToB arrays) = .ok (s', outs)) :
    Inv s' ∧ Geo ts0 s' ∧
    (if aToB then adjLimit limit aToB ≤ s'.pool.price ∧ s'.pool.price ≤ s.pool.price
     else s.pool.price ≤ s'.pool.price ∧ s'.pool.price ≤ adjLimit limit aToB) := by
  unfold histStep at h
  simp only [] at h
  split at h
  · cases h
  · split at h
    · cases h
    · rename_i u hsw
      obtain ⟨q1, q2, q3, q4, q5, q6, q7⟩ := swap_path s.pool s.ticks s.positions arrays amount limit isInput aToB s.now SWAP_FUEL s.af u
        g.ts hseq inv.liq (tickFacts_of s inv g) g.tp g.liqU g.fee hamt g.af hsw
      obtain ⟨f1, f2, f3, f4, f5⟩ := uas_fields s.pool u aToB s.now
      have key : ∀ st : HistState, st.pool = updateAfterSwap s.pool u aToB s.now → st.ticks = u.ticks →
          st.positions = s.positions → (∀ info, st.af = some info → InfoOK info) →
          Inv st ∧ Geo ts0 st ∧ (if aToB then adjLimit limit aToB ≤ st.pool.price ∧ st.pool.price ≤ s.pool.price
            else s.pool.price ≤ st.pool.price ∧ st.pool.price ≤ adjLimit limit aToB) := by
        intro st e1 e2 e3 e4
        refine ⟨?_, ?_, ?_⟩
        · exact { liq := by rw [e1, e3, f1, f2]; exact q1,
                  net := fun i => by rw [e2, e3]; exact q2.net i,
                  gross := fun i => by rw [e2, e3]; exact q2.gross i,
                  init := fun i => by rw [e2]; exact q2.init i,
                  ordered := by rw [e3]; exact inv.ordered }
        · exact { spacing := by rw [e1, f4]; exact g.spacing, tp := by rw [e1, f2, f3]; exact q3,
                  pos := by rw [e1, e3, f4]; exact g.pos,
                  ts := by rw [e1, f4]; exact g.ts,
                  liqU := by rw [e1, f1]; exact q4,
                  fee := by rw [e1, f5]; exact g.fee,
                  af := e4 }
        · rw [e1, f3]; exact q5
      have haf' : ∀ info, (match u.afInfo with | some i => some i | none => s.af) = some info → InfoOK info := by
        intro info hi
        cases hs : s.af with
        | none =>
          rw [q6 hs, hs] at hi
          cases hi
        | some i0 =>
          obtain ⟨info', e1, _, e3⟩ := q7 i0 hs
          rw [e1] at hi
          cases hi
          exact e3
      split at h
      · cases h
      · split at h
        · cases h
        · simp only [Except.ok.injEq, Prod.mk.injEq] at h
          obtain ⟨h1, _⟩ := h
          subst h1
          exact key _ rfl rfl rfl haf'

/-! ### reward configuration (partial commits) -/

/-- the parts of the state the two invariants read -/
def Same (s st : HistState) : Prop :=
  st.pool.liq = s.pool.liq ∧ st.pool.tick = s.pool.tick ∧ st.pool.price = s.pool.price ∧ st.pool.ts = s.pool.ts ∧
  st.pool.feeRate = s.pool.feeRate ∧ st.ticks = s.ticks ∧ st.positions = s.positions ∧ st.af = s.af

theorem same_keeps (s st : HistState) (h : Same s st) (inv : Inv s) (g : Geo ts0 s) : Inv st ∧ Geo ts0 st := by
  obtain ⟨a, b, c, d, e, f, p, q⟩ := h
  constructor
  · exact inv_of_same s st inv a b f (fun _ _ => by rw [p]) (by rw [p]; exact inv.ordered)
  · exact geo_of_same s st g b c d e q (by rw [a]; exact g.liqU) (by rw [p]; exact fun kp hk => ⟨kp, hk, rfl, rfl⟩)

theorem reward_same (s : HistState) (i e t : Nat) : Same s (histReward s i e t).1 := by
  unfold histReward
  simp only []
  split
  · exact ⟨rfl, rfl, rfl, rfl, rfl, rfl, rfl, rfl⟩
  · split
    · exact ⟨rfl, rfl, rfl, rfl, rfl, rfl, rfl, rfl⟩
    · rename_i s1 hs1
      have h1 : Same s s1 := by
        split at hs1
        · cases hs1; exact ⟨rfl, rfl, rfl, rfl, rfl, rfl, rfl, rfl⟩
        · split at hs1
          · cases hs1; exact ⟨rfl, rfl, rfl, rfl, rfl, rfl, rfl, rfl⟩
          · cases hs1
      split
      · exact h1
      · split
        · exact h1
        · split
          · exact h1
          · exact h1


/-! ### every reachable state -/

/-- the transition the driver (and the program) executes: a failing operation changes nothing,
    `reward` commits its partial effects -/
def histApply (s : HistState) (op : HistOp) : HistState :=
  match op with
  | .reward i e t => (histReward s i e t).1
  | op => match histStep s op with
    | .ok r => r.1
    | .error _ => s

/-- the only requirement on a history: its swaps run over aligned consecutive array sequences
    (the account loader guarantees it: `buildSeq_seqOK`) and their amount is a u64 -/
def OpOK (ts : Nat) : HistOp → Prop
  | .swap amount _ _ aToB arrays => SeqOK arrays ts aToB ∧ amount ≤ U64_MAX
  | _ => True

theorem apply_ok (s s' : HistState) (op : HistOp) (outs : List Nat) (hnr : ∀ i e t, op ≠ .reward i e t)
    (h : histStep s op = .ok (s', outs)) : histApply s op = s' := by
  cases op <;> first | (exfalso; exact hnr _ _ _ rfl) | (unfold histApply; simp only [h])

theorem apply_err (s : HistState) (op : HistOp) (e : Err) (hnr : ∀ i e t, op ≠ .reward i e t)
    (h : histStep s op = .error e) : histApply s op = s := by
  cases op <;> first | (exfalso; exact hnr _ _ _ rfl) | (unfold histApply; simp only [h])

theorem apply_keeps (s : HistState) (op : HistOp) (inv : Inv s) (g : Geo ts0 s) (hop : OpOK ts0 op) :
    Inv (histApply s op) ∧ Geo ts0 (histApply s op) := by
  cases op with
  | reward i e t => exact same_keeps s _ (reward_same s i e t) inv g
  | openPos id lo hi =>
    cases h : histStep s (.openPos id lo hi) with
    | error e => rw [apply_err s _ e (by intro _ _ _ hh; cases hh) h]; exact ⟨inv, g⟩
    | ok r => obtain ⟨s', outs⟩ := r; rw [apply_ok s s' _ outs (by intro _ _ _ hh; cases hh) h]; exact ⟨inv_open s s' id lo hi outs inv h, geo_open s s' id lo hi outs g h⟩
  | modify id a p =>
    cases h : histStep s (.modify id a p) with
    | error e => rw [apply_err s _ e (by intro _ _ _ hh; cases hh) h]; exact ⟨inv, g⟩
    | ok r => obtain ⟨s', outs⟩ := r; rw [apply_ok s s' _ outs (by intro _ _ _ hh; cases hh) h]; exact ⟨inv_modify s s' id a p outs inv h, geo_modify s s' id a p outs g h⟩
  | upd id =>
    cases h : histStep s (.upd id) with
    | error e => rw [apply_err s _ e (by intro _ _ _ hh; cases hh) h]; exact ⟨inv, g⟩
    | ok r => obtain ⟨s', outs⟩ := r; rw [apply_ok s s' _ outs (by intro _ _ _ hh; cases hh) h]; exact ⟨inv_upd s s' id outs inv h, geo_upd s s' id outs g h⟩
  | cfees id =>
    cases h : histStep s (.cfees id) with
    | error e => rw [apply_err s _ e (by intro _ _ _ hh; cases hh) h]; exact ⟨inv, g⟩
    | ok r => obtain ⟨s', outs⟩ := r; rw [apply_ok s s' _ outs (by intro _ _ _ hh; cases hh) h]; exact ⟨inv_cfees s s' id outs inv h, geo_cfees s s' id outs g h⟩
  | cproto =>
    cases h : histStep s .cproto with
    | error e => rw [apply_err s _ e (by intro _ _ _ hh; cases hh) h]; exact ⟨inv, g⟩
    | ok r => obtain ⟨s', outs⟩ := r; rw [apply_ok s s' _ outs (by intro _ _ _ hh; cases hh) h]; exact ⟨inv_cproto s s' outs inv h, geo_cproto s s' outs g h⟩
  | clock now =>
    cases h : histStep s (.clock now) with
    | error e => rw [apply_err s _ e (by intro _ _ _ hh; cases hh) h]; exact ⟨inv, g⟩
    | ok r => obtain ⟨s', outs⟩ := r; rw [apply_ok s s' _ outs (by intro _ _ _ hh; cases hh) h]; exact ⟨inv_clock s s' now outs inv h, geo_clock s s' now outs g h⟩
  | crew id i =>
    cases h : histStep s (.crew id i) with
    | error e => rw [apply_err s _ e (by intro _ _ _ hh; cases hh) h]; exact ⟨inv, g⟩
    | ok r => obtain ⟨s', outs⟩ := r; rw [apply_ok s s' _ outs (by intro _ _ _ hh; cases hh) h]; exact ⟨inv_crew s s' id i outs inv h, geo_crew s s' id i outs g h⟩
  | swap amount limit isInput aToB arrays =>
    cases h : histStep s (.swap amount limit isInput aToB arrays) with
    | error e => rw [apply_err s _ e (by intro _ _ _ hh; cases hh) h]; exact ⟨inv, g⟩
    | ok r =>
      obtain ⟨s', outs⟩ := r
      rw [apply_ok s s' _ outs (by intro _ _ _ hh; cases hh) h]
      have hop' := hop
      unfold OpOK at hop'
      rw [← g.spacing] at hop'
      obtain ⟨a, b, _⟩ := swap_step s s' amount limit isInput aToB arrays outs inv g hop'.1 hop'.2 h
      exact ⟨a, b⟩

/-- **C05 / C09 at every reachable state of a static-fee pool, swaps included**: after ANY finite
    history — any number of positions, any interleaving of opens, liquidity changes, fee and reward
    collections, reward configuration, clock moves and swaps of any size, direction and limit —
    the pool liquidity is the sum of the liquidity of the positions covering the current tick, every
    tick's net / gross / initialized flag are the sums over the positions bounded by it, and the
    current tick index is consistent with the current price. -/
theorem reach (ops : List HistOp) : ∀ (s : HistState), Inv s → Geo ts0 s → (∀ op ∈ ops, OpOK ts0 op) →
    Inv (ops.foldl histApply s) ∧ Geo ts0 (ops.foldl histApply s) := by
  induction ops with
  | nil => intro s inv g _; exact ⟨inv, g⟩
  | cons op rest ih =>
    intro s inv g hops
    obtain ⟨i1, g1⟩ := apply_keeps s op inv g (hops op List.mem_cons_self)
    exact ih _ i1 g1 (fun o ho => hops o (List.mem_cons_of_mem _ ho))

/-- the initial state of a static-fee pool: no liquidity, no positions, price and tick consistent -/
theorem reach_init (p : PoolD) (now : Nat) (h0 : p.liq = 0) (hts : 0 < p.ts) (hfee : p.feeRate ≤ FEE_RATE_HARD_LIMIT)
    (hp1 : MIN_SQRT_PRICE_X64 ≤ p.price) (hp2 : p.price ≤ MAX_SQRT_PRICE_X64) (htick : p.tick = ti p.price) :
    Inv { pool := p, now := now } ∧ Geo p.ts { pool := p, now := now } := by
  refine ⟨inv_init p h0 now, ?_⟩
  exact { spacing := rfl, tp := by show TP p.tick p.price; rw [htick]; exact TP_ti _ hp1 hp2,
          pos := fun kp hk => (by cases hk), ts := hts, liqU := by show p.liq ≤ U128_MAX; rw [h0]; decide,
          fee := hfee, af := fun info hi => (by cases hi) }


/-! ### the sequences the account loader builds satisfy `OpOK` -/

theorem prefix_get (l1 l2 : List Int) (h : l1 <+: l2) (k : Nat) (a : Int) (hk : l1[k]? = some a) : l2[k]? = some a := by
  obtain ⟨t, rfl⟩ := h
  have hlt : k < l1.length := (List.getElem?_eq_some_iff.mp hk).1
  rw [List.getElem?_append_left hlt]; exact hk

theorem start_indexes_aligned (cur : Int) (ts : Nat) (d : Bool) : ∀ x ∈ startTickIndexes cur ts d, x % (ts : Int) = 0 := by
  intro x hx
  unfold startTickIndexes at hx
  simp only [] at hx
  have hm := (List.mem_filter.mp hx).1
  obtain ⟨o, _, ho⟩ := List.mem_map.mp hm
  rw [← ho]
  apply Int.emod_eq_zero_of_dvd
  have h1 : (ts : Int) ∣ ((TICK_ARRAY_SIZE : Nat) : Int) * (ts : Int) := Int.dvd_mul_left _ _
  exact Int.dvd_add (Int.dvd_trans h1 (Int.dvd_mul_left _ _)) (Int.dvd_trans h1 (Int.dvd_mul_left _ _))

/-- whatever accounts the caller supplies, a sequence the loader accepts is aligned and consecutive -/
theorem buildSeq_seqOK (cur : Int) (ts : Nat) (aToB : Bool) (accts : List Supplied) (seq : List Int) (hts : 0 < ts)
    (h1 : MIN_TICK_INDEX ≤ cur) (h2 : cur ≤ MAX_TICK_INDEX) (h : buildSeq cur ts aToB accts = .ok seq) :
    SeqOK seq ts aToB := by
  obtain ⟨_, hpre, _⟩ := buildSeq_spec cur ts aToB accts seq h
  obtain ⟨cd, cu⟩ := start_indexes_consec cur ts hts h1 h2
  constructor
  · by_cases hd : aToB = true
    · rw [if_pos hd]; rw [hd] at hpre
      intro k a b ha hb
      exact cd k a b (prefix_get _ _ hpre k a ha) (prefix_get _ _ hpre (k + 1) b hb)
    · rw [if_neg hd]
      have hd' : aToB = false := by cases aToB <;> simp_all
      rw [hd'] at hpre
      intro k a b ha hb
      exact cu k a b (prefix_get _ _ hpre k a ha) (prefix_get _ _ hpre (k + 1) b hb)
  · intro k st hk
    have hmem : st ∈ seq := List.mem_of_getElem? hk
    exact start_indexes_aligned cur ts aToB st (List.IsPrefix.subset hpre hmem)


/-! ### non-vacuity: a concrete history with a crossing swap meets every hypothesis -/

def exPool : PoolD := { ts := 64, feeRate := 3000, protoRate := 300, liq := 0, price := 18446744073709551616, tick := 0 }
def exOps : List HistOp :=
  [.openPos 1 (-128) 128, .modify 1 1000000000 true, .openPos 2 (-6400) (-64), .modify 2 77777 true,
   .swap 6450000 0 true true [0, -5632], .swap 5000 0 false false [-5632, 0]]

example : OpOK 64 (.swap 6450000 0 true true [0, -5632]) ∧ OpOK 64 (.swap 5000 0 false false [-5632, 0]) := by
  refine ⟨⟨⟨?_, ?_⟩, by decide⟩, ⟨⟨?_, ?_⟩, by decide⟩⟩
  · intro k a b ha hb
    match k with
    | 0 => cases ha; cases hb; decide
    | 1 => cases hb
    | (k + 2) => cases hb
  · intro k st hk
    match k with
    | 0 => cases hk; decide
    | 1 => cases hk; decide
    | (k + 2) => cases hk
  · intro k a b ha hb
    match k with
    | 0 => cases ha; cases hb; decide
    | 1 => cases hb
    | (k + 2) => cases hb
  · intro k st hk
    match k with
    | 0 => cases hk; decide
    | 1 => cases hk; decide
    | (k + 2) => cases hk

-- the history really executes: both swaps succeed, the first one crosses tick −128 and leaves range 1
example : let s := exOps.foldl histApply { pool := exPool, now := 10 }
    (s.pool.tick < -128 ∧ s.pool.liq = 77777 ∧ s.pool.price < exPool.price ∧ 16216550075672095672 < s.pool.price) = True := by decide +kernel

/-- an adaptive-fee pool: the same, given validated constants and in-range variables -/
theorem reach_init_adaptive (p : PoolD) (now : Nat) (info : AfInfo) (h0 : p.liq = 0) (hts : 0 < p.ts)
    (hfee : p.feeRate ≤ FEE_RATE_HARD_LIMIT) (hp1 : MIN_SQRT_PRICE_X64 ≤ p.price) (hp2 : p.price ≤ MAX_SQRT_PRICE_X64)
    (htick : p.tick = ti p.price) (hinfo : InfoOK info) :
    Inv { pool := p, now := now, af := some info } ∧ Geo p.ts { pool := p, now := now, af := some info } := by
  obtain ⟨i0, g0⟩ := reach_init p now h0 hts hfee hp1 hp2 htick
  constructor
  · exact inv_of_same _ _ i0 rfl rfl rfl (fun _ _ => rfl) i0.ordered
  · exact { spacing := rfl, tp := g0.tp, pos := g0.pos, ts := hts, liqU := g0.liqU, fee := hfee,
            af := fun i hi => by cases hi; exact hinfo }

def exInfo : AfInfo :=
  AfInfo.mk { filterPeriod := 30, decayPeriod := 600, reductionFactor := 5000, controlFactor := 4000,
              maxVolAcc := 350000, groupSize := 64, majorSwapThresholdTicks := 64 } {}

example : InfoOK exInfo := ⟨by decide, by decide, by decide, by decide, by decide, by decide⟩

-- the same history on an adaptive-fee pool executes, crosses tick −128 and moves the fee variables
example : let s := exOps.foldl histApply { pool := exPool, now := 10, af := some exInfo }
    (s.pool.tick < -128 ∧ s.pool.liq = 77777 ∧ s.pool.price < exPool.price ∧
      (s.af.map fun i => decide (i.variables.volAcc > 0)) = some true) = True := by decide +kernel

