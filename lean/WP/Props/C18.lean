import WP.Model.Position
import WP.Gen.AnchorSpecs
import WP.Gen.PinoSpecs
import WP.Props.C09
import Mathlib.Tactic.Ring
/-
  Property C18 — positions are opened, closed, re-ranged, locked and bundled only consistently.

  Computational parts are modelled (WP/Model/Position.lean) and tied to both implementations by the
  families `reset`, `snap`, `bundle`; handler guards are regenerated from the source (T) and checked
  against the requirement rows below.  NOT covered: "creates exactly one position token with no
  remaining mint authority" is an effect of token-program CPIs that cannot be executed offline.
-/
namespace WP.C18
open WP WP.Gen

/-! ### range validation -/

/-- C18(a): a range is accepted exactly when both bounds are usable ticks, lower < upper, and — on
    full-range-only pools (tick spacing ≥ 2^15) — it is the full range. -/
theorem validate_range_spec (ts : Nat) (lo hi : Int) :
    validateTickRange ts lo hi = .ok () ↔
      (isUsableTick lo ts = true ∧ isUsableTick hi ts = true ∧ lo < hi ∧
       (ts ≥ FULL_RANGE_ONLY_TICK_SPACING_THRESHOLD → lo = (fullRangeIndexes ts).1 ∧ hi = (fullRangeIndexes ts).2)) := by
  unfold validateTickRange
  by_cases c1 : (!(isUsableTick lo ts) || !(isUsableTick hi ts) || decide (lo ≥ hi)) = true
  · rw [if_pos c1]
    constructor
    · intro h; cases h
    · intro ⟨a, b, c, _⟩
      simp [a, b] at c1
      omega
  · rw [if_neg c1]
    simp only [Bool.or_eq_true, Bool.not_eq_true', decide_eq_true_eq, not_or, Bool.not_eq_false, not_le] at c1
    obtain ⟨⟨a, b⟩, c⟩ := c1
    by_cases c2 : (decide (ts ≥ FULL_RANGE_ONLY_TICK_SPACING_THRESHOLD) &&
        (decide (lo ≠ (fullRangeIndexes ts).1) || decide (hi ≠ (fullRangeIndexes ts).2))) = true
    · rw [if_pos c2]
      constructor
      · intro h; cases h
      · intro ⟨_, _, _, d⟩
        simp only [Bool.and_eq_true, decide_eq_true_eq, Bool.or_eq_true, ne_eq] at c2
        obtain ⟨e1, e2⟩ := c2
        have := d e1
        rcases e2 with e2 | e2
        · exact absurd this.1 e2
        · exact absurd this.2 e2
    · rw [if_neg c2]
      constructor
      · intro _
        refine ⟨a, b, by omega, ?_⟩
        intro e1
        simp only [Bool.and_eq_true, decide_eq_true_eq, Bool.or_eq_true, ne_eq, not_and, not_or, Decidable.not_not] at c2
        exact c2 e1
      · intro _; rfl

/-- C18(b): a position can be re-ranged only when empty (no liquidity, and — unless owed amounts are
    explicitly kept — no owed fees or rewards), to a DIFFERENT valid range; the growth checkpoints of
    fees and of every reward are reset to zero, owed amounts and liquidity are untouched. -/
theorem reset_spec (ts : Nat) (p q : PositionD) (lo hi : Int) (keep : Bool)
    (h : resetPositionRange ts p lo hi keep = .ok q) :
    isPositionEmpty p keep = true ∧ ¬ (lo = p.lower ∧ hi = p.upper) ∧ validateTickRange ts lo hi = .ok () ∧
    q.lower = lo ∧ q.upper = hi ∧ q.cpA = 0 ∧ q.cpB = 0 ∧ (∀ r ∈ q.rewards, r.checkpoint = 0) ∧
    q.liq = p.liq ∧ q.owedA = p.owedA ∧ q.owedB = p.owedB := by
  unfold resetPositionRange at h
  by_cases e : isPositionEmpty p keep = true
  · simp only [e, Bool.not_true, Bool.false_eq_true, if_false] at h
    by_cases s : (decide (lo = p.lower) && decide (hi = p.upper)) = true
    · rw [if_pos s] at h; cases h
    · rw [if_neg s] at h
      cases hv : validateTickRange ts lo hi with
      | error er => rw [hv] at h; cases h
      | ok u =>
        rw [hv] at h
        simp only [Except.ok.injEq] at h
        subst h
        refine ⟨e, ?_, rfl, rfl, rfl, rfl, rfl, ?_, rfl, rfl, rfl⟩
        · simpa using s
        · intro r hr
          simp only [List.mem_map] at hr
          obtain ⟨r0, _, rfl⟩ := hr
          rfl
  · have : isPositionEmpty p keep = false := by simpa using e
    simp [this] at h

theorem empty_means_no_liquidity (p : PositionD) (keep : Bool) (h : isPositionEmpty p keep = true) : p.liq = 0 := by
  unfold isPositionEmpty at h
  cases keep <;> simp at h <;> omega

/-! ### position bundle bitmap -/

theorem byte_xor_bit : ∀ b : Fin 256, ∀ k : Fin 8, ∀ j : Fin 8,
    ((Nat.xor b.val (2 ^ k.val)) / 2 ^ j.val) % 2 = (if j = k then 1 - (b.val / 2 ^ j.val) % 2 else (b.val / 2 ^ j.val) % 2) := by
  decide +kernel

theorem byte_xor_lt : ∀ b : Fin 256, ∀ k : Fin 8, Nat.xor b.val (2 ^ k.val) < 256 := by decide +kernel

/-- well-formed bitmap: 32 bytes -/
def WFBitmap (bm : List Nat) : Prop := bm.length = 32 ∧ ∀ x ∈ bm, x < 256

/-- C18(c): a successful open/close flips exactly the addressed bit; opening an open index and
    closing a closed one fail; indexes ≥ 256 fail. -/
theorem bundle_update_spec (bm bm' : List Nat) (idx : Nat) (op : Bool) (wf : WFBitmap bm)
    (h : bundleUpdate bm idx op = .ok bm') :
    idx < 256 ∧ bundleBit bm idx = !op ∧ WFBitmap bm' ∧
    ∀ j, j < 256 → bundleBit bm' j = (if j = idx then op else bundleBit bm j) := by
  unfold bundleUpdate at h
  by_cases hi : idx ≥ 256
  · rw [if_pos hi] at h; cases h
  · rw [if_neg hi] at h
    simp only [] at h
    have hidx : idx < 256 := by omega
    by_cases c1 : (op && bundleBit bm idx) = true
    · rw [if_pos c1] at h; cases h
    · rw [if_neg c1] at h
      by_cases c2 : (!op && !bundleBit bm idx) = true
      · rw [if_pos c2] at h; cases h
      · rw [if_neg c2] at h
        simp only [Except.ok.injEq] at h
        subst h
        have hbit : bundleBit bm idx = !op := by
          cases op <;> cases hb : bundleBit bm idx <;> simp [hb] at c1 c2 ⊢
        have hlen : idx / 8 < bm.length := by rw [wf.1]; omega
        have hb : bm.getD (idx / 8) 0 < 256 := by
          rw [List.getD_eq_getElem?_getD, List.getElem?_eq_getElem hlen]
          exact wf.2 _ (List.getElem_mem hlen)
        refine ⟨hidx, hbit, ⟨by simp [wf.1], ?_⟩, ?_⟩
        · intro x hx
          rcases List.mem_or_eq_of_mem_set hx with hm | he
          · exact wf.2 x hm
          · rw [he]; exact byte_xor_lt ⟨_, hb⟩ ⟨idx % 8, Nat.mod_lt _ (by decide)⟩
        · intro j hj
          unfold bundleBit
          by_cases hq : j / 8 = idx / 8
          · rw [hq]
            have : (bm.set (idx / 8) (Nat.xor (bm.getD (idx / 8) 0) (2 ^ (idx % 8)))).getD (idx / 8) 0
                = Nat.xor (bm.getD (idx / 8) 0) (2 ^ (idx % 8)) := by
              rw [List.getD_eq_getElem?_getD, List.getElem?_set_self hlen]; rfl
            rw [this]
            have key := byte_xor_bit ⟨_, hb⟩ ⟨idx % 8, Nat.mod_lt _ (by decide)⟩ ⟨j % 8, Nat.mod_lt _ (by decide)⟩
            simp only [Fin.mk.injEq] at key
            rw [key]
            by_cases hr : j % 8 = idx % 8
            · have hji : j = idx := by omega
              subst hji
              simp only [if_true]
              have hbit' := hbit
              unfold bundleBit at hbit'
              have hm : bm.getD (j / 8) 0 / 2 ^ (j % 8) % 2 < 2 := Nat.mod_lt _ (by decide)
              cases op with
              | true =>
                simp only [Bool.not_true, decide_eq_false_iff_not] at hbit'
                simp only [decide_eq_true_eq]; omega
              | false =>
                simp only [Bool.not_false, decide_eq_true_eq] at hbit'
                simp only [decide_eq_false_iff_not]; omega
            · have hji : ¬ j = idx := by intro e; exact hr (by rw [e])
              simp only [hr, if_false, hji]
          · have hji : ¬ j = idx := by intro e; exact hq (by rw [e])
            simp only [hji, if_false]
            have : (bm.set (idx / 8) (Nat.xor (bm.getD (idx / 8) 0) (2 ^ (idx % 8)))).getD (j / 8) 0 = bm.getD (j / 8) 0 := by
              simp only [List.getD_eq_getElem?_getD]
              rw [List.getElem?_set_ne (by omega)]
            rw [this]

/-- the set of open indexes after a sequence of successful operations from the empty bundle -/
def openAfter : List (Nat × Bool) → Nat → Bool
  | [], _ => false
  | (i, op) :: rest, j => if j = i then op else openAfter rest j

def runOps : List (Nat × Bool) → R (List Nat)
  | [] => .ok (List.replicate 32 0)
  | (i, op) :: rest =>
    match runOps rest with
    | .error e => .error e
    | .ok bm => bundleUpdate bm i op

/-- C18(d): after ANY sequence of successful open/close operations the bitmap marks exactly the open
    bundled positions (operations listed most-recent first). -/
theorem bitmap_marks_open : ∀ (ops : List (Nat × Bool)) (bm : List Nat), runOps ops = .ok bm →
    WFBitmap bm ∧ ∀ j, j < 256 → bundleBit bm j = openAfter ops j := by
  intro ops
  induction ops with
  | nil =>
    intro bm h
    simp only [runOps, Except.ok.injEq] at h
    subst h
    refine ⟨⟨by simp, by intro x hx; simp at hx; omega⟩, ?_⟩
    intro j hj
    unfold bundleBit openAfter
    have : (List.replicate 32 0).getD (j / 8) 0 = 0 := by
      simp only [List.getD_eq_getElem?_getD, List.getElem?_replicate]
      by_cases c : j / 8 < 32 <;> simp [c]
    rw [this]; simp
  | cons hd tl ih =>
    intro bm h
    obtain ⟨i, op⟩ := hd
    simp only [runOps] at h
    cases hr : runOps tl with
    | error e => rw [hr] at h; cases h
    | ok bm0 =>
      rw [hr] at h
      obtain ⟨wf0, hb0⟩ := ih bm0 hr
      obtain ⟨_, _, wf', hb'⟩ := bundle_update_spec bm0 bm i op wf0 h
      refine ⟨wf', ?_⟩
      intro j hj
      rw [hb' j hj]
      unfold openAfter
      split
      · rfl
      · exact hb0 j hj

/-- C18(e): a bundle is deletable exactly when no bundled position is open. -/
theorem deletable_iff (bm : List Nat) (wf : WFBitmap bm) :
    bundleDeletable bm = true ↔ ∀ j, j < 256 → bundleBit bm j = false := by
  unfold bundleDeletable
  constructor
  · intro h j hj
    unfold bundleBit
    have hlen : j / 8 < bm.length := by rw [wf.1]; omega
    have : bm.getD (j / 8) 0 = 0 := by
      rw [List.getD_eq_getElem?_getD, List.getElem?_eq_getElem hlen]
      have := List.all_eq_true.mp h _ (List.getElem_mem hlen)
      simpa using this
    rw [this]; simp
  · intro h
    rw [List.all_eq_true]
    intro x hx
    obtain ⟨k, hk, rfl⟩ := List.getElem_of_mem hx
    have hk32 : k < 32 := by rw [← wf.1]; exact hk
    have hx256 := wf.2 _ hx
    -- every bit of the byte is 0
    have bits : ∀ b : Fin 8, (bm[k] / 2 ^ b.val) % 2 = 0 := by
      intro b
      have := h (k * 8 + b.val) (by omega)
      unfold bundleBit at this
      have e1 : (k * 8 + b.val) / 8 = k := by omega
      have e2 : (k * 8 + b.val) % 8 = b.val := by omega
      rw [e1, e2, List.getD_eq_getElem?_getD, List.getElem?_eq_getElem hk] at this
      simp only [Option.getD_some, decide_eq_false_iff_not] at this
      omega
    have zero : ∀ v : Fin 256, (∀ b : Fin 8, (v.val / 2 ^ b.val) % 2 = 0) → v.val = 0 := by decide +kernel
    have := zero ⟨bm[k], hx256⟩ bits
    simp only at this
    simp [this]

/-! ### lifecycle guards regenerated from the handlers (T) -/

/-- (handler file, rejection that must be present) -/
def guardRows : List (String × String) := [
  ("instructions/close_position.rs", "!Position::is_position_empty(&ctx.accounts.position) => ClosePositionNotEmpty"),
  ("instructions/close_position_with_token_extensions.rs", "!Position::is_position_empty(&ctx.accounts.position) => ClosePositionNotEmpty"),
  ("instructions/close_position_with_token_extensions.rs", "is_locked_position(&ctx.accounts.position_token_account) => OperationNotAllowedOnLockedPosition"),
  ("instructions/close_bundled_position.rs", "!Position::is_position_empty(&ctx.accounts.bundled_position) => ClosePositionNotEmpty"),
  ("instructions/decrease_liquidity.rs", "is_locked_position(&ctx.accounts.position_token_account) => OperationNotAllowedOnLockedPosition"),
  ("instructions/v2/decrease_liquidity.rs", "is_locked_position(&ctx.accounts.position_token_account) => OperationNotAllowedOnLockedPosition"),
  ("instructions/lock_position.rs", "ctx.accounts.position.liquidity == 0 => PositionNotLockable"),
  ("instructions/delete_position_bundle.rs", "!position_bundle.is_deletable() => PositionBundleNotDeletable")]

/-- Pinocchio: (handler file, rejection in the core) — decrease and reposition refuse locked positions;
    increase handlers must NOT contain such a rejection (a locked position can still add liquidity) -/
def pinoLockedRows : List String :=
  ["pinocchio/instructions/decrease_liquidity.rs", "pinocchio/instructions/decrease_liquidity_v2.rs", "pinocchio/instructions/reposition_liquidity_v2.rs"]
def pinoUnlockedRows : List String :=
  ["pinocchio/instructions/increase_liquidity.rs", "pinocchio/instructions/increase_liquidity_v2.rs", "pinocchio/instructions/increase_liquidity_by_token_amounts_v2.rs"]

def lockedReject : String := "reject: pino_is_locked_position(&position_token_account) => OperationNotAllowedOnLockedPosition"

def guardOk (r : String × String) : Bool :=
  match handlerGuards.find? (·.1 == r.1) with
  | none => false
  | some (_, gs) => gs.any fun g => g.1 == "reject" && g.2 == r.2

def pinoCore (file : String) : List String :=
  match pinoSpecs.find? (·.file == file) with
  | none => []
  | some s => s.core

/-- C18(f): close requires an empty position, locked positions cannot be decreased / closed /
    repositioned, only positions with liquidity can be locked, a bundle is deleted only when deletable;
    the lock instruction additionally requires a not-yet-frozen token account. -/
theorem lifecycle_guards_met :
    guardRows.all guardOk = true ∧
    pinoLockedRows.all (fun f => (pinoCore f).contains lockedReject) = true ∧
    pinoUnlockedRows.all (fun f => !(pinoCore f).contains lockedReject && !(pinoCore f).isEmpty) = true ∧
    hasAttr anchorSpecs "LockPosition" "position_token_account" "constraint" "!position_token_account.is_frozen()" = true := by
  decide +kernel

-- Non-vacuity
example : validateTickRange 64 (-128) 128 = .ok () ∧ validateTickRange 64 (-100) 128 = .error .InvalidTickIndex ∧
    validateTickRange 32896 (-427648) 427648 = .ok () ∧ validateTickRange 32896 0 32896 = .error .FullRangeOnlyPool := by decide +kernel
example : (runOps [(3, false), (11, true), (3, true)]).toOption.map (fun bm => (bundleBit bm 3, bundleBit bm 11, bundleDeletable bm))
    = some (false, true, false) := by decide +kernel

end WP.C18

namespace WP.C18
open WP WP.Gen WP.C09

theorem snap_up_props (a ts : Int) (hts : 0 < ts) :
    snapUp a ts % ts = 0 ∧ a ≤ snapUp a ts ∧ snapUp a ts < a + ts := by
  unfold snapUp
  have h0 : 0 ≤ a % ts := Int.emod_nonneg a (by omega)
  have h1 : a % ts < ts := Int.emod_lt_of_pos a hts
  have hd := Int.mul_ediv_add_emod a ts
  by_cases c : a % ts = 0
  · rw [if_pos c]; exact ⟨c, by omega, by omega⟩
  · rw [if_neg c]
    have e : a + (ts - a % ts) = ts * (a / ts + 1) := by
      have : ts * (a / ts + 1) = ts * (a / ts) + ts := by ring
      omega
    refine ⟨by rw [e]; exact Int.mul_emod_right _ _, by omega, by omega⟩

theorem snap_down_props (a ts : Int) (hts : 0 < ts) :
    snapDown a ts % ts = 0 ∧ snapDown a ts ≤ a ∧ a < snapDown a ts + ts := by
  unfold snapDown
  have h0 : 0 ≤ a % ts := Int.emod_nonneg a (by omega)
  have h1 : a % ts < ts := Int.emod_lt_of_pos a hts
  have hd := Int.mul_ediv_add_emod a ts
  have e : a - a % ts = ts * (a / ts) := by omega
  refine ⟨by rw [e]; exact Int.mul_emod_right _ _, by omega, by omega⟩

/-- C18(g): a lower bound left to be derived from the price becomes the NEAREST usable tick whose
    price is at or above the current price (so the position is entirely above the price). -/
theorem resolve_lower_spec (ts price : Nat) (l : Int) (hts : 0 < ts)
    (hp1 : MIN_SQRT_PRICE_X64 ≤ price) (hp2 : price ≤ MAX_SQRT_PRICE_X64)
    (h : resolveLower ts price = .ok l) :
    l % (ts : Int) = 0 ∧ MIN_TICK_INDEX ≤ l ∧ l ≤ MAX_TICK_INDEX ∧ price ≤ sp l ∧
      (MIN_TICK_INDEX ≤ l - ts → sp (l - ts) < price) := by
  unfold resolveLower at h
  simp only [] at h
  obtain ⟨t1, t2, t3, t4⟩ := ti_spec price hp1 hp2
  have htsI : (0 : Int) < (ts : Int) := by exact_mod_cast hts
  by_cases on : sp (ti price) = price
  · simp only [on, if_true] at h
    obtain ⟨s1, s2, s3⟩ := snap_up_props (ti price) ts htsI
    by_cases hmax : snapUp (ti price) ts > MAX_TICK_INDEX
    · rw [if_pos hmax] at h; cases h
    · rw [if_neg hmax] at h
      simp only [Except.ok.injEq] at h
      subst h
      refine ⟨s1, by omega, by omega, ?_, ?_⟩
      · have := sp_le (ti price) _ t1 s2 (by omega)
        omega
      · intro hm
        have := sp_lt _ (ti price) hm (by omega) t2
        omega
  · simp only [on, if_false] at h
    have hlt : sp (ti price) < price := by omega
    have hpt : ti price < MAX_TICK_INDEX := by
      by_contra hc
      have : ti price = MAX_TICK_INDEX := by omega
      rw [this, sp_ends.2] at hlt
      omega
    obtain ⟨s1, s2, s3⟩ := snap_up_props (ti price + 1) ts htsI
    by_cases hmax : snapUp (ti price + 1) ts > MAX_TICK_INDEX
    · rw [if_pos hmax] at h; cases h
    · rw [if_neg hmax] at h
      simp only [Except.ok.injEq] at h
      subst h
      refine ⟨s1, by omega, by omega, ?_, ?_⟩
      · have a := t4 hpt
        have b := sp_le (ti price + 1) _ (by omega) s2 (by omega)
        omega
      · intro hm
        have := sp_le _ (ti price) hm (by omega) t2
        omega

/-- C18(h): an upper bound left to be derived becomes the NEAREST usable tick whose price is at or
    below the current price (so the position is entirely below the price). -/
theorem resolve_upper_spec (ts price : Nat) (u : Int) (hts : 0 < ts)
    (hp1 : MIN_SQRT_PRICE_X64 ≤ price) (hp2 : price ≤ MAX_SQRT_PRICE_X64)
    (h : resolveUpper ts price = .ok u) :
    u % (ts : Int) = 0 ∧ MIN_TICK_INDEX ≤ u ∧ u ≤ MAX_TICK_INDEX ∧ sp u ≤ price ∧
      (u + ts ≤ MAX_TICK_INDEX → price < sp (u + ts)) := by
  unfold resolveUpper at h
  obtain ⟨t1, t2, t3, t4⟩ := ti_spec price hp1 hp2
  have htsI : (0 : Int) < (ts : Int) := by exact_mod_cast hts
  obtain ⟨s1, s2, s3⟩ := snap_down_props (ti price) ts htsI
  by_cases hmin : snapDown (ti price) ts < MIN_TICK_INDEX
  · rw [if_pos hmin] at h; cases h
  · rw [if_neg hmin] at h
    simp only [Except.ok.injEq] at h
    subst h
    refine ⟨s1, by omega, by omega, ?_, ?_⟩
    · have := sp_le _ (ti price) (by omega) s2 t2
      omega
    · intro hm
      have hpt : ti price < MAX_TICK_INDEX := by omega
      have a := t4 hpt
      have b := sp_le (ti price + 1) _ (by omega) (by omega) hm
      omega

/-- how `resolve_one_sided_position_ticks` uses the two derivations -/
theorem resolve_one_sided_cases (lo hi : Int) (ts price : Nat) (hts2 : ts < FULL_RANGE_ONLY_TICK_SPACING_THRESHOLD) :
    (lo ≠ I32_MIN → hi ≠ I32_MAX → resolveOneSided lo hi ts price = .ok (lo, hi)) ∧
    (lo = I32_MIN → hi = I32_MAX → resolveOneSided lo hi ts price = .error .InvalidTickIndex) ∧
    (lo = I32_MIN → hi ≠ I32_MAX → resolveOneSided lo hi ts price = (resolveLower ts price).map fun l => (l, hi)) ∧
    (lo ≠ I32_MIN → hi = I32_MAX → resolveOneSided lo hi ts price = (resolveUpper ts price).map fun u => (lo, u)) := by
  have hn : ¬ ts ≥ FULL_RANGE_ONLY_TICK_SPACING_THRESHOLD := by omega
  refine ⟨?_, ?_, ?_, ?_⟩ <;> intro a b <;> unfold resolveOneSided <;> simp only [a, b, hn, ne_eq, not_true_eq_false, not_false_eq_true,
    and_self, and_false, false_and, or_false, false_or, if_true, if_false, and_true, true_and]
  · cases resolveLower ts price <;> rfl
  · cases resolveUpper ts price <;> rfl

end WP.C18
