import WP.Props.ReachGrowth
/-
  C07, the last link: what one position's pending fee growth is after a stretch of history.

  For a position `p` holding liquidity, `pend` = (fee growth inside its range) − (its checkpoint),
  mod 2^128 — the quantity `next_position_modify_liquidity_update` multiplies by the position's
  liquidity when the position is next touched.  Over ANY stretch of operations that do not touch the
  position itself (other positions opened, changed, closed; fees and rewards collected; swaps in
  both directions; reward configuration; failing operations), `pend` advances by exactly the
  growths of the swap steps taken while the tick index was inside the position's range, each of
  them ⌊lpFee·2^64/L⌋ with L ≥ the position's own liquidity.
-/
set_option linter.unusedSimpArgs false
namespace WP.Reach
open WP WP.Gen WP.C05 WP.C10 WP.Path WP.Growth

variable {ts0 : Nat}

def cp (tokA : Bool) (p : PositionD) : Nat := if tokA then p.cpA else p.cpB
def glob (tokA : Bool) (s : HistState) : Nat := if tokA then s.pool.fgA else s.pool.fgB

/-- the growth accrued to the range of `p` since its checkpoint -/
def pend (tokA : Bool) (s : HistState) (p : PositionD) : Nat :=
  wsub (inside tokA s.ticks s.pool.tick p.lower p.upper (glob tokA s)) (cp tokA p)

/-- the parts of a position the pending growth depends on -/
def SameView (p p' : PositionD) : Prop :=
  p'.lower = p.lower ∧ p'.upper = p.upper ∧ p'.liq = p.liq ∧ p'.cpA = p.cpA ∧ p'.cpB = p.cpB

theorem pend_congr (tokA : Bool) (s s' : HistState) (p p' : PositionD) (v : SameView p p')
    (h : inside tokA s'.ticks s'.pool.tick p.lower p.upper (glob tokA s') = inside tokA s.ticks s.pool.tick p.lower p.upper (glob tokA s)) :
    pend tokA s' p' = pend tokA s p := by
  obtain ⟨a, b, _, d, e⟩ := v
  unfold pend cp
  rw [a, b, d, e, h]

theorem wsub_wsum (a c : Nat) (l : List Nat) : wsub (wsum a l) c = wsum (wsub a c) l := by
  induction l generalizing a with
  | nil => rw [wsum_nil, wsum_nil]
  | cons d tl ih =>
    unfold wsum at ih ⊢
    rw [List.foldl_cons, List.foldl_cons, ih, C07.wsub_wadd_comm]

theorem inRange_sum_nonneg (t : Int) : ∀ l : List (Nat × PositionD), 0 ≤ sumBy (inRangeLiq t) l := by
  intro l
  induction l with
  | nil => simp [sumBy]
  | cons hd tl ih =>
    obtain ⟨k, w⟩ := hd
    simp only [sumBy]
    have : 0 ≤ inRangeLiq t w := by unfold inRangeLiq; split <;> omega
    omega

theorem wsum_append_list (a : Nat) (l1 l2 : List Nat) : wsum a (l1 ++ l2) = wsum (wsum a l1) l2 := by
  unfold wsum; rw [List.foldl_append]

/-- a position with liquidity makes both its bounds liquidity-bearing and is counted in the in-range sum -/
theorem bound_of_pos (id : Nat) (p : PositionD) (hl : 0 < p.liq) (hlu : p.lower < p.upper) :
    ∀ l : List (Nat × PositionD), posGet l id = some p →
      Bound l p.lower ∧ Bound l p.upper ∧ ∀ t, p.lower ≤ t → t < p.upper → (p.liq : Int) ≤ sumBy (inRangeLiq t) l := by
  intro l
  induction l with
  | nil => intro h; simp [posGet] at h
  | cons hd tl ih =>
    obtain ⟨k, w⟩ := hd
    intro h
    unfold posGet at h
    have hnn : ∀ t, 0 ≤ sumBy (inRangeLiq t) tl := fun t => inRange_sum_nonneg t tl
    by_cases e : k = id
    · rw [if_pos e] at h
      cases h
      unfold Bound
      simp only [sumBy]
      have g1 := C05.sumBy_gross_nonneg p.lower tl
      have g2 := C05.sumBy_gross_nonneg p.upper tl
      refine ⟨?_, ?_, ?_⟩
      · have : grossContrib p.lower p ≥ p.liq := by unfold grossContrib; split <;> split <;> omega
        omega
      · have : grossContrib p.upper p ≥ p.liq := by unfold grossContrib; split <;> split <;> omega
        omega
      · intro t h1 h2
        have : inRangeLiq t p = p.liq := by unfold inRangeLiq; rw [if_pos ⟨h1, h2⟩]
        have := hnn t
        omega
    · rw [if_neg e] at h
      obtain ⟨a, b, c⟩ := ih h
      unfold Bound at a b ⊢
      simp only [sumBy]
      have g1 := C05.gross_nonneg p.lower w
      have g2 := C05.gross_nonneg p.upper w
      refine ⟨by omega, by omega, ?_⟩
      intro t h1 h2
      have : 0 ≤ inRangeLiq t w := by unfold inRangeLiq; split <;> omega
      have := c t h1 h2
      omega


/-! ### what each operation does to the view of a position it does not touch -/

theorem sameView_refl (p : PositionD) : SameView p p := ⟨rfl, rfl, rfl, rfl, rfl⟩

theorem view_step (s s' : HistState) (op : HistOp) (outs : List Nat) (id : Nat) (p : PositionD)
    (hp : posGet s.positions id = some p)
    (hno : (∀ a b, op ≠ .modify id a b) ∧ op ≠ .upd id)
    (h : histStep s op = .ok (s', outs)) : ∃ p', posGet s'.positions id = some p' ∧ SameView p p' := by
  cases op with
  | reward i e t => unfold histStep at h; cases h
  | openPos j lo hi =>
    unfold histStep at h
    simp only [] at h
    split at h
    · cases h
    · split at h
      · cases h
      · split at h
        · cases h
        · rename_i hnone
          simp only [Except.ok.injEq, Prod.mk.injEq] at h
          obtain ⟨h1, _⟩ := h; subst h1
          have hn : posGet s.positions j = none := by
            cases e : posGet s.positions j with
            | none => rfl
            | some v => simp [e] at hnone
          have hne : ¬ id = j := fun e => by rw [e, hn] at hp; cases hp
          refine ⟨p, ?_, sameView_refl p⟩
          show posGet (posSet s.positions j _) id = some p
          rw [C05.posGet_insert _ _ _ _ hn, if_neg hne]; exact hp
  | modify j a b =>
    have hne : ¬ id = j := fun e => hno.1 a b (by rw [e])
    unfold histStep at h
    simp only [] at h
    split at h
    · cases h
    · split at h
      · cases h
      · split at h
        · cases h
        · rename_i pos hpos
          split at h
          · cases h
          · split at h
            · cases h
            · split at h
              · simp only [Except.ok.injEq, Prod.mk.injEq] at h
                obtain ⟨h1, _⟩ := h; subst h1
                refine ⟨p, ?_, sameView_refl p⟩
                show posGet (posReplace s.positions j _) id = some p
                rw [C05.posGet_replace _ _ _ _ _ hpos, if_neg hne]; exact hp
              · split at h
                · cases h
                · simp only [Except.ok.injEq, Prod.mk.injEq] at h
                  obtain ⟨h1, _⟩ := h; subst h1
                  refine ⟨p, ?_, sameView_refl p⟩
                  show posGet (posReplace s.positions j _) id = some p
                  rw [C05.posGet_replace _ _ _ _ _ hpos, if_neg hne]; exact hp
  | upd j =>
    have hne : ¬ id = j := fun e => hno.2 (by rw [e])
    unfold histStep at h
    simp only [] at h
    split at h
    · cases h
    · rename_i pos hpos
      split at h
      · cases h
      · simp only [Except.ok.injEq, Prod.mk.injEq] at h
        obtain ⟨h1, _⟩ := h; subst h1
        refine ⟨p, ?_, sameView_refl p⟩
        show posGet (posReplace s.positions j _) id = some p
        rw [C05.posGet_replace _ _ _ _ _ hpos, if_neg hne]; exact hp
  | cfees j =>
    unfold histStep at h
    simp only [] at h
    split at h
    · cases h
    · rename_i pos hpos
      split at h
      · cases h
      · simp only [Except.ok.injEq, Prod.mk.injEq] at h
        obtain ⟨h1, _⟩ := h; subst h1
        by_cases e : id = j
        · rw [e] at hp
          rw [hp] at hpos; cases hpos
          have key : ∀ q : PositionD, SameView p q →
              ∃ p', posGet (posReplace s.positions j q) id = some p' ∧ SameView p p' := by
            intro q hq; exact ⟨q, by rw [C05.posGet_replace _ _ _ _ _ hp, if_pos e], hq⟩
          exact key _ ⟨rfl, rfl, rfl, rfl, rfl⟩
        · refine ⟨p, ?_, sameView_refl p⟩
          show posGet (posReplace s.positions j _) id = some p
          rw [C05.posGet_replace _ _ _ _ _ hpos, if_neg e]; exact hp
  | cproto =>
    unfold histStep at h
    simp only [] at h
    split at h
    · cases h
    · simp only [Except.ok.injEq, Prod.mk.injEq] at h
      obtain ⟨h1, _⟩ := h; subst h1
      exact ⟨p, hp, sameView_refl p⟩
  | clock now =>
    unfold histStep at h
    simp only [Except.ok.injEq, Prod.mk.injEq] at h
    obtain ⟨h1, _⟩ := h; subst h1
    exact ⟨p, hp, sameView_refl p⟩
  | crew j i =>
    unfold histStep at h
    simp only [] at h
    split at h
    · cases h
    · split at h
      · cases h
      · rename_i pos hpos
        simp only [Except.ok.injEq, Prod.mk.injEq] at h
        obtain ⟨h1, _⟩ := h; subst h1
        by_cases e : id = j
        · rw [e] at hp
          rw [hp] at hpos; cases hpos
          have key : ∀ q : PositionD, SameView p q →
              ∃ p', posGet (posReplace s.positions j q) id = some p' ∧ SameView p p' := by
            intro q hq; exact ⟨q, by rw [C05.posGet_replace _ _ _ _ _ hp, if_pos e], hq⟩
          exact key _ ⟨rfl, rfl, rfl, rfl, rfl⟩
        · refine ⟨p, ?_, sameView_refl p⟩
          show posGet (posReplace s.positions j _) id = some p
          rw [C05.posGet_replace _ _ _ _ _ hpos, if_neg e]; exact hp
  | swap amount limit isInput aToB arrays =>
    unfold histStep at h
    simp only [] at h
    split at h
    · cases h
    · split at h
      · cases h
      · split at h
        · cases h
        · split at h
          · cases h
          · simp only [Except.ok.injEq, Prod.mk.injEq] at h
            obtain ⟨h1, _⟩ := h; subst h1
            exact ⟨p, hp, sameView_refl p⟩


/-! ### the frame of the non-swap operations -/

theorem frame_other (s s' : HistState) (op : HistOp) (outs : List Nat)
    (hop : (∀ a l i d ar, op ≠ .swap a l i d ar) ∧ (∀ i a p, op ≠ .modify i a p))
    (h : histStep s op = .ok (s', outs)) :
    s'.ticks = s.ticks ∧ s'.pool.tick = s.pool.tick ∧ s'.pool.fgA = s.pool.fgA ∧ s'.pool.fgB = s.pool.fgB := by
  cases op with
  | swap a l i d ar => exact absurd rfl (hop.1 a l i d ar)
  | modify i a p => exact absurd rfl (hop.2 i a p)
  | reward i e t => unfold histStep at h; cases h
  | openPos id lo hi =>
    unfold histStep at h
    simp only [] at h
    split at h
    · cases h
    · split at h
      · cases h
      · split at h
        · cases h
        · simp only [Except.ok.injEq, Prod.mk.injEq] at h
          obtain ⟨h1, _⟩ := h; subst h1
          exact ⟨rfl, rfl, rfl, rfl⟩
  | upd id =>
    unfold histStep at h
    simp only [] at h
    split at h
    · cases h
    · split at h
      · cases h
      · simp only [Except.ok.injEq, Prod.mk.injEq] at h
        obtain ⟨h1, _⟩ := h; subst h1
        exact ⟨rfl, rfl, rfl, rfl⟩
  | cfees id =>
    unfold histStep at h
    simp only [] at h
    split at h
    · cases h
    · split at h
      · cases h
      · simp only [Except.ok.injEq, Prod.mk.injEq] at h
        obtain ⟨h1, _⟩ := h; subst h1
        exact ⟨rfl, rfl, rfl, rfl⟩
  | cproto =>
    unfold histStep at h
    simp only [] at h
    split at h
    · cases h
    · simp only [Except.ok.injEq, Prod.mk.injEq] at h
      obtain ⟨h1, _⟩ := h; subst h1
      exact ⟨rfl, rfl, rfl, rfl⟩
  | clock now =>
    unfold histStep at h
    simp only [Except.ok.injEq, Prod.mk.injEq] at h
    obtain ⟨h1, _⟩ := h; subst h1
    exact ⟨rfl, rfl, rfl, rfl⟩
  | crew id i =>
    unfold histStep at h
    simp only [] at h
    split at h
    · cases h
    · split at h
      · cases h
      · simp only [Except.ok.injEq, Prod.mk.injEq] at h
        obtain ⟨h1, _⟩ := h; subst h1
        exact ⟨rfl, rfl, rfl, rfl⟩

/-- a tick that holds liquidity before and after a liquidity change keeps its fee-growth-outside values -/
theorem tickModify_keeps (t t' : TickData) (tickIndex cur : Int) (fgA fgB : Nat) (rw : List RewardInfo) (delta : Int) (isUpper : Bool)
    (h0 : t.gross ≠ 0) (h1 : t'.gross ≠ 0)
    (h : nextTickModifyLiquidityUpdate t tickIndex cur fgA fgB rw delta isUpper = .ok t') :
    t'.fgoA = t.fgoA ∧ t'.fgoB = t.fgoB := by
  unfold nextTickModifyLiquidityUpdate at h
  split at h
  · cases h; exact ⟨rfl, rfl⟩
  · split at h
    · cases h
    · split at h
      · cases h; exact absurd rfl h1
      · split at h
        rename_i oa ob orw heq
        first | rw [if_neg h0] at heq | skip
        cases heq
        split at h
        · cases h
        · cases h; exact ⟨rfl, rfl⟩

/-- a liquidity change leaves tick index and global growths alone, and the growth inside every range
    whose bounds hold liquidity before and after -/
theorem frame_modify (s s' : HistState) (id amount : Nat) (positive : Bool) (outs : List Nat)
    (inv : Inv s) (inv' : Inv s')
    (h : histStep s (.modify id amount positive) = .ok (s', outs)) :
    s'.pool.tick = s.pool.tick ∧ s'.pool.fgA = s.pool.fgA ∧ s'.pool.fgB = s.pool.fgB ∧
    ∀ (tokA : Bool) (lo hi : Int) (g : Nat), Bound s.positions lo → Bound s.positions hi → Bound s'.positions lo → Bound s'.positions hi →
      inside tokA s'.ticks s.pool.tick lo hi g = inside tokA s.ticks s.pool.tick lo hi g := by
  have hgross : ∀ (st : HistState), Inv st → ∀ t, Bound st.positions t → (st.ticks.get t).gross ≠ 0 := by
    intro st i t b
    have := i.gross t
    unfold Bound at b
    omega
  have hh := h
  unfold histStep at h
  simp only [] at h
  split at h
  · cases h
  · split at h
    · cases h
    · split at h
      · cases h
      · rename_i pos hpos
        split at h
        · cases h
        · rename_i u hu
          have hticks : ∀ t, (s.ticks.get t).gross ≠ 0 →
              ((((s.ticks.set pos.lower u.tickLower).set pos.upper u.tickUpper).get t).gross ≠ 0) →
              (((s.ticks.set pos.lower u.tickLower).set pos.upper u.tickUpper).get t).fgoA = (s.ticks.get t).fgoA ∧
              (((s.ticks.set pos.lower u.tickLower).set pos.upper u.tickUpper).get t).fgoB = (s.ticks.get t).fgoB := by
            generalize (if positive = true then (amount : Int) else -(amount : Int)) = delta at hu
            unfold calculateModifyLiquidity at hu
            split at hu
            · cases hu
            · split at hu
              · cases hu
              · split at hu
                · cases hu
                · split at hu
                  · cases hu
                  · rename_i tlu htl
                    split at hu
                    · cases hu
                    · rename_i tuu htu
                      simp only [] at hu
                      split at hu
                      · cases hu
                      · cases hu
                        intro t g0 g1
                        rw [C05.tick_get_set] at g1 ⊢
                        by_cases e : t = pos.upper
                        · rw [if_pos e] at g1 ⊢
                          rw [e] at g0 ⊢
                          exact tickModify_keeps _ _ _ _ _ _ _ _ _ g0 g1 htu
                        · rw [if_neg e] at g1 ⊢
                          rw [C05.tick_get_set] at g1 ⊢
                          by_cases e2 : t = pos.lower
                          · rw [if_pos e2] at g1 ⊢
                            rw [e2] at g0 ⊢
                            exact tickModify_keeps _ _ _ _ _ _ _ _ _ g0 g1 htl
                          · rw [if_neg e2]; exact ⟨rfl, rfl⟩
          have fin : ∀ st : HistState, st.ticks = (s.ticks.set pos.lower u.tickLower).set pos.upper u.tickUpper →
              st.pool.tick = s.pool.tick → st.pool.fgA = s.pool.fgA → st.pool.fgB = s.pool.fgB → Inv st →
              st.pool.tick = s.pool.tick ∧ st.pool.fgA = s.pool.fgA ∧ st.pool.fgB = s.pool.fgB ∧
              ∀ (tokA : Bool) (lo hi : Int) (g : Nat), Bound s.positions lo → Bound s.positions hi → Bound st.positions lo → Bound st.positions hi →
                inside tokA st.ticks s.pool.tick lo hi g = inside tokA s.ticks s.pool.tick lo hi g := by
            intro st e1 e2 e3 e4 ist
            refine ⟨e2, e3, e4, ?_⟩
            intro tokA lo hi g b1 b2 b3 b4
            have a1 := hticks lo (hgross s inv lo b1) (by rw [← e1]; exact hgross st ist lo b3)
            have a2 := hticks hi (hgross s inv hi b2) (by rw [← e1]; exact hgross st ist hi b4)
            unfold inside fo
            rw [e1]
            cases tokA
            · simp only [Bool.false_eq_true, if_false]; rw [a1.2, a2.2]
            · simp only [if_true]; rw [a1.1, a2.1]
          split at h
          · cases h
          · split at h
            · simp only [Except.ok.injEq, Prod.mk.injEq] at h
              obtain ⟨h1, _⟩ := h
              exact fin s' (by rw [← h1]) (by rw [← h1]) (by rw [← h1]) (by rw [← h1]) inv'
            · split at h
              · cases h
              · simp only [Except.ok.injEq, Prod.mk.injEq] at h
                obtain ⟨h1, _⟩ := h
                exact fin s' (by rw [← h1]) (by rw [← h1]) (by rw [← h1]) (by rw [← h1]) inv'


/-! ### one operation, then any stretch of history -/

/-- `d` is the pro-rata growth of a swap step during which at least `pl` liquidity was in range -/
def ShareOf (pl : Nat) (d : Nat) : Prop := ∃ L lpFee, d = share L lpFee ∧ pl ≤ L

theorem glob_eq (tokA aToB : Bool) (s : HistState) :
    glob tokA s = if tokA = aToB then (if aToB then s.pool.fgA else s.pool.fgB) else (if aToB then s.pool.fgB else s.pool.fgA) := by
  unfold glob; cases tokA <;> cases aToB <;> simp

theorem pend_step (s : HistState) (op : HistOp) (id : Nat) (p : PositionD) (tokA : Bool)
    (inv : Inv s) (g : Geo ts0 s) (w : Wf s) (hp : posGet s.positions id = some p) (hl : 0 < p.liq)
    (hno : (∀ a b, op ≠ .modify id a b) ∧ op ≠ .upd id) (hop : OpOK ts0 op) :
    ∃ p', posGet (histApply s op).positions id = some p' ∧ SameView p p' ∧
      ∃ deltas, pend tokA (histApply s op) p' = wsum (pend tokA s p) deltas ∧ ∀ d ∈ deltas, ShareOf p.liq d := by
  have hlu : p.lower < p.upper := (g.pos (id, p) (posGet_mem id p s.positions hp)).1
  obtain ⟨bl, bh, hin⟩ := bound_of_pos id p hl hlu s.positions hp
  have stay : ∃ p', posGet s.positions id = some p' ∧ SameView p p' ∧
      ∃ deltas, pend tokA s p' = wsum (pend tokA s p) deltas ∧ ∀ d ∈ deltas, ShareOf p.liq d :=
    ⟨p, hp, sameView_refl p, [], by rw [wsum_nil], fun d hd => by cases hd⟩
  by_cases hr : ∃ i e t, op = .reward i e t
  · obtain ⟨i, e, t, rfl⟩ := hr
    have hs := reward_same s i e t
    obtain ⟨fa, fb⟩ := reward_fg s i e t
    show ∃ p', posGet (histReward s i e t).1.positions id = some p' ∧ _
    refine ⟨p, by rw [hs.2.2.2.2.2.2.1]; exact hp, sameView_refl p, [], ?_, fun d hd => by cases hd⟩
    rw [wsum_nil]
    apply pend_congr tokA s _ p p (sameView_refl p)
    show inside tokA (histReward s i e t).1.ticks (histReward s i e t).1.pool.tick p.lower p.upper (glob tokA (histReward s i e t).1) = _
    unfold glob
    rw [hs.2.2.2.2.2.1, hs.2.1, fa, fb]
  · have hnr : ∀ i e t, op ≠ .reward i e t := fun i e t h => hr ⟨i, e, t, h⟩
    cases h : histStep s op with
    | error e => rw [apply_err s op e hnr h]; exact stay
    | ok r =>
      obtain ⟨s', outs⟩ := r
      rw [apply_ok s s' op outs hnr h]
      obtain ⟨p', hp', v⟩ := view_step s s' op outs id p hp hno h
      refine ⟨p', hp', v, ?_⟩
      by_cases hsw : ∃ a l i d ar, op = .swap a l i d ar
      · obtain ⟨amount, limit, isInput, aToB, arrays, rfl⟩ := hsw
        unfold OpOK at hop
        rw [← g.spacing] at hop
        obtain ⟨_, log, q1, q2, q3, q4⟩ := swap_step_growth s s' amount limit isInput aToB arrays outs inv g w hop.1 hop.2 h
        obtain ⟨qa, qb⟩ := q4 p.lower p.upper hlu bl bh
        by_cases ht : tokA = aToB
        · refine ⟨inRangeDeltas log p.lower p.upper, ?_, ?_⟩
          · obtain ⟨v1, v2, _, v4, v5⟩ := v
            unfold pend cp
            rw [v1, v2, v4, v5, glob_eq tokA aToB s', glob_eq tokA aToB s, if_pos ht, if_pos ht, ht, qa, wsub_wsum]
          · intro d hd
            unfold inRangeDeltas at hd
            obtain ⟨e, he, rfl⟩ := List.mem_map.mp hd
            have hef := List.mem_filter.mp he
            obtain ⟨lp, hlp⟩ := q3 e hef.1
            have hr2 : p.lower ≤ e.1 ∧ e.1 < p.upper := of_decide_eq_true hef.2
            have := hin e.1 hr2.1 hr2.2
            exact ⟨_, lp, hlp, by omega⟩
        · refine ⟨[], ?_, fun d hd => by cases hd⟩
          rw [wsum_nil]
          apply pend_congr tokA s s' p p' v
          have ht' : tokA = !aToB := by cases tokA <;> cases aToB <;> simp_all
          rw [glob_eq tokA aToB s', glob_eq tokA aToB s, if_neg ht, if_neg ht, ht']
          exact qb
      · have hnsw : ∀ a l i d ar, op ≠ .swap a l i d ar := fun a l i d ar hh => hsw ⟨a, l, i, d, ar, hh⟩
        refine ⟨[], ?_, fun d hd => by cases hd⟩
        rw [wsum_nil]
        apply pend_congr tokA s s' p p' v
        by_cases hm : ∃ j a b, op = .modify j a b
        · obtain ⟨j, a, b, rfl⟩ := hm
          have inv' := inv_modify s s' j a b outs inv h
          obtain ⟨f1, f2, f3, f4⟩ := frame_modify s s' j a b outs inv inv' h
          have hl' : 0 < p'.liq := by rw [v.2.2.1]; exact hl
          have hlu' : p'.lower < p'.upper := by rw [v.1, v.2.1]; exact hlu
          obtain ⟨bl', bh', _⟩ := bound_of_pos id p' hl' hlu' s'.positions hp'
          rw [v.1] at bl'; rw [v.2.1] at bh'
          unfold glob
          rw [f1, f2, f3]
          exact f4 tokA p.lower p.upper _ bl bh bl' bh'
        · have hnm : ∀ j a b, op ≠ .modify j a b := fun j a b hh => hm ⟨j, a, b, hh⟩
          obtain ⟨f1, f2, f3, f4⟩ := frame_other s s' op outs ⟨hnsw, hnm⟩ h
          unfold glob
          rw [f1, f2, f3, f4]

/-- **C07, per position, over any stretch of history**: while a position holding liquidity is not
    itself touched, its pending growth (growth inside its range minus its checkpoint, mod 2^128)
    advances by exactly a list of swap-step growths, each the pro-rata share ⌊lpFee·2^64/L⌋ of a
    step during which the position was in range (L ≥ its own liquidity).  Nothing else — other
    positions coming and going, collections, reward configuration, failing operations, swaps while
    out of range — moves it. -/
theorem pend_history (ops : List HistOp) (id : Nat) (tokA : Bool) : ∀ (s : HistState) (p : PositionD),
    Inv s → Geo ts0 s → Wf s → posGet s.positions id = some p → 0 < p.liq →
    (∀ op ∈ ops, OpOK ts0 op ∧ (∀ a b, op ≠ .modify id a b) ∧ op ≠ .upd id) →
    ∃ p', posGet (ops.foldl histApply s).positions id = some p' ∧ SameView p p' ∧
      ∃ deltas, pend tokA (ops.foldl histApply s) p' = wsum (pend tokA s p) deltas ∧ ∀ d ∈ deltas, ShareOf p.liq d := by
  induction ops with
  | nil => intro s p _ _ _ hp _ _; exact ⟨p, hp, sameView_refl p, [], by rw [wsum_nil]; rfl, fun d hd => by cases hd⟩
  | cons op rest ih =>
    intro s p inv g w hp hl hops
    obtain ⟨ok1, no1⟩ := hops op List.mem_cons_self
    obtain ⟨p1, hp1, v1, d1, e1, sh1⟩ := pend_step s op id p tokA inv g w hp hl no1 ok1
    obtain ⟨i1, g1⟩ := apply_keeps s op inv g ok1
    have w1 := apply_keeps_wf s op inv g w ok1
    have hl1 : 0 < p1.liq := by rw [v1.2.2.1]; exact hl
    obtain ⟨p2, hp2, v2, d2, e2, sh2⟩ := ih _ p1 i1 g1 w1 hp1 hl1 (fun o ho => hops o (List.mem_cons_of_mem _ ho))
    refine ⟨p2, hp2, ?_, d1 ++ d2, ?_, ?_⟩
    · obtain ⟨a1, a2, a3, a4, a5⟩ := v1
      obtain ⟨b1, b2, b3, b4, b5⟩ := v2
      exact ⟨by rw [b1, a1], by rw [b2, a2], by rw [b3, a3], by rw [b4, a4], by rw [b5, a5]⟩
    · show pend tokA (rest.foldl histApply (histApply s op)) p2 = _
      rw [e2, e1, wsum_append_list]
    · intro d hd
      rcases List.mem_append.mp hd with h | h
      · exact sh1 d h
      · have := sh2 d h
        rw [v1.2.2.1] at this
        exact this

/-- and when the position is finally touched, the growth is turned into tokens: owed += ⌊L·pend/2^64⌋
    (0 on overflow, never more: C07.credit_le) and the checkpoint moves to the growth inside -/
theorem upd_credits (s s' : HistState) (id : Nat) (outs : List Nat) (p : PositionD)
    (hp : posGet s.positions id = some p) (h : histStep s (.upd id) = .ok (s', outs)) :
    ∃ p', posGet s'.positions id = some p' ∧
      p'.owedA = wadd64 p.owedA (mulShiftOr0 p.liq (wsub (nextFeeGrowthsInside s.pool.tick (s.ticks.get p.lower) p.lower (s.ticks.get p.upper) p.upper s.pool.fgA s.pool.fgB).1 p.cpA)) ∧
      p'.cpA = (nextFeeGrowthsInside s.pool.tick (s.ticks.get p.lower) p.lower (s.ticks.get p.upper) p.upper s.pool.fgA s.pool.fgB).1 ∧
      p'.owedB = wadd64 p.owedB (mulShiftOr0 p.liq (wsub (nextFeeGrowthsInside s.pool.tick (s.ticks.get p.lower) p.lower (s.ticks.get p.upper) p.upper s.pool.fgA s.pool.fgB).2 p.cpB)) ∧
      p'.cpB = (nextFeeGrowthsInside s.pool.tick (s.ticks.get p.lower) p.lower (s.ticks.get p.upper) p.upper s.pool.fgA s.pool.fgB).2 := by
  unfold histStep at h
  simp only [] at h
  rw [hp] at h
  simp only [] at h
  split at h
  · cases h
  · rename_i u hu
    simp only [Except.ok.injEq, Prod.mk.injEq] at h
    obtain ⟨h1, _⟩ := h
    refine ⟨u.position, by rw [← h1]; show posGet (posReplace s.positions id u.position) id = _; rw [C05.posGet_replace _ _ _ _ _ hp, if_pos rfl], ?_⟩
    unfold calculateModifyLiquidity at hu
    split at hu
    · cases hu
    · split at hu
      · cases hu
      · split at hu
        · cases hu
        · split at hu
          · cases hu
          · split at hu
            · cases hu
            · simp only [] at hu
              split at hu
              · cases hu
              · rename_i pu hpu
                cases hu
                unfold nextPositionUpdate at hpu
                simp only [] at hpu
                split at hpu
                · cases hpu
                · cases hpu
                  exact ⟨rfl, rfl, rfl, rfl⟩


/-- the same in terms of `pend`: for a position holding liquidity both bounds are initialized, so the
    program's `next_fee_growths_inside` is the `inside` of the theorems above -/
theorem upd_credits_pend (s s' : HistState) (id : Nat) (outs : List Nat) (p : PositionD)
    (inv : Inv s) (g : Geo ts0 s) (hp : posGet s.positions id = some p) (hl : 0 < p.liq)
    (h : histStep s (.upd id) = .ok (s', outs)) :
    ∃ p', posGet s'.positions id = some p' ∧
      p'.owedA = wadd64 p.owedA (mulShiftOr0 p.liq (pend true s p)) ∧
      p'.owedB = wadd64 p.owedB (mulShiftOr0 p.liq (pend false s p)) := by
  have hlu : p.lower < p.upper := (g.pos (id, p) (posGet_mem id p s.positions hp)).1
  obtain ⟨bl, bh, _⟩ := bound_of_pos id p hl hlu s.positions hp
  have tf := tickFacts_of s inv g
  obtain ⟨il, _⟩ := bound_init s.ticks s.positions s.pool.ts tf p.lower bl
  obtain ⟨ih, _⟩ := bound_init s.ticks s.positions s.pool.ts tf p.upper bh
  obtain ⟨p', hp', a, _, b, _⟩ := upd_credits s s' id outs p hp h
  refine ⟨p', hp', ?_, ?_⟩
  · rw [a]
    unfold nextFeeGrowthsInside pend inside fo glob cp
    simp only [if_true]
    rw [C07.growthInside_init _ _ _ _ _ _ _ _ il ih]
  · rw [b]
    unfold nextFeeGrowthsInside pend inside fo glob cp
    simp only [Bool.false_eq_true, if_false]
    rw [C07.growthInside_init _ _ _ _ _ _ _ _ il ih]

end WP.Reach
