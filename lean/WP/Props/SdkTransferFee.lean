import WP.Model.SdkSwap
import WP.Props.C16
/-
  C20 / C16: the SDK's transfer-fee arithmetic (used by its swap and liquidity quotes) against the program's
  (`calculate_transfer_fee_excluded_amount` / `_included_amount` over spl-token-2022's `TransferFee`):
  `try_apply_transfer_fee` is the program's excluded amount, `try_reverse_apply_transfer_fee` is the program's included
  amount — same value when the program returns one, failure exactly when the program fails.
-/
set_option linter.unusedSimpArgs false
namespace WP.SdkTF
open WP WP.Gen WP.C16

theorem ceil_form (a b : Nat) : (a + b - 1) / b = ceilDivN a b := rfl

/-- **excluded amount**: what is left of `y` after the fee -/
theorem sdk_apply_tf_eq (f : TFee) (y : Nat) (hb : f.bps ≤ 10000) (hy : y ≤ U64_MAX) :
    sdkApplyTF y f.bps f.maxFee = .ok (excludedAmount (some f) y).1 := by
  have h64 : U64_MAX + 1 = TWO64 := by decide +kernel
  unfold sdkApplyTF excludedAmount TFee.fee
  simp only []
  rw [if_neg (by omega)]
  by_cases hz : (decide (f.bps = 0) || decide (y = 0)) = true
  · rw [if_pos hz, if_pos hz]; simp
  · rw [if_neg hz, if_neg hz]
    have hle : ceilDivN (y * f.bps) 10000 ≤ y := ceil_le y f.bps hb
    rw [show (y * f.bps + 10000 - 1) / 10000 = ceilDivN (y * f.bps) 10000 from rfl]
    rw [if_neg (by omega)]
    have hm : min (ceilDivN (y * f.bps) 10000) f.maxFee ≤ y := Nat.le_trans (Nat.min_le_left _ _) hle
    have : y + TWO64 - min (ceilDivN (y * f.bps) 10000) f.maxFee = (y - min (ceilDivN (y * f.bps) 10000) f.maxFee) + TWO64 := by omega
    rw [this, Nat.add_mod_right, Nat.mod_eq_of_lt (by omega)]

/-- the SDK's reverse function is spl's `calculate_pre_fee_amount` -/
theorem sdk_reverse_is_preFee (f : TFee) (x : Nat) (hb : f.bps ≤ 10000) :
    (sdkReverseTF x f.bps f.maxFee).toOption = f.preFee x := by
  unfold sdkReverseTF TFee.preFee
  rw [if_neg (by omega)]
  by_cases h0 : f.bps = 0
  · rw [if_pos h0, if_pos h0]; rfl
  · rw [if_neg h0, if_neg h0]
    by_cases hx : x = 0
    · rw [if_pos hx, if_pos hx]; rfl
    · rw [if_neg hx, if_neg hx]
      by_cases h100 : f.bps = 10000
      · rw [if_pos h100, if_pos h100]
        rw [Nat.add_comm f.maxFee x]
        split <;> rfl
      · rw [if_neg h100, if_neg h100]
        simp only []
        rw [show (x * 10000 + (10000 - f.bps) - 1) / (10000 - f.bps) = ceilDivN (x * 10000) (10000 - f.bps) from rfl]
        have hr := raw_ge x (10000 - f.bps) (by omega) (by omega)
        rw [if_neg (by omega)]
        split
        · split <;> rfl
        · split <;> rfl

/-- **included amount**: same value when the program returns one, failure exactly when the program fails -/
theorem sdk_reverse_tf_eq (f : TFee) (x : Nat) (hb : f.bps ≤ 10000) (hx64 : x ≤ U64_MAX) :
    (sdkReverseTF x f.bps f.maxFee).toOption = (includedAmount (some f) x).toOption.map (·.1) := by
  rw [sdk_reverse_is_preFee f x hb]
  by_cases hx : x = 0
  · subst hx
    unfold includedAmount TFee.preFee
    simp only [if_true]
    by_cases h0 : f.bps = 0
    · rw [if_pos h0]; rfl
    · rw [if_neg h0]; rfl
  · have hxp : 0 < x := Nat.pos_of_ne_zero hx
    by_cases h0 : f.bps = 0
    · -- no fee
      have hp : f.preFee x = some x := by unfold TFee.preFee; rw [if_pos h0]
      have hf : f.fee x = 0 := by unfold TFee.fee; simp [h0]
      rw [hp]
      unfold includedAmount TFee.inverseFee
      simp only [hx, if_false, show ¬ f.bps = 10000 by omega, hp, hf, Nat.add_zero]
      rw [if_neg (by omega), if_neg (by simp)]
      rfl
    · by_cases h100 : f.bps = 10000
      · have hp : f.preFee x = (if f.maxFee + x ≤ U64_MAX then some (f.maxFee + x) else none) := by
          unfold TFee.preFee; rw [if_neg h0, if_neg hx, if_pos h100]
        rw [hp]
        unfold includedAmount
        simp only [hx, if_false, h100, if_true]
        by_cases ho : x + f.maxFee > U64_MAX
        · rw [if_pos ho, if_neg (by omega)]; rfl
        · rw [if_neg ho, if_pos (by omega)]
          have hfee : f.fee (x + f.maxFee) = f.maxFee := by
            rw [fee_full f _ h100 (by omega)]; omega
          rw [if_neg (by rw [hfee]; simp)]
          simp [Except.toOption, Nat.add_comm]
      · -- the ordinary case: the program returns the least amount (C16.included_fails_only_on_overflow)
        have hb0 : 0 < f.bps := Nat.pos_of_ne_zero h0
        have hb1 : f.bps < 10000 := by omega
        by_cases hfit : leastPre f x ≤ U64_MAX
        · obtain ⟨fee, hinc⟩ := included_fails_only_on_overflow f x hb0 hb1 hxp hfit
          rw [hinc]
          have hpre : f.preFee x = some (leastPre f x) := by
            unfold TFee.preFee leastPre
            unfold leastPre at hfit
            simp only [h0, hx, h100, if_false] at hfit ⊢
            split
            · rename_i hm
              simp only [hm, if_true] at hfit
              rw [if_pos hfit]
            · rename_i hm
              simp only [hm, if_false] at hfit
              rw [if_pos hfit]
          rw [hpre]; rfl
        · -- it does not fit a u64: both fail
          have hpre : f.preFee x = none := by
            unfold TFee.preFee leastPre at *
            simp only [h0, hx, h100, if_false] at hfit ⊢
            split
            · rename_i hm
              simp only [hm, if_true] at hfit
              rw [if_neg hfit]
            · rename_i hm
              simp only [hm, if_false] at hfit
              rw [if_neg hfit]
          rw [hpre]
          unfold includedAmount TFee.inverseFee
          simp only [hx, h100, if_false, hpre]
          rfl

example : sdkReverseTF 1000000 300 5000 = .ok 1005000 ∧ includedAmount (some { bps := 300, maxFee := 5000 }) 1000000 = .ok (1005000, 5000) ∧
    sdkReverseTF 1000 300 5000 = .ok 1031 ∧ includedAmount (some { bps := 300, maxFee := 5000 }) 1000 = .ok (1031, 31) ∧
    sdkApplyTF 1031 300 5000 = .ok 1000 := by decide +kernel

end WP.SdkTF
