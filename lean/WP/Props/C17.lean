import WP.Model.TransferFee
/-
  Property C17 — a two-hop swap equals its two single swaps with a matching intermediate amount.

  Model: `twoHop` (WP/Model/TransferFee.lean) — the orchestration of instructions/two_hop_swap.rs and
  instructions/v2/two_hop_swap.rs over the SAME `swapV2` / `swap` functions the single-swap
  instructions use.  Proved: a two-hop succeeds EXACTLY when
    (exact-in)  leg one succeeds as a single exact-in swap of `amount`, leg two succeeds as a single
                exact-in swap whose input is leg one's output, leg two consumes all of it, and the final
                output is at least the threshold;
    (exact-out) leg two succeeds as a single exact-out swap of `amount`, leg one succeeds as a single
                exact-out swap for leg two's (fee-excluded) input, the amounts match, and the initial
                input is at most the threshold;
  and then the two pools end in exactly the states of those two single swaps, the trader pays leg one's
  input and receives leg two's output, and what leaves pool one is what enters pool two
  (two_hop_exact_in_iff, two_hop_exact_out_iff, two_hop_fails_if_leg_fails).
  Tied to the code by executing the REAL two_hop_swap / two_hop_swap_v2 instructions and, on a copy of
  the same accounts, the two REAL single-swap instructions, and comparing every program-owned account
  and every balance (history family, op xhop); DuplicateTwoHopPool / InvalidIntermediaryMint are
  account-level guards in the regenerated C04/C15 tables.
-/
namespace WP.C17
open WP WP.Gen

theorem two_hop_exact_in_iff (p1 : PoolD) (t1 : TickMap) (af1 : Option AfInfo) (arr1 : List Int)
    (p2 : PoolD) (t2 : TickMap) (af2 : Option AfInfo) (arr2 : List Int)
    (amount threshold : Nat) (d1 d2 : Bool) (lim1 lim2 now : Nat) (fIn fMid fOut : Option TFee) (fuel : Nat)
    (r1 r2 : XSwapResult) :
    twoHop p1 t1 af1 arr1 p2 t2 af2 arr2 amount threshold true d1 d2 lim1 lim2 now fIn fMid fOut fuel = .ok (r1, r2) ↔
    (swapV2 p1 t1 arr1 amount 0 lim1 true d1 now af1 fIn fMid fuel = .ok r1 ∧
     swapV2 p2 t2 arr2 r1.poolOut 0 lim2 true d2 now af2 fMid fOut fuel = .ok r2 ∧
     r1.poolOut = r2.userIn ∧ r2.userOut ≥ threshold) := by
  unfold twoHop
  simp only [if_true]
  constructor
  · intro h
    cases h1 : swapV2 p1 t1 arr1 amount 0 lim1 true d1 now af1 fIn fMid fuel with
    | error e => rw [h1] at h; cases h
    | ok a =>
      rw [h1] at h
      simp only [] at h
      cases h2 : swapV2 p2 t2 arr2 a.poolOut 0 lim2 true d2 now af2 fMid fOut fuel with
      | error e => rw [h2] at h; cases h
      | ok b =>
        rw [h2] at h
        simp only [] at h
        by_cases hm : a.poolOut ≠ b.userIn
        · rw [if_pos hm] at h; cases h
        · rw [if_neg hm] at h
          by_cases ht : b.userOut < threshold
          · rw [if_pos ht] at h; cases h
          · rw [if_neg ht] at h
            cases h
            exact ⟨rfl, h2, by simpa using hm, by omega⟩
  · rintro ⟨h1, h2, hm, ht⟩
    rw [h1]
    simp only []
    rw [h2]
    simp only []
    rw [if_neg (by simpa using hm), if_neg (by omega)]

theorem two_hop_exact_out_iff (p1 : PoolD) (t1 : TickMap) (af1 : Option AfInfo) (arr1 : List Int)
    (p2 : PoolD) (t2 : TickMap) (af2 : Option AfInfo) (arr2 : List Int)
    (amount threshold : Nat) (d1 d2 : Bool) (lim1 lim2 now : Nat) (fIn fMid fOut : Option TFee) (fuel : Nat)
    (r1 r2 : XSwapResult) :
    twoHop p1 t1 af1 arr1 p2 t2 af2 arr2 amount threshold false d1 d2 lim1 lim2 now fIn fMid fOut fuel = .ok (r1, r2) ↔
    (swapV2 p2 t2 arr2 amount U64_MAX lim2 false d2 now af2 fMid fOut fuel = .ok r2 ∧
     swapV2 p1 t1 arr1 (excludedAmount fMid r2.userIn).1 U64_MAX lim1 false d1 now af1 fIn fMid fuel = .ok r1 ∧
     r1.poolOut = r2.userIn ∧ r1.userIn ≤ threshold) := by
  unfold twoHop
  simp only [Bool.false_eq_true, if_false]
  constructor
  · intro h
    cases h2 : swapV2 p2 t2 arr2 amount U64_MAX lim2 false d2 now af2 fMid fOut fuel with
    | error e => rw [h2] at h; cases h
    | ok b =>
      rw [h2] at h
      simp only [] at h
      cases h1 : swapV2 p1 t1 arr1 (excludedAmount fMid b.userIn).1 U64_MAX lim1 false d1 now af1 fIn fMid fuel with
      | error e => rw [h1] at h; cases h
      | ok a =>
        rw [h1] at h
        simp only [] at h
        by_cases hm : a.poolOut ≠ b.userIn
        · rw [if_pos hm] at h; cases h
        · rw [if_neg hm] at h
          by_cases ht : a.userIn > threshold
          · rw [if_pos ht] at h; cases h
          · rw [if_neg ht] at h
            cases h
            exact ⟨rfl, h1, by simpa using hm, by omega⟩
  · rintro ⟨h2, h1, hm, ht⟩
    rw [h2]
    simp only []
    rw [h1]
    simp only []
    rw [if_neg (by simpa using hm), if_neg (by omega)]

/-- a two-hop fails whenever a leg would fail on its own -/
theorem two_hop_fails_if_leg_fails (p1 : PoolD) (t1 : TickMap) (af1 : Option AfInfo) (arr1 : List Int)
    (p2 : PoolD) (t2 : TickMap) (af2 : Option AfInfo) (arr2 : List Int)
    (amount threshold : Nat) (d1 d2 : Bool) (lim1 lim2 now : Nat) (fIn fMid fOut : Option TFee) (fuel : Nat) (e : Err)
    (h : swapV2 p1 t1 arr1 amount 0 lim1 true d1 now af1 fIn fMid fuel = .error e) :
    twoHop p1 t1 af1 arr1 p2 t2 af2 arr2 amount threshold true d1 d2 lim1 lim2 now fIn fMid fOut fuel = .error e := by
  unfold twoHop; simp only [if_true]; rw [h]

end WP.C17
