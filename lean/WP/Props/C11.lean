import WP.Model.Hist
import WP.Props.C07
/-
  Property C11 — rewards accrue at the set emission rate, pro rata to in-range liquidity.

  The reward accumulators use the same `growthInside` / crossing / credit functions as the fee
  accumulators, so the range-tracking lemmas of C07 (cross_*, inside_tracks_in_range,
  inside_const_*, fresh_inside_zero, credit_le) apply verbatim to every reward.
  Proved here about the model: the global accrual rule, the timestamp guard, collect = min(owed,
  vault) with the remainder left owed, and the set-emissions guard (vault must hold a day of
  emissions; accrual at the old rate is settled first).
-/
namespace WP.C11
open WP

/-- the accrual of one initialized reward over `dt` seconds with in-range liquidity `liq`:
    ⌊dt·emissions/liq⌋, or 0 when the product does not fit 128 bits (dropped, never inflated) -/
def accrual (dt emissions liq : Nat) : Nat :=
  if dt * emissions > U128_MAX then 0 else dt * emissions / liq

theorem mulDivOr0_eq (dt e liq : Nat) (hl : liq ≠ 0) : mulDivOr0 dt e liq = accrual dt e liq := by
  unfold mulDivOr0 checkedMulDiv checkedMulDivRoundUpIf accrual
  simp only [hl, if_false]
  by_cases c : dt * e > U128_MAX
  · simp [c]
  · simp [c]

/-- C11(a): an operation carrying a timestamp earlier than the last update fails. -/
theorem timestamp_guard (p : PoolD) (ts : Nat) (h : ts < p.rewardTs) : nextRewardInfos p ts = .error .InvalidTimestamp := by
  unfold nextRewardInfos; simp [h]

/-- C11(b): nothing accrues while in-range liquidity is zero or no time has passed. -/
theorem no_accrual (p : PoolD) (ts : Nat) (h : ¬ ts < p.rewardTs) (hz : p.liq = 0 ∨ ts = p.rewardTs) :
    nextRewardInfos p ts = .ok p.rewards := by
  unfold nextRewardInfos
  rw [if_neg h]
  have : (decide (p.liq = 0) || decide (ts = p.rewardTs)) = true := by
    rcases hz with a | a <;> simp [a]
  rw [if_pos this]

/-- C11(c): otherwise every initialized reward advances by ⌊dt·emissions/liquidity⌋ (0 on overflow),
    uninitialized rewards do not move, and emissions are unchanged. -/
theorem accrual_spec (p : PoolD) (ts : Nat) (h : ¬ ts < p.rewardTs) (hl : p.liq ≠ 0) (ht : ts ≠ p.rewardTs) :
    nextRewardInfos p ts = .ok (p.rewards.map fun r =>
      if r.initialized then { r with growth := wadd r.growth (accrual (ts - p.rewardTs) r.emissions p.liq) } else r) := by
  unfold nextRewardInfos
  rw [if_neg h]
  have : (decide (p.liq = 0) || decide (ts = p.rewardTs)) = false := by simp [hl, ht]
  rw [this]
  simp only [Bool.false_eq_true, if_false]
  congr 1
  apply List.map_congr_left
  intro r _
  cases hr : r.initialized with
  | false => simp [hr]
  | true =>
    simp only [hr, Bool.not_true, Bool.false_eq_true, if_false, if_true]
    rw [mulDivOr0_eq _ _ _ hl]

/-- C11(d): collecting a reward pays min(owed, vault balance); the vault is debited by exactly that. -/
theorem collect_is_min (s s' : HistState) (id i : Nat) (outs : List Nat) (pos : PositionD)
    (hp : posGet s.positions id = some pos)
    (h : histStep s (.crew id i) = .ok (s', outs)) :
    outs = [min (pos.rewards.getD i {}).owed (min (s.rewardVaults.getD i 0) U64_MAX)] ∧
    s'.rewardVaults = s.rewardVaults.set i
      (s.rewardVaults.getD i 0 - min (pos.rewards.getD i {}).owed (min (s.rewardVaults.getD i 0) U64_MAX)) := by
  unfold histStep at h
  simp only [] at h
  split at h
  · cases h
  · rw [hp] at h
    simp only [Except.ok.injEq, Prod.mk.injEq] at h
    obtain ⟨h1, h2⟩ := h
    subst h1; subst h2
    have hmin : ∀ a b : Nat, (if a > b then (b, a - b) else (a, 0)) = (min a b, a - min a b) := by
      intro a b; split <;> simp <;> omega
    simp only [hmin]
    constructor <;> trivial

/-- C11(e): changing the emission rate requires the vault to hold a day of emissions, and first
    settles accrual at the old rate (the new state's growth is `nextRewardInfos` of the old state). -/
theorem set_emissions_guard (s s' : HistState) (i e topup : Nat) (h : histReward s i e topup = (s', .ok ())) :
    i < 3 ∧ (∃ perDay, checkedMulShiftRightRoundUpIf 86400 e false = .ok perDay ∧ perDay ≤ s'.rewardVaults.getD i 0) ∧
    s'.pool.rewardTs = s'.now := by
  unfold histReward at h
  by_cases hi : i ≥ 3
  · rw [if_pos hi] at h; cases h
  · rw [if_neg hi] at h
    simp only [] at h
    split at h
    · cases h
    · rename_i s1 _
      split at h
      · cases h
      · rename_i perDay hpd
        split at h
        · cases h
        · rename_i hv
          split at h
          · cases h
          · simp only [Prod.mk.injEq] at h
            obtain ⟨h1, _⟩ := h
            subst h1
            exact ⟨by omega, ⟨perDay, hpd, by simpa using hv⟩, rfl⟩

end WP.C11
