import WP.Props.C02.Amounts
import WP.Model.Pool
/-
  Property C08 — liquidity converts to token amounts exactly: up on deposit, down on withdrawal.

  Model: `calculateLiquidityTokenDeltas` (= calculate_liquidity_token_deltas and its Pinocchio twin,
  which the correspondence harness shows identical), `estimateMaxLiquidity`
  (= estimate_max_liquidity_from_token_amounts).  Exact amounts as in C02 (`roundA`, `roundB`).
-/
namespace WP.C08
open WP WP.Gen WP.C02

/-- exact cost in token A / B of liquidity `L` over the price interval [lo, hi], rounded `up` or down -/
def costA (L lo hi : Nat) (up : Bool) : Nat := roundA L lo hi up
def costB (L lo hi : Nat) (up : Bool) : Nat := roundB L lo hi up

/-- C08(a,b,c): adding liquidity costs the exact amounts rounded UP, removing returns them rounded
    DOWN; only token A below the range, only token B above it (case split on the current tick). -/
theorem deltas_spec (curTick : Int) (price : Nat) (lower upper : Int) (delta : Int) (a b : Nat)
    (hl : 0 < sp lower) (hu : 0 < sp upper) (hp : 0 < price)
    (h : calculateLiquidityTokenDeltas curTick price lower upper delta = .ok (a, b)) :
    let L := delta.natAbs
    let up := decide (delta > 0)
    delta ≠ 0 ∧
    (if curTick < lower then
        a = costA L (lo' (sp lower) (sp upper)) (hi' (sp lower) (sp upper)) up ∧ b = 0
     else if curTick < upper then
        a = costA L (lo' price (sp upper)) (hi' price (sp upper)) up ∧
        b = costB L (lo' (sp lower) price) (hi' (sp lower) price) up
     else
        a = 0 ∧ b = costB L (lo' (sp lower) (sp upper)) (hi' (sp lower) (sp upper)) up) := by
  unfold calculateLiquidityTokenDeltas at h
  by_cases hd : delta = 0
  · simp [hd] at h
  · simp only [hd, if_false] at h
    refine ⟨hd, ?_⟩
    by_cases c1 : curTick < lower
    · simp only [c1, if_true] at h ⊢
      split at h
      · simp at h
      · rename_i av hav
        simp only [Except.ok.injEq, Prod.mk.injEq] at h
        obtain ⟨h1, h2⟩ := h
        subst h1; subst h2
        exact ⟨(getDeltaA_spec _ _ _ _ _ hl hu hav).1, rfl⟩
    · simp only [c1, if_false] at h ⊢
      by_cases c2 : curTick < upper
      · simp only [c2, if_true] at h ⊢
        split at h
        · simp at h
        · rename_i av hav
          split at h
          · simp at h
          · rename_i bv hbv
            simp only [Except.ok.injEq, Prod.mk.injEq] at h
            obtain ⟨h1, h2⟩ := h
            subst h1; subst h2
            exact ⟨(getDeltaA_spec _ _ _ _ _ hp hu hav).1, (getDeltaB_spec _ _ _ _ _ hbv).1⟩
      · simp only [c2, if_false] at h ⊢
        split at h
        · simp at h
        · rename_i bv hbv
          simp only [Except.ok.injEq, Prod.mk.injEq] at h
          obtain ⟨h1, h2⟩ := h
          subst h1; subst h2
          exact ⟨rfl, (getDeltaB_spec _ _ _ _ _ hbv).1⟩

theorem roundA_down_le_up (L lo hi : Nat) (h : 0 < hi * lo) :
    roundA L lo hi false ≤ roundA L lo hi true ∧ roundA L lo hi true ≤ roundA L lo hi false + 1 := by
  unfold roundA aNum aDen
  simp only [Bool.false_eq_true, if_false, if_true]
  exact ⟨floor_le_cdiv _ _ h, cdiv_le_floor_succ _ _ h⟩

theorem roundB_down_le_up (L lo hi : Nat) :
    roundB L lo hi false ≤ roundB L lo hi true ∧ roundB L lo hi true ≤ roundB L lo hi false + 1 := by
  unfold roundB bNum
  simp only [Bool.false_eq_true, if_false, if_true]
  exact ⟨floor_le_cdiv _ _ two64_pos, cdiv_le_floor_succ _ _ two64_pos⟩

theorem lo_hi_pos (p q : Nat) (hp : 0 < p) (hq : 0 < q) : 0 < hi' p q * lo' p q := by
  rcases lo_hi_cases p q with ⟨_, a, b⟩ | ⟨_, a, b⟩ <;> rw [a, b] <;> exact Nat.mul_pos (by omega) (by omega)

/-- C08(d): adding then removing the same liquidity at an unchanged price and tick never returns
    more than was paid, and loses at most one unit per token. -/
theorem add_remove_loss (curTick : Int) (price : Nat) (lower upper : Int) (L : Nat) (ai bi ad bd : Nat)
    (hl : 0 < sp lower) (hu : 0 < sp upper) (hp : 0 < price) (hL : 0 < L)
    (hinc : calculateLiquidityTokenDeltas curTick price lower upper (L : Int) = .ok (ai, bi))
    (hdec : calculateLiquidityTokenDeltas curTick price lower upper (-(L : Int)) = .ok (ad, bd)) :
    ad ≤ ai ∧ ai ≤ ad + 1 ∧ bd ≤ bi ∧ bi ≤ bd + 1 := by
  have i := (deltas_spec _ _ _ _ _ _ _ hl hu hp hinc).2
  have d := (deltas_spec _ _ _ _ _ _ _ hl hu hp hdec).2
  have e1 : ((L : Int)).natAbs = L := by simp
  have e2 : (-(L : Int)).natAbs = L := by simp
  have u1 : decide ((L : Int) > 0) = true := by simp; omega
  have u2 : decide (-(L : Int) > 0) = false := by simp
  simp only [e1, e2, u1, u2] at i d
  unfold costA costB at i d
  by_cases c1 : curTick < lower
  · simp only [c1, if_true] at i d
    have := roundA_down_le_up L (lo' (sp lower) (sp upper)) (hi' (sp lower) (sp upper)) (lo_hi_pos _ _ hl hu)
    omega
  · simp only [c1, if_false] at i d
    by_cases c2 : curTick < upper
    · simp only [c2, if_true] at i d
      have := roundA_down_le_up L (lo' price (sp upper)) (hi' price (sp upper)) (lo_hi_pos _ _ hp hu)
      have := roundB_down_le_up L (lo' (sp lower) price) (hi' (sp lower) price)
      omega
    · simp only [c2, if_false] at i d
      have := roundB_down_le_up L (lo' (sp lower) (sp upper)) (hi' (sp lower) (sp upper))
      omega

/-! ### the estimate is the maximum -/

/-- token B: `est = ⌊amount·Q / diff⌋` is the largest liquidity whose (rounded-up) cost fits `amount` -/
theorem estB_is_max (p0 p1 amount L : Nat) (h : estLiquidityForTokenB p0 p1 amount = .ok L) :
    costB L (lo' p0 p1) (hi' p0 p1) true ≤ amount ∧ amount < costB (L + 1) (lo' p0 p1) (hi' p0 p1) true := by
  unfold estLiquidityForTokenB at h
  simp only [] at h
  unfold lo' hi'
  generalize (incOrder p0 p1).1 = lo at *
  generalize (incOrder p0 p1).2 = hi at *
  split at h
  · simp at h
  · rename_i hd
    simp only [Except.ok.injEq] at h
    have hdp : 0 < hi - lo := by omega
    unfold costB roundB bNum
    simp only [if_true]
    have h64 := two64_pos
    constructor
    · rw [cdiv_le_iff h64, ← h]
      exact Nat.div_mul_le_self (amount * TWO64) (hi - lo)
    · rw [lt_cdiv_iff h64, ← h]
      have := Nat.lt_mul_div_succ (amount * TWO64) hdp
      calc amount * TWO64 < (hi - lo) * (amount * TWO64 / (hi - lo) + 1) := this
        _ = (amount * TWO64 / (hi - lo) + 1) * (hi - lo) := Nat.mul_comm _ _

/-- token A: `est = ⌊⌊hi·lo·amount / Q⌋ / diff⌋` is the largest liquidity whose cost fits `amount`
    (for prices and amounts in their machine ranges, where the 256-bit product cannot wrap) -/
theorem estA_is_max (p0 p1 amount L : Nat) (hp0 : 0 < p0) (hp1 : 0 < p1)
    (hnw : hi' p0 p1 * lo' p0 p1 * amount < TWO256)
    (h : estLiquidityForTokenA p0 p1 amount = .ok L) :
    costA L (lo' p0 p1) (hi' p0 p1) true ≤ amount ∧ amount < costA (L + 1) (lo' p0 p1) (hi' p0 p1) true := by
  unfold estLiquidityForTokenA at h
  simp only [] at h
  have hden := lo_hi_pos p0 p1 hp0 hp1
  unfold lo' hi' at hnw hden ⊢
  generalize (incOrder p0 p1).1 = lo at *
  generalize (incOrder p0 p1).2 = hi at *
  split at h
  · simp at h
  · rename_i hd
    rw [Nat.mod_eq_of_lt hnw] at h
    split at h
    · simp only [Except.ok.injEq] at h
      have hdp : 0 < hi - lo := by omega
      have h64 := two64_pos
      set N := hi * lo * amount / TWO64 with hN
      unfold costA roundA aNum aDen
      simp only [if_true]
      have hN1 : N * TWO64 ≤ hi * lo * amount := Nat.div_mul_le_self _ _
      have hN2 : hi * lo * amount < (N + 1) * TWO64 := by
        have := Nat.lt_mul_div_succ (hi * lo * amount) h64
        calc hi * lo * amount < TWO64 * (hi * lo * amount / TWO64 + 1) := this
          _ = (N + 1) * TWO64 := Nat.mul_comm _ _
      have hL1 : L * (hi - lo) ≤ N := by rw [← h]; exact Nat.div_mul_le_self _ _
      have hL2 : N < (L + 1) * (hi - lo) := by
        rw [← h]
        have := Nat.lt_mul_div_succ N hdp
        rw [Nat.mul_comm]; exact this
      constructor
      · rw [cdiv_le_iff hden]
        calc L * (hi - lo) * TWO64 ≤ N * TWO64 := Nat.mul_le_mul_right _ hL1
          _ ≤ hi * lo * amount := hN1
          _ = amount * (hi * lo) := Nat.mul_comm _ _
      · rw [lt_cdiv_iff hden]
        have : (N + 1) * TWO64 ≤ (L + 1) * (hi - lo) * TWO64 := Nat.mul_le_mul_right _ (by omega)
        calc amount * (hi * lo) = hi * lo * amount := Nat.mul_comm _ _
          _ < (N + 1) * TWO64 := hN2
          _ ≤ (L + 1) * (hi - lo) * TWO64 := this
    · simp at h

theorem costA_mono (L L' lo hi : Nat) (h : L ≤ L') : costA L lo hi true ≤ costA L' lo hi true := by
  unfold costA roundA aNum
  simp only [if_true]
  exact cdiv_mono_left (Nat.mul_le_mul_right _ (Nat.mul_le_mul_right _ h))

theorem costB_mono (L L' lo hi : Nat) (h : L ≤ L') : costB L lo hi true ≤ costB L' lo hi true := by
  unfold costB roundB bNum
  simp only [if_true]
  exact cdiv_mono_left (Nat.mul_le_mul_right _ h)

/-- C08(e): with the price strictly inside the range, the estimate `min(est_A, est_B)` is the
    largest liquidity whose deposit cost fits BOTH maxima: it fits, and one more unit breaks one. -/
theorem estimate_is_max_in_range (cur : Nat) (tl tu : Int) (maxA maxB L : Nat)
    (hlo : sp tl < cur) (hhi : cur < sp tu) (hpos : 0 < sp tl)
    (hnw : hi' cur (sp tu) * lo' cur (sp tu) * maxA < TWO256)
    (h : estimateMaxLiquidity cur tl tu maxA maxB = .ok L) :
    (costA L (lo' cur (sp tu)) (hi' cur (sp tu)) true ≤ maxA ∧ costB L (lo' cur (sp tl)) (hi' cur (sp tl)) true ≤ maxB) ∧
    (maxA < costA (L + 1) (lo' cur (sp tu)) (hi' cur (sp tu)) true ∨ maxB < costB (L + 1) (lo' cur (sp tl)) (hi' cur (sp tl)) true) := by
  unfold estimateMaxLiquidity at h
  simp only [] at h
  rw [if_neg (by omega), if_neg (by omega)] at h
  split at h
  · simp at h
  · rename_i la hla
    split at h
    · simp at h
    · rename_i lb hlb
      simp only [Except.ok.injEq] at h
      obtain ⟨a1, a2⟩ := estA_is_max cur (sp tu) maxA la (by omega) (by omega) hnw hla
      obtain ⟨b1, b2⟩ := estB_is_max cur (sp tl) maxB lb hlb
      subst h
      refine ⟨⟨le_trans (costA_mono _ _ _ _ (Nat.min_le_left _ _)) a1, le_trans (costB_mono _ _ _ _ (Nat.min_le_right _ _)) b1⟩, ?_⟩
      by_cases c : la ≤ lb
      · left; rw [Nat.min_eq_left c]; exact a2
      · right; rw [Nat.min_eq_right (by omega)]; exact b2

-- Non-vacuity
example : calculateLiquidityTokenDeltas 0 18446744073709551616 (-64) 64 1000000 = .ok (3195, 3195) := by decide +kernel
example : calculateLiquidityTokenDeltas 0 18446744073709551616 (-64) 64 (-1000000) = .ok (3194, 3194) := by decide +kernel
example : (estimateMaxLiquidity 18446744073709551616 (-64) 64 3195 3195).toOption.isSome = true := by decide +kernel

end WP.C08
