import WP.Props.C02.Direction
/-
  Property C02 — a swap step is priced on the exact curve, rounded only in the pool's favour.

  Property theorems only; helper lemmas are in WP/Props/C02/*.  Model: `computeSwap`
  (WP/Model/SwapMath.lean) = `compute_swap` of programs/whirlpool/src/math/swap_math.rs with
  `try_get_amount_delta_a/b`, `get_next_sqrt_price_from_a_round_up/_b_round_down` of token_math.rs.
  Exact amounts between prices lo ≤ hi for liquidity L (Q = 2^64):
      token A:  L·(hi−lo)·Q / (hi·lo)          token B:  L·(hi−lo) / Q
  `roundTok isA L lo hi up` is that exact amount rounded up (`cdiv`, the exact ceiling) or down.
-/
namespace WP.C02
open WP WP.Gen

/-- hypotheses of the property: both prices within the protocol bounds, target on the trade side
    of the current price, arguments within their machine types, fee rate ≤ the 10% hard limit -/
structure WFStep (rem rate L cur tgt : Nat) (dir : Bool) : Prop where
  cur_lo : MIN_SQRT_PRICE_X64 ≤ cur
  cur_hi : cur ≤ MAX_SQRT_PRICE_X64
  tgt_lo : MIN_SQRT_PRICE_X64 ≤ tgt
  tgt_hi : tgt ≤ MAX_SQRT_PRICE_X64
  dirOk : if dir then tgt ≤ cur else cur ≤ tgt
  remU : rem ≤ U64_MAX
  LU : L ≤ U128_MAX
  rateOk : rate ≤ FEE_RATE_HARD_LIMIT

/-- the exact-in budget net of fee: ⌊rem·(10^6 − rate)/10^6⌋ -/
def netBudget (rem rate : Nat) : Nat := rem * (FEE_RATE_MUL_VALUE - rate) / FEE_RATE_MUL_VALUE

theorem amountCalc_spec (rem rate amt : Nat) (ein : Bool) (hrem : rem ≤ U64_MAX) (hrate : rate ≤ FEE_RATE_HARD_LIMIT)
    (h : amountCalcOf rem rate ein = .ok amt) :
    amt = (if ein then netBudget rem rate else rem) ∧ amt ≤ rem := by
  unfold amountCalcOf at h
  have hr : FEE_RATE_HARD_LIMIT = 100000 := rfl
  have hm : FEE_RATE_MUL_VALUE = 1000000 := rfl
  have hu := u64max_val
  cases ein with
  | false => simp at h; subst h; simp
  | true =>
    simp only [if_true] at h ⊢
    have hc : checkedMulDiv rem (FEE_RATE_MUL_VALUE - rate) FEE_RATE_MUL_VALUE
        = .ok (rem * (FEE_RATE_MUL_VALUE - rate) / FEE_RATE_MUL_VALUE) := by
      unfold checkedMulDiv checkedMulDivRoundUpIf
      rw [hm]
      have h1 : ¬ (1000000 = 0) := by decide
      have h2 : ¬ (rem * (1000000 - rate) > U128_MAX) := by
        have : rem * (1000000 - rate) ≤ U64_MAX * 1000000 := Nat.mul_le_mul hrem (by omega)
        have : U64_MAX * 1000000 ≤ U128_MAX := by decide
        omega
      simp only [h1, h2, if_false, Bool.false_and, Bool.false_eq_true]
    rw [hc] at h
    simp only [] at h
    unfold toU64 at h
    split at h
    · simp at h; subst h
      unfold netBudget
      refine ⟨rfl, ?_⟩
      rw [hm]
      apply Nat.div_le_of_le_mul
      have : rem * (1000000 - rate) ≤ rem * 1000000 := Nat.mul_le_mul_left _ (by omega)
      omega
    · simp at h

/-- everything the later theorems need, extracted once -/
theorem step_core (rem rate L cur tgt : Nat) (ein dir : Bool) (r : SwapStep)
    (wf : WFStep rem rate L cur tgt dir) (h : computeSwap rem rate L cur tgt ein dir = .ok r) :
    ∃ amt, amt = (if ein then netBudget rem rate else rem) ∧ amt ≤ rem ∧
      MoveFacts L cur tgt r.nextPrice amt ein dir ∧
      r.amountIn = roundTok dir L (lo' cur r.nextPrice) (hi' cur r.nextPrice) true ∧
      r.amountOut = (if ein then roundTok (!dir) L (lo' cur r.nextPrice) (hi' cur r.nextPrice) false
                     else min rem (roundTok (!dir) L (lo' cur r.nextPrice) (hi' cur r.nextPrice) false)) ∧
      r.amountIn ≤ U64_MAX ∧
      stepFee rem r.amountIn rate r.nextPrice tgt ein = .ok r.feeAmount ∧
      (ein = true → r.amountIn ≤ amt) := by
  obtain ⟨initial, amt, unfixed, fixed, hinit, hcalc, hnext, hunf, hfix, hin, hout, hfee⟩ :=
    computeSwap_inv rem rate L cur tgt ein dir r h
  obtain ⟨ha1, ha2⟩ := amountCalc_spec rem rate amt ein wf.remU wf.rateOk hcalc
  have hmin : MIN_SQRT_PRICE_X64 = 4295048016 := rfl
  have hmax : MAX_SQRT_PRICE_X64 = 79226673515401279992447579055 := rfl
  have hu128 := u128max_val
  have hu64 := u64max_val
  have wfc := wf.cur_lo; have wfc2 := wf.cur_hi; have wft := wf.tgt_lo; have wfr := wf.remU
  have mf := move_facts L cur tgt r.nextPrice amt ein dir initial (by omega) (by omega) (by omega) wf.LU (by omega)
    wf.dirOk hinit hnext
  have hnpos : 0 < r.nextPrice := by
    have := mf.between
    cases dir <;> simp at this <;> omega
  obtain ⟨hf1, hf2⟩ := fixed_spec initial cur tgt r.nextPrice L ein dir fixed (by omega) hnpos hinit hfix
  obtain ⟨hu1, hu2⟩ := unfixed_spec cur r.nextPrice L ein dir unfixed (by omega) hnpos hunf
  have hinle : ein = true → r.amountIn ≤ amt := by
    intro he
    subst he
    simp only [if_true] at hin
    by_cases hm : r.nextPrice = tgt
    · -- max step: the initial delta was within the budget and is reused or recomputed to the same value
      unfold stepNext at hnext
      by_cases hl : initial.lte amt = true
      · cases initial with
        | valid v =>
          simp [AmountDelta.lte] at hl
          unfold stepFixed at hfix
          simp [hm, AmountDelta.isExceedsMax] at hfix
          omega
        | exceedsMax e => simp [AmountDelta.lte] at hl
      · have hl' : initial.lte amt = false := by simpa using hl
        -- not the max branch, yet landed on the target: use in_le of the move with next = tgt? no: direct
        simp only [hl', Bool.false_eq_true, if_false] at hnext
        -- amount in = exact ceil for the move cur → tgt; bound it through the next-price cores
        have need := need_gt L cur tgt amt true dir initial (by omega) (by omega) (by omega) hinit hl'
        -- landing exactly on the target with a budget smaller than the need is impossible for the
        -- tight move: one unit *before* the target already exceeds … we instead use in_le at next ≠ tgt
        -- fallback: the in_tight/in_le pair needs next ≠ tgt, so derive the bound from the cores
        cases dir with
        | true =>
          unfold getNextSqrtPrice at hnext
          simp only [if_true] at hnext
          have hd := wf.dirOk; simp only [if_true] at hd
          simp only [beq_self_eq_true, roundTok, if_true, roundA, aNum, aDen] at need hf1
          obtain ⟨a, b⟩ := lo_hi_of_ge hd
          rw [hm] at hf1
          rw [a, b] at need hf1
          have hLpos : 0 < L := by
            by_contra hc
            have : L = 0 := by omega
            rw [this] at need
            simp [cdiv] at need
            have : (cur * tgt - 1) / (cur * tgt) = 0 := Nat.div_eq_of_lt (by
              have : 0 < cur * tgt := Nat.mul_pos (by omega) (by omega)
              omega)
            omega
          have h64 := two64_pos
          have hform : r.nextPrice = cdiv (L * cur * TWO64) (L * TWO64 + cur * amt) := by
            by_cases ha : amt = 0
            · subst ha
              unfold getNextSqrtPriceFromARoundUp at hnext
              simp at hnext
              rw [← hnext]
              have : L * cur * TWO64 = cur * (L * TWO64 + cur * 0) := by ring
              rw [this, cdiv_mul_right _ _ (by simp only [Nat.mul_zero, Nat.add_zero]; exact Nat.mul_pos hLpos h64)]
            · exact (nspA_spec cur L amt r.nextPrice true (by omega) (by omega) (by omega) wf.LU (by omega) hnext).2.1
          have hd' : 0 < L * TWO64 + cur * amt := by
            have := Nat.mul_pos hLpos h64; omega
          obtain ⟨c1, c2, c3, c4⟩ := core_A_in L cur tgt amt TWO64 r.nextPrice (by omega) hd hform hd' need
          rw [hm] at c3
          omega
        | false =>
          unfold getNextSqrtPrice at hnext
          have hne : (true = false) = False := by simp
          simp only [hne, if_false] at hnext
          have hd := wf.dirOk; simp only [Bool.false_eq_true, if_false] at hd
          have hb : ((false : Bool) == true) = false := rfl
          simp only [hb, roundTok, Bool.false_eq_true, if_false, if_true, roundB, bNum] at need hf1
          obtain ⟨a, b⟩ := lo_hi_of_le hd
          rw [hm] at hf1
          rw [a, b] at need hf1
          obtain ⟨hLpos, hform⟩ := nspB_spec cur L amt r.nextPrice true hnext
          simp only [if_true] at hform
          obtain ⟨c1, c2, c3, c4⟩ := core_B_in L cur tgt amt TWO64 r.nextPrice hLpos two64_pos hd hform need
          rw [hm] at c3
          omega
    · have := mf.in_le rfl hm
      have e : (dir == true) = dir := by cases dir <;> rfl
      rw [e] at hf1
      omega
  refine ⟨amt, ha1, ha2, mf, ?_, ?_, ?_, hfee, hinle⟩
  · rw [hin]
    cases ein with
    | true =>
      have e : (dir == true) = dir := by cases dir <;> rfl
      simpa [e] using hf1
    | false =>
      have e : (!(dir == false)) = dir := by cases dir <;> rfl
      simpa [e] using hu1
  · rw [hout]
    cases ein with
    | true =>
      have e : (!(dir == true)) = !dir := by cases dir <;> rfl
      simp only [Bool.not_true, Bool.false_and, Bool.false_eq_true, if_false, if_true]
      simpa [e] using hu1
    | false =>
      have e : (dir == false) = !dir := by cases dir <;> rfl
      simp only [Bool.not_false, Bool.true_and, Bool.false_eq_true, if_false, decide_eq_true_eq]
      rw [e] at hf1
      rw [← hf1]
      by_cases c : fixed > rem
      · rw [if_pos c]; omega
      · rw [if_neg c]; omega
  · rw [hin]; cases ein <;> simp <;> omega

/-- C02(a): the step moves the price only in the trade direction and never past its target. -/
theorem step_direction (rem rate L cur tgt : Nat) (ein dir : Bool) (r : SwapStep)
    (wf : WFStep rem rate L cur tgt dir) (h : computeSwap rem rate L cur tgt ein dir = .ok r) :
    if dir then tgt ≤ r.nextPrice ∧ r.nextPrice ≤ cur else cur ≤ r.nextPrice ∧ r.nextPrice ≤ tgt := by
  obtain ⟨amt, _, _, mf, _⟩ := step_core rem rate L cur tgt ein dir r wf h
  exact mf.between

/-- C02(b): the input taken is the exact amount for the move actually made, rounded up
    (token A when a→b, token B when b→a). -/
theorem step_in_exact (rem rate L cur tgt : Nat) (ein dir : Bool) (r : SwapStep)
    (wf : WFStep rem rate L cur tgt dir) (h : computeSwap rem rate L cur tgt ein dir = .ok r) :
    r.amountIn = roundTok dir L (lo' cur r.nextPrice) (hi' cur r.nextPrice) true := by
  obtain ⟨amt, _, _, _, hin, _⟩ := step_core rem rate L cur tgt ein dir r wf h
  exact hin

/-- C02(c): the output paid is the exact amount rounded down, or the smaller requested exact-out amount. -/
theorem step_out_exact (rem rate L cur tgt : Nat) (ein dir : Bool) (r : SwapStep)
    (wf : WFStep rem rate L cur tgt dir) (h : computeSwap rem rate L cur tgt ein dir = .ok r) :
    r.amountOut = (if ein then roundTok (!dir) L (lo' cur r.nextPrice) (hi' cur r.nextPrice) false
                   else min rem (roundTok (!dir) L (lo' cur r.nextPrice) (hi' cur r.nextPrice) false)) := by
  obtain ⟨amt, _, _, _, _, hout, _⟩ := step_core rem rate L cur tgt ein dir r wf h
  exact hout

/-- C02(d): an exact-in step never spends more on the curve than the budget net of fee … -/
theorem step_in_le_budget (rem rate L cur tgt : Nat) (dir : Bool) (r : SwapStep)
    (wf : WFStep rem rate L cur tgt dir) (h : computeSwap rem rate L cur tgt true dir = .ok r) :
    r.amountIn ≤ netBudget rem rate := by
  obtain ⟨amt, ha, _, _, _, _, _, _, hle⟩ := step_core rem rate L cur tgt true dir r wf h
  have := hle rfl
  simp only [if_true] at ha
  omega

/-- C02(e): … and, when it stops short of the target, one representable price unit further would
    cost more than that budget: the price moved as far as the budget allows. -/
theorem step_tight_in (rem rate L cur tgt : Nat) (dir : Bool) (r : SwapStep)
    (wf : WFStep rem rate L cur tgt dir) (h : computeSwap rem rate L cur tgt true dir = .ok r)
    (hne : r.nextPrice ≠ tgt) :
    netBudget rem rate <
      roundTok dir L (lo' cur (if dir then r.nextPrice - 1 else r.nextPrice + 1))
        (hi' cur (if dir then r.nextPrice - 1 else r.nextPrice + 1)) true := by
  obtain ⟨amt, ha, _, mf, _⟩ := step_core rem rate L cur tgt true dir r wf h
  have := mf.in_tight rfl hne
  simp only [if_true] at ha
  rw [ha] at this
  exact this

/-- C02(f): an exact-out step that stops short of the target has moved no further than the request
    requires: one price unit less would deliver less than the requested amount. -/
theorem step_tight_out (rem rate L cur tgt : Nat) (dir : Bool) (r : SwapStep)
    (wf : WFStep rem rate L cur tgt dir) (h : computeSwap rem rate L cur tgt false dir = .ok r)
    (hne : r.nextPrice ≠ tgt) (hmoved : r.nextPrice ≠ cur) :
    roundTok (!dir) L (lo' cur (if dir then r.nextPrice + 1 else r.nextPrice - 1))
        (hi' cur (if dir then r.nextPrice + 1 else r.nextPrice - 1)) false < rem := by
  obtain ⟨amt, ha, _, mf, _⟩ := step_core rem rate L cur tgt false dir r wf h
  have := mf.out_tight rfl hne hmoved
  simp only [Bool.false_eq_true, if_false] at ha
  rw [ha] at this
  exact this

/-- C02(g) / C06 per-step: the fee is the unspendable remainder on a non-max exact-in step, and
    otherwise the curve input times rate/(1−rate) rounded up. -/
theorem step_fee (rem rate L cur tgt : Nat) (ein dir : Bool) (r : SwapStep)
    (wf : WFStep rem rate L cur tgt dir) (h : computeSwap rem rate L cur tgt ein dir = .ok r) :
    r.feeAmount = (if ein = true ∧ r.nextPrice ≠ tgt then rem - r.amountIn
                   else cdiv (r.amountIn * rate) (FEE_RATE_MUL_VALUE - rate)) := by
  obtain ⟨amt, ha, hle, mf, hin, _, hinU, hfee, hinle⟩ := step_core rem rate L cur tgt ein dir r wf h
  have hr : FEE_RATE_HARD_LIMIT = 100000 := rfl
  have hm : FEE_RATE_MUL_VALUE = 1000000 := rfl
  have hrate := wf.rateOk
  have hu := u64max_val
  have hv := two64_val
  have hremU := wf.remU
  unfold stepFee at hfee
  by_cases c : ein = true ∧ r.nextPrice ≠ tgt
  · obtain ⟨c1, c2⟩ := c
    have hb : (ein && !(r.nextPrice == tgt)) = true := by simp [c1, c2]
    rw [hb] at hfee
    simp only [if_true, Except.ok.injEq] at hfee
    rw [if_pos ⟨c1, c2⟩, ← hfee]
    have := hinle c1
    have e : rem + TWO64 - r.amountIn = (rem - r.amountIn) + TWO64 := by omega
    rw [e, Nat.add_mod_right, Nat.mod_eq_of_lt (by omega)]
  · have hb : (ein && !(r.nextPrice == tgt)) = false := by
      cases ein with
      | false => simp
      | true =>
        simp only [true_and, ne_eq, Decidable.not_not] at c
        simp [c]
    rw [hb] at hfee
    simp only [Bool.false_eq_true, if_false] at hfee
    rw [if_neg c]
    have hd : 0 < FEE_RATE_MUL_VALUE - rate := by omega
    have hc : checkedMulDivRoundUp r.amountIn rate (FEE_RATE_MUL_VALUE - rate)
        = .ok (cdiv (r.amountIn * rate) (FEE_RATE_MUL_VALUE - rate)) := by
      unfold checkedMulDivRoundUp checkedMulDivRoundUpIf
      have h1 : ¬ (FEE_RATE_MUL_VALUE - rate = 0) := by omega
      have h2 : ¬ (r.amountIn * rate > U128_MAX) := by
        have : r.amountIn * rate ≤ U64_MAX * 100000 := Nat.mul_le_mul hinU (by omega)
        have : U64_MAX * 100000 ≤ U128_MAX := by decide
        omega
      simp only [h1, h2, if_false, Bool.true_and, decide_eq_true_eq]
      rw [roundUp_eq_cdiv _ _ hd]
    rw [hc] at hfee
    simp only [] at hfee
    unfold toU64 at hfee
    split at hfee
    · simpa using hfee.symm
    · simp at hfee

/-- C02(h): when the step stops short of its target it has consumed the whole exact-in budget
    (curve input plus fee) or delivered the whole exact-out amount. -/
theorem step_exhausts (rem rate L cur tgt : Nat) (ein dir : Bool) (r : SwapStep)
    (wf : WFStep rem rate L cur tgt dir) (h : computeSwap rem rate L cur tgt ein dir = .ok r)
    (hne : r.nextPrice ≠ tgt) :
    if ein then r.amountIn + r.feeAmount = rem else r.amountOut = rem := by
  obtain ⟨amt, ha, hle, mf, hin, hout, _, _, hinle⟩ := step_core rem rate L cur tgt ein dir r wf h
  cases ein with
  | true =>
    simp only [if_true]
    have hf := step_fee rem rate L cur tgt true dir r wf h
    rw [if_pos ⟨rfl, hne⟩] at hf
    have := hinle rfl
    omega
  | false =>
    simp only [Bool.false_eq_true, if_false] at hout ha ⊢
    have := mf.out_ge rfl hne
    rw [hout]
    omega

-- Non-vacuity: a concrete step satisfies the hypotheses; a partial exact-in step and a max step
example : WFStep 1000 3000 1000000 18446744073709551616 18400000000000000000 true := by
  constructor <;> decide
example : computeSwap 1000 3000 1000000 18446744073709551616 18400000000000000000 true true
    = .ok { amountIn := 997, amountOut := 996, nextPrice := 18428370987834680440, feeAmount := 3 } := by decide +kernel
example : (computeSwap 100000 3000 1000000 18446744073709551616 18400000000000000000 true true).toOption.map (·.nextPrice)
    = some 18400000000000000000 := by decide +kernel

end WP.C02
