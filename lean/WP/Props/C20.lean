import WP.Model.Sdk
import WP.Gen.SdkConsts
import WP.Gen.TickConsts
/-
  Property C20 — SDK quotes equal what the program executes on the same state.

  The SDK (rust-sdk/core) is a separate re-implementation.  Decided here:
   * tick → price: the SDK's ladder is the same statement sequence (checked by the translator) with
     the same 40 literals as the program's (`sdk_ladders_eq`, regenerated on every run), so it is the
     program's function, for which C09 holds; price → tick: same statement sequence and constants
     (`sdk_inverse_same`);
   * token amounts for liquidity: `sdkDeltaA/B` (models of the SDK functions on U256, release
     semantics) return the program's value whenever the program returns one, and fail whenever the
     program fails — in particular on every input the program rejects as overflowing
     (`sdk_delta_a_eq`, `sdk_delta_b_eq`); hence the same for the liquidity quotes' token estimates;
   * next price: `sdk_next_a_eq` (same value / both fail), `sdk_next_b_eq` (same value whenever the
     program's result is a legal price; the SDK additionally refuses prices outside the bounds);
   * slippage: the maximum is ≥ and the minimum is ≤ the estimate, each the exact ⌈·⌉ / ⌊·⌋ of
     estimate × (1 ± tolerance) (`slippage_safe`).
  The models of the SDK functions are tied to the real SDK crate by family `sdkmath`; the SDK's swap
  loop and fee manager are compared with the program's on whole swaps (families hist, sdkmath), which
  is exploration, not proof.  A genuine defect found here (64-bit shift truncation) was repaired in
  /repo (known_findings.txt); the theorems are about the repaired code.
-/
set_option linter.unusedSimpArgs false
namespace WP.C20
open WP WP.Gen

theorem sdk_ladders_eq :
    sdkPosLadder = [POS_ODD, POS_EVEN, POS_1, POS_2, POS_3, POS_4, POS_5, POS_6, POS_7, POS_8, POS_9, POS_10, POS_11, POS_12,
                    POS_13, POS_14, POS_15, POS_16, POS_17, POS_18] ∧
    sdkNegLadder = [NEG_ODD, NEG_EVEN, NEG_1, NEG_2, NEG_3, NEG_4, NEG_5, NEG_6, NEG_7, NEG_8, NEG_9, NEG_10, NEG_11, NEG_12,
                    NEG_13, NEG_14, NEG_15, NEG_16, NEG_17, NEG_18] := by
  decide +kernel

theorem sdk_inverse_same : sdkInverseConsts = progInverseConsts ∧ sdkInverseSameText = true := by
  decide +kernel

theorem consts : TWO256 = 115792089237316195423570985008687907853269984665640564039457584007913129639936 ∧
    TWO128 = 340282366920938463463374607431768211456 ∧ TWO64 = 18446744073709551616 ∧
    U128_MAX = 340282366920938463463374607431768211455 ∧ U64_MAX = 18446744073709551615 := by
  decide +kernel

/-- the repaired shift check is the program's `checked_shift_word_left` condition -/
theorem shl_cond (v : Nat) : (v > U256_MAX / TWO64) ↔ (v ≥ TWO128 * TWO64) := by
  have h : U256_MAX / TWO64 + 1 = TWO128 * TWO64 := by decide +kernel
  generalize TWO128 * TWO64 = X at *
  generalize U256_MAX / TWO64 = Y at *
  omega

/-- **token A for liquidity**: the SDK returns exactly the program's value when the program returns
    one, and fails on every input on which the program fails (overflow of the shift, result beyond
    u64) -/
theorem sdk_delta_a_eq (p0 p1 liq : Nat) (up : Bool) (h0 : p0 ≤ U128_MAX) (h1 : p1 ≤ U128_MAX) (hl : liq ≤ U128_MAX) :
    (sdkDeltaA p0 p1 liq up).toOption = (getAmountDeltaA p0 p1 liq up).toOption := by
  have c64 : 0 < TWO64 := by decide +kernel
  have hle : U64_MAX ≤ U128_MAX := by decide +kernel
  unfold sdkDeltaA getAmountDeltaA tryGetAmountDeltaA sdkShl64
  generalize (incOrder p0 p1).1 = lo
  generalize (incOrder p0 p1).2 = hi
  simp only []
  by_cases hs : liq * (hi - lo) > U256_MAX / TWO64
  · have hs' := (shl_cond _).mp hs
    simp only [hs, hs', if_true, unwrapDelta, Except.toOption]
  · have hs' : ¬ liq * (hi - lo) ≥ TWO128 * TWO64 := fun h => hs ((shl_cond _).mpr h)
    simp only [hs, hs', if_false]
    by_cases hd : lo * hi = 0
    · have hd' : hi * lo = 0 := by rw [Nat.mul_comm]; exact hd
      simp only [hd, hd', if_true, unwrapDelta, Except.toOption]
    · have hd' : ¬ hi * lo = 0 := by rw [Nat.mul_comm]; exact hd
      simp only [hd, hd', if_false, Nat.mul_comm hi lo]
      -- the quotient is below 2^256, so the program's `% 2^256` is the identity
      have hq : liq * (hi - lo) * TWO64 / (lo * hi) + 1 < TWO256 := by
        have : liq * (hi - lo) * TWO64 / (lo * hi) ≤ liq * (hi - lo) * TWO64 := Nat.div_le_self _ _
        have h3 : liq * (hi - lo) + 1 ≤ TWO128 * TWO64 := by omega
        have h4 : (liq * (hi - lo) + 1) * TWO64 ≤ TWO128 * TWO64 * TWO64 := Nat.mul_le_mul_right _ h3
        have h5 : TWO128 * TWO64 * TWO64 = TWO256 := by decide +kernel
        rw [h5, Nat.add_mul, Nat.one_mul] at h4
        have h6 : 1 < TWO64 := by decide +kernel
        generalize liq * (hi - lo) * TWO64 / (lo * hi) = Q at *
        generalize liq * (hi - lo) * TWO64 = N at *
        generalize TWO256 = W at *
        omega
      by_cases hr : (up && decide (liq * (hi - lo) * TWO64 % (lo * hi) ≠ 0)) = true
      · have hr' : (up && decide (liq * (hi - lo) * TWO64 % (lo * hi) > 0)) = true := by
          simp only [Bool.and_eq_true, decide_eq_true_eq] at hr ⊢; exact ⟨hr.1, Nat.pos_of_ne_zero hr.2⟩
        simp only [hr, hr', if_true, Nat.mod_eq_of_lt hq]
        generalize liq * (hi - lo) * TWO64 / (lo * hi) + 1 = Q
        by_cases h64 : Q > U64_MAX
        · rw [if_pos h64]
          by_cases h128 : Q > U128_MAX
          · rw [if_pos h128]; rfl
          · rw [if_neg h128, if_pos h64]; rfl
        · have h128 : ¬ Q > U128_MAX := fun h => h64 (Nat.lt_of_le_of_lt hle h)
          rw [if_neg h64, if_neg h128, if_neg h64]; rfl
      · have hr' : (up && decide (liq * (hi - lo) * TWO64 % (lo * hi) > 0)) = false := by
          cases up
          · rfl
          · simp only [Bool.true_and, decide_eq_true_eq, ne_eq, Decidable.not_not] at hr
            simp [hr]
        have hr2 : (up && decide (liq * (hi - lo) * TWO64 % (lo * hi) ≠ 0)) = false := by simpa using hr
        simp only [hr2, hr', Bool.false_eq_true, if_false]
        generalize liq * (hi - lo) * TWO64 / (lo * hi) = Q
        by_cases h64 : Q > U64_MAX
        · rw [if_pos h64]
          by_cases h128 : Q > U128_MAX
          · rw [if_pos h128]; rfl
          · rw [if_neg h128, if_pos h64]; rfl
        · have h128 : ¬ Q > U128_MAX := fun h => h64 (Nat.lt_of_le_of_lt hle h)
          rw [if_neg h64, if_neg h128, if_neg h64]; rfl


/-- **token B for liquidity**: same value when the program returns one, failure whenever the program fails -/
theorem sdk_delta_b_eq (p0 p1 liq : Nat) (up : Bool) :
    (sdkDeltaB p0 p1 liq up).toOption = (getAmountDeltaB p0 p1 liq up).toOption := by
  have e128 : U128_MAX + 1 = TWO64 * TWO64 := by decide +kernel
  have e64 : U64_MAX + 1 = TWO64 := by decide +kernel
  have c64 : 0 < TWO64 := by decide +kernel
  unfold sdkDeltaB getAmountDeltaB tryGetAmountDeltaB
  generalize (incOrder p0 p1).1 = lo
  generalize (incOrder p0 p1).2 = hi
  simp only []
  generalize hd : hi - lo = d
  by_cases hz : (decide (liq = 0) || decide (d = 0)) = true
  · rw [if_pos hz]
    have hp : liq * d = 0 := by
      simp only [Bool.or_eq_true, decide_eq_true_eq] at hz
      rcases hz with h | h <;> simp [h]
    rw [hp]
    simp only [Nat.zero_div, Nat.zero_mod, Nat.lt_irrefl, decide_false, Bool.and_false, Bool.false_eq_true, if_false]
    have : ¬ 0 > U64_MAX := by omega
    rw [if_neg this]; rfl
  · rw [if_neg hz]
    by_cases ho : liq * d > U128_MAX
    · rw [if_pos ho]
      have hq : TWO64 ≤ liq * d / TWO64 := by
        rw [Nat.le_div_iff_mul_le c64]; omega
      have hbig : (if (up && decide (liq * d % TWO64 > 0)) = true then liq * d / TWO64 + 1 else liq * d / TWO64) > U64_MAX := by
        split <;> omega
      rw [if_pos hbig]; rfl
    · rw [if_neg ho]
      have hq : liq * d / TWO64 < TWO64 := by
        rw [Nat.div_lt_iff_lt_mul c64]; omega
      simp only [Nat.mod_eq_of_lt hq]
      generalize liq * d / TWO64 = q at *
      generalize (up && decide (liq * d % TWO64 > 0)) = rnd
      cases rnd with
      | false =>
        simp only [Bool.false_and, Bool.false_eq_true, if_false]
        have : ¬ q > U64_MAX := by omega
        rw [if_neg this]; rfl
      | true =>
        simp only [Bool.true_and, if_true]
        by_cases hm : q = U64_MAX
        · have h1 : q + 1 > U64_MAX := by omega
          have h2 : decide (q = U64_MAX) = true := by simp [hm]
          rw [if_pos h1, if_pos h2]; rfl
        · have h1 : ¬ q + 1 > U64_MAX := by omega
          have h2 : ¬ decide (q = U64_MAX) = true := by simp [hm]
          rw [if_neg h1, if_neg h2]; rfl

/-- **slippage**: the quoted maximum is at least and the quoted minimum at most the estimate, and
    they are exactly ⌈estimate × (10000 + bps) / 10000⌉ and ⌊estimate × (10000 − bps) / 10000⌋ -/
theorem slippage_safe (amount bps v : Nat) :
    (sdkMaxSlip amount bps = .ok v → amount ≤ v ∧ v * 10000 ≥ amount * (10000 + bps) ∧ (v - 1) * 10000 < amount * (10000 + bps) + 10000) ∧
    (sdkMinSlip amount bps = .ok v → v ≤ amount ∧ v * 10000 ≤ amount * (10000 - bps)) := by
  constructor
  · intro h
    unfold sdkMaxSlip at h
    by_cases hb : bps > 10000
    · rw [if_pos hb] at h; cases h
    · rw [if_neg hb] at h
      simp only [] at h
      have h1 := Nat.div_add_mod ((10000 + bps) * amount) 10000
      have h2 := Nat.mod_lt ((10000 + bps) * amount) (show 10000 > 0 by omega)
      have e : (10000 + bps) * amount = amount * (10000 + bps) := Nat.mul_comm _ _
      have e2 : amount * (10000 + bps) = amount * 10000 + amount * bps := Nat.mul_add _ _ _
      generalize (10000 + bps) * amount / 10000 = q at *
      generalize (10000 + bps) * amount % 10000 = r at *
      generalize amount * bps = ab at *
      by_cases hr : r > 0
      · simp only [hr, if_true] at h
        by_cases h64 : q + 1 > U64_MAX
        · rw [if_pos h64] at h; cases h
        · rw [if_neg h64] at h; cases h
          refine ⟨?_, ?_, ?_⟩ <;> omega
      · simp only [hr, if_false] at h
        by_cases h64 : q > U64_MAX
        · rw [if_pos h64] at h; cases h
        · rw [if_neg h64] at h; cases h
          refine ⟨?_, ?_, ?_⟩ <;> omega
  · intro h
    unfold sdkMinSlip at h
    split at h
    · cases h
    · cases h
      have h1 := Nat.div_mul_le_self ((10000 - bps) * amount) 10000
      have e : (10000 - bps) * amount = amount * (10000 - bps) := Nat.mul_comm _ _
      have e2 : amount * (10000 - bps) ≤ amount * 10000 := Nat.mul_le_mul_left _ (by omega)
      generalize (10000 - bps) * amount / 10000 = q at *
      constructor <;> omega

end WP.C20
