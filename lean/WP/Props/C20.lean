import WP.Model.Sdk
import WP.Model.FeeRate
import WP.Gen.SdkConsts
import WP.Gen.TickConsts
/-
  Property C20 — SDK quotes equal what the program executes on the same state.

  The SDK (rust-sdk/core) is a separate re-implementation.  Decided here:
   * tick → price: the SDK's ladder is the same statement sequence (checked by the translator) with
     the same 40 literals as the program's (`sdk_ladders_eq`, regenerated on every run), so it is the
     program's function, for which C09 holds; price → tick: same statement sequence and constants
     (`sdk_inverse_same`);
   * token amounts for liquidity: `sdkDeltaA/B` (models of the SDK functions on U256, release
     semantics) return the program's value whenever the program returns one, and fail whenever the
     program fails — in particular on every input the program rejects as overflowing
     (`sdk_delta_a_eq`, `sdk_delta_b_eq`); hence the same for the liquidity quotes' token estimates;
   * next price: `sdk_next_a_eq` (same value / both fail), `sdk_next_b_eq` (same value whenever the
     program's result is a legal price; the SDK additionally refuses prices outside the bounds);
   * slippage: the maximum is ≥ and the minimum is ≤ the estimate, each the exact ⌈·⌉ / ⌊·⌋ of
     estimate × (1 ± tolerance) (`slippage_safe`).
  The models of the SDK functions are tied to the real SDK crate by family `sdkmath`; the SDK's swap
  loop and fee manager are compared with the program's on whole swaps (families hist, sdkmath), which
  is exploration, not proof.  A genuine defect found here (64-bit shift truncation) was repaired in
  /repo (known_findings.txt); the theorems are about the repaired code.
-/
set_option linter.unusedSimpArgs false
namespace WP.C20
open WP WP.Gen

theorem sdk_ladders_eq :
    sdkPosLadder = [POS_ODD, POS_EVEN, POS_1, POS_2, POS_3, POS_4, POS_5, POS_6, POS_7, POS_8, POS_9, POS_10, POS_11, POS_12,
                    POS_13, POS_14, POS_15, POS_16, POS_17, POS_18] ∧
    sdkNegLadder = [NEG_ODD, NEG_EVEN, NEG_1, NEG_2, NEG_3, NEG_4, NEG_5, NEG_6, NEG_7, NEG_8, NEG_9, NEG_10, NEG_11, NEG_12,
                    NEG_13, NEG_14, NEG_15, NEG_16, NEG_17, NEG_18] := by
  decide +kernel

theorem sdk_inverse_same : sdkInverseConsts = progInverseConsts ∧ sdkInverseSameText = true := by
  decide +kernel

/-- the constants the SDK's swap quote uses are the program's (regenerated from both sources on every run) and the ones
    the models of the fee manager are written with -/
theorem sdk_shared_consts_eq :
    sdkSharedConsts = [("FEE_RATE_DENOMINATOR", (FEE_RATE_MUL_VALUE : Int)), ("MIN_SQRT_PRICE", (MIN_SQRT_PRICE_X64 : Int)),
      ("MAX_SQRT_PRICE", (MAX_SQRT_PRICE_X64 : Int)), ("TICK_ARRAY_SIZE", (TICK_ARRAY_SIZE : Int)), ("MIN_TICK_INDEX", MIN_TICK_INDEX),
      ("MAX_TICK_INDEX", MAX_TICK_INDEX), ("FULL_RANGE_ONLY_TICK_SPACING_THRESHOLD", (FULL_RANGE_ONLY_TICK_SPACING_THRESHOLD : Int)),
      ("FEE_RATE_HARD_LIMIT", (FEE_RATE_HARD_LIMIT : Int)), ("MAX_REFERENCE_AGE", (MAX_REFERENCE_AGE : Int)),
      ("VOLATILITY_ACCUMULATOR_SCALE_FACTOR", (VOLATILITY_ACCUMULATOR_SCALE_FACTOR : Int)),
      ("REDUCTION_FACTOR_DENOMINATOR", (REDUCTION_FACTOR_DENOMINATOR : Int)),
      ("ADAPTIVE_FEE_CONTROL_FACTOR_DENOMINATOR", (ADAPTIVE_FEE_CONTROL_FACTOR_DENOMINATOR : Int))] := by
  decide +kernel

theorem consts : TWO256 = 115792089237316195423570985008687907853269984665640564039457584007913129639936 ∧
    TWO128 = 340282366920938463463374607431768211456 ∧ TWO64 = 18446744073709551616 ∧
    U128_MAX = 340282366920938463463374607431768211455 ∧ U64_MAX = 18446744073709551615 := by
  decide +kernel

/-- the repaired shift check is the program's `checked_shift_word_left` condition -/
theorem shl_cond (v : Nat) : (v > U256_MAX / TWO64) ↔ (v ≥ TWO128 * TWO64) := by
  have h : U256_MAX / TWO64 + 1 = TWO128 * TWO64 := by decide +kernel
  generalize TWO128 * TWO64 = X at *
  generalize U256_MAX / TWO64 = Y at *
  omega

/-- **token A for liquidity**: the SDK returns exactly the program's value when the program returns
    one, and fails on every input on which the program fails (overflow of the shift, result beyond
    u64) -/
theorem sdk_delta_a_eq (p0 p1 liq : Nat) (up : Bool) (h0 : p0 ≤ U128_MAX) (h1 : p1 ≤ U128_MAX) (hl : liq ≤ U128_MAX) :
    (sdkDeltaA p0 p1 liq up).toOption = (getAmountDeltaA p0 p1 liq up).toOption := by
  have c64 : 0 < TWO64 := by decide +kernel
  have hle : U64_MAX ≤ U128_MAX := by decide +kernel
  unfold sdkDeltaA getAmountDeltaA tryGetAmountDeltaA sdkShl64
  generalize (incOrder p0 p1).1 = lo
  generalize (incOrder p0 p1).2 = hi
  simp only []
  by_cases hs : liq * (hi - lo) > U256_MAX / TWO64
  · have hs' := (shl_cond _).mp hs
    simp only [hs, hs', if_true, unwrapDelta, Except.toOption]
  · have hs' : ¬ liq * (hi - lo) ≥ TWO128 * TWO64 := fun h => hs ((shl_cond _).mpr h)
    simp only [hs, hs', if_false]
    by_cases hd : lo * hi = 0
    · have hd' : hi * lo = 0 := by rw [Nat.mul_comm]; exact hd
      simp only [hd, hd', if_true, unwrapDelta, Except.toOption]
    · have hd' : ¬ hi * lo = 0 := by rw [Nat.mul_comm]; exact hd
      simp only [hd, hd', if_false, Nat.mul_comm hi lo]
      -- the quotient is below 2^256, so the program's `% 2^256` is the identity
      have hq : liq * (hi - lo) * TWO64 / (lo * hi) + 1 < TWO256 := by
        have : liq * (hi - lo) * TWO64 / (lo * hi) ≤ liq * (hi - lo) * TWO64 := Nat.div_le_self _ _
        have h3 : liq * (hi - lo) + 1 ≤ TWO128 * TWO64 := by omega
        have h4 : (liq * (hi - lo) + 1) * TWO64 ≤ TWO128 * TWO64 * TWO64 := Nat.mul_le_mul_right _ h3
        have h5 : TWO128 * TWO64 * TWO64 = TWO256 := by decide +kernel
        rw [h5, Nat.add_mul, Nat.one_mul] at h4
        have h6 : 1 < TWO64 := by decide +kernel
        generalize liq * (hi - lo) * TWO64 / (lo * hi) = Q at *
        generalize liq * (hi - lo) * TWO64 = N at *
        generalize TWO256 = W at *
        omega
      by_cases hr : (up && decide (liq * (hi - lo) * TWO64 % (lo * hi) ≠ 0)) = true
      · have hr' : (up && decide (liq * (hi - lo) * TWO64 % (lo * hi) > 0)) = true := by
          simp only [Bool.and_eq_true, decide_eq_true_eq] at hr ⊢; exact ⟨hr.1, Nat.pos_of_ne_zero hr.2⟩
        simp only [hr, hr', if_true, Nat.mod_eq_of_lt hq]
        generalize liq * (hi - lo) * TWO64 / (lo * hi) + 1 = Q
        by_cases h64 : Q > U64_MAX
        · rw [if_pos h64]
          by_cases h128 : Q > U128_MAX
          · rw [if_pos h128]; rfl
          · rw [if_neg h128, if_pos h64]; rfl
        · have h128 : ¬ Q > U128_MAX := fun h => h64 (Nat.lt_of_le_of_lt hle h)
          rw [if_neg h64, if_neg h128, if_neg h64]; rfl
      · have hr' : (up && decide (liq * (hi - lo) * TWO64 % (lo * hi) > 0)) = false := by
          cases up
          · rfl
          · simp only [Bool.true_and, decide_eq_true_eq, ne_eq, Decidable.not_not] at hr
            simp [hr]
        have hr2 : (up && decide (liq * (hi - lo) * TWO64 % (lo * hi) ≠ 0)) = false := by simpa using hr
        simp only [hr2, hr', Bool.false_eq_true, if_false]
        generalize liq * (hi - lo) * TWO64 / (lo * hi) = Q
        by_cases h64 : Q > U64_MAX
        · rw [if_pos h64]
          by_cases h128 : Q > U128_MAX
          · rw [if_pos h128]; rfl
          · rw [if_neg h128, if_pos h64]; rfl
        · have h128 : ¬ Q > U128_MAX := fun h => h64 (Nat.lt_of_le_of_lt hle h)
          rw [if_neg h64, if_neg h128, if_neg h64]; rfl


/-- **token B for liquidity**: same value when the program returns one, failure whenever the program fails -/
theorem sdk_delta_b_eq (p0 p1 liq : Nat) (up : Bool) :
    (sdkDeltaB p0 p1 liq up).toOption = (getAmountDeltaB p0 p1 liq up).toOption := by
  have e128 : U128_MAX + 1 = TWO64 * TWO64 := by decide +kernel
  have e64 : U64_MAX + 1 = TWO64 := by decide +kernel
  have c64 : 0 < TWO64 := by decide +kernel
  unfold sdkDeltaB getAmountDeltaB tryGetAmountDeltaB
  generalize (incOrder p0 p1).1 = lo
  generalize (incOrder p0 p1).2 = hi
  simp only []
  generalize hd : hi - lo = d
  by_cases hz : (decide (liq = 0) || decide (d = 0)) = true
  · rw [if_pos hz]
    have hp : liq * d = 0 := by
      simp only [Bool.or_eq_true, decide_eq_true_eq] at hz
      rcases hz with h | h <;> simp [h]
    rw [hp]
    simp only [Nat.zero_div, Nat.zero_mod, Nat.lt_irrefl, decide_false, Bool.and_false, Bool.false_eq_true, if_false]
    have : ¬ 0 > U64_MAX := by omega
    rw [if_neg this]; rfl
  · rw [if_neg hz]
    by_cases ho : liq * d > U128_MAX
    · rw [if_pos ho]
      have hq : TWO64 ≤ liq * d / TWO64 := by
        rw [Nat.le_div_iff_mul_le c64]; omega
      have hbig : (if (up && decide (liq * d % TWO64 > 0)) = true then liq * d / TWO64 + 1 else liq * d / TWO64) > U64_MAX := by
        split <;> omega
      rw [if_pos hbig]; rfl
    · rw [if_neg ho]
      have hq : liq * d / TWO64 < TWO64 := by
        rw [Nat.div_lt_iff_lt_mul c64]; omega
      simp only [Nat.mod_eq_of_lt hq]
      generalize liq * d / TWO64 = q at *
      generalize (up && decide (liq * d % TWO64 > 0)) = rnd
      cases rnd with
      | false =>
        simp only [Bool.false_and, Bool.false_eq_true, if_false]
        have : ¬ q > U64_MAX := by omega
        rw [if_neg this]; rfl
      | true =>
        simp only [Bool.true_and, if_true]
        by_cases hm : q = U64_MAX
        · have h1 : q + 1 > U64_MAX := by omega
          have h2 : decide (q = U64_MAX) = true := by simp [hm]
          rw [if_pos h1, if_pos h2]; rfl
        · have h1 : ¬ q + 1 > U64_MAX := by omega
          have h2 : ¬ decide (q = U64_MAX) = true := by simp [hm]
          rw [if_neg h1, if_neg h2]; rfl

/-- **slippage**: the quoted maximum is at least and the quoted minimum at most the estimate, and
    they are exactly ⌈estimate × (10000 + bps) / 10000⌉ and ⌊estimate × (10000 − bps) / 10000⌋ -/
theorem slippage_safe (amount bps v : Nat) :
    (sdkMaxSlip amount bps = .ok v → amount ≤ v ∧ v * 10000 ≥ amount * (10000 + bps) ∧ (v - 1) * 10000 < amount * (10000 + bps) + 10000) ∧
    (sdkMinSlip amount bps = .ok v → v ≤ amount ∧ v * 10000 ≤ amount * (10000 - bps)) := by
  constructor
  · intro h
    unfold sdkMaxSlip at h
    by_cases hb : bps > 10000
    · rw [if_pos hb] at h; cases h
    · rw [if_neg hb] at h
      simp only [] at h
      have h1 := Nat.div_add_mod ((10000 + bps) * amount) 10000
      have h2 := Nat.mod_lt ((10000 + bps) * amount) (show 10000 > 0 by omega)
      have e : (10000 + bps) * amount = amount * (10000 + bps) := Nat.mul_comm _ _
      have e2 : amount * (10000 + bps) = amount * 10000 + amount * bps := Nat.mul_add _ _ _
      generalize (10000 + bps) * amount / 10000 = q at *
      generalize (10000 + bps) * amount % 10000 = r at *
      generalize amount * bps = ab at *
      by_cases hr : r > 0
      · simp only [hr, if_true] at h
        by_cases h64 : q + 1 > U64_MAX
        · rw [if_pos h64] at h; cases h
        · rw [if_neg h64] at h; cases h
          refine ⟨?_, ?_, ?_⟩ <;> omega
      · simp only [hr, if_false] at h
        by_cases h64 : q > U64_MAX
        · rw [if_pos h64] at h; cases h
        · rw [if_neg h64] at h; cases h
          refine ⟨?_, ?_, ?_⟩ <;> omega
  · intro h
    unfold sdkMinSlip at h
    split at h
    · cases h
    · cases h
      have h1 := Nat.div_mul_le_self ((10000 - bps) * amount) 10000
      have e : (10000 - bps) * amount = amount * (10000 - bps) := Nat.mul_comm _ _
      have e2 : amount * (10000 - bps) ≤ amount * 10000 := Nat.mul_le_mul_left _ (by omega)
      generalize (10000 - bps) * amount / 10000 = q at *
      constructor <;> omega

/-! ### next-price functions -/

set_option linter.unusedVariables false in
theorem bounds_tail (Q mn mx u : Nat) (_hmn : mn ≤ u) (hmx : mx ≤ u) :
    (if (decide (Q < mn) || decide (Q > mx)) = true then (Except.error Err.Other : R Nat) else .ok Q).toOption =
    (match (if Q ≤ u then (Except.ok Q : R Nat) else .error .NumberDownCastError) with
      | .error e => (Except.error e : R Nat)
      | .ok price =>
        if price < mn then Except.error Err.TokenMinSubceeded
        else if price > mx then Except.error Err.TokenMaxExceeded
        else Except.ok price).toOption := by
  by_cases c3 : Q ≤ u
  · rw [if_pos c3]
    simp only []
    by_cases c1 : Q < mn
    · rw [if_pos (by simp [c1]), if_pos c1]; rfl
    · by_cases c2 : Q > mx
      · rw [if_pos (by simp [c2]), if_neg c1, if_pos c2]; rfl
      · rw [if_neg (by simp [c1, c2]), if_neg c1, if_neg c2]
  · rw [if_neg c3]
    simp only []
    rw [if_pos (by simp; right; omega)]; rfl

/-- **next price from token A** (exact-in and exact-out): the SDK returns exactly the program's value when
    the program returns one, and fails on every input on which the program fails -/
theorem sdk_next_a_eq (p liq amount : Nat) (i : Bool) (hp : p ≤ U128_MAX) (hl : liq ≤ U128_MAX) (ha : amount ≤ U64_MAX) :
    (sdkNextFromA p liq amount i).toOption = (getNextSqrtPriceFromARoundUp p liq amount i).toOption := by
  unfold sdkNextFromA getNextSqrtPriceFromARoundUp sdkShl64
  by_cases h0 : amount = 0
  · simp only [h0, if_true]
  · simp only [h0, if_false]
    by_cases hs : liq * p > U256_MAX / TWO64
    · have hs' := (shl_cond _).mp hs
      simp only [hs, hs', if_true, Except.toOption]
    · have hs' : ¬ liq * p ≥ TWO128 * TWO64 := fun h => hs ((shl_cond _).mpr h)
      simp only [hs, hs', if_false]
      -- sizes
      have hW : TWO128 * TWO64 * TWO64 = TWO256 := by decide +kernel
      have hW2 : TWO128 * TWO64 + TWO128 * TWO64 ≤ TWO256 := by decide +kernel
      have h64 : 1 < TWO64 := by decide +kernel
      have hprod : p * amount < TWO128 * TWO64 := by
        have h1 : p * amount ≤ U128_MAX * U64_MAX := Nat.mul_le_mul hp ha
        have h2 : U128_MAX * U64_MAX < TWO128 * TWO64 := by decide +kernel
        omega
      have hshl : liq * TWO64 < TWO128 * TWO64 := by
        have h1 : liq * TWO64 ≤ U128_MAX * TWO64 := Nat.mul_le_mul_right _ hl
        have h2 : U128_MAX * TWO64 < TWO128 * TWO64 := by decide +kernel
        omega
      have hnum : liq * p * TWO64 + TWO64 ≤ TWO256 := by
        have h3 : liq * p + 1 ≤ TWO128 * TWO64 := by omega
        have h4 : (liq * p + 1) * TWO64 ≤ TWO128 * TWO64 * TWO64 := Nat.mul_le_mul_right _ h3
        rw [hW, Nat.add_mul, Nat.one_mul] at h4
        exact h4
      -- the common tail: ceil(num / den) checked against the bounds
      have tail : ∀ den : Nat, den ≠ 0 →
          (if (decide ((if liq * p * TWO64 % den ≠ 0 then liq * p * TWO64 / den + 1 else liq * p * TWO64 / den) < MIN_SQRT_PRICE_X64) ||
               decide ((if liq * p * TWO64 % den ≠ 0 then liq * p * TWO64 / den + 1 else liq * p * TWO64 / den) > MAX_SQRT_PRICE_X64)) = true
            then (Except.error Err.Other : R Nat)
            else .ok (if liq * p * TWO64 % den ≠ 0 then liq * p * TWO64 / den + 1 else liq * p * TWO64 / den)).toOption =
          (match divRoundUpIfU256 (liq * p * TWO64) den true with
            | .error e => (Except.error e : R Nat)
            | .ok price =>
              if price < MIN_SQRT_PRICE_X64 then Except.error Err.TokenMinSubceeded
              else if price > MAX_SQRT_PRICE_X64 then Except.error Err.TokenMaxExceeded
              else Except.ok price).toOption := by
        intro den hden
        have hdiv : liq * p * TWO64 / den ≤ liq * p * TWO64 := Nat.div_le_self _ _
        have key : divRoundUpIfU256 (liq * p * TWO64) den true =
            (if (if liq * p * TWO64 % den ≠ 0 then liq * p * TWO64 / den + 1 else liq * p * TWO64 / den) ≤ U128_MAX
              then .ok (if liq * p * TWO64 % den ≠ 0 then liq * p * TWO64 / den + 1 else liq * p * TWO64 / den)
              else .error .NumberDownCastError) := by
          unfold divRoundUpIfU256
          rw [if_neg hden]
          simp only [Bool.true_and]
          by_cases hr : liq * p * TWO64 % den ≠ 0
          · have hr' : decide (liq * p * TWO64 % den > 0) = true := decide_eq_true (Nat.pos_of_ne_zero hr)
            rw [if_pos hr, if_pos hr', Nat.mod_eq_of_lt (by omega)]
          · have hr0 : liq * p * TWO64 % den = 0 := by omega
            have hr' : decide (liq * p * TWO64 % den > 0) = false := by rw [hr0]; rfl
            rw [if_neg hr, hr']
            simp only [Bool.false_eq_true, if_false]
        rw [key]
        generalize (if liq * p * TWO64 % den ≠ 0 then liq * p * TWO64 / den + 1 else liq * p * TWO64 / den) = Q
        exact bounds_tail Q MIN_SQRT_PRICE_X64 MAX_SQRT_PRICE_X64 U128_MAX (by decide +kernel) (by decide +kernel)
      cases i with
      | true =>
        simp only [if_true, Bool.not_true, Bool.false_and, Bool.false_eq_true, if_false]
        rw [Nat.mod_eq_of_lt (a := liq * TWO64 + p * amount) (b := TWO256) (by omega)]
        by_cases hd : liq * TWO64 + p * amount = 0
        · rw [if_pos hd]
          have e : divRoundUpIfU256 (liq * p * TWO64) (liq * TWO64 + p * amount) true = .error .Panic := by
            unfold divRoundUpIfU256
            exact if_pos hd
          rw [e]
        · rw [if_neg hd]
          exact tail _ hd
      | false =>
        simp only [Bool.false_eq_true, if_false, Bool.not_false, Bool.true_and]
        by_cases hle : liq * TWO64 ≤ p * amount
        · have hc : decide (liq * TWO64 ≤ p * amount) = true := decide_eq_true hle
          rw [if_pos hc]
          by_cases heq : liq * TWO64 = p * amount
          · have : (liq * TWO64 + TWO256 - p * amount) % TWO256 = 0 := by
              rw [heq, Nat.add_sub_cancel_left, Nat.mod_self]
            rw [if_pos this]; rfl
          · -- the wrapped denominator is at least 2^255: the quotient is at most 1, far below the minimum price
            have hD : (liq * TWO64 + TWO256 - p * amount) % TWO256 = liq * TWO64 + TWO256 - p * amount :=
              Nat.mod_eq_of_lt (by omega)
            rw [hD]
            have hDpos : liq * TWO64 + TWO256 - p * amount ≠ 0 := by omega
            rw [if_neg hDpos]
            have hq : liq * p * TWO64 / (liq * TWO64 + TWO256 - p * amount) ≤ 1 := by
              apply Nat.le_of_lt_succ
              apply (Nat.div_lt_iff_lt_mul (by omega)).mpr
              omega
            have hmin : 2 < MIN_SQRT_PRICE_X64 := by decide +kernel
            generalize liq * p * TWO64 / (liq * TWO64 + TWO256 - p * amount) = q at *
            generalize liq * p * TWO64 % (liq * TWO64 + TWO256 - p * amount) = r at *
            have hlt : (if r ≠ 0 then q + 1 else q) < MIN_SQRT_PRICE_X64 := by split <;> omega
            have hc2 : (decide ((if r ≠ 0 then q + 1 else q) < MIN_SQRT_PRICE_X64) ||
                decide ((if r ≠ 0 then q + 1 else q) > MAX_SQRT_PRICE_X64)) = true := by
              rw [decide_eq_true hlt]; rfl
            rw [if_pos hc2]; rfl
        · have hc : ¬ decide (liq * TWO64 ≤ p * amount) = true := by simp [hle]
          rw [if_neg hc]
          have hD : (liq * TWO64 + TWO256 - p * amount) % TWO256 = liq * TWO64 - p * amount := by
            have : liq * TWO64 + TWO256 - p * amount = (liq * TWO64 - p * amount) + TWO256 := by omega
            rw [this, Nat.add_mod_right, Nat.mod_eq_of_lt (by omega)]
          rw [hD]
          have hDpos : liq * TWO64 - p * amount ≠ 0 := by omega
          rw [if_neg hDpos]
          exact tail _ hDpos


set_option linter.unusedVariables false in
/-- **next price from token B**: whatever the SDK returns is the program's value; and every value the program
    returns inside the protocol price bounds (the only ones a swap step can use) the SDK returns as well -/
theorem sdk_next_b_eq (p liq amount : Nat) (i : Bool) (v : Nat) (hl0 : 0 < liq) (hp : p ≤ U128_MAX) (hl : liq ≤ U128_MAX)
    (ha : amount ≤ U64_MAX) :
    (sdkNextFromB p liq amount i = .ok v → getNextSqrtPriceFromBRoundDown p liq amount i = .ok v) ∧
    (getNextSqrtPriceFromBRoundDown p liq amount i = .ok v → MIN_SQRT_PRICE_X64 ≤ v → v ≤ MAX_SQRT_PRICE_X64 →
      sdkNextFromB p liq amount i = .ok v) := by
  have hmax : MAX_SQRT_PRICE_X64 ≤ U128_MAX := by decide +kernel
  have hW : U128_MAX + U64_MAX * TWO64 + 1 < TWO256 := by decide +kernel
  have hliq : liq ≠ 0 := by omega
  have hsh : amount * TWO64 ≤ U64_MAX * TWO64 := Nat.mul_le_mul_right _ ha
  have hq : amount * TWO64 / liq ≤ amount * TWO64 := Nat.div_le_self _ _
  unfold sdkNextFromB getNextSqrtPriceFromBRoundDown divRoundUpIf
  simp only [hliq, if_false]
  by_cases h0 : amount = 0
  · subst h0
    simp only [if_true, Nat.zero_mul, Nat.zero_div, Nat.zero_mod, Nat.lt_irrefl, decide_false, Bool.and_false, Bool.false_eq_true,
      if_false, Nat.add_zero, Nat.sub_zero, Nat.zero_le]
    cases i with
    | true => simp only [if_true, hp]; exact ⟨fun h => h, fun h _ _ => h⟩
    | false => simp only [Bool.false_eq_true, if_false]; exact ⟨fun h => h, fun h _ _ => h⟩
  · simp only [h0, if_false]
    cases i with
    | true =>
      simp only [Bool.not_true, Bool.false_and, Bool.false_eq_true, if_false, if_true]
      generalize amount * TWO64 / liq = d at *
      constructor
      · intro h
        split at h
        · cases h
        · rename_i hb
          cases h
          simp only [Bool.or_eq_true, decide_eq_true_eq, not_or, Nat.not_lt] at hb
          rw [if_pos (by omega)]
      · intro h h1 h2
        split at h
        · cases h
          rw [if_neg (by simp; omega)]
        · cases h
    | false =>
      simp only [Bool.not_false, Bool.true_and, Bool.false_eq_true, if_false]
      have hdec : (decide (amount * TWO64 % liq > 0)) = (decide (amount * TWO64 % liq ≠ 0)) := by
        by_cases c : amount * TWO64 % liq = 0
        · simp [c]
        · simp [c, Nat.pos_of_ne_zero c]
      rw [hdec]
      have hd : (if decide (amount * TWO64 % liq ≠ 0) = true then amount * TWO64 / liq + 1 else amount * TWO64 / liq) ≤ U64_MAX * TWO64 + 1 := by
        split <;> omega
      generalize (if decide (amount * TWO64 % liq ≠ 0) = true then amount * TWO64 / liq + 1 else amount * TWO64 / liq) = d at *
      by_cases hdp : d ≤ p
      · have e : (p + TWO256 - d) % TWO256 = p - d := by
          have : p + TWO256 - d = (p - d) + TWO256 := by omega
          rw [this, Nat.add_mod_right, Nat.mod_eq_of_lt (by omega)]
        rw [e, if_pos hdp]
        constructor
        · intro h
          split at h
          · cases h
          · cases h; rfl
        · intro h h1 h2
          cases h
          rw [if_neg (by simp; omega)]
      · have e : (p + TWO256 - d) % TWO256 = p + TWO256 - d := Nat.mod_eq_of_lt (by omega)
        rw [e, if_neg hdp]
        constructor
        · intro h
          split at h
          · cases h
          · rename_i hb
            simp only [Bool.or_eq_true, decide_eq_true_eq, not_or, Nat.not_lt] at hb
            omega
        · intro h; cases h


end WP.C20
