import WP.Model.Pool
/-
  Property C07 — a position earns its pro-rata share of fees only while the price is in range.

  All accumulators live in Z/2^128 (`wadd`, `wsub`).  Proved about the model of tick_manager /
  position_manager (the same functions serve fees A, B and the three rewards, so C11 reuses them):
   * crossing a bound (outside := global − outside, tick index moving across it) leaves the growth
     inside a range unchanged, for either bound and either direction  (cross_lower_*, cross_upper_*);
   * while the current tick is inside [lower, upper) the growth inside advances by exactly the
     global growth; while it is outside it does not advance (inside_tracks_*), whatever the stored
     `outside` values are and across wrap-around of the accumulators;
   * a freshly initialised bound starts with a convention that makes the growth inside 0 … so a
     position earns nothing from before its liquidity was added (fresh_inside_zero);
   * the credited amount is ⌊L·Δ/2^64⌋ ≤ L·Δ/2^64, and 0 when L = 0 or on overflow, never more
     (credit_le).
  The composition of these lemmas along a whole swap and along histories (Δ of the growth inside
  equals the sum of the in-range step growths, each a pro-rata share) is proved in
  WP/Props/GrowthPath.lean (`swap_fee_growth`) and WP/Props/ReachGrowth.lean (`history_fee_growth`);
  the link to the amounts credited over several position updates is checked on the implementation
  by the shadow-ledger oracle of the history harness and by the model correspondence.
-/
namespace WP.C07
open WP

theorem two128 : TWO128 = 340282366920938463463374607431768211456 := rfl

theorem wsub_wsub_cancel (g o : Nat) (hg : g < TWO128) (ho : o < TWO128) : wsub g (wsub g o) = o := by
  unfold wsub; rw [two128] at *; omega

theorem wsub_lt (a b : Nat) : wsub a b < TWO128 := by
  unfold wsub; rw [two128]; omega

theorem wadd_lt (a b : Nat) : wadd a b < TWO128 := by
  unfold wadd; rw [two128]; omega

theorem wsub_wadd_comm (g d o : Nat) : wsub (wadd g d) o = wadd (wsub g o) d := by
  unfold wsub wadd; rw [two128]; omega

theorem wsub_wadd_wadd (a b d : Nat) : wsub (wadd a d) (wadd b d) = wsub a b := by
  unfold wsub wadd; rw [two128]; omega

/-- the initialized-bound form of `growthInside` -/
def insideInit (cur loIdx : Int) (loOut : Nat) (upIdx : Int) (upOut glob : Nat) : Nat :=
  let below := if cur < loIdx then wsub glob loOut else loOut
  let above := if cur < upIdx then upOut else wsub glob upOut
  wsub (wsub glob below) above

theorem growthInside_init (cur : Int) (lo up : TickData) (loIdx upIdx : Int) (loOut upOut glob : Nat)
    (hl : lo.initialized = true) (hu : up.initialized = true) :
    growthInside cur lo loIdx loOut up upIdx upOut glob = insideInit cur loIdx loOut upIdx upOut glob := by
  unfold growthInside insideInit; simp [hl, hu]

/-- crossing the LOWER bound leftwards (a→b): index loIdx ↦ loIdx − 1, outside ↦ global − outside -/
theorem cross_lower_left (loIdx upIdx : Int) (loOut upOut glob : Nat) (h : loIdx < upIdx)
    (hg : glob < TWO128) (ho : loOut < TWO128) :
    insideInit (loIdx - 1) loIdx (wsub glob loOut) upIdx upOut glob = insideInit loIdx loIdx loOut upIdx upOut glob := by
  unfold insideInit wsub
  rw [two128] at *
  simp only []
  repeat' split
  all_goals omega

/-- crossing the LOWER bound rightwards (b→a): index loIdx − 1 ↦ loIdx -/
theorem cross_lower_right (loIdx upIdx : Int) (loOut upOut glob : Nat) (h : loIdx < upIdx)
    (hg : glob < TWO128) (ho : loOut < TWO128) :
    insideInit loIdx loIdx (wsub glob loOut) upIdx upOut glob = insideInit (loIdx - 1) loIdx loOut upIdx upOut glob := by
  unfold insideInit wsub
  rw [two128] at *
  simp only []
  repeat' split
  all_goals omega

/-- crossing the UPPER bound leftwards (a→b): index upIdx ↦ upIdx − 1 -/
theorem cross_upper_left (loIdx upIdx : Int) (loOut upOut glob : Nat) (h : loIdx < upIdx)
    (hg : glob < TWO128) (ho : upOut < TWO128) :
    insideInit (upIdx - 1) loIdx loOut upIdx (wsub glob upOut) glob = insideInit upIdx loIdx loOut upIdx upOut glob := by
  unfold insideInit wsub
  rw [two128] at *
  simp only []
  repeat' split
  all_goals omega

/-- crossing the UPPER bound rightwards (b→a): index upIdx − 1 ↦ upIdx -/
theorem cross_upper_right (loIdx upIdx : Int) (loOut upOut glob : Nat) (h : loIdx < upIdx)
    (hg : glob < TWO128) (ho : upOut < TWO128) :
    insideInit upIdx loIdx loOut upIdx (wsub glob upOut) glob = insideInit (upIdx - 1) loIdx loOut upIdx upOut glob := by
  unfold insideInit wsub
  rw [two128] at *
  simp only []
  repeat' split
  all_goals omega

/-- in range: the growth inside advances by exactly the global growth `d` (mod 2^128) -/
theorem inside_tracks_in_range (cur loIdx upIdx : Int) (loOut upOut glob d : Nat)
    (h1 : loIdx ≤ cur) (h2 : cur < upIdx) (hg : glob < TWO128) (hl : loOut < TWO128) (hu : upOut < TWO128) :
    insideInit cur loIdx loOut upIdx upOut (wadd glob d) = wadd (insideInit cur loIdx loOut upIdx upOut glob) d := by
  unfold insideInit
  have c1 : ¬ (cur < loIdx) := by omega
  simp only [c1, h2, if_true, if_false]
  rw [wsub_wadd_comm, wsub_wadd_comm]

/-- below the range: the growth inside does not move -/
theorem inside_const_below (cur loIdx upIdx : Int) (loOut upOut glob d : Nat)
    (h1 : cur < loIdx) (h : loIdx < upIdx) (hg : glob < TWO128) (hl : loOut < TWO128) (hu : upOut < TWO128) :
    insideInit cur loIdx loOut upIdx upOut (wadd glob d) = insideInit cur loIdx loOut upIdx upOut glob := by
  unfold insideInit
  have c2 : cur < upIdx := by omega
  simp only [h1, c2, if_true]
  rw [wsub_wsub_cancel _ _ (wadd_lt glob d) hl, wsub_wsub_cancel _ _ hg hl]

/-- above the range: the growth inside does not move -/
theorem inside_const_above (cur loIdx upIdx : Int) (loOut upOut glob d : Nat)
    (h1 : upIdx ≤ cur) (h : loIdx < upIdx) (hg : glob < TWO128) (hl : loOut < TWO128) (hu : upOut < TWO128) :
    insideInit cur loIdx loOut upIdx upOut (wadd glob d) = insideInit cur loIdx loOut upIdx upOut glob := by
  unfold insideInit
  have c1 : ¬ (cur < loIdx) := by omega
  have c2 : ¬ (cur < upIdx) := by omega
  simp only [c1, c2, if_false]
  rw [wsub_wadd_comm glob d loOut, wsub_wadd_comm glob d upOut, wsub_wadd_wadd]

/-- the new-tick convention: a range whose two bounds are initialised NOW (outside := global when
    current ≥ tick, else 0) has growth inside 0 — nothing from before the liquidity was added -/
theorem fresh_inside_zero (cur loIdx upIdx : Int) (glob : Nat) (hg : glob < TWO128) :
    insideInit cur loIdx (if cur ≥ loIdx then glob else 0) upIdx (if cur ≥ upIdx then glob else 0) glob = 0 ∨
    loIdx ≥ upIdx := by
  by_cases h : loIdx < upIdx
  · left
    unfold insideInit
    by_cases c1 : cur < loIdx
    · simp only [c1, if_true, show ¬ (cur ≥ loIdx) by omega, if_false, show cur < upIdx by omega, show ¬ (cur ≥ upIdx) by omega]
      unfold wsub; rw [two128] at *; omega
    · by_cases c2 : cur < upIdx
      · simp only [c1, if_false, show cur ≥ loIdx by omega, if_true, c2, show ¬ (cur ≥ upIdx) by omega]
        unfold wsub; rw [two128] at *; omega
      · simp only [c1, if_false, show cur ≥ loIdx by omega, if_true, c2, show cur ≥ upIdx by omega]
        unfold wsub; rw [two128] at *; omega
  · right; omega

/-- the uninitialised-bound convention of `growthInside` agrees with the new-tick convention of
    `next_tick_modify_liquidity_update`, so reading before or after initialising gives the same value -/
theorem uninit_matches_fresh (cur : Int) (lo up : TickData) (loIdx upIdx : Int) (glob : Nat)
    (hl : lo.initialized = false) (hu : up.initialized = false) (hg : glob < TWO128) (h : loIdx < upIdx) :
    growthInside cur lo loIdx lo.fgoA up upIdx up.fgoA glob = 0 := by
  unfold growthInside
  simp only [hl, hu, Bool.not_false, if_true]
  unfold wsub; rw [two128] at *; omega

/-- the credited amount never exceeds the exact share L·Δ/2^64, and it is 0 when L = 0 -/
theorem credit_le (L delta : Nat) : mulShiftOr0 L delta * TWO64 ≤ L * delta ∧ (L = 0 → mulShiftOr0 L delta = 0) := by
  have ht : TWO64 = 18446744073709551616 := rfl
  have hu : U128_MAX = 340282366920938463463374607431768211455 := rfl
  unfold mulShiftOr0 checkedMulShiftRightRoundUpIf
  by_cases hL : L = 0
  · subst hL; simp
  · by_cases hd : delta = 0
    · subst hd; simp
    · have h0 : (decide (L = 0) || decide (delta = 0)) = false := by simp [hL, hd]
      simp only [h0, Bool.false_eq_true, if_false]
      by_cases h1 : L * delta > U128_MAX
      · simp only [h1, if_true]
        exact ⟨by omega, fun h => absurd h hL⟩
      · simp only [h1, if_false, Bool.false_and, Bool.false_eq_true]
        have hlt : L * delta / TWO64 < TWO64 := by
          rw [Nat.div_lt_iff_lt_mul (by decide), ht]; omega
        rw [Nat.mod_eq_of_lt hlt]
        exact ⟨Nat.div_mul_le_self _ _, fun h => absurd h hL⟩

-- Non-vacuity: wrap-around example — global wraps past 2^128 and the inside growth still advances by d
example : insideInit 5 0 (TWO128 - 3) 10 7 (wadd (TWO128 - 1) 10) = wadd (insideInit 5 0 (TWO128 - 3) 10 7 (TWO128 - 1)) 10 := by
  decide +kernel

end WP.C07
