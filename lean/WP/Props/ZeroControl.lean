import WP.Props.C14
/-
  C14, last clause at swap level: **a pool whose adaptive-fee control factor is zero charges exactly like a static-fee
  pool.**  Whenever the swap on the adaptive-fee pool succeeds, the swap on the same pool taken as a static-fee pool
  (no Oracle) succeeds with the same amounts, fees, liquidity, tick index, price, fee growth, protocol fee, tick map
  and step trace — for every amount, limit, mode, direction and array sequence; no hypothesis on the pool state.
  (The converse direction can fail only in the adaptive pool's own timestamp / major-swap bookkeeping.)
-/
set_option linter.unusedSimpArgs false
namespace WP.ZeroControl
open WP WP.Gen

/-- the two loop states: equal except that one carries a static manager and the other an adaptive one with control
    factor zero and the same static rate -/
structure Rz (r : Nat) (s sA : SwapSt) : Prop where
  rem : s.remaining = sA.remaining
  cal : s.calculated = sA.calculated
  price : s.price = sA.price
  tick : s.tick = sA.tick
  liq : s.liq = sA.liq
  proto : s.protoFee = sA.protoFee
  idx : s.arrayIdx = sA.arrayIdx
  fg : s.fgIn = sA.fgIn
  fee : s.feeSum = sA.feeSum
  ticks : s.ticks = sA.ticks
  steps : s.steps = sA.steps
  fmS : s.fm = .static r
  fmA : ∃ m, sA.fm = .adaptive m ∧ m.c.controlFactor = 0 ∧ m.staticRate = r

theorem ite_c (b : Prop) [Decidable b] (A B : AdaptiveMgr) (x : AfConstants) (ha : A.c = x) (hb : B.c = x) :
    (if b then A else B).c = x := by split <;> assumption

theorem ite_sr (b : Prop) [Decidable b] (A B : AdaptiveMgr) (x : Nat) (ha : A.staticRate = x) (hb : B.staticRate = x) :
    (if b then A else B).staticRate = x := by split <;> assumption

theorem afterSkip_adaptive (m : AdaptiveMgr) (p np : Nat) (nt : Int) :
    ∃ m', (FeeMgr.adaptive m).advanceAfterSkip p np nt = .ok (.adaptive m') ∧ m'.c = m.c ∧ m'.staticRate = m.staticRate := by
  unfold FeeMgr.advanceAfterSkip
  simp only []
  generalize (if p = np then (nt, decide (nt % (m.c.groupSize : Int) = 0))
              else (ti p, decide (ti p % (m.c.groupSize : Int) = 0) && decide (p = sp (ti p)))) = q
  obtain ⟨tickIndex, onBoundary⟩ := q
  simp only []
  exact ⟨_, rfl, ite_c _ _ _ _ rfl rfl, ite_sr _ _ _ _ rfl rfl⟩

/-- one iteration -/
theorem step_sim (c : SwapCtx) (r : Nat) (hr : r ≤ FEE_RATE_HARD_LIMIT) (s sA sA' : SwapSt) (nai : Nat) (nti : Int) (ntp tgt : Nat)
    (R : Rz r s sA) (h : swapStep c sA nai nti ntp tgt = .ok sA') :
    ∃ s', swapStep c s nai nti ntp tgt = .ok s' ∧ Rz r s' sA' := by
  obtain ⟨m, hm, hc0, hsr⟩ := R.fmA
  have zc := C14.zero_control { m with v := m.v.updateVolAcc m.groupIndex m.c } hc0 (by show m.staticRate ≤ _; rw [hsr]; exact hr)
  have hrateA : sA.fm.updateVolAcc.totalFeeRate = r := by
    rw [hm]; unfold FeeMgr.updateVolAcc; simp only []
    rw [(zc tgt sA.liq).2.1]; exact hsr
  have hbtA : sA.fm.updateVolAcc.boundedTarget tgt sA.liq = (tgt, true) := by
    rw [hm]; unfold FeeMgr.updateVolAcc FeeMgr.boundedTarget; simp only [hc0, if_true]
  have hrateS : s.fm.updateVolAcc.totalFeeRate = r := by rw [R.fmS]; rfl
  have hbtS : s.fm.updateVolAcc.boundedTarget tgt s.liq = (tgt, false) := by rw [R.fmS]; rfl
  have hcross : ∀ sc g, stepCross c s sc g nai nti ntp = stepCross c sA sc g nai nti ntp := by
    intro sc g
    unfold stepCross
    rw [R.ticks, R.liq, R.price, R.idx, R.tick]
  have hmu : sA.fm.updateVolAcc = .adaptive { m with v := m.v.updateVolAcc m.groupIndex m.c } := by
    rw [hm]; rfl
  have hadv : s.fm.updateVolAcc.advance = .static r := by rw [R.fmS]; rfl
  unfold swapStep at h ⊢
  simp only [hrateA, hbtA, hrateS, hbtS] at h ⊢
  rw [R.rem, R.liq, R.price, R.cal, R.fee, R.proto, R.fg]
  simp only [hcross]
  cases hsc : computeSwap sA.remaining r sA.liq sA.price tgt c.isInput c.aToB with
  | error e => rw [hsc] at h; cases h
  | ok sc =>
    rw [hsc] at h
    simp only [] at h ⊢
    cases hra : stepAmounts c.isInput sA.remaining sA.calculated sc with
    | error e => rw [hra] at h; cases h
    | ok ra =>
      rw [hra] at h
      simp only [] at h ⊢
      cases hfee : checkedAdd64 sA.feeSum sc.feeAmount Err.AmountCalcOverflow with
      | error e => rw [hfee] at h; cases h
      | ok feeSum =>
        rw [hfee] at h
        simp only [] at h ⊢
        cases hcr : stepCross c sA sc (calculateFees sc.feeAmount c.protoRate sA.liq sA.protoFee sA.fgIn).2 nai nti ntp with
        | error e => rw [hcr] at h; cases h
        | ok cr =>
          rw [hcr] at h
          simp only [Bool.not_true, Bool.false_eq_true, if_false, Bool.not_false, if_true] at h ⊢
          obtain ⟨m', hm', hc', hs'⟩ := afterSkip_adaptive { m with v := m.v.updateVolAcc m.groupIndex m.c } sc.nextPrice ntp nti
          rw [hmu, hm'] at h
          simp only [] at h
          cases h
          refine ⟨_, rfl, ?_⟩
          exact { rem := rfl, cal := rfl, price := rfl, tick := rfl, liq := rfl, proto := rfl, idx := rfl, fg := rfl, fee := rfl,
                  ticks := rfl, steps := by simp only [R.steps], fmS := hadv,
                  fmA := ⟨m', rfl, by rw [hc']; exact hc0, by rw [hs']; exact hsr⟩ }

/-- the two nested loops -/
theorem loop_sim (c : SwapCtx) (r : Nat) (hr : r ≤ FEE_RATE_HARD_LIMIT) :
    ∀ (fuel : Nat) (s sA sA' : SwapSt) (inner : Option (Nat × Int × Nat × Nat)), Rz r s sA →
      swapLoop c fuel sA inner = .ok sA' → ∃ s', swapLoop c fuel s inner = .ok s' ∧ Rz r s' sA' := by
  intro fuel
  induction fuel with
  | zero => intro s sA sA' inner _ h; unfold swapLoop at h; cases h
  | succ fuel ih =>
    intro s sA sA' inner R h
    cases inner with
    | none =>
      unfold swapLoop at h ⊢
      rw [R.rem, R.price, R.ticks, R.tick, R.idx]
      by_cases hc : (decide (sA.remaining > 0) && decide (c.limit ≠ sA.price)) = true
      · rw [if_pos hc] at h ⊢
        cases hres : seqNextInit sA.ticks c.arrays c.ts c.aToB (c.arrays.length + 1) sA.tick sA.arrayIdx with
        | error e => rw [hres] at h; cases h
        | ok res =>
          rw [hres] at h
          simp only [] at h ⊢
          exact ih s sA sA' _ R h
      · rw [if_neg hc] at h ⊢; cases h; exact ⟨s, rfl, R⟩
    | some w =>
      obtain ⟨nai, nti, ntp, tgt⟩ := w
      unfold swapLoop at h ⊢
      cases hst : swapStep c sA nai nti ntp tgt with
      | error e => rw [hst] at h; cases h
      | ok sA1 =>
        rw [hst] at h
        simp only [] at h
        obtain ⟨s1, hs1, R1⟩ := step_sim c r hr s sA sA1 nai nti ntp tgt R hst
        rw [hs1]
        simp only []
        rw [R1.rem, R1.price]
        by_cases hc : (decide (sA1.remaining = 0) || decide (sA1.price = tgt)) = true
        · rw [if_pos hc] at h ⊢; exact ih s1 sA1 sA' none R1 h
        · rw [if_neg hc] at h ⊢; exact ih s1 sA1 sA' _ R1 h

/-- **C14, zero control factor.**  If the swap on an adaptive-fee pool whose control factor is zero succeeds, the same
    swap on the same pool without the adaptive-fee state succeeds and produces the same result, except that it
    returns no adaptive-fee state. -/
theorem zero_control_swap (p : PoolD) (ticks : TickMap) (arrays : List Int) (amount limit : Nat) (isInput aToB : Bool)
    (now fuel : Nat) (info : AfInfo) (u : PostSwap) (h0 : info.constants.controlFactor = 0)
    (hfee : p.feeRate ≤ FEE_RATE_HARD_LIMIT)
    (h : swap p ticks arrays amount limit isInput aToB now (some info) fuel = .ok u) :
    swap p ticks arrays amount limit isInput aToB now none fuel = .ok { u with afInfo := none } := by
  unfold swap at h ⊢
  cases hg : swapGuard p amount limit aToB with
  | error e => rw [hg] at h; cases h
  | ok _ =>
    rw [hg] at h
    simp only [] at h ⊢
    cases hrw : nextRewardInfos p now with
    | error e => rw [hrw] at h; cases h
    | ok rewards =>
      rw [hrw] at h
      simp only [] at h ⊢
      cases hfm : FeeMgr.new aToB p.tick now p.feeRate (some info) with
      | error e => rw [hfm] at h; cases h
      | ok fmA =>
        rw [hfm] at h
        simp only [] at h
        have hnew : FeeMgr.new aToB p.tick now p.feeRate none = .ok (.static p.feeRate) := rfl
        rw [hnew]
        simp only []
        obtain ⟨m, hmA, hc, hs⟩ : ∃ m, fmA = .adaptive m ∧ m.c.controlFactor = 0 ∧ m.staticRate = p.feeRate := by
          unfold FeeMgr.new at hfm
          simp only [] at hfm
          cases hu : info.variables.updateReference (p.tick / (info.constants.groupSize : Int)) now info.constants with
          | error e => rw [hu] at hfm; cases hfm
          | ok v => rw [hu] at hfm; simp only [] at hfm; cases hfm; exact ⟨_, rfl, h0, rfl⟩
        cases hloop : swapLoop (swapCtxOf p arrays limit isInput aToB rewards) fuel (swapInit p ticks amount aToB fmA) none with
        | error e => rw [hloop] at h; cases h
        | ok sA =>
          rw [hloop] at h
          simp only [] at h
          have R0 : Rz p.feeRate (swapInit p ticks amount aToB (.static p.feeRate)) (swapInit p ticks amount aToB fmA) :=
            { rem := rfl, cal := rfl, price := rfl, tick := rfl, liq := rfl, proto := rfl, idx := rfl, fg := rfl, fee := rfl,
              ticks := rfl, steps := rfl, fmS := rfl, fmA := ⟨m, hmA, hc, hs⟩ }
          obtain ⟨s, hs', R⟩ := loop_sim _ p.feeRate hfee fuel _ _ sA none R0 hloop
          rw [hs']
          simp only []
          unfold swapFinish at h ⊢
          rw [R.rem]
          by_cases hpf : (decide (sA.remaining > 0) && !isInput && decide (limit = NO_EXPLICIT_SQRT_PRICE_LIMIT)) = true
          · rw [if_pos hpf] at h; cases h
          · rw [if_neg hpf] at h ⊢
            cases hfm' : sA.fm.updateMajorSwapTs now p.price sA.price with
            | error e => rw [hfm'] at h; cases h
            | ok fm' =>
              rw [hfm'] at h
              simp only [] at h
              cases h
              rw [R.fmS]
              simp only [FeeMgr.updateMajorSwapTs, FeeMgr.nextInfo]
              rw [R.cal, R.fee, R.proto, R.liq, R.tick, R.price, R.fg, R.ticks, R.steps]

/-- the hypothesis is met: a crossing swap on an adaptive-fee pool with control factor zero succeeds (kernel-evaluated),
    and the static twin gives the same amounts -/
def exInfo0 : AfInfo :=
  AfInfo.mk { filterPeriod := 30, decayPeriod := 600, reductionFactor := 5000, controlFactor := 0,
              maxVolAcc := 350000, groupSize := 64, majorSwapThresholdTicks := 64 } {}

def exPool0 : PoolD := { ts := 64, feeRate := 3000, protoRate := 300, liq := 1000000000, price := 18446744073709551616, tick := 0 }

example : ((swap exPool0 [] [0, -5632] 6450000 0 true true 100 (some exInfo0) 4000000).toOption.map
              (fun u => (u.amountA, u.amountB, u.lpFee, u.protoFee, u.tick)) = some (6450000, 6389560, 18770, 580, -129) ∧
           (swap exPool0 [] [0, -5632] 6450000 0 true true 100 none 4000000).toOption.map
              (fun u => (u.amountA, u.amountB, u.lpFee, u.protoFee, u.tick)) = some (6450000, 6389560, 18770, 580, -129)) = True := by
  decide +kernel

end WP.ZeroControl
