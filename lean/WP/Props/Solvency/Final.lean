import WP.Props.Solvency.Reach
/-
  C01 — the consequences of the solvency invariant, in the words of the property:

    `payable`          each vault holds at least the protocol fees owed plus, for every position, its
                       owed fees, the fee it would be credited if touched now, and the tokens returned
                       by withdrawing all of its liquidity at the current price (all as the integers
                       the program would actually pay)
    `funds_suffice`    none of the four transfers out of a vault (collect protocol fees, collect fees,
                       decrease liquidity, the output leg of a swap) can fail for lack of funds in a
                       reachable state — hence draining in ANY order succeeds, every intermediate
                       state being reachable again
    `no_free_lunch`    over any sequence of swaps (any sizes, directions, modes, limits), the vaults
                       never end with less of one token and no more of the other — so a party that
                       only swaps never ends with more of one token and no less of the other
-/
set_option linter.unusedSimpArgs false
set_option linter.unusedVariables false
namespace WP.Solv
open WP WP.Gen WP.C05 WP.C10 WP.Path WP.Reach WP.Growth

variable {ts0 : Nat}

/-! ### non-negativity -/

theorem range_prices (s : HistState) (g : Geo ts0 s) (kp : Nat × PositionD) (hk : kp ∈ s.positions) :
    0 < sp kp.2.lower ∧ sp kp.2.lower ≤ sp kp.2.upper := by
  obtain ⟨a, _, _, d, e⟩ := g.pos kp hk
  have hb := sp_in_bounds kp.2.lower d (by omega)
  exact ⟨Nat.lt_of_lt_of_le min_price_pos hb.1, C09.sp_le _ _ d (by omega) e⟩

theorem sums_nonneg (tokA : Bool) (s : HistState) (g : Geo ts0 s) :
    0 ≤ sumQ (owedQ tokA) s.positions ∧ 0 ≤ sumQ (pendQ tokA s.ticks s.pool.tick (glob tokA s)) s.positions ∧
    0 ≤ sumQ (val tokA s.pool.price) s.positions :=
  ⟨sumQ_nonneg _ _ (fun kp _ => owedQ_nonneg tokA kp.2),
   sumQ_nonneg _ _ (fun kp _ => pendQ_nonneg tokA _ _ _ kp.2),
   sumQ_nonneg _ _ (fun kp hk => val_nonneg tokA _ kp.2 (range_prices s g kp hk).1 (range_prices s g kp hk).2)⟩

/-! ### the amounts the program would actually pay -/

def sumN (f : PositionD → Nat) : List (Nat × PositionD) → Nat
  | [] => 0
  | (_, p) :: r => f p + sumN f r

theorem sumN_cast (f : PositionD → Nat) : ∀ l : List (Nat × PositionD), ((sumN f l : Nat) : ℚ) = sumQ (fun q => ((f q : Nat) : ℚ)) l := by
  intro l
  induction l with
  | nil => simp [sumN, sumQ]
  | cons hd tl ih =>
    obtain ⟨k, w⟩ := hd
    simp only [sumN, sumQ]
    push_cast
    rw [ih]

/-- the fee credit a position would receive if it were touched now: ⌊L·pend/2^64⌋ (0 on overflow) -/
def creditNow (tokA : Bool) (s : HistState) (q : PositionD) : Nat := mulShiftOr0 q.liq (Reach.pend tokA s q)

/-- the tokens returned by withdrawing ALL liquidity of a position at the current price -/
def withdrawAll (tokA : Bool) (s : HistState) (q : PositionD) : Nat :=
  match calculateLiquidityTokenDeltas s.pool.tick s.pool.price q.lower q.upper (-(q.liq : Int)) with
  | .ok (a, b) => if tokA then a else b
  | .error _ => 0

def owedN (tokA : Bool) (q : PositionD) : Nat := if tokA then q.owedA else q.owedB

theorem withdrawAll_le (tokA : Bool) (s : HistState) (g : Geo ts0 s) (kp : Nat × PositionD) (hk : kp ∈ s.positions) :
    ((withdrawAll tokA s kp.2 : Nat) : ℚ) ≤ val tokA s.pool.price kp.2 := by
  obtain ⟨k, q⟩ := kp
  simp only []
  obtain ⟨p1, _, _, p4, p5⟩ := g.pos (k, q) hk
  simp only [] at p1 p4 p5
  have hv := val_nonneg tokA s.pool.price q (range_prices s g (k, q) hk).1 (range_prices s g (k, q) hk).2
  unfold withdrawAll
  split
  · rename_i a b hd
    have dv := deltas_vs_val s.pool.tick s.pool.price q.lower q.upper _ a b g.tp p1 p4 p5 hd
    have hneg : ¬ (-(q.liq : Int) > 0) := by omega
    rw [if_neg hneg] at dv
    have hna : (((-(q.liq : Int)).natAbs : Nat) : ℚ) = (q.liq : ℚ) := by simp
    rw [hna] at dv
    unfold val
    cases tokA
    · simp only [Bool.false_eq_true, if_false]; exact dv.2
    · simp only [if_true]; exact dv.1
  · simpa using hv

theorem creditNow_le (tokA : Bool) (s : HistState) (q : PositionD) :
    ((creditNow tokA s q : Nat) : ℚ) ≤ pendQ tokA s.ticks s.pool.tick (glob tokA s) q := by
  have hq := two64_pos
  obtain ⟨c1, _⟩ := C07.credit_le q.liq (Reach.pend tokA s q)
  unfold creditNow pendQ
  rw [← pend_eq, le_div_iff₀ hq]
  have := (Nat.cast_le (α := ℚ)).mpr c1
  rw [Nat.cast_mul, Nat.cast_mul] at this
  exact this

/-- **C01, first sentence, in the integers the program pays**: protocol fees owed + Σ (fees owed + fee
    credited if touched now + tokens returned by withdrawing all liquidity now) ≤ vault balance -/
theorem payable (tokA : Bool) (s : HistState) (I : SolvInv ts0 s) :
    pfOf tokA s + sumN (fun q => owedN tokA q + creditNow tokA s q + withdrawAll tokA s q) s.positions ≤ vaultOf tokA s := by
  have sv : Solv tokA s := by cases tokA; exact I.solvB; exact I.solvA
  unfold Solv claims at sv
  have h1 : sumQ (fun q => (((owedN tokA q + creditNow tokA s q + withdrawAll tokA s q : Nat)) : ℚ)) s.positions ≤
      sumQ (fun q => owedQ tokA q + pendQ tokA s.ticks s.pool.tick (glob tokA s) q + val tokA s.pool.price q) s.positions := by
    apply sumQ_le
    intro kp hk
    have a := withdrawAll_le tokA s I.geo kp hk
    have b := creditNow_le tokA s kp.2
    have c : ((owedN tokA kp.2 : Nat) : ℚ) = owedQ tokA kp.2 := by unfold owedN owedQ; split <;> rfl
    push_cast
    linarith
  rw [sumQ_add, sumQ_add] at h1
  have h2 : ((pfOf tokA s + sumN (fun q => owedN tokA q + creditNow tokA s q + withdrawAll tokA s q) s.positions : Nat) : ℚ) ≤
      ((vaultOf tokA s : Nat) : ℚ) := by
    push_cast
    rw [sumN_cast]
    linarith
  exact_mod_cast h2

/-! ### no transfer out of a vault fails for lack of funds -/

theorem member_le_vault (tokA : Bool) (s : HistState) (I : SolvInv ts0 s) (kp : Nat × PositionD) (hk : kp ∈ s.positions) :
    owedQ tokA kp.2 ≤ (vaultOf tokA s : ℚ) ∧ val tokA s.pool.price kp.2 ≤ (vaultOf tokA s : ℚ) ∧ (pfOf tokA s : ℚ) ≤ (vaultOf tokA s : ℚ) := by
  have sv : Solv tokA s := by cases tokA; exact I.solvB; exact I.solvA
  unfold Solv claims at sv
  obtain ⟨n1, n2, n3⟩ := sums_nonneg tokA s I.geo
  have m1 := sumQ_mem_le (owedQ tokA) s.positions kp (fun x _ => owedQ_nonneg tokA x.2) hk
  have m2 := sumQ_mem_le (val tokA s.pool.price) s.positions kp
    (fun x hx => val_nonneg tokA _ x.2 (range_prices s I.geo x hx).1 (range_prices s I.geo x hx).2) hk
  have hpf : (0 : ℚ) ≤ (pfOf tokA s : ℚ) := by positivity
  exact ⟨by linarith, by linarith, by linarith⟩

/-- **C01, second sentence**: in a reachable state each of the four guards "transfer amount ≤ vault
    balance" of the history machine holds — collecting protocol fees, collecting a position's fees,
    removing any amount of a position's liquidity, and paying the output of any swap.  Since every
    state reached while draining is reachable again, draining in any order never lacks funds. -/
theorem funds_suffice (s : HistState) (I : SolvInv ts0 s) :
    -- collect protocol fees
    (s.pool.pfA ≤ s.vaultA ∧ s.pool.pfB ≤ s.vaultB) ∧
    -- collect fees of any position
    (∀ id pos, posGet s.positions id = some pos → pos.owedA ≤ s.vaultA ∧ pos.owedB ≤ s.vaultB) ∧
    -- decrease liquidity of any position by any amount the manager accepts
    (∀ id pos (amount : Nat) u da db, posGet s.positions id = some pos →
        calculateModifyLiquidity s.pool pos (s.ticks.get pos.lower) (s.ticks.get pos.upper) (-(amount : Int)) s.now = .ok u →
        calculateLiquidityTokenDeltas s.pool.tick s.pool.price pos.lower pos.upper (-(amount : Int)) = .ok (da, db) →
        da ≤ s.vaultA ∧ db ≤ s.vaultB) ∧
    -- the output of any swap over a loader-built array sequence
    (∀ amount limit isInput aToB arrays u, SeqOK arrays s.pool.ts aToB → amount ≤ U64_MAX →
        swap s.pool s.ticks arrays amount limit isInput aToB s.now s.af SWAP_FUEL = .ok u →
        (if aToB then u.amountB ≤ s.vaultB else u.amountA ≤ s.vaultA)) := by
  have hq := two64_pos
  refine ⟨?_, ?_, ?_, ?_⟩
  · -- protocol fees
    have sa := I.solvA
    have sb := I.solvB
    unfold Solv claims at sa sb
    obtain ⟨a1, a2, a3⟩ := sums_nonneg true s I.geo
    obtain ⟨b1, b2, b3⟩ := sums_nonneg false s I.geo
    unfold pfOf vaultOf at sa sb
    simp only [if_true, Bool.false_eq_true, if_false] at sa sb
    constructor
    · have : (s.pool.pfA : ℚ) ≤ (s.vaultA : ℚ) := by linarith
      exact_mod_cast this
    · have : (s.pool.pfB : ℚ) ≤ (s.vaultB : ℚ) := by linarith
      exact_mod_cast this
  · intro id pos hp
    have hk := posGet_mem id pos s.positions hp
    obtain ⟨a, _, _⟩ := member_le_vault true s I (id, pos) hk
    obtain ⟨b, _, _⟩ := member_le_vault false s I (id, pos) hk
    unfold owedQ vaultOf at a b
    simp only [if_true, Bool.false_eq_true, if_false] at a b
    exact ⟨by exact_mod_cast a, by exact_mod_cast b⟩
  · intro id pos amount u da db hp hu hd
    have hk := posGet_mem id pos s.positions hp
    obtain ⟨p1, _, _, p4, p5⟩ := I.geo.pos (id, pos) hk
    simp only [] at p1 p4 p5
    obtain ⟨_, _, _, hliq, _⟩ := calcModify_parts _ _ _ _ _ _ _ hu
    have hle : (amount : Int) ≤ pos.liq := by
      have := addLiq_eq _ _ _ hliq
      omega
    have hle' : (amount : ℚ) ≤ (pos.liq : ℚ) := by exact_mod_cast hle
    have dv := deltas_vs_val s.pool.tick s.pool.price pos.lower pos.upper _ da db I.geo.tp p1 p4 p5 hd
    have hneg : ¬ (-(amount : Int) > 0) := by omega
    rw [if_neg hneg] at dv
    have hna : (((-(amount : Int)).natAbs : Nat) : ℚ) = (amount : ℚ) := by simp
    rw [hna] at dv
    obtain ⟨_, va, _⟩ := member_le_vault true s I (id, pos) hk
    obtain ⟨_, vb, _⟩ := member_le_vault false s I (id, pos) hk
    have rp := range_prices s I.geo (id, pos) hk
    have ua := unitVal_nonneg true s.pool.price _ _ rp.1 rp.2
    have ub := unitVal_nonneg false s.pool.price _ _ rp.1 rp.2
    unfold val vaultOf at va vb
    simp only [if_true, Bool.false_eq_true, if_false] at va vb
    have ma := mul_le_mul_of_nonneg_right hle' ua
    have mb := mul_le_mul_of_nonneg_right hle' ub
    constructor
    · have : (da : ℚ) ≤ (s.vaultA : ℚ) := by linarith [dv.1]
      exact_mod_cast this
    · have : (db : ℚ) ≤ (s.vaultB : ℚ) := by linarith [dv.2]
      exact_mod_cast this
  · intro amount limit isInput aToB arrays u hseq hamt hsw
    obtain ⟨_, co, _, _⟩ := swap_core s amount limit isInput aToB arrays u I.inv I.geo I.wf I.proto hseq hamt hsw
    have sv : Solv (!aToB) s := by cases aToB; exact I.solvA; exact I.solvB
    unfold Solv at sv
    have n1 : 0 ≤ sumQ (owedQ (!aToB)) s.positions := sumQ_nonneg _ _ (fun kp _ => owedQ_nonneg _ kp.2)
    have n2 : 0 ≤ sumQ (pendQ (!aToB) u.ticks u.tick (glob (!aToB) s)) s.positions := sumQ_nonneg _ _ (fun kp _ => pendQ_nonneg _ _ _ _ kp.2)
    have n3 : 0 ≤ sumQ (val (!aToB) u.price) s.positions :=
      sumQ_nonneg _ _ (fun kp hk => val_nonneg _ _ kp.2 (range_prices s I.geo kp hk).1 (range_prices s I.geo kp hk).2)
    have hpf : (0 : ℚ) ≤ (pfOf (!aToB) s : ℚ) := by positivity
    cases aToB
    · simp only [Bool.false_eq_true, if_false, Bool.not_false] at co sv n1 n2 n3 hpf ⊢
      unfold vaultOf at sv; simp only [if_true] at sv
      have : (u.amountA : ℚ) ≤ (s.vaultA : ℚ) := by linarith
      exact_mod_cast this
    · simp only [if_true, Bool.not_true] at co sv n1 n2 n3 hpf ⊢
      unfold vaultOf at sv; simp only [Bool.false_eq_true, if_false] at sv
      have : (u.amountB : ℚ) ≤ (s.vaultB : ℚ) := by linarith
      exact_mod_cast this

/-! ### no free lunch -/

theorem clamp_mono (p p' lo hi : Nat) (h : p ≤ p') : clampP p lo hi ≤ clampP p' lo hi := by unfold clampP; omega

/-- the two tokens' unit values move in opposite directions, and one stands still iff the other does -/
theorem unitVal_pair (p p' pl pu : Nat) (h0 : 0 < pl) (hlu : pl ≤ pu) (h : p ≤ p') :
    unitVal false p pl pu ≤ unitVal false p' pl pu ∧ unitVal true p' pl pu ≤ unitVal true p pl pu ∧
    (unitVal false p' pl pu = unitVal false p pl pu ↔ unitVal true p' pl pu = unitVal true p pl pu) := by
  have hq := two64_pos
  have hc := clamp_mono p p' pl pu h
  obtain ⟨c1, c2⟩ := clamp_bounds p pl pu hlu
  obtain ⟨d1, d2⟩ := clamp_bounds p' pl pu hlu
  have hcq : ((clampP p pl pu : Nat) : ℚ) ≤ ((clampP p' pl pu : Nat) : ℚ) := by exact_mod_cast hc
  have hc0 : (0 : ℚ) < ((clampP p pl pu : Nat) : ℚ) := by exact_mod_cast (show 0 < clampP p pl pu by omega)
  have hc0' : (0 : ℚ) < ((clampP p' pl pu : Nat) : ℚ) := by exact_mod_cast (show 0 < clampP p' pl pu by omega)
  unfold unitVal
  simp only [Bool.false_eq_true, if_false, if_true]
  refine ⟨?_, ?_, ?_⟩
  · rw [div_le_div_iff_of_pos_right hq]; linarith
  · have := div_le_div_of_nonneg_left (le_of_lt hq) hc0 hcq
    linarith
  · constructor
    · intro e
      have e' : ((clampP p' pl pu : Nat) : ℚ) = ((clampP p pl pu : Nat) : ℚ) := by
        have := (div_left_inj' (ne_of_gt hq)).mp e
        linarith
      rw [e']
    · intro e
      have e1 : (TWO64 : ℚ) / ((clampP p' pl pu : Nat) : ℚ) = (TWO64 : ℚ) / ((clampP p pl pu : Nat) : ℚ) := by linarith
      have e' : ((clampP p' pl pu : Nat) : ℚ) = ((clampP p pl pu : Nat) : ℚ) := by
        rw [div_eq_div_iff (ne_of_gt hc0') (ne_of_gt hc0)] at e1
        have := mul_left_cancel₀ (ne_of_gt hq) e1
        exact this.symm
      rw [e']

theorem sumQ_eq_zero (f : PositionD → ℚ) : ∀ l : List (Nat × PositionD), (∀ kp ∈ l, 0 ≤ f kp.2) → sumQ f l = 0 →
    ∀ kp ∈ l, f kp.2 = 0 := by
  intro l
  induction l with
  | nil => intro _ _ kp hk; cases hk
  | cons hd tl ih =>
    obtain ⟨k, w⟩ := hd
    intro hnn hz kp hk
    simp only [sumQ] at hz
    have h0 := hnn (k, w) List.mem_cons_self
    simp only [] at h0
    have hn := sumQ_nonneg f tl (fun x hx => hnn x (List.mem_cons_of_mem _ hx))
    rcases List.mem_cons.mp hk with e | e
    · rw [e]; simp only []; linarith
    · exact ih (fun x hx => hnn x (List.mem_cons_of_mem _ hx)) (by linarith) kp e

/-- for p ≤ p': total B value grows, total A value shrinks, and one is unchanged iff the other is -/
theorem total_val_pair (ps : List (Nat × PositionD)) (p p' : Nat) (h : p ≤ p')
    (hr : ∀ kp ∈ ps, 0 < sp kp.2.lower ∧ sp kp.2.lower ≤ sp kp.2.upper) :
    sumQ (val false p) ps ≤ sumQ (val false p') ps ∧ sumQ (val true p') ps ≤ sumQ (val true p) ps ∧
    (sumQ (val false p') ps = sumQ (val false p) ps ↔ sumQ (val true p') ps = sumQ (val true p) ps) := by
  have hB : ∀ kp ∈ ps, 0 ≤ val false p' kp.2 - val false p kp.2 := by
    intro kp hk
    obtain ⟨a, _, _⟩ := unitVal_pair p p' _ _ (hr kp hk).1 (hr kp hk).2 h
    unfold val
    have hL : (0 : ℚ) ≤ (kp.2.liq : ℚ) := by positivity
    have := mul_le_mul_of_nonneg_left a hL
    linarith
  have hA : ∀ kp ∈ ps, 0 ≤ val true p kp.2 - val true p' kp.2 := by
    intro kp hk
    obtain ⟨_, a, _⟩ := unitVal_pair p p' _ _ (hr kp hk).1 (hr kp hk).2 h
    unfold val
    have hL : (0 : ℚ) ≤ (kp.2.liq : ℚ) := by positivity
    have := mul_le_mul_of_nonneg_left a hL
    linarith
  have sB := sumQ_sub (val false p') (val false p) ps
  have sA := sumQ_sub (val true p) (val true p') ps
  have nB := sumQ_nonneg (fun q => val false p' q - val false p q) ps hB
  have nA := sumQ_nonneg (fun q => val true p q - val true p' q) ps hA
  refine ⟨by linarith, by linarith, ?_⟩
  -- per position: the B difference vanishes iff the A difference does
  have hiff : ∀ kp ∈ ps, (val false p' kp.2 - val false p kp.2 = 0 ↔ val true p kp.2 - val true p' kp.2 = 0) := by
    intro kp hk
    obtain ⟨_, _, e⟩ := unitVal_pair p p' _ _ (hr kp hk).1 (hr kp hk).2 h
    unfold val
    by_cases hl : kp.2.liq = 0
    · rw [hl]; simp
    · have hL : ((kp.2.liq : Nat) : ℚ) ≠ 0 := by exact_mod_cast hl
      constructor
      · intro h1
        have : unitVal false p' (sp kp.2.lower) (sp kp.2.upper) = unitVal false p (sp kp.2.lower) (sp kp.2.upper) := by
          have h2 : ((kp.2.liq : Nat) : ℚ) * (unitVal false p' (sp kp.2.lower) (sp kp.2.upper) - unitVal false p (sp kp.2.lower) (sp kp.2.upper)) = 0 := by
            rw [mul_sub]; exact h1
          rcases mul_eq_zero.mp h2 with h3 | h3
          · exact absurd h3 hL
          · linarith
        rw [e.mp this]; ring
      · intro h1
        have : unitVal true p' (sp kp.2.lower) (sp kp.2.upper) = unitVal true p (sp kp.2.lower) (sp kp.2.upper) := by
          have h2 : ((kp.2.liq : Nat) : ℚ) * (unitVal true p (sp kp.2.lower) (sp kp.2.upper) - unitVal true p' (sp kp.2.lower) (sp kp.2.upper)) = 0 := by
            rw [mul_sub]; exact h1
          rcases mul_eq_zero.mp h2 with h3 | h3
          · exact absurd h3 hL
          · linarith
        rw [e.mpr this]; ring
  constructor
  · intro e
    have z : sumQ (fun q => val false p' q - val false p q) ps = 0 := by rw [sB]; linarith
    have each := sumQ_eq_zero _ ps hB z
    have z2 : sumQ (fun q => val true p q - val true p' q) ps = 0 := by
      rw [sumQ_congr _ (fun _ => 0) ps (fun kp hk => (hiff kp hk).mp (each kp hk))]
      clear * -
      induction ps with
      | nil => rfl
      | cons hd tl ih => obtain ⟨k, w⟩ := hd; simp only [sumQ]; rw [ih]; ring
    rw [sA] at z2; linarith
  · intro e
    have z : sumQ (fun q => val true p q - val true p' q) ps = 0 := by rw [sA]; linarith
    have each := sumQ_eq_zero _ ps hA z
    have z2 : sumQ (fun q => val false p' q - val false p q) ps = 0 := by
      rw [sumQ_congr _ (fun _ => 0) ps (fun kp hk => (hiff kp hk).mpr (each kp hk))]
      clear * -
      induction ps with
      | nil => rfl
      | cons hd tl ih => obtain ⟨k, w⟩ := hd; simp only [sumQ]; rw [ih]; ring
    rw [sB] at z2; linarith

def IsSwap : HistOp → Prop
  | .swap _ _ _ _ _ => True
  | _ => False

/-- over swaps only, the value-only slack of both vaults never decreases and the positions stay -/
theorem swaps_slack (ops : List HistOp) : ∀ (s : HistState), SolvInv ts0 s → (∀ op ∈ ops, OpOK ts0 op ∧ IsSwap op) →
    slack true s ≤ slack true (ops.foldl histApply s) ∧ slack false s ≤ slack false (ops.foldl histApply s) ∧
    (ops.foldl histApply s).positions = s.positions := by
  induction ops with
  | nil => intro s _ _; exact ⟨le_refl _, le_refl _, rfl⟩
  | cons op rest ih =>
    intro s I hops
    obtain ⟨hop, hsw⟩ := hops op List.mem_cons_self
    have I1 := apply_keeps_solv s op I hop
    obtain ⟨a, b, c⟩ := ih _ I1 (fun o ho => hops o (List.mem_cons_of_mem _ ho))
    have one : slack true s ≤ slack true (histApply s op) ∧ slack false s ≤ slack false (histApply s op) ∧
        (histApply s op).positions = s.positions := by
      cases op with
      | swap amount limit isInput aToB arrays =>
        have hnr : ∀ i e t, HistOp.swap amount limit isInput aToB arrays ≠ .reward i e t := by intro _ _ _ hh; cases hh
        cases h : histStep s (.swap amount limit isInput aToB arrays) with
        | error er => rw [apply_err s _ er hnr h]; exact ⟨le_refl _, le_refl _, rfl⟩
        | ok r =>
          obtain ⟨s', outs⟩ := r
          rw [apply_ok s s' _ outs hnr h]
          have hop' := hop
          unfold OpOK at hop'
          rw [← I.geo.spacing] at hop'
          exact swap_slack_mono s s' amount limit isInput aToB arrays outs I.inv I.geo I.wf I.proto hop'.1 hop'.2 h
      | openPos _ _ _ => exact absurd hsw (by unfold IsSwap; exact fun h => h)
      | modify _ _ _ => exact absurd hsw (by unfold IsSwap; exact fun h => h)
      | upd _ => exact absurd hsw (by unfold IsSwap; exact fun h => h)
      | cfees _ => exact absurd hsw (by unfold IsSwap; exact fun h => h)
      | cproto => exact absurd hsw (by unfold IsSwap; exact fun h => h)
      | clock _ => exact absurd hsw (by unfold IsSwap; exact fun h => h)
      | reward _ _ _ => exact absurd hsw (by unfold IsSwap; exact fun h => h)
      | crew _ _ => exact absurd hsw (by unfold IsSwap; exact fun h => h)
    exact ⟨le_trans one.1 a, le_trans one.2.1 b, by show (rest.foldl histApply (histApply s op)).positions = _; rw [c, one.2.2]⟩

/-- **C01, third sentence**: after ANY sequence of swaps from a reachable state the vaults do not hold
    less of one token and no more of the other.  All tokens leaving or entering the vaults in swaps go
    to or come from the swapping party, so that party never ends with more of one token and no less
    of the other. -/
theorem no_free_lunch (ops : List HistOp) (s : HistState) (I : SolvInv ts0 s) (hops : ∀ op ∈ ops, OpOK ts0 op ∧ IsSwap op) :
    ¬ ((ops.foldl histApply s).vaultA ≤ s.vaultA ∧ (ops.foldl histApply s).vaultB ≤ s.vaultB ∧
       ((ops.foldl histApply s).vaultA < s.vaultA ∨ (ops.foldl histApply s).vaultB < s.vaultB)) := by
  obtain ⟨sa, sb, hps⟩ := swaps_slack ops s I hops
  intro ⟨ha, hb, hstrict⟩
  unfold slack vaultOf at sa sb
  simp only [if_true, Bool.false_eq_true, if_false] at sa sb
  rw [hps] at sa sb
  have ha' : (((ops.foldl histApply s).vaultA : Nat) : ℚ) ≤ (s.vaultA : ℚ) := by exact_mod_cast ha
  have hb' : (((ops.foldl histApply s).vaultB : Nat) : ℚ) ≤ (s.vaultB : ℚ) := by exact_mod_cast hb
  have hr : ∀ kp ∈ s.positions, 0 < sp kp.2.lower ∧ sp kp.2.lower ≤ sp kp.2.upper := fun kp hk => range_prices s I.geo kp hk
  rcases Nat.le_total s.pool.price (ops.foldl histApply s).pool.price with hp | hp
  · obtain ⟨mB, mA, e⟩ := total_val_pair s.positions _ _ hp hr
    have eqB : sumQ (val false (ops.foldl histApply s).pool.price) s.positions = sumQ (val false s.pool.price) s.positions := by linarith
    have eqA := e.mp eqB
    rcases hstrict with h | h
    · have : (((ops.foldl histApply s).vaultA : Nat) : ℚ) < (s.vaultA : ℚ) := by exact_mod_cast h
      linarith
    · have : (((ops.foldl histApply s).vaultB : Nat) : ℚ) < (s.vaultB : ℚ) := by exact_mod_cast h
      linarith
  · obtain ⟨mB, mA, e⟩ := total_val_pair s.positions _ _ hp hr
    have eqA : sumQ (val true s.pool.price) s.positions = sumQ (val true (ops.foldl histApply s).pool.price) s.positions := by linarith
    have eqB := e.mpr eqA
    rcases hstrict with h | h
    · have : (((ops.foldl histApply s).vaultA : Nat) : ℚ) < (s.vaultA : ℚ) := by exact_mod_cast h
      linarith
    · have : (((ops.foldl histApply s).vaultB : Nat) : ℚ) < (s.vaultB : ℚ) := by exact_mod_cast h
      linarith

end WP.Solv
