import WP.Props.Solvency.Ops
/-
  C01 — solvency at every reachable state.

  `SolvInv` = the bookkeeping invariants (C05 `Inv`, `Geo`, `Wf`, increasing ids, protocol fee rate
  within its denominator) + `Solv` for both vaults.  It holds initially and is kept by EVERY
  operation of every history, executed the way the driver and the program execute them (a failing
  operation changes nothing; `reward` commits its partial effects).
-/
set_option linter.unusedSimpArgs false
set_option linter.unusedVariables false
namespace WP.Solv
open WP WP.Gen WP.C05 WP.C10 WP.Path WP.Reach WP.Growth

structure SolvInv (ts0 : Nat) (s : HistState) : Prop where
  inv : Inv s
  geo : Geo ts0 s
  wf : Wf s
  ids : IdsOK s.positions
  proto : s.pool.protoRate ≤ PROTOCOL_FEE_RATE_MUL_VALUE
  solvA : Solv true s
  solvB : Solv false s

variable {ts0 : Nat}

/-- ids stay increasing and the protocol fee rate is not touched by any operation of the history machine -/
theorem ids_proto_step (s s' : HistState) (op : HistOp) (outs : List Nat) (h : histStep s op = .ok (s', outs)) :
    (IdsOK s.positions → IdsOK s'.positions) ∧ s'.pool.protoRate = s.pool.protoRate := by
  cases op with
  | reward i e t => unfold histStep at h; cases h
  | openPos id lo hi =>
    unfold histStep at h
    simp only [] at h
    split at h
    · cases h
    · split at h
      · cases h
      · split at h
        · cases h
        · rename_i hnone
          simp only [Except.ok.injEq, Prod.mk.injEq] at h
          obtain ⟨h1, _⟩ := h
          subst h1
          have hn : posGet s.positions id = none := by
            cases hh : posGet s.positions id with
            | none => rfl
            | some v => rw [hh] at hnone; simp at hnone
          exact ⟨fun ids => idsOK_insert _ _ _ ids hn, rfl⟩
  | modify id a p =>
    obtain ⟨pos, u, da, db, mp, _⟩ := modify_parts s s' id a p outs h
    exact ⟨fun ids => by rw [mp.positions]; exact idsOK_replace _ _ _ ids, mp.proto⟩
  | upd id =>
    obtain ⟨pos, u, mp, _⟩ := upd_parts s s' id outs h
    exact ⟨fun ids => by rw [mp.positions]; exact idsOK_replace _ _ _ ids, mp.proto⟩
  | cfees id =>
    unfold histStep at h
    simp only [] at h
    split at h
    · cases h
    · split at h
      · cases h
      · simp only [Except.ok.injEq, Prod.mk.injEq] at h
        obtain ⟨h1, _⟩ := h
        subst h1
        exact ⟨fun ids => idsOK_replace _ _ _ ids, rfl⟩
  | cproto =>
    unfold histStep at h
    simp only [] at h
    split at h
    · cases h
    · simp only [Except.ok.injEq, Prod.mk.injEq] at h
      obtain ⟨h1, _⟩ := h
      subst h1
      exact ⟨fun ids => ids, rfl⟩
  | clock now =>
    unfold histStep at h
    simp only [Except.ok.injEq, Prod.mk.injEq] at h
    obtain ⟨h1, _⟩ := h
    subst h1
    exact ⟨fun ids => ids, rfl⟩
  | crew id i =>
    unfold histStep at h
    simp only [] at h
    split at h
    · cases h
    · split at h
      · cases h
      · simp only [Except.ok.injEq, Prod.mk.injEq] at h
        obtain ⟨h1, _⟩ := h
        subst h1
        exact ⟨fun ids => idsOK_replace _ _ _ ids, rfl⟩
  | swap amount limit isInput aToB arrays =>
    unfold histStep at h
    simp only [] at h
    split at h
    · cases h
    · split at h
      · cases h
      · rename_i u _
        split at h
        · cases h
        · split at h
          · cases h
          · simp only [Except.ok.injEq, Prod.mk.injEq] at h
            obtain ⟨h1, _⟩ := h
            subst h1
            exact ⟨fun ids => ids, (uas_fees s.pool u aToB s.now).2.2.2.2⟩

/-- **one operation keeps everything** -/
theorem apply_keeps_solv (s : HistState) (op : HistOp) (I : SolvInv ts0 s) (hop : OpOK ts0 op) :
    SolvInv ts0 (histApply s op) := by
  obtain ⟨i1, g1⟩ := apply_keeps s op I.inv I.geo hop
  have w1 := apply_keeps_wf s op I.inv I.geo I.wf hop
  by_cases hr : ∃ i e t, op = .reward i e t
  · obtain ⟨i, e, t, rfl⟩ := hr
    have hs := reward_same s i e t
    have hf := reward_fields s i e t
    exact { inv := i1, geo := g1, wf := w1,
            ids := by show IdsOK (histReward s i e t).1.positions; rw [hs.2.2.2.2.2.2.1]; exact I.ids,
            proto := by show (histReward s i e t).1.pool.protoRate ≤ _; rw [hf.2.2.2.2]; exact I.proto,
            solvA := solv_reward true s i e t I.solvA, solvB := solv_reward false s i e t I.solvB }
  · have hnr : ∀ i e t, op ≠ .reward i e t := fun i e t hh => hr ⟨i, e, t, hh⟩
    cases h : histStep s op with
    | error er => rw [apply_err s op er hnr h] at i1 g1 w1 ⊢; exact I
    | ok r =>
      obtain ⟨s', outs⟩ := r
      rw [apply_ok s s' op outs hnr h] at i1 g1 w1 ⊢
      obtain ⟨hids, hproto⟩ := ids_proto_step s s' op outs h
      have both : Solv true s' ∧ Solv false s' := by
        cases op with
        | reward i e t => exact absurd rfl (hnr i e t)
        | openPos id lo hi => exact ⟨solv_open true s s' id lo hi outs h I.solvA, solv_open false s s' id lo hi outs h I.solvB⟩
        | modify id a p =>
          exact ⟨solv_modify true s s' id a p outs I.inv I.geo I.wf I.ids i1 h I.solvA,
                 solv_modify false s s' id a p outs I.inv I.geo I.wf I.ids i1 h I.solvB⟩
        | upd id =>
          exact ⟨solv_upd true s s' id outs I.inv I.geo I.wf I.ids i1 h I.solvA,
                 solv_upd false s s' id outs I.inv I.geo I.wf I.ids i1 h I.solvB⟩
        | cfees id => exact ⟨solv_cfees true s s' id outs I.ids h I.solvA, solv_cfees false s s' id outs I.ids h I.solvB⟩
        | cproto => exact ⟨solv_cproto true s s' outs h I.solvA, solv_cproto false s s' outs h I.solvB⟩
        | clock now => exact ⟨solv_clock true s s' now outs h I.solvA, solv_clock false s s' now outs h I.solvB⟩
        | crew id i => exact ⟨solv_crew true s s' id i outs I.ids h I.solvA, solv_crew false s s' id i outs I.ids h I.solvB⟩
        | swap amount limit isInput aToB arrays =>
          have hop' := hop
          unfold OpOK at hop'
          rw [← I.geo.spacing] at hop'
          exact solv_swap s s' amount limit isInput aToB arrays outs I.inv I.geo I.wf I.proto hop'.1 hop'.2 h I.solvA I.solvB
      exact { inv := i1, geo := g1, wf := w1, ids := hids I.ids, proto := by rw [hproto]; exact I.proto,
              solvA := both.1, solvB := both.2 }

/-- **C01, the invariant: after ANY finite history both vaults hold at least the protocol fees owed
    plus, for every position, its owed fees, its exact pending fees and the exact value of all of
    its liquidity at the current price.** -/
theorem reach_solvent (ops : List HistOp) : ∀ (s : HistState), SolvInv ts0 s → (∀ op ∈ ops, OpOK ts0 op) →
    SolvInv ts0 (ops.foldl histApply s) := by
  induction ops with
  | nil => intro s I _; exact I
  | cons op rest ih =>
    intro s I hops
    exact ih _ (apply_keeps_solv s op I (hops op List.mem_cons_self)) (fun o ho => hops o (List.mem_cons_of_mem _ ho))

/-- a freshly initialized pool (no liquidity, no positions, nothing owed, empty vaults) -/
theorem solv_init (p : PoolD) (now : Nat) (af : Option AfInfo) (h0 : p.liq = 0) (hts : 0 < p.ts) (hfee : p.feeRate ≤ FEE_RATE_HARD_LIMIT)
    (hp1 : MIN_SQRT_PRICE_X64 ≤ p.price) (hp2 : p.price ≤ MAX_SQRT_PRICE_X64) (htick : p.tick = ti p.price)
    (haf : ∀ info, af = some info → InfoOK info)
    (hpr : p.protoRate ≤ PROTOCOL_FEE_RATE_MUL_VALUE) (hpfA : p.pfA = 0) (hpfB : p.pfB = 0)
    (hgA : p.fgA < TWO128) (hgB : p.fgB < TWO128) :
    SolvInv p.ts { pool := p, now := now, af := af } := by
  obtain ⟨i0, g0⟩ := reach_init p now h0 hts hfee hp1 hp2 htick
  exact
    { inv := inv_of_same _ _ i0 rfl rfl rfl (fun _ _ => rfl) i0.ordered,
      geo := { spacing := rfl, tp := g0.tp, pos := g0.pos, ts := hts, liqU := g0.liqU, fee := hfee, af := haf },
      wf := { ticks := fun t => by
                show (TickMap.get [] t).fgoA < TWO128 ∧ (TickMap.get [] t).fgoB < TWO128
                unfold TickMap.get; exact ⟨by decide, by decide⟩,
              fgA := hgA, fgB := hgB },
      ids := List.Pairwise.nil,
      proto := hpr,
      solvA := by unfold Solv claims pfOf vaultOf; simp [sumQ, hpfA],
      solvB := by unfold Solv claims pfOf vaultOf; simp [sumQ, hpfB] }

end WP.Solv
