import WP.Props.Solvency.Loop
/-
  C01 — solvency at the level of the history state machine: the invariant `Solv` and the swap.

  `Solv tokA s`:  protocol fees owed + Σ fees owed + Σ exact pending fees + Σ exact liquidity values
                  ≤ vault balance,    for token A (`true`) or B (`false`).
-/
set_option linter.unusedSimpArgs false
set_option linter.unusedVariables false
namespace WP.Solv
open WP WP.Gen WP.C05 WP.C10 WP.Path WP.Reach WP.Growth

def owedQ (tokA : Bool) (q : PositionD) : ℚ := if tokA then (q.owedA : ℚ) else (q.owedB : ℚ)
def pfOf (tokA : Bool) (s : HistState) : Nat := if tokA then s.pool.pfA else s.pool.pfB
def vaultOf (tokA : Bool) (s : HistState) : Nat := if tokA then s.vaultA else s.vaultB

/-- the claims on one vault, exactly -/
def claims (tokA : Bool) (s : HistState) : ℚ :=
  (pfOf tokA s : ℚ) + sumQ (owedQ tokA) s.positions + sumQ (pendQ tokA s.ticks s.pool.tick (glob tokA s)) s.positions +
    sumQ (val tokA s.pool.price) s.positions

/-- solvency of one vault -/
def Solv (tokA : Bool) (s : HistState) : Prop := claims tokA s ≤ (vaultOf tokA s : ℚ)

theorem owedQ_nonneg (tokA : Bool) (q : PositionD) : 0 ≤ owedQ tokA q := by
  unfold owedQ; split <;> positivity

theorem uas_fees (p : PoolD) (u : PostSwap) (aToB : Bool) (now : Nat) :
    (updateAfterSwap p u aToB now).fgA = (if aToB then u.fgIn else p.fgA) ∧
    (updateAfterSwap p u aToB now).fgB = (if aToB then p.fgB else u.fgIn) ∧
    (updateAfterSwap p u aToB now).pfA = (if aToB then (p.pfA + u.protoFee) % TWO64 else p.pfA) ∧
    (updateAfterSwap p u aToB now).pfB = (if aToB then p.pfB else (p.pfB + u.protoFee) % TWO64) ∧
    (updateAfterSwap p u aToB now).protoRate = p.protoRate := by
  unfold updateAfterSwap
  cases aToB <;> simp

/-- what `swapFinish` hands over -/
theorem finish_fields (p : PoolD) (amount limit : Nat) (isInput aToB : Bool) (now : Nat) (rewards : List RewardInfo) (st : SwapSt) (u : PostSwap)
    (h : swapFinish p amount limit isInput aToB now rewards st = .ok u) :
    u.amountA = (if aToB = isInput then amount - st.remaining else st.calculated) ∧
    u.amountB = (if aToB = isInput then st.calculated else amount - st.remaining) ∧
    u.tick = st.tick ∧ u.price = st.price ∧ u.fgIn = st.fgIn ∧ u.protoFee = st.protoFee ∧ u.ticks = st.ticks := by
  unfold swapFinish at h
  split at h
  · cases h
  · split at h
    · cases h
    · cases h
      exact ⟨rfl, rfl, rfl, rfl, rfl, rfl, rfl⟩

/-- the value-only slack of a vault: balance minus the exact value of all liquidity -/
def slack (tokA : Bool) (s : HistState) : ℚ := (vaultOf tokA s : ℚ) - sumQ (val tokA s.pool.price) s.positions

/-- what a successful swap COMPUTATION guarantees about its result `u`, before any token moves:
    the input it asks for covers everything it adds to the claims on the input vault, what it
    pays out is covered by the shrinkage of the claims on the output vault — and the same for the
    liquidity values alone -/
theorem swap_core {ts0 : Nat} (s : HistState) (amount limit : Nat) (isInput aToB : Bool) (arrays : List Int) (u : PostSwap)
    (inv : Inv s) (g : Geo ts0 s) (w : Wf s) (hpr : s.pool.protoRate ≤ PROTOCOL_FEE_RATE_MUL_VALUE)
    (hseq : SeqOK arrays s.pool.ts aToB) (hamt : amount ≤ U64_MAX)
    (hsw : swap s.pool s.ticks arrays amount limit isInput aToB s.now s.af SWAP_FUEL = .ok u) :
    ((pfOf aToB s : ℚ) + (u.protoFee : ℚ) + sumQ (owedQ aToB) s.positions + sumQ (pendQ aToB u.ticks u.tick u.fgIn) s.positions +
        sumQ (val aToB u.price) s.positions - claims aToB s ≤ ((if aToB then u.amountA else u.amountB : Nat) : ℚ)) ∧
    ((pfOf (!aToB) s : ℚ) + sumQ (owedQ (!aToB)) s.positions + sumQ (pendQ (!aToB) u.ticks u.tick (glob (!aToB) s)) s.positions +
        sumQ (val (!aToB) u.price) s.positions + ((if aToB then u.amountB else u.amountA : Nat) : ℚ) ≤ claims (!aToB) s) ∧
    (sumQ (val aToB u.price) s.positions ≤ sumQ (val aToB s.pool.price) s.positions + ((if aToB then u.amountA else u.amountB : Nat) : ℚ)) ∧
    (sumQ (val (!aToB) u.price) s.positions + ((if aToB then u.amountB else u.amountA : Nat) : ℚ) ≤ sumQ (val (!aToB) s.pool.price) s.positions) := by
  obtain ⟨rewards, fm, st, ok, P0, hloop, hfin, _⟩ := swap_setup s.pool s.ticks s.positions arrays amount limit isInput aToB s.now SWAP_FUEL s.af u
    g.ts hseq inv.liq (tickFacts_of s inv g) g.tp g.liqU g.fee hamt g.af hsw
  obtain ⟨fa, fb, ftick, fprice, ffg, fpf, fticks⟩ := finish_fields _ _ _ _ _ _ _ _ _ hfin
  have hGo : globOther (swapCtxOf s.pool arrays limit isInput aToB rewards) < TWO128 := by
    unfold globOther swapCtxOf
    simp only []
    split
    · exact w.fgB
    · exact w.fgA
  have hgIn : (swapInit s.pool s.ticks amount aToB fm).fgIn = glob aToB s := by
    unfold swapInit glob; rfl
  have hgOut : globOther (swapCtxOf s.pool arrays limit isInput aToB rewards) = glob (!aToB) s := by
    unfold globOther swapCtxOf glob
    cases aToB <;> simp
  have q0 : SolvLoop (swapCtxOf s.pool arrays limit isInput aToB rewards) s.positions amount
      (-(sumQ (pendQ aToB s.ticks s.pool.tick (glob aToB s)) s.positions + sumQ (val aToB s.pool.price) s.positions))
      (-(sumQ (pendQ (!aToB) s.ticks s.pool.tick (glob (!aToB) s)) s.positions + sumQ (val (!aToB) s.pool.price) s.positions))
      (sumQ (val aToB s.pool.price) s.positions) (sumQ (val (!aToB) s.pool.price) s.positions)
      (swapInit s.pool s.ticks amount aToB fm) :=
    have e1 : inSoFar (swapCtxOf s.pool arrays limit isInput aToB rewards) amount (swapInit s.pool s.ticks amount aToB fm) = 0 := by
      unfold inSoFar swapInit; simp only []; split <;> simp
    have e2 : outSoFar (swapCtxOf s.pool arrays limit isInput aToB rewards) amount (swapInit s.pool s.ticks amount aToB fm) = 0 := by
      unfold outSoFar swapInit; simp only []; split <;> simp
    { wf := w.ticks,
      fg := by rw [hgIn]; unfold glob; split; exact w.fgA; exact w.fgB,
      rem := Nat.le_refl _,
      inn := by
        rw [e1, hgIn]
        show _ + ((0 : Nat) : ℚ) + sumQ (pendQ aToB s.ticks s.pool.tick (glob aToB s)) s.positions + sumQ (val aToB s.pool.price) s.positions ≤ 0
        push_cast
        linarith,
      out := by
        rw [e2, hgOut]
        show _ + sumQ (pendQ (!aToB) s.ticks s.pool.tick (glob (!aToB) s)) s.positions + sumQ (val (!aToB) s.pool.price) s.positions + 0 ≤ 0
        linarith,
      vin := by
        rw [e1]
        show sumQ (val aToB s.pool.price) s.positions ≤ _
        linarith,
      vout := by
        rw [e2]
        show sumQ (val (!aToB) s.pool.price) s.positions + 0 ≤ _
        linarith }
  obtain ⟨_, q1⟩ := solv_loop _ s.positions s.pool.price amount _ _ _ _ ok hpr hGo SWAP_FUEL _ st P0 q0 hloop
  have hrem := q1.rem
  have hinTot : ((if aToB then u.amountA else u.amountB : Nat) : ℚ) =
      inSoFar (swapCtxOf s.pool arrays limit isInput aToB rewards) amount st := by
    unfold inSoFar swapCtxOf
    simp only []
    cases aToB <;> cases isInput <;> simp [fa, fb, Nat.cast_sub hrem]
  have houtTot : ((if aToB then u.amountB else u.amountA : Nat) : ℚ) =
      outSoFar (swapCtxOf s.pool arrays limit isInput aToB rewards) amount st := by
    unfold outSoFar swapCtxOf
    simp only []
    cases aToB <;> cases isInput <;> simp [fa, fb, Nat.cast_sub hrem]
  have qi := q1.inn
  have qo := q1.out
  have qvi := q1.vin
  have qvo := q1.vout
  rw [← hinTot] at qi qvi
  rw [← houtTot] at qo qvo
  rw [hgOut] at qo
  have hcA : (swapCtxOf s.pool arrays limit isInput aToB rewards).aToB = aToB := rfl
  rw [hcA] at qi qo qvi qvo
  rw [ftick, fprice, ffg, fpf, fticks]
  unfold claims
  refine ⟨by linarith, by linarith, qvi, qvo⟩

/-- the fields of the state after a successful swap operation -/
theorem swap_state (s s' : HistState) (amount limit : Nat) (isInput aToB : Bool) (arrays : List Int) (outs : List Nat)
    (h : histStep s (.swap amount limit isInput aToB arrays) = .ok (s', outs)) :
    ∃ u, swap s.pool s.ticks arrays amount limit isInput aToB s.now s.af SWAP_FUEL = .ok u ∧
      s'.pool = updateAfterSwap s.pool u aToB s.now ∧ s'.ticks = u.ticks ∧ s'.positions = s.positions ∧
      (if aToB then u.amountB ≤ s.vaultB ∧ s'.vaultA = s.vaultA + u.amountA ∧ s'.vaultB = s.vaultB - u.amountB
       else u.amountA ≤ s.vaultA ∧ s'.vaultA = s.vaultA - u.amountA ∧ s'.vaultB = s.vaultB + u.amountB) := by
  unfold histStep at h
  simp only [] at h
  split at h
  · cases h
  · split at h
    · cases h
    · rename_i u hsw
      split at h
      · cases h
      · rename_i hv1
        split at h
        · cases h
        · rename_i hv2
          simp only [Except.ok.injEq, Prod.mk.injEq] at h
          obtain ⟨h1, _⟩ := h
          subst h1
          refine ⟨u, hsw, rfl, rfl, rfl, ?_⟩
          cases aToB
          · simp only [Bool.false_eq_true, Bool.false_and, Bool.not_false, Bool.true_and, decide_eq_true_eq, not_lt] at hv2
            simp only [Bool.false_eq_true, if_false, and_true]
            exact hv2
          · simp only [Bool.true_and, decide_eq_true_eq, not_lt] at hv1
            simp only [if_true, and_true]
            exact hv1

/-- **a swap keeps both vaults solvent** -/
theorem solv_swap {ts0 : Nat} (s s' : HistState) (amount limit : Nat) (isInput aToB : Bool) (arrays : List Int) (outs : List Nat)
    (inv : Inv s) (g : Geo ts0 s) (w : Wf s) (hpr : s.pool.protoRate ≤ PROTOCOL_FEE_RATE_MUL_VALUE)
    (hseq : SeqOK arrays s.pool.ts aToB) (hamt : amount ≤ U64_MAX)
    (h : histStep s (.swap amount limit isInput aToB arrays) = .ok (s', outs))
    (sa : Solv true s) (sb : Solv false s) : Solv true s' ∧ Solv false s' := by
  obtain ⟨u, hsw, hpool, hticks, hposs, hv⟩ := swap_state s s' amount limit isInput aToB arrays outs h
  obtain ⟨ci, co, _, _⟩ := swap_core s amount limit isInput aToB arrays u inv g w hpr hseq hamt hsw
  obtain ⟨u1, u2, u3, u4, u5⟩ := uas_fields s.pool u aToB s.now
  obtain ⟨v1, v2, v3, v4, v5⟩ := uas_fees s.pool u aToB s.now
  have hmod : ∀ a b : Nat, (((a + b) % TWO64 : Nat) : ℚ) ≤ (a : ℚ) + (b : ℚ) := by
    intro a b
    have := Nat.mod_le (a + b) TWO64
    exact_mod_cast this
  unfold Solv at sa sb ⊢
  cases aToB
  · -- B in, A out
    simp only [Bool.false_eq_true, if_false, Bool.not_false, if_true] at ci co v1 v2 v3 v4 hv
    obtain ⟨hle, ea, eb⟩ := hv
    constructor
    · unfold claims pfOf vaultOf glob
      unfold pfOf glob at co
      simp only [if_true] at co ⊢
      rw [hpool, hticks, hposs, v1, v3, u2, u3, ea, Nat.cast_sub hle]
      unfold vaultOf at sa; simp only [if_true] at sa
      linarith
    · unfold claims pfOf vaultOf glob
      unfold pfOf at ci
      simp only [Bool.false_eq_true, if_false] at ci ⊢
      rw [hpool, hticks, hposs, v2, v4, u2, u3, eb]
      unfold vaultOf at sb; simp only [Bool.false_eq_true, if_false] at sb
      have := hmod s.pool.pfB u.protoFee
      push_cast
      linarith
  · -- A in, B out
    simp only [if_true, Bool.not_true, Bool.false_eq_true, if_false] at ci co v1 v2 v3 v4 hv
    obtain ⟨hle, ea, eb⟩ := hv
    constructor
    · unfold claims pfOf vaultOf glob
      unfold pfOf at ci
      simp only [if_true] at ci ⊢
      rw [hpool, hticks, hposs, v1, v3, u2, u3, ea]
      unfold vaultOf at sa; simp only [if_true] at sa
      have := hmod s.pool.pfA u.protoFee
      push_cast
      linarith
    · unfold claims pfOf vaultOf glob
      unfold pfOf glob at co
      simp only [Bool.false_eq_true, if_false] at co ⊢
      rw [hpool, hticks, hposs, v2, v4, u2, u3, eb, Nat.cast_sub hle]
      unfold vaultOf at sb; simp only [Bool.false_eq_true, if_false] at sb
      linarith

/-- **a swap never lowers the value-only slack of either vault**: what comes in is at least the growth
    of the liquidity value in that token, what goes out at most its shrinkage -/
theorem swap_slack_mono {ts0 : Nat} (s s' : HistState) (amount limit : Nat) (isInput aToB : Bool) (arrays : List Int) (outs : List Nat)
    (inv : Inv s) (g : Geo ts0 s) (w : Wf s) (hpr : s.pool.protoRate ≤ PROTOCOL_FEE_RATE_MUL_VALUE)
    (hseq : SeqOK arrays s.pool.ts aToB) (hamt : amount ≤ U64_MAX)
    (h : histStep s (.swap amount limit isInput aToB arrays) = .ok (s', outs)) :
    slack true s ≤ slack true s' ∧ slack false s ≤ slack false s' ∧ s'.positions = s.positions := by
  obtain ⟨u, hsw, hpool, hticks, hposs, hv⟩ := swap_state s s' amount limit isInput aToB arrays outs h
  obtain ⟨_, _, vi, vo⟩ := swap_core s amount limit isInput aToB arrays u inv g w hpr hseq hamt hsw
  obtain ⟨u1, u2, u3, u4, u5⟩ := uas_fields s.pool u aToB s.now
  refine ⟨?_, ?_, hposs⟩
  · unfold slack vaultOf
    simp only [if_true]
    rw [hpool, hposs, u3]
    cases aToB
    · simp only [Bool.false_eq_true, if_false, Bool.not_false, if_true] at vi vo hv
      rw [hv.2.1, Nat.cast_sub hv.1]; linarith
    · simp only [if_true, Bool.not_true, Bool.false_eq_true, if_false] at vi vo hv
      rw [hv.2.1]; push_cast; linarith
  · unfold slack vaultOf
    simp only [Bool.false_eq_true, if_false]
    rw [hpool, hposs, u3]
    cases aToB
    · simp only [Bool.false_eq_true, if_false, Bool.not_false, if_true] at vi vo hv
      rw [hv.2.2]; push_cast; linarith
    · simp only [if_true, Bool.not_true, Bool.false_eq_true, if_false] at vi vo hv
      rw [hv.2.2, Nat.cast_sub hv.1]; linarith

end WP.Solv
