import WP.Props.Solvency.Basic
/-
  C01 — solvency, one iteration of the swap loop.

  For the INPUT token of the swap:   Σ pending fees + Σ values + protocol fee grow by at most
                                     amount_in + fee of the step;
  for the OUTPUT token:              Σ pending fees + Σ values shrink by at least amount_out.
  Ingredients: the step's amounts are the exact curve amounts rounded in the pool's favour (C02),
  the pool liquidity is the sum over the positions in range and no liquidity-bearing tick lies
  strictly inside the move (C05 / C10 via `Path`, `Aim`), the fee growth inside a range moves only
  while the tick index is inside it, by ⌊lp_fee·2^64/L⌋ (C07 via `move_inside`, `advance_inside`).
-/
set_option linter.unusedSimpArgs false
set_option linter.unusedVariables false
namespace WP.Solv
open WP WP.Gen WP.C05 WP.C10 WP.Path WP.Reach WP.Growth

/-! ### everything one iteration does, in one statement -/

theorem swapStep_all (c : SwapCtx) (s s' : SwapSt) (nai : Nat) (nti : Int) (ntp tgt : Nat)
    (h : swapStep c s nai nti ntp tgt = .ok s') :
    ∃ sc : SwapStep,
      computeSwap s.remaining s.fm.updateVolAcc.totalFeeRate s.liq s.price
        (s.fm.updateVolAcc.boundedTarget tgt s.liq).1 c.isInput c.aToB = .ok sc ∧
      (if c.isInput then s.remaining = s'.remaining + sc.amountIn + sc.feeAmount ∧ s'.calculated = s.calculated + sc.amountOut
       else s.remaining = s'.remaining + sc.amountOut ∧ s'.calculated = s.calculated + sc.amountIn + sc.feeAmount) ∧
      s'.feeSum = s.feeSum + sc.feeAmount ∧
      s'.protoFee = (calculateFees sc.feeAmount c.protoRate s.liq s.protoFee s.fgIn).1 ∧
      s'.fgIn = (calculateFees sc.feeAmount c.protoRate s.liq s.protoFee s.fgIn).2 ∧
      s'.price = sc.nextPrice := by
  unfold swapStep at h
  simp only [] at h
  split at h
  · cases h
  · rename_i sc hsc
    refine ⟨sc, hsc, ?_⟩
    split at h
    · cases h
    · rename_i ra hra
      split at h
      · cases h
      · rename_i feeSum hfee
        split at h
        · cases h
        · rename_i cr hcross
          split at h
          · cases h
          · rename_i fm' hfm
            simp only [Except.ok.injEq] at h
            subst h
            have hf : feeSum = s.feeSum + sc.feeAmount := by
              unfold checkedAdd64 at hfee
              by_cases c1 : s.feeSum + sc.feeAmount ≤ U64_MAX
              · rw [if_pos c1] at hfee; simp only [Except.ok.injEq] at hfee; subst hfee; rfl
              · rw [if_neg c1] at hfee; cases hfee
            exact ⟨C06.stepAmounts_spec _ _ _ _ _ hra, hf, rfl, rfl, rfl⟩

/-- the geometry of one iteration: the step is a well-formed `compute_swap` call and the new price
    lies between the tick aimed at and the old price -/
theorem step_geom (c : SwapCtx) (ps : List (Nat × PositionD)) (p0 : Nat) (s : SwapSt) (nai : Nat) (nti : Int)
    (ok : CtxOK c) (P : Path c ps p0 s) (A : Aim c s nai nti) (sc : SwapStep)
    (hsc : computeSwap s.remaining s.fm.updateVolAcc.totalFeeRate s.liq s.price
      (s.fm.updateVolAcc.boundedTarget (if c.aToB then max c.limit (sp nti) else min c.limit (sp nti)) s.liq).1 c.isInput c.aToB = .ok sc) :
    C02.WFStep s.remaining s.fm.updateVolAcc.totalFeeRate s.liq s.price
      (s.fm.updateVolAcc.boundedTarget (if c.aToB then max c.limit (sp nti) else min c.limit (sp nti)) s.liq).1 c.aToB ∧
    (if c.aToB then sp nti ≤ sc.nextPrice ∧ sc.nextPrice ≤ s.price else s.price ≤ sc.nextPrice ∧ sc.nextPrice ≤ sp nti) := by
  have hpb := TP_price_bounds _ _ P.tp
  by_cases hd : c.aToB = true
  · have hfm0 : FmOK true s.tick s.fm := by rw [← hd]; exact P.fm
    unfold Aim at A
    rw [if_pos hd] at A hsc ⊢
    rw [if_pos hd]
    obtain ⟨n1, n2, ⟨st, hst, l1, l2⟩, n3, hno⟩ := A
    have hnb := sp_in_bounds nti n1 n2
    have hlim := P.lim
    rw [if_pos hd] at hlim
    have hsn : sp nti ≤ s.price := by
      rcases P.tp with ⟨a, b, c', _, _⟩ | ⟨a, _⟩
      · have := C09.sp_le nti s.tick n1 n3 b; omega
      · omega
    have htk : MIN_TICK_INDEX ≤ s.tick ∧ s.tick ≤ MAX_TICK_INDEX ∧ sp s.tick ≤ s.price := by
      rcases P.tp with ⟨a, b, c', _, _⟩ | ⟨a, _⟩
      · exact ⟨a, b, c'⟩
      · omega
    have htgt : max c.limit (sp nti) ≤ s.price := Nat.max_le.mpr ⟨hlim.1, hsn⟩
    have hbd := fm_bounded_down s.fm s.tick s.price (max c.limit (sp nti)) s.liq hfm0 htk.1 htk.2.1 htk.2.2 htgt
    have wf : C02.WFStep s.remaining s.fm.updateVolAcc.totalFeeRate s.liq s.price
        (s.fm.updateVolAcc.boundedTarget (max c.limit (sp nti)) s.liq).1 c.aToB :=
      { cur_lo := hpb.1, cur_hi := hpb.2,
        tgt_lo := Nat.le_trans (Nat.le_trans ok.lim_lo (Nat.le_max_left _ _)) hbd.1,
        tgt_hi := Nat.le_trans hbd.2 hpb.2,
        dirOk := by rw [if_pos hd]; exact hbd.2,
        remU := P.remU, LU := P.liqU, rateOk := rate_ok true s.tick s.fm hfm0 }
    have hdir0 := C02.step_direction _ _ _ _ _ _ _ sc wf hsc
    rw [if_pos hd] at hdir0
    exact ⟨wf, Nat.le_trans (Nat.le_max_right _ _) (Nat.le_trans hbd.1 hdir0.1), hdir0.2⟩
  · have hd' : c.aToB = false := by cases h : c.aToB <;> simp_all
    have hfm0 : FmOK false s.tick s.fm := by rw [← hd']; exact P.fm
    unfold Aim at A
    rw [if_neg hd] at A hsc ⊢
    rw [if_neg hd]
    obtain ⟨n1, n2, ⟨st, hst, l1, l2⟩, n3, hno⟩ := A
    have hnb := sp_in_bounds nti n1 n2
    have hlim := P.lim
    rw [if_neg hd] at hlim
    have hsn : s.price ≤ sp nti := by
      rcases P.tp with ⟨a, b, _, d, _⟩ | ⟨a, b⟩
      · have h1 := d (by omega)
        have := C09.sp_le (s.tick + 1) nti (by omega) (by omega) n2; omega
      · rw [b]; exact C09.sp_le _ _ (Int.le_refl _) n1 n2
    have htk : MIN_TICK_INDEX - 1 ≤ s.tick ∧ s.tick < MAX_TICK_INDEX ∧ s.price ≤ sp (s.tick + 1) := by
      rcases P.tp with ⟨a, b, _, d, _⟩ | ⟨a, b⟩
      · exact ⟨by omega, by omega, d (by omega)⟩
      · refine ⟨by omega, by omega, ?_⟩
        rw [a, b, show MIN_TICK_INDEX - 1 + 1 = MIN_TICK_INDEX by omega]
    have htgt : s.price ≤ min c.limit (sp nti) := Nat.le_min.mpr ⟨hlim.2, hsn⟩
    have hbd := fm_bounded_up s.fm s.tick s.price (min c.limit (sp nti)) s.liq hfm0 htk.1 htk.2.1 htk.2.2 htgt
    have wf : C02.WFStep s.remaining s.fm.updateVolAcc.totalFeeRate s.liq s.price
        (s.fm.updateVolAcc.boundedTarget (min c.limit (sp nti)) s.liq).1 c.aToB :=
      { cur_lo := hpb.1, cur_hi := hpb.2,
        tgt_lo := Nat.le_trans hpb.1 hbd.1,
        tgt_hi := Nat.le_trans hbd.2 (Nat.le_trans (Nat.min_le_left _ _) ok.lim_hi),
        dirOk := by rw [if_neg hd]; exact hbd.1,
        remU := P.remU, LU := P.liqU, rateOk := rate_ok false s.tick s.fm hfm0 }
    have hdir0 := C02.step_direction _ _ _ _ _ _ _ sc wf hsc
    rw [if_neg hd] at hdir0
    exact ⟨wf, hdir0.1, Nat.le_trans (Nat.le_trans hdir0.2 hbd.2) (Nat.min_le_right _ _)⟩

/-! ### where the positions are relative to one price move -/

theorem bound_of_mem (k : Nat) (q : PositionD) (hl : 0 < q.liq) :
    ∀ l : List (Nat × PositionD), (k, q) ∈ l → Bound l q.lower ∧ Bound l q.upper := by
  intro l
  induction l with
  | nil => intro h; cases h
  | cons hd tl ih =>
    obtain ⟨k0, w⟩ := hd
    intro h
    unfold Bound
    simp only [sumBy]
    rcases List.mem_cons.mp h with e | e
    · cases e
      have g1 := C05.sumBy_gross_nonneg q.lower tl
      have g2 := C05.sumBy_gross_nonneg q.upper tl
      have a : grossContrib q.lower q ≥ q.liq := by unfold grossContrib; split <;> split <;> omega
      have b : grossContrib q.upper q ≥ q.liq := by unfold grossContrib; split <;> split <;> omega
      exact ⟨by omega, by omega⟩
    · obtain ⟨a, b⟩ := ih e
      unfold Bound at a b
      have g1 := C05.gross_nonneg q.lower w
      have g2 := C05.gross_nonneg q.upper w
      exact ⟨by omega, by omega⟩

theorem clamp_low (p lo hi : Nat) (h : p ≤ lo) (hlh : lo ≤ hi) : clampP p lo hi = lo := by unfold clampP; omega
theorem clamp_high (p lo hi : Nat) (h : hi ≤ p) (hlh : lo ≤ hi) : clampP p lo hi = hi := by unfold clampP; omega

/-- the hypothesis of `sum_val_move` for an a→b move from the current price down to `p'` -/
theorem classify_down (c : SwapCtx) (ps : List (Nat × PositionD)) (p0 : Nat) (s : SwapSt) (nai : Nat) (nti : Int) (p' : Nat)
    (hd : c.aToB = true) (P : Path c ps p0 s) (A : Aim c s nai nti) (h1 : sp nti ≤ p') (h2 : p' ≤ s.price) :
    ∀ kp ∈ ps, kp.2.liq = 0 ∨
      ((kp.2.lower ≤ s.tick ∧ s.tick < kp.2.upper) ∧ sp kp.2.lower ≤ s.price ∧ s.price ≤ sp kp.2.upper ∧ sp kp.2.lower ≤ p' ∧ p' ≤ sp kp.2.upper) ∨
      (¬ (kp.2.lower ≤ s.tick ∧ s.tick < kp.2.upper) ∧
        clampP s.price (sp kp.2.lower) (sp kp.2.upper) = clampP p' (sp kp.2.lower) (sp kp.2.upper)) := by
  intro kp hk
  obtain ⟨k, q⟩ := kp
  simp only []
  by_cases hl : q.liq = 0
  · left; exact hl
  · right
    unfold Aim at A
    rw [if_pos hd] at A
    obtain ⟨n1, n2, _, n3, hno⟩ := A
    obtain ⟨bl, bh⟩ := bound_of_mem k q (by omega) ps hk
    obtain ⟨il, gl⟩ := bound_init s.ticks ps c.ts P.tf q.lower bl
    obtain ⟨ih, gh⟩ := bound_init s.ticks ps c.ts P.tf q.upper bh
    have hord := P.tf.ordered (k, q) hk
    obtain ⟨_, _, m1, m2⟩ := P.tf.grid (k, q) hk
    simp only [] at hord m1 m2
    have hlu : sp q.lower ≤ sp q.upper := C09.sp_le _ _ m1 (by omega) m2
    -- neither bound lies in (nti, s.tick]
    have nl : ¬ (nti < q.lower ∧ q.lower ≤ s.tick) := fun ⟨a, b⟩ => by have := hno q.lower a b gl; rw [il] at this; cases this
    have nh : ¬ (nti < q.upper ∧ q.upper ≤ s.tick) := fun ⟨a, b⟩ => by have := hno q.upper a b gh; rw [ih] at this; cases this
    by_cases hr : q.lower ≤ s.tick ∧ s.tick < q.upper
    · left
      refine ⟨hr, ?_⟩
      have hlo : q.lower ≤ nti := by omega
      have a1 : sp q.lower ≤ sp nti := C09.sp_le _ _ m1 hlo n2
      have a2 : s.price ≤ sp q.upper := by
        rcases P.tp with ⟨a, b, _, d, e⟩ | ⟨a, b⟩
        · have hlt : s.tick < MAX_TICK_INDEX := by omega
          have := d hlt
          have := C09.sp_le (s.tick + 1) q.upper (by omega) (by omega) m2
          omega
        · omega
      exact ⟨by omega, a2, by omega, by omega⟩
    · right
      refine ⟨hr, ?_⟩
      by_cases hb : q.upper ≤ s.tick
      · have hup : q.upper ≤ nti := by omega
        have a1 : sp q.upper ≤ sp nti := C09.sp_le _ _ (by omega) hup n2
        rw [clamp_high _ _ _ (by omega) hlu, clamp_high _ _ _ (by omega) hlu]
      · have hlo : s.tick < q.lower := by omega
        have a2 : s.price ≤ sp q.lower := by
          rcases P.tp with ⟨a, b, _, d, e⟩ | ⟨a, b⟩
          · have hlt : s.tick < MAX_TICK_INDEX := by omega
            have := d hlt
            have := C09.sp_le (s.tick + 1) q.lower (by omega) (by omega) (by omega)
            omega
          · rw [b]; exact C09.sp_le _ _ (Int.le_refl _) m1 (by omega)
        rw [clamp_low _ _ _ a2 hlu, clamp_low _ _ _ (by omega) hlu]

/-- the same for a b→a move from the current price up to `p'` -/
theorem classify_up (c : SwapCtx) (ps : List (Nat × PositionD)) (p0 : Nat) (s : SwapSt) (nai : Nat) (nti : Int) (p' : Nat)
    (hd : c.aToB = false) (P : Path c ps p0 s) (A : Aim c s nai nti) (h1 : s.price ≤ p') (h2 : p' ≤ sp nti) :
    ∀ kp ∈ ps, kp.2.liq = 0 ∨
      ((kp.2.lower ≤ s.tick ∧ s.tick < kp.2.upper) ∧ sp kp.2.lower ≤ s.price ∧ s.price ≤ sp kp.2.upper ∧ sp kp.2.lower ≤ p' ∧ p' ≤ sp kp.2.upper) ∨
      (¬ (kp.2.lower ≤ s.tick ∧ s.tick < kp.2.upper) ∧
        clampP s.price (sp kp.2.lower) (sp kp.2.upper) = clampP p' (sp kp.2.lower) (sp kp.2.upper)) := by
  intro kp hk
  obtain ⟨k, q⟩ := kp
  simp only []
  by_cases hl : q.liq = 0
  · left; exact hl
  · right
    unfold Aim at A
    rw [if_neg (by rw [hd]; simp)] at A
    obtain ⟨n1, n2, _, n3, hno⟩ := A
    obtain ⟨bl, bh⟩ := bound_of_mem k q (by omega) ps hk
    obtain ⟨il, gl⟩ := bound_init s.ticks ps c.ts P.tf q.lower bl
    obtain ⟨ih, gh⟩ := bound_init s.ticks ps c.ts P.tf q.upper bh
    have hord := P.tf.ordered (k, q) hk
    obtain ⟨_, _, m1, m2⟩ := P.tf.grid (k, q) hk
    simp only [] at hord m1 m2
    have hlu : sp q.lower ≤ sp q.upper := C09.sp_le _ _ m1 (by omega) m2
    -- neither bound lies in (s.tick, nti)
    have nl : ¬ (s.tick < q.lower ∧ q.lower < nti) := fun ⟨a, b⟩ => by have := hno q.lower a b gl; rw [il] at this; cases this
    have nh : ¬ (s.tick < q.upper ∧ q.upper < nti) := fun ⟨a, b⟩ => by have := hno q.upper a b gh; rw [ih] at this; cases this
    by_cases hr : q.lower ≤ s.tick ∧ s.tick < q.upper
    · left
      refine ⟨hr, ?_⟩
      have hup : nti ≤ q.upper := by omega
      have a1 : sp nti ≤ sp q.upper := C09.sp_le _ _ n1 hup m2
      have a2 : sp q.lower ≤ s.price := by
        rcases P.tp with ⟨a, b, c', _, _⟩ | ⟨a, b⟩
        · have := C09.sp_le q.lower s.tick m1 hr.1 b
          omega
        · omega
      exact ⟨a2, by omega, by omega, by omega⟩
    · right
      refine ⟨hr, ?_⟩
      by_cases hb : q.upper ≤ s.tick
      · have a2 : sp q.upper ≤ s.price := by
          rcases P.tp with ⟨a, b, c', _, _⟩ | ⟨a, b⟩
          · have := C09.sp_le q.upper s.tick (by omega) hb b
            omega
          · omega
        rw [clamp_high _ _ _ a2 hlu, clamp_high _ _ _ (by omega) hlu]
      · have hlo : nti ≤ q.lower := by omega
        have a1 : sp nti ≤ sp q.lower := C09.sp_le _ _ n1 hlo (by omega)
        rw [clamp_low _ _ _ (by omega) hlu, clamp_low _ _ _ (by omega) hlu]


/-! ### the amounts of a step against the exact value move -/

theorem roundA_up_ge (L lo hi : Nat) (h0 : 0 < lo) (h : lo ≤ hi) :
    (L : ℚ) * ((TWO64 : ℚ) / (lo : ℚ) - (TWO64 : ℚ) / (hi : ℚ)) ≤ ((C02.roundA L lo hi true : Nat) : ℚ) := by
  unfold C02.roundA
  simp only [if_true]
  have hd : 0 < C02.aDen lo hi := by unfold C02.aDen; exact Nat.mul_pos (by omega) h0
  refine le_trans (le_of_eq ?_) (cdiv_cast_ge (C02.aNum L lo hi) (C02.aDen lo hi) hd)
  unfold C02.aNum C02.aDen
  have hlo : (0 : ℚ) < (lo : ℚ) := by exact_mod_cast h0
  have hhi : (0 : ℚ) < (hi : ℚ) := by exact_mod_cast (show 0 < hi by omega)
  push_cast [Nat.cast_sub h]
  field_simp

theorem roundA_down_le (L lo hi : Nat) (h0 : 0 < lo) (h : lo ≤ hi) :
    ((C02.roundA L lo hi false : Nat) : ℚ) ≤ (L : ℚ) * ((TWO64 : ℚ) / (lo : ℚ) - (TWO64 : ℚ) / (hi : ℚ)) := by
  unfold C02.roundA
  simp only [Bool.false_eq_true, if_false]
  refine le_trans (div_cast_le _ _) (le_of_eq ?_)
  unfold C02.aNum C02.aDen
  have hlo : (0 : ℚ) < (lo : ℚ) := by exact_mod_cast h0
  have hhi : (0 : ℚ) < (hi : ℚ) := by exact_mod_cast (show 0 < hi by omega)
  push_cast [Nat.cast_sub h]
  field_simp

theorem roundB_up_ge (L lo hi : Nat) (h : lo ≤ hi) :
    (L : ℚ) * (((hi : ℚ) - (lo : ℚ)) / (TWO64 : ℚ)) ≤ ((C02.roundB L lo hi true : Nat) : ℚ) := by
  unfold C02.roundB
  simp only [if_true]
  refine le_trans (le_of_eq ?_) (cdiv_cast_ge (C02.bNum L lo hi) TWO64 (by decide))
  unfold C02.bNum
  push_cast [Nat.cast_sub h]
  ring

theorem roundB_down_le (L lo hi : Nat) (h : lo ≤ hi) :
    ((C02.roundB L lo hi false : Nat) : ℚ) ≤ (L : ℚ) * (((hi : ℚ) - (lo : ℚ)) / (TWO64 : ℚ)) := by
  unfold C02.roundB
  simp only [Bool.false_eq_true, if_false]
  refine le_trans (div_cast_le _ _) (le_of_eq ?_)
  unfold C02.bNum
  push_cast [Nat.cast_sub h]
  ring

/-- the input taken covers the growth of the input-token value of the in-range liquidity; the output
    paid is covered by the shrinkage of its output-token value -/
theorem amounts_vs_move (dir : Bool) (L p p' : Nat) (h0 : 0 < p) (h0' : 0 < p')
    (hdir : if dir then p' ≤ p else p ≤ p') :
    (L : ℚ) * moveTerm dir p p' ≤ ((C02.roundTok dir L (C02.lo' p p') (C02.hi' p p') true : Nat) : ℚ) ∧
    ((C02.roundTok (!dir) L (C02.lo' p p') (C02.hi' p p') false : Nat) : ℚ) ≤ -((L : ℚ) * moveTerm (!dir) p p') := by
  cases dir
  · simp only [Bool.false_eq_true, if_false] at hdir
    obtain ⟨a, b⟩ := C02.lo_hi_of_le hdir
    rw [a, b]
    unfold C02.roundTok moveTerm
    simp only [Bool.false_eq_true, if_false, Bool.not_false, if_true]
    refine ⟨roundB_up_ge L p p' hdir, ?_⟩
    have := roundA_down_le L p p' h0 hdir
    linarith
  · simp only [if_true] at hdir
    obtain ⟨a, b⟩ := C02.lo_hi_of_ge hdir
    rw [a, b]
    unfold C02.roundTok moveTerm
    simp only [if_true, Bool.not_true, Bool.false_eq_true, if_false]
    refine ⟨roundA_up_ge L p' p h0' hdir, ?_⟩
    have := roundB_down_le L p' p hdir
    have e : -((L : ℚ) * (((p' : ℚ) - (p : ℚ)) / (TWO64 : ℚ))) = (L : ℚ) * (((p : ℚ) - (p' : ℚ)) / (TWO64 : ℚ)) := by ring
    rw [e]; exact this

/-! ### the fee of a step -/

/-- the protocol share and the LP share of a step's fee never add up to more than the fee -/
theorem fees_split (fee protoRate liq curProto fgIn : Nat) (hp : protoRate ≤ PROTOCOL_FEE_RATE_MUL_VALUE) (hfg : fgIn < TWO128) :
    ∃ d delta, (calculateFees fee protoRate liq curProto fgIn).2 = wadd fgIn d ∧
      (calculateFees fee protoRate liq curProto fgIn).1 ≤ curProto + delta ∧ delta ≤ fee ∧ d * liq ≤ (fee - delta) * TWO64 := by
  have hm : PROTOCOL_FEE_RATE_MUL_VALUE = 10000 := rfl
  unfold calculateFees
  simp only []
  refine ⟨if liq > 0 then (fee - (if protoRate > 0 then fee * protoRate / PROTOCOL_FEE_RATE_MUL_VALUE else 0)) * TWO64 / liq else 0,
    if protoRate > 0 then fee * protoRate / PROTOCOL_FEE_RATE_MUL_VALUE else 0, ?_, ?_, ?_, ?_⟩
  · by_cases hl : liq > 0
    · rw [if_pos hl, if_pos hl]
    · rw [if_neg hl, if_neg hl]
      unfold wadd; rw [Nat.add_zero, Nat.mod_eq_of_lt hfg]
  · by_cases h : protoRate > 0
    · rw [if_pos h, if_pos h]
      unfold wadd64
      exact Nat.mod_le _ _
    · rw [if_neg h, if_neg h]; omega
  · by_cases h : protoRate > 0
    · rw [if_pos h]
      apply Nat.div_le_of_le_mul
      rw [hm] at hp ⊢
      have : fee * protoRate ≤ fee * 10000 := Nat.mul_le_mul_left _ hp
      omega
    · rw [if_neg h]; omega
  · by_cases hl : liq > 0
    · rw [if_pos hl]
      exact Nat.div_mul_le_self _ _
    · rw [if_neg hl]; omega

/-! ### pending fees over one iteration -/

/-- fee growth accrued to the range of `q` since its checkpoint, read from a tick map -/
def pendAt (tokA : Bool) (ticks : TickMap) (tick : Int) (glob : Nat) (q : PositionD) : Nat :=
  wsub (inside tokA ticks tick q.lower q.upper glob) (cp tokA q)

/-- … in tokens, exactly: L·pend/2^64 -/
def pendQ (tokA : Bool) (ticks : TickMap) (tick : Int) (glob : Nat) (q : PositionD) : ℚ :=
  (q.liq : ℚ) * (pendAt tokA ticks tick glob q : ℚ) / (TWO64 : ℚ)

theorem pend_eq (tokA : Bool) (s : HistState) (q : PositionD) :
    Reach.pend tokA s q = pendAt tokA s.ticks s.pool.tick (glob tokA s) q := rfl

theorem pendQ_nonneg (tokA : Bool) (ticks : TickMap) (tick : Int) (glob : Nat) (q : PositionD) : 0 ≤ pendQ tokA ticks tick glob q := by
  unfold pendQ
  have := two64_pos
  positivity

/-- the growth inside every liquidity-bearing range after one iteration -/
theorem step_inside (c : SwapCtx) (ps : List (Nat × PositionD)) (p0 : Nat) (s s' : SwapSt) (nti : Int) (d : Nat)
    (hGo : globOther c < TWO128) (P : Path c ps p0 s) (sh : Shape c s s' nti)
    (wf : TicksWF s.ticks) (hfg : s.fgIn < TWO128) (hd : s'.fgIn = wadd s.fgIn d) :
    TicksWF s'.ticks ∧ ∀ lo hi, lo < hi → Bound ps lo → Bound ps hi →
      inside c.aToB s'.ticks s'.tick lo hi s'.fgIn =
        (if lo ≤ s.tick ∧ s.tick < hi then wadd (inside c.aToB s.ticks s.tick lo hi s.fgIn) d else inside c.aToB s.ticks s.tick lo hi s.fgIn) ∧
      inside (!c.aToB) s'.ticks s'.tick lo hi (globOther c) = inside (!c.aToB) s.ticks s.tick lo hi (globOther c) := by
  obtain ⟨_, hmove⟩ := sh
  have hfg' : s'.fgIn < TWO128 := by rw [hd]; exact C07.wadd_lt _ _
  have mv : ∀ (tokA : Bool) (G : Nat), (if tokA then (if c.aToB then s'.fgIn else c.fgOtherA) else (if c.aToB then c.fgOtherB else s'.fgIn)) = G →
      G < TWO128 → ∀ lo hi, lo < hi → Bound ps lo → Bound ps hi →
      inside tokA s'.ticks s'.tick lo hi G = inside tokA s.ticks s.tick lo hi G := by
    intro tokA G hG hGlt lo hi hlh bl bh
    apply move_inside c ps s s' nti lo hi tokA G P.tf wf hGlt hlh bl bh
    rcases hmove with ⟨a, b, c'⟩ | h2
    · left
      refine ⟨a, ?_, c'⟩
      rcases b with ⟨b1, b2⟩ | b
      · left; exact ⟨b1, _, _, hG, b2⟩
      · right; exact b
    · right; exact h2
  constructor
  · rcases hmove with ⟨_, b, _⟩ | ⟨h2, _⟩
    · rcases b with ⟨_, b2⟩ | ⟨_, b2⟩
      · rw [b2]; exact ticksWF_cross _ wf _ _ _ _
      · rw [b2]; exact wf
    · rw [h2]; exact wf
  · intro lo hi hlh bl bh
    constructor
    · have hG : (if c.aToB then (if c.aToB then s'.fgIn else c.fgOtherA) else (if c.aToB then c.fgOtherB else s'.fgIn)) = s'.fgIn := by
        cases c.aToB <;> simp
      rw [mv c.aToB s'.fgIn hG hfg' lo hi hlh bl bh, hd, advance_inside _ _ _ _ _ _ _ wf hfg hlh]
    · have hG : (if (!c.aToB) then (if c.aToB then s'.fgIn else c.fgOtherA) else (if c.aToB then c.fgOtherB else s'.fgIn)) = globOther c := by
        unfold globOther; cases c.aToB <;> simp
      exact mv (!c.aToB) (globOther c) hG hGo lo hi hlh bl bh

theorem wadd_le (a b : Nat) : wadd a b ≤ a + b := by unfold wadd; exact Nat.mod_le _ _

/-- the pending fees of all positions over one iteration: the input token's grow by at most
    (in-range liquidity)·d/2^64, the output token's do not move -/
theorem step_pend (c : SwapCtx) (ps : List (Nat × PositionD)) (p0 : Nat) (s s' : SwapSt) (nti : Int) (d : Nat)
    (hGo : globOther c < TWO128) (P : Path c ps p0 s) (sh : Shape c s s' nti)
    (wf : TicksWF s.ticks) (hfg : s.fgIn < TWO128) (hd : s'.fgIn = wadd s.fgIn d) :
    sumQ (pendQ c.aToB s'.ticks s'.tick s'.fgIn) ps ≤ sumQ (pendQ c.aToB s.ticks s.tick s.fgIn) ps + (s.liq : ℚ) * (d : ℚ) / (TWO64 : ℚ) ∧
    sumQ (pendQ (!c.aToB) s'.ticks s'.tick (globOther c)) ps = sumQ (pendQ (!c.aToB) s.ticks s.tick (globOther c)) ps := by
  obtain ⟨_, hin⟩ := step_inside c ps p0 s s' nti d hGo P sh wf hfg hd
  have hq := two64_pos
  constructor
  · have h1 : sumQ (pendQ c.aToB s'.ticks s'.tick s'.fgIn) ps ≤
        sumQ (fun q => pendQ c.aToB s.ticks s.tick s.fgIn q + ((inRangeLiq s.tick q : Int) : ℚ) * ((d : ℚ) / (TWO64 : ℚ))) ps := by
      apply sumQ_le
      intro kp hk
      obtain ⟨k, q⟩ := kp
      simp only []
      by_cases hl : q.liq = 0
      · unfold pendQ inRangeLiq
        rw [hl]; split <;> simp
      · obtain ⟨bl, bh⟩ := bound_of_mem k q (by omega) ps hk
        have hord := P.tf.ordered (k, q) hk
        simp only [] at hord
        have e := (hin q.lower q.upper hord bl bh).1
        unfold pendQ pendAt inRangeLiq
        rw [e]
        by_cases hr : q.lower ≤ s.tick ∧ s.tick < q.upper
        · rw [if_pos hr, if_pos hr, C07.wsub_wadd_comm]
          have hw := wadd_le (wsub (inside c.aToB s.ticks s.tick q.lower q.upper s.fgIn) (cp c.aToB q)) d
          have hw' : ((wadd (wsub (inside c.aToB s.ticks s.tick q.lower q.upper s.fgIn) (cp c.aToB q)) d : Nat) : ℚ) ≤
              ((wsub (inside c.aToB s.ticks s.tick q.lower q.upper s.fgIn) (cp c.aToB q) : Nat) : ℚ) + (d : ℚ) := by exact_mod_cast hw
          have hL : (0 : ℚ) ≤ (q.liq : ℚ) := by positivity
          have := mul_le_mul_of_nonneg_left hw' hL
          push_cast
          rw [div_add' _ _ _ (ne_of_gt hq), div_le_div_iff_of_pos_right hq]
          have e2 : (q.liq : ℚ) * ((d : ℚ) / (TWO64 : ℚ)) * (TWO64 : ℚ) = (q.liq : ℚ) * (d : ℚ) := by field_simp
          rw [e2]
          linarith
        · rw [if_neg hr, if_neg hr]; simp
    rw [sumQ_add, sumQ_mul, ← sumQ_cast, ← P.liq] at h1
    have e : (((s.liq : Nat) : Int) : ℚ) * ((d : ℚ) / (TWO64 : ℚ)) = (s.liq : ℚ) * (d : ℚ) / (TWO64 : ℚ) := by push_cast; ring
    rw [e] at h1
    exact h1
  · apply sumQ_congr
    intro kp hk
    obtain ⟨k, q⟩ := kp
    simp only []
    by_cases hl : q.liq = 0
    · unfold pendQ; rw [hl]; simp
    · obtain ⟨bl, bh⟩ := bound_of_mem k q (by omega) ps hk
      have hord := P.tf.ordered (k, q) hk
      simp only [] at hord
      have e := (hin q.lower q.upper hord bl bh).2
      unfold pendQ pendAt
      rw [e]

end WP.Solv
