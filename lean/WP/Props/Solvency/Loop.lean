import WP.Props.Solvency.Step
/-
  C01 — solvency along the whole swap.

  Loop invariant (`SolvLoop`), for constants `Kin`, `Kout` fixed by the state before the swap:
     Kin  + protocol fee so far + Σ pending(in)  + Σ value(in)            ≤ input taken so far
     Kout +                        Σ pending(out) + Σ value(out) + output paid so far ≤ 0
  and, for the no-free-lunch clause, the same without fees (Vin, Vout = Σ value before the swap):
     Σ value(in)  ≤ Vin + input taken so far          Σ value(out) + output paid so far ≤ Vout
  With Kin = (protocol fees owed + fees owed − vault) of the input token before the swap (and the same
  for the output token) the first two say: whatever the swap has taken so far covers everything it has added
  to the claims on the input vault, and what it has paid out was covered by the shrinkage of the
  claims on the output vault.
-/
set_option linter.unusedSimpArgs false
set_option linter.unusedVariables false
namespace WP.Solv
open WP WP.Gen WP.C05 WP.C10 WP.Path WP.Reach WP.Growth

def inSoFar (c : SwapCtx) (amount : Nat) (s : SwapSt) : ℚ :=
  if c.isInput then (amount : ℚ) - (s.remaining : ℚ) else (s.calculated : ℚ)
def outSoFar (c : SwapCtx) (amount : Nat) (s : SwapSt) : ℚ :=
  if c.isInput then (s.calculated : ℚ) else (amount : ℚ) - (s.remaining : ℚ)

structure SolvLoop (c : SwapCtx) (ps : List (Nat × PositionD)) (amount : Nat) (Kin Kout Vin Vout : ℚ) (s : SwapSt) : Prop where
  wf : TicksWF s.ticks
  fg : s.fgIn < TWO128
  rem : s.remaining ≤ amount
  inn : Kin + (s.protoFee : ℚ) + sumQ (pendQ c.aToB s.ticks s.tick s.fgIn) ps + sumQ (val c.aToB s.price) ps ≤ inSoFar c amount s
  out : Kout + sumQ (pendQ (!c.aToB) s.ticks s.tick (globOther c)) ps + sumQ (val (!c.aToB) s.price) ps + outSoFar c amount s ≤ 0
  vin : sumQ (val c.aToB s.price) ps ≤ Vin + inSoFar c amount s
  vout : sumQ (val (!c.aToB) s.price) ps + outSoFar c amount s ≤ Vout

theorem min_price_pos : 0 < MIN_SQRT_PRICE_X64 := by decide

/-- one iteration keeps the solvency invariant of the loop -/
theorem solv_step (c : SwapCtx) (ps : List (Nat × PositionD)) (p0 amount : Nat) (Kin Kout Vin Vout : ℚ) (s s' : SwapSt) (nai : Nat) (nti : Int)
    (ok : CtxOK c) (hp : c.protoRate ≤ PROTOCOL_FEE_RATE_MUL_VALUE) (hGo : globOther c < TWO128)
    (P : Path c ps p0 s) (A : Aim c s nai nti) (sh : Shape c s s' nti) (P' : Path c ps p0 s')
    (hstep : swapStep c s nai nti (sp nti) (if c.aToB then max c.limit (sp nti) else min c.limit (sp nti)) = .ok s')
    (q : SolvLoop c ps amount Kin Kout Vin Vout s) : SolvLoop c ps amount Kin Kout Vin Vout s' := by
  obtain ⟨sc, hsc, hamt, hfs, hpf, hfg', hprice⟩ := swapStep_all c s s' nai nti _ _ hstep
  obtain ⟨wfS, hgeo⟩ := step_geom c ps p0 s nai nti ok P A sc hsc
  obtain ⟨d, delta, e1, e2, e3, e4⟩ := fees_split sc.feeAmount c.protoRate s.liq s.protoFee s.fgIn hp q.fg
  have hd : s'.fgIn = wadd s.fgIn d := by rw [hfg', e1]
  obtain ⟨wf', _⟩ := step_inside c ps p0 s s' nti d hGo P sh q.wf q.fg hd
  obtain ⟨hpin, hpout⟩ := step_pend c ps p0 s s' nti d hGo P sh q.wf q.fg hd
  have hq := two64_pos
  have hp0 : 0 < s.price := Nat.lt_of_lt_of_le min_price_pos wfS.cur_lo
  have hp1 : 0 < sc.nextPrice := by
    have := (TP_price_bounds _ _ P'.tp).1
    rw [hprice] at this
    exact Nat.lt_of_lt_of_le min_price_pos this
  -- the value move of both tokens
  have hcls : ∀ kp ∈ ps, kp.2.liq = 0 ∨
      ((kp.2.lower ≤ s.tick ∧ s.tick < kp.2.upper) ∧ sp kp.2.lower ≤ s.price ∧ s.price ≤ sp kp.2.upper ∧
        sp kp.2.lower ≤ sc.nextPrice ∧ sc.nextPrice ≤ sp kp.2.upper) ∨
      (¬ (kp.2.lower ≤ s.tick ∧ s.tick < kp.2.upper) ∧
        clampP s.price (sp kp.2.lower) (sp kp.2.upper) = clampP sc.nextPrice (sp kp.2.lower) (sp kp.2.upper)) := by
    by_cases hdir : c.aToB = true
    · rw [if_pos hdir] at hgeo
      exact classify_down c ps p0 s nai nti sc.nextPrice hdir P A hgeo.1 hgeo.2
    · have hdir' : c.aToB = false := Bool.eq_false_iff.mpr hdir
      rw [if_neg hdir] at hgeo
      exact classify_up c ps p0 s nai nti sc.nextPrice hdir' P A hgeo.1 hgeo.2
  have hliq : ((sumBy (inRangeLiq s.tick) ps : Int) : ℚ) = (s.liq : ℚ) := by rw [← P.liq]; push_cast; rfl
  have mvIn := sum_val_move c.aToB s.tick s.price sc.nextPrice ps hcls
  have mvOut := sum_val_move (!c.aToB) s.tick s.price sc.nextPrice ps hcls
  rw [hliq] at mvIn mvOut
  -- the amounts of the step
  have hdirOk : if c.aToB then sc.nextPrice ≤ s.price else s.price ≤ sc.nextPrice := by
    by_cases hdir : c.aToB = true
    · rw [if_pos hdir] at hgeo ⊢; exact hgeo.2
    · rw [if_neg hdir] at hgeo ⊢; exact hgeo.1
  obtain ⟨am1, am2⟩ := amounts_vs_move c.aToB s.liq s.price sc.nextPrice hp0 hp1 hdirOk
  have hin := C02.step_in_exact _ _ _ _ _ _ _ sc wfS hsc
  have hout := C02.step_out_exact _ _ _ _ _ _ _ sc wfS hsc
  have hout' : sc.amountOut ≤ C02.roundTok (!c.aToB) s.liq (C02.lo' s.price sc.nextPrice) (C02.hi' s.price sc.nextPrice) false := by
    rw [hout]; split
    · exact le_refl _
    · exact Nat.min_le_right _ _
  rw [← hin] at am1
  have am2' : (sc.amountOut : ℚ) ≤ -((s.liq : ℚ) * moveTerm (!c.aToB) s.price sc.nextPrice) :=
    le_trans (by exact_mod_cast hout') am2
  -- the fee of the step
  have hfee1 : (s'.protoFee : ℚ) ≤ (s.protoFee : ℚ) + (delta : ℚ) := by rw [hpf]; exact_mod_cast e2
  have hfee2 : (s.liq : ℚ) * (d : ℚ) / (TWO64 : ℚ) ≤ (sc.feeAmount : ℚ) - (delta : ℚ) := by
    rw [div_le_iff₀ hq]
    have := (Nat.cast_le (α := ℚ)).mpr e4
    rw [Nat.cast_mul, Nat.cast_mul, Nat.cast_sub e3] at this
    linarith
  -- amounts so far
  have hio : inSoFar c amount s' = inSoFar c amount s + (sc.amountIn : ℚ) + (sc.feeAmount : ℚ) ∧
      outSoFar c amount s' = outSoFar c amount s + (sc.amountOut : ℚ) := by
    unfold inSoFar outSoFar
    by_cases hi : c.isInput = true
    · rw [if_pos hi] at hamt
      simp only [hi, if_true]
      obtain ⟨a, b⟩ := hamt
      have a' : (s.remaining : ℚ) = (s'.remaining : ℚ) + (sc.amountIn : ℚ) + (sc.feeAmount : ℚ) := by exact_mod_cast a
      have b' : (s'.calculated : ℚ) = (s.calculated : ℚ) + (sc.amountOut : ℚ) := by exact_mod_cast b
      constructor <;> linarith
    · rw [if_neg hi] at hamt
      have hi' : c.isInput = false := Bool.eq_false_iff.mpr hi
      simp only [hi', Bool.false_eq_true, if_false]
      obtain ⟨a, b⟩ := hamt
      have a' : (s.remaining : ℚ) = (s'.remaining : ℚ) + (sc.amountOut : ℚ) := by exact_mod_cast a
      have b' : (s'.calculated : ℚ) = (s.calculated : ℚ) + (sc.amountIn : ℚ) + (sc.feeAmount : ℚ) := by exact_mod_cast b
      constructor <;> linarith
  have hrem : s'.remaining ≤ s.remaining := by
    by_cases hi : c.isInput = true
    · rw [if_pos hi] at hamt; omega
    · rw [if_neg hi] at hamt; omega
  have qi := q.inn
  have qo := q.out
  have qvi := q.vin
  have qvo := q.vout
  have hfee0 : (0 : ℚ) ≤ (sc.feeAmount : ℚ) := by positivity
  exact
    { wf := wf', fg := by rw [hd]; exact C07.wadd_lt _ _, rem := Nat.le_trans hrem q.rem,
      inn := by rw [hio.1, hprice]; linarith,
      out := by rw [hio.2, hprice]; linarith,
      vin := by rw [hio.1, hprice]; linarith,
      vout := by rw [hio.2, hprice]; linarith }

/-- the whole loop keeps it -/
theorem solv_loop (c : SwapCtx) (ps : List (Nat × PositionD)) (p0 amount : Nat) (Kin Kout Vin Vout : ℚ) (ok : CtxOK c)
    (hp : c.protoRate ≤ PROTOCOL_FEE_RATE_MUL_VALUE) (hGo : globOther c < TWO128)
    (fuel : Nat) (s s' : SwapSt) (P : Path c ps p0 s) (q : SolvLoop c ps amount Kin Kout Vin Vout s)
    (h : swapLoop c fuel s none = .ok s') : Path c ps p0 s' ∧ SolvLoop c ps amount Kin Kout Vin Vout s' :=
  loop_path_step c ps p0 ok (SolvLoop c ps amount Kin Kout Vin Vout)
    (fun a b nai nti Pa A sh Pb hst qa => solv_step c ps p0 amount Kin Kout Vin Vout a b nai nti ok hp hGo Pa A sh Pb hst qa)
    fuel s none s' P q (fun _ _ _ _ he => by cases he) h

end WP.Solv
