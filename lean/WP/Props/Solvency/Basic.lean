import WP.Props.PositionFees
import Mathlib.Tactic.Linarith
import Mathlib.Tactic.Ring
import Mathlib.Tactic.FieldSimp
import Mathlib.Tactic.Positivity
import Mathlib.Algebra.Order.Field.Basic
import Mathlib.Data.Rat.Cast.Order
import Mathlib.Data.Nat.Cast.Order.Field
/-
  C01 — solvency.  Definitions and the list / arithmetic layer.

  Every claim on a vault is measured EXACTLY, as a rational number:
    * `val tokA p q`   the tokens position `q` would get for all of its liquidity at sqrt-price `p`,
                       before rounding:   A: L·2^64·(1/p̄ − 1/p_u),   B: L·(p̄ − p_l)/2^64,   p̄ = p clamped
                       to the range [p_l, p_u] of the position;
    * `L·pend/2^64`    the fee the position would be credited if it were touched now (before rounding,
                       `pend` = fee growth inside − checkpoint, mod 2^128: the program's own quantity);
    * `owed`           the fee already credited.
  `claim` is their sum, `Solv` says the vault holds at least the protocol fee plus all claims.
  The program only ever pays FLOORS of these amounts and takes CEILINGS, so `Solv` (over exact
  claims) is stronger than solvency over the amounts actually payable.
-/
set_option linter.unusedSimpArgs false
set_option linter.unusedVariables false
namespace WP.Solv
open WP WP.Gen WP.C05 WP.Path WP.Reach WP.Growth

/-! ### rational sums over the position list -/

def sumQ (f : PositionD → ℚ) : List (Nat × PositionD) → ℚ
  | [] => 0
  | (_, p) :: r => f p + sumQ f r

theorem sumQ_congr (f g : PositionD → ℚ) : ∀ l : List (Nat × PositionD), (∀ kp ∈ l, f kp.2 = g kp.2) → sumQ f l = sumQ g l := by
  intro l
  induction l with
  | nil => intro _; rfl
  | cons hd tl ih =>
    obtain ⟨k, w⟩ := hd
    intro h
    simp only [sumQ]
    rw [ih (fun kp hk => h kp (List.mem_cons_of_mem _ hk))]
    have := h (k, w) List.mem_cons_self
    simp only [] at this
    rw [this]

theorem sumQ_le (f g : PositionD → ℚ) : ∀ l : List (Nat × PositionD), (∀ kp ∈ l, f kp.2 ≤ g kp.2) → sumQ f l ≤ sumQ g l := by
  intro l
  induction l with
  | nil => intro _; exact le_refl _
  | cons hd tl ih =>
    obtain ⟨k, w⟩ := hd
    intro h
    simp only [sumQ]
    have h1 := ih (fun kp hk => h kp (List.mem_cons_of_mem _ hk))
    have h2 := h (k, w) List.mem_cons_self
    simp only [] at h2
    linarith

theorem sumQ_nonneg (f : PositionD → ℚ) : ∀ l : List (Nat × PositionD), (∀ kp ∈ l, 0 ≤ f kp.2) → 0 ≤ sumQ f l := by
  intro l
  induction l with
  | nil => intro _; exact le_refl _
  | cons hd tl ih =>
    obtain ⟨k, w⟩ := hd
    intro h
    simp only [sumQ]
    have h1 := ih (fun kp hk => h kp (List.mem_cons_of_mem _ hk))
    have h2 := h (k, w) List.mem_cons_self
    simp only [] at h2
    linarith

theorem sumQ_add (f g : PositionD → ℚ) : ∀ l : List (Nat × PositionD), sumQ (fun p => f p + g p) l = sumQ f l + sumQ g l := by
  intro l
  induction l with
  | nil => simp [sumQ]
  | cons hd tl ih =>
    obtain ⟨k, w⟩ := hd
    simp only [sumQ]
    rw [ih]; ring

theorem sumQ_sub (f g : PositionD → ℚ) : ∀ l : List (Nat × PositionD), sumQ (fun p => f p - g p) l = sumQ f l - sumQ g l := by
  intro l
  induction l with
  | nil => simp [sumQ]
  | cons hd tl ih =>
    obtain ⟨k, w⟩ := hd
    simp only [sumQ]
    rw [ih]; ring

theorem sumQ_mul (f : PositionD → ℚ) (c : ℚ) : ∀ l : List (Nat × PositionD), sumQ (fun p => f p * c) l = sumQ f l * c := by
  intro l
  induction l with
  | nil => simp [sumQ]
  | cons hd tl ih =>
    obtain ⟨k, w⟩ := hd
    simp only [sumQ]
    rw [ih]; ring

theorem sumQ_cast (f : PositionD → Int) : ∀ l : List (Nat × PositionD), ((sumBy f l : Int) : ℚ) = sumQ (fun p => ((f p : Int) : ℚ)) l := by
  intro l
  induction l with
  | nil => simp [sumQ, sumBy]
  | cons hd tl ih =>
    obtain ⟨k, w⟩ := hd
    simp only [sumQ, sumBy]
    rw [← ih]; push_cast; ring

/-- a member is at most the whole, for non-negative summands -/
theorem sumQ_mem_le (f : PositionD → ℚ) : ∀ (l : List (Nat × PositionD)) (kp : Nat × PositionD), (∀ x ∈ l, 0 ≤ f x.2) → kp ∈ l →
    f kp.2 ≤ sumQ f l := by
  intro l
  induction l with
  | nil => intro kp _ h; cases h
  | cons hd tl ih =>
    obtain ⟨k, w⟩ := hd
    intro kp hnn hk
    simp only [sumQ]
    have h0 := hnn (k, w) List.mem_cons_self
    simp only [] at h0
    have hn := sumQ_nonneg f tl (fun x hx => hnn x (List.mem_cons_of_mem _ hx))
    rcases List.mem_cons.mp hk with h | h
    · rw [h]; simp only []; linarith
    · have := ih kp (fun x hx => hnn x (List.mem_cons_of_mem _ hx)) h
      linarith

/-- position ids are kept strictly increasing (`posSet` inserts in order, `posReplace` keeps ids) -/
def IdsOK (l : List (Nat × PositionD)) : Prop := l.Pairwise (fun a b => a.1 < b.1)

theorem posGet_of_mem (l : List (Nat × PositionD)) (ids : IdsOK l) (k : Nat) (q : PositionD) (h : (k, q) ∈ l) :
    posGet l k = some q := by
  induction l with
  | nil => cases h
  | cons hd tl ih =>
    obtain ⟨k0, w⟩ := hd
    unfold IdsOK at ids
    rw [List.pairwise_cons] at ids
    unfold posGet
    rcases List.mem_cons.mp h with e | e
    · cases e; rw [if_pos rfl]
    · have := ids.1 (k, q) e
      simp only [] at this
      rw [if_neg (by omega)]
      exact ih ids.2 e

theorem idsOK_replace (l : List (Nat × PositionD)) (id : Nat) (v : PositionD) (ids : IdsOK l) : IdsOK (posReplace l id v) := by
  induction l with
  | nil => exact ids
  | cons hd tl ih =>
    obtain ⟨k0, w⟩ := hd
    unfold IdsOK at ids ⊢
    rw [List.pairwise_cons] at ids
    unfold posReplace
    by_cases e : k0 = id
    · rw [if_pos e, List.pairwise_cons]
      exact ⟨fun b hb => by have := ids.1 b hb; simp only [] at this ⊢; omega, ids.2⟩
    · rw [if_neg e, List.pairwise_cons]
      refine ⟨?_, ih ids.2⟩
      intro b hb
      rcases Reach.mem_posReplace id v b tl hb with h1 | h1
      · exact ids.1 b h1
      · -- b is the replaced entry: its id is `id`, which was the id of some entry of tl
        have : ∃ x ∈ tl, x.1 = b.1 := by
          clear ih ids
          induction tl with
          | nil => simp [posReplace] at hb
          | cons h2 t2 ih2 =>
            obtain ⟨k2, w2⟩ := h2
            unfold posReplace at hb
            by_cases e2 : k2 = id
            · rw [if_pos e2] at hb
              rcases List.mem_cons.mp hb with h | h
              · exact ⟨(k2, w2), List.mem_cons_self, by rw [h]; exact e2⟩
              · exact ⟨b, List.mem_cons_of_mem _ h, rfl⟩
            · rw [if_neg e2] at hb
              rcases List.mem_cons.mp hb with h | h
              · exact ⟨(k2, w2), List.mem_cons_self, by rw [h]⟩
              · obtain ⟨x, hx, hx2⟩ := ih2 h
                exact ⟨x, List.mem_cons_of_mem _ hx, hx2⟩
        obtain ⟨x, hx, hx2⟩ := this
        have := ids.1 x hx
        simp only [] at this ⊢
        omega

theorem mem_posSet_id (l : List (Nat × PositionD)) (id : Nat) (v : PositionD) (b : Nat × PositionD) (hb : b ∈ posSet l id v) :
    b ∈ l ∨ b = (id, v) := by
  induction l with
  | nil => simp [posSet] at hb; right; exact hb
  | cons hd tl ih =>
    obtain ⟨k, w⟩ := hd
    unfold posSet at hb
    by_cases e : k = id
    · rw [if_pos e] at hb
      rcases List.mem_cons.mp hb with h | h
      · right; exact h
      · left; exact List.mem_cons_of_mem _ h
    · rw [if_neg e] at hb
      by_cases e2 : id < k
      · rw [if_pos e2] at hb
        rcases List.mem_cons.mp hb with h | h
        · right; exact h
        · left; exact h
      · rw [if_neg e2] at hb
        rcases List.mem_cons.mp hb with h | h
        · left; rw [h]; exact List.mem_cons_self
        · rcases ih h with h | h
          · left; exact List.mem_cons_of_mem _ h
          · right; exact h

theorem idsOK_insert (l : List (Nat × PositionD)) (id : Nat) (v : PositionD) (ids : IdsOK l) (hn : posGet l id = none) :
    IdsOK (posSet l id v) := by
  induction l with
  | nil => unfold posSet IdsOK; simp
  | cons hd tl ih =>
    obtain ⟨k0, w⟩ := hd
    unfold IdsOK at ids ⊢
    rw [List.pairwise_cons] at ids
    unfold posGet at hn
    by_cases e : k0 = id
    · rw [if_pos e] at hn; cases hn
    · rw [if_neg e] at hn
      unfold posSet
      rw [if_neg e]
      by_cases e2 : id < k0
      · rw [if_pos e2, List.pairwise_cons]
        refine ⟨?_, List.pairwise_cons.mpr ids⟩
        intro b hb
        rcases List.mem_cons.mp hb with h | h
        · rw [h]; exact e2
        · have := ids.1 b h; simp only [] at this ⊢; omega
      · rw [if_neg e2, List.pairwise_cons]
        refine ⟨?_, ih ids.2 hn⟩
        intro b hb
        rcases mem_posSet_id tl id v b hb with h | h
        · exact ids.1 b h
        · rw [h]; simp only []; omega

/-- replacing the entry `id`: the sum of a (possibly different) function over the new list, when the
    two functions agree on every OTHER entry -/
theorem sumQ_replace (f g : PositionD → ℚ) : ∀ (l : List (Nat × PositionD)) (id : Nat) (old new : PositionD),
    IdsOK l → posGet l id = some old → (∀ kp ∈ l, kp.1 ≠ id → g kp.2 = f kp.2) →
    sumQ g (posReplace l id new) = sumQ f l - f old + g new := by
  intro l
  induction l with
  | nil => intro id old new _ h; simp [posGet] at h
  | cons hd tl ih =>
    intro id old new ids h hc
    obtain ⟨k, w⟩ := hd
    unfold IdsOK at ids
    rw [List.pairwise_cons] at ids
    simp only [posGet] at h
    simp only [posReplace]
    by_cases e : k = id
    · simp only [e, if_true] at h ⊢
      cases h
      simp only [sumQ]
      have : sumQ g tl = sumQ f tl := by
        apply sumQ_congr
        intro kp hk
        apply hc kp (List.mem_cons_of_mem _ hk)
        have := ids.1 kp hk
        simp only [] at this
        omega
      rw [this]; ring
    · simp only [e, if_false] at h ⊢
      simp only [sumQ]
      rw [ih id old new ids.2 h (fun kp hk => hc kp (List.mem_cons_of_mem _ hk))]
      have := hc (k, w) List.mem_cons_self e
      simp only [] at this
      rw [this]; ring

theorem sumQ_insert (f : PositionD → ℚ) : ∀ (l : List (Nat × PositionD)) (id : Nat) (v : PositionD),
    posGet l id = none → sumQ f (posSet l id v) = sumQ f l + f v := by
  intro l
  induction l with
  | nil => intro id v _; simp [posSet, sumQ]
  | cons hd tl ih =>
    intro id v h
    obtain ⟨k, w⟩ := hd
    simp only [posGet] at h
    simp only [posSet]
    by_cases e : k = id
    · simp [e] at h
    · simp only [e, if_false] at h ⊢
      by_cases e2 : id < k
      · simp only [e2, if_true, sumQ]; ring
      · simp only [e2, if_false, sumQ]
        rw [ih id v h]; ring

/-! ### the exact value of a position's liquidity -/

/-- the price clamped to a position's range -/
def clampP (p lo hi : Nat) : Nat := max lo (min p hi)

/-- value per unit of liquidity of the range [pl, pu] at price p, token A resp. B -/
def unitVal (tokA : Bool) (p pl pu : Nat) : ℚ :=
  if tokA then (TWO64 : ℚ) / (clampP p pl pu : ℚ) - (TWO64 : ℚ) / (pu : ℚ)
  else ((clampP p pl pu : ℚ) - (pl : ℚ)) / (TWO64 : ℚ)

/-- exact token value of all of a position's liquidity at sqrt-price `p` -/
def val (tokA : Bool) (p : Nat) (q : PositionD) : ℚ := (q.liq : ℚ) * unitVal tokA p (sp q.lower) (sp q.upper)

theorem two64_pos : (0 : ℚ) < (TWO64 : ℚ) := by
  have : (0 : Nat) < TWO64 := by decide
  exact_mod_cast this

theorem clamp_bounds (p lo hi : Nat) (h : lo ≤ hi) : lo ≤ clampP p lo hi ∧ clampP p lo hi ≤ hi := by
  unfold clampP; omega

theorem unitVal_nonneg (tokA : Bool) (p pl pu : Nat) (h0 : 0 < pl) (h : pl ≤ pu) : 0 ≤ unitVal tokA p pl pu := by
  obtain ⟨c1, c2⟩ := clamp_bounds p pl pu h
  unfold unitVal
  cases tokA
  · simp only [Bool.false_eq_true, if_false]
    apply div_nonneg _ (le_of_lt two64_pos)
    have : (pl : ℚ) ≤ (clampP p pl pu : ℚ) := by exact_mod_cast c1
    linarith
  · simp only [if_true]
    have hc : (0 : ℚ) < (clampP p pl pu : ℚ) := by exact_mod_cast (show 0 < clampP p pl pu by omega)
    have hle : (clampP p pl pu : ℚ) ≤ (pu : ℚ) := by exact_mod_cast c2
    have := div_le_div_of_nonneg_left (le_of_lt two64_pos) hc hle
    linarith

theorem val_nonneg (tokA : Bool) (p : Nat) (q : PositionD) (h0 : 0 < sp q.lower) (h : sp q.lower ≤ sp q.upper) : 0 ≤ val tokA p q := by
  unfold val
  exact mul_nonneg (by positivity) (unitVal_nonneg tokA p _ _ h0 h)

/-- the value moves by (liquidity) × (price move term) while the price stays inside the closed range -/
def moveTerm (tokA : Bool) (p p' : Nat) : ℚ :=
  if tokA then (TWO64 : ℚ) / (p' : ℚ) - (TWO64 : ℚ) / (p : ℚ) else ((p' : ℚ) - (p : ℚ)) / (TWO64 : ℚ)

theorem unitVal_move_in (tokA : Bool) (p p' pl pu : Nat) (h1 : pl ≤ p) (h2 : p ≤ pu) (h3 : pl ≤ p') (h4 : p' ≤ pu) :
    unitVal tokA p' pl pu - unitVal tokA p pl pu = moveTerm tokA p p' := by
  have c1 : clampP p pl pu = p := by unfold clampP; omega
  have c2 : clampP p' pl pu = p' := by unfold clampP; omega
  unfold unitVal moveTerm
  rw [c1, c2]
  cases tokA
  · simp only [Bool.false_eq_true, if_false]; ring
  · simp only [if_true]; ring

theorem unitVal_move_out (tokA : Bool) (p p' pl pu : Nat) (h : clampP p pl pu = clampP p' pl pu) :
    unitVal tokA p' pl pu - unitVal tokA p pl pu = 0 := by
  unfold unitVal
  rw [h]; ring

/-- **the value of all positions moves by (in-range liquidity) × (move term)** when every position
    holding liquidity is either in range with the whole move inside its closed price range, or out of
    range with the move entirely on one side -/
theorem sum_val_move (tokA : Bool) (t : Int) (p p' : Nat) : ∀ ps : List (Nat × PositionD),
    (∀ kp ∈ ps, kp.2.liq = 0 ∨
      ((kp.2.lower ≤ t ∧ t < kp.2.upper) ∧ sp kp.2.lower ≤ p ∧ p ≤ sp kp.2.upper ∧ sp kp.2.lower ≤ p' ∧ p' ≤ sp kp.2.upper) ∨
      (¬ (kp.2.lower ≤ t ∧ t < kp.2.upper) ∧ clampP p (sp kp.2.lower) (sp kp.2.upper) = clampP p' (sp kp.2.lower) (sp kp.2.upper))) →
    sumQ (val tokA p') ps - sumQ (val tokA p) ps = ((sumBy (inRangeLiq t) ps : Int) : ℚ) * moveTerm tokA p p' := by
  intro ps
  induction ps with
  | nil => intro _; simp [sumQ, sumBy]
  | cons hd tl ih =>
    obtain ⟨k, q⟩ := hd
    intro h
    have ih' := ih (fun kp hk => h kp (List.mem_cons_of_mem _ hk))
    have hq := h (k, q) List.mem_cons_self
    simp only [] at hq
    simp only [sumQ, sumBy]
    push_cast
    have key : val tokA p' q - val tokA p q = ((inRangeLiq t q : Int) : ℚ) * moveTerm tokA p p' := by
      unfold val
      rcases hq with h0 | ⟨hr, a, b, c, d⟩ | ⟨hr, hc⟩
      · rw [h0]
        have : inRangeLiq t q = 0 := by unfold inRangeLiq; rw [h0]; split <;> rfl
        rw [this]; simp
      · have : inRangeLiq t q = (q.liq : Int) := by unfold inRangeLiq; rw [if_pos hr]
        rw [this, ← mul_sub, unitVal_move_in tokA p p' _ _ a b c d]
        push_cast; ring
      · have : inRangeLiq t q = 0 := by unfold inRangeLiq; rw [if_neg hr]
        rw [this, ← mul_sub, unitVal_move_out tokA p p' _ _ hc]; simp
    linarith

/-! ### exact amounts vs rounded amounts -/

theorem cdiv_cast_ge (n d : Nat) (hd : 0 < d) : (n : ℚ) / (d : ℚ) ≤ ((cdiv n d : Nat) : ℚ) := by
  have h := (cdiv_le_iff (n := n) (d := d) (k := cdiv n d) hd).mp (le_refl _)
  have hd' : (0 : ℚ) < (d : ℚ) := by exact_mod_cast hd
  rw [div_le_iff₀ hd']
  exact_mod_cast h

theorem div_cast_le (n d : Nat) : (((n / d : Nat) : Nat) : ℚ) ≤ (n : ℚ) / (d : ℚ) := Nat.cast_div_le

end WP.Solv
