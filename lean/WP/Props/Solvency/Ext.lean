import WP.Props.Solvency.Final
import WP.Props.C18
/-
  C01 / C18 — re-ranging and repositioning keep the solvency invariant.

  The history machine `HistOp` has no operation that changes a position's range.  The program has two:
  `reset_position_range` (position fully empty) and `reposition_liquidity_v2` (withdraw all liquidity,
  re-range keeping owed amounts, deposit new liquidity).  Both are modelled here on top of the history
  machine and shown to keep `SolvInv`, so every history interleaving the `HistOp` operations with
  re-rangings and repositionings stays solvent:

     histReset  s id lo hi            = re-range (`resetPositionRange … keepOwed := true`) a position without liquidity
     histRepo   s id lo hi newLiq     = modify (−all) ; histReset ; modify (+newLiq)      (all or nothing)
-/
set_option linter.unusedSimpArgs false
set_option linter.unusedVariables false
namespace WP.Solv
open WP WP.Gen WP.C05 WP.C10 WP.Path WP.Reach WP.Growth

variable {ts0 : Nat}

/-- re-range position `id` (it must hold no liquidity; owed fees and rewards are kept) -/
def histReset (s : HistState) (id : Nat) (lo hi : Int) : R HistState :=
  match posGet s.positions id with
  | none => .error .NoSuchPosition
  | some pos =>
    match resetPositionRange s.pool.ts pos lo hi true with
    | .error e => .error e
    | .ok p' => .ok { s with positions := posReplace s.positions id p' }

theorem empty_liq (p : PositionD) (h : isPositionEmpty p true = true) : p.liq = 0 := by
  unfold isPositionEmpty at h
  simpa using h

theorem contrib_zero (q : PositionD) (h : q.liq = 0) (t : Int) :
    inRangeLiq t q = 0 ∧ netContrib t q = 0 ∧ grossContrib t q = 0 := by
  unfold inRangeLiq netContrib grossContrib
  rw [h]
  refine ⟨by split <;> rfl, ?_, ?_⟩ <;> (split <;> split <;> simp)

/-- **re-ranging an empty position keeps every invariant** -/
theorem reset_keeps (s s' : HistState) (id : Nat) (lo hi : Int) (I : SolvInv ts0 s)
    (h : histReset s id lo hi = .ok s') : SolvInv ts0 s' := by
  unfold histReset at h
  split at h
  · cases h
  · rename_i pos hpos
    split at h
    · cases h
    · rename_i p' hp'
      cases h
      obtain ⟨hemp, _, hval, el, eu, ecA, ecB, _, eliq, eoA, eoB⟩ := C18.reset_spec _ _ _ _ _ _ hp'
      have hl0 : pos.liq = 0 := empty_liq pos hemp
      have hl1 : p'.liq = 0 := by rw [eliq]; exact hl0
      obtain ⟨u1, u2, hlt, _⟩ := (C18.validate_range_spec s.pool.ts lo hi).mp hval
      have hsum : ∀ f : PositionD → Int, f p' = 0 → f pos = 0 →
          sumBy f (posReplace s.positions id p') = sumBy f s.positions := by
        intro f a b
        rw [C05.sumBy_replace f s.positions id pos p' hpos, a, b]; omega
      have inv' : Inv { s with positions := posReplace s.positions id p' } :=
        { liq := by
            show (s.pool.liq : Int) = sumBy (inRangeLiq s.pool.tick) (posReplace s.positions id p')
            rw [hsum _ (contrib_zero p' hl1 _).1 (contrib_zero pos hl0 _).1]; exact I.inv.liq,
          net := fun i => by
            show (s.ticks.get i).net = sumBy (netContrib i) (posReplace s.positions id p')
            rw [hsum _ (contrib_zero p' hl1 _).2.1 (contrib_zero pos hl0 _).2.1]; exact I.inv.net i,
          gross := fun i => by
            show ((s.ticks.get i).gross : Int) = sumBy (grossContrib i) (posReplace s.positions id p')
            rw [hsum _ (contrib_zero p' hl1 _).2.2 (contrib_zero pos hl0 _).2.2]; exact I.inv.gross i,
          init := I.inv.init,
          ordered := by
            intro j q hq
            show q.lower < q.upper
            have := C05.posGet_replace s.positions id p' j pos hpos
            rw [this] at hq
            by_cases e : j = id
            · rw [if_pos e] at hq; cases hq; rw [el, eu]; exact hlt
            · rw [if_neg e] at hq; exact I.inv.ordered j q hq }
      have hu1 : MIN_TICK_INDEX ≤ lo ∧ lo % (s.pool.ts : Int) = 0 := by
        unfold isUsableTick at u1
        simp only [Bool.and_eq_true, decide_eq_true_eq] at u1
        exact ⟨u1.1.1, u1.2⟩
      have hu2 : hi ≤ MAX_TICK_INDEX ∧ hi % (s.pool.ts : Int) = 0 := by
        unfold isUsableTick at u2
        simp only [Bool.and_eq_true, decide_eq_true_eq] at u2
        exact ⟨u2.1.2, u2.2⟩
      have geo' : Geo ts0 { s with positions := posReplace s.positions id p' } :=
        { spacing := I.geo.spacing, tp := I.geo.tp,
          pos := by
            intro kp hk
            rcases Reach.mem_posReplace id p' kp s.positions hk with h1 | h1
            · exact I.geo.pos kp h1
            · show PosOK s.pool.ts kp.2.lower kp.2.upper
              rw [h1, el, eu]
              exact ⟨hlt, hu1.2, hu2.2, hu1.1, hu2.1⟩,
          ts := I.geo.ts, liqU := I.geo.liqU, fee := I.geo.fee, af := I.geo.af }
      have solv : ∀ tokA, Solv tokA s → Solv tokA { s with positions := posReplace s.positions id p' } := by
        intro tokA sv
        unfold Solv claims pfOf vaultOf glob at sv ⊢
        simp only []
        have e0 : owedQ tokA p' = owedQ tokA pos := by unfold owedQ; rw [eoA, eoB]
        have e1 : pendQ tokA s.ticks s.pool.tick (if tokA then s.pool.fgA else s.pool.fgB) p' =
            pendQ tokA s.ticks s.pool.tick (if tokA then s.pool.fgA else s.pool.fgB) pos := by
          rw [pendQ_zero_liq _ _ _ _ _ hl1, pendQ_zero_liq _ _ _ _ _ hl0]
        have e2 : val tokA s.pool.price p' = val tokA s.pool.price pos := by
          rw [val_zero_liq _ _ _ hl1, val_zero_liq _ _ _ hl0]
        rw [sumQ_replace_same _ _ id pos p' I.ids hpos e0, sumQ_replace_same _ _ id pos p' I.ids hpos e1,
          sumQ_replace_same _ _ id pos p' I.ids hpos e2]
        exact sv
      exact { inv := inv', geo := geo', wf := ⟨I.wf.ticks, I.wf.fgA, I.wf.fgB⟩, ids := idsOK_replace _ _ _ I.ids,
              proto := I.proto, solvA := solv true I.solvA, solvB := solv false I.solvB }

/-- one successful `HistOp` keeps every invariant (the step form of `apply_keeps_solv`) -/
theorem step_keeps (s s' : HistState) (op : HistOp) (outs : List Nat) (I : SolvInv ts0 s) (hop : OpOK ts0 op)
    (hnr : ∀ i e t, op ≠ .reward i e t) (h : histStep s op = .ok (s', outs)) : SolvInv ts0 s' := by
  have := apply_keeps_solv s op I hop
  rw [apply_ok s s' op outs hnr h] at this
  exact this

/-- `reposition_liquidity_v2` on the history machine: withdraw all (skipped for a position without
    liquidity, as the program does), re-range, deposit `newLiq`; any failing part fails the whole -/
def histRepo (s : HistState) (id : Nat) (lo hi : Int) (newLiq : Nat) : R HistState :=
  match posGet s.positions id with
  | none => .error .NoSuchPosition
  | some pos =>
    let dec : R HistState :=
      if pos.liq = 0 then .ok s
      else match histStep s (.modify id pos.liq false) with
        | .error e => .error e
        | .ok r => .ok r.1
    match dec with
    | .error e => .error e
    | .ok s1 =>
      match histReset s1 id lo hi with
      | .error e => .error e
      | .ok s2 =>
        match histStep s2 (.modify id newLiq true) with
        | .error e => .error e
        | .ok r => .ok r.1

/-- **repositioning keeps every invariant**: both vaults stay solvent, the liquidity bookkeeping stays
    exact, tick index and price stay consistent -/
theorem repo_keeps (s s' : HistState) (id : Nat) (lo hi : Int) (newLiq : Nat) (I : SolvInv ts0 s)
    (h : histRepo s id lo hi newLiq = .ok s') : SolvInv ts0 s' := by
  unfold histRepo at h
  split at h
  · cases h
  · rename_i pos hpos
    simp only [] at h
    have hmod : ∀ a b, OpOK ts0 (HistOp.modify id a b) := fun _ _ => trivial
    have hnr : ∀ a b i e t, HistOp.modify id a b ≠ .reward i e t := by intro _ _ _ _ _ hh; cases hh
    -- after the withdrawal
    have I1 : ∀ s1, (if pos.liq = 0 then (.ok s : R HistState)
        else match histStep s (.modify id pos.liq false) with | .error e => .error e | .ok r => .ok r.1) = .ok s1 → SolvInv ts0 s1 := by
      intro s1 hd
      by_cases hz : pos.liq = 0
      · rw [if_pos hz] at hd; cases hd; exact I
      · rw [if_neg hz] at hd
        split at hd
        · cases hd
        · rename_i r hr
          cases hd
          obtain ⟨sx, outs⟩ := r
          exact step_keeps s sx _ outs I (hmod _ _) (hnr _ _) hr
    split at h
    · cases h
    · rename_i s1 hd
      have i1 := I1 s1 hd
      split at h
      · cases h
      · rename_i s2 hr
        have i2 := reset_keeps s1 s2 id lo hi i1 hr
        split at h
        · cases h
        · rename_i r hm
          cases h
          obtain ⟨sx, outs⟩ := r
          exact step_keeps s2 sx _ outs i2 (hmod _ _) (hnr _ _) hm

/-- the operations of the extended machine -/
inductive ExtOp where
  | base (op : HistOp)
  | reset (id : Nat) (lo hi : Int)
  | repo (id : Nat) (lo hi : Int) (newLiq : Nat)

def extApply (s : HistState) : ExtOp → HistState
  | .base op => histApply s op
  | .reset id lo hi => match histReset s id lo hi with | .ok s' => s' | .error _ => s
  | .repo id lo hi l => match histRepo s id lo hi l with | .ok s' => s' | .error _ => s

def ExtOK (ts : Nat) : ExtOp → Prop
  | .base op => OpOK ts op
  | _ => True

/-- **C01 for histories that also re-range and reposition** -/
theorem reach_solvent_ext (ops : List ExtOp) : ∀ (s : HistState), SolvInv ts0 s → (∀ op ∈ ops, ExtOK ts0 op) →
    SolvInv ts0 (ops.foldl extApply s) := by
  induction ops with
  | nil => intro s I _; exact I
  | cons op rest ih =>
    intro s I hops
    have hop := hops op List.mem_cons_self
    have I1 : SolvInv ts0 (extApply s op) := by
      cases op with
      | base o => exact apply_keeps_solv s o I hop
      | reset id lo hi =>
        cases h : histReset s id lo hi with
        | error e => simp only [extApply, h]; exact I
        | ok s' => simp only [extApply, h]; exact reset_keeps s s' id lo hi I h
      | repo id lo hi l =>
        cases h : histRepo s id lo hi l with
        | error e => simp only [extApply, h]; exact I
        | ok s' => simp only [extApply, h]; exact repo_keeps s s' id lo hi l I h
    exact ih _ I1 (fun o ho => hops o (List.mem_cons_of_mem _ ho))

end WP.Solv
