import WP.Props.Solvency.Swap
import WP.Props.C08
/-
  C01 — solvency: the operations other than the swap.

    open position          adds a claim of 0
    increase liquidity     vault += ⌈value of ΔL⌉ ≥ value of ΔL; pending fees of the position → owed (floor)
    decrease liquidity     vault −= ⌊value of ΔL⌋ ≤ value of ΔL;           "
    update fees            pending fees of the position → owed (floor)
    collect fees           vault −= owed, owed := 0
    collect protocol fees  vault −= protocol fees owed, := 0
    clock, rewards         do not touch the token vaults or any claim on them
  Other positions' claims do not move: their fee growth inside is untouched by a liquidity change of
  another position (`frame_modify`), even when ticks are initialized or removed.
-/
set_option linter.unusedSimpArgs false
set_option linter.unusedVariables false
namespace WP.Solv
open WP WP.Gen WP.C05 WP.C10 WP.Path WP.Reach WP.Growth

/-! ### liquidity token deltas against the exact value -/

theorem unitVal_below (tokA : Bool) (p pl pu : Nat) (h : p ≤ pl) (hlu : pl ≤ pu) :
    unitVal tokA p pl pu = if tokA then (TWO64 : ℚ) / (pl : ℚ) - (TWO64 : ℚ) / (pu : ℚ) else 0 := by
  unfold unitVal
  rw [clamp_low p pl pu h hlu]
  cases tokA <;> simp

theorem unitVal_above (tokA : Bool) (p pl pu : Nat) (h : pu ≤ p) (hlu : pl ≤ pu) :
    unitVal tokA p pl pu = if tokA then 0 else ((pu : ℚ) - (pl : ℚ)) / (TWO64 : ℚ) := by
  unfold unitVal
  rw [clamp_high p pl pu h hlu]
  cases tokA <;> simp

theorem unitVal_mid (tokA : Bool) (p pl pu : Nat) (h1 : pl ≤ p) (h2 : p ≤ pu) :
    unitVal tokA p pl pu = if tokA then (TWO64 : ℚ) / (p : ℚ) - (TWO64 : ℚ) / (pu : ℚ) else ((p : ℚ) - (pl : ℚ)) / (TWO64 : ℚ) := by
  unfold unitVal
  have : clampP p pl pu = p := by unfold clampP; omega
  rw [this]

/-- deposits cost at least, withdrawals return at most, the exact value of the liquidity moved -/
theorem deltas_vs_val (tick : Int) (price : Nat) (lower upper : Int) (delta : Int) (da db : Nat)
    (tp : TP tick price) (hlu : lower < upper) (hl : MIN_TICK_INDEX ≤ lower) (hu : upper ≤ MAX_TICK_INDEX)
    (h : calculateLiquidityTokenDeltas tick price lower upper delta = .ok (da, db)) :
    if delta > 0 then
      (delta.natAbs : ℚ) * unitVal true price (sp lower) (sp upper) ≤ (da : ℚ) ∧
      (delta.natAbs : ℚ) * unitVal false price (sp lower) (sp upper) ≤ (db : ℚ)
    else
      (da : ℚ) ≤ (delta.natAbs : ℚ) * unitVal true price (sp lower) (sp upper) ∧
      (db : ℚ) ≤ (delta.natAbs : ℚ) * unitVal false price (sp lower) (sp upper) := by
  have hpb := TP_price_bounds _ _ tp
  have hlb := sp_in_bounds lower hl (by omega)
  have hub := sp_in_bounds upper (by omega) hu
  have hl0 : 0 < sp lower := Nat.lt_of_lt_of_le min_price_pos hlb.1
  have hu0 : 0 < sp upper := Nat.lt_of_lt_of_le min_price_pos hub.1
  have hp0 : 0 < price := Nat.lt_of_lt_of_le min_price_pos hpb.1
  have hspl : sp lower ≤ sp upper := C09.sp_le _ _ hl (by omega) hu
  have hs := C08.deltas_spec tick price lower upper delta da db hl0 hu0 hp0 h
  simp only [] at hs
  obtain ⟨hd0, hs⟩ := hs
  have a1 := C02.lo_hi_of_le hspl
  by_cases c1 : tick < lower
  · rw [if_pos c1] at hs
    have hp : price ≤ sp lower := by
      rcases tp with ⟨a, b, _, d, e⟩ | ⟨a, b⟩
      · have h1 := d (by omega)
        have h2 := C09.sp_le (tick + 1) lower (by omega) (by omega) (by omega)
        exact Nat.le_trans h1 h2
      · rw [b]; exact C09.sp_le _ _ (Int.le_refl _) hl (by omega)
    rw [unitVal_below true _ _ _ hp hspl, unitVal_below false _ _ _ hp hspl]
    rw [a1.1, a1.2] at hs
    simp only [if_true, Bool.false_eq_true, if_false, mul_zero]
    obtain ⟨ea, eb⟩ := hs
    rw [ea, eb]
    unfold C08.costA
    by_cases hd : delta > 0
    · rw [if_pos hd, decide_eq_true hd]
      exact ⟨roundA_up_ge _ _ _ hl0 hspl, by simp⟩
    · rw [if_neg hd, decide_eq_false hd]
      exact ⟨roundA_down_le _ _ _ hl0 hspl, by simp⟩
  · rw [if_neg c1] at hs
    by_cases c2 : tick < upper
    · rw [if_pos c2] at hs
      have hp1 : sp lower ≤ price := by
        rcases tp with ⟨a, b, c', _, _⟩ | ⟨a, b⟩
        · exact Nat.le_trans (C09.sp_le lower tick hl (by omega) b) c'
        · omega
      have hp2 : price ≤ sp upper := by
        rcases tp with ⟨a, b, _, d, e⟩ | ⟨a, b⟩
        · have h1 := d (by omega)
          have h2 := C09.sp_le (tick + 1) upper (by omega) (by omega) hu
          exact Nat.le_trans h1 h2
        · omega
      have a2 := C02.lo_hi_of_le hp2
      have a3 := C02.lo_hi_of_le hp1
      rw [unitVal_mid true _ _ _ hp1 hp2, unitVal_mid false _ _ _ hp1 hp2]
      rw [a2.1, a2.2, a3.1, a3.2] at hs
      simp only [if_true, Bool.false_eq_true, if_false]
      obtain ⟨ea, eb⟩ := hs
      rw [ea, eb]
      unfold C08.costA C08.costB
      by_cases hd : delta > 0
      · rw [if_pos hd, decide_eq_true hd]
        exact ⟨roundA_up_ge _ _ _ hp0 hp2, roundB_up_ge _ _ _ hp1⟩
      · rw [if_neg hd, decide_eq_false hd]
        exact ⟨roundA_down_le _ _ _ hp0 hp2, roundB_down_le _ _ _ hp1⟩
    · rw [if_neg c2] at hs
      have hp : sp upper ≤ price := by
        rcases tp with ⟨a, b, c', _, _⟩ | ⟨a, b⟩
        · exact Nat.le_trans (C09.sp_le upper tick (by omega) (by omega) b) c'
        · omega
      rw [unitVal_above true _ _ _ hp hspl, unitVal_above false _ _ _ hp hspl]
      rw [a1.1, a1.2] at hs
      simp only [if_true, Bool.false_eq_true, if_false, mul_zero]
      obtain ⟨ea, eb⟩ := hs
      rw [ea, eb]
      unfold C08.costB
      by_cases hd : delta > 0
      · rw [if_pos hd, decide_eq_true hd]
        exact ⟨by simp, roundB_up_ge _ _ _ hspl⟩
      · rw [if_neg hd, decide_eq_false hd]
        exact ⟨by simp, roundB_down_le _ _ _ hspl⟩

/-! ### the growth inside a position's own range, read before and after its ticks are updated -/

/-- `growthInside` with possibly uninitialized bounds equals the initialized-bound formula on the
    values the new-tick convention would store -/
theorem growthInside_conv (cur : Int) (lo up : TickData) (loIdx upIdx : Int) (loOut upOut glob : Nat) (hg : glob < TWO128) :
    growthInside cur lo loIdx loOut up upIdx upOut glob =
      C07.insideInit cur loIdx (if lo.initialized then loOut else if cur ≥ loIdx then glob else 0)
        upIdx (if up.initialized then upOut else if cur ≥ upIdx then glob else 0) glob := by
  unfold growthInside C07.insideInit
  have h2 := C07.two128
  cases hl : lo.initialized <;> cases hu : up.initialized <;> simp only [Bool.not_true, Bool.not_false, Bool.false_eq_true, if_true, if_false]
  · by_cases a : cur < loIdx <;> by_cases b : cur < upIdx
    · simp only [a, b, if_true, show ¬ (cur ≥ loIdx) by omega, show ¬ (cur ≥ upIdx) by omega, if_false]
      unfold wsub; rw [h2] at *; omega
    · simp only [a, b, if_true, if_false, show ¬ (cur ≥ loIdx) by omega, show cur ≥ upIdx by omega]
      unfold wsub; rw [h2] at *; omega
    · simp only [a, b, if_true, if_false, show cur ≥ loIdx by omega, show ¬ (cur ≥ upIdx) by omega]
    · simp only [a, b, if_true, if_false, show cur ≥ loIdx by omega, show cur ≥ upIdx by omega]
      unfold wsub; rw [h2] at *; omega
  · by_cases a : cur < loIdx
    · simp only [a, if_true, show ¬ (cur ≥ loIdx) by omega, if_false]
      unfold wsub; rw [h2] at *; omega
    · simp only [a, if_false, show cur ≥ loIdx by omega, if_true]
  · by_cases b : cur < upIdx
    · simp only [b, if_true, show ¬ (cur ≥ upIdx) by omega, if_false]
    · simp only [b, if_false, show cur ≥ upIdx by omega, if_true]
      unfold wsub; rw [h2] at *; omega

/-- the fee-growth-outside values of a tick after a liquidity change that leaves it with liquidity -/
theorem tickModify_fgo (t t' : TickData) (tickIndex cur : Int) (fgA fgB : Nat) (rw : List RewardInfo) (delta : Int) (isUpper : Bool)
    (hinit : t.initialized = decide (t.gross > 0)) (h1 : t'.gross ≠ 0)
    (h : nextTickModifyLiquidityUpdate t tickIndex cur fgA fgB rw delta isUpper = .ok t') :
    t'.fgoA = (if t.initialized then t.fgoA else if cur ≥ tickIndex then fgA else 0) ∧
    t'.fgoB = (if t.initialized then t.fgoB else if cur ≥ tickIndex then fgB else 0) := by
  by_cases h0 : t.gross = 0
  · have hi : t.initialized = false := by rw [hinit, h0]; rfl
    rw [hi]
    simp only [Bool.false_eq_true, if_false]
    unfold nextTickModifyLiquidityUpdate at h
    split at h
    · cases h; exact absurd h0 h1
    · split at h
      · cases h
      · split at h
        · cases h; exact absurd rfl h1
        · split at h
          rename_i oa ob orw heq
          first | rw [if_pos h0] at heq | skip
          by_cases hc : cur ≥ tickIndex
          · rw [if_pos hc] at heq
            cases heq
            split at h
            · cases h
            · cases h; simp [hc]
          · rw [if_neg hc] at heq
            cases heq
            split at h
            · cases h
            · cases h; simp [hc]
  · have hi : t.initialized = true := by rw [hinit]; exact decide_eq_true (by omega)
    rw [hi]
    simp only [if_true]
    exact tickModify_keeps t t' tickIndex cur fgA fgB rw delta isUpper h0 h1 h

/-! ### the pieces of a liquidity change and of a fee update -/

structure ModParts (s s' : HistState) (id : Nat) (delta : Int) (pos : PositionD) (u : ModifyUpdate) : Prop where
  hpos : posGet s.positions id = some pos
  hu : calculateModifyLiquidity s.pool pos (s.ticks.get pos.lower) (s.ticks.get pos.upper) delta s.now = .ok u
  tick : s'.pool.tick = s.pool.tick
  price : s'.pool.price = s.pool.price
  fgA : s'.pool.fgA = s.pool.fgA
  fgB : s'.pool.fgB = s.pool.fgB
  pfA : s'.pool.pfA = s.pool.pfA
  pfB : s'.pool.pfB = s.pool.pfB
  proto : s'.pool.protoRate = s.pool.protoRate
  positions : s'.positions = posReplace s.positions id u.position

theorem modify_parts (s s' : HistState) (id amount : Nat) (positive : Bool) (outs : List Nat)
    (h : histStep s (.modify id amount positive) = .ok (s', outs)) :
    ∃ pos u da db, ModParts s s' id (if positive then (amount : Int) else -(amount : Int)) pos u ∧ amount ≠ 0 ∧
      s'.ticks = (s.ticks.set pos.lower u.tickLower).set pos.upper u.tickUpper ∧
      calculateLiquidityTokenDeltas s.pool.tick s.pool.price pos.lower pos.upper (if positive then (amount : Int) else -(amount : Int)) = .ok (da, db) ∧
      (if positive then s'.vaultA = s.vaultA + da ∧ s'.vaultB = s.vaultB + db
       else da ≤ s.vaultA ∧ db ≤ s.vaultB ∧ s'.vaultA = s.vaultA - da ∧ s'.vaultB = s.vaultB - db) := by
  unfold histStep at h
  simp only [] at h
  split at h
  · cases h
  · rename_i hamt
    split at h
    · cases h
    · split at h
      · cases h
      · rename_i pos hpos
        split at h
        · cases h
        · rename_i u hu
          split at h
          · cases h
          · rename_i da db hd
            by_cases hp : positive = true
            · rw [if_pos hp] at h
              simp only [Except.ok.injEq, Prod.mk.injEq] at h
              obtain ⟨h1, _⟩ := h
              subst h1
              refine ⟨pos, u, da, db, ⟨hpos, hu, rfl, rfl, rfl, rfl, rfl, rfl, rfl, rfl⟩, hamt, rfl, hd, ?_⟩
              rw [if_pos hp]; exact ⟨rfl, rfl⟩
            · rw [if_neg hp] at h
              split at h
              · cases h
              · rename_i hv
                simp only [Except.ok.injEq, Prod.mk.injEq] at h
                obtain ⟨h1, _⟩ := h
                subst h1
                refine ⟨pos, u, da, db, ⟨hpos, hu, rfl, rfl, rfl, rfl, rfl, rfl, rfl, rfl⟩, hamt, rfl, hd, ?_⟩
                rw [if_neg hp]
                simp only [Bool.or_eq_true, decide_eq_true_eq, not_or, not_lt] at hv
                exact ⟨hv.1, hv.2, rfl, rfl⟩

theorem upd_parts (s s' : HistState) (id : Nat) (outs : List Nat)
    (h : histStep s (.upd id) = .ok (s', outs)) :
    ∃ pos u, ModParts s s' id 0 pos u ∧ s'.ticks = s.ticks ∧ s'.vaultA = s.vaultA ∧ s'.vaultB = s.vaultB := by
  unfold histStep at h
  simp only [] at h
  split at h
  · cases h
  · rename_i pos hpos
    split at h
    · cases h
    · rename_i u hu
      simp only [Except.ok.injEq, Prod.mk.injEq] at h
      obtain ⟨h1, _⟩ := h
      subst h1
      exact ⟨pos, u, ⟨hpos, hu, rfl, rfl, rfl, rfl, rfl, rfl, rfl, rfl⟩, rfl, rfl, rfl⟩

/-- what `calculateModifyLiquidity` returns, piece by piece -/
theorem calcModify_parts (p : PoolD) (pos : PositionD) (tl tu : TickData) (delta : Int) (now : Nat) (u : ModifyUpdate)
    (h : calculateModifyLiquidity p pos tl tu delta now = .ok u) :
    ∃ rewards, nextTickModifyLiquidityUpdate tl pos.lower p.tick p.fgA p.fgB rewards delta false = .ok u.tickLower ∧
      nextTickModifyLiquidityUpdate tu pos.upper p.tick p.fgA p.fgB rewards delta true = .ok u.tickUpper ∧
      addLiquidityDelta pos.liq delta = .ok u.position.liq ∧
      u.position.lower = pos.lower ∧ u.position.upper = pos.upper ∧
      u.position.cpA = (nextFeeGrowthsInside p.tick tl pos.lower tu pos.upper p.fgA p.fgB).1 ∧
      u.position.cpB = (nextFeeGrowthsInside p.tick tl pos.lower tu pos.upper p.fgA p.fgB).2 ∧
      u.position.owedA = wadd64 pos.owedA (mulShiftOr0 pos.liq (wsub (nextFeeGrowthsInside p.tick tl pos.lower tu pos.upper p.fgA p.fgB).1 pos.cpA)) ∧
      u.position.owedB = wadd64 pos.owedB (mulShiftOr0 pos.liq (wsub (nextFeeGrowthsInside p.tick tl pos.lower tu pos.upper p.fgA p.fgB).2 pos.cpB)) := by
  unfold calculateModifyLiquidity at h
  split at h
  · cases h
  · split at h
    · cases h
    · rename_i rewards _
      split at h
      · cases h
      · split at h
        · cases h
        · rename_i tlu htl
          split at h
          · cases h
          · rename_i tuu htu
            simp only [] at h
            split at h
            · cases h
            · rename_i pu hpu
              cases h
              refine ⟨rewards, htl, htu, ?_⟩
              unfold nextPositionUpdate at hpu
              simp only [] at hpu
              split at hpu
              · cases hpu
              · rename_i liq hl
                cases hpu
                exact ⟨hl, rfl, rfl, rfl, rfl, rfl, rfl⟩


/-! ### the touched position: pending fees become owed fees (rounded down), the checkpoint catches up -/

theorem wsub_self (a : Nat) (h : a < TWO128) : wsub a a = 0 := by
  unfold wsub
  have := C07.two128
  rw [Nat.mod_eq_of_lt h]
  have : a + TWO128 - a = TWO128 := by omega
  rw [this, Nat.mod_self]

theorem inside_lt (tokA : Bool) (ticks : TickMap) (cur lo hi : Int) (glob : Nat) : inside tokA ticks cur lo hi glob < TWO128 := by
  unfold inside C07.insideInit
  exact C07.wsub_lt _ _

theorem mem_replace_other (l : List (Nat × PositionD)) (id : Nat) (v : PositionD) (k : Nat) (q : PositionD)
    (h : (k, q) ∈ l) (hk : k ≠ id) : (k, q) ∈ posReplace l id v := by
  induction l with
  | nil => cases h
  | cons hd tl ih =>
    obtain ⟨k0, w⟩ := hd
    unfold posReplace
    by_cases e : k0 = id
    · rw [if_pos e]
      rcases List.mem_cons.mp h with h1 | h1
      · cases h1; exact absurd e hk
      · exact List.mem_cons_of_mem _ h1
    · rw [if_neg e]
      rcases List.mem_cons.mp h with h1 | h1
      · rw [h1]; exact List.mem_cons_self
      · exact List.mem_cons_of_mem _ (ih h1)

theorem fi_tok (tokA : Bool) (cur : Int) (tl : TickData) (lo : Int) (tu : TickData) (hi : Int) (fgA fgB : Nat) :
    (if tokA then (nextFeeGrowthsInside cur tl lo tu hi fgA fgB).1 else (nextFeeGrowthsInside cur tl lo tu hi fgA fgB).2) =
      growthInside cur tl lo (fo tokA tl) tu hi (fo tokA tu) (if tokA then fgA else fgB) := by
  unfold nextFeeGrowthsInside fo
  cases tokA <;> simp

/-- the position touched by a liquidity change / fee update: what it is owed afterwards plus what is
    pending afterwards is at most what it was owed plus what was pending (the credit is a floor, the
    u64 owed counter and the u128 product only ever lose), and the pending part afterwards is zero -/
theorem self_claim {ts0 : Nat} (tokA : Bool) (s s' : HistState) (id : Nat) (delta : Int) (pos : PositionD) (u : ModifyUpdate)
    (inv : Inv s) (g : Geo ts0 s) (w : Wf s) (inv' : Inv s') (mp : ModParts s s' id delta pos u)
    (hget : ∀ t, s'.ticks.get t = ((s.ticks.set pos.lower u.tickLower).set pos.upper u.tickUpper).get t) :
    owedQ tokA u.position + pendQ tokA s'.ticks s'.pool.tick (glob tokA s') u.position ≤
      owedQ tokA pos + pendQ tokA s.ticks s.pool.tick (glob tokA s) pos ∧
    addLiquidityDelta pos.liq delta = .ok u.position.liq ∧ u.position.lower = pos.lower ∧ u.position.upper = pos.upper := by
  obtain ⟨rewards, htl, htu, hliq, el, eu, ecA, ecB, eoA, eoB⟩ := calcModify_parts _ _ _ _ _ _ _ mp.hu
  refine ⟨?_, hliq, el, eu⟩
  have hq := two64_pos
  have hmem := posGet_mem id pos s.positions mp.hpos
  have hlu : pos.lower < pos.upper := (g.pos (id, pos) hmem).1
  have tf := tickFacts_of s inv g
  have hglob : glob tokA s' = glob tokA s := by unfold glob; rw [mp.fgA, mp.fgB]
  have hgl : glob tokA s < TWO128 := by unfold glob; split; exact w.fgA; exact w.fgB
  have hgeq : glob tokA s = (if tokA then s.pool.fgA else s.pool.fgB) := rfl
  -- the value the program calls "fee growth inside" for this token
  have hfi := fi_tok tokA s.pool.tick (s.ticks.get pos.lower) pos.lower (s.ticks.get pos.upper) pos.upper s.pool.fgA s.pool.fgB
  rw [← hgeq] at hfi
  have hcp : cp tokA u.position = growthInside s.pool.tick (s.ticks.get pos.lower) pos.lower (fo tokA (s.ticks.get pos.lower))
      (s.ticks.get pos.upper) pos.upper (fo tokA (s.ticks.get pos.upper)) (glob tokA s) := by
    rw [← hfi]; unfold cp; cases tokA
    · simp only [Bool.false_eq_true, if_false]; exact ecB
    · simp only [if_true]; exact ecA
  have howed : owedQ tokA u.position ≤ owedQ tokA pos + ((mulShiftOr0 pos.liq (wsub (cp tokA u.position) (cp tokA pos)) : Nat) : ℚ) := by
    have hm : ∀ a b : Nat, ((wadd64 a b : Nat) : ℚ) ≤ (a : ℚ) + (b : ℚ) := by
      intro a b
      have : wadd64 a b ≤ a + b := by unfold wadd64; exact Nat.mod_le _ _
      exact_mod_cast this
    unfold owedQ cp
    cases tokA
    · simp only [Bool.false_eq_true, if_false]; rw [eoB, ecB]; exact hm _ _
    · simp only [if_true]; rw [eoA, ecA]; exact hm _ _
  -- (1) the credit is at most the pending amount
  have h1 : ((mulShiftOr0 pos.liq (wsub (cp tokA u.position) (cp tokA pos)) : Nat) : ℚ) ≤ pendQ tokA s.ticks s.pool.tick (glob tokA s) pos := by
    obtain ⟨c1, c2⟩ := C07.credit_le pos.liq (wsub (cp tokA u.position) (cp tokA pos))
    by_cases hl : pos.liq = 0
    · rw [c2 hl]; unfold pendQ; rw [hl]; simp
    · obtain ⟨bl, bh, _⟩ := bound_of_pos id pos (by omega) hlu s.positions mp.hpos
      obtain ⟨il, _⟩ := bound_init s.ticks s.positions s.pool.ts tf pos.lower bl
      obtain ⟨ih, _⟩ := bound_init s.ticks s.positions s.pool.ts tf pos.upper bh
      unfold initAt at il ih
      have e : cp tokA u.position = inside tokA s.ticks s.pool.tick pos.lower pos.upper (glob tokA s) := by
        rw [hcp, C07.growthInside_init _ _ _ _ _ _ _ _ il ih]; rfl
      unfold pendQ pendAt
      rw [← e, le_div_iff₀ hq]
      have := (Nat.cast_le (α := ℚ)).mpr c1
      rw [Nat.cast_mul, Nat.cast_mul] at this
      exact this
  -- (2) nothing is pending afterwards
  have h2 : pendQ tokA s'.ticks s'.pool.tick (glob tokA s') u.position = 0 := by
    by_cases hl : u.position.liq = 0
    · unfold pendQ; rw [hl]; simp
    · have hpos' : posGet s'.positions id = some u.position := by
        rw [mp.positions, C05.posGet_replace _ _ _ _ _ mp.hpos, if_pos rfl]
      have hlu' : u.position.lower < u.position.upper := by rw [el, eu]; exact hlu
      obtain ⟨bl, bh, _⟩ := bound_of_pos id u.position (by omega) hlu' s'.positions hpos'
      rw [el] at bl; rw [eu] at bh
      have gl := inv'.gross pos.lower
      have gh := inv'.gross pos.upper
      unfold Bound at bl bh
      have e1 : s'.ticks.get pos.lower = u.tickLower := by
        rw [hget, C05.tick_get_set, if_neg (by omega), C05.tick_get_set, if_pos rfl]
      have e2 : s'.ticks.get pos.upper = u.tickUpper := by
        rw [hget, C05.tick_get_set, if_pos rfl]
      rw [e1] at gl; rw [e2] at gh
      obtain ⟨f1, f2⟩ := tickModify_fgo _ _ _ _ _ _ _ _ _ (inv.init pos.lower) (by omega) htl
      obtain ⟨f3, f4⟩ := tickModify_fgo _ _ _ _ _ _ _ _ _ (inv.init pos.upper) (by omega) htu
      have e : inside tokA s'.ticks s'.pool.tick u.position.lower u.position.upper (glob tokA s') = cp tokA u.position := by
        rw [hcp, growthInside_conv _ _ _ _ _ _ _ _ hgl, hglob, mp.tick, el, eu]
        unfold inside
        rw [e1, e2]
        unfold fo glob
        cases tokA
        · simp only [Bool.false_eq_true, if_false]; rw [f2, f4]
        · simp only [if_true]; rw [f1, f3]
      unfold pendQ pendAt
      rw [e, wsub_self _ (by rw [← e]; exact inside_lt _ _ _ _ _ _)]
      simp
  linarith

theorem addLiq_eq (l l' : Nat) (d : Int) (h : addLiquidityDelta l d = .ok l') : (l' : Int) = l + d := by
  unfold addLiquidityDelta at h
  by_cases h0 : d = 0
  · rw [if_pos h0] at h; cases h; omega
  · rw [if_neg h0] at h
    by_cases hp : d > 0
    · rw [if_pos hp] at h
      split at h
      · cases h; omega
      · cases h
    · rw [if_neg hp] at h
      split at h
      · cases h; omega
      · cases h

/-- the exact value is linear in the liquidity -/
theorem val_add_liq (tokA : Bool) (p : Nat) (q q' : PositionD) (delta : Int) (h : addLiquidityDelta q.liq delta = .ok q'.liq)
    (el : q'.lower = q.lower) (eu : q'.upper = q.upper) :
    val tokA p q' = val tokA p q + (delta : ℚ) * unitVal tokA p (sp q.lower) (sp q.upper) := by
  have e := addLiq_eq _ _ _ h
  unfold val
  rw [el, eu]
  have : ((q'.liq : Nat) : ℚ) = ((q.liq : Nat) : ℚ) + (delta : ℚ) := by
    have h2 : (((q'.liq : Nat) : Int) : ℚ) = (((q.liq : Nat) : Int) + delta : Int) := by rw [e]
    push_cast at h2
    exact h2
  rw [this]; ring

/-! ### liquidity changes and fee updates -/

/-- the claims after touching position `id` with liquidity change `delta` (0 for a fee update) -/
theorem solv_modcore {ts0 : Nat} (tokA : Bool) (s s' : HistState) (id : Nat) (delta : Int) (pos : PositionD) (u : ModifyUpdate)
    (inv : Inv s) (g : Geo ts0 s) (w : Wf s) (ids : IdsOK s.positions) (inv' : Inv s') (mp : ModParts s s' id delta pos u)
    (hget : ∀ t, s'.ticks.get t = ((s.ticks.set pos.lower u.tickLower).set pos.upper u.tickUpper).get t)
    (hothers : ∀ kp ∈ s.positions, kp.1 ≠ id →
      pendQ tokA s'.ticks s'.pool.tick (glob tokA s') kp.2 = pendQ tokA s.ticks s.pool.tick (glob tokA s) kp.2) :
    claims tokA s' ≤ claims tokA s + (delta : ℚ) * unitVal tokA s.pool.price (sp pos.lower) (sp pos.upper) := by
  obtain ⟨hself, hliq, el, eu⟩ := self_claim tokA s s' id delta pos u inv g w inv' mp hget
  have S_owed : sumQ (owedQ tokA) s'.positions = sumQ (owedQ tokA) s.positions - owedQ tokA pos + owedQ tokA u.position := by
    rw [mp.positions]; exact sumQ_replace _ _ _ id pos u.position ids mp.hpos (fun _ _ _ => rfl)
  have S_val : sumQ (val tokA s'.pool.price) s'.positions =
      sumQ (val tokA s.pool.price) s.positions - val tokA s.pool.price pos + val tokA s.pool.price u.position := by
    rw [mp.positions, mp.price]; exact sumQ_replace _ _ _ id pos u.position ids mp.hpos (fun _ _ _ => rfl)
  have S_pend : sumQ (pendQ tokA s'.ticks s'.pool.tick (glob tokA s')) s'.positions =
      sumQ (pendQ tokA s.ticks s.pool.tick (glob tokA s)) s.positions - pendQ tokA s.ticks s.pool.tick (glob tokA s) pos +
        pendQ tokA s'.ticks s'.pool.tick (glob tokA s') u.position := by
    rw [mp.positions]; exact sumQ_replace _ _ _ id pos u.position ids mp.hpos hothers
  have hv := val_add_liq tokA s.pool.price pos u.position delta hliq el eu
  have hpf : pfOf tokA s' = pfOf tokA s := by unfold pfOf; rw [mp.pfA, mp.pfB]
  unfold claims
  rw [S_owed, S_val, S_pend, hpf, hv]
  linarith

theorem solv_modify {ts0 : Nat} (tokA : Bool) (s s' : HistState) (id amount : Nat) (positive : Bool) (outs : List Nat)
    (inv : Inv s) (g : Geo ts0 s) (w : Wf s) (ids : IdsOK s.positions) (inv' : Inv s')
    (h : histStep s (.modify id amount positive) = .ok (s', outs)) (sv : Solv tokA s) : Solv tokA s' := by
  obtain ⟨pos, u, da, db, mp, hamt, hticks, hd, hvault⟩ := modify_parts s s' id amount positive outs h
  obtain ⟨ft, fa, fb, fins⟩ := frame_modify s s' id amount positive outs inv inv' h
  have hglob : glob tokA s' = glob tokA s := by unfold glob; rw [mp.fgA, mp.fgB]
  have hothers : ∀ kp ∈ s.positions, kp.1 ≠ id →
      pendQ tokA s'.ticks s'.pool.tick (glob tokA s') kp.2 = pendQ tokA s.ticks s.pool.tick (glob tokA s) kp.2 := by
    intro kp hk hne
    obtain ⟨k, q⟩ := kp
    simp only [] at hne ⊢
    by_cases hl : q.liq = 0
    · unfold pendQ; rw [hl]; simp
    · obtain ⟨b1, b2⟩ := bound_of_mem k q (by omega) s.positions hk
      have hk' : (k, q) ∈ s'.positions := by rw [mp.positions]; exact mem_replace_other _ _ _ _ _ hk hne
      obtain ⟨b3, b4⟩ := bound_of_mem k q (by omega) s'.positions hk'
      unfold pendQ pendAt
      rw [hglob, mp.tick, fins tokA q.lower q.upper (glob tokA s) b1 b2 b3 b4]
  have core := solv_modcore tokA s s' id _ pos u inv g w ids inv' mp (by intro t; rw [hticks]) hothers
  have hmem := posGet_mem id pos s.positions mp.hpos
  obtain ⟨p1, _, _, p4, p5⟩ := g.pos (id, pos) hmem
  simp only [] at p1 p4 p5
  have dv := deltas_vs_val s.pool.tick s.pool.price pos.lower pos.upper _ da db g.tp p1 p4 p5 hd
  unfold Solv at sv ⊢
  by_cases hp : positive = true
  · rw [if_pos hp] at hvault
    simp only [hp, if_true] at dv core
    have hpos : (amount : Int) > 0 := by omega
    rw [if_pos hpos] at dv
    have hna : (((amount : Int).natAbs : Nat) : ℚ) = (amount : ℚ) := by simp
    rw [hna] at dv
    have hc : (((amount : Nat) : Int) : ℚ) = (amount : ℚ) := by push_cast; rfl
    rw [hc] at core
    unfold vaultOf at sv ⊢
    cases tokA
    · simp only [Bool.false_eq_true, if_false] at sv ⊢
      rw [hvault.2]; push_cast; linarith [dv.2]
    · simp only [if_true] at sv ⊢
      rw [hvault.1]; push_cast; linarith [dv.1]
  · rw [if_neg hp] at hvault
    have hp' : positive = false := Bool.eq_false_iff.mpr hp
    rw [hp'] at dv core
    simp only [Bool.false_eq_true, if_false] at dv core
    have hneg : ¬ (-(amount : Int) > 0) := by omega
    rw [if_neg hneg] at dv
    have hna : (((-(amount : Int)).natAbs : Nat) : ℚ) = (amount : ℚ) := by simp
    rw [hna] at dv
    have hc : ((-((amount : Nat) : Int) : Int) : ℚ) = -(amount : ℚ) := by push_cast; rfl
    rw [hc] at core
    unfold vaultOf at sv ⊢
    obtain ⟨va, vb, ea, eb⟩ := hvault
    cases tokA
    · simp only [Bool.false_eq_true, if_false] at sv ⊢
      rw [eb, Nat.cast_sub vb]; linarith [dv.2]
    · simp only [if_true] at sv ⊢
      rw [ea, Nat.cast_sub va]; linarith [dv.1]

theorem solv_upd {ts0 : Nat} (tokA : Bool) (s s' : HistState) (id : Nat) (outs : List Nat)
    (inv : Inv s) (g : Geo ts0 s) (w : Wf s) (ids : IdsOK s.positions) (inv' : Inv s')
    (h : histStep s (.upd id) = .ok (s', outs)) (sv : Solv tokA s) : Solv tokA s' := by
  obtain ⟨pos, u, mp, hticks, va, vb⟩ := upd_parts s s' id outs h
  obtain ⟨rewards, htl, htu, _⟩ := calcModify_parts _ _ _ _ _ _ _ mp.hu
  have e1 : u.tickLower = s.ticks.get pos.lower := by
    unfold nextTickModifyLiquidityUpdate at htl; rw [if_pos rfl] at htl; injection htl with hh; exact hh.symm
  have e2 : u.tickUpper = s.ticks.get pos.upper := by
    unfold nextTickModifyLiquidityUpdate at htu; rw [if_pos rfl] at htu; injection htu with hh; exact hh.symm
  have hget : ∀ t, s'.ticks.get t = ((s.ticks.set pos.lower u.tickLower).set pos.upper u.tickUpper).get t := by
    intro t
    rw [hticks, C05.tick_get_set, C05.tick_get_set, e1, e2]
    by_cases a : t = pos.upper
    · rw [if_pos a, a]
    · rw [if_neg a]
      by_cases b : t = pos.lower
      · rw [if_pos b, b]
      · rw [if_neg b]
  have hglob : glob tokA s' = glob tokA s := by unfold glob; rw [mp.fgA, mp.fgB]
  have core := solv_modcore tokA s s' id 0 pos u inv g w ids inv' mp hget
    (fun kp _ _ => by rw [hticks, mp.tick, hglob])
  unfold Solv at sv ⊢
  have hv : vaultOf tokA s' = vaultOf tokA s := by unfold vaultOf; rw [va, vb]
  rw [hv]
  have : ((0 : Int) : ℚ) = 0 := by norm_num
  rw [this, zero_mul, add_zero] at core
  linarith

/-! ### the remaining operations -/

theorem pendQ_zero_liq (tokA : Bool) (ticks : TickMap) (tick : Int) (glob : Nat) (q : PositionD) (h : q.liq = 0) :
    pendQ tokA ticks tick glob q = 0 := by unfold pendQ; rw [h]; simp

theorem val_zero_liq (tokA : Bool) (p : Nat) (q : PositionD) (h : q.liq = 0) : val tokA p q = 0 := by unfold val; rw [h]; simp

theorem sumQ_replace_same (f : PositionD → ℚ) (l : List (Nat × PositionD)) (id : Nat) (old new : PositionD)
    (ids : IdsOK l) (hpos : posGet l id = some old) (h : f new = f old) : sumQ f (posReplace l id new) = sumQ f l := by
  rw [sumQ_replace f f l id old new ids hpos (fun _ _ _ => rfl), h]; ring

theorem solv_open (tokA : Bool) (s s' : HistState) (id : Nat) (lo hi : Int) (outs : List Nat)
    (h : histStep s (.openPos id lo hi) = .ok (s', outs)) (sv : Solv tokA s) : Solv tokA s' := by
  unfold histStep at h
  simp only [] at h
  split at h
  · cases h
  · split at h
    · cases h
    · split at h
      · cases h
      · rename_i hnone
        simp only [Except.ok.injEq, Prod.mk.injEq] at h
        obtain ⟨h1, _⟩ := h
        subst h1
        have hn : posGet s.positions id = none := by
          cases hh : posGet s.positions id with
          | none => rfl
          | some v => rw [hh] at hnone; simp at hnone
        unfold Solv claims pfOf vaultOf glob at sv ⊢
        simp only []
        rw [sumQ_insert _ _ _ _ hn, sumQ_insert _ _ _ _ hn, sumQ_insert _ _ _ _ hn]
        rw [pendQ_zero_liq _ _ _ _ _ rfl, val_zero_liq _ _ _ rfl]
        have : owedQ tokA ({ lower := lo, upper := hi } : PositionD) = 0 := by unfold owedQ; split <;> simp
        rw [this]
        linarith

theorem solv_cfees (tokA : Bool) (s s' : HistState) (id : Nat) (outs : List Nat) (ids : IdsOK s.positions)
    (h : histStep s (.cfees id) = .ok (s', outs)) (sv : Solv tokA s) : Solv tokA s' := by
  unfold histStep at h
  simp only [] at h
  split at h
  · cases h
  · rename_i pos hpos
    split at h
    · cases h
    · rename_i hv
      simp only [Bool.or_eq_true, decide_eq_true_eq, not_or, not_lt] at hv
      simp only [Except.ok.injEq, Prod.mk.injEq] at h
      obtain ⟨h1, _⟩ := h
      subst h1
      unfold Solv claims pfOf vaultOf glob at sv ⊢
      simp only []
      rw [sumQ_replace _ _ _ id pos _ ids hpos (fun _ _ _ => rfl), sumQ_replace _ _ _ id pos _ ids hpos (fun _ _ _ => rfl),
        sumQ_replace _ _ _ id pos _ ids hpos (fun _ _ _ => rfl)]
      have e1 : pendQ tokA s.ticks s.pool.tick (if tokA then s.pool.fgA else s.pool.fgB) { pos with owedA := 0, owedB := 0 } =
          pendQ tokA s.ticks s.pool.tick (if tokA then s.pool.fgA else s.pool.fgB) pos := by
        unfold pendQ pendAt cp; rfl
      have e2 : val tokA s.pool.price { pos with owedA := 0, owedB := 0 } = val tokA s.pool.price pos := by unfold val; rfl
      rw [e1, e2]
      cases tokA
      · simp only [Bool.false_eq_true, if_false] at sv ⊢
        have : owedQ false { pos with owedA := 0, owedB := 0 } = 0 := by unfold owedQ; simp
        rw [this, Nat.cast_sub hv.2]
        have : owedQ false pos = (pos.owedB : ℚ) := by unfold owedQ; simp
        linarith
      · simp only [if_true] at sv ⊢
        have : owedQ true { pos with owedA := 0, owedB := 0 } = 0 := by unfold owedQ; simp
        rw [this, Nat.cast_sub hv.1]
        have : owedQ true pos = (pos.owedA : ℚ) := by unfold owedQ; simp
        linarith

theorem solv_cproto (tokA : Bool) (s s' : HistState) (outs : List Nat)
    (h : histStep s .cproto = .ok (s', outs)) (sv : Solv tokA s) : Solv tokA s' := by
  unfold histStep at h
  simp only [] at h
  split at h
  · cases h
  · rename_i hv
    simp only [Bool.or_eq_true, decide_eq_true_eq, not_or, not_lt] at hv
    simp only [Except.ok.injEq, Prod.mk.injEq] at h
    obtain ⟨h1, _⟩ := h
    subst h1
    unfold Solv claims pfOf vaultOf glob at sv ⊢
    simp only []
    cases tokA
    · simp only [Bool.false_eq_true, if_false] at sv ⊢
      rw [Nat.cast_sub hv.2]; push_cast; linarith
    · simp only [if_true] at sv ⊢
      rw [Nat.cast_sub hv.1]; push_cast; linarith

theorem solv_clock (tokA : Bool) (s s' : HistState) (now : Nat) (outs : List Nat)
    (h : histStep s (.clock now) = .ok (s', outs)) (sv : Solv tokA s) : Solv tokA s' := by
  unfold histStep at h
  simp only [Except.ok.injEq, Prod.mk.injEq] at h
  obtain ⟨h1, _⟩ := h
  subst h1
  exact sv

theorem solv_crew (tokA : Bool) (s s' : HistState) (id i : Nat) (outs : List Nat) (ids : IdsOK s.positions)
    (h : histStep s (.crew id i) = .ok (s', outs)) (sv : Solv tokA s) : Solv tokA s' := by
  unfold histStep at h
  simp only [] at h
  split at h
  · cases h
  · split at h
    · cases h
    · rename_i pos hpos
      simp only [Except.ok.injEq, Prod.mk.injEq] at h
      obtain ⟨h1, _⟩ := h
      subst h1
      unfold Solv claims pfOf vaultOf glob at sv ⊢
      simp only []
      rw [sumQ_replace_same _ _ id pos _ ids hpos (by rfl), sumQ_replace_same _ _ id pos _ ids hpos (by rfl),
        sumQ_replace_same _ _ id pos _ ids hpos (by rfl)]
      exact sv

/-- reward configuration touches neither the token vaults nor anything a claim on them reads -/
theorem reward_fields (s : HistState) (i e t : Nat) :
    (histReward s i e t).1.pool.pfA = s.pool.pfA ∧ (histReward s i e t).1.pool.pfB = s.pool.pfB ∧
    (histReward s i e t).1.vaultA = s.vaultA ∧ (histReward s i e t).1.vaultB = s.vaultB ∧
    (histReward s i e t).1.pool.protoRate = s.pool.protoRate := by
  unfold histReward
  simp only []
  split
  · exact ⟨rfl, rfl, rfl, rfl, rfl⟩
  · split
    · exact ⟨rfl, rfl, rfl, rfl, rfl⟩
    · rename_i s1 hs1
      have h1 : s1.pool.pfA = s.pool.pfA ∧ s1.pool.pfB = s.pool.pfB ∧ s1.vaultA = s.vaultA ∧ s1.vaultB = s.vaultB ∧
          s1.pool.protoRate = s.pool.protoRate := by
        split at hs1
        · cases hs1; exact ⟨rfl, rfl, rfl, rfl, rfl⟩
        · split at hs1
          · cases hs1; exact ⟨rfl, rfl, rfl, rfl, rfl⟩
          · cases hs1
      split
      · exact h1
      · split
        · exact h1
        · split
          · exact h1
          · exact h1

theorem solv_reward (tokA : Bool) (s : HistState) (i e t : Nat) (sv : Solv tokA s) : Solv tokA (histReward s i e t).1 := by
  obtain ⟨_, b, c, _, _, f, p, _⟩ := reward_same s i e t
  obtain ⟨fa, fb⟩ := reward_fg s i e t
  obtain ⟨r1, r2, r3, r4, _⟩ := reward_fields s i e t
  unfold Solv claims pfOf vaultOf glob at sv ⊢
  rw [p, f, b, c, fa, fb, r1, r2, r3, r4]
  exact sv

end WP.Solv
