import WP.Props.PositionFees
import WP.Props.C11
set_option linter.unusedSimpArgs false
set_option linter.unusedVariables false
namespace WP.Reach
open WP WP.Gen WP.C05 WP.C10 WP.Path WP.Growth

variable {ts0 : Nat}

def rcp (i : Nat) (p : PositionD) : Nat := (p.rewards.getD i {}).checkpoint
def rglob (i : Nat) (s : HistState) : Nat := (s.pool.rewards.getD i {}).growth
def remis (i : Nat) (s : HistState) : Nat := (s.pool.rewards.getD i {}).emissions
def rinit (i : Nat) (s : HistState) : Bool := (s.pool.rewards.getD i {}).initialized

theorem getD_map_default {α β : Type} (f : α → β) (l : List α) (i : Nat) (a : α) (b : β) (h : f a = b) :
    (l.map f).getD i b = f (l.getD i a) := by
  simp only [List.getD_eq_getElem?_getD, List.getElem?_map]
  cases l[i]? with
  | none => simp [h]
  | some v => simp

theorem getD_map_reward (f : RewardInfo → RewardInfo) (l : List RewardInfo) (i : Nat) (h : f {} = {}) :
    (l.map f).getD i {} = f (l.getD i {}) := getD_map_default f l i {} {} h

/-- what a settlement (`next_whirlpool_reward_infos`) does to reward `i` -/
theorem settle_growth (p : PoolD) (now : Nat) (R : List RewardInfo) (i : Nat) (h : nextRewardInfos p now = .ok R) :
    (R.getD i {}).initialized = (p.rewards.getD i {}).initialized ∧
    (R.getD i {}).emissions = (p.rewards.getD i {}).emissions ∧
    p.rewardTs ≤ now ∧
    ((R.getD i {}).growth = (p.rewards.getD i {}).growth ∨
     ((R.getD i {}).growth = wadd (p.rewards.getD i {}).growth
        (C11.accrual (now - p.rewardTs) (p.rewards.getD i {}).emissions p.liq) ∧ p.liq ≠ 0)) := by
  by_cases c1 : now < p.rewardTs
  · rw [C11.timestamp_guard p now c1] at h; cases h
  · by_cases c2 : p.liq = 0 ∨ now = p.rewardTs
    · rw [C11.no_accrual p now c1 c2] at h
      cases h
      exact ⟨rfl, rfl, by omega, Or.inl rfl⟩
    · have hl : p.liq ≠ 0 := fun e => c2 (Or.inl e)
      have ht : now ≠ p.rewardTs := fun e => c2 (Or.inr e)
      rw [C11.accrual_spec p now c1 hl ht] at h
      cases h
      rw [getD_map_reward _ p.rewards i (by rfl)]
      cases hi : (p.rewards.getD i {}).initialized with
      | false => simp only [hi, Bool.false_eq_true, if_false]; exact ⟨trivial, trivial, by omega, Or.inl trivial⟩
      | true => simp only [hi, if_true]; exact ⟨trivial, trivial, by omega, Or.inr ⟨trivial, hl⟩⟩

theorem getD_set_ne (l : List RewardInfo) (i j : Nat) (v : RewardInfo) (h : i ≠ j) : (l.set j v).getD i {} = l.getD i {} := by
  simp only [List.getD_eq_getElem?_getD]
  rw [List.getElem?_set_ne (by omega)]

theorem getD_set_emis (l : List RewardInfo) (i j e : Nat) :
    ((l.set j { (l.getD j {}) with emissions := e }).getD i {}).growth = (l.getD i {}).growth ∧
    ((l.set j { (l.getD j {}) with emissions := e }).getD i {}).initialized = (l.getD i {}).initialized := by
  by_cases h : i = j
  · subst h
    simp only [List.getD_eq_getElem?_getD]
    by_cases hl : i < l.length
    · rw [List.getElem?_set_self hl]; simp
    · rw [List.getElem?_eq_none (by simp; omega), List.getElem?_eq_none (by omega)]; simp
  · rw [getD_set_ne l i j _ h]; exact ⟨rfl, rfl⟩


/-- what `initialize_reward` + funding + `set_reward_emissions` (with its partial commits) does to the
    global growth of an ALREADY initialized reward `i`: nothing, or one settlement -/
theorem reward_r (s : HistState) (j e t i : Nat) (hinit : rinit i s = true) :
    rinit i (histReward s j e t).1 = true ∧
    (rglob i (histReward s j e t).1 = rglob i s ∨
      (rglob i (histReward s j e t).1 = wadd (rglob i s) (C11.accrual (s.now - s.pool.rewardTs) (remis i s) s.pool.liq) ∧
        s.pool.liq ≠ 0 ∧ s.pool.rewardTs ≤ s.now)) := by
  unfold histReward
  simp only []
  split
  · exact ⟨hinit, Or.inl rfl⟩
  · split
    · exact ⟨hinit, Or.inl rfl⟩
    · rename_i s1 hs1
      have h1 : rinit i s1 = true ∧ rglob i s1 = rglob i s ∧ remis i s1 = remis i s ∧ s1.now = s.now ∧
          s1.pool.rewardTs = s.pool.rewardTs ∧ s1.pool.liq = s.pool.liq := by
        split at hs1
        · cases hs1; exact ⟨hinit, rfl, rfl, rfl, rfl, rfl⟩
        · rename_i hni
          split at hs1
          · cases hs1
            have hne : i ≠ j := by
              intro e; subst e
              unfold rinit at hinit
              exact hni hinit
            unfold rinit rglob remis at *
            simp only []
            rw [getD_set_ne _ i j _ hne]
            refine ⟨hinit, ?_, ?_, ?_, ?_, ?_⟩ <;> first | rfl | trivial
          · cases hs1
      obtain ⟨a1, a2, a3, a4, a5, a6⟩ := h1
      have keep : ∀ st : HistState, st.pool = s1.pool → rinit i st = true ∧ (rglob i st = rglob i s ∨
          (rglob i st = wadd (rglob i s) (C11.accrual (s.now - s.pool.rewardTs) (remis i s) s.pool.liq) ∧
            s.pool.liq ≠ 0 ∧ s.pool.rewardTs ≤ s.now)) := by
        intro st e
        unfold rinit rglob at *
        rw [e]
        exact ⟨a1, Or.inl a2⟩
      split
      · exact keep _ rfl
      · split
        · exact keep _ rfl
        · split
          · exact keep _ rfl
          · rename_i next hn
            obtain ⟨b1, b2, b3, b4⟩ := settle_growth _ _ _ i hn
            obtain ⟨c1, c2⟩ := getD_set_emis next i j e
            unfold rinit rglob remis at *
            simp only [] at b1 b2 b3 b4 ⊢
            rw [c1, c2, b1]
            refine ⟨a1, ?_⟩
            rcases b4 with b4 | ⟨b4, b5⟩
            · left; rw [b4]; exact a2
            · right
              rw [b4, a2, a3, a4, a5, a6] 
              exact ⟨rfl, by rw [← a6]; exact b5, by rw [← a4, ← a5]; exact b3⟩

theorem calcModify_rewards (p : PoolD) (pos : PositionD) (tl tu : TickData) (delta : Int) (now : Nat) (u : ModifyUpdate)
    (h : calculateModifyLiquidity p pos tl tu delta now = .ok u) : nextRewardInfos p now = .ok u.rewards := by
  unfold calculateModifyLiquidity at h
  split at h
  · cases h
  · split at h
    · cases h
    · rename_i rewards hr
      split at h
      · cases h
      · split at h
        · cases h
        · split at h
          · cases h
          · simp only [] at h
            split at h
            · cases h
            · cases h; exact hr

theorem tickModify_keeps_r (t t' : TickData) (tickIndex cur : Int) (fgA fgB : Nat) (rw : List RewardInfo) (delta : Int) (isUpper : Bool)
    (h0 : t.gross ≠ 0) (h1 : t'.gross ≠ 0)
    (h : nextTickModifyLiquidityUpdate t tickIndex cur fgA fgB rw delta isUpper = .ok t') :
    t'.rgo = t.rgo := by
  unfold nextTickModifyLiquidityUpdate at h
  split at h
  · cases h; rfl
  · split at h
    · cases h
    · split at h
      · cases h; exact absurd rfl h1
      · split at h
        rename_i oa ob orw heq
        cases heq
        split at h
        · cases h
        · cases h; rfl

theorem upd_r (s s' : HistState) (j : Nat) (outs : List Nat) (h : histStep s (.upd j) = .ok (s', outs)) :
    nextRewardInfos s.pool s.now = .ok s'.pool.rewards ∧ s'.ticks = s.ticks ∧ s'.pool.tick = s.pool.tick := by
  unfold histStep at h
  simp only [] at h
  split at h
  · cases h
  · split at h
    · cases h
    · rename_i u hu
      simp only [Except.ok.injEq, Prod.mk.injEq] at h
      obtain ⟨h1, _⟩ := h; subst h1
      exact ⟨calcModify_rewards _ _ _ _ _ _ _ hu, rfl, rfl⟩

theorem modify_r (s s' : HistState) (j amount : Nat) (positive : Bool) (outs : List Nat)
    (inv : Inv s) (inv' : Inv s') (h : histStep s (.modify j amount positive) = .ok (s', outs)) :
    nextRewardInfos s.pool s.now = .ok s'.pool.rewards ∧ s'.pool.tick = s.pool.tick ∧
    ∀ t, Bound s.positions t → Bound s'.positions t → (s'.ticks.get t).rgo = (s.ticks.get t).rgo := by
  have hgross : ∀ (st : HistState), Inv st → ∀ t, Bound st.positions t → (st.ticks.get t).gross ≠ 0 := by
    intro st i t b
    have := i.gross t
    unfold Bound at b
    omega
  unfold histStep at h
  simp only [] at h
  split at h
  · cases h
  · split at h
    · cases h
    · split at h
      · cases h
      · rename_i pos hpos
        split at h
        · cases h
        · rename_i u hu
          have hrw := calcModify_rewards _ _ _ _ _ _ _ hu
          have hticks : ∀ t, (s.ticks.get t).gross ≠ 0 →
              ((((s.ticks.set pos.lower u.tickLower).set pos.upper u.tickUpper).get t).gross ≠ 0) →
              (((s.ticks.set pos.lower u.tickLower).set pos.upper u.tickUpper).get t).rgo = (s.ticks.get t).rgo := by
            generalize (if positive = true then (amount : Int) else -(amount : Int)) = delta at hu
            unfold calculateModifyLiquidity at hu
            split at hu
            · cases hu
            · split at hu
              · cases hu
              · split at hu
                · cases hu
                · split at hu
                  · cases hu
                  · rename_i tlu htl
                    split at hu
                    · cases hu
                    · rename_i tuu htu
                      simp only [] at hu
                      split at hu
                      · cases hu
                      · cases hu
                        intro t g0 g1
                        rw [C05.tick_get_set] at g1 ⊢
                        by_cases e : t = pos.upper
                        · rw [if_pos e] at g1 ⊢
                          rw [e] at g0 ⊢
                          exact tickModify_keeps_r _ _ _ _ _ _ _ _ _ g0 g1 htu
                        · rw [if_neg e] at g1 ⊢
                          rw [C05.tick_get_set] at g1 ⊢
                          by_cases e2 : t = pos.lower
                          · rw [if_pos e2] at g1 ⊢
                            rw [e2] at g0 ⊢
                            exact tickModify_keeps_r _ _ _ _ _ _ _ _ _ g0 g1 htl
                          · rw [if_neg e2]
          have fin : ∀ st : HistState, st.ticks = (s.ticks.set pos.lower u.tickLower).set pos.upper u.tickUpper →
              st.pool.tick = s.pool.tick → st.pool.rewards = u.rewards → Inv st →
              nextRewardInfos s.pool s.now = .ok st.pool.rewards ∧ st.pool.tick = s.pool.tick ∧
              ∀ t, Bound s.positions t → Bound st.positions t → (st.ticks.get t).rgo = (s.ticks.get t).rgo := by
            intro st e1 e2 e3 ist
            refine ⟨by rw [e3]; exact hrw, e2, ?_⟩
            intro t b1 b3
            rw [e1]
            exact hticks t (hgross s inv t b1) (by rw [← e1]; exact hgross st ist t b3)
          split at h
          · cases h
          · split at h
            · simp only [Except.ok.injEq, Prod.mk.injEq] at h
              obtain ⟨h1, _⟩ := h
              exact fin s' (by rw [← h1]) (by rw [← h1]) (by rw [← h1]) inv'
            · split at h
              · cases h
              · simp only [Except.ok.injEq, Prod.mk.injEq] at h
                obtain ⟨h1, _⟩ := h
                exact fin s' (by rw [← h1]) (by rw [← h1]) (by rw [← h1]) inv'

/-- the operations that neither settle rewards nor touch ticks -/
theorem frame_other_r (s s' : HistState) (op : HistOp) (outs : List Nat)
    (hop : (∀ a l i d ar, op ≠ .swap a l i d ar) ∧ (∀ i a p, op ≠ .modify i a p) ∧ (∀ j, op ≠ .upd j))
    (h : histStep s op = .ok (s', outs)) : s'.pool.rewards = s.pool.rewards := by
  cases op with
  | swap a l i d ar => exact absurd rfl (hop.1 a l i d ar)
  | modify i a p => exact absurd rfl (hop.2.1 i a p)
  | upd j => exact absurd rfl (hop.2.2 j)
  | reward i e t => unfold histStep at h; cases h
  | openPos id lo hi =>
    unfold histStep at h
    simp only [] at h
    split at h
    · cases h
    · split at h
      · cases h
      · split at h
        · cases h
        · simp only [Except.ok.injEq, Prod.mk.injEq] at h
          obtain ⟨h1, _⟩ := h; subst h1; rfl
  | cfees id =>
    unfold histStep at h
    simp only [] at h
    split at h
    · cases h
    · split at h
      · cases h
      · simp only [Except.ok.injEq, Prod.mk.injEq] at h
        obtain ⟨h1, _⟩ := h; subst h1; rfl
  | cproto =>
    unfold histStep at h
    simp only [] at h
    split at h
    · cases h
    · simp only [Except.ok.injEq, Prod.mk.injEq] at h
      obtain ⟨h1, _⟩ := h; subst h1; rfl
  | clock now =>
    unfold histStep at h
    simp only [Except.ok.injEq, Prod.mk.injEq] at h
    obtain ⟨h1, _⟩ := h; subst h1; rfl
  | crew id i =>
    unfold histStep at h
    simp only [] at h
    split at h
    · cases h
    · split at h
      · cases h
      · simp only [Except.ok.injEq, Prod.mk.injEq] at h
        obtain ⟨h1, _⟩ := h; subst h1; rfl

/-- what an operation that is neither a liquidity change nor an update of position `id` can do to it:
    nothing, zero its owed fees (collect_fees), or lower one owed reward (collect_reward) -/
theorem pos_step (s s' : HistState) (op : HistOp) (outs : List Nat) (id : Nat) (p : PositionD)
    (hp : posGet s.positions id = some p)
    (hno : (∀ a b, op ≠ .modify id a b) ∧ op ≠ .upd id)
    (h : histStep s op = .ok (s', outs)) :
    posGet s'.positions id = some p ∨
    posGet s'.positions id = some { p with owedA := 0, owedB := 0 } ∨
    ∃ i left, posGet s'.positions id = some { p with rewards := p.rewards.set i { (p.rewards.getD i {}) with owed := left } } := by
  cases op with
  | reward i e t => unfold histStep at h; cases h
  | openPos j lo hi =>
    unfold histStep at h
    simp only [] at h
    split at h
    · cases h
    · split at h
      · cases h
      · split at h
        · cases h
        · rename_i hnone
          simp only [Except.ok.injEq, Prod.mk.injEq] at h
          obtain ⟨h1, _⟩ := h; subst h1
          have hn : posGet s.positions j = none := by
            cases e : posGet s.positions j with
            | none => rfl
            | some v => simp [e] at hnone
          have hne : ¬ id = j := fun e => by rw [e, hn] at hp; cases hp
          left
          show posGet (posSet s.positions j _) id = some p
          rw [C05.posGet_insert _ _ _ _ hn, if_neg hne]; exact hp
  | modify j a b =>
    have hne : ¬ id = j := fun e => hno.1 a b (by rw [e])
    unfold histStep at h
    simp only [] at h
    split at h
    · cases h
    · split at h
      · cases h
      · split at h
        · cases h
        · rename_i pos hpos
          split at h
          · cases h
          · split at h
            · cases h
            · split at h
              · simp only [Except.ok.injEq, Prod.mk.injEq] at h
                obtain ⟨h1, _⟩ := h; subst h1
                left
                show posGet (posReplace s.positions j _) id = some p
                rw [C05.posGet_replace _ _ _ _ _ hpos, if_neg hne]; exact hp
              · split at h
                · cases h
                · simp only [Except.ok.injEq, Prod.mk.injEq] at h
                  obtain ⟨h1, _⟩ := h; subst h1
                  left
                  show posGet (posReplace s.positions j _) id = some p
                  rw [C05.posGet_replace _ _ _ _ _ hpos, if_neg hne]; exact hp
  | upd j =>
    have hne : ¬ id = j := fun e => hno.2 (by rw [e])
    unfold histStep at h
    simp only [] at h
    split at h
    · cases h
    · rename_i pos hpos
      split at h
      · cases h
      · simp only [Except.ok.injEq, Prod.mk.injEq] at h
        obtain ⟨h1, _⟩ := h; subst h1
        left
        show posGet (posReplace s.positions j _) id = some p
        rw [C05.posGet_replace _ _ _ _ _ hpos, if_neg hne]; exact hp
  | cfees j =>
    unfold histStep at h
    simp only [] at h
    split at h
    · cases h
    · rename_i pos hpos
      split at h
      · cases h
      · simp only [Except.ok.injEq, Prod.mk.injEq] at h
        obtain ⟨h1, _⟩ := h; subst h1
        by_cases e : id = j
        · rw [e] at hp
          rw [hp] at hpos; cases hpos
          right; left
          show posGet (posReplace s.positions j _) id = _
          rw [C05.posGet_replace _ _ _ _ _ hp, if_pos e]
        · left
          show posGet (posReplace s.positions j _) id = some p
          rw [C05.posGet_replace _ _ _ _ _ hpos, if_neg e]; exact hp
  | cproto =>
    unfold histStep at h
    simp only [] at h
    split at h
    · cases h
    · simp only [Except.ok.injEq, Prod.mk.injEq] at h
      obtain ⟨h1, _⟩ := h; subst h1
      exact Or.inl hp
  | clock now =>
    unfold histStep at h
    simp only [Except.ok.injEq, Prod.mk.injEq] at h
    obtain ⟨h1, _⟩ := h; subst h1
    exact Or.inl hp
  | crew j i =>
    unfold histStep at h
    simp only [] at h
    split at h
    · cases h
    · split at h
      · cases h
      · rename_i pos hpos
        simp only [Except.ok.injEq, Prod.mk.injEq] at h
        obtain ⟨h1, _⟩ := h; subst h1
        by_cases e : id = j
        · rw [e] at hp
          rw [hp] at hpos; cases hpos
          right; right
          refine ⟨i, (if (p.rewards.getD i { }).owed > min (s.rewardVaults.getD i 0) U64_MAX then
            (min (s.rewardVaults.getD i 0) U64_MAX, (p.rewards.getD i { }).owed - min (s.rewardVaults.getD i 0) U64_MAX)
            else ((p.rewards.getD i { }).owed, 0)).2, ?_⟩
          show posGet (posReplace s.positions j _) id = _
          rw [C05.posGet_replace _ _ _ _ _ hp, if_pos e]
        · left
          show posGet (posReplace s.positions j _) id = some p
          rw [C05.posGet_replace _ _ _ _ _ hpos, if_neg e]; exact hp
  | swap amount limit isInput aToB arrays =>
    unfold histStep at h
    simp only [] at h
    split at h
    · cases h
    · split at h
      · cases h
      · split at h
        · cases h
        · split at h
          · cases h
          · simp only [Except.ok.injEq, Prod.mk.injEq] at h
            obtain ⟨h1, _⟩ := h; subst h1
            exact Or.inl hp


/-! ### one operation: the global growth of a reward and the growth inside liquidity-bearing ranges -/

/-- the reward growth inside a range whose bounds hold liquidity -/
def rinside (i : Nat) (ticks : TickMap) (cur lo hi : Int) (g : Nat) : Nat :=
  C07.insideInit cur lo (ro i (ticks.get lo)) hi (ro i (ticks.get hi)) g

/-- reward `i` over one operation of the history machine (successful, failing or partially committed):
    it stays initialized; its global growth stays or advances by ONE settlement — the accrual
    ⌊dt·emissions/liquidity⌋ of the state the operation started from; and whatever else the operation does
    (crossing ticks, initializing or clearing other ticks), the growth inside every range whose bounds hold
    liquidity before and after is unchanged when read against the new global growth -/
theorem gstep (i : Nat) (hi3 : i < 3) (s : HistState) (op : HistOp) (inv : Inv s) (g : Geo ts0 s) (w : WfR s)
    (hinit : rinit i s = true) (hop : OpOK ts0 op) :
    rinit i (histApply s op) = true ∧
    (rglob i (histApply s op) = rglob i s ∨
      (rglob i (histApply s op) = wadd (rglob i s) (C11.accrual (s.now - s.pool.rewardTs) (remis i s) s.pool.liq) ∧
        s.pool.liq ≠ 0 ∧ s.pool.rewardTs ≤ s.now)) ∧
    ∀ lo hi, lo < hi → Bound s.positions lo → Bound s.positions hi →
      Bound (histApply s op).positions lo → Bound (histApply s op).positions hi →
      rinside i (histApply s op).ticks (histApply s op).pool.tick lo hi (rglob i (histApply s op)) =
        rinside i s.ticks s.pool.tick lo hi (rglob i (histApply s op)) := by
  have stay : rinit i s = true ∧
      (rglob i s = rglob i s ∨
        (rglob i s = wadd (rglob i s) (C11.accrual (s.now - s.pool.rewardTs) (remis i s) s.pool.liq) ∧
          s.pool.liq ≠ 0 ∧ s.pool.rewardTs ≤ s.now)) ∧
      ∀ lo hi, lo < hi → Bound s.positions lo → Bound s.positions hi → Bound s.positions lo → Bound s.positions hi →
        rinside i s.ticks s.pool.tick lo hi (rglob i s) = rinside i s.ticks s.pool.tick lo hi (rglob i s) :=
    ⟨hinit, Or.inl rfl, fun _ _ _ _ _ _ _ => rfl⟩
  -- an operation that settles the rewards first
  have settled : ∀ s' : HistState, nextRewardInfos s.pool s.now = .ok s'.pool.rewards →
      rinit i s' = true ∧
      (rglob i s' = rglob i s ∨
        (rglob i s' = wadd (rglob i s) (C11.accrual (s.now - s.pool.rewardTs) (remis i s) s.pool.liq) ∧
          s.pool.liq ≠ 0 ∧ s.pool.rewardTs ≤ s.now)) := by
    intro s' hn
    obtain ⟨b1, b2, b3, b4⟩ := settle_growth _ _ _ i hn
    unfold rinit rglob remis at *
    refine ⟨by rw [b1]; exact hinit, ?_⟩
    rcases b4 with b4 | ⟨b4, b5⟩
    · exact Or.inl b4
    · exact Or.inr ⟨b4, b5, b3⟩
  by_cases hr : ∃ j e t, op = .reward j e t
  · obtain ⟨j, e, t, rfl⟩ := hr
    have hs := reward_same s j e t
    obtain ⟨r1, r2⟩ := reward_r s j e t i hinit
    show rinit i (histReward s j e t).1 = true ∧ _
    refine ⟨r1, r2, ?_⟩
    intro lo hi _ _ _ _ _
    show rinside i (histReward s j e t).1.ticks (histReward s j e t).1.pool.tick lo hi _ = _
    rw [hs.2.2.2.2.2.1, hs.2.1]
  · have hnr : ∀ j e t, op ≠ .reward j e t := fun j e t h => hr ⟨j, e, t, h⟩
    cases h : histStep s op with
    | error e => rw [apply_err s op e hnr h]; exact stay
    | ok r =>
      obtain ⟨s', outs⟩ := r
      rw [apply_ok s s' op outs hnr h]
      by_cases hsw : ∃ a l ii d ar, op = .swap a l ii d ar
      · obtain ⟨amount, limit, isInput, aToB, arrays, rfl⟩ := hsw
        unfold OpOK at hop
        rw [← g.spacing] at hop
        obtain ⟨_, q1, q2⟩ := swap_step_reward s s' amount limit isInput aToB arrays outs inv g w hop.1 hop.2 h
        obtain ⟨c1, c2⟩ := settled s' q1
        refine ⟨c1, c2, ?_⟩
        intro lo hi hlh b1 b2 _ _
        unfold rinside rglob
        exact q2 i hi3 (by unfold rinit at c1; exact c1) lo hi hlh b1 b2
      · have hnsw : ∀ a l ii d ar, op ≠ .swap a l ii d ar := fun a l ii d ar hh => hsw ⟨a, l, ii, d, ar, hh⟩
        by_cases hm : ∃ j a b, op = .modify j a b
        · obtain ⟨j, a, b, rfl⟩ := hm
          have inv' := inv_modify s s' j a b outs inv h
          obtain ⟨m1, m2, m3⟩ := modify_r s s' j a b outs inv inv' h
          obtain ⟨c1, c2⟩ := settled s' m1
          refine ⟨c1, c2, ?_⟩
          intro lo hi _ b1 b2 b3 b4
          unfold rinside ro
          rw [m2, m3 lo b1 b3, m3 hi b2 b4]
        · have hnm : ∀ j a b, op ≠ .modify j a b := fun j a b hh => hm ⟨j, a, b, hh⟩
          obtain ⟨f1, f2, _, _⟩ := frame_other s s' op outs ⟨hnsw, hnm⟩ h
          by_cases hu : ∃ j, op = .upd j
          · obtain ⟨j, rfl⟩ := hu
            obtain ⟨u1, _, _⟩ := upd_r s s' j outs h
            obtain ⟨c1, c2⟩ := settled s' u1
            refine ⟨c1, c2, ?_⟩
            intro lo hi _ _ _ _ _
            rw [f1, f2]
          · have hnu : ∀ j, op ≠ .upd j := fun j hh => hu ⟨j, hh⟩
            have f3 := frame_other_r s s' op outs ⟨hnsw, hnm, hnu⟩ h
            have e1 : rglob i s' = rglob i s := by unfold rglob; rw [f3]
            refine ⟨by unfold rinit at *; rw [f3]; exact hinit, Or.inl e1, ?_⟩
            intro lo hi _ _ _ _ _
            rw [f1, f2]


/-! ### one position -/

/-- the growth of reward `i` accrued to the range of `p` since its checkpoint (mod 2^128): what
    `next_position_modify_liquidity_update` multiplies by the position's liquidity at its next update -/
def pendR (i : Nat) (s : HistState) (p : PositionD) : Nat :=
  wsub (rinside i s.ticks s.pool.tick p.lower p.upper (rglob i s)) (rcp i p)

/-- the parts of a position its pending reward growth depends on -/
def ViewR (i : Nat) (p p' : PositionD) : Prop :=
  p'.lower = p.lower ∧ p'.upper = p.upper ∧ p'.liq = p.liq ∧ rcp i p' = rcp i p

/-- `d` is the settlement of reward `i` at state `st` — ⌊(now − last update)·emissions/in-range liquidity⌋, 0 when
    the product overflows — and `p` is in range there, its liquidity part of the divisor -/
def AccrAt (i : Nat) (st : HistState) (p : PositionD) (d : Nat) : Prop :=
  d = C11.accrual (st.now - st.pool.rewardTs) (remis i st) st.pool.liq ∧ st.pool.rewardTs ≤ st.now ∧
  p.lower ≤ st.pool.tick ∧ st.pool.tick < p.upper ∧ p.liq ≤ st.pool.liq ∧ st.pool.liq ≠ 0

theorem accrAt_view (i : Nat) (st : HistState) (p p' : PositionD) (d : Nat) (v : ViewR i p p') (h : AccrAt i st p' d) :
    AccrAt i st p d := by
  obtain ⟨a, b, c, _⟩ := v
  unfold AccrAt at *
  rw [a, b, c] at h
  exact h

theorem rcp_set_owed (l : List PosReward) (i k left : Nat) :
    ((l.set k { (l.getD k {}) with owed := left }).getD i {}).checkpoint = (l.getD i {}).checkpoint := by
  by_cases h : i = k
  · subst h
    simp only [List.getD_eq_getElem?_getD]
    by_cases hl : i < l.length
    · rw [List.getElem?_set_self hl]; simp
    · rw [List.getElem?_eq_none (by simp; omega), List.getElem?_eq_none (by omega)]
  · simp only [List.getD_eq_getElem?_getD]
    rw [List.getElem?_set_ne (by omega)]

theorem pendR_step (i : Nat) (hi3 : i < 3) (s : HistState) (op : HistOp) (id : Nat) (p : PositionD)
    (inv : Inv s) (g : Geo ts0 s) (w : WfR s) (hinit : rinit i s = true)
    (hp : posGet s.positions id = some p) (hl : 0 < p.liq)
    (hno : (∀ a b, op ≠ .modify id a b) ∧ op ≠ .upd id) (hop : OpOK ts0 op) :
    ∃ p', posGet (histApply s op).positions id = some p' ∧ ViewR i p p' ∧
      (pendR i (histApply s op) p' = pendR i s p ∨
        ∃ d, AccrAt i s p d ∧ pendR i (histApply s op) p' = wadd (pendR i s p) d) := by
  have hlu : p.lower < p.upper := (g.pos (id, p) (posGet_mem id p s.positions hp)).1
  obtain ⟨bl, bh, hin⟩ := bound_of_pos id p hl hlu s.positions hp
  obtain ⟨_, g2, g3⟩ := gstep i hi3 s op inv g w hinit hop
  -- the position afterwards
  have hview : ∃ p', posGet (histApply s op).positions id = some p' ∧ ViewR i p p' := by
    by_cases hr : ∃ j e t, op = .reward j e t
    · obtain ⟨j, e, t, rfl⟩ := hr
      have hs := reward_same s j e t
      exact ⟨p, by show posGet (histReward s j e t).1.positions id = some p; rw [hs.2.2.2.2.2.2.1]; exact hp, rfl, rfl, rfl, rfl⟩
    · have hnr : ∀ j e t, op ≠ .reward j e t := fun j e t h => hr ⟨j, e, t, h⟩
      cases h : histStep s op with
      | error e => rw [apply_err s op e hnr h]; exact ⟨p, hp, rfl, rfl, rfl, rfl⟩
      | ok r =>
        obtain ⟨s', outs⟩ := r
        rw [apply_ok s s' op outs hnr h]
        rcases pos_step s s' op outs id p hp hno h with h1 | h1 | ⟨k, left, h1⟩
        · exact ⟨p, h1, rfl, rfl, rfl, rfl⟩
        · exact ⟨_, h1, rfl, rfl, rfl, rfl⟩
        · exact ⟨_, h1, rfl, rfl, rfl, by unfold rcp; exact rcp_set_owed _ _ _ _⟩
  obtain ⟨p', hp', v⟩ := hview
  refine ⟨p', hp', v, ?_⟩
  obtain ⟨i1, g1⟩ := apply_keeps s op inv g hop
  have hl' : 0 < p'.liq := by rw [v.2.2.1]; exact hl
  have hlu' : p'.lower < p'.upper := by rw [v.1, v.2.1]; exact hlu
  obtain ⟨bl', bh', _⟩ := bound_of_pos id p' hl' hlu' _ hp'
  rw [v.1] at bl'; rw [v.2.1] at bh'
  have X := g3 p.lower p.upper hlu bl bh bl' bh'
  have hG : rglob i s < TWO128 := by unfold rglob; exact getD_info_lt _ w.glob i
  have hlo : ro i (s.ticks.get p.lower) < TWO128 := w.ticks _ i hi3
  have hhi : ro i (s.ticks.get p.upper) < TWO128 := w.ticks _ i hi3
  unfold pendR
  rw [v.1, v.2.1, v.2.2.2, X]
  rcases g2 with e | ⟨e, hl0, hts⟩
  · left; rw [e]
  · rw [e]
    unfold rinside
    by_cases c1 : s.pool.tick < p.lower
    · left; rw [C07.inside_const_below _ _ _ _ _ _ _ c1 hlu hG hlo hhi]
    · by_cases c2 : s.pool.tick < p.upper
      · right
        refine ⟨_, ⟨rfl, hts, by omega, c2, ?_, hl0⟩, ?_⟩
        · have := hin s.pool.tick (by omega) c2
          have := inv.liq
          omega
        · rw [C07.inside_tracks_in_range _ _ _ _ _ _ _ (by omega) c2 hG hlo hhi, C07.wsub_wadd_comm]
      · left; rw [C07.inside_const_above _ _ _ _ _ _ _ (by omega) hlu hG hlo hhi]

/-- **C11, per position, over any stretch of history**: while a position holding liquidity is not itself
    changed or updated, the growth of an initialized reward pending for it (growth inside its range minus its
    checkpoint, mod 2^128) advances by exactly a list of settlements, each of them the accrual
    ⌊dt·emissions/L⌋ made at a state of this very history at which the position was in range (so L, the
    in-range liquidity, includes its own).  Nothing else moves it: time passing while it is out of range, swaps
    crossing its bounds in either direction, other positions coming and going, emission changes, collections,
    failing and partially committed operations. -/
theorem pendR_history (i : Nat) (hi3 : i < 3) (id : Nat) (ops : List HistOp) : ∀ (s : HistState) (p : PositionD),
    Inv s → Geo ts0 s → WfR s → rinit i s = true → posGet s.positions id = some p → 0 < p.liq →
    (∀ op ∈ ops, OpOK ts0 op ∧ (∀ a b, op ≠ .modify id a b) ∧ op ≠ .upd id) →
    ∃ p', posGet (ops.foldl histApply s).positions id = some p' ∧ ViewR i p p' ∧
      ∃ deltas, pendR i (ops.foldl histApply s) p' = wsum (pendR i s p) deltas ∧
        ∀ d ∈ deltas, ∃ k, k < ops.length ∧ AccrAt i ((ops.take k).foldl histApply s) p d := by
  induction ops with
  | nil => intro s p _ _ _ _ hp _ _; exact ⟨p, hp, ⟨rfl, rfl, rfl, rfl⟩, [], by rw [wsum_nil]; rfl, fun d hd => by cases hd⟩
  | cons op rest ih =>
    intro s p inv g w hinit hp hl hops
    obtain ⟨ok1, no1⟩ := hops op List.mem_cons_self
    obtain ⟨p1, hp1, v1, alt⟩ := pendR_step i hi3 s op id p inv g w hinit hp hl no1 ok1
    obtain ⟨i1, g1⟩ := apply_keeps s op inv g ok1
    have w1 := apply_keeps_wfR s op inv g w ok1
    have init1 := (gstep i hi3 s op inv g w hinit ok1).1
    have hl1 : 0 < p1.liq := by rw [v1.2.2.1]; exact hl
    obtain ⟨p2, hp2, v2, d2, e2, sh2⟩ := ih _ p1 i1 g1 w1 init1 hp1 hl1 (fun o ho => hops o (List.mem_cons_of_mem _ ho))
    have v12 : ViewR i p p2 := by
      obtain ⟨a1, a2, a3, a4⟩ := v1
      obtain ⟨b1, b2, b3, b4⟩ := v2
      exact ⟨by rw [b1, a1], by rw [b2, a2], by rw [b3, a3], by rw [b4, a4]⟩
    have tail : ∀ d ∈ d2, ∃ k, k < (op :: rest).length ∧ AccrAt i (((op :: rest).take k).foldl histApply s) p d := by
      intro d hd
      obtain ⟨k, hk, ha⟩ := sh2 d hd
      exact ⟨k + 1, by simp; omega, by
        show AccrAt i ((rest.take k).foldl histApply (histApply s op)) p d
        exact accrAt_view i _ p p1 d v1 ha⟩
    rcases alt with e1 | ⟨d1, a1, e1⟩
    · refine ⟨p2, hp2, v12, d2, ?_, tail⟩
      show pendR i (rest.foldl histApply (histApply s op)) p2 = _
      rw [e2, e1]
    · refine ⟨p2, hp2, v12, d1 :: d2, ?_, ?_⟩
      · show pendR i (rest.foldl histApply (histApply s op)) p2 = _
        rw [e2, e1]; rfl
      · intro d hd
        rcases List.mem_cons.mp hd with h | h
        · exact ⟨0, by simp, by rw [h]; exact a1⟩
        · exact tail d h


/-! ### and when the position is finally updated, the pending growth is turned into owed reward tokens -/

theorem range3_getD_gen {α : Type} (f : Nat → α) (d : α) (i : Nat) (hi : i < 3) : ((List.range 3).map f).getD i d = f i := by
  match i, hi with
  | 0, _ => rfl
  | 1, _ => rfl
  | 2, _ => rfl

/-- `update_fees_and_rewards` on a position holding liquidity, for an initialized reward `i`: the rewards are
    settled first (`R`), then owed_i += ⌊L · (growth inside the range against the settled global growth −
    checkpoint) / 2^64⌋ (0 on overflow, never more: C07.credit_le) and the checkpoint moves to that growth -/
theorem upd_credits_reward (i : Nat) (hi3 : i < 3) (s s' : HistState) (id : Nat) (outs : List Nat) (p : PositionD)
    (inv : Inv s) (g : Geo ts0 s) (hinit : rinit i s = true)
    (hp : posGet s.positions id = some p) (hl : 0 < p.liq)
    (h : histStep s (.upd id) = .ok (s', outs)) :
    ∃ p' R, posGet s'.positions id = some p' ∧ nextRewardInfos s.pool s.now = .ok R ∧ s'.pool.rewards = R ∧
      (p'.rewards.getD i {}).owed = wadd64 (p.rewards.getD i {}).owed
        (mulShiftOr0 p.liq (wsub (rinside i s.ticks s.pool.tick p.lower p.upper (R.getD i {}).growth) (rcp i p))) ∧
      rcp i p' = rinside i s.ticks s.pool.tick p.lower p.upper (R.getD i {}).growth := by
  have hlu : p.lower < p.upper := (g.pos (id, p) (posGet_mem id p s.positions hp)).1
  obtain ⟨bl, bh, _⟩ := bound_of_pos id p hl hlu s.positions hp
  have tf := tickFacts_of s inv g
  obtain ⟨il, _⟩ := bound_init s.ticks s.positions s.pool.ts tf p.lower bl
  obtain ⟨ih, _⟩ := bound_init s.ticks s.positions s.pool.ts tf p.upper bh
  unfold histStep at h
  simp only [] at h
  rw [hp] at h
  simp only [] at h
  split at h
  · cases h
  · rename_i u hu
    simp only [Except.ok.injEq, Prod.mk.injEq] at h
    obtain ⟨h1, _⟩ := h
    have hR := calcModify_rewards _ _ _ _ _ _ _ hu
    refine ⟨u.position, u.rewards, by rw [← h1]; show posGet (posReplace s.positions id u.position) id = _; rw [C05.posGet_replace _ _ _ _ _ hp, if_pos rfl],
      hR, by rw [← h1], ?_⟩
    obtain ⟨b1, _, _, _⟩ := settle_growth _ _ _ i hR
    have hRi : (u.rewards.getD i {}).initialized = true := by rw [b1]; exact hinit
    unfold calculateModifyLiquidity at hu
    split at hu
    · cases hu
    · split at hu
      · cases hu
      · rename_i rewards hr
        split at hu
        · cases hu
        · split at hu
          · cases hu
          · split at hu
            · cases hu
            · simp only [] at hu
              split at hu
              · cases hu
              · rename_i pu hpu
                cases hu
                simp only [] at hRi ⊢
                unfold nextPositionUpdate at hpu
                simp only [] at hpu
                split at hpu
                · cases hpu
                · cases hpu
                  simp only []
                  have key : (nextRewardGrowthsInside s.pool.tick (s.ticks.get p.lower) p.lower (s.ticks.get p.upper) p.upper rewards).getD i 0 =
                      rinside i s.ticks s.pool.tick p.lower p.upper (rewards.getD i {}).growth := by
                    unfold nextRewardGrowthsInside
                    rw [range3_getD_gen _ 0 i hi3]
                    simp only [hRi, Bool.not_true, Bool.false_eq_true, if_false]
                    unfold rinside ro
                    unfold initAt at il ih
                    rw [C07.growthInside_init _ _ _ _ _ _ _ _ il ih]
                  unfold rcp
                  rw [range3_getD_gen (α := PosReward) _ {} i hi3]
                  simp only []
                  rw [key]
                  exact ⟨rfl, rfl⟩

/-- the same against `pendR`: the growth credited at the update is the pending growth, plus the accrual of
    this update's own settlement when the position is in range -/
theorem upd_credits_pendR (i : Nat) (hi3 : i < 3) (s s' : HistState) (id : Nat) (outs : List Nat) (p : PositionD)
    (inv : Inv s) (g : Geo ts0 s) (w : WfR s) (hinit : rinit i s = true)
    (hp : posGet s.positions id = some p) (hl : 0 < p.liq)
    (h : histStep s (.upd id) = .ok (s', outs)) :
    ∃ p', posGet s'.positions id = some p' ∧
      ((p'.rewards.getD i {}).owed = wadd64 (p.rewards.getD i {}).owed (mulShiftOr0 p.liq (pendR i s p)) ∨
       ∃ d, AccrAt i s p d ∧
         (p'.rewards.getD i {}).owed = wadd64 (p.rewards.getD i {}).owed (mulShiftOr0 p.liq (wadd (pendR i s p) d))) := by
  have hlu : p.lower < p.upper := (g.pos (id, p) (posGet_mem id p s.positions hp)).1
  obtain ⟨bl, bh, hin⟩ := bound_of_pos id p hl hlu s.positions hp
  obtain ⟨p', R, hp', hR, _, ho, _⟩ := upd_credits_reward i hi3 s s' id outs p inv g hinit hp hl h
  refine ⟨p', hp', ?_⟩
  obtain ⟨_, _, b3, b4⟩ := settle_growth _ _ _ i hR
  have hG : (s.pool.rewards.getD i {}).growth < TWO128 := getD_info_lt _ w.glob i
  have hlo : ro i (s.ticks.get p.lower) < TWO128 := w.ticks _ i hi3
  have hhi : ro i (s.ticks.get p.upper) < TWO128 := w.ticks _ i hi3
  rw [ho]
  unfold pendR rglob
  rcases b4 with e | ⟨e, hl0⟩
  · left; rw [e]
  · rw [e]
    unfold rinside
    by_cases c1 : s.pool.tick < p.lower
    · left; rw [C07.inside_const_below _ _ _ _ _ _ _ c1 hlu hG hlo hhi]
    · by_cases c2 : s.pool.tick < p.upper
      · right
        refine ⟨_, ⟨rfl, b3, by omega, c2, ?_, hl0⟩, ?_⟩
        · have := hin s.pool.tick (by omega) c2
          have := inv.liq
          omega
        · rw [C07.inside_tracks_in_range _ _ _ _ _ _ _ (by omega) c2 hG hlo hhi, C07.wsub_wadd_comm]; rfl
      · left; rw [C07.inside_const_above _ _ _ _ _ _ _ (by omega) hlu hG hlo hhi]


/-! ### from an empty pool -/

/-- **C11, the last link, for every history of a pool started empty**: let `ops1` be ANY history after which
    position `id` holds liquidity and reward `i` is initialized, and `ops2` ANY further history that does not
    change or update that position.  Then the reward growth pending for the position has advanced by exactly a
    list of settlements ⌊dt·emissions/L⌋ made at states of `ops2` at which the position was in range (L ≥ its own
    liquidity) — pro rata to in-range liquidity, nothing for time spent out of range, nothing lost or gained
    through crossings, other positions, emission changes or failing operations.
    (`upd_credits_pendR`: the next update turns exactly that growth, plus its own settlement, into tokens.) -/
theorem reward_pending_history (i : Nat) (hi3 : i < 3) (id : Nat) (p : PoolD) (now : Nat) (af : Option AfInfo)
    (ops1 ops2 : List HistOp)
    (inv0 : Inv { pool := p, now := now, af := af }) (g0 : Geo ts0 { pool := p, now := now, af := af })
    (hR : ∀ r ∈ p.rewards, r.growth < TWO128) (hops1 : ∀ op ∈ ops1, OpOK ts0 op)
    (q : PositionD) (hq : posGet (ops1.foldl histApply { pool := p, now := now, af := af }).positions id = some q)
    (hl : 0 < q.liq) (hinit : rinit i (ops1.foldl histApply { pool := p, now := now, af := af }) = true)
    (hops2 : ∀ op ∈ ops2, OpOK ts0 op ∧ (∀ a b, op ≠ .modify id a b) ∧ op ≠ .upd id) :
    let s1 := ops1.foldl histApply { pool := p, now := now, af := af }
    ∃ q', posGet (ops2.foldl histApply s1).positions id = some q' ∧ ViewR i q q' ∧
      ∃ deltas, pendR i (ops2.foldl histApply s1) q' = wsum (pendR i s1 q) deltas ∧
        ∀ d ∈ deltas, ∃ k, k < ops2.length ∧ AccrAt i ((ops2.take k).foldl histApply s1) q d := by
  intro s1
  have w0 : WfR { pool := p, now := now, af := af } :=
    { ticks := fun t k _ => by
        have hz : (0 : Nat) < TWO128 := by decide
        show ro k (TickMap.get [] t) < TWO128
        unfold TickMap.get ro List.getD
        show (([0, 0, 0] : List Nat)[k]?).getD 0 < TWO128
        match k with
        | 0 => exact hz
        | 1 => exact hz
        | 2 => exact hz
        | (k + 3) => exact hz,
      glob := hR }
  have key : ∀ (ops : List HistOp) (st : HistState), Inv st → Geo ts0 st → WfR st → (∀ op ∈ ops, OpOK ts0 op) →
      Inv (ops.foldl histApply st) ∧ Geo ts0 (ops.foldl histApply st) ∧ WfR (ops.foldl histApply st) := by
    intro ops
    induction ops with
    | nil => intro st a b c _; exact ⟨a, b, c⟩
    | cons op rest ih =>
      intro st a b c hh
      obtain ⟨i1, g1⟩ := apply_keeps st op a b (hh op List.mem_cons_self)
      have w1 := apply_keeps_wfR st op a b c (hh op List.mem_cons_self)
      exact ih _ i1 g1 w1 (fun o ho => hh o (List.mem_cons_of_mem _ ho))
  obtain ⟨i1, g1, w1⟩ := key ops1 _ inv0 g0 w0 hops1
  exact pendR_history i hi3 id ops2 s1 q i1 g1 w1 hinit hq hl hops2

/-! ### non-vacuity: a concrete history in which reward 0 accrues to a position while in range, not while out -/

def exOpsR1 : List HistOp :=
  [.openPos 1 (-128) 128, .modify 1 1000000000 true, .openPos 2 (-6400) (-64), .modify 2 77777 true,
   .reward 0 (10 * 18446744073709551616) 1000000]
def exOpsR2 : List HistOp :=
  [.clock 110, .swap 6450000 0 true true [0, -5632], .clock 150, .upd 2, .clock 200, .swap 5000 0 false false [-5632, 0]]

-- after exOpsR1 position 1 holds liquidity and reward 0 is initialized; over exOpsR2 (which never touches
-- position 1) 100 s pass in range of position 1 (tick 0), then the first swap takes the price below its
-- range: its pending growth moves by the settlement of those 100 s only, not by the 90 s spent out of range
example : let s1 := exOpsR1.foldl histApply { pool := exPool, now := 10 }
          let s2 := exOpsR2.foldl histApply s1
          ((posGet s1.positions 1).map (·.liq) = some 1000000000 ∧ rinit 0 s1 = true ∧ s1.pool.liq = 1000000000 ∧
           s2.pool.tick < -128 ∧ s2.pool.rewardTs = 200 ∧
           (posGet s2.positions 1).map (pendR 0 s2) =
             (posGet s1.positions 1).map (fun q => wadd (pendR 0 s1 q) (C11.accrual 100 (10 * 18446744073709551616) 1000000000))) = True := by
  decide +kernel

end WP.Reach
