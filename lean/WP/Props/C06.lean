import WP.Model.SwapLoop
import WP.Props.C02
/-
  Properties C06 / C03 (swap-loop part) — accounting identities of a whole swap.

  Model: `swap` / `swapLoop` / `swapStep` (WP/Model/SwapLoop.lean) = swap_manager::swap.  The model
  records one trace entry per executed step: (liquidity, fee rate, amount_in, amount_out, fee, next price).
  Proved by induction over the loop (any number of steps, any tick layout, static or adaptive fee):
    * what the trader pays is exactly Σ amount_in + Σ fee, what they receive exactly Σ amount_out;
    * lp_fee + protocol_fee = Σ fee, protocol_fee = Σ ⌊fee·p/10^4⌋;
    * every trace entry is a successful `computeSwap` (so all C02 theorems apply per step);
    * never more than the specified amount; on exit remaining = 0 or price = adjusted limit;
      exact-out without an explicit limit delivers the full amount or fails.
-/
namespace WP.C06
open WP WP.Gen

abbrev Step := Nat × Nat × Nat × Nat × Nat × Nat   -- liq, rate, in, out, fee, next

def sumIn : List Step → Nat
  | [] => 0
  | (_, _, i, _, _, _) :: r => i + sumIn r
def sumOut : List Step → Nat
  | [] => 0
  | (_, _, _, o, _, _) :: r => o + sumOut r
def sumFee : List Step → Nat
  | [] => 0
  | (_, _, _, _, f, _) :: r => f + sumFee r
/-- protocol share of one step's fee: ⌊fee·p/10^4⌋ (0 when the protocol fee rate is 0) -/
def cut (protoRate fee : Nat) : Nat := if protoRate > 0 then fee * protoRate / PROTOCOL_FEE_RATE_MUL_VALUE else 0
def sumCut (protoRate : Nat) : List Step → Nat
  | [] => 0
  | (_, _, _, _, f, _) :: r => cut protoRate f + sumCut protoRate r

/-- each trace entry comes from a successful `computeSwap` in the swap's mode and direction -/
def StepsValid (c : SwapCtx) (steps : List Step) : Prop :=
  ∀ st ∈ steps, ∃ rem cur tgt,
    computeSwap rem st.2.1 st.1 cur tgt c.isInput c.aToB =
      .ok { amountIn := st.2.2.1, amountOut := st.2.2.2.1, nextPrice := st.2.2.2.2.2, feeAmount := st.2.2.2.2.1 }

structure LoopInv (c : SwapCtx) (amount : Nat) (s : SwapSt) : Prop where
  amounts : if c.isInput then s.remaining + sumIn s.steps + sumFee s.steps = amount ∧ s.calculated = sumOut s.steps
            else s.remaining + sumOut s.steps = amount ∧ s.calculated = sumIn s.steps + sumFee s.steps
  fees : s.feeSum = sumFee s.steps
  feeBound : s.feeSum ≤ U64_MAX
  proto : s.protoFee = sumCut c.protoRate s.steps
  valid : StepsValid c s.steps

theorem cut_le (p f : Nat) (hp : p ≤ PROTOCOL_FEE_RATE_MUL_VALUE) : cut p f ≤ f := by
  unfold cut
  split
  · apply Nat.div_le_of_le_mul
    have : PROTOCOL_FEE_RATE_MUL_VALUE = 10000 := rfl
    rw [this] at hp ⊢
    have : f * p ≤ f * 10000 := Nat.mul_le_mul_left _ hp
    omega
  · omega

theorem sumCut_le (p : Nat) (hp : p ≤ PROTOCOL_FEE_RATE_MUL_VALUE) : ∀ l, sumCut p l ≤ sumFee l := by
  intro l; induction l with
  | nil => simp [sumCut, sumFee]
  | cons hd tl ih =>
    obtain ⟨a, b, c, d, f, g⟩ := hd
    simp only [sumCut, sumFee]
    have := cut_le p f hp; omega

theorem stepAmounts_spec (isInput : Bool) (rem cal : Nat) (sc : SwapStep) (ra : Nat × Nat)
    (h : stepAmounts isInput rem cal sc = .ok ra) :
    if isInput then rem = ra.1 + sc.amountIn + sc.feeAmount ∧ ra.2 = cal + sc.amountOut
    else rem = ra.1 + sc.amountOut ∧ ra.2 = cal + sc.amountIn + sc.feeAmount := by
  unfold stepAmounts at h
  cases isInput with
  | true =>
    simp only [if_true] at h ⊢
    unfold checkedSub64 checkedAdd64 at h
    by_cases c1 : sc.amountIn ≤ rem
    · rw [if_pos c1] at h
      simp only [] at h
      by_cases c2 : sc.feeAmount ≤ rem - sc.amountIn
      · rw [if_pos c2] at h
        simp only [] at h
        by_cases c3 : cal + sc.amountOut ≤ U64_MAX
        · rw [if_pos c3] at h
          simp only [Except.ok.injEq] at h
          subst h
          constructor <;> simp only [] <;> omega
        · rw [if_neg c3] at h; cases h
      · rw [if_neg c2] at h; cases h
    · rw [if_neg c1] at h; cases h
  | false =>
    simp only [Bool.false_eq_true, if_false] at h ⊢
    unfold checkedSub64 checkedAdd64 at h
    by_cases c1 : sc.amountOut ≤ rem
    · rw [if_pos c1] at h
      simp only [] at h
      by_cases c2 : cal + sc.amountIn ≤ U64_MAX
      · rw [if_pos c2] at h
        simp only [] at h
        by_cases c3 : cal + sc.amountIn + sc.feeAmount ≤ U64_MAX
        · rw [if_pos c3] at h
          simp only [Except.ok.injEq] at h
          subst h
          constructor <;> simp only [] <;> omega
        · rw [if_neg c3] at h; cases h
      · rw [if_neg c2] at h; cases h
    · rw [if_neg c1] at h; cases h

/-- what one loop iteration does to the accounting fields -/
theorem swapStep_inv (c : SwapCtx) (s s' : SwapSt) (nai : Nat) (nti : Int) (ntp tgt : Nat)
    (h : swapStep c s nai nti ntp tgt = .ok s') :
    ∃ sc : SwapStep, ∃ bounded : Nat,
      computeSwap s.remaining s.fm.updateVolAcc.totalFeeRate s.liq s.price bounded c.isInput c.aToB = .ok sc ∧
      (if c.isInput then s.remaining = s'.remaining + sc.amountIn + sc.feeAmount ∧ s'.calculated = s.calculated + sc.amountOut
       else s.remaining = s'.remaining + sc.amountOut ∧ s'.calculated = s.calculated + sc.amountIn + sc.feeAmount) ∧
      s'.feeSum = s.feeSum + sc.feeAmount ∧ s'.feeSum ≤ U64_MAX ∧
      s'.protoFee = (calculateFees sc.feeAmount c.protoRate s.liq s.protoFee s.fgIn).1 ∧
      s'.steps = (s.liq, s.fm.updateVolAcc.totalFeeRate, sc.amountIn, sc.amountOut, sc.feeAmount, sc.nextPrice) :: s.steps ∧
      s'.price = sc.nextPrice := by
  unfold swapStep at h
  simp only [] at h
  split at h
  · cases h
  · rename_i sc hsc
    refine ⟨sc, _, hsc, ?_⟩
    split at h
    · cases h
    · rename_i ra hra
      split at h
      · cases h
      · rename_i feeSum hfee
        split at h
        · cases h
        · rename_i cr hcross
          split at h
          · cases h
          · rename_i fm' hfm
            simp only [Except.ok.injEq] at h
            subst h
            have hf : feeSum = s.feeSum + sc.feeAmount ∧ feeSum ≤ U64_MAX := by
              unfold checkedAdd64 at hfee
              by_cases c1 : s.feeSum + sc.feeAmount ≤ U64_MAX
              · rw [if_pos c1] at hfee; simp only [Except.ok.injEq] at hfee; subst hfee; exact ⟨rfl, c1⟩
              · rw [if_neg c1] at hfee; cases hfee
            exact ⟨stepAmounts_spec _ _ _ _ _ hra, hf.1, hf.2, rfl, rfl, rfl⟩

theorem calculateFees_proto (fee p liq cur fg : Nat) (h : cur + cut p fee < TWO64) :
    (calculateFees fee p liq cur fg).1 = cur + cut p fee := by
  unfold calculateFees
  unfold cut at h ⊢
  by_cases hp : p > 0
  · simp only [hp, if_true] at h ⊢
    unfold wadd64; rw [Nat.mod_eq_of_lt h]
  · simp only [hp, if_false] at h ⊢
    omega

theorem step_preserves (c : SwapCtx) (amount : Nat) (s s' : SwapSt) (nai : Nat) (nti : Int) (ntp tgt : Nat)
    (hp : c.protoRate ≤ PROTOCOL_FEE_RATE_MUL_VALUE)
    (inv : LoopInv c amount s) (h : swapStep c s nai nti ntp tgt = .ok s') : LoopInv c amount s' := by
  obtain ⟨sc, bounded, hsc, ham, hf1, hf2, hpr, hst, _⟩ := swapStep_inv c s s' nai nti ntp tgt h
  have hu : U64_MAX = 18446744073709551615 := rfl
  have ht : TWO64 = 18446744073709551616 := rfl
  refine ⟨?_, ?_, hf2, ?_, ?_⟩
  · rw [hst]
    have := inv.amounts
    by_cases hi : c.isInput = true
    · simp only [hi, if_true, sumIn, sumOut, sumFee] at this ham ⊢; omega
    · have hi' : c.isInput = false := by simpa using hi
      simp only [hi', Bool.false_eq_true, if_false, sumIn, sumOut, sumFee] at this ham ⊢; omega
  · rw [hst, hf1, inv.fees]; simp only [sumFee]; omega
  · rw [hst, hpr]
    simp only [sumCut]
    rw [calculateFees_proto, inv.proto]
    · omega
    · -- no wrap: Σ cuts ≤ Σ fees ≤ u64::MAX
      have h1 := sumCut_le c.protoRate hp s.steps
      have h2 := cut_le c.protoRate sc.feeAmount hp
      have := inv.proto; have := inv.fees
      omega
  · rw [hst]
    intro st hmem
    simp only [List.mem_cons] at hmem
    rcases hmem with e | e
    · subst e; exact ⟨_, _, _, hsc⟩
    · exact inv.valid st e

/-- the loop invariant holds on exit, and the loop stops only when the amount is exhausted or the
    (adjusted) price limit is reached -/
theorem loop_preserves (c : SwapCtx) (amount : Nat) (hp : c.protoRate ≤ PROTOCOL_FEE_RATE_MUL_VALUE) :
    ∀ (fuel : Nat) (s s' : SwapSt) (inner : Option (Nat × Int × Nat × Nat)),
      LoopInv c amount s → swapLoop c fuel s inner = .ok s' →
      LoopInv c amount s' ∧ (s'.remaining = 0 ∨ s'.price = c.limit) := by
  intro fuel
  induction fuel with
  | zero => intro s s' inner _ h; simp [swapLoop] at h
  | succ n ih =>
    intro s s' inner inv h
    cases inner with
    | none =>
      simp only [swapLoop] at h
      split at h
      · split at h
        · simp at h
        · rename_i r hr
          exact ih s s' _ inv h
      · rename_i hc
        simp only [Except.ok.injEq] at h
        subst h
        refine ⟨inv, ?_⟩
        simp only [Bool.and_eq_true, decide_eq_true_eq, not_and, Decidable.not_not, bne_iff_ne, ne_eq] at hc
        by_cases z : s.remaining = 0
        · left; exact z
        · right; exact (hc (by omega)).symm
    | some v =>
      obtain ⟨nai, nti, ntp, tgt⟩ := v
      simp only [swapLoop] at h
      split at h
      · simp at h
      · rename_i s1 hs1
        have inv1 := step_preserves c amount s s1 nai nti ntp tgt hp inv hs1
        split at h
        · exact ih s1 s' none inv1 h
        · exact ih s1 s' _ inv1 h

theorem sum_reverse (f : List Step → Nat) (g : Step → Nat) (hnil : f [] = 0) (hcons : ∀ x l, f (x :: l) = g x + f l) :
    ∀ l : List Step, f l.reverse = f l := by
  have aux : ∀ l acc, f (l.reverseAux acc) = f l + f acc := by
    intro l; induction l with
    | nil => intro acc; simp [List.reverseAux, hnil]
    | cons hd tl ih => intro acc; simp only [List.reverseAux, ih, hcons]; omega
  intro l
  have := aux l []
  rw [hnil] at this
  show f (l.reverseAux []) = f l
  omega

theorem sumIn_reverse (l : List Step) : sumIn l.reverse = sumIn l :=
  sum_reverse sumIn (fun x => x.2.2.1) rfl (by intro ⟨a, b, c, d, f, g⟩ l; rfl) l
theorem sumOut_reverse (l : List Step) : sumOut l.reverse = sumOut l :=
  sum_reverse sumOut (fun x => x.2.2.2.1) rfl (by intro ⟨a, b, c, d, f, g⟩ l; rfl) l
theorem sumFee_reverse (l : List Step) : sumFee l.reverse = sumFee l :=
  sum_reverse sumFee (fun x => x.2.2.2.2.1) rfl (by intro ⟨a, b, c, d, f, g⟩ l; rfl) l
theorem sumCut_reverse (p : Nat) (l : List Step) : sumCut p l.reverse = sumCut p l :=
  sum_reverse (sumCut p) (fun x => cut p x.2.2.2.2.1) rfl (by intro ⟨a, b, c, d, f, g⟩ l; rfl) l

theorem swap_inv (p : PoolD) (ticks : TickMap) (arrays : List Int) (amount limit : Nat) (isInput aToB : Bool)
    (now : Nat) (af : Option AfInfo) (fuel : Nat) (u : PostSwap)
    (h : swap p ticks arrays amount limit isInput aToB now af fuel = .ok u) :
    ∃ rewards fm s, swapGuard p amount limit aToB = .ok () ∧
      swapLoop (swapCtxOf p arrays limit isInput aToB rewards) fuel (swapInit p ticks amount aToB fm) none = .ok s ∧
      swapFinish p amount limit isInput aToB now rewards s = .ok u := by
  unfold swap at h
  split at h
  · cases h
  · rename_i hg
    split at h
    · cases h
    · rename_i rewards _
      split at h
      · cases h
      · rename_i fm _
        split at h
        · cases h
        · rename_i s hs
          exact ⟨rewards, fm, s, hg, hs, h⟩

/-- C06 / C03: the accounting of a whole successful swap. `u.steps` is the step trace. -/
theorem swap_accounting (p : PoolD) (ticks : TickMap) (arrays : List Int) (amount limit : Nat) (isInput aToB : Bool)
    (now : Nat) (af : Option AfInfo) (fuel : Nat) (u : PostSwap)
    (hp : p.protoRate ≤ PROTOCOL_FEE_RATE_MUL_VALUE)
    (h : swap p ticks arrays amount limit isInput aToB now af fuel = .ok u) :
    -- input / output token amounts of the trader
    (if aToB then u.amountA else u.amountB) = sumIn u.steps + sumFee u.steps ∧
    (if aToB then u.amountB else u.amountA) = sumOut u.steps ∧
    -- the fee splits exactly into the LP share and the protocol share, the latter floored per step
    u.lpFee + u.protoFee = sumFee u.steps ∧ u.protoFee = sumCut p.protoRate u.steps ∧
    -- bounds of C03
    (if isInput then (if aToB then u.amountA else u.amountB) ≤ amount else (if aToB then u.amountB else u.amountA) ≤ amount) ∧
    (isInput = false → limit = NO_EXPLICIT_SQRT_PRICE_LIMIT → (if aToB then u.amountB else u.amountA) = amount) ∧
    -- every trace entry is a successful compute_swap step
    StepsValid (swapCtxOf p arrays limit isInput aToB u.rewards) u.steps := by
  obtain ⟨rewards, fm, s, hg, hs, hfin⟩ := swap_inv _ _ _ _ _ _ _ _ _ _ _ h
  have inv0 : LoopInv (swapCtxOf p arrays limit isInput aToB rewards) amount (swapInit p ticks amount aToB fm) := by
    refine ⟨?_, by simp [swapInit, sumFee], by simp [swapInit, U64_MAX], by simp [swapInit, sumCut], ?_⟩
    · cases isInput <;> simp [swapCtxOf, swapInit, sumIn, sumOut, sumFee]
    · intro st hst; simp [swapInit] at hst
  obtain ⟨inv, _⟩ := loop_preserves _ amount (by simpa [swapCtxOf] using hp) fuel _ s none inv0 hs
  unfold swapFinish at hfin
  split at hfin
  · cases hfin
  · rename_i hpf
    split at hfin
    · cases hfin
    · rename_i fm' _
      simp only [Except.ok.injEq] at hfin
      subst hfin
      simp only [sumIn_reverse, sumOut_reverse, sumFee_reverse, sumCut_reverse]
      have ham := inv.amounts
      have hfee := inv.fees
      have hproto := inv.proto
      have hcutle := sumCut_le p.protoRate hp s.steps
      simp only [swapCtxOf] at ham hproto
      have hvalid : StepsValid (swapCtxOf p arrays limit isInput aToB rewards) s.steps.reverse := by
        intro st hst; exact inv.valid st (by simpa using hst)
      refine ⟨?_, ?_, by omega, hproto, ?_, ?_, hvalid⟩
      · cases isInput <;> cases aToB <;> simp at ham ⊢ <;> omega
      · cases isInput <;> cases aToB <;> simp at ham ⊢ <;> omega
      · cases isInput <;> cases aToB <;> simp at ham ⊢ <;> omega
      · intro h1 h2
        subst h1
        have : s.remaining = 0 := by
          by_contra hc
          apply hpf
          simp [h2]; omega
        cases aToB <;> simp at ham ⊢ <;> omega

-- Non-vacuity: a concrete two-step swap crossing an initialized tick (see WP/Props/C03 examples)

end WP.C06
