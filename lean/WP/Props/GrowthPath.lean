import WP.Props.SwapPath
import WP.Props.C07
/-
  C07 along the whole swap: the fee growth INSIDE a position's range advances by exactly the
  growth of the steps taken while the current tick was inside the range, and each step's growth is
  the pro-rata share ⌊lpFee · 2^64 / L⌋ of that step's LP fee, L being the sum of the liquidity of
  the positions in range at that step.  Crossing a tick (flipping its `outside` values) never
  changes the growth inside any range, for either token.

  Built on: the per-crossing lemmas of C07 (cross_lower/upper_left/right, inside_tracks_in_range,
  inside_const_below/above), the `Shape` of an iteration and the loop theorem `loop_path_inv`
  (WP/Props/SwapPath.lean).
-/
set_option linter.unusedSimpArgs false
namespace WP.Growth
open WP WP.Gen WP.C05 WP.C10 WP.Path WP.C07

/-- the fee-growth-outside value of a tick for token A (`true`) or B (`false`) -/
def fo (tokA : Bool) (t : TickData) : Nat := if tokA then t.fgoA else t.fgoB

theorem fo_cross (tokA : Bool) (t : TickData) (ga gb : Nat) (rw : List RewardInfo) :
    fo tokA (nextTickCrossUpdate t ga gb rw) = wsub (if tokA then ga else gb) (fo tokA t) := by
  unfold nextTickCrossUpdate fo
  cases tokA
  · simp only [Bool.false_eq_true, if_false]
  · simp only [if_true]

/-- every stored growth value is a u128 -/
def TicksWF (ticks : TickMap) : Prop := ∀ t, (ticks.get t).fgoA < TWO128 ∧ (ticks.get t).fgoB < TWO128

theorem fo_lt (tokA : Bool) (ticks : TickMap) (wf : TicksWF ticks) (t : Int) : fo tokA (ticks.get t) < TWO128 := by
  unfold fo; cases tokA
  · exact (wf t).2
  · exact (wf t).1

/-- the growth inside [lo, hi) for one token, read from a tick map at a current tick index -/
def inside (tokA : Bool) (ticks : TickMap) (cur lo hi : Int) (glob : Nat) : Nat :=
  insideInit cur lo (fo tokA (ticks.get lo)) hi (fo tokA (ticks.get hi)) glob

theorem inside_cur_congr (cur cur' lo hi : Int) (oL oH g : Nat) (h1 : cur < lo ↔ cur' < lo) (h2 : cur < hi ↔ cur' < hi) :
    insideInit cur lo oL hi oH g = insideInit cur' lo oL hi oH g := by
  unfold insideInit
  by_cases a : cur < lo <;> by_cases b : cur < hi
  · simp only [a, b, h1.mp a, h2.mp b, if_true]
  · have b' : ¬ cur' < hi := fun x => b (h2.mpr x)
    simp only [a, b, h1.mp a, b', if_true, if_false]
  · have a' : ¬ cur' < lo := fun x => a (h1.mpr x)
    simp only [a, b, a', h2.mp b, if_true, if_false]
  · have a' : ¬ cur' < lo := fun x => a (h1.mpr x)
    have b' : ¬ cur' < hi := fun x => b (h2.mpr x)
    simp only [a, b, a', b', if_false]

/-- a bound of a position that holds liquidity: initialized in every tick map consistent with `ps` -/
def Bound (ps : List (Nat × PositionD)) (t : Int) : Prop := 0 < sumBy (grossContrib t) ps

theorem bound_init (ticks : TickMap) (ps : List (Nat × PositionD)) (ts : Nat) (tf : TickFacts ticks ps ts) (t : Int)
    (h : Bound ps t) : initAt ticks t = true ∧ t % (ts : Int) = 0 := by
  have h1 := tf.init t
  have h2 := tf.gross t
  unfold Bound at h
  have : (ticks.get t).gross > 0 := by omega
  have hi : initAt ticks t = true := by unfold initAt; rw [h1]; exact decide_eq_true this
  exact ⟨hi, (init_grid ticks ps ts tf t hi).1⟩

/-- **moving the tick index along one iteration (with its possible crossing) never changes the
    growth inside a range**, for the token whose global growth at the crossing is `G` -/
theorem move_inside (c : SwapCtx) (ps : List (Nat × PositionD)) (s s' : SwapSt) (nti lo hi : Int) (tokA : Bool) (G : Nat)
    (tf : TickFacts s.ticks ps c.ts) (wf : TicksWF s.ticks) (hG : G < TWO128) (hlh : lo < hi)
    (bl : Bound ps lo) (bh : Bound ps hi)
    (hmove : (s'.tick = (if c.aToB then nti - 1 else nti) ∧
      ((initAt s.ticks nti = true ∧ ∃ ga gb, (if tokA then ga else gb) = G ∧
          s'.ticks = s.ticks.set nti (nextTickCrossUpdate (s.ticks.get nti) ga gb c.rewards)) ∨
       (initAt s.ticks nti = false ∧ s'.ticks = s.ticks)) ∧
      (if c.aToB then nti ≤ s.tick ∧ ∀ x, nti < x → x ≤ s.tick → x % (c.ts : Int) = 0 → initAt s.ticks x = false
       else s.tick < nti ∧ ∀ x, s.tick < x → x < nti → x % (c.ts : Int) = 0 → initAt s.ticks x = false)) ∨
     (s'.ticks = s.ticks ∧
      (if c.aToB then s'.tick ≤ s.tick ∧ ∀ x, s'.tick < x → x ≤ s.tick → x % (c.ts : Int) = 0 → initAt s.ticks x = false
       else s.tick ≤ s'.tick ∧ ∀ x, s.tick < x → x ≤ s'.tick → x % (c.ts : Int) = 0 → initAt s.ticks x = false))) :
    inside tokA s'.ticks s'.tick lo hi G = inside tokA s.ticks s.tick lo hi G := by
  obtain ⟨il, gl⟩ := bound_init s.ticks ps c.ts tf lo bl
  obtain ⟨ih, gh⟩ := bound_init s.ticks ps c.ts tf hi bh
  have hoL := fo_lt tokA s.ticks wf lo
  have hoH := fo_lt tokA s.ticks wf hi
  unfold inside
  rcases hmove with ⟨htick, hflip, hpath⟩ | ⟨hticks, hpath⟩
  · by_cases hd : c.aToB = true
    · rw [if_pos hd] at htick hpath
      obtain ⟨hle, hno⟩ := hpath
      -- lo and hi are not strictly between nti and the old tick
      have nl : ¬ (nti < lo ∧ lo ≤ s.tick) := fun ⟨a, b⟩ => by have := hno lo a b gl; rw [il] at this; cases this
      have nh : ¬ (nti < hi ∧ hi ≤ s.tick) := fun ⟨a, b⟩ => by have := hno hi a b gh; rw [ih] at this; cases this
      -- first: from the old tick down to nti, nothing changes
      have e1 : insideInit s.tick lo (fo tokA (s.ticks.get lo)) hi (fo tokA (s.ticks.get hi)) G =
          insideInit nti lo (fo tokA (s.ticks.get lo)) hi (fo tokA (s.ticks.get hi)) G :=
        inside_cur_congr _ _ _ _ _ _ _ (by constructor <;> intro h <;> omega) (by constructor <;> intro h <;> omega)
      rw [e1, htick]
      rcases hflip with ⟨hin, ga, gb, hgG, hset⟩ | ⟨hin, hsame⟩
      · rw [hset, C05.tick_get_set, C05.tick_get_set]
        by_cases e : lo = nti
        · have e' : ¬ hi = nti := by omega
          rw [if_pos e, if_neg e', fo_cross, hgG, ← e]
          exact cross_lower_left lo hi _ _ G hlh hG hoL
        · rw [if_neg e]
          by_cases e' : hi = nti
          · rw [if_pos e', fo_cross, hgG, ← e']
            exact cross_upper_left lo hi _ _ G hlh hG hoH
          · rw [if_neg e']
            exact inside_cur_congr _ _ _ _ _ _ _ (by constructor <;> intro h <;> omega) (by constructor <;> intro h <;> omega)
      · rw [hsame]
        have e : ¬ lo = nti := fun e => by rw [e, hin] at il; cases il
        have e' : ¬ hi = nti := fun e => by rw [e, hin] at ih; cases ih
        exact inside_cur_congr _ _ _ _ _ _ _ (by constructor <;> intro h <;> omega) (by constructor <;> intro h <;> omega)
    · rw [if_neg hd] at htick hpath
      obtain ⟨hlt, hno⟩ := hpath
      have nl : ¬ (s.tick < lo ∧ lo < nti) := fun ⟨a, b⟩ => by have := hno lo a b gl; rw [il] at this; cases this
      have nh : ¬ (s.tick < hi ∧ hi < nti) := fun ⟨a, b⟩ => by have := hno hi a b gh; rw [ih] at this; cases this
      have e1 : insideInit s.tick lo (fo tokA (s.ticks.get lo)) hi (fo tokA (s.ticks.get hi)) G =
          insideInit (nti - 1) lo (fo tokA (s.ticks.get lo)) hi (fo tokA (s.ticks.get hi)) G :=
        inside_cur_congr _ _ _ _ _ _ _ (by constructor <;> intro h <;> omega) (by constructor <;> intro h <;> omega)
      rw [e1, htick]
      rcases hflip with ⟨hin, ga, gb, hgG, hset⟩ | ⟨hin, hsame⟩
      · rw [hset, C05.tick_get_set, C05.tick_get_set]
        by_cases e : lo = nti
        · have e' : ¬ hi = nti := by omega
          rw [if_pos e, if_neg e', fo_cross, hgG, ← e]
          exact cross_lower_right lo hi _ _ G hlh hG hoL
        · rw [if_neg e]
          by_cases e' : hi = nti
          · rw [if_pos e', fo_cross, hgG, ← e']
            exact cross_upper_right lo hi _ _ G hlh hG hoH
          · rw [if_neg e']
            exact inside_cur_congr _ _ _ _ _ _ _ (by constructor <;> intro h <;> omega) (by constructor <;> intro h <;> omega)
      · rw [hsame]
        have e : ¬ lo = nti := fun e => by rw [e, hin] at il; cases il
        have e' : ¬ hi = nti := fun e => by rw [e, hin] at ih; cases ih
        exact inside_cur_congr _ _ _ _ _ _ _ (by constructor <;> intro h <;> omega) (by constructor <;> intro h <;> omega)
  · rw [hticks]
    by_cases hd : c.aToB = true
    · rw [if_pos hd] at hpath
      obtain ⟨hle, hno⟩ := hpath
      have nl : ¬ (s'.tick < lo ∧ lo ≤ s.tick) := fun ⟨a, b⟩ => by have := hno lo a b gl; rw [il] at this; cases this
      have nh : ¬ (s'.tick < hi ∧ hi ≤ s.tick) := fun ⟨a, b⟩ => by have := hno hi a b gh; rw [ih] at this; cases this
      exact inside_cur_congr _ _ _ _ _ _ _ (by constructor <;> intro h <;> omega) (by constructor <;> intro h <;> omega)
    · rw [if_neg hd] at hpath
      obtain ⟨hle, hno⟩ := hpath
      have nl : ¬ (s.tick < lo ∧ lo ≤ s'.tick) := fun ⟨a, b⟩ => by have := hno lo a b gl; rw [il] at this; cases this
      have nh : ¬ (s.tick < hi ∧ hi ≤ s'.tick) := fun ⟨a, b⟩ => by have := hno hi a b gh; rw [ih] at this; cases this
      exact inside_cur_congr _ _ _ _ _ _ _ (by constructor <;> intro h <;> omega) (by constructor <;> intro h <;> omega)

/-- the same for ANY per-tick accumulator `proj` that a crossing flips against `G` (fees A, B and each
    initialized reward) -/
theorem move_inside_gen (c : SwapCtx) (ps : List (Nat × PositionD)) (s s' : SwapSt) (nti lo hi : Int) (proj : TickData → Nat) (G : Nat)
    (tf : TickFacts s.ticks ps c.ts) (wf : ∀ t, proj (s.ticks.get t) < TWO128) (hG : G < TWO128) (hlh : lo < hi)
    (bl : Bound ps lo) (bh : Bound ps hi)
    (hmove : (s'.tick = (if c.aToB then nti - 1 else nti) ∧
      ((initAt s.ticks nti = true ∧ ∃ T', s'.ticks = s.ticks.set nti T' ∧ proj T' = wsub G (proj (s.ticks.get nti))) ∨
       (initAt s.ticks nti = false ∧ s'.ticks = s.ticks)) ∧
      (if c.aToB then nti ≤ s.tick ∧ ∀ x, nti < x → x ≤ s.tick → x % (c.ts : Int) = 0 → initAt s.ticks x = false
       else s.tick < nti ∧ ∀ x, s.tick < x → x < nti → x % (c.ts : Int) = 0 → initAt s.ticks x = false)) ∨
     (s'.ticks = s.ticks ∧
      (if c.aToB then s'.tick ≤ s.tick ∧ ∀ x, s'.tick < x → x ≤ s.tick → x % (c.ts : Int) = 0 → initAt s.ticks x = false
       else s.tick ≤ s'.tick ∧ ∀ x, s.tick < x → x ≤ s'.tick → x % (c.ts : Int) = 0 → initAt s.ticks x = false))) :
    insideInit s'.tick lo (proj (s'.ticks.get lo)) hi (proj (s'.ticks.get hi)) G =
      insideInit s.tick lo (proj (s.ticks.get lo)) hi (proj (s.ticks.get hi)) G := by
  obtain ⟨il, gl⟩ := bound_init s.ticks ps c.ts tf lo bl
  obtain ⟨ih, gh⟩ := bound_init s.ticks ps c.ts tf hi bh
  have hoL := wf lo
  have hoH := wf hi
  rcases hmove with ⟨htick, hflip, hpath⟩ | ⟨hticks, hpath⟩
  · by_cases hd : c.aToB = true
    · rw [if_pos hd] at htick hpath
      obtain ⟨hle, hno⟩ := hpath
      -- lo and hi are not strictly between nti and the old tick
      have nl : ¬ (nti < lo ∧ lo ≤ s.tick) := fun ⟨a, b⟩ => by have := hno lo a b gl; rw [il] at this; cases this
      have nh : ¬ (nti < hi ∧ hi ≤ s.tick) := fun ⟨a, b⟩ => by have := hno hi a b gh; rw [ih] at this; cases this
      -- first: from the old tick down to nti, nothing changes
      have e1 : insideInit s.tick lo (proj (s.ticks.get lo)) hi (proj (s.ticks.get hi)) G =
          insideInit nti lo (proj (s.ticks.get lo)) hi (proj (s.ticks.get hi)) G :=
        inside_cur_congr _ _ _ _ _ _ _ (by constructor <;> intro h <;> omega) (by constructor <;> intro h <;> omega)
      rw [e1, htick]
      rcases hflip with ⟨hin, T', hset, hproj⟩ | ⟨hin, hsame⟩
      · rw [hset, C05.tick_get_set, C05.tick_get_set]
        by_cases e : lo = nti
        · have e' : ¬ hi = nti := by omega
          rw [if_pos e, if_neg e', hproj, ← e]
          exact cross_lower_left lo hi _ _ G hlh hG hoL
        · rw [if_neg e]
          by_cases e' : hi = nti
          · rw [if_pos e', hproj, ← e']
            exact cross_upper_left lo hi _ _ G hlh hG hoH
          · rw [if_neg e']
            exact inside_cur_congr _ _ _ _ _ _ _ (by constructor <;> intro h <;> omega) (by constructor <;> intro h <;> omega)
      · rw [hsame]
        have e : ¬ lo = nti := fun e => by rw [e, hin] at il; cases il
        have e' : ¬ hi = nti := fun e => by rw [e, hin] at ih; cases ih
        exact inside_cur_congr _ _ _ _ _ _ _ (by constructor <;> intro h <;> omega) (by constructor <;> intro h <;> omega)
    · rw [if_neg hd] at htick hpath
      obtain ⟨hlt, hno⟩ := hpath
      have nl : ¬ (s.tick < lo ∧ lo < nti) := fun ⟨a, b⟩ => by have := hno lo a b gl; rw [il] at this; cases this
      have nh : ¬ (s.tick < hi ∧ hi < nti) := fun ⟨a, b⟩ => by have := hno hi a b gh; rw [ih] at this; cases this
      have e1 : insideInit s.tick lo (proj (s.ticks.get lo)) hi (proj (s.ticks.get hi)) G =
          insideInit (nti - 1) lo (proj (s.ticks.get lo)) hi (proj (s.ticks.get hi)) G :=
        inside_cur_congr _ _ _ _ _ _ _ (by constructor <;> intro h <;> omega) (by constructor <;> intro h <;> omega)
      rw [e1, htick]
      rcases hflip with ⟨hin, T', hset, hproj⟩ | ⟨hin, hsame⟩
      · rw [hset, C05.tick_get_set, C05.tick_get_set]
        by_cases e : lo = nti
        · have e' : ¬ hi = nti := by omega
          rw [if_pos e, if_neg e', hproj, ← e]
          exact cross_lower_right lo hi _ _ G hlh hG hoL
        · rw [if_neg e]
          by_cases e' : hi = nti
          · rw [if_pos e', hproj, ← e']
            exact cross_upper_right lo hi _ _ G hlh hG hoH
          · rw [if_neg e']
            exact inside_cur_congr _ _ _ _ _ _ _ (by constructor <;> intro h <;> omega) (by constructor <;> intro h <;> omega)
      · rw [hsame]
        have e : ¬ lo = nti := fun e => by rw [e, hin] at il; cases il
        have e' : ¬ hi = nti := fun e => by rw [e, hin] at ih; cases ih
        exact inside_cur_congr _ _ _ _ _ _ _ (by constructor <;> intro h <;> omega) (by constructor <;> intro h <;> omega)
  · rw [hticks]
    by_cases hd : c.aToB = true
    · rw [if_pos hd] at hpath
      obtain ⟨hle, hno⟩ := hpath
      have nl : ¬ (s'.tick < lo ∧ lo ≤ s.tick) := fun ⟨a, b⟩ => by have := hno lo a b gl; rw [il] at this; cases this
      have nh : ¬ (s'.tick < hi ∧ hi ≤ s.tick) := fun ⟨a, b⟩ => by have := hno hi a b gh; rw [ih] at this; cases this
      exact inside_cur_congr _ _ _ _ _ _ _ (by constructor <;> intro h <;> omega) (by constructor <;> intro h <;> omega)
    · rw [if_neg hd] at hpath
      obtain ⟨hle, hno⟩ := hpath
      have nl : ¬ (s.tick < lo ∧ lo ≤ s'.tick) := fun ⟨a, b⟩ => by have := hno lo a b gl; rw [il] at this; cases this
      have nh : ¬ (s.tick < hi ∧ hi ≤ s'.tick) := fun ⟨a, b⟩ => by have := hno hi a b gh; rw [ih] at this; cases this
      exact inside_cur_congr _ _ _ _ _ _ _ (by constructor <;> intro h <;> omega) (by constructor <;> intro h <;> omega)


/-! ### the global growth advances while the tick index stands still -/

theorem advance_inside (tokA : Bool) (ticks : TickMap) (cur lo hi : Int) (g d : Nat) (wf : TicksWF ticks) (hg : g < TWO128)
    (hlh : lo < hi) :
    inside tokA ticks cur lo hi (wadd g d) =
      if lo ≤ cur ∧ cur < hi then wadd (inside tokA ticks cur lo hi g) d else inside tokA ticks cur lo hi g := by
  have hoL := fo_lt tokA ticks wf lo
  have hoH := fo_lt tokA ticks wf hi
  unfold inside
  by_cases h : lo ≤ cur ∧ cur < hi
  · rw [if_pos h]; exact inside_tracks_in_range cur lo hi _ _ g d h.1 h.2 hg hoL hoH
  · rw [if_neg h]
    by_cases hb : cur < lo
    · exact inside_const_below cur lo hi _ _ g d hb hlh hg hoL hoH
    · exact inside_const_above cur lo hi _ _ g d (by omega) hlh hg hoL hoH

/-! ### the ghost log of a swap -/

def wsum (base : Nat) (l : List Nat) : Nat := l.foldl wadd base

theorem wsum_nil (base : Nat) : wsum base [] = base := rfl

theorem wsum_append (base : Nat) (l : List Nat) (d : Nat) : wsum base (l ++ [d]) = wadd (wsum base l) d := by
  unfold wsum; rw [List.foldl_append]; rfl

/-- the pro-rata share of a step's LP fee per unit of liquidity, Q64.64, rounded down -/
def share (L lpFee : Nat) : Nat := if L > 0 then lpFee * TWO64 / L else 0

/-- the growth deltas of the steps taken while the tick index was inside [lo, hi) -/
def inRangeDeltas (log : List (Int × Nat)) (lo hi : Int) : List Nat :=
  (log.filter fun e => decide (lo ≤ e.1 ∧ e.1 < hi)).map (·.2)

theorem inRangeDeltas_nil (lo hi : Int) : inRangeDeltas [] lo hi = [] := rfl

theorem inRangeDeltas_append (log : List (Int × Nat)) (t : Int) (d : Nat) (lo hi : Int) :
    inRangeDeltas (log ++ [(t, d)]) lo hi = if lo ≤ t ∧ t < hi then inRangeDeltas log lo hi ++ [d] else inRangeDeltas log lo hi := by
  unfold inRangeDeltas
  rw [List.filter_append]
  by_cases h : lo ≤ t ∧ t < hi
  · rw [if_pos h]
    have : List.filter (fun e : Int × Nat => decide (lo ≤ e.1 ∧ e.1 < hi)) [(t, d)] = [(t, d)] := by
      simp [List.filter, h]
    rw [this, List.map_append]; rfl
  · rw [if_neg h]
    have : List.filter (fun e : Int × Nat => decide (lo ≤ e.1 ∧ e.1 < hi)) [(t, d)] = [] := by
      simp [List.filter, h]
    rw [this, List.append_nil]

def globOther (c : SwapCtx) : Nat := if c.aToB then c.fgOtherB else c.fgOtherA

/-- the accounting invariant of the loop, relative to the state `s0` at which the swap started -/
structure GrowthInv (c : SwapCtx) (ps : List (Nat × PositionD)) (s0 s : SwapSt) (log : List (Int × Nat)) : Prop where
  wf : TicksWF s.ticks
  fg : s.fgIn < TWO128
  total : s.fgIn = wsum s0.fgIn (log.map (·.2))
  pro : ∀ e ∈ log, ∃ lpFee, e.2 = share (sumBy (inRangeLiq e.1) ps).toNat lpFee
  inIn : ∀ lo hi, lo < hi → Bound ps lo → Bound ps hi →
    inside c.aToB s.ticks s.tick lo hi s.fgIn = wsum (inside c.aToB s0.ticks s0.tick lo hi s0.fgIn) (inRangeDeltas log lo hi)
  inOther : ∀ lo hi, lo < hi → Bound ps lo → Bound ps hi →
    inside (!c.aToB) s.ticks s.tick lo hi (globOther c) = inside (!c.aToB) s0.ticks s0.tick lo hi (globOther c)

theorem ticksWF_cross (ticks : TickMap) (wf : TicksWF ticks) (nti : Int) (ga gb : Nat) (rw : List RewardInfo) :
    TicksWF (ticks.set nti (nextTickCrossUpdate (ticks.get nti) ga gb rw)) := by
  intro t
  rw [C05.tick_get_set]
  by_cases e : t = nti
  · rw [if_pos e]
    unfold nextTickCrossUpdate
    exact ⟨wsub_lt _ _, wsub_lt _ _⟩
  · rw [if_neg e]; exact wf t

/-- one iteration keeps the accounting invariant, extending the log by the step just taken -/
theorem step_growth (c : SwapCtx) (ps : List (Nat × PositionD)) (p0 : Nat) (s0 s s' : SwapSt) (nai : Nat) (nti : Int)
    (hGo : globOther c < TWO128)
    (P : Path c ps p0 s) (_A : Aim c s nai nti) (sh : Shape c s s' nti) (_P' : Path c ps p0 s')
    (q : ∃ log, GrowthInv c ps s0 s log) : ∃ log, GrowthInv c ps s0 s' log := by
  obtain ⟨log, inv⟩ := q
  obtain ⟨⟨fee, hfee⟩, hmove⟩ := sh
  -- the growth of this step
  have hliq : s.liq = (sumBy (inRangeLiq s.tick) ps).toNat := by have := P.liq; omega
  obtain ⟨d, hd, hdshare⟩ : ∃ d, s'.fgIn = wadd s.fgIn d ∧ ∃ lpFee, d = share s.liq lpFee := by
    unfold calculateFees at hfee
    simp only [] at hfee
    by_cases hl : s.liq > 0
    · rw [if_pos hl] at hfee
      exact ⟨_, hfee, _, by unfold share; rw [if_pos hl]⟩
    · rw [if_neg hl] at hfee
      refine ⟨0, ?_, 0, by unfold share; rw [if_neg hl]⟩
      rw [hfee]; unfold wadd; have := inv.fg; rw [Nat.add_zero, Nat.mod_eq_of_lt this]
  have hfg' : s'.fgIn < TWO128 := by rw [hd]; exact wadd_lt _ _
  refine ⟨log ++ [(s.tick, d)], ?_⟩
  -- the movement part of `Shape`, in the form `move_inside` takes, for each token
  have mv : ∀ (tokA : Bool) (G : Nat), (if tokA then (if c.aToB then s'.fgIn else c.fgOtherA) else (if c.aToB then c.fgOtherB else s'.fgIn)) = G →
      G < TWO128 → ∀ lo hi, lo < hi → Bound ps lo → Bound ps hi →
      inside tokA s'.ticks s'.tick lo hi G = inside tokA s.ticks s.tick lo hi G := by
    intro tokA G hG hGlt lo hi hlh bl bh
    apply move_inside c ps s s' nti lo hi tokA G P.tf inv.wf hGlt hlh bl bh
    rcases hmove with ⟨a, b, c'⟩ | h2
    · left
      refine ⟨a, ?_, c'⟩
      rcases b with ⟨b1, b2⟩ | b
      · left; exact ⟨b1, _, _, hG, b2⟩
      · right; exact b
    · right; exact h2
  exact
    { wf := by
        rcases hmove with ⟨_, b, _⟩ | ⟨h2, _⟩
        · rcases b with ⟨_, b2⟩ | ⟨_, b2⟩
          · rw [b2]; exact ticksWF_cross _ inv.wf _ _ _ _
          · rw [b2]; exact inv.wf
        · rw [h2]; exact inv.wf,
      fg := hfg',
      total := by rw [List.map_append, List.map_cons, List.map_nil, wsum_append, ← inv.total]; exact hd,
      pro := by
        intro e he
        rcases List.mem_append.mp he with h | h
        · exact inv.pro e h
        · have : e = (s.tick, d) := by simpa using h
          rw [this]
          obtain ⟨lp, hlp⟩ := hdshare
          exact ⟨lp, by rw [hlp, hliq]⟩,
      inIn := by
        intro lo hi hlh bl bh
        have hG : (if c.aToB then (if c.aToB then s'.fgIn else c.fgOtherA) else (if c.aToB then c.fgOtherB else s'.fgIn)) = s'.fgIn := by
          cases c.aToB <;> simp
        rw [mv c.aToB s'.fgIn hG hfg' lo hi hlh bl bh, hd, advance_inside _ _ _ _ _ _ _ inv.wf inv.fg hlh,
          inRangeDeltas_append, inv.inIn lo hi hlh bl bh]
        by_cases hr : lo ≤ s.tick ∧ s.tick < hi
        · rw [if_pos hr, if_pos hr, wsum_append]
        · rw [if_neg hr, if_neg hr],
      inOther := by
        intro lo hi hlh bl bh
        have hG : (if (!c.aToB) then (if c.aToB then s'.fgIn else c.fgOtherA) else (if c.aToB then c.fgOtherB else s'.fgIn)) = globOther c := by
          unfold globOther; cases c.aToB <;> simp
        rw [mv (!c.aToB) (globOther c) hG hGo lo hi hlh bl bh]
        exact inv.inOther lo hi hlh bl bh }

/-! ### the whole swap -/

/-- **C07 for a whole swap** (any pool state consistent with the positions `ps`, any amount, limit,
    mode, direction, fee mode, number of steps and arrays): there is a log of the steps taken —
    (tick index during the step, growth of that step) — such that
      * the input token's global fee growth advanced by the sum of all step growths,
      * every step growth is ⌊lpFee · 2^64 / L⌋ with L the total liquidity of the positions in range
        at that step (pro-rata),
      * for every range [lo, hi) bounded by liquidity-bearing ticks, the fee growth INSIDE the range
        advanced by exactly the growths of the steps taken while the tick index was inside the range
        — nothing while the price was outside, nothing from crossing ticks —
      * and the other token's growth inside did not move at all.
    All sums are in Z/2^128, like the accumulators. -/
theorem swap_fee_growth (p : PoolD) (ticks : TickMap) (ps : List (Nat × PositionD)) (arrays : List Int) (amount limit : Nat)
    (isInput aToB : Bool) (now fuel : Nat) (af : Option AfInfo) (u : PostSwap)
    (hts : 0 < p.ts) (hseq : SeqOK arrays p.ts aToB)
    (hliq : (p.liq : Int) = sumBy (inRangeLiq p.tick) ps) (tf : TickFacts ticks ps p.ts) (tp : TP p.tick p.price)
    (hL : p.liq ≤ U128_MAX) (hfee : p.feeRate ≤ FEE_RATE_HARD_LIMIT) (hamt : amount ≤ U64_MAX)
    (haf : ∀ info, af = some info → InfoOK info)
    (wf : TicksWF ticks) (hgA : p.fgA < TWO128) (hgB : p.fgB < TWO128)
    (h : swap p ticks arrays amount limit isInput aToB now af fuel = .ok u) :
    ∃ log : List (Int × Nat),
      u.fgIn = wsum (if aToB then p.fgA else p.fgB) (log.map (·.2)) ∧
      (∀ e ∈ log, ∃ lpFee, e.2 = share (sumBy (inRangeLiq e.1) ps).toNat lpFee) ∧
      (∀ lo hi, lo < hi → Bound ps lo → Bound ps hi →
        inside aToB u.ticks u.tick lo hi u.fgIn =
          wsum (inside aToB ticks p.tick lo hi (if aToB then p.fgA else p.fgB)) (inRangeDeltas log lo hi) ∧
        inside (!aToB) u.ticks u.tick lo hi (if aToB then p.fgB else p.fgA) =
          inside (!aToB) ticks p.tick lo hi (if aToB then p.fgB else p.fgA)) ∧
      TicksWF u.ticks ∧ u.fgIn < TWO128 := by
  obtain ⟨rewards, fm, s, ok, P0, hloop, hfin, _⟩ :=
    swap_setup p ticks ps arrays amount limit isInput aToB now fuel af u hts hseq hliq tf tp hL hfee hamt haf h
  have hGo : globOther (swapCtxOf p arrays limit isInput aToB rewards) < TWO128 := by
    unfold globOther swapCtxOf
    simp only []
    split <;> assumption
  have hfg0 : (swapInit p ticks amount aToB fm).fgIn < TWO128 := by
    unfold swapInit
    simp only []
    split <;> assumption
  have q0 : ∃ log, GrowthInv (swapCtxOf p arrays limit isInput aToB rewards) ps (swapInit p ticks amount aToB fm)
      (swapInit p ticks amount aToB fm) log :=
    ⟨[], { wf := wf, fg := hfg0, total := by rw [List.map_nil, wsum_nil], pro := fun e he => (by cases he),
           inIn := fun lo hi _ _ _ => by rw [inRangeDeltas_nil, wsum_nil], inOther := fun _ _ _ _ _ => Eq.refl _ }⟩
  obtain ⟨_, log, inv⟩ := loop_path_inv _ ps p.price ok
    (fun st => ∃ log, GrowthInv (swapCtxOf p arrays limit isInput aToB rewards) ps (swapInit p ticks amount aToB fm) st log)
    (fun a b nai nti Pa A sh Pb q => step_growth _ ps p.price _ a b nai nti hGo Pa A sh Pb q)
    fuel _ none s P0 q0 (fun _ _ _ _ he => by cases he) hloop
  unfold swapFinish at hfin
  split at hfin
  · cases hfin
  · split at hfin
    · cases hfin
    · cases hfin
      refine ⟨log, inv.total, inv.pro, ?_, inv.wf, inv.fg⟩
      intro lo hi hlh bl bh
      exact ⟨inv.inIn lo hi hlh bl bh, inv.inOther lo hi hlh bl bh⟩

end WP.Growth
