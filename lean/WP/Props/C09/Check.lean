import WP.Model.TickMath
/-
  C09: the checking functions the kernel evaluates over every tick, and their soundness.
  No Mathlib.  Kernel-friendly style throughout (Nat.mul / Nat.shiftRight / cond …).
-/
namespace WP.C09
open WP WP.Gen

/-- forward facts about consecutive tick prices `p = sp t`, `q = sp (t+1)`: strictly increasing,
    and (q/p)^2 = 1.0001 to within 2^-32 relative error on q/p -/
def stepOk (p q : Nat) : Bool :=
  Nat.blt p q
  && Nat.ble (Nat.mul (Nat.pow (Nat.mul p 4294967295) 2) 10001) (Nat.mul (Nat.pow (Nat.mul q 4294967296) 2) 10000)
  && Nat.ble (Nat.mul (Nat.pow (Nat.mul q 4294967296) 2) 10000) (Nat.mul (Nat.pow (Nat.mul p 4294967297) 2) 10001)

/-- the 14 iterations of the log2 loop, unrolled, returning `log2p_fraction_x64 >> 32` -/
def log2U (r0 : Nat) : Nat :=
  let q := Nat.mul r0 r0; let m0 := Nat.shiftRight q 127; let r1 := Nat.shiftRight q (Nat.add 63 m0)
  let q := Nat.mul r1 r1; let m1 := Nat.shiftRight q 127; let r2 := Nat.shiftRight q (Nat.add 63 m1)
  let q := Nat.mul r2 r2; let m2 := Nat.shiftRight q 127; let r3 := Nat.shiftRight q (Nat.add 63 m2)
  let q := Nat.mul r3 r3; let m3 := Nat.shiftRight q 127; let r4 := Nat.shiftRight q (Nat.add 63 m3)
  let q := Nat.mul r4 r4; let m4 := Nat.shiftRight q 127; let r5 := Nat.shiftRight q (Nat.add 63 m4)
  let q := Nat.mul r5 r5; let m5 := Nat.shiftRight q 127; let r6 := Nat.shiftRight q (Nat.add 63 m5)
  let q := Nat.mul r6 r6; let m6 := Nat.shiftRight q 127; let r7 := Nat.shiftRight q (Nat.add 63 m6)
  let q := Nat.mul r7 r7; let m7 := Nat.shiftRight q 127; let r8 := Nat.shiftRight q (Nat.add 63 m7)
  let q := Nat.mul r8 r8; let m8 := Nat.shiftRight q 127; let r9 := Nat.shiftRight q (Nat.add 63 m8)
  let q := Nat.mul r9 r9; let m9 := Nat.shiftRight q 127; let r10 := Nat.shiftRight q (Nat.add 63 m9)
  let q := Nat.mul r10 r10; let m10 := Nat.shiftRight q 127; let r11 := Nat.shiftRight q (Nat.add 63 m10)
  let q := Nat.mul r11 r11; let m11 := Nat.shiftRight q 127; let r12 := Nat.shiftRight q (Nat.add 63 m11)
  let q := Nat.mul r12 r12; let m12 := Nat.shiftRight q 127; let r13 := Nat.shiftRight q (Nat.add 63 m12)
  let q := Nat.mul r13 r13; let m13 := Nat.shiftRight q 127
  (Nat.add (Nat.mul m0 2147483648) (Nat.add (Nat.mul m1 1073741824) (Nat.add (Nat.mul m2 536870912) (Nat.add (Nat.mul m3 268435456) (Nat.add (Nat.mul m4 134217728) (Nat.add (Nat.mul m5 67108864) (Nat.add (Nat.mul m6 33554432) (Nat.add (Nat.mul m7 16777216) (Nat.add (Nat.mul m8 8388608) (Nat.add (Nat.mul m9 4194304) (Nat.add (Nat.mul m10 2097152) (Nat.add (Nat.mul m11 1048576) (Nat.add (Nat.mul m12 524288) (Nat.mul m13 262144))))))))))))))

theorem log2Iter_succ (n r bit acc : Nat) :
    log2Iter (n+1) r bit acc = log2Iter n (log2Step r).1 (Nat.shiftRight bit 1) (acc + bit * (log2Step r).2) := rfl

/-- the unrolled form is the loop of the model -/
theorem log2U_eq (r0 : Nat) : log2U r0 = Nat.shiftRight (log2Iter 14 r0 9223372036854775808 0) 32 := by
  unfold log2U
  extract_lets q0 m0 r1 q1 m1 r2 q2 m2 r3 q3 m3 r4 q4 m4 r5 q5 m5 r6 q6 m6 r7 q7 m7 r8 q8 m8 r9 q9 m9 r10 q10 m10 r11 q11 m11 r12 q12 m12 r13 q13 m13
  have e0 : log2Step r0 = (r1, m0) := rfl
  have e1 : log2Step r1 = (r2, m1) := rfl
  have e2 : log2Step r2 = (r3, m2) := rfl
  have e3 : log2Step r3 = (r4, m3) := rfl
  have e4 : log2Step r4 = (r5, m4) := rfl
  have e5 : log2Step r5 = (r6, m5) := rfl
  have e6 : log2Step r6 = (r7, m6) := rfl
  have e7 : log2Step r7 = (r8, m7) := rfl
  have e8 : log2Step r8 = (r9, m8) := rfl
  have e9 : log2Step r9 = (r10, m9) := rfl
  have e10 : log2Step r10 = (r11, m10) := rfl
  have e11 : log2Step r11 = (r12, m11) := rfl
  have e12 : log2Step r12 = (r13, m12) := rfl
  have e13 : (log2Step r13).2 = m13 := rfl
  clear_value q0 m0 r1 q1 m1 r2 q2 m2 r3 q3 m3 r4 q4 m4 r5 q5 m5 r6 q6 m6 r7 q7 m7 r8 q8 m8 r9 q9 m9 r10 q10 m10 r11 q11 m11 r12 q12 m12 r13 q13 m13
  rw [show (14:Nat) = 13+1 from rfl, log2Iter_succ, e0]; simp only []
  rw [show (13:Nat) = 12+1 from rfl, log2Iter_succ, e1]; simp only []
  rw [show (12:Nat) = 11+1 from rfl, log2Iter_succ, e2]; simp only []
  rw [show (11:Nat) = 10+1 from rfl, log2Iter_succ, e3]; simp only []
  rw [show (10:Nat) = 9+1 from rfl, log2Iter_succ, e4]; simp only []
  rw [show (9:Nat) = 8+1 from rfl, log2Iter_succ, e5]; simp only []
  rw [show (8:Nat) = 7+1 from rfl, log2Iter_succ, e6]; simp only []
  rw [show (7:Nat) = 6+1 from rfl, log2Iter_succ, e7]; simp only []
  rw [show (6:Nat) = 5+1 from rfl, log2Iter_succ, e8]; simp only []
  rw [show (5:Nat) = 4+1 from rfl, log2Iter_succ, e9]; simp only []
  rw [show (4:Nat) = 3+1 from rfl, log2Iter_succ, e10]; simp only []
  rw [show (3:Nat) = 2+1 from rfl, log2Iter_succ, e11]; simp only []
  rw [show (2:Nat) = 1+1 from rfl, log2Iter_succ, e12]; simp only []
  rw [show (1:Nat) = 0+1 from rfl, log2Iter_succ, e13]
  simp only [log2Iter, Nat.add_eq, Nat.mul_eq]
  simp [Nat.shiftRight_eq_div_pow]
  omega

/-- `log2p_x32 + 64·2^32` as a natural number -/
def xOf (p : Nat) : Nat :=
  let msb := Nat.log2 p
  let r := cond (Nat.ble 64 msb) (Nat.shiftRight p (Nat.sub msb 63)) (Nat.shiftLeft p (Nat.sub 63 msb))
  Nat.add (Nat.mul msb 4294967296) (log2U r)

/-- `2^38 · LOG_B_2_X32 − 443636 · 2^64` -/
def K_OFF : Nat := 8183653622090342477070336

theorem K_OFF_eq : (K_OFF : Int) = 274877906944 * LOG_B_2_X32 - 443636 * 18446744073709551616 := by decide
theorem margins_lt : LOG_B_P_ERR_MARGIN_LOWER_X64 + LOG_B_P_ERR_MARGIN_UPPER_X64 < 18446744073709551616 := by decide
theorem margin_lo_eq : LOG_B_P_ERR_MARGIN_LOWER_X64 = 184467440737095516 := by decide
theorem margin_hi_eq : LOG_B_P_ERR_MARGIN_UPPER_X64 = 15793534762490258745 := by decide
theorem logb_eq : LOG_B_2_X32 = 59543866431248 := by decide
theorem bitprec_eq : BIT_PRECISION = 14 := by decide

/-- `tickLow p = t − 1 ∧ tickHigh p = t` for `tn = t + 443636`, as one natural-number comparison:
    `t·2^64 − U ≤ logbp < t·2^64 + L` -/
def invOkN (tn p : Nat) : Bool :=
  let y := Nat.mul (xOf p) 59543866431248
  let base := Nat.add (Nat.mul tn 18446744073709551616) K_OFF
  Nat.ble (Nat.sub base 15793534762490258745) y && Nat.blt y (Nat.add base 184467440737095516)

/-- check ticks `t+1 … t+n`: `stepOk (sp (t+i)) (sp (t+i+1))` and `invOkN (tn+i+1) (sp (t+i+1))`
    for `i < n`, threading the previous price -/
def checkAll : Nat → Int → Nat → Nat → Bool
  | 0, _, _, _ => true
  | n + 1, t, tn, prev =>
    let q := sp (t + 1)
    cond (stepOk prev q && invOkN (Nat.succ tn) q) (checkAll n (t + 1) (Nat.succ tn) q) false

theorem checkAll_sound : ∀ (n : Nat) (t : Int) (tn prev : Nat), checkAll n t tn prev = true → prev = sp t →
    ∀ k : Nat, k < n → stepOk (sp (t + k)) (sp (t + k + 1)) = true ∧ invOkN (tn + k + 1) (sp (t + k + 1)) = true := by
  intro n
  induction n with
  | zero => intro t tn prev _ _ k hk; omega
  | succ n ih =>
    intro t tn prev h hp k hk
    simp only [checkAll] at h
    cases hs : (stepOk prev (sp (t + 1)) && invOkN (Nat.succ tn) (sp (t + 1))) with
    | false => simp [hs] at h
    | true =>
      simp only [hs, cond_true] at h
      cases k with
      | zero =>
        simp only [Bool.and_eq_true] at hs
        simpa [hp] using hs
      | succ k =>
        have := ih (t + 1) (Nat.succ tn) (sp (t + 1)) h rfl k (by omega)
        have e1 : t + 1 + (k : Int) = t + ((k + 1 : Nat) : Int) := by push_cast; omega
        have e2 : Nat.succ tn + k + 1 = tn + (k + 1) + 1 := by omega
        rw [e1, e2] at this
        exact this

/-- interval form used by the chunk theorems: `a` is a tick, `an = a + 443636` -/
theorem checkAll_interval (n : Nat) (a : Int) (an : Nat) (han : (an : Int) = a + 443636)
    (h : checkAll n a an (sp a) = true) :
    ∀ t : Int, a ≤ t → t < a + n →
      stepOk (sp t) (sp (t + 1)) = true ∧ invOkN (t + 1 + 443636).toNat (sp (t + 1)) = true := by
  intro t h1 h2
  have := checkAll_sound n a an (sp a) h rfl (t - a).toNat (by omega)
  have e : a + ((t - a).toNat : Int) = t := by omega
  have e2 : an + (t - a).toNat + 1 = (t + 1 + 443636).toNat := by omega
  rw [e, e2] at this
  exact this

end WP.C09
