import WP.Props.C09.Mono
/-
  C09: from the natural-number comparison evaluated by the kernel to the statement about
  tick_low / tick_high of the model, and the case analysis of `ti`.
-/
namespace WP.C09
open WP WP.Gen

theorem xOf_eq (p : Nat) : (xOf p : Int) = log2pX32 p + 274877906944 := by
  have h1 : xOf p = Nat.log2 p * 4294967296 + log2U (normMantissa p) := rfl
  rw [h1, log2U_eq]
  unfold log2pX32
  simp only [bitprec_eq]
  push_cast
  omega

theorem invOkN_spec (tn p : Nat) (h : invOkN tn p = true) :
    tickLow p = (tn : Int) - 443636 - 1 ∧ tickHigh p = (tn : Int) - 443636 := by
  unfold invOkN at h
  simp only [Bool.and_eq_true, Nat.ble_eq, Nat.blt_eq, Nat.add_eq, Nat.mul_eq, Nat.sub_eq] at h
  obtain ⟨h1, h2⟩ := h
  have hx := xOf_eq p
  have hk := K_OFF_eq
  unfold tickLow tickHigh logbpX64 sar64
  rw [margin_lo_eq, margin_hi_eq, logb_eq] at *
  have e : log2pX32 p = (xOf p : Int) - 274877906944 := by omega
  rw [e]
  have h1' : ((tn * 18446744073709551616 + K_OFF - 15793534762490258745 : Nat) : Int) ≤ ((xOf p * 59543866431248 : Nat) : Int) := by
    exact_mod_cast h1
  have h2' : ((xOf p * 59543866431248 : Nat) : Int) < ((tn * 18446744073709551616 + K_OFF + 184467440737095516 : Nat) : Int) := by
    exact_mod_cast h2
  have hK : (15793534762490258745 : Nat) ≤ tn * 18446744073709551616 + K_OFF := by
    unfold K_OFF; omega
  rw [Nat.cast_sub hK] at h1'
  push_cast at h1' h2'
  constructor <;> omega

end WP.C09
