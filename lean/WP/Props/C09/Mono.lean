import WP.Props.C09.Check
import Mathlib.Tactic.Linarith
import Mathlib.Tactic.Positivity
import Mathlib.Algebra.Order.Ring.Nat
/-
  C09: the 14-bit log2 approximation of `tick_index_from_sqrt_price` is monotone in the price
  (lexicographic induction over the squaring steps), hence so are tick_low and tick_high.
-/
namespace WP.C09
open WP WP.Gen

theorem log2Step_snd (r : Nat) : (log2Step r).2 = r * r / 2 ^ 127 := by
  simp [log2Step, Nat.shiftRight_eq_div_pow]

theorem log2Step_fst (r : Nat) : (log2Step r).1 = r * r / 2 ^ (63 + r * r / 2 ^ 127) := by
  simp [log2Step, Nat.shiftRight_eq_div_pow]

theorem log2Step_bit_le (r : Nat) (h : r < 2 ^ 64) : (log2Step r).2 ≤ 1 := by
  rw [log2Step_snd]
  have : r * r < 2 ^ 128 := by nlinarith
  have : r * r / 2 ^ 127 < 2 := by
    rw [Nat.div_lt_iff_lt_mul (by positivity)]; norm_num at *; omega
  omega

theorem log2Step_lt (r : Nat) (h : r < 2 ^ 64) : (log2Step r).1 < 2 ^ 64 := by
  have hb := log2Step_bit_le r h
  rw [log2Step_snd] at hb
  rw [log2Step_fst]
  have hq : r * r < 2 ^ 128 := by nlinarith
  rcases Nat.le_one_iff_eq_zero_or_eq_one.mp hb with h0 | h1
  · rw [h0]
    have : r * r < 2 ^ 127 := by
      have := (Nat.div_eq_zero_iff).mp h0
      rcases this with h' | h'
      · norm_num at h'
      · exact h'
    rw [Nat.div_lt_iff_lt_mul (by positivity)]; norm_num at *; omega
  · rw [h1]
    rw [Nat.div_lt_iff_lt_mul (by positivity)]; norm_num at *; omega

theorem log2Step_mono (r1 r2 : Nat) (h : r1 ≤ r2) :
    (log2Step r1).2 ≤ (log2Step r2).2 ∧ ((log2Step r1).2 = (log2Step r2).2 → (log2Step r1).1 ≤ (log2Step r2).1) := by
  have hq : r1 * r1 ≤ r2 * r2 := Nat.mul_le_mul h h
  rw [log2Step_snd, log2Step_snd, log2Step_fst, log2Step_fst]
  constructor
  · exact Nat.div_le_div_right hq
  · intro e
    rw [e]
    exact Nat.div_le_div_right hq

theorem log2Iter_acc : ∀ (n r b acc : Nat), log2Iter n r b acc = acc + log2Iter n r b 0 := by
  intro n
  induction n with
  | zero => intro r b acc; simp [log2Iter]
  | succ n ih =>
    intro r b acc
    rw [log2Iter_succ, log2Iter_succ, ih _ _ (acc + _), ih _ _ (0 + _)]
    omega

theorem log2Iter_le : ∀ (n r b : Nat), r < 2 ^ 64 → log2Iter n r b 0 ≤ 2 * b := by
  intro n
  induction n with
  | zero => intro r b _; simp [log2Iter]
  | succ n ih =>
    intro r b hr
    rw [log2Iter_succ, log2Iter_acc]
    have h1 := ih (log2Step r).1 (Nat.shiftRight b 1) (log2Step_lt r hr)
    have h2 := log2Step_bit_le r hr
    have h3 : Nat.shiftRight b 1 = b / 2 := by simp [Nat.shiftRight_eq_div_pow]
    rw [h3] at h1 ⊢
    have : b * (log2Step r).2 ≤ b := by nlinarith
    omega

theorem log2Iter_mono : ∀ (n r1 r2 b : Nat), r1 ≤ r2 → r2 < 2 ^ 64 →
    log2Iter n r1 b 0 ≤ log2Iter n r2 b 0 := by
  intro n
  induction n with
  | zero => intro r1 r2 b _ _; simp [log2Iter]
  | succ n ih =>
    intro r1 r2 b h hr2
    have hr1 : r1 < 2 ^ 64 := lt_of_le_of_lt h hr2
    rw [log2Iter_succ, log2Iter_succ, log2Iter_acc, log2Iter_acc _ _ _ (0 + _)]
    obtain ⟨hm, hr⟩ := log2Step_mono r1 r2 h
    have hb1 := log2Step_bit_le r1 hr1
    have hb2 := log2Step_bit_le r2 hr2
    have h3 : Nat.shiftRight b 1 = b / 2 := by simp [Nat.shiftRight_eq_div_pow]
    by_cases e : (log2Step r1).2 = (log2Step r2).2
    · have := ih (log2Step r1).1 (log2Step r2).1 (Nat.shiftRight b 1) (hr e) (log2Step_lt r2 hr2)
      rw [e]; omega
    · have h0 : (log2Step r1).2 = 0 := by omega
      have h1 : (log2Step r2).2 = 1 := by omega
      have := log2Iter_le n (log2Step r1).1 (Nat.shiftRight b 1) (log2Step_lt r1 hr1)
      rw [h0, h1, h3] at *
      omega

theorem normMantissa_eq (p : Nat) :
    normMantissa p = if 64 ≤ Nat.log2 p then p / 2 ^ (Nat.log2 p - 63) else p * 2 ^ (63 - Nat.log2 p) := by
  unfold normMantissa
  by_cases h : 64 ≤ Nat.log2 p
  · have hb : Nat.ble 64 (Nat.log2 p) = true := Nat.ble_eq_true_of_le h
    simp [h, hb, Nat.shiftRight_eq_div_pow]
  · have hb : Nat.ble 64 (Nat.log2 p) = false := by
      cases hh : Nat.ble 64 (Nat.log2 p) with
      | false => rfl
      | true => exact absurd (Nat.le_of_ble_eq_true hh) h
    simp [h, hb, Nat.shiftLeft_eq]

theorem normMantissa_lt (p : Nat) (hp : p ≠ 0) : normMantissa p < 2 ^ 64 := by
  rw [normMantissa_eq]
  have hlt : p < 2 ^ (Nat.log2 p + 1) := Nat.lt_log2_self
  split
  · rename_i h
    rw [Nat.div_lt_iff_lt_mul (by positivity), ← pow_add]
    have : 64 + (Nat.log2 p - 63) = Nat.log2 p + 1 := by omega
    rw [this]; exact hlt
  · rename_i h
    have : p * 2 ^ (63 - Nat.log2 p) < 2 ^ (Nat.log2 p + 1) * 2 ^ (63 - Nat.log2 p) :=
      Nat.mul_lt_mul_of_pos_right hlt (by positivity)
    rw [← pow_add] at this
    have e : Nat.log2 p + 1 + (63 - Nat.log2 p) = 64 := by omega
    rw [e] at this; exact this

theorem normMantissa_mono (p1 p2 : Nat) (h : p1 ≤ p2) (e : Nat.log2 p1 = Nat.log2 p2) :
    normMantissa p1 ≤ normMantissa p2 := by
  rw [normMantissa_eq, normMantissa_eq, e]
  split
  · exact Nat.div_le_div_right h
  · exact Nat.mul_le_mul_right _ h

theorem log2_mono (p1 p2 : Nat) (hp : p1 ≠ 0) (h : p1 ≤ p2) : Nat.log2 p1 ≤ Nat.log2 p2 := by
  have hp2 : p2 ≠ 0 := by omega
  by_contra hc
  have hc : Nat.log2 p2 < Nat.log2 p1 := by omega
  have h1 : p2 < 2 ^ Nat.log2 p1 := (Nat.log2_lt hp2).mp hc
  have h2 : 2 ^ Nat.log2 p1 ≤ p1 := Nat.log2_self_le hp
  omega

theorem frac_le (p : Nat) (hp : p ≠ 0) :
    Nat.shiftRight (log2Iter BIT_PRECISION (normMantissa p) 9223372036854775808 0) 32 ≤ 4294967296 := by
  have := log2Iter_le BIT_PRECISION (normMantissa p) 9223372036854775808 (normMantissa_lt p hp)
  simp only [Nat.shiftRight_eq', Nat.shiftRight_eq_div_pow]
  omega

/-- the log2 approximation is monotone in the price -/
theorem log2pX32_mono (p1 p2 : Nat) (hp : p1 ≠ 0) (h : p1 ≤ p2) : log2pX32 p1 ≤ log2pX32 p2 := by
  have hp2 : p2 ≠ 0 := by omega
  have hl := log2_mono p1 p2 hp h
  unfold log2pX32
  simp only []
  rcases Nat.lt_or_eq_of_le hl with hlt | heq
  · have f1 := frac_le p1 hp
    have : (Nat.log2 p1 : Int) + 1 ≤ Nat.log2 p2 := by exact_mod_cast hlt
    have f1' : ((Nat.shiftRight (log2Iter BIT_PRECISION (normMantissa p1) 9223372036854775808 0) 32 : Nat) : Int) ≤ 4294967296 := by
      exact_mod_cast f1
    have f2 : (0 : Int) ≤ ((Nat.shiftRight (log2Iter BIT_PRECISION (normMantissa p2) 9223372036854775808 0) 32 : Nat) : Int) :=
      Int.natCast_nonneg _
    nlinarith
  · have hm := log2Iter_mono BIT_PRECISION _ _ 9223372036854775808 (normMantissa_mono p1 p2 h heq) (normMantissa_lt p2 hp2)
    have : Nat.shiftRight (log2Iter BIT_PRECISION (normMantissa p1) 9223372036854775808 0) 32
        ≤ Nat.shiftRight (log2Iter BIT_PRECISION (normMantissa p2) 9223372036854775808 0) 32 := by
      simp only [Nat.shiftRight_eq', Nat.shiftRight_eq_div_pow]
      exact Nat.div_le_div_right hm
    rw [heq]
    have : ((Nat.shiftRight (log2Iter BIT_PRECISION (normMantissa p1) 9223372036854775808 0) 32 : Nat) : Int)
        ≤ ((Nat.shiftRight (log2Iter BIT_PRECISION (normMantissa p2) 9223372036854775808 0) 32 : Nat) : Int) := by
      exact_mod_cast this
    omega

theorem logbpX64_mono (p1 p2 : Nat) (hp : p1 ≠ 0) (h : p1 ≤ p2) : logbpX64 p1 ≤ logbpX64 p2 := by
  unfold logbpX64
  have := log2pX32_mono p1 p2 hp h
  rw [logb_eq]
  nlinarith

theorem sar64_mono (x y : Int) (h : x ≤ y) : sar64 x ≤ sar64 y := by
  unfold sar64
  omega

theorem tickLow_mono (p1 p2 : Nat) (hp : p1 ≠ 0) (h : p1 ≤ p2) : tickLow p1 ≤ tickLow p2 := by
  unfold tickLow
  exact sar64_mono _ _ (by have := logbpX64_mono p1 p2 hp h; omega)

theorem tickHigh_mono (p1 p2 : Nat) (hp : p1 ≠ 0) (h : p1 ≤ p2) : tickHigh p1 ≤ tickHigh p2 := by
  unfold tickHigh
  exact sar64_mono _ _ (by have := logbpX64_mono p1 p2 hp h; omega)

/-- the window: tick_high − tick_low ≤ 1 because the margins sum to less than 2^64 -/
theorem tick_window (p : Nat) : tickLow p ≤ tickHigh p ∧ tickHigh p ≤ tickLow p + 1 := by
  unfold tickLow tickHigh sar64
  rw [margin_lo_eq, margin_hi_eq]
  omega

end WP.C09
