import WP.Model.Setup
/-
  C13 for the tick-array initialisers as instructions (tied to the real instructions by family `xtarr`).
-/
namespace WP.SetupTick
open WP WP.Gen

/-- C13: a tick array comes into existence only for a valid start index (`C10.validStart_iff`: a multiple of
    88·spacing within the tick bounds, or the one left-edge array), and never over something that is already at
    its address; the idempotent dynamic initialiser leaves an existing array alone -/
theorem init_tick_array_sound (dynamic idem : Bool) (pre : TarrPre) (start : Int) (ts : Nat) (o : TarrOut)
    (h : initializeTickArrayIx dynamic idem pre start ts = .ok o) :
    pre ≠ .wrongAddress ∧
    (o = .existing → dynamic = true ∧ idem = true ∧ (pre = .fixed ∨ pre = .dynamic)) ∧
    (o ≠ .existing → pre = .nothing ∧ validStartTick start ts = true ∧ (o = .createdDynamic ↔ dynamic = true)) := by
  unfold initializeTickArrayIx at h
  split at h
  · cases h
  rename_i hwa
  refine ⟨hwa, ?_⟩
  have hv : ∀ r : TarrOut, (if (!validStartTick start ts) = true then (Except.error "InvalidStartTick" : Except String TarrOut) else .ok r) = .ok o →
      validStartTick start ts = true ∧ o = r := by
    intro r hh
    cases hx : validStartTick start ts with
    | true => simp [hx] at hh; exact ⟨rfl, hh.symm⟩
    | false => simp [hx] at hh
  cases dynamic with
  | false =>
    simp only [Bool.not_false, if_true] at h
    split at h
    · cases h
    · rename_i hp
      obtain ⟨v, rfl⟩ := hv _ h
      exact ⟨fun e => (by cases e), fun _ => ⟨by simpa using hp, v, by simp⟩⟩
  | true =>
    simp only [Bool.not_true, Bool.false_eq_true, if_false] at h
    cases pre with
    | wrongAddress => exact absurd rfl hwa
    | foreign => simp at h
    | fixed =>
      cases idem with
      | false => simp at h
      | true => simp at h; cases h; exact ⟨fun _ => ⟨rfl, rfl, Or.inl rfl⟩, fun e => absurd rfl e⟩
    | dynamic =>
      cases idem with
      | false => simp at h
      | true => simp at h; cases h; exact ⟨fun _ => ⟨rfl, rfl, Or.inr rfl⟩, fun e => absurd rfl e⟩
    | nothing =>
      simp only [] at h
      obtain ⟨v, rfl⟩ := hv _ h
      exact ⟨fun e => (by cases e), fun _ => ⟨rfl, v, by simp⟩⟩

-- Non-vacuity (kernel evaluation)
example :
    (initializeTickArrayIx true false .nothing (-5632) 64).toOption = some .createdDynamic ∧
    (initializeTickArrayIx false false .nothing (-5631) 64).toOption = none ∧
    (initializeTickArrayIx false false .nothing (-444928) 64).toOption = some .createdFixed ∧
    (initializeTickArrayIx false false .nothing (-450560) 64).toOption = none ∧
    (initializeTickArrayIx true true .fixed 0 64).toOption = some .existing ∧
    (initializeTickArrayIx true false .fixed 0 64).toOption = none ∧
    (initializeTickArrayIx true true .foreign 0 64).toOption = none ∧
    (initializeTickArrayIx true true .wrongAddress 0 64).toOption = none := by
  decide +kernel

end WP.SetupTick
