import WP.Props.C06
/-
  Property C03 — swaps honour the trader's amount, price-limit and slippage bounds.

  Proved about the model of swap_manager::swap (any tick layout, any number of steps, static or
  adaptive fee): amount bounds, the limit guard, "partial ⇒ stopped at the limit", the exact-out
  partial-fill rule, and the threshold decision of the handlers (`swapThreshold`).
  That the price ends between the limit and the start price needs the tick/price consistency
  invariant (C09) carried through the loop: proved (static and adaptive fee) in
  WP/Props/SwapPath.lean (`swap_path`) for a tick/price-consistent starting state.  The unconditional
  `PriceBounded` below (any starting state) is not claimed.
-/
namespace WP.C03
open WP WP.Gen WP.C06

/-- the amount of the specified token actually used / delivered -/
def specifiedUsed (u : PostSwap) (isInput aToB : Bool) : Nat :=
  if aToB = isInput then u.amountA else u.amountB

/-- C03(a): never more than the specified input (exact-in) / output (exact-out). -/
theorem swap_specified_le (p : PoolD) (ticks : TickMap) (arrays : List Int) (amount limit : Nat) (isInput aToB : Bool)
    (now : Nat) (af : Option AfInfo) (fuel : Nat) (u : PostSwap)
    (h : swap p ticks arrays amount limit isInput aToB now af fuel = .ok u) :
    specifiedUsed u isInput aToB ≤ amount := by
  obtain ⟨rewards, fm, s, _, _, hfin⟩ := swap_inv _ _ _ _ _ _ _ _ _ _ _ h
  unfold swapFinish at hfin
  split at hfin
  · cases hfin
  · split at hfin
    · cases hfin
    · simp only [Except.ok.injEq] at hfin
      subst hfin
      unfold specifiedUsed
      cases isInput <;> cases aToB <;> simp <;> omega

/-- C03(b): the adjusted limit is within the protocol bounds and strictly on the trade side of the
    starting price, and the amount is non-zero — otherwise the swap fails before touching anything. -/
theorem swap_limit_guard (p : PoolD) (ticks : TickMap) (arrays : List Int) (amount limit : Nat) (isInput aToB : Bool)
    (now : Nat) (af : Option AfInfo) (fuel : Nat) (u : PostSwap)
    (h : swap p ticks arrays amount limit isInput aToB now af fuel = .ok u) :
    MIN_SQRT_PRICE_X64 ≤ adjLimit limit aToB ∧ adjLimit limit aToB ≤ MAX_SQRT_PRICE_X64 ∧
    (if aToB then adjLimit limit aToB < p.price else p.price < adjLimit limit aToB) ∧ amount ≠ 0 := by
  obtain ⟨_, _, _, hg, _, _⟩ := swap_inv _ _ _ _ _ _ _ _ _ _ _ h
  unfold swapGuard at hg
  simp only [] at hg
  by_cases c1 : (!(decide (MIN_SQRT_PRICE_X64 ≤ adjLimit limit aToB) && decide (adjLimit limit aToB ≤ MAX_SQRT_PRICE_X64))) = true
  · rw [if_pos c1] at hg; cases hg
  · rw [if_neg c1] at hg
    by_cases c2 : ((aToB && decide (adjLimit limit aToB ≥ p.price)) || (!aToB && decide (adjLimit limit aToB ≤ p.price))) = true
    · rw [if_pos c2] at hg; cases hg
    · rw [if_neg c2] at hg
      by_cases c3 : amount = 0
      · rw [if_pos c3] at hg; cases hg
      · simp only [Bool.not_eq_true', Bool.and_eq_false_iff, decide_eq_false_iff_not, not_or, Bool.not_eq_eq_eq_not,
          Bool.not_true, Bool.not_false] at c1
        simp at c1 c2
        refine ⟨by omega, by omega, ?_, c3⟩
        cases aToB <;> simp at c2 ⊢ <;> omega

/-- C03(c): if less than the specified amount was used, the swap stopped exactly at the price limit
    (the explicit one, or the protocol bound when none was given). -/
theorem swap_partial_at_limit (p : PoolD) (ticks : TickMap) (arrays : List Int) (amount limit : Nat) (isInput aToB : Bool)
    (now : Nat) (af : Option AfInfo) (fuel : Nat) (u : PostSwap) (hp : p.protoRate ≤ PROTOCOL_FEE_RATE_MUL_VALUE)
    (h : swap p ticks arrays amount limit isInput aToB now af fuel = .ok u)
    (hless : specifiedUsed u isInput aToB < amount) : u.price = adjLimit limit aToB := by
  obtain ⟨rewards, fm, s, _, hs, hfin⟩ := swap_inv _ _ _ _ _ _ _ _ _ _ _ h
  have inv0 : LoopInv (swapCtxOf p arrays limit isInput aToB rewards) amount (swapInit p ticks amount aToB fm) := by
    refine ⟨?_, by simp [swapInit, sumFee], by simp [swapInit, U64_MAX], by simp [swapInit, sumCut], ?_⟩
    · cases isInput <;> simp [swapCtxOf, swapInit, sumIn, sumOut, sumFee]
    · intro st hst; simp [swapInit] at hst
  obtain ⟨_, hexit⟩ := loop_preserves _ amount (by simpa [swapCtxOf] using hp) fuel _ s none inv0 hs
  unfold swapFinish at hfin
  split at hfin
  · cases hfin
  · split at hfin
    · cases hfin
    · simp only [Except.ok.injEq] at hfin
      subst hfin
      unfold specifiedUsed at hless
      simp only [swapCtxOf] at hexit
      rcases hexit with z | e
      · exfalso
        cases isInput <;> cases aToB <;> simp at hless <;> omega
      · exact e

/-- C03(d): an exact-out swap with no explicit limit delivers the full amount or fails. -/
theorem exact_out_no_limit_full_or_fail (p : PoolD) (ticks : TickMap) (arrays : List Int) (amount : Nat) (aToB : Bool)
    (now : Nat) (af : Option AfInfo) (fuel : Nat) (u : PostSwap) (hp : p.protoRate ≤ PROTOCOL_FEE_RATE_MUL_VALUE)
    (h : swap p ticks arrays amount NO_EXPLICIT_SQRT_PRICE_LIMIT false aToB now af fuel = .ok u) :
    (if aToB then u.amountB else u.amountA) = amount :=
  (swap_accounting p ticks arrays amount _ false aToB now af fuel u hp h).2.2.2.2.2.1 rfl rfl

/-- the threshold comparison of the swap handlers (swap.rs / v2/swap.rs):
    exact-in fails when the output is below the minimum, exact-out when the input is above the maximum -/
def swapThreshold (isInput aToB : Bool) (amountA amountB threshold : Nat) : R Unit :=
  if isInput then
    (if (aToB && threshold > amountB) || (!aToB && threshold > amountA) then .error .AmountOutBelowMinimum else .ok ())
  else
    (if (aToB && threshold < amountA) || (!aToB && threshold < amountB) then .error .AmountInAboveMaximum else .ok ())

/-- C03(e): the transaction goes through only if the realised output is at least the stated minimum
    (exact-in) / the realised input at most the stated maximum (exact-out). -/
theorem threshold_spec (isInput aToB : Bool) (a b thr : Nat) (h : swapThreshold isInput aToB a b thr = .ok ()) :
    if isInput then thr ≤ (if aToB then b else a) else (if aToB then a else b) ≤ thr := by
  unfold swapThreshold at h
  cases isInput <;> cases aToB <;> simp at h ⊢ <;> omega

/-- remaining obligation (see header): the final price lies between the adjusted limit and the start price -/
def PriceBounded : Prop :=
  ∀ (p : PoolD) (ticks : TickMap) (arrays : List Int) (amount limit : Nat) (isInput aToB : Bool) (now : Nat)
    (af : Option AfInfo) (fuel : Nat) (u : PostSwap),
    swap p ticks arrays amount limit isInput aToB now af fuel = .ok u →
    if aToB then adjLimit limit aToB ≤ u.price ∧ u.price ≤ p.price else p.price ≤ u.price ∧ u.price ≤ adjLimit limit aToB

-- Non-vacuity: a concrete exact-in swap over one initialized range (two positions' worth of ticks)
example : ((swap { ts := 64, feeRate := 3000, protoRate := 300, liq := 1000000000, price := 18446744073709551616, tick := 0 }
    [(-128, { initialized := true, net := 1000000000, gross := 1000000000 }), (128, { initialized := true, net := -1000000000, gross := 1000000000 })]
    [0, -5632] 100000 0 true true 10 none 1000).toOption.map fun u => (u.amountA, u.steps.length)) = some (100000, 1) := by decide +kernel

end WP.C03
