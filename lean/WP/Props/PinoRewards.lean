import WP.Model.PinoModify
import WP.Props.Reach
/-
  C12 / C11: the Pinocchio port's reward-growth rule ("skip a reward whose emissions are zero") gives the Anchor
  manager's result ("skip a reward that is not initialized") on every pool in which an uninitialized reward has no
  emissions — and that holds at every state reachable by any history: emissions are only ever set on an initialized
  reward, and settling never changes a reward's flag or rate.
-/
set_option linter.unusedSimpArgs false
namespace WP.PinoRewards
open WP WP.Gen WP.Reach

/-- an uninitialized reward has no emissions; growths are u128 -/
def RewardsOK (rs : List RewardInfo) : Prop :=
  ∀ r ∈ rs, (r.initialized = false → r.emissions = 0) ∧ r.growth < TWO128

theorem wadd_zero (g : Nat) (h : g < TWO128) : wadd g 0 = g := by
  unfold wadd; rw [Nat.add_zero]; exact Nat.mod_eq_of_lt h

theorem mulDivOr0_zero (a d : Nat) (hd : d ≠ 0) : mulDivOr0 a 0 d = 0 := by
  have h0 : ¬ (0 : Nat) > U128_MAX := by decide +kernel
  unfold mulDivOr0 checkedMulDiv checkedMulDivRoundUpIf
  simp only [if_neg hd, Nat.mul_zero, if_neg h0, Nat.zero_div, Nat.zero_mod, Nat.lt_irrefl, decide_false, Bool.and_false,
    Bool.false_eq_true, if_false]

/-- **the two reward-growth rules agree** wherever an uninitialized reward has no emissions -/
theorem pino_reward_growths_eq (p : PoolD) (ts : Nat) (h : RewardsOK p.rewards) :
    pinoNextRewardGrowths p ts = (nextRewardInfos p ts).map (fun l => l.map (·.growth)) := by
  unfold pinoNextRewardGrowths nextRewardInfos
  by_cases c1 : ts < p.rewardTs
  · rw [if_pos c1, if_pos c1]; rfl
  · rw [if_neg c1, if_neg c1]
    by_cases c2 : (decide (p.liq = 0) || decide (ts = p.rewardTs)) = true
    · rw [if_pos c2, if_pos c2]; rfl
    · rw [if_neg c2, if_neg c2]
      simp only [Bool.or_eq_true, decide_eq_true_eq, not_or] at c2
      simp only [Except.map, List.map_map]
      congr 1
      apply List.map_congr_left
      intro r hr
      obtain ⟨h1, h2⟩ := h r hr
      simp only [Function.comp]
      cases hi : r.initialized with
      | false =>
        simp only [Bool.not_false, if_true]
        rw [h1 hi]; simp
      | true =>
        simp only [Bool.not_true, Bool.false_eq_true, if_false]
        by_cases he : r.emissions = 0
        · rw [if_pos he, he, mulDivOr0_zero _ _ c2.1, wadd_zero _ h2]
        · rw [if_neg he]

/-! ### the hypothesis holds at every reachable state -/

theorem wadd_lt (a b : Nat) : wadd a b < TWO128 := by
  unfold wadd; exact Nat.mod_lt _ (by decide +kernel)

theorem nextRewardInfos_ok (p : PoolD) (ts : Nat) (rs : List RewardInfo) (h : RewardsOK p.rewards)
    (hn : nextRewardInfos p ts = .ok rs) : RewardsOK rs := by
  unfold nextRewardInfos at hn
  by_cases c1 : ts < p.rewardTs
  · rw [if_pos c1] at hn; cases hn
  · rw [if_neg c1] at hn
    by_cases c2 : (decide (p.liq = 0) || decide (ts = p.rewardTs)) = true
    · rw [if_pos c2] at hn; cases hn; exact h
    · rw [if_neg c2] at hn
      cases hn
      intro r' hr'
      obtain ⟨r, hr, rfl⟩ := List.mem_map.mp hr'
      obtain ⟨h1, h2⟩ := h r hr
      cases hi : r.initialized with
      | false => simp only [hi, Bool.not_false, if_true]; exact ⟨fun _ => h1 hi, h2⟩
      | true =>
        simp only [hi, Bool.not_true, Bool.false_eq_true, if_false]
        exact ⟨fun c => (by cases c), wadd_lt _ _⟩

theorem modify_rewards (p : PoolD) (pos : PositionD) (tl tu : TickData) (d : Int) (ts : Nat) (u : ModifyUpdate)
    (h : calculateModifyLiquidity p pos tl tu d ts = .ok u) : nextRewardInfos p ts = .ok u.rewards := by
  unfold calculateModifyLiquidity at h
  split at h
  · cases h
  · split at h
    · cases h
    · rename_i rewards hr
      split at h
      · cases h
      · split at h
        · cases h
        · split at h
          · cases h
          · simp only [] at h
            split at h
            · cases h
            · cases h; exact hr

theorem set_ok (rs : List RewardInfo) (i : Nat) (r : RewardInfo) (h : RewardsOK rs)
    (hr : i < rs.length → (r.initialized = false → r.emissions = 0) ∧ r.growth < TWO128) : RewardsOK (rs.set i r) := by
  by_cases hi : i < rs.length
  · intro x hx
    rcases List.mem_or_eq_of_mem_set hx with a | a
    · exact h x a
    · rw [a]; exact hr hi
  · rw [List.set_eq_of_length_le (Nat.not_lt.mp hi)]; exact h

theorem getD_ok (rs : List RewardInfo) (i : Nat) (h : RewardsOK rs) :
    ((rs.getD i {}).initialized = false → (rs.getD i {}).emissions = 0) ∧ (rs.getD i {}).growth < TWO128 := by
  by_cases hi : i < rs.length
  · have : rs.getD i {} = rs[i] := by simp [List.getD, hi]
    rw [this]; exact h _ (List.getElem_mem hi)
  · have : rs.getD i {} = ({} : RewardInfo) := by simp [List.getD, Nat.not_lt.mp hi]
    rw [this]; exact ⟨fun _ => rfl, by decide +kernel⟩

/-- settling keeps every reward's flag -/
theorem next_init (p : PoolD) (ts : Nat) (next : List RewardInfo) (i : Nat) (hn : nextRewardInfos p ts = .ok next) :
    (next.getD i {}).initialized = (p.rewards.getD i {}).initialized := by
  unfold nextRewardInfos at hn
  split at hn
  · cases hn
  · split at hn
    · cases hn; rfl
    · cases hn
      simp only [List.getD_eq_getElem?_getD, List.getElem?_map]
      cases hg : p.rewards[i]? with
      | none => rfl
      | some r =>
        simp only [Option.map_some, Option.getD_some]
        split <;> rfl

/-- the tail of `histReward` after the initialisation step -/
theorem reward_tail_ok (next : List RewardInfo) (i e : Nat) (p : PoolD) (ts : Nat) (h1 : RewardsOK p.rewards)
    (hinit : i < p.rewards.length → (p.rewards.getD i {}).initialized = true) (hn : nextRewardInfos p ts = .ok next) :
    RewardsOK (next.set i { (next.getD i {}) with emissions := e }) := by
  have hok := nextRewardInfos_ok _ _ next h1 hn
  have hlen : next.length = p.rewards.length := by
    unfold nextRewardInfos at hn
    split at hn
    · cases hn
    · split at hn
      · cases hn; rfl
      · cases hn; simp
  apply set_ok _ _ _ hok
  intro hi
  have g := getD_ok next i hok
  refine ⟨fun c => ?_, g.2⟩
  exfalso
  have e1 := next_init p ts next i hn
  have e2 := hinit (by omega)
  simp only [] at c
  rw [e1, e2] at c
  cases c

theorem uas_rewards (p : PoolD) (u : PostSwap) (aToB : Bool) (now : Nat) : (updateAfterSwap p u aToB now).rewards = u.rewards := by
  unfold updateAfterSwap
  simp only []
  split <;> rfl

/-- every operation keeps the rule -/
theorem apply_keeps_rewards (s : HistState) (op : HistOp) (h : RewardsOK s.pool.rewards) :
    RewardsOK (histApply s op).pool.rewards := by
  unfold histApply
  cases op with
  | reward i e t =>
    simp only []
    unfold histReward
    by_cases c0 : i ≥ 3
    · rw [if_pos c0]; exact h
    · rw [if_neg c0]
      simp only []
      split
      · exact h
      · rename_i s1 heq
        -- the state after the initialisation step keeps the rule and has reward i initialized (when it exists)
        have hs1 : RewardsOK s1.pool.rewards ∧ (i < s1.pool.rewards.length → (s1.pool.rewards.getD i {}).initialized = true) := by
          by_cases ci : (s.pool.rewards.getD i {}).initialized = true
          · rw [if_pos ci] at heq; cases heq; exact ⟨h, fun _ => ci⟩
          · rw [if_neg ci] at heq
            split at heq
            · cases heq
              constructor
              · apply set_ok _ _ _ h
                intro _
                exact ⟨fun c => (by cases c), (getD_ok _ i h).2⟩
              · intro hl
                simp only [List.length_set] at hl
                simp [List.getD, List.getElem?_set, hl]
            · cases heq
        split
        · exact hs1.1
        · split
          · exact hs1.1
          · split
            · exact hs1.1
            · rename_i next hn
              exact reward_tail_ok next i e _ _ hs1.1 hs1.2 hn
  | openPos id lo hi =>
    simp only []
    cases hs : histStep s (.openPos id lo hi) with
    | error e => exact h
    | ok r =>
      simp only []
      unfold histStep at hs
      simp only [] at hs
      split at hs
      · cases hs
      · split at hs
        · cases hs
        · split at hs
          · cases hs
          · cases hs; exact h
  | modify id amount positive =>
    simp only []
    cases hs : histStep s (.modify id amount positive) with
    | error e => exact h
    | ok r =>
      simp only []
      unfold histStep at hs
      simp only [] at hs
      split at hs
      · cases hs
      · split at hs
        · cases hs
        · split at hs
          · cases hs
          · split at hs
            · cases hs
            · rename_i u hu
              have hok := nextRewardInfos_ok _ _ _ h (modify_rewards _ _ _ _ _ _ _ hu)
              split at hs
              · cases hs
              · split at hs
                · cases hs; exact hok
                · split at hs
                  · cases hs
                  · cases hs; exact hok
  | upd id =>
    simp only []
    cases hs : histStep s (.upd id) with
    | error e => exact h
    | ok r =>
      simp only []
      unfold histStep at hs
      simp only [] at hs
      split at hs
      · cases hs
      · split at hs
        · cases hs
        · rename_i u hu
          cases hs
          exact nextRewardInfos_ok _ _ _ h (modify_rewards _ _ _ _ _ _ _ hu)
  | cfees id =>
    simp only []
    cases hs : histStep s (.cfees id) with
    | error e => exact h
    | ok r =>
      simp only []
      unfold histStep at hs
      simp only [] at hs
      split at hs
      · cases hs
      · split at hs
        · cases hs
        · cases hs; exact h
  | cproto =>
    simp only []
    cases hs : histStep s .cproto with
    | error e => exact h
    | ok r =>
      simp only []
      unfold histStep at hs
      simp only [] at hs
      split at hs
      · cases hs
      · cases hs; exact h
  | clock now =>
    simp only []
    cases hs : histStep s (.clock now) with
    | error e => exact h
    | ok r =>
      simp only []
      unfold histStep at hs
      cases hs; exact h
  | swap amount limit isInput aToB arrays =>
    simp only []
    cases hs : histStep s (.swap amount limit isInput aToB arrays) with
    | error e => exact h
    | ok r =>
      simp only []
      unfold histStep at hs
      simp only [] at hs
      split at hs
      · cases hs
      · split at hs
        · cases hs
        · rename_i u hu
          obtain ⟨rewards, fm, st, _, _, hfin, hrw⟩ := Path.swap_parts _ _ _ _ _ _ _ _ _ _ _ hu
          have hur : u.rewards = rewards := by
            unfold swapFinish at hfin
            split at hfin
            · cases hfin
            · split at hfin
              · cases hfin
              · cases hfin; rfl
          have hok := nextRewardInfos_ok _ _ _ h hrw
          split at hs
          · cases hs
          · split at hs
            · cases hs
            · cases hs
              show RewardsOK (updateAfterSwap s.pool u aToB s.now).rewards
              rw [uas_rewards, hur]; exact hok
  | crew id i =>
    simp only []
    cases hs : histStep s (.crew id i) with
    | error e => exact h
    | ok r =>
      simp only []
      unfold histStep at hs
      simp only [] at hs
      split at hs
      · cases hs
      · split at hs
        · cases hs
        · cases hs; exact h

/-- **at every reachable state** the Pinocchio and the Anchor reward-growth rules give the same three growths -/
theorem pino_rewards_reachable (ops : List HistOp) (s0 : HistState) (h0 : RewardsOK s0.pool.rewards) (ts : Nat) :
    pinoNextRewardGrowths (ops.foldl histApply s0).pool ts =
      (nextRewardInfos (ops.foldl histApply s0).pool ts).map (fun l => l.map (·.growth)) := by
  apply pino_reward_growths_eq
  induction ops generalizing s0 with
  | nil => exact h0
  | cons op rest ih => exact ih (histApply s0 op) (apply_keeps_rewards s0 op h0)

/-- a fresh pool (no reward initialized, no emissions) satisfies the rule; and the rule is not empty: a reward that
    is initialized, has emitted, and is now paused (emissions 0) is exactly where the two texts differ -/
example : RewardsOK [{}, {}, {}] := by
  intro r hr
  simp at hr
  subst hr
  exact ⟨fun _ => rfl, by decide +kernel⟩

def exPaused : PoolD :=
  { ts := 64, feeRate := 3000, protoRate := 300, price := 18446744073709551616, tick := 0, liq := 1000, rewardTs := 10,
    rewards := [{ initialized := true, emissions := 0, growth := 777 },
                { initialized := true, emissions := 18446744073709551616, growth := 5 }, {}] }

example : let p := exPaused
    (pinoNextRewardGrowths p 20 = .ok [777, 184467440737095521, 0] ∧
     (nextRewardInfos p 20).map (fun l => l.map (·.growth)) = .ok [777, 184467440737095521, 0]) = True := by
  decide +kernel

end WP.PinoRewards
