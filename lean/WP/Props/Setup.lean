import WP.Model.Setup
import WP.Props.C19
/-
  C19 / C13 / C04 for the initialisers, as instructions: whatever gets created is in bounds and was authorised.
  (The models are tied to the real instructions, executed through the program's entrypoint, by families
  `xini` and `xtarr`.)  `auth`: 1 = a stranger signs in the authority's slot, 2 = the key in the slot does not
  sign; every other value is "the required authority signs".
-/
namespace WP.Setup
open WP WP.Gen WP.C19

/-- a config exists only with a bounded default protocol fee rate, and only an admin key could fund it -/
theorem init_config_sound (admin : Bool) (proto p : Nat) (h : initializeConfigIx admin proto = .ok p) :
    admin = true ∧ p = proto ∧ proto ≤ MAX_PROTOCOL_FEE_RATE := by
  unfold initializeConfigIx at h
  cases admin with
  | false => simp at h
  | true =>
    simp only [Bool.not_true, Bool.false_eq_true, if_false] at h
    cases hp : updateProtocolFeeRate proto with
    | error e => rw [hp] at h; cases h
    | ok q =>
      rw [hp] at h
      cases h
      obtain ⟨a, b⟩ := protocol_fee_rate_bound _ _ hp
      exact ⟨rfl, a, by rw [← a]; exact b⟩

/-- a fee tier is created only by the config's fee authority, at the (free) address derived from config and
    spacing, with a non-zero spacing and a fee rate within the maximum -/
theorem init_fee_tier_sound (auth : Nat) (taken wrongAddr : Bool) (ts fee a f : Nat)
    (h : initializeFeeTierIx auth taken wrongAddr ts fee = .ok (a, f)) :
    auth ≠ 1 ∧ auth ≠ 2 ∧ taken = false ∧ wrongAddr = false ∧ a = ts ∧ ts ≠ 0 ∧ f = fee ∧ fee ≤ MAX_FEE_RATE := by
  unfold initializeFeeTierIx at h
  split at h
  · cases h
  rename_i h2
  split at h
  · cases h
  rename_i hw
  split at h
  · cases h
  rename_i ht
  split at h
  · cases h
  rename_i h1
  split at h
  · cases h
  rename_i hts
  cases hf : updateFeeRate fee with
  | error e => rw [hf] at h; cases h
  | ok q =>
    rw [hf] at h
    simp only [Except.ok.injEq, Prod.mk.injEq] at h
    obtain ⟨e1, e2⟩ := h
    obtain ⟨b1, b2⟩ := fee_rate_bound _ _ hf
    exact ⟨h1, h2, by cases taken <;> simp_all, by cases wrongAddr <;> simp_all, e1.symm, hts, by rw [← e2]; exact b1,
      by rw [← b1]; exact b2⟩

/-- an adaptive fee tier is created only by the config's fee authority, at the (free) address derived from config
    and index, under an index other than its spacing (that one is the plain fee tier's), with a non-zero spacing,
    a base fee rate within the maximum and constants that satisfy the published validity rules for that spacing -/
theorem init_adaptive_fee_tier_sound (auth : Nat) (taken wrongAddr : Bool) (idx ts fee : Nat) (c : AfConstants) (a f : Nat)
    (h : initializeAdaptiveFeeTierIx auth taken wrongAddr idx ts fee c = .ok (a, f)) :
    auth ≠ 1 ∧ auth ≠ 2 ∧ taken = false ∧ wrongAddr = false ∧ idx ≠ ts ∧ a = ts ∧ ts ≠ 0 ∧ f = fee ∧ fee ≤ MAX_FEE_RATE ∧
    validateConstants ts c = true := by
  unfold initializeAdaptiveFeeTierIx at h
  split at h
  · cases h
  rename_i h2
  split at h
  · cases h
  rename_i hw
  split at h
  · cases h
  rename_i ht
  split at h
  · cases h
  rename_i h1
  split at h
  · cases h
  rename_i hidx
  split at h
  · cases h
  rename_i hts
  cases hf : updateFeeRate fee with
  | error e => rw [hf] at h; cases h
  | ok q =>
    rw [hf] at h
    simp only [] at h
    split at h
    · cases h
    rename_i hc
    simp only [Except.ok.injEq, Prod.mk.injEq] at h
    obtain ⟨e1, e2⟩ := h
    obtain ⟨b1, b2⟩ := fee_rate_bound _ _ hf
    have hc' : validateConstants ts c = true := by
      cases hx : validateConstants ts c with
      | true => rfl
      | false => simp [hx] at hc
    exact ⟨h1, h2, by cases taken <;> simp_all, by cases wrongAddr <;> simp_all, hidx, e1.symm, hts, by rw [← e2]; exact b1,
      by rw [← b1]; exact b2, hc'⟩

/-- a reward is initialized only by the pool's reward authority, at the lowest uninitialized index, and — through
    `initialize_reward_v2` — only over a mint that passes the admission table with the badge that really sits at
    the badge address; `initialize_reward` takes SPL Token mints only -/
theorem init_reward_sound (v2 : Bool) (auth idx ninit : Nat) (m : MintIn) (i : Nat)
    (h : initializeRewardIx v2 auth idx ninit m = .ok i) :
    auth ≠ 1 ∧ auth ≠ 2 ∧ i = idx ∧ idx = ninit ∧ idx < 3 ∧
    (v2 = false → m.token2022 = false) ∧
    (v2 = true → m.badge ≠ 2 ∧ isSupportedTokenMint m.token2022 m.native m.freeze (badgeInit m.badge) m.tlv = .ok true) := by
  unfold initializeRewardIx at h
  split at h
  · cases h
  · rename_i h2
    split at h
    · cases h
    · rename_i hv1
      split at h
      · cases h
      · rename_i h1
        split at h
        · cases h
        · rename_i hseeds
          split at h
          · cases h
          · rename_i u hu
            split at h
            · cases h
            · rename_i hi
              cases h
              refine ⟨h1, h2, rfl, by omega, by omega, ?_, ?_⟩
              · intro e; rw [e] at hv1; cases hm : m.token2022 <;> simp [hm] at hv1 ⊢
              · intro e
                rw [e] at hseeds hu
                simp only [Bool.true_and, decide_eq_true_eq, if_true] at hseeds hu
                exact ⟨hseeds, verify_mint_sound m _ hu⟩

/-- C19's badge clause at its root: a token badge of a config is issued (and deleted) only under the signature
    of the token-badge authority recorded in THAT config's extension, and only while the config's TOKEN_BADGE
    feature is on; the extension itself is created only by the config's fee authority -/
theorem token_badge_sound (auth : Nat) (feature taken otherExt : Bool) (h : initializeTokenBadgeIx auth feature taken otherExt = .ok ()) :
    auth ≠ 1 ∧ auth ≠ 2 ∧ feature = true ∧ taken = false ∧ otherExt = false := by
  unfold initializeTokenBadgeIx at h
  split at h
  · cases h
  · rename_i h2
    split at h
    · cases h
    · rename_i ht
      split at h
      · cases h
      · rename_i ho
        split at h
        · cases h
        · rename_i h1
          split at h
          · cases h
          · rename_i hf
            exact ⟨h1, h2, by cases feature <;> simp_all, by cases taken <;> simp_all, by cases otherExt <;> simp_all⟩

theorem delete_badge_sound (auth : Nat) (feature present : Bool) (h : deleteTokenBadgeIx auth feature present = .ok ()) :
    auth ≠ 1 ∧ auth ≠ 2 ∧ feature = true ∧ present = true := by
  unfold deleteTokenBadgeIx at h
  split at h
  · cases h
  · rename_i h2
    split at h
    · cases h
    · rename_i hp
      split at h
      · cases h
      · rename_i h1
        split at h
        · cases h
        · exact ⟨h1, h2, by cases feature <;> simp_all, by cases present <;> simp_all⟩

theorem config_extension_sound (auth : Nat) (taken wrongAddr : Bool) (h : initializeConfigExtensionIx auth taken wrongAddr = .ok ()) :
    auth ≠ 1 ∧ auth ≠ 2 ∧ taken = false ∧ wrongAddr = false := by
  unfold initializeConfigExtensionIx at h
  split at h
  · cases h
  rename_i h2
  split at h
  · cases h
  rename_i hw
  split at h
  · cases h
  rename_i ht
  split at h
  · cases h
  rename_i h1
  exact ⟨h1, h2, by cases taken <;> simp_all, by cases wrongAddr <;> simp_all⟩

/-- `initialize_pool` (v1) creates pools only over SPL Token mints, with the same bounds as v2 -/
theorem init_pool_v1_sound (keyA keyB : Nat) (t22a t22b : Bool) (price ts tierTs fee proto : Nat) (p : PoolD)
    (h : initializePoolV1 keyA keyB t22a t22b price ts tierTs fee proto = .ok p) :
    t22a = false ∧ t22b = false ∧ tierTs = ts ∧ keyA < keyB ∧ p.price = price ∧ MIN_SQRT_PRICE_X64 ≤ price ∧
    price ≤ MAX_SQRT_PRICE_X64 ∧ p.ts = ts ∧ ts ≠ 0 ∧ p.feeRate = fee ∧ fee ≤ MAX_FEE_RATE ∧
    p.protoRate = proto ∧ proto ≤ MAX_PROTOCOL_FEE_RATE := by
  unfold initializePoolV1 at h
  split at h
  · cases h
  · rename_i ht
    split at h
    · cases h
    · rename_i hts
      split at h
      · cases h
      · rename_i q hq
        cases h
        obtain ⟨h1, h2, h3, h4, h5, h6, _⟩ := init_pool_bounds _ _ _ _ _ _ _ hq
        obtain ⟨f1, f2, f3, f4⟩ := init_pool_fields _ _ _ _ _ _ _ hq
        rw [f1] at h2 h3
        rw [f2] at h4
        rw [f3] at h5
        rw [f4] at h6
        refine ⟨by cases t22a <;> simp_all, by cases t22a <;> cases t22b <;> simp_all, by omega, h1, f1, h2, h3, f2, h4, f3, h5, f4, h6⟩

-- Non-vacuity (kernel evaluation): each initialiser succeeds on a good input and is refused on the bad ones
example :
    (initializeConfigIx true 2500).toOption = some 2500 ∧ (initializeConfigIx true 2501).toOption = none ∧
    (initializeConfigIx false 300).toOption = none ∧
    (initializeFeeTierIx 0 false false 64 3000).toOption = some (64, 3000) ∧ (initializeFeeTierIx 1 false false 64 3000).toOption = none ∧
    (initializeFeeTierIx 0 false true 64 3000).toOption = none ∧
    (initializeFeeTierIx 0 false false 0 3000).toOption = none ∧ (initializeFeeTierIx 0 false false 64 60001).toOption = none ∧
    (initializeRewardIx true 0 1 1 { token2022 := true, native := false, freeze := false, tlv := [12, 0, 0, 0], badge := 1 }).toOption = some 1 ∧
    (initializeRewardIx true 0 1 1 { token2022 := true, native := false, freeze := false, tlv := [12, 0, 0, 0], badge := 0 }).toOption = none ∧
    (initializeRewardIx true 0 2 1 { token2022 := false, native := false, freeze := false, tlv := [], badge := 0 }).toOption = none := by
  decide +kernel

end WP.Setup
