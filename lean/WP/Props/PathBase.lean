import WP.Props.C05
import WP.Props.C09
import WP.Props.C10
import WP.Props.C02
import WP.Props.C06
import WP.Props.C03
/-
  The swap path: composition of the step lemmas along the whole swap loop (static-fee pools).

  Invariant `Path` of the loop state, relative to the (unchanged) list of positions `ps`:
    * pool liquidity = Σ liquidity of the positions covering the current tick        (C05)
    * every tick's net / gross / initialized flag are the sums over `ps`             (C05)
    * the current tick index and price are consistent (`TP`)                         (C09)
    * the price lies between the start price and the limit                           (C03 PriceBounded)
  proved to be preserved by every iteration given that the next-tick search returned the nearest
  initialized tick (`seqNext_*_interval`, C10) and that a step never moves the price past its target
  (`step_direction`, C02).  Consequences: `SwapPreserves` (C05), `PriceBounded` (C03) and "the swap
  crosses exactly the initialized ticks on its path" (C10) for static-fee pools over consecutive,
  aligned tick arrays (what `try_build` hands to the loop: `start_indexes_consec`, `validStart_mod`).
-/
set_option linter.unusedSimpArgs false
namespace WP.Path
open WP WP.Gen WP.C05 WP.C10

/-! ### tick index ↔ price consistency -/

/-- the current tick index `t` and price `p` of a pool: `t` is the tick of `p`, or `p` sits exactly on
    the price of `t + 1` (after crossing that tick leftwards) -/
def TP (t : Int) (p : Nat) : Prop :=
  (MIN_TICK_INDEX ≤ t ∧ t ≤ MAX_TICK_INDEX ∧ sp t ≤ p ∧ (t < MAX_TICK_INDEX → p ≤ sp (t + 1)) ∧ (t = MAX_TICK_INDEX → p = sp t)) ∨
  (t = MIN_TICK_INDEX - 1 ∧ p = sp MIN_TICK_INDEX)

theorem sp_min : sp MIN_TICK_INDEX = MIN_SQRT_PRICE_X64 := C09.sp_ends.1
theorem sp_max : sp MAX_TICK_INDEX = MAX_SQRT_PRICE_X64 := C09.sp_ends.2
theorem min_le_max : MIN_TICK_INDEX ≤ MAX_TICK_INDEX := by decide

theorem sp_in_bounds (t : Int) (h1 : MIN_TICK_INDEX ≤ t) (h2 : t ≤ MAX_TICK_INDEX) :
    MIN_SQRT_PRICE_X64 ≤ sp t ∧ sp t ≤ MAX_SQRT_PRICE_X64 := by
  constructor
  · rw [← sp_min]; exact C09.sp_le _ _ (Int.le_refl _) h1 h2
  · rw [← sp_max]; exact C09.sp_le _ _ h1 h2 (Int.le_refl _)

/-- strict monotonicity read backwards -/
theorem lt_of_sp_lt (s t : Int) (hs1 : MIN_TICK_INDEX ≤ s) (hs2 : s ≤ MAX_TICK_INDEX) (ht1 : MIN_TICK_INDEX ≤ t) (ht2 : t ≤ MAX_TICK_INDEX)
    (h : sp s < sp t) : s < t := by
  by_cases c : s < t
  · exact c
  · have := C09.sp_le t s ht1 (by omega) hs2
    omega

theorem TP_ti (p : Nat) (h1 : MIN_SQRT_PRICE_X64 ≤ p) (h2 : p ≤ MAX_SQRT_PRICE_X64) : TP (ti p) p := by
  obtain ⟨a, b, c, d⟩ := C09.ti_spec p h1 h2
  left
  refine ⟨a, b, c, fun h => Nat.le_of_lt (d h), ?_⟩
  intro he
  -- ti p = MAX: sp MAX ≤ p ≤ MAX_SQRT = sp MAX
  rw [he] at c ⊢
  rw [sp_max] at c ⊢
  omega

theorem TP_price_bounds (t : Int) (p : Nat) (h : TP t p) : MIN_SQRT_PRICE_X64 ≤ p ∧ p ≤ MAX_SQRT_PRICE_X64 := by
  rcases h with ⟨a, b, c, d, e⟩ | ⟨a, b⟩
  · have hb := sp_in_bounds t a b
    constructor
    · omega
    · by_cases hm : t = MAX_TICK_INDEX
      · rw [e hm]; exact hb.2
      · have := d (by omega)
        have := (sp_in_bounds (t + 1) (by omega) (by omega)).2
        omega
  · rw [b, sp_min]; exact ⟨Nat.le_refl _, by decide⟩

/-- a→b, the price moved to `p'` with `sp n ≤ p' ≤ p`, `p' ≠ p`: the new tick index lies in [n, t] -/
theorem ti_between_down (t n : Int) (p p' : Nat) (h : TP t p) (hn1 : MIN_TICK_INDEX ≤ n) (hn2 : n ≤ MAX_TICK_INDEX)
    (h1 : sp n ≤ p') (h2 : p' ≤ p) (hne : p' ≠ p) : n ≤ ti p' ∧ ti p' ≤ t := by
  have hb := TP_price_bounds t p h
  have hnb := sp_in_bounds n hn1 hn2
  have hp'1 : MIN_SQRT_PRICE_X64 ≤ p' := by omega
  have hp'2 : p' ≤ MAX_SQRT_PRICE_X64 := by omega
  obtain ⟨a, b, c, d⟩ := C09.ti_spec p' hp'1 hp'2
  rcases h with ⟨ta, tb, tc, td, te⟩ | ⟨ta, tb⟩
  · constructor
    · -- sp n ≤ p' < sp (ti p' + 1)  (or ti p' = MAX)
      by_cases hm : ti p' < MAX_TICK_INDEX
      · have := d hm
        have := lt_of_sp_lt n (ti p' + 1) hn1 hn2 (by omega) (by omega) (by omega)
        omega
      · omega
    · -- sp (ti p') ≤ p' < p ≤ sp (t + 1)
      by_cases hm : t = MAX_TICK_INDEX
      · omega
      · have h3 := td (by omega)
        have := lt_of_sp_lt (ti p') (t + 1) a b (by omega) (by omega) (by omega)
        omega
  · -- p = MIN price: p' ≤ p and p' ≥ MIN price force p' = p
    rw [tb, sp_min] at h2
    exfalso; apply hne; rw [tb, sp_min]; omega

/-- b→a, the price moved to `p'` with `p ≤ p' < sp n`: the new tick index lies in [t, n) -/
theorem ti_between_up (t n : Int) (p p' : Nat) (h : TP t p) (hn1 : MIN_TICK_INDEX ≤ n) (hn2 : n ≤ MAX_TICK_INDEX)
    (h1 : p ≤ p') (h2 : p' < sp n) : t ≤ ti p' ∧ ti p' < n := by
  have hb := TP_price_bounds t p h
  have hnb := sp_in_bounds n hn1 hn2
  have hp'1 : MIN_SQRT_PRICE_X64 ≤ p' := by omega
  have hp'2 : p' ≤ MAX_SQRT_PRICE_X64 := by omega
  obtain ⟨a, b, c, d⟩ := C09.ti_spec p' hp'1 hp'2
  constructor
  · rcases h with ⟨ta, tb, tc, td, te⟩ | ⟨ta, tb⟩
    · by_cases hm : ti p' < MAX_TICK_INDEX
      · have := d hm
        have := lt_of_sp_lt t (ti p' + 1) ta tb (by omega) (by omega) (by omega)
        omega
      · omega
    · omega
  · exact lt_of_sp_lt (ti p') n a b hn1 hn2 (by omega)

theorem TP_cross_down (n : Int) (hn1 : MIN_TICK_INDEX ≤ n) (hn2 : n ≤ MAX_TICK_INDEX) : TP (n - 1) (sp n) := by
  by_cases h : n = MIN_TICK_INDEX
  · right; rw [h]; exact ⟨rfl, rfl⟩
  · left
    refine ⟨by omega, by omega, C09.sp_le _ _ (by omega) (by omega) hn2, ?_, ?_⟩
    · intro _; have : n - 1 + 1 = n := by omega
      rw [this]
    · intro he; omega

theorem TP_cross_up (n : Int) (hn1 : MIN_TICK_INDEX ≤ n) (hn2 : n ≤ MAX_TICK_INDEX) : TP n (sp n) := by
  left
  refine ⟨hn1, hn2, Nat.le_refl _, ?_, fun _ => rfl⟩
  intro h; exact C09.sp_le _ _ hn1 (by omega) (by omega)


/-! ### the tick map relative to the positions -/

structure TickFacts (ticks : TickMap) (ps : List (Nat × PositionD)) (ts : Nat) : Prop where
  net : ∀ i, (ticks.get i).net = sumBy (netContrib i) ps
  gross : ∀ i, ((ticks.get i).gross : Int) = sumBy (grossContrib i) ps
  init : ∀ i, (ticks.get i).initialized = decide ((ticks.get i).gross > 0)
  ordered : ∀ kp ∈ ps, kp.2.lower < kp.2.upper
  grid : ∀ kp ∈ ps, kp.2.lower % (ts : Int) = 0 ∧ kp.2.upper % (ts : Int) = 0 ∧
    MIN_TICK_INDEX ≤ kp.2.lower ∧ kp.2.upper ≤ MAX_TICK_INDEX

theorem gross_zero_of_no_bound (i : Int) : ∀ (ps : List (Nat × PositionD)),
    (∀ kp ∈ ps, kp.2.lower ≠ i ∧ kp.2.upper ≠ i) → sumBy (grossContrib i) ps = 0 := by
  intro ps
  induction ps with
  | nil => intro _; rfl
  | cons hd tl ih =>
    intro h
    obtain ⟨k, w⟩ := hd
    simp only [sumBy]
    rw [ih (fun kp hk => h kp (List.mem_cons_of_mem _ hk))]
    have := h (k, w) List.mem_cons_self
    simp only [] at this
    unfold grossContrib
    simp [this.1, this.2]

theorem init_grid (ticks : TickMap) (ps : List (Nat × PositionD)) (ts : Nat) (tf : TickFacts ticks ps ts) (i : Int)
    (h : initAt ticks i = true) : i % (ts : Int) = 0 ∧ MIN_TICK_INDEX ≤ i ∧ i ≤ MAX_TICK_INDEX := by
  -- initialized ⇒ gross > 0 ⇒ some position is bounded by i
  have hg : sumBy (grossContrib i) ps ≠ 0 := by
    intro h0
    have h1 := tf.init i
    have h2 := tf.gross i
    unfold initAt at h
    rw [h] at h1
    have : (ticks.get i).gross > 0 := of_decide_eq_true h1.symm
    omega
  have hex : ∃ kp ∈ ps, kp.2.lower = i ∨ kp.2.upper = i := by
    by_cases hh : ∃ kp ∈ ps, kp.2.lower = i ∨ kp.2.upper = i
    · exact hh
    · exfalso; apply hg
      apply gross_zero_of_no_bound
      intro kp hk
      constructor
      · intro e; exact hh ⟨kp, hk, Or.inl e⟩
      · intro e; exact hh ⟨kp, hk, Or.inr e⟩
  obtain ⟨kp, hk, hb⟩ := hex
  have hgrid := tf.grid kp hk
  have hord := tf.ordered kp hk
  rcases hb with e | e <;> rw [← e] <;> refine ⟨by omega, by omega, by omega⟩

theorem gross_zero_of_not_init (ticks : TickMap) (ps : List (Nat × PositionD)) (ts : Nat) (tf : TickFacts ticks ps ts) (i : Int)
    (h : initAt ticks i = false) : sumBy (grossContrib i) ps = 0 := by
  have h1 := tf.init i
  have h2 := tf.gross i
  unfold initAt at h
  rw [h] at h1
  have : ¬ (ticks.get i).gross > 0 := of_decide_eq_false h1.symm
  omega

/-- no initialized grid tick in (a, b] ⇒ the covering sum is the same at a and b -/
theorem cover_const (ticks : TickMap) (ps : List (Nat × PositionD)) (ts : Nat) (tf : TickFacts ticks ps ts) (a b : Int) (hab : a ≤ b)
    (h : ∀ x, a < x → x ≤ b → x % (ts : Int) = 0 → initAt ticks x = false) :
    sumBy (inRangeLiq a) ps = sumBy (inRangeLiq b) ps := by
  have := range_const ps tf.ordered (b - a).toNat a (by
    intro i h1 h2
    have h2' : i ≤ b := by omega
    cases hi : initAt ticks i with
    | false => exact gross_zero_of_not_init ticks ps ts tf i hi
    | true =>
      have := init_grid ticks ps ts tf i hi
      have := h i h1 h2' this.1
      rw [hi] at this; cases this)
  have e : a + ((b - a).toNat : Int) = b := by omega
  rw [e] at this
  exact this



end WP.Path
