import WP.Props.Reach
import WP.Props.GrowthPath
import WP.Props.RewardPath
/-
  C07 at every reachable state: the fee-growth accounting theorem of one swap
  (`Growth.swap_fee_growth`) applies to EVERY swap of EVERY history, because its extra hypothesis —
  all stored growth values are u128 (`Wf`) — is itself an invariant of the history.
-/
set_option linter.unusedSimpArgs false
namespace WP.Reach
open WP WP.Gen WP.C05 WP.C10 WP.Path WP.Growth

structure Wf (s : HistState) : Prop where
  ticks : TicksWF s.ticks
  fgA : s.pool.fgA < TWO128
  fgB : s.pool.fgB < TWO128

theorem wf_of_same (s st : HistState) (w : Wf s) (e1 : st.ticks = s.ticks) (e2 : st.pool.fgA = s.pool.fgA)
    (e3 : st.pool.fgB = s.pool.fgB) : Wf st :=
  { ticks := by rw [e1]; exact w.ticks, fgA := by rw [e2]; exact w.fgA, fgB := by rw [e3]; exact w.fgB }

theorem tickModify_wf (t t' : TickData) (tickIndex cur : Int) (fgA fgB : Nat) (rw : List RewardInfo) (delta : Int) (isUpper : Bool)
    (ht : t.fgoA < TWO128 ∧ t.fgoB < TWO128) (hA : fgA < TWO128) (hB : fgB < TWO128)
    (h : nextTickModifyLiquidityUpdate t tickIndex cur fgA fgB rw delta isUpper = .ok t') :
    t'.fgoA < TWO128 ∧ t'.fgoB < TWO128 := by
  have hz : (0 : Nat) < TWO128 := by decide
  unfold nextTickModifyLiquidityUpdate at h
  split at h
  · cases h; exact ht
  · split at h
    · cases h
    · split at h
      · cases h; exact ⟨hz, hz⟩
      · split at h
        rename_i oa ob orw heq
        have hoa : oa < TWO128 ∧ ob < TWO128 := by
          split at heq
          · split at heq
            · cases heq; exact ⟨hA, hB⟩
            · cases heq; exact ⟨hz, hz⟩
          · cases heq; exact ht
        split at h
        · cases h
        · cases h; exact hoa

theorem wf_modify (s s' : HistState) (id amount : Nat) (positive : Bool) (outs : List Nat) (w : Wf s)
    (h : histStep s (.modify id amount positive) = .ok (s', outs)) : Wf s' := by
  unfold histStep at h
  simp only [] at h
  split at h
  · cases h
  · split at h
    · cases h
    · split at h
      · cases h
      · rename_i pos hpos
        split at h
        · cases h
        · rename_i u hu
          have hticks : TicksWF ((s.ticks.set pos.lower u.tickLower).set pos.upper u.tickUpper) := by
            generalize (if positive = true then (amount : Int) else -(amount : Int)) = delta at hu
            unfold calculateModifyLiquidity at hu
            split at hu
            · cases hu
            · split at hu
              · cases hu
              · split at hu
                · cases hu
                · split at hu
                  · cases hu
                  · rename_i tlu htl
                    split at hu
                    · cases hu
                    · rename_i tuu htu
                      simp only [] at hu
                      split at hu
                      · cases hu
                      · cases hu
                        have a := tickModify_wf _ _ _ _ _ _ _ _ _ (w.ticks pos.lower) w.fgA w.fgB htl
                        have b := tickModify_wf _ _ _ _ _ _ _ _ _ (w.ticks pos.upper) w.fgA w.fgB htu
                        intro t
                        rw [C05.tick_get_set]
                        by_cases e : t = pos.upper
                        · rw [if_pos e]; exact b
                        · rw [if_neg e, C05.tick_get_set]
                          by_cases e2 : t = pos.lower
                          · rw [if_pos e2]; exact a
                          · rw [if_neg e2]; exact w.ticks t
          split at h
          · cases h
          · split at h
            · simp only [Except.ok.injEq, Prod.mk.injEq] at h
              obtain ⟨h1, _⟩ := h
              subst h1
              exact { ticks := hticks, fgA := w.fgA, fgB := w.fgB }
            · split at h
              · cases h
              · simp only [Except.ok.injEq, Prod.mk.injEq] at h
                obtain ⟨h1, _⟩ := h
                subst h1
                exact { ticks := hticks, fgA := w.fgA, fgB := w.fgB }

/-- the operations that touch neither the tick map nor the global fee growths -/
theorem wf_other (s s' : HistState) (op : HistOp) (outs : List Nat) (w : Wf s)
    (hop : (∀ a l i d ar, op ≠ .swap a l i d ar) ∧ (∀ i a p, op ≠ .modify i a p))
    (h : histStep s op = .ok (s', outs)) : Wf s' := by
  cases op with
  | swap a l i d ar => exact absurd rfl (hop.1 a l i d ar)
  | modify i a p => exact absurd rfl (hop.2 i a p)
  | reward i e t => unfold histStep at h; cases h
  | openPos id lo hi =>
    unfold histStep at h
    simp only [] at h
    split at h
    · cases h
    · split at h
      · cases h
      · split at h
        · cases h
        · simp only [Except.ok.injEq, Prod.mk.injEq] at h
          obtain ⟨h1, _⟩ := h; subst h1
          exact wf_of_same s _ w rfl rfl rfl
  | upd id =>
    unfold histStep at h
    simp only [] at h
    split at h
    · cases h
    · split at h
      · cases h
      · simp only [Except.ok.injEq, Prod.mk.injEq] at h
        obtain ⟨h1, _⟩ := h; subst h1
        exact wf_of_same s _ w rfl rfl rfl
  | cfees id =>
    unfold histStep at h
    simp only [] at h
    split at h
    · cases h
    · split at h
      · cases h
      · simp only [Except.ok.injEq, Prod.mk.injEq] at h
        obtain ⟨h1, _⟩ := h; subst h1
        exact wf_of_same s _ w rfl rfl rfl
  | cproto =>
    unfold histStep at h
    simp only [] at h
    split at h
    · cases h
    · simp only [Except.ok.injEq, Prod.mk.injEq] at h
      obtain ⟨h1, _⟩ := h; subst h1
      exact wf_of_same s _ w rfl rfl rfl
  | clock now =>
    unfold histStep at h
    simp only [Except.ok.injEq, Prod.mk.injEq] at h
    obtain ⟨h1, _⟩ := h; subst h1
    exact wf_of_same s _ w rfl rfl rfl
  | crew id i =>
    unfold histStep at h
    simp only [] at h
    split at h
    · cases h
    · split at h
      · cases h
      · simp only [Except.ok.injEq, Prod.mk.injEq] at h
        obtain ⟨h1, _⟩ := h; subst h1
        exact wf_of_same s _ w rfl rfl rfl

variable {ts0 : Nat}

/-- **C07 for a swap of a history state**: the conclusion of `swap_fee_growth`, plus `Wf` afterwards -/
theorem swap_step_growth (s s' : HistState) (amount limit : Nat) (isInput aToB : Bool) (arrays : List Int) (outs : List Nat)
    (inv : Inv s) (g : Geo ts0 s) (w : Wf s) (hseq : SeqOK arrays s.pool.ts aToB) (hamt : amount ≤ U64_MAX)
    (h : histStep s (.swap amount limit isInput aToB arrays) = .ok (s', outs)) :
    Wf s' ∧
    ∃ log : List (Int × Nat),
      (if aToB then s'.pool.fgA else s'.pool.fgB) = wsum (if aToB then s.pool.fgA else s.pool.fgB) (log.map (·.2)) ∧
      (if aToB then s'.pool.fgB else s'.pool.fgA) = (if aToB then s.pool.fgB else s.pool.fgA) ∧
      (∀ e ∈ log, ∃ lpFee, e.2 = share (sumBy (inRangeLiq e.1) s.positions).toNat lpFee) ∧
      (∀ lo hi, lo < hi → Bound s.positions lo → Bound s.positions hi →
        inside aToB s'.ticks s'.pool.tick lo hi (if aToB then s'.pool.fgA else s'.pool.fgB) =
          wsum (inside aToB s.ticks s.pool.tick lo hi (if aToB then s.pool.fgA else s.pool.fgB)) (inRangeDeltas log lo hi) ∧
        inside (!aToB) s'.ticks s'.pool.tick lo hi (if aToB then s'.pool.fgB else s'.pool.fgA) =
          inside (!aToB) s.ticks s.pool.tick lo hi (if aToB then s.pool.fgB else s.pool.fgA)) := by
  unfold histStep at h
  simp only [] at h
  split at h
  · cases h
  · split at h
    · cases h
    · rename_i u hsw
      obtain ⟨log, q1, q2, q3, q4, q5⟩ := swap_fee_growth s.pool s.ticks s.positions arrays amount limit isInput aToB s.now SWAP_FUEL s.af u
        g.ts hseq inv.liq (tickFacts_of s inv g) g.tp g.liqU g.fee hamt g.af w.ticks w.fgA w.fgB hsw
      have key : ∀ st : HistState, st.pool = updateAfterSwap s.pool u aToB s.now → st.ticks = u.ticks →
          Wf st ∧ (if aToB then st.pool.fgA else st.pool.fgB) = u.fgIn ∧
          (if aToB then st.pool.fgB else st.pool.fgA) = (if aToB then s.pool.fgB else s.pool.fgA) ∧ st.pool.tick = u.tick := by
        intro st e1 e2
        have hf : (updateAfterSwap s.pool u aToB s.now).fgA = (if aToB then u.fgIn else s.pool.fgA) ∧
            (updateAfterSwap s.pool u aToB s.now).fgB = (if aToB then s.pool.fgB else u.fgIn) ∧
            (updateAfterSwap s.pool u aToB s.now).tick = u.tick := by
          unfold updateAfterSwap
          simp only []
          split <;> exact ⟨rfl, rfl, rfl⟩
        rw [e1]
        refine ⟨{ ticks := by rw [e2]; exact q4, fgA := ?_, fgB := ?_ }, ?_, ?_, hf.2.2⟩
        · rw [e1, hf.1]; split
          · exact q5
          · exact w.fgA
        · rw [e1, hf.2.1]; split
          · exact w.fgB
          · exact q5
        · rw [hf.1, hf.2.1]; cases aToB <;> simp
        · rw [hf.1, hf.2.1]; cases aToB <;> simp
      split at h
      · cases h
      · split at h
        · cases h
        · simp only [Except.ok.injEq, Prod.mk.injEq] at h
          obtain ⟨h1, _⟩ := h
          obtain ⟨k1, k2, k3, k4⟩ := key s' (by rw [← h1]) (by rw [← h1])
          have k5 : s'.ticks = u.ticks := by rw [← h1]
          refine ⟨k1, log, ?_, k3, q2, ?_⟩
          · rw [k2]; exact q1
          · intro lo hi hlh bl bh
            obtain ⟨a, b⟩ := q3 lo hi hlh bl bh
            rw [k2, k3, k4, k5]
            exact ⟨a, b⟩

theorem same_wf (s st : HistState) (h : Same s st) (e2 : st.pool.fgA = s.pool.fgA) (e3 : st.pool.fgB = s.pool.fgB) (w : Wf s) : Wf st :=
  wf_of_same s st w h.2.2.2.2.2.1 e2 e3

theorem reward_fg (s : HistState) (i e t : Nat) :
    (histReward s i e t).1.pool.fgA = s.pool.fgA ∧ (histReward s i e t).1.pool.fgB = s.pool.fgB := by
  unfold histReward
  simp only []
  split
  · exact ⟨rfl, rfl⟩
  · split
    · exact ⟨rfl, rfl⟩
    · rename_i s1 hs1
      have h1 : s1.pool.fgA = s.pool.fgA ∧ s1.pool.fgB = s.pool.fgB := by
        split at hs1
        · cases hs1; exact ⟨rfl, rfl⟩
        · split at hs1
          · cases hs1; exact ⟨rfl, rfl⟩
          · cases hs1
      split
      · exact h1
      · split
        · exact h1
        · split
          · exact h1
          · exact h1

theorem apply_keeps_wf (s : HistState) (op : HistOp) (inv : Inv s) (g : Geo ts0 s) (w : Wf s) (hop : OpOK ts0 op) :
    Wf (histApply s op) := by
  cases hop' : op with
  | reward i e t =>
    obtain ⟨a, b⟩ := reward_fg s i e t
    exact same_wf s _ (reward_same s i e t) a b w
  | swap amount limit isInput aToB arrays =>
    cases h : histStep s (.swap amount limit isInput aToB arrays) with
    | error e => rw [apply_err s _ e (by intro _ _ _ hh; cases hh) h]; exact w
    | ok r =>
      obtain ⟨s', outs⟩ := r
      rw [apply_ok s s' _ outs (by intro _ _ _ hh; cases hh) h]
      rw [hop'] at hop
      unfold OpOK at hop
      rw [← g.spacing] at hop
      exact (swap_step_growth s s' amount limit isInput aToB arrays outs inv g w hop.1 hop.2 h).1
  | modify id a p =>
    cases h : histStep s (.modify id a p) with
    | error e => rw [apply_err s _ e (by intro _ _ _ hh; cases hh) h]; exact w
    | ok r => obtain ⟨s', outs⟩ := r; rw [apply_ok s s' _ outs (by intro _ _ _ hh; cases hh) h]; exact wf_modify s s' id a p outs w h
  | openPos id lo hi =>
    cases h : histStep s (.openPos id lo hi) with
    | error e => rw [apply_err s _ e (by intro _ _ _ hh; cases hh) h]; exact w
    | ok r =>
      obtain ⟨s', outs⟩ := r; rw [apply_ok s s' _ outs (by intro _ _ _ hh; cases hh) h]
      exact wf_other s s' _ outs w ⟨(by intro _ _ _ _ _ hh; cases hh), (by intro _ _ _ hh; cases hh)⟩ h
  | upd id =>
    cases h : histStep s (.upd id) with
    | error e => rw [apply_err s _ e (by intro _ _ _ hh; cases hh) h]; exact w
    | ok r =>
      obtain ⟨s', outs⟩ := r; rw [apply_ok s s' _ outs (by intro _ _ _ hh; cases hh) h]
      exact wf_other s s' _ outs w ⟨(by intro _ _ _ _ _ hh; cases hh), (by intro _ _ _ hh; cases hh)⟩ h
  | cfees id =>
    cases h : histStep s (.cfees id) with
    | error e => rw [apply_err s _ e (by intro _ _ _ hh; cases hh) h]; exact w
    | ok r =>
      obtain ⟨s', outs⟩ := r; rw [apply_ok s s' _ outs (by intro _ _ _ hh; cases hh) h]
      exact wf_other s s' _ outs w ⟨(by intro _ _ _ _ _ hh; cases hh), (by intro _ _ _ hh; cases hh)⟩ h
  | cproto =>
    cases h : histStep s .cproto with
    | error e => rw [apply_err s _ e (by intro _ _ _ hh; cases hh) h]; exact w
    | ok r =>
      obtain ⟨s', outs⟩ := r; rw [apply_ok s s' _ outs (by intro _ _ _ hh; cases hh) h]
      exact wf_other s s' _ outs w ⟨(by intro _ _ _ _ _ hh; cases hh), (by intro _ _ _ hh; cases hh)⟩ h
  | clock now =>
    cases h : histStep s (.clock now) with
    | error e => rw [apply_err s _ e (by intro _ _ _ hh; cases hh) h]; exact w
    | ok r =>
      obtain ⟨s', outs⟩ := r; rw [apply_ok s s' _ outs (by intro _ _ _ hh; cases hh) h]
      exact wf_other s s' _ outs w ⟨(by intro _ _ _ _ _ hh; cases hh), (by intro _ _ _ hh; cases hh)⟩ h
  | crew id i =>
    cases h : histStep s (.crew id i) with
    | error e => rw [apply_err s _ e (by intro _ _ _ hh; cases hh) h]; exact w
    | ok r =>
      obtain ⟨s', outs⟩ := r; rw [apply_ok s s' _ outs (by intro _ _ _ hh; cases hh) h]
      exact wf_other s s' _ outs w ⟨(by intro _ _ _ _ _ hh; cases hh), (by intro _ _ _ hh; cases hh)⟩ h

/-- all three invariants at every reachable state -/
theorem reach_wf (ops : List HistOp) : ∀ (s : HistState), Inv s → Geo ts0 s → Wf s → (∀ op ∈ ops, OpOK ts0 op) →
    Inv (ops.foldl histApply s) ∧ Geo ts0 (ops.foldl histApply s) ∧ Wf (ops.foldl histApply s) := by
  induction ops with
  | nil => intro s inv g w _; exact ⟨inv, g, w⟩
  | cons op rest ih =>
    intro s inv g w hops
    obtain ⟨i1, g1⟩ := apply_keeps s op inv g (hops op List.mem_cons_self)
    have w1 := apply_keeps_wf s op inv g w (hops op List.mem_cons_self)
    exact ih _ i1 g1 w1 (fun o ho => hops o (List.mem_cons_of_mem _ ho))

/-- **C07 over histories**: after ANY history of a pool started empty, ANY further swap distributes
    its LP fees as `swap_step_growth` says — each step's fee pro rata over the liquidity in range at
    that step, credited to the growth inside exactly the ranges containing the tick of that step. -/
theorem history_fee_growth (p : PoolD) (now : Nat) (af : Option AfInfo) (ops : List HistOp)
    (inv0 : Inv { pool := p, now := now, af := af }) (g0 : Geo ts0 { pool := p, now := now, af := af })
    (hA : p.fgA < TWO128) (hB : p.fgB < TWO128) (hops : ∀ op ∈ ops, OpOK ts0 op)
    (amount limit : Nat) (isInput aToB : Bool) (arrays : List Int) (s' : HistState) (outs : List Nat)
    (hseq : SeqOK arrays ts0 aToB) (hamt : amount ≤ U64_MAX)
    (h : histStep (ops.foldl histApply { pool := p, now := now, af := af }) (.swap amount limit isInput aToB arrays) = .ok (s', outs)) :
    let s := ops.foldl histApply { pool := p, now := now, af := af }
    ∃ log : List (Int × Nat),
      (∀ e ∈ log, ∃ lpFee, e.2 = share (sumBy (inRangeLiq e.1) s.positions).toNat lpFee) ∧
      (∀ lo hi, lo < hi → Bound s.positions lo → Bound s.positions hi →
        inside aToB s'.ticks s'.pool.tick lo hi (if aToB then s'.pool.fgA else s'.pool.fgB) =
          wsum (inside aToB s.ticks s.pool.tick lo hi (if aToB then s.pool.fgA else s.pool.fgB)) (inRangeDeltas log lo hi) ∧
        inside (!aToB) s'.ticks s'.pool.tick lo hi (if aToB then s'.pool.fgB else s'.pool.fgA) =
          inside (!aToB) s.ticks s.pool.tick lo hi (if aToB then s.pool.fgB else s.pool.fgA)) := by
  intro s
  have w0 : Wf { pool := p, now := now, af := af } :=
    { ticks := fun t => by
        have hz : (0 : Nat) < TWO128 := by decide
        show (TickMap.get [] t).fgoA < TWO128 ∧ (TickMap.get [] t).fgoB < TWO128
        unfold TickMap.get
        exact ⟨hz, hz⟩,
      fgA := hA, fgB := hB }
  obtain ⟨i1, g1, w1⟩ := reach_wf ops _ inv0 g0 w0 hops
  have hseq' : SeqOK arrays s.pool.ts aToB := by rw [g1.spacing]; exact hseq
  obtain ⟨_, log, _, _, q2, q3⟩ := swap_step_growth s s' amount limit isInput aToB arrays outs i1 g1 w1 hseq' hamt h
  exact ⟨log, q2, q3⟩

/-! ### non-vacuity: the first swap of the example history of Reach.lean -/

example : (∃ s' outs, histStep ((exOps.take 4).foldl histApply { pool := exPool, now := 10 })
    (.swap 6450000 0 true true [0, -5632]) = .ok (s', outs)) ∧
    Bound ((exOps.take 4).foldl histApply { pool := exPool, now := 10 }).positions (-128) ∧
    Bound ((exOps.take 4).foldl histApply { pool := exPool, now := 10 }).positions 128 := by
  refine ⟨?_, by unfold Bound; decide +kernel, by unfold Bound; decide +kernel⟩
  have : (histStep ((exOps.take 4).foldl histApply { pool := exPool, now := 10 })
      (.swap 6450000 0 true true [0, -5632])).toOption.isSome = true := by decide +kernel
  cases h : histStep ((exOps.take 4).foldl histApply { pool := exPool, now := 10 }) (.swap 6450000 0 true true [0, -5632]) with
  | error e => rw [h] at this; cases this
  | ok r => exact ⟨r.1, r.2, rfl⟩


/-! ### the same for rewards (C11) -/

structure WfR (s : HistState) : Prop where
  ticks : RewardsWF s.ticks
  glob : ∀ r ∈ s.pool.rewards, r.growth < TWO128

theorem next_rewards_wf (p : PoolD) (now : Nat) (rewards : List RewardInfo) (hp : ∀ r ∈ p.rewards, r.growth < TWO128)
    (h : nextRewardInfos p now = .ok rewards) : ∀ r ∈ rewards, r.growth < TWO128 := by
  unfold nextRewardInfos at h
  split at h
  · cases h
  · split at h
    · cases h; exact hp
    · cases h
      intro r hr
      obtain ⟨r0, hr0, e⟩ := List.mem_map.mp hr
      rw [← e]
      split
      · exact hp r0 hr0
      · exact C07.wadd_lt _ _

theorem getD_growth_lt (rewards : List RewardInfo) (h : ∀ r ∈ rewards, r.growth < TWO128) (i : Nat) :
    ((rewards.map (·.growth)).getD i 0) < TWO128 := by
  have hz : (0 : Nat) < TWO128 := by decide
  unfold List.getD
  cases hget : (rewards.map (·.growth))[i]? with
  | none => exact hz
  | some g =>
    have hm : g ∈ rewards.map (·.growth) := List.mem_of_getElem? hget
    obtain ⟨r, hr, e⟩ := List.mem_map.mp hm
    show g < TWO128
    rw [← e]; exact h r hr

theorem tickModify_wfR (t t' : TickData) (tickIndex cur : Int) (fgA fgB : Nat) (rw : List RewardInfo) (delta : Int) (isUpper : Bool)
    (ht : ∀ i, i < 3 → ro i t < TWO128) (hrw : ∀ r ∈ rw, r.growth < TWO128)
    (h : nextTickModifyLiquidityUpdate t tickIndex cur fgA fgB rw delta isUpper = .ok t') :
    ∀ i, i < 3 → ro i t' < TWO128 := by
  have hz : (0 : Nat) < TWO128 := by decide
  have hdef : ∀ i, ro i ({} : TickData) < TWO128 := by
    intro i
    unfold ro List.getD
    show (([0, 0, 0] : List Nat)[i]?).getD 0 < TWO128
    match i with
    | 0 => exact hz
    | 1 => exact hz
    | 2 => exact hz
    | (k + 3) => exact hz
  unfold nextTickModifyLiquidityUpdate at h
  split at h
  · cases h; exact ht
  · split at h
    · cases h
    · split at h
      · cases h; intro i _; exact hdef i
      · split at h
        rename_i oa ob orw heq
        have horw : ∀ i, i < 3 → orw.getD i 0 < TWO128 := by
          split at heq
          · split at heq
            · cases heq; intro i _; exact getD_growth_lt rw hrw i
            · cases heq; intro i _; exact hdef i
          · cases heq; exact ht
        split at h
        · cases h
        · cases h; exact horw

theorem wfR_modify (s s' : HistState) (id amount : Nat) (positive : Bool) (outs : List Nat) (w : WfR s)
    (h : histStep s (.modify id amount positive) = .ok (s', outs)) : WfR s' := by
  unfold histStep at h
  simp only [] at h
  split at h
  · cases h
  · split at h
    · cases h
    · split at h
      · cases h
      · rename_i pos hpos
        split at h
        · cases h
        · rename_i u hu
          have hboth : RewardsWF ((s.ticks.set pos.lower u.tickLower).set pos.upper u.tickUpper) ∧
              ∀ r ∈ u.rewards, r.growth < TWO128 := by
            generalize (if positive = true then (amount : Int) else -(amount : Int)) = delta at hu
            unfold calculateModifyLiquidity at hu
            split at hu
            · cases hu
            · split at hu
              · cases hu
              · rename_i rewards hrw
                have hrwf := next_rewards_wf _ _ _ w.glob hrw
                split at hu
                · cases hu
                · split at hu
                  · cases hu
                  · rename_i tlu htl
                    split at hu
                    · cases hu
                    · rename_i tuu htu
                      simp only [] at hu
                      split at hu
                      · cases hu
                      · cases hu
                        have a := tickModify_wfR _ _ _ _ _ _ _ _ _ (fun i hi => w.ticks pos.lower i hi) hrwf htl
                        have b := tickModify_wfR _ _ _ _ _ _ _ _ _ (fun i hi => w.ticks pos.upper i hi) hrwf htu
                        refine ⟨?_, hrwf⟩
                        intro t i hi
                        rw [C05.tick_get_set]
                        by_cases e : t = pos.upper
                        · rw [if_pos e]; exact b i hi
                        · rw [if_neg e, C05.tick_get_set]
                          by_cases e2 : t = pos.lower
                          · rw [if_pos e2]; exact a i hi
                          · rw [if_neg e2]; exact w.ticks t i hi
          split at h
          · cases h
          · split at h
            · simp only [Except.ok.injEq, Prod.mk.injEq] at h
              obtain ⟨h1, _⟩ := h
              subst h1
              exact { ticks := hboth.1, glob := hboth.2 }
            · split at h
              · cases h
              · simp only [Except.ok.injEq, Prod.mk.injEq] at h
                obtain ⟨h1, _⟩ := h
                subst h1
                exact { ticks := hboth.1, glob := hboth.2 }

/-- **C11 for a swap of a history state** -/
theorem swap_step_reward (s s' : HistState) (amount limit : Nat) (isInput aToB : Bool) (arrays : List Int) (outs : List Nat)
    (inv : Inv s) (g : Geo ts0 s) (w : WfR s) (hseq : SeqOK arrays s.pool.ts aToB) (hamt : amount ≤ U64_MAX)
    (h : histStep s (.swap amount limit isInput aToB arrays) = .ok (s', outs)) :
    WfR s' ∧ nextRewardInfos s.pool s.now = .ok s'.pool.rewards ∧
      ∀ i, i < 3 → (s'.pool.rewards.getD i {}).initialized = true → ∀ lo hi, lo < hi → Bound s.positions lo → Bound s.positions hi →
        C07.insideInit s'.pool.tick lo (ro i (s'.ticks.get lo)) hi (ro i (s'.ticks.get hi)) (s'.pool.rewards.getD i {}).growth =
          C07.insideInit s.pool.tick lo (ro i (s.ticks.get lo)) hi (ro i (s.ticks.get hi)) (s'.pool.rewards.getD i {}).growth := by
  unfold histStep at h
  simp only [] at h
  split at h
  · cases h
  · split at h
    · cases h
    · rename_i u hsw
      obtain ⟨rewards, q1, q2, q3, q4⟩ := swap_reward_growth s.pool s.ticks s.positions arrays amount limit isInput aToB s.now SWAP_FUEL s.af u
        g.ts hseq inv.liq (tickFacts_of s inv g) g.tp g.liqU g.fee hamt g.af w.ticks w.glob hsw
      have hf : (updateAfterSwap s.pool u aToB s.now).rewards = u.rewards ∧ (updateAfterSwap s.pool u aToB s.now).tick = u.tick := by
        unfold updateAfterSwap
        simp only []
        split <;> exact ⟨rfl, rfl⟩
      split at h
      · cases h
      · split at h
        · cases h
        · simp only [Except.ok.injEq, Prod.mk.injEq] at h
          obtain ⟨h1, _⟩ := h
          have e1 : s'.pool = updateAfterSwap s.pool u aToB s.now := by rw [← h1]
          have e2 : s'.ticks = u.ticks := by rw [← h1]
          have e3 : s'.pool.rewards = rewards := by rw [e1, hf.1, q2]
          refine ⟨{ ticks := by rw [e2]; exact q3, glob := by rw [e3]; exact next_rewards_wf _ _ _ w.glob q1 }, by rw [e3]; exact q1, ?_⟩
          intro i hi hinit lo hi' hlh bl bh
          rw [e3] at hinit ⊢
          rw [e1, hf.2, e2]
          exact q4 i hi hinit lo hi' hlh bl bh


theorem getD_info_lt (rewards : List RewardInfo) (h : ∀ r ∈ rewards, r.growth < TWO128) (i : Nat) :
    (rewards.getD i {}).growth < TWO128 := by
  have hz : (0 : Nat) < TWO128 := by decide
  unfold List.getD
  cases hget : rewards[i]? with
  | none => exact hz
  | some r => exact h r (List.mem_of_getElem? hget)

theorem set_wf (rewards : List RewardInfo) (h : ∀ r ∈ rewards, r.growth < TWO128) (i : Nat) (v : RewardInfo)
    (hv : v.growth < TWO128) : ∀ r ∈ rewards.set i v, r.growth < TWO128 := by
  intro r hr
  rcases List.mem_or_eq_of_mem_set hr with a | a
  · exact h r a
  · rw [a]; exact hv

theorem wfR_of_same (s st : HistState) (w : WfR s) (e1 : st.ticks = s.ticks) (e2 : ∀ r ∈ st.pool.rewards, r.growth < TWO128) : WfR st :=
  { ticks := by rw [e1]; exact w.ticks, glob := e2 }

theorem reward_wfR (s : HistState) (i e t : Nat) (w : WfR s) : WfR (histReward s i e t).1 := by
  unfold histReward
  simp only []
  split
  · exact w
  · split
    · exact w
    · rename_i s1 hs1
      have h1 : WfR s1 := by
        split at hs1
        · cases hs1; exact w
        · split at hs1
          · cases hs1
            exact wfR_of_same s _ w rfl (set_wf _ w.glob _ _ (getD_info_lt _ w.glob i))
          · cases hs1
      have h2 : WfR { s1 with rewardVaults := s1.rewardVaults.set i (s1.rewardVaults.getD i 0 + t) } := wfR_of_same s1 _ h1 rfl h1.glob
      split
      · exact h2
      · split
        · exact h2
        · split
          · exact h2
          · rename_i next hnext
            have hn := next_rewards_wf _ _ _ h2.glob hnext
            exact wfR_of_same _ _ h2 rfl (set_wf _ hn _ _ (getD_info_lt _ hn i))

theorem wfR_other (s s' : HistState) (op : HistOp) (outs : List Nat) (w : WfR s)
    (hop : (∀ a l i d ar, op ≠ .swap a l i d ar) ∧ (∀ i a p, op ≠ .modify i a p))
    (h : histStep s op = .ok (s', outs)) : WfR s' := by
  cases op with
  | swap a l i d ar => exact absurd rfl (hop.1 a l i d ar)
  | modify i a p => exact absurd rfl (hop.2 i a p)
  | reward i e t => unfold histStep at h; cases h
  | openPos id lo hi =>
    unfold histStep at h
    simp only [] at h
    split at h
    · cases h
    · split at h
      · cases h
      · split at h
        · cases h
        · simp only [Except.ok.injEq, Prod.mk.injEq] at h
          obtain ⟨h1, _⟩ := h; subst h1
          exact wfR_of_same s _ w rfl w.glob
  | upd id =>
    unfold histStep at h
    simp only [] at h
    split at h
    · cases h
    · split at h
      · cases h
      · rename_i pos _ u hu
        simp only [Except.ok.injEq, Prod.mk.injEq] at h
        obtain ⟨h1, _⟩ := h; subst h1
        refine wfR_of_same s _ w rfl ?_
        show ∀ r ∈ u.rewards, r.growth < TWO128
        unfold calculateModifyLiquidity at hu
        split at hu
        · cases hu
        · split at hu
          · cases hu
          · rename_i rewards hrw
            have hrwf := next_rewards_wf _ _ _ w.glob hrw
            split at hu
            · cases hu
            · split at hu
              · cases hu
              · split at hu
                · cases hu
                · simp only [] at hu
                  split at hu
                  · cases hu
                  · cases hu; exact hrwf
  | cfees id =>
    unfold histStep at h
    simp only [] at h
    split at h
    · cases h
    · split at h
      · cases h
      · simp only [Except.ok.injEq, Prod.mk.injEq] at h
        obtain ⟨h1, _⟩ := h; subst h1
        exact wfR_of_same s _ w rfl w.glob
  | cproto =>
    unfold histStep at h
    simp only [] at h
    split at h
    · cases h
    · simp only [Except.ok.injEq, Prod.mk.injEq] at h
      obtain ⟨h1, _⟩ := h; subst h1
      exact wfR_of_same s _ w rfl w.glob
  | clock now =>
    unfold histStep at h
    simp only [Except.ok.injEq, Prod.mk.injEq] at h
    obtain ⟨h1, _⟩ := h; subst h1
    exact wfR_of_same s _ w rfl w.glob
  | crew id i =>
    unfold histStep at h
    simp only [] at h
    split at h
    · cases h
    · split at h
      · cases h
      · simp only [Except.ok.injEq, Prod.mk.injEq] at h
        obtain ⟨h1, _⟩ := h; subst h1
        exact wfR_of_same s _ w rfl w.glob

theorem apply_keeps_wfR (s : HistState) (op : HistOp) (inv : Inv s) (g : Geo ts0 s) (w : WfR s) (hop : OpOK ts0 op) :
    WfR (histApply s op) := by
  have other : ∀ (s' : HistState) (outs : List Nat), (∀ a l i d ar, op ≠ .swap a l i d ar) → (∀ i a p, op ≠ .modify i a p) →
      histStep s op = .ok (s', outs) → WfR s' := fun s' outs a b h => wfR_other s s' op outs w ⟨a, b⟩ h
  cases hop' : op with
  | reward i e t => exact reward_wfR s i e t w
  | swap amount limit isInput aToB arrays =>
    cases h : histStep s (.swap amount limit isInput aToB arrays) with
    | error e => rw [apply_err s _ e (by intro _ _ _ hh; cases hh) h]; exact w
    | ok r =>
      obtain ⟨s', outs⟩ := r
      rw [apply_ok s s' _ outs (by intro _ _ _ hh; cases hh) h]
      rw [hop'] at hop
      unfold OpOK at hop
      rw [← g.spacing] at hop
      exact (swap_step_reward s s' amount limit isInput aToB arrays outs inv g w hop.1 hop.2 h).1
  | modify id a p =>
    cases h : histStep s (.modify id a p) with
    | error e => rw [apply_err s _ e (by intro _ _ _ hh; cases hh) h]; exact w
    | ok r => obtain ⟨s', outs⟩ := r; rw [apply_ok s s' _ outs (by intro _ _ _ hh; cases hh) h]; exact wfR_modify s s' id a p outs w h
  | openPos id lo hi =>
    rw [hop'] at other
    cases h : histStep s (.openPos id lo hi) with
    | error e => rw [apply_err s _ e (by intro _ _ _ hh; cases hh) h]; exact w
    | ok r =>
      obtain ⟨s', outs⟩ := r; rw [apply_ok s s' _ outs (by intro _ _ _ hh; cases hh) h]
      exact other s' outs (by intro _ _ _ _ _ hh; cases hh) (by intro _ _ _ hh; cases hh) h
  | upd id =>
    rw [hop'] at other
    cases h : histStep s (.upd id) with
    | error e => rw [apply_err s _ e (by intro _ _ _ hh; cases hh) h]; exact w
    | ok r =>
      obtain ⟨s', outs⟩ := r; rw [apply_ok s s' _ outs (by intro _ _ _ hh; cases hh) h]
      exact other s' outs (by intro _ _ _ _ _ hh; cases hh) (by intro _ _ _ hh; cases hh) h
  | cfees id =>
    rw [hop'] at other
    cases h : histStep s (.cfees id) with
    | error e => rw [apply_err s _ e (by intro _ _ _ hh; cases hh) h]; exact w
    | ok r =>
      obtain ⟨s', outs⟩ := r; rw [apply_ok s s' _ outs (by intro _ _ _ hh; cases hh) h]
      exact other s' outs (by intro _ _ _ _ _ hh; cases hh) (by intro _ _ _ hh; cases hh) h
  | cproto =>
    rw [hop'] at other
    cases h : histStep s .cproto with
    | error e => rw [apply_err s _ e (by intro _ _ _ hh; cases hh) h]; exact w
    | ok r =>
      obtain ⟨s', outs⟩ := r; rw [apply_ok s s' _ outs (by intro _ _ _ hh; cases hh) h]
      exact other s' outs (by intro _ _ _ _ _ hh; cases hh) (by intro _ _ _ hh; cases hh) h
  | clock now =>
    rw [hop'] at other
    cases h : histStep s (.clock now) with
    | error e => rw [apply_err s _ e (by intro _ _ _ hh; cases hh) h]; exact w
    | ok r =>
      obtain ⟨s', outs⟩ := r; rw [apply_ok s s' _ outs (by intro _ _ _ hh; cases hh) h]
      exact other s' outs (by intro _ _ _ _ _ hh; cases hh) (by intro _ _ _ hh; cases hh) h
  | crew id i =>
    rw [hop'] at other
    cases h : histStep s (.crew id i) with
    | error e => rw [apply_err s _ e (by intro _ _ _ hh; cases hh) h]; exact w
    | ok r =>
      obtain ⟨s', outs⟩ := r; rw [apply_ok s s' _ outs (by intro _ _ _ hh; cases hh) h]
      exact other s' outs (by intro _ _ _ _ _ hh; cases hh) (by intro _ _ _ hh; cases hh) h

/-- **C11 over histories**: after ANY history of a pool started empty, ANY further swap accrues each
    initialized reward once, at its start (`nextRewardInfos` — C11.accrual_spec), and its crossings
    move no reward between ranges: the reward growth inside every liquidity-bearing range, read
    against the accrued global growth, is the same after the swap as before it. -/
theorem history_reward_growth (p : PoolD) (now : Nat) (af : Option AfInfo) (ops : List HistOp)
    (inv0 : Inv { pool := p, now := now, af := af }) (g0 : Geo ts0 { pool := p, now := now, af := af })
    (hR : ∀ r ∈ p.rewards, r.growth < TWO128) (hops : ∀ op ∈ ops, OpOK ts0 op)
    (amount limit : Nat) (isInput aToB : Bool) (arrays : List Int) (s' : HistState) (outs : List Nat)
    (hseq : SeqOK arrays ts0 aToB) (hamt : amount ≤ U64_MAX)
    (h : histStep (ops.foldl histApply { pool := p, now := now, af := af }) (.swap amount limit isInput aToB arrays) = .ok (s', outs)) :
    let s := ops.foldl histApply { pool := p, now := now, af := af }
    nextRewardInfos s.pool s.now = .ok s'.pool.rewards ∧
    ∀ i, i < 3 → (s'.pool.rewards.getD i {}).initialized = true → ∀ lo hi, lo < hi → Bound s.positions lo → Bound s.positions hi →
      C07.insideInit s'.pool.tick lo (ro i (s'.ticks.get lo)) hi (ro i (s'.ticks.get hi)) (s'.pool.rewards.getD i {}).growth =
        C07.insideInit s.pool.tick lo (ro i (s.ticks.get lo)) hi (ro i (s.ticks.get hi)) (s'.pool.rewards.getD i {}).growth := by
  intro s
  have w0 : WfR { pool := p, now := now, af := af } :=
    { ticks := fun t i _ => by
        have hz : (0 : Nat) < TWO128 := by decide
        show ro i (TickMap.get [] t) < TWO128
        unfold TickMap.get ro List.getD
        show (([0, 0, 0] : List Nat)[i]?).getD 0 < TWO128
        match i with
        | 0 => exact hz
        | 1 => exact hz
        | 2 => exact hz
        | (k + 3) => exact hz,
      glob := hR }
  have key : ∀ (ops : List HistOp) (st : HistState), Inv st → Geo ts0 st → WfR st → (∀ op ∈ ops, OpOK ts0 op) →
      Inv (ops.foldl histApply st) ∧ Geo ts0 (ops.foldl histApply st) ∧ WfR (ops.foldl histApply st) := by
    intro ops
    induction ops with
    | nil => intro st a b c _; exact ⟨a, b, c⟩
    | cons op rest ih =>
      intro st a b c hh
      obtain ⟨i1, g1⟩ := apply_keeps st op a b (hh op List.mem_cons_self)
      have w1 := apply_keeps_wfR st op a b c (hh op List.mem_cons_self)
      exact ih _ i1 g1 w1 (fun o ho => hh o (List.mem_cons_of_mem _ ho))
  obtain ⟨i1, g1, w1⟩ := key ops _ inv0 g0 w0 hops
  have hseq' : SeqOK arrays s.pool.ts aToB := by rw [g1.spacing]; exact hseq
  obtain ⟨_, q1, q2⟩ := swap_step_reward s s' amount limit isInput aToB arrays outs i1 g1 w1 hseq' hamt h
  exact ⟨q1, q2⟩

end WP.Reach
