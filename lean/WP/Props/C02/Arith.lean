import WP.Lemmas.Rounding
/-  C02 helper: the four pure-arithmetic cores (A-in, A-out, B-in, B-out) over ℕ.
    p = current price, t = target, n = next price, a = budget/request, Q = 2^64. -/
namespace WP.C02
open WP

theorem sub_split (L p n Q : Nat) (h : n ≤ p) : L * (p - n) * Q + n * L * Q = L * p * Q := by
  have : p - n + n = p := Nat.sub_add_cancel h
  calc L * (p - n) * Q + n * L * Q = L * (p - n + n) * Q := by ring
    _ = L * p * Q := by rw [this]

/-- token A in (price decreases): n = ⌈LpQ / (LQ + p·a)⌉ -/
theorem core_A_in (L p t a Q n : Nat) (ht : 2 ≤ t) (htp : t ≤ p)
    (hn : n = cdiv (L * p * Q) (L * Q + p * a)) (hd : 0 < L * Q + p * a)
    (need : a < cdiv (L * (p - t) * Q) (p * t)) :
    t ≤ n ∧ n ≤ p ∧ cdiv (L * (p - n) * Q) (p * n) ≤ a ∧ a < cdiv (L * (p - (n - 1)) * Q) (p * (n - 1)) := by
  have hp : 0 < p := by omega
  have hpt : 0 < p * t := Nat.mul_pos hp (by omega)
  have F1 : L * p * Q ≤ n * (L * Q + p * a) := by rw [hn]; exact le_cdiv_mul hd
  have hnp : n ≤ p := by
    rw [hn, cdiv_le_iff hd]
    have : p * (L * Q + p * a) = L * p * Q + p * (p * a) := by ring
    omega
  have need' := (lt_cdiv_iff hpt).mp need
  have htn : t ≤ n := by
    by_contra hc
    have h1 : n * (L * Q + p * a) < t * (L * Q + p * a) := Nat.mul_lt_mul_of_pos_right (by omega) hd
    have h2 : t * (L * Q + p * a) = t * L * Q + a * (p * t) := by ring
    have h3 := sub_split L p t Q htp
    omega
  have hn2 : 2 ≤ n := by omega
  refine ⟨htn, hnp, ?_, ?_⟩
  · rw [cdiv_le_iff (Nat.mul_pos hp (by omega))]
    have h2 : n * (L * Q + p * a) = n * L * Q + a * (p * n) := by ring
    have h3 := sub_split L p n Q hnp
    omega
  · rw [lt_cdiv_iff (Nat.mul_pos hp (by omega))]
    have F2 : (n - 1) * (L * Q + p * a) < L * p * Q := by
      have : n - 1 < cdiv (L * p * Q) (L * Q + p * a) := by omega
      exact (lt_cdiv_iff hd).mp this
    have h2 : (n - 1) * (L * Q + p * a) = (n - 1) * L * Q + a * (p * (n - 1)) := by ring
    have h3 := sub_split L p (n - 1) Q (by omega)
    omega

/-- token A out (price increases): n = ⌈LpQ / (LQ − p·a)⌉, with p·a < LQ -/
theorem core_A_out (L p t a Q n : Nat) (hp : 0 < p) (hpt : p ≤ t) (hg : p * a < L * Q)
    (hn : n = cdiv (L * p * Q) (L * Q - p * a))
    (need : a < L * (t - p) * Q / (t * p)) :
    p ≤ n ∧ n ≤ t ∧ a ≤ L * (n - p) * Q / (n * p) ∧
      (n ≠ p → L * (n - 1 - p) * Q / ((n - 1) * p) < a) := by
  have hd : 0 < L * Q - p * a := by omega
  have htp : 0 < t * p := Nat.mul_pos (by omega) hp
  have F1 : L * p * Q ≤ n * (L * Q - p * a) := by rw [hn]; exact le_cdiv_mul hd
  have hLQ : 0 < L * Q := by omega
  -- n ≥ p
  have hpn : p ≤ n := by
    by_contra hc
    have h1 : n * (L * Q - p * a) ≤ n * (L * Q) := Nat.mul_le_mul_left _ (by omega)
    have h2 : n * (L * Q) < p * (L * Q) := Nat.mul_lt_mul_of_pos_right (by omega) hLQ
    have h3 : p * (L * Q) = L * p * Q := by ring
    omega
  have need' : (a + 1) * (t * p) ≤ L * (t - p) * Q := (Nat.le_div_iff_mul_le htp).mp need
  have hnt : n ≤ t := by
    rw [hn, cdiv_le_iff hd]
    -- L p Q ≤ t (LQ − p a)  ⇐  t p a ≤ LQ (t − p)
    have e1 : t * (L * Q - p * a) = t * (L * Q) - t * (p * a) := Nat.mul_sub t _ _
    have e2 := sub_split L t p Q hpt
    have e3 : (a + 1) * (t * p) = t * (p * a) + t * p := by ring
    have e4 : t * (L * Q) = t * L * Q := by ring
    have e5 : p * L * Q = L * p * Q := by ring
    have e6 : L * t * Q = t * L * Q := by ring
    omega
  refine ⟨hpn, hnt, ?_, ?_⟩
  · rw [Nat.le_div_iff_mul_le (Nat.mul_pos (by omega) hp)]
    have e1 : n * (L * Q - p * a) = n * (L * Q) - n * (p * a) := Nat.mul_sub n _ _
    have e2 := sub_split L n p Q hpn
    have e3 : a * (n * p) = n * (p * a) := by ring
    have e4 : n * (L * Q) = n * L * Q := by ring
    have e5 : p * L * Q = L * p * Q := by ring
    have e6 : n * (p * a) ≤ n * (L * Q) := Nat.mul_le_mul_left _ (by omega)
    have e7 : L * n * Q = n * L * Q := by ring
    omega
  · intro hne
    have hn1 : p ≤ n - 1 := by omega
    have hpos : 0 < (n - 1) * p := Nat.mul_pos (by omega) hp
    rw [Nat.div_lt_iff_lt_mul hpos]
    have F2 : (n - 1) * (L * Q - p * a) < L * p * Q := by
      have : n - 1 < cdiv (L * p * Q) (L * Q - p * a) := by omega
      exact (lt_cdiv_iff hd).mp this
    have e1 : (n - 1) * (L * Q - p * a) = (n - 1) * (L * Q) - (n - 1) * (p * a) := Nat.mul_sub _ _ _
    have e2 := sub_split L (n - 1) p Q hn1
    have e3 : a * ((n - 1) * p) = (n - 1) * (p * a) := by ring
    have e4 : (n - 1) * (L * Q) = (n - 1) * L * Q := by ring
    have e5 : p * L * Q = L * p * Q := by ring
    have e6 : (n - 1) * (p * a) ≤ (n - 1) * (L * Q) := Nat.mul_le_mul_left _ (by omega)
    have e7 : L * (n - 1) * Q = (n - 1) * L * Q := by ring
    omega

/-- token B in (price increases): n = p + ⌊aQ / L⌋ -/
theorem core_B_in (L p t a Q n : Nat) (hL : 0 < L) (hQ : 0 < Q) (hpt : p ≤ t)
    (hn : n = p + a * Q / L) (need : a < cdiv (L * (t - p)) Q) :
    p ≤ n ∧ n ≤ t ∧ cdiv (L * (n - p)) Q ≤ a ∧ a < cdiv (L * (n + 1 - p)) Q := by
  have need' := (lt_cdiv_iff hQ).mp need
  have hle : L * (a * Q / L) ≤ a * Q := Nat.mul_div_le _ _
  have hlt : a * Q < L * (a * Q / L + 1) := Nat.lt_mul_div_succ (a * Q) hL
  generalize a * Q / L = q at *
  have e : n - p = q := by omega
  have hnt : n ≤ t := by
    have : q < t - p + 1 := by
      by_contra hc
      have h1 : L * (t - p + 1) ≤ L * q := Nat.mul_le_mul_left _ (by omega)
      have h2 : L * (t - p + 1) = L * (t - p) + L := by ring
      omega
    omega
  refine ⟨by omega, hnt, ?_, ?_⟩
  · rw [cdiv_le_iff hQ, e]; omega
  · rw [lt_cdiv_iff hQ]
    have e2 : n + 1 - p = q + 1 := by omega
    rw [e2]
    omega

/-- token B out (price decreases): n = p − ⌈aQ / L⌉ -/
theorem core_B_out (L p t a Q n : Nat) (hL : 0 < L) (hQ : 0 < Q) (htp : t ≤ p)
    (hc : cdiv (a * Q) L ≤ p) (hn : n = p - cdiv (a * Q) L)
    (need : a < L * (p - t) / Q) :
    t ≤ n ∧ n ≤ p ∧ a ≤ L * (p - n) / Q ∧ (n ≠ p → L * (p - (n + 1)) / Q < a) := by
  have need' : (a + 1) * Q ≤ L * (p - t) := (Nat.le_div_iff_mul_le hQ).mp need
  have hcle := le_cdiv_mul (n := a * Q) hL
  have hclt : 0 < cdiv (a * Q) L → (cdiv (a * Q) L - 1) * L < a * Q := by
    intro h0
    exact (lt_cdiv_iff hL).mp (by omega)
  have hcdef : cdiv (a * Q) L ≤ p - t := by
    rw [cdiv_le_iff hL]
    have : (p - t) * L = L * (p - t) := by ring
    have : (a + 1) * Q = a * Q + Q := by ring
    omega
  generalize cdiv (a * Q) L = c at *
  have e : p - n = c := by omega
  have htn : t ≤ n := by omega
  refine ⟨htn, by omega, ?_, ?_⟩
  · rw [Nat.le_div_iff_mul_le hQ, e]
    have : c * L = L * c := by ring
    omega
  · intro hne
    rw [Nat.div_lt_iff_lt_mul hQ]
    have hpos : 0 < c := by omega
    have e2 : p - (n + 1) = c - 1 := by omega
    rw [e2]
    have := hclt hpos
    have e3 : (c - 1) * L = L * (c - 1) := by ring
    omega

end WP.C02
