import WP.Model.SwapMath
import WP.Lemmas.Rounding
/-
  C02 helper lemmas: exact specifications of the component functions of `compute_swap`
  (amount deltas and next-price functions) in terms of floor / exact ceiling division.
-/
namespace WP.C02
open WP WP.Gen

/-- exact token-A amount between two prices, as numerator / denominator -/
def aNum (L lo hi : Nat) : Nat := L * (hi - lo) * TWO64
def aDen (lo hi : Nat) : Nat := hi * lo
/-- exact token-B amount between two prices -/
def bNum (L lo hi : Nat) : Nat := L * (hi - lo)

def lo' (p0 p1 : Nat) : Nat := (incOrder p0 p1).1
def hi' (p0 p1 : Nat) : Nat := (incOrder p0 p1).2

theorem lo_hi_cases (p0 p1 : Nat) :
    (p0 ≤ p1 ∧ lo' p0 p1 = p0 ∧ hi' p0 p1 = p1) ∨ (p1 < p0 ∧ lo' p0 p1 = p1 ∧ hi' p0 p1 = p0) := by
  unfold lo' hi' incOrder
  by_cases h : p0 > p1
  · right; simp [h]
  · left; simp [h]; omega

theorem two64_pos : 0 < TWO64 := by decide
theorem two64_val : TWO64 = 18446744073709551616 := rfl
theorem u64max_val : U64_MAX = 18446744073709551615 := rfl
theorem u128max_val : U128_MAX = 340282366920938463463374607431768211455 := rfl
theorem two128_val : TWO128 = 340282366920938463463374607431768211456 := rfl

/-- rounding used by the A-delta: value before the range checks -/
def roundA (L lo hi : Nat) (up : Bool) : Nat :=
  if up then cdiv (aNum L lo hi) (aDen lo hi) else aNum L lo hi / aDen lo hi

def roundB (L lo hi : Nat) (up : Bool) : Nat :=
  if up then cdiv (bNum L lo hi) TWO64 else bNum L lo hi / TWO64

theorem tryDeltaA_spec (p0 p1 L : Nat) (up : Bool) (d : AmountDelta) (h0 : 0 < p0) (h1 : 0 < p1)
    (h : tryGetAmountDeltaA p0 p1 L up = .ok d) :
    (∀ v, d = .valid v → v = roundA L (lo' p0 p1) (hi' p0 p1) up ∧ v ≤ U64_MAX) ∧
    (∀ e, d = .exceedsMax e → U64_MAX < roundA L (lo' p0 p1) (hi' p0 p1) up) := by
  unfold tryGetAmountDeltaA at h
  simp only [] at h
  have hlo : 0 < lo' p0 p1 := by rcases lo_hi_cases p0 p1 with ⟨_, a, _⟩ | ⟨_, a, _⟩ <;> omega
  have hhi : 0 < hi' p0 p1 := by rcases lo_hi_cases p0 p1 with ⟨_, _, a⟩ | ⟨_, _, a⟩ <;> omega
  unfold lo' at hlo ⊢
  unfold hi' at hhi ⊢
  generalize (incOrder p0 p1).1 = lo at *
  generalize (incOrder p0 p1).2 = hi at *
  have hden : 0 < hi * lo := Nat.mul_pos hhi hlo
  split at h
  · simp at h
  · rename_i hprod
    simp only [Nat.ne_of_gt hden, if_false] at h
    -- the rounded quotient, no wrap at 2^256
    have hnum : L * (hi - lo) * TWO64 < TWO256 := by
      have : L * (hi - lo) < TWO128 * TWO64 := by omega
      have h64 := two64_pos
      calc L * (hi - lo) * TWO64 < TWO128 * TWO64 * TWO64 := Nat.mul_lt_mul_of_pos_right this h64
        _ = TWO256 := by decide
    set num := L * (hi - lo) * TWO64 with hnumdef
    set den := hi * lo with hdendef
    have hq : num / den ≤ num := Nat.div_le_self _ _
    have hr : (if (up && decide (num % den > 0)) = true then (num / den + 1) % TWO256 else num / den)
        = roundA L lo hi up := by
      unfold roundA aNum aDen
      cases up with
      | false => simp only [Bool.false_and, Bool.false_eq_true, if_false]; rfl
      | true =>
        simp only [Bool.true_and, decide_eq_true_eq, if_true]
        rw [← roundUp_eq_cdiv _ _ hden]
        split
        · rename_i hm
          have hd2 : 2 ≤ den := by
            by_contra hc
            have : den = 1 := by omega
            rw [this, Nat.mod_one] at hm; omega
          have : num / den ≤ num / 2 := Nat.div_le_div_left hd2 (by omega)
          have : num / den + 1 < TWO256 := by
            have : num / 2 < TWO256 := by omega
            have t : TWO256 = 115792089237316195423570985008687907853269984665640564039457584007913129639936 := by decide
            omega
          rw [Nat.mod_eq_of_lt this]
        · rfl
    rw [hr] at h
    split at h
    · constructor
      · intro v hv; simp at h; rw [← h] at hv; cases hv
      · intro e _; have := u64max_val; have := u128max_val; omega
    · split at h
      · constructor
        · intro v hv; simp at h; rw [← h] at hv; cases hv
        · intro e _; omega
      · constructor
        · intro v hv
          simp at h; rw [← h] at hv; cases hv
          exact ⟨rfl, by omega⟩
        · intro e he; simp at h; rw [← h] at he; cases he

theorem tryDeltaB_spec (p0 p1 L : Nat) (up : Bool) (d : AmountDelta)
    (h : tryGetAmountDeltaB p0 p1 L up = .ok d) :
    (∀ v, d = .valid v → v = roundB L (lo' p0 p1) (hi' p0 p1) up ∧ v ≤ U64_MAX) ∧
    (∀ e, d = .exceedsMax e → U64_MAX < roundB L (lo' p0 p1) (hi' p0 p1) up) := by
  unfold tryGetAmountDeltaB at h
  simp only [] at h
  unfold lo' hi' roundB bNum
  generalize (incOrder p0 p1).1 = lo at *
  generalize (incOrder p0 p1).2 = hi at *
  have h64 : 0 < TWO64 := by decide
  have hv64 := two64_val
  have hu := u64max_val
  have hu128 := u128max_val
  by_cases hz : (L = 0 || hi - lo = 0) = true
  · simp only [hz, ↓reduceIte] at h
    simp at h
    have hb : L * (hi - lo) = 0 := by
      simp at hz
      rcases hz with hz | hz
      · rw [hz]; simp
      · have : hi - lo = 0 := by omega
        rw [this]; simp
    constructor
    · intro v hv; rw [← h] at hv; cases hv
      rw [hb]
      cases up <;> simp [cdiv_zero _ h64] <;> omega
    · intro e he; rw [← h] at he; cases he
  · simp only [hz, ↓reduceIte] at h
    by_cases hov : L * (hi - lo) > U128_MAX
    · simp only [hov, ↓reduceIte] at h
      simp at h
      constructor
      · intro v hv; rw [← h] at hv; cases hv
      · intro e _
        have hfl : U64_MAX < L * (hi - lo) / TWO64 := by
          rw [Nat.lt_div_iff_mul_lt h64, hu, hv64]; omega
        cases up with
        | false => simpa using hfl
        | true =>
          simp only [if_true]
          exact lt_of_lt_of_le hfl (floor_le_cdiv _ _ h64)
    · simp only [hov, ↓reduceIte] at h
      generalize hp : L * (hi - lo) = p at *
      have hlt : p / TWO64 < TWO64 := by
        rw [Nat.div_lt_iff_lt_mul h64, hv64]; omega
      have hfloor : p / TWO64 % TWO64 = p / TWO64 := Nat.mod_eq_of_lt hlt
      cases up with
      | false =>
        simp only [Bool.false_and, Bool.false_eq_true, ↓reduceIte, hfloor] at h
        simp at h
        constructor
        · intro v hv; rw [← h] at hv; cases hv
          simp; omega
        · intro e he; rw [← h] at he; cases he
      | true =>
        simp only [Bool.true_and, hfloor, if_true] at h ⊢
        rw [← roundUp_eq_cdiv _ _ h64]
        by_cases hm : p % TWO64 > 0
        · simp only [hm, decide_true, Bool.true_and, ↓reduceIte] at h ⊢
          by_cases he : p / TWO64 = U64_MAX
          · simp only [he, decide_true, ↓reduceIte] at h
            simp at h
            constructor
            · intro v hv; rw [← h] at hv; cases hv
            · intro e _; omega
          · simp only [he, decide_false, Bool.false_eq_true, ↓reduceIte] at h
            simp at h
            constructor
            · intro v hv; rw [← h] at hv; cases hv
              exact ⟨rfl, by omega⟩
            · intro e he'; rw [← h] at he'; cases he'
        · simp only [hm, decide_false, Bool.false_and, Bool.false_eq_true, ↓reduceIte] at h ⊢
          simp at h
          constructor
          · intro v hv; rw [← h] at hv; cases hv
            exact ⟨rfl, by omega⟩
          · intro e he'; rw [← h] at he'; cases he'

end WP.C02
