import WP.Props.C02.NextPrice
import WP.Props.C02.Arith
/-  C02 helper: the next price of a step lies between current and target; budget/tightness facts. -/
namespace WP.C02
open WP WP.Gen

/-- the facts about one step's price move, per (mode, direction), in terms of the net budget `amt` -/
structure MoveFacts (L cur tgt next amt : Nat) (ein dir : Bool) : Prop where
  between : if dir then tgt ≤ next ∧ next ≤ cur else cur ≤ next ∧ next ≤ tgt
  /-- non-max exact-in: the exact input of the move, rounded up, fits the budget -/
  in_le : ein = true → next ≠ tgt →
    roundTok dir L (lo' cur next) (hi' cur next) true ≤ amt
  /-- non-max exact-in: one price unit further costs more than the budget -/
  in_tight : ein = true → next ≠ tgt →
    amt < roundTok dir L (lo' cur (if dir then next - 1 else next + 1)) (hi' cur (if dir then next - 1 else next + 1)) true
  /-- non-max exact-out: the exact output of the move, rounded down, covers the request -/
  out_ge : ein = false → next ≠ tgt →
    amt ≤ roundTok (!dir) L (lo' cur next) (hi' cur next) false
  /-- non-max exact-out: one price unit less delivers less than the request -/
  out_tight : ein = false → next ≠ tgt → next ≠ cur →
    roundTok (!dir) L (lo' cur (if dir then next + 1 else next - 1)) (hi' cur (if dir then next + 1 else next - 1)) false < amt

theorem lo_hi_of_le {a b : Nat} (h : a ≤ b) : lo' a b = a ∧ hi' a b = b := by
  rcases lo_hi_cases a b with ⟨_, x, y⟩ | ⟨c, _, _⟩
  · exact ⟨x, y⟩
  · omega

theorem lo_hi_of_ge {a b : Nat} (h : b ≤ a) : lo' a b = b ∧ hi' a b = a := by
  rcases lo_hi_cases a b with ⟨c, x, y⟩ | ⟨_, x, y⟩
  · have : a = b := by omega
    subst this; exact ⟨x, y⟩
  · exact ⟨x, y⟩

/-- when the step does not take the max branch, reaching the target needs more than the budget -/
theorem need_gt (L cur tgt amt : Nat) (ein dir : Bool) (initial : AmountDelta)
    (h0 : 0 < cur) (h1 : 0 < tgt) (hamtU : amt ≤ U64_MAX)
    (hinit : tryGetAmountFixedDelta cur tgt L ein dir = .ok initial)
    (hl : initial.lte amt = false) :
    amt < roundTok (dir == ein) L (lo' cur tgt) (hi' cur tgt) ein := by
  unfold tryGetAmountFixedDelta at hinit
  unfold roundTok
  by_cases e : dir = ein
  · simp only [e, if_true, beq_self_eq_true] at hinit ⊢
    obtain ⟨a, b⟩ := tryDeltaA_spec _ _ _ _ _ h0 h1 hinit
    cases initial with
    | valid v =>
      have := (a v rfl).1
      simp [AmountDelta.lte] at hl
      omega
    | exceedsMax er => have := b er rfl; omega
  · have hb : (dir == ein) = false := by simpa using e
    simp only [e, if_false, hb] at hinit ⊢
    obtain ⟨a, b⟩ := tryDeltaB_spec _ _ _ _ _ hinit
    cases initial with
    | valid v =>
      have := (a v rfl).1
      simp [AmountDelta.lte] at hl
      simp only [Bool.false_eq_true, if_false]
      omega
    | exceedsMax er => have := b er rfl; simp only [Bool.false_eq_true, if_false]; omega

theorem move_facts (L cur tgt next amt : Nat) (ein dir : Bool) (initial : AmountDelta)
    (hcur : 2 ≤ cur) (htgt : 2 ≤ tgt) (hcurU : cur ≤ U128_MAX) (hLU : L ≤ U128_MAX) (hamtU : amt ≤ U64_MAX)
    (hdir : if dir then tgt ≤ cur else cur ≤ tgt)
    (hinit : tryGetAmountFixedDelta cur tgt L ein dir = .ok initial)
    (hnext : stepNext initial amt cur tgt L ein dir = .ok next) :
    MoveFacts L cur tgt next amt ein dir := by
  have h64 := two64_pos
  unfold stepNext at hnext
  by_cases hl : initial.lte amt = true
  · simp only [hl, if_true, Except.ok.injEq] at hnext
    subst hnext
    refine ⟨?_, ?_, ?_, ?_, ?_⟩
    · cases dir <;> simp at hdir ⊢ <;> omega
    all_goals (intros; contradiction)
  · have hl' : initial.lte amt = false := by simpa using hl
    simp only [hl', Bool.false_eq_true, if_false] at hnext
    have need := need_gt L cur tgt amt ein dir initial (by omega) (by omega) hamtU hinit hl'
    unfold getNextSqrtPrice at hnext
    cases ein with
    | true =>
      cases dir with
      | true =>
        -- token A in
        simp only [if_true] at hnext hdir
        simp only [beq_self_eq_true, roundTok, if_true, roundA, aNum, aDen] at need
        obtain ⟨ltgt, htgt'⟩ := lo_hi_of_ge hdir
        rw [ltgt, htgt'] at need
        have hLpos : 0 < L := by
          by_contra hc
          have : L = 0 := by omega
          rw [this] at need
          simp [cdiv] at need
          have : (cur * tgt - 1) / (cur * tgt) = 0 := Nat.div_eq_of_lt (by
            have : 0 < cur * tgt := Nat.mul_pos (by omega) (by omega)
            omega)
          omega
        have hform : next = cdiv (L * cur * TWO64) (L * TWO64 + cur * amt) := by
          by_cases ha : amt = 0
          · subst ha
            unfold getNextSqrtPriceFromARoundUp at hnext
            simp at hnext
            subst hnext
            have : L * cur * TWO64 = cur * (L * TWO64 + cur * 0) := by ring
            rw [this, cdiv_mul_right _ _ (by simp only [Nat.mul_zero, Nat.add_zero]; exact Nat.mul_pos hLpos h64)]
          · exact (nspA_spec cur L amt next true (by omega) (by omega) hcurU hLU hamtU hnext).2.1
        have hd : 0 < L * TWO64 + cur * amt := by
          have := Nat.mul_pos hLpos h64; omega
        obtain ⟨c1, c2, c3, c4⟩ := core_A_in L cur tgt amt TWO64 next htgt hdir hform hd need
        refine ⟨?_, ?_, ?_, ?_, ?_⟩
        · simp; exact ⟨c1, c2⟩
        · intro _ _
          obtain ⟨a, b⟩ := lo_hi_of_ge c2
          simp only [roundTok, if_true, roundA, aNum, aDen, a, b]; exact c3
        · intro _ _
          obtain ⟨a, b⟩ := lo_hi_of_ge (show next - 1 ≤ cur by omega)
          simp only [roundTok, if_true, roundA, aNum, aDen, a, b]; exact c4
        · intro h; cases h
        · intro h; cases h
      | false =>
        -- token B in
        simp only [Bool.false_eq_true, if_false] at hdir
        have hne : (true = false) = False := by simp
        simp only [hne, if_false] at hnext
        have hb : ((false : Bool) == true) = false := rfl
        simp only [hb, roundTok, Bool.false_eq_true, if_false, if_true, roundB, bNum] at need
        obtain ⟨ltgt, htgt'⟩ := lo_hi_of_le hdir
        rw [ltgt, htgt'] at need
        obtain ⟨hLpos, hform⟩ := nspB_spec cur L amt next true hnext
        simp only [if_true] at hform
        obtain ⟨c1, c2, c3, c4⟩ := core_B_in L cur tgt amt TWO64 next hLpos h64 hdir hform need
        refine ⟨?_, ?_, ?_, ?_, ?_⟩
        · simp; exact ⟨c1, c2⟩
        · intro _ _
          obtain ⟨a, b⟩ := lo_hi_of_le c1
          simp only [roundTok, Bool.false_eq_true, if_false, if_true, roundB, bNum, a, b]; exact c3
        · intro _ _
          obtain ⟨a, b⟩ := lo_hi_of_le (show cur ≤ next + 1 by omega)
          simp only [roundTok, Bool.false_eq_true, if_false, if_true, roundB, bNum, a, b]; exact c4
        · intro h; cases h
        · intro h; cases h
    | false =>
      cases dir with
      | true =>
        -- token B out
        simp only [if_true] at hdir
        have hne : (false = true) = False := by simp
        simp only [hne, if_false] at hnext
        have hb : ((true : Bool) == false) = false := rfl
        simp only [hb, roundTok, Bool.false_eq_true, if_false, roundB, bNum] at need
        obtain ⟨ltgt, htgt'⟩ := lo_hi_of_ge hdir
        rw [ltgt, htgt'] at need
        obtain ⟨hLpos, hform⟩ := nspB_spec cur L amt next false hnext
        simp only [Bool.false_eq_true, if_false] at hform
        obtain ⟨c1, c2, c3, c4⟩ := core_B_out L cur tgt amt TWO64 next hLpos h64 hdir hform.1 hform.2 need
        refine ⟨?_, ?_, ?_, ?_, ?_⟩
        · simp; exact ⟨c1, c2⟩
        · intro h; cases h
        · intro h; cases h
        · intro _ _
          obtain ⟨a, b⟩ := lo_hi_of_ge c2
          simp only [roundTok, Bool.not_true, Bool.false_eq_true, if_false, roundB, bNum, a, b]; exact c3
        · intro _ _ hnc
          obtain ⟨a, b⟩ := lo_hi_of_ge (show next + 1 ≤ cur by omega)
          simp only [roundTok, Bool.not_true, Bool.false_eq_true, if_false, if_true, roundB, bNum, a, b]; exact c4 hnc
      | false =>
        -- token A out
        simp only [Bool.false_eq_true, if_false] at hdir
        simp only [if_true] at hnext
        simp only [beq_self_eq_true, roundTok, if_true, Bool.false_eq_true, if_false, roundA, aNum, aDen] at need
        obtain ⟨ltgt, htgt'⟩ := lo_hi_of_le hdir
        rw [ltgt, htgt'] at need
        have hLpos : 0 < L := by
          by_contra hc
          have : L = 0 := by omega
          rw [this] at need
          simp at need
        have hg : cur * amt < L * TWO64 := by
          by_cases ha : amt = 0
          · subst ha; simp only [Nat.mul_zero]; exact Nat.mul_pos hLpos h64
          · exact (nspA_spec cur L amt next false (by omega) (by omega) hcurU hLU hamtU hnext).1 rfl
        have hform : next = cdiv (L * cur * TWO64) (L * TWO64 - cur * amt) := by
          by_cases ha : amt = 0
          · subst ha
            unfold getNextSqrtPriceFromARoundUp at hnext
            simp at hnext
            subst hnext
            have : L * cur * TWO64 = cur * (L * TWO64 - cur * 0) := by simp only [Nat.mul_zero, Nat.sub_zero]; ring
            rw [this, cdiv_mul_right _ _ (by simp only [Nat.mul_zero, Nat.sub_zero]; exact Nat.mul_pos hLpos h64)]
          · have := (nspA_spec cur L amt next false (by omega) (by omega) hcurU hLU hamtU hnext).2.1
            simpa using this
        obtain ⟨c1, c2, c3, c4⟩ := core_A_out L cur tgt amt TWO64 next (by omega) hdir hg hform need
        refine ⟨?_, ?_, ?_, ?_, ?_⟩
        · simp; exact ⟨c1, c2⟩
        · intro h; cases h
        · intro h; cases h
        · intro _ _
          obtain ⟨a, b⟩ := lo_hi_of_le c1
          simp only [roundTok, Bool.not_false, if_true, Bool.false_eq_true, if_false, roundA, aNum, aDen, a, b]; exact c3
        · intro _ _ hnc
          obtain ⟨a, b⟩ := lo_hi_of_le (show cur ≤ next - 1 by omega)
          simp only [roundTok, Bool.not_false, if_true, Bool.false_eq_true, if_false, roundA, aNum, aDen, a, b]; exact c4 hnc

end WP.C02
