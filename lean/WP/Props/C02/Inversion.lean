import WP.Props.C02.Components
/-  C02 helper: inversion of a successful `computeSwap` into its intermediate values. -/
namespace WP.C02
open WP WP.Gen

theorem computeSwap_inv (rem feeRate L cur tgt : Nat) (ein dir : Bool) (r : SwapStep)
    (h : computeSwap rem feeRate L cur tgt ein dir = .ok r) :
    ∃ initial amountCalc unfixed fixed,
      tryGetAmountFixedDelta cur tgt L ein dir = .ok initial ∧
      amountCalcOf rem feeRate ein = .ok amountCalc ∧
      stepNext initial amountCalc cur tgt L ein dir = .ok r.nextPrice ∧
      getAmountUnfixedDelta cur r.nextPrice L ein dir = .ok unfixed ∧
      stepFixed initial r.nextPrice cur tgt L ein dir = .ok fixed ∧
      r.amountIn = (if ein then fixed else unfixed) ∧
      r.amountOut = (if (!ein && decide ((if ein then unfixed else fixed) > rem)) then rem else (if ein then unfixed else fixed)) ∧
      stepFee rem r.amountIn feeRate r.nextPrice tgt ein = .ok r.feeAmount := by
  unfold computeSwap at h
  split at h
  · simp at h
  · rename_i initial hinit
    split at h
    · simp at h
    · rename_i amountCalc hcalc
      split at h
      · simp at h
      · rename_i next hnext
        split at h
        · simp at h
        · rename_i unfixed hunf
          split at h
          · simp at h
          · rename_i fixed hfix
            simp only [] at h
            split at h
            · simp at h
            · rename_i fee hfee
              simp only [Except.ok.injEq] at h
              subst h
              exact ⟨initial, amountCalc, unfixed, fixed, hinit, hcalc, hnext, hunf, hfix, rfl, rfl, hfee⟩

end WP.C02
