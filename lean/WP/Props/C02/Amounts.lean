import WP.Props.C02.Inversion
/-  C02 helper: the fixed and unfixed deltas of a step are the exact amounts, rounded as stated. -/
namespace WP.C02
open WP WP.Gen

theorem getDeltaA_spec (p0 p1 L : Nat) (up : Bool) (v : Nat) (h0 : 0 < p0) (h1 : 0 < p1)
    (h : getAmountDeltaA p0 p1 L up = .ok v) : v = roundA L (lo' p0 p1) (hi' p0 p1) up ∧ v ≤ U64_MAX := by
  unfold getAmountDeltaA unwrapDelta at h
  split at h
  · rename_i v' hv
    simp at h; subst h
    exact (tryDeltaA_spec p0 p1 L up _ h0 h1 hv).1 v' rfl
  · simp at h
  · simp at h

theorem getDeltaB_spec (p0 p1 L : Nat) (up : Bool) (v : Nat)
    (h : getAmountDeltaB p0 p1 L up = .ok v) : v = roundB L (lo' p0 p1) (hi' p0 p1) up ∧ v ≤ U64_MAX := by
  unfold getAmountDeltaB unwrapDelta at h
  split at h
  · rename_i v' hv
    simp at h; subst h
    exact (tryDeltaB_spec p0 p1 L up _ hv).1 v' rfl
  · simp at h
  · simp at h

/-- the exact amount of the token selected by `isA`, rounded in direction `up` -/
def roundTok (isA : Bool) (L lo hi : Nat) (up : Bool) : Nat :=
  if isA then roundA L lo hi up else roundB L lo hi up

theorem getFixed_spec (cur next L : Nat) (ein dir : Bool) (v : Nat) (h0 : 0 < cur) (h1 : 0 < next)
    (h : getAmountFixedDelta cur next L ein dir = .ok v) :
    v = roundTok (dir == ein) L (lo' cur next) (hi' cur next) ein ∧ v ≤ U64_MAX := by
  unfold getAmountFixedDelta at h
  unfold roundTok
  by_cases e : dir = ein
  · simp only [e, if_true, beq_self_eq_true] at h ⊢
    exact getDeltaA_spec _ _ _ _ _ h0 h1 h
  · have : (dir == ein) = false := by simpa using e
    simp only [e, if_false, this] at h ⊢
    simpa using getDeltaB_spec _ _ _ _ _ h

theorem unfixed_spec (cur next L : Nat) (ein dir : Bool) (v : Nat) (h0 : 0 < cur) (h1 : 0 < next)
    (h : getAmountUnfixedDelta cur next L ein dir = .ok v) :
    v = roundTok (!(dir == ein)) L (lo' cur next) (hi' cur next) (!ein) ∧ v ≤ U64_MAX := by
  unfold getAmountUnfixedDelta at h
  unfold roundTok
  by_cases e : dir = ein
  · simp only [e, if_true, beq_self_eq_true, Bool.not_true] at h ⊢
    simpa using getDeltaB_spec _ _ _ _ _ h
  · have : (dir == ein) = false := by simpa using e
    simp only [e, if_false, this, Bool.not_false, if_true] at h ⊢
    exact getDeltaA_spec _ _ _ _ _ h0 h1 h

theorem fixed_spec (initial : AmountDelta) (cur tgt next L : Nat) (ein dir : Bool) (v : Nat)
    (h0 : 0 < cur) (h1 : 0 < next)
    (hi : tryGetAmountFixedDelta cur tgt L ein dir = .ok initial)
    (h : stepFixed initial next cur tgt L ein dir = .ok v) :
    v = roundTok (dir == ein) L (lo' cur next) (hi' cur next) ein ∧ v ≤ U64_MAX := by
  unfold stepFixed at h
  split at h
  · exact getFixed_spec _ _ _ _ _ _ h0 h1 h
  · rename_i hc
    simp only [Bool.or_eq_true, Bool.not_eq_true', beq_eq_false_iff_ne, ne_eq, not_or, Decidable.not_not] at hc
    obtain ⟨hnt, _⟩ := hc
    have hnt : next = tgt := by simpa using hnt
    subst hnt
    split at h
    · rename_i v' _
      simp at h; subst h
      unfold tryGetAmountFixedDelta at hi
      unfold roundTok
      by_cases e : dir = ein
      · simp only [e, if_true, beq_self_eq_true] at hi ⊢
        exact (tryDeltaA_spec _ _ _ _ _ h0 h1 hi).1 v' rfl
      · have : (dir == ein) = false := by simpa using e
        simp only [e, if_false, this] at hi ⊢
        simpa using (tryDeltaB_spec _ _ _ _ _ hi).1 v' rfl
    · simp at h

end WP.C02
