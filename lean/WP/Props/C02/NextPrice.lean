import WP.Props.C02.Amounts
/-  C02 helper: exact specifications of the next-price functions. -/
namespace WP.C02
open WP WP.Gen

theorem roundUpWrap_eq_cdiv (num den : Nat) (hnum : num < TWO256) (hden : 0 < den) :
    (if num % den > 0 then (num / den + 1) % TWO256 else num / den) = cdiv num den := by
  rw [← roundUp_eq_cdiv _ _ hden]
  split
  · rename_i hm
    have hd2 : 2 ≤ den := by
      by_contra hc
      have : den = 1 := by omega
      rw [this, Nat.mod_one] at hm; omega
    have : num / den ≤ num / 2 := Nat.div_le_div_left hd2 (by omega)
    have : num / den + 1 < TWO256 := by
      have t : TWO256 = 115792089237316195423570985008687907853269984665640564039457584007913129639936 := by decide
      omega
    rw [Nat.mod_eq_of_lt this]
  · rfl

theorem two256_eq : TWO128 * TWO64 * TWO64 = TWO256 := by decide

theorem div256_spec (num den n : Nat) (hnum : num < TWO256) (hden : 0 < den)
    (h : divRoundUpIfU256 num den true = .ok n) : n = cdiv num den := by
  unfold divRoundUpIfU256 at h
  rw [if_neg (by omega)] at h
  simp only [Bool.true_and, decide_eq_true_eq] at h
  rw [roundUpWrap_eq_cdiv num den hnum hden] at h
  split at h
  · simpa using h.symm
  · simp at h

/-- `get_next_sqrt_price_from_a_round_up`: next = ⌈L·p·Q / (L·Q ± p·amt)⌉, within the price bounds -/
theorem nspA_spec (p L amt n : Nat) (ein : Bool) (hamt : 0 < amt) (hp : 0 < p)
    (hpU : p ≤ U128_MAX) (hLU : L ≤ U128_MAX) (haU : amt ≤ U64_MAX)
    (h : getNextSqrtPriceFromARoundUp p L amt ein = .ok n) :
    (ein = false → p * amt < L * TWO64) ∧
    n = cdiv (L * p * TWO64) (if ein then L * TWO64 + p * amt else L * TWO64 - p * amt) ∧
    MIN_SQRT_PRICE_X64 ≤ n ∧ n ≤ MAX_SQRT_PRICE_X64 := by
  unfold getNextSqrtPriceFromARoundUp at h
  rw [if_neg (by omega)] at h
  simp only [] at h
  split at h
  · simp at h
  · rename_i hov
    have h64 := two64_pos
    have hnum : L * p * TWO64 < TWO256 := by
      have : L * p < TWO128 * TWO64 := by omega
      calc L * p * TWO64 < TWO128 * TWO64 * TWO64 := Nat.mul_lt_mul_of_pos_right this h64
        _ = TWO256 := two256_eq
    have hprodpos : 0 < p * amt := Nat.mul_pos hp hamt
    have hsum : L * TWO64 + p * amt < TWO256 := by
      have a : L * TWO64 ≤ U128_MAX * TWO64 := Nat.mul_le_mul_right _ hLU
      have b : p * amt ≤ U128_MAX * U64_MAX := Nat.mul_le_mul hpU haU
      have c : U128_MAX * TWO64 + U128_MAX * U64_MAX < TWO256 := by decide
      omega
    split at h
    · simp at h
    · rename_i hdz
      have hguard : ein = false → p * amt < L * TWO64 := by
        intro he
        simp only [he, Bool.not_false, Bool.true_and, decide_eq_true_eq] at hdz
        omega
      have hden : (if ein = true then (L * TWO64 + p * amt) % TWO256 else L * TWO64 - p * amt)
          = (if ein = true then L * TWO64 + p * amt else L * TWO64 - p * amt) := by
        cases ein <;> simp [Nat.mod_eq_of_lt hsum]
      rw [hden] at h
      have hdenpos : 0 < (if ein = true then L * TWO64 + p * amt else L * TWO64 - p * amt) := by
        cases ein with
        | true => simp; omega
        | false => simp; exact hguard rfl
      split at h
      · simp at h
      · rename_i price hprice
        have := div256_spec _ _ _ hnum hdenpos hprice
        split at h
        · simp at h
        · split at h
          · simp at h
          · simp at h; subst h
            exact ⟨hguard, this, by omega, by omega⟩

/-- `get_next_sqrt_price_from_b_round_down` -/
theorem nspB_spec (p L amt n : Nat) (ein : Bool)
    (h : getNextSqrtPriceFromBRoundDown p L amt ein = .ok n) :
    0 < L ∧ (if ein then n = p + amt * TWO64 / L else (cdiv (amt * TWO64) L ≤ p ∧ n = p - cdiv (amt * TWO64) L)) := by
  unfold getNextSqrtPriceFromBRoundDown divRoundUpIf at h
  simp only [] at h
  by_cases hL : L = 0
  · simp [hL] at h
  · have hLp : 0 < L := by omega
    simp only [hL, if_false] at h
    refine ⟨hLp, ?_⟩
    cases ein with
    | true =>
      simp only [Bool.not_true, Bool.false_and, Bool.false_eq_true, if_false, if_true] at h ⊢
      split at h
      · simpa using h.symm
      · simp at h
    | false =>
      simp only [Bool.not_false, Bool.true_and, decide_eq_true_eq, Bool.false_eq_true, if_false] at h ⊢
      rw [roundUp_eq_cdiv _ _ hLp] at h
      split at h
      · rename_i hle
        simp at h
        exact ⟨hle, h.symm⟩
      · simp at h

end WP.C02
