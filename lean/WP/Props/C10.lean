import WP.Model.Packaging
/-
  Property C10 — a swap crosses exactly the initialized ticks in its path, however packaged.

  Model: WP/Model/SwapLoop.lean (per-array search, sequence search, swap loop over the ABSTRACT tick
  map) and WP/Model/Packaging.lean (which arrays `SparseSwapTickSequenceBuilder` hands to the loop).
  Proved here:
   * the per-array search returns the NEAREST initialized slot in swap direction — inclusive leftwards,
     exclusive rightwards, in the shifted range — or `None` exactly when there is none
     (arrayNext_down, arrayNext_up);
   * the sequence search over consecutive arrays returns the nearest initialized slot of the first
     array that has one, every array before it having none in its searched part; otherwise the
     sentinel: MIN/MAX tick for the edge arrays, else the first/last tick of the LAST supplied array —
     never a tick beyond the supplied arrays (seqNext_down, seqNext_up, by induction on the sequence);
   * one loop step can change the tick map and the liquidity only by crossing the tick the search
     returned, only if it is initialized and the price reached it, applying exactly its
     liquidity_net (cross_only_target);
   * the builder returns a non-empty PREFIX of the three required start indexes, stopping at the
     first one no supplied account covers (so liquidity is never skipped), rejects foreign arrays
     (buildSeq_spec); its result depends only on WHICH accounts are supplied, not on order,
     duplication or extras (buildSeq_congr); an initialized array and an empty account at its
     address are interchangeable for it (buildSeq_own_uninit); the required start indexes are
     consecutive in swap direction for every in-bounds current tick and spacing, incl. the arrays
     at the protocol bounds and the shifted state (start_indexes_consec, valid_of_mult);
   * an array without initialized ticks and the zeroed proxy answer every search identically (zeroed_eq);
   * fixed vs dynamic encoding: C13 (next_refines, get_refines).
  NOT yet a Lean theorem: the composition over the whole loop ("every initialized tick between start
  and end price is crossed exactly once, in order") — that composition is checked on the
  implementation by the reference-traversal oracle of the history harness (from pool/tick snapshots,
  plus order and multiplicity from the step trace) and against the model by correspondence.
-/
set_option linter.unusedSimpArgs false
namespace WP.C10
open WP WP.Gen

def initAt (m : TickMap) (t : Int) : Bool := (m.get t).initialized

/-! ### the per-array search -/

theorem scanDown_some (m : TickMap) (start : Int) (ts k : Nat) (x : Int) (h : scanDown m start ts k = some x) :
    ∃ j, j ≤ k ∧ x = start + (j : Int) * ts ∧ initAt m x = true ∧
      ∀ i, j < i → i ≤ k → initAt m (start + (i : Int) * ts) = false := by
  induction k with
  | zero =>
    unfold scanDown at h
    split at h
    · cases h
      exact ⟨0, Nat.le_refl _, by simp, by simpa [initAt] using ‹_›, fun i h1 h2 => by omega⟩
    · cases h
  | succ k ih =>
    unfold scanDown at h
    simp only [] at h
    split at h
    · rename_i hi
      cases h
      exact ⟨k + 1, Nat.le_refl _, rfl, by simpa [initAt] using hi, fun i h1 h2 => by omega⟩
    · rename_i hi
      obtain ⟨j, hj, hx, hxi, hrest⟩ := ih h
      refine ⟨j, by omega, hx, hxi, ?_⟩
      intro i h1 h2
      by_cases hik : i = k + 1
      · subst hik; simpa [initAt] using hi
      · exact hrest i h1 (by omega)

theorem scanDown_none (m : TickMap) (start : Int) (ts k : Nat) (h : scanDown m start ts k = none) :
    ∀ i, i ≤ k → initAt m (start + (i : Int) * ts) = false := by
  induction k with
  | zero =>
    unfold scanDown at h
    split at h
    · cases h
    · rename_i hi
      intro i hi0
      have : i = 0 := by omega
      subst this
      simpa [initAt] using hi
  | succ k ih =>
    unfold scanDown at h
    simp only [] at h
    split at h
    · cases h
    · rename_i hi
      intro i hik
      by_cases he : i = k + 1
      · subst he; simpa [initAt] using hi
      · exact ih h i (by omega)

theorem scanUp_some (m : TickMap) (start : Int) (ts : Nat) (n k : Nat) (x : Int) (h : scanUp m start ts k n = some x) :
    ∃ j, k ≤ j ∧ j < k + n ∧ x = start + (j : Int) * ts ∧ initAt m x = true ∧
      ∀ i, k ≤ i → i < j → initAt m (start + (i : Int) * ts) = false := by
  induction n generalizing k with
  | zero => unfold scanUp at h; cases h
  | succ n ih =>
    unfold scanUp at h
    simp only [] at h
    split at h
    · rename_i hi
      cases h
      exact ⟨k, Nat.le_refl _, by omega, rfl, by simpa [initAt] using hi, fun i h1 h2 => by omega⟩
    · rename_i hi
      obtain ⟨j, hj1, hj2, hx, hxi, hrest⟩ := ih (k + 1) h
      refine ⟨j, by omega, by omega, hx, hxi, ?_⟩
      intro i h1 h2
      by_cases he : i = k
      · subst he; simpa [initAt] using hi
      · exact hrest i (by omega) h2

theorem scanUp_none (m : TickMap) (start : Int) (ts : Nat) (n k : Nat) (h : scanUp m start ts k n = none) :
    ∀ i, k ≤ i → i < k + n → initAt m (start + (i : Int) * ts) = false := by
  induction n generalizing k with
  | zero => intro i h1 h2; omega
  | succ n ih =>
    unfold scanUp at h
    simp only [] at h
    split at h
    · cases h
    · rename_i hi
      intro i h1 h2
      by_cases he : i = k
      · subst he; simpa [initAt] using hi
      · exact ih (k + 1) h i (by omega) (by omega)


/-- what the a→b search of one array answers: the greatest initialized slot tick ≤ the search tick -/
def DownAnswer (m : TickMap) (start : Int) (ts : Nat) (s : Int) : Option Int → Prop
  | some x => x ≤ s ∧ (∃ j : Nat, j < 88 ∧ x = start + (j : Int) * ts) ∧ initAt m x = true ∧
      ∀ i : Nat, x < start + (i : Int) * ts → start + (i : Int) * ts ≤ s → initAt m (start + (i : Int) * ts) = false
  | none => ∀ i : Nat, start + (i : Int) * ts ≤ s → initAt m (start + (i : Int) * ts) = false

/-- what the b→a search answers: the least initialized slot tick > the search tick -/
def UpAnswer (m : TickMap) (start : Int) (ts : Nat) (s : Int) : Option Int → Prop
  | some x => s < x ∧ (∃ j : Nat, j < 88 ∧ x = start + (j : Int) * ts) ∧ initAt m x = true ∧
      ∀ i : Nat, s < start + (i : Int) * ts → start + (i : Int) * ts < x → initAt m (start + (i : Int) * ts) = false
  | none => ∀ i : Nat, i < 88 → s < start + (i : Int) * ts → initAt m (start + (i : Int) * ts) = false

theorem arrayNext_down (m : TickMap) (start : Int) (ts : Nat) (s : Int) (hts : 0 < ts)
    (h1 : start ≤ s) (h2 : s < start + 88 * (ts : Int)) :
    ∃ r, arrayNextInit m start ts s true = .ok r ∧ DownAnswer m start ts s r := by
  have htsI : (0 : Int) < ts := by omega
  have hT : ((TICK_ARRAY_SIZE : Nat) : Int) = 88 := rfl
  have hoff0 : 0 ≤ (s - start) / (ts : Int) := Int.ediv_nonneg (by omega) (by omega)
  have hoff1 : (s - start) / (ts : Int) < 88 := Int.ediv_lt_of_lt_mul htsI (by omega)
  have hle : ∀ i : Nat, ((i : Int) ≤ (s - start) / (ts : Int) ↔ start + (i : Int) * ts ≤ s) := by
    intro i
    rw [Int.le_ediv_iff_mul_le htsI]; omega
  unfold arrayNextInit
  simp only [hT, Bool.not_true, Bool.false_eq_true, if_false, if_true]
  have hr : (decide (s ≥ start) && decide (s < start + 88 * (ts : Int))) = true := by simp [h1, h2]
  rw [hr]
  simp only [Bool.not_true, Bool.false_eq_true, if_false, show ¬ ts = 0 by omega]
  have hc : (decide ((s - start) / (ts : Int) < 0) || decide ((s - start) / (ts : Int) ≥ 88)) = false := by
    simp; omega
  rw [hc]
  simp only [Bool.false_eq_true, if_false]
  refine ⟨_, rfl, ?_⟩
  have hk : (((s - start) / (ts : Int)).toNat : Int) = (s - start) / (ts : Int) := Int.toNat_of_nonneg hoff0
  cases hsc : scanDown m start ts ((s - start) / (ts : Int)).toNat with
  | none =>
    intro i hi
    exact scanDown_none m start ts _ hsc i (by have := (hle i).mpr hi; omega)
  | some x =>
    obtain ⟨j, hj, hx, hxi, hrest⟩ := scanDown_some m start ts _ x hsc
    refine ⟨?_, ⟨j, by omega, hx⟩, hxi, ?_⟩
    · rw [hx]; exact (hle j).mp (by omega)
    · intro i hi1 hi2
      have hji : j < i := by
        rw [hx] at hi1
        have : (j : Int) * ts < (i : Int) * ts := by omega
        have := Int.lt_of_mul_lt_mul_right this (by omega)
        omega
      exact hrest i hji (by have := (hle i).mpr hi2; omega)

theorem arrayNext_up (m : TickMap) (start : Int) (ts : Nat) (s : Int) (hts : 0 < ts)
    (h1 : start - (ts : Int) ≤ s) (h2 : s < start + 88 * (ts : Int) - ts) :
    ∃ r, arrayNextInit m start ts s false = .ok r ∧ UpAnswer m start ts s r := by
  have htsI : (0 : Int) < ts := by omega
  have hT : ((TICK_ARRAY_SIZE : Nat) : Int) = 88 := rfl
  have hTn : TICK_ARRAY_SIZE = 88 := rfl
  have hoff0 : -1 ≤ (s - start) / (ts : Int) := by
    have : (-1 : Int) * ts ≤ s - start := by omega
    exact (Int.le_ediv_iff_mul_le htsI).mpr this
  have hoff1 : (s - start) / (ts : Int) < 87 := Int.ediv_lt_of_lt_mul htsI (by omega)
  have hlt : ∀ i : Nat, ((s - start) / (ts : Int) < (i : Int) ↔ s < start + (i : Int) * ts) := by
    intro i
    rw [Int.ediv_lt_iff_lt_mul htsI]; omega
  unfold arrayNextInit
  simp only [hT, Bool.not_false, if_true, Bool.false_eq_true, if_false]
  have hr : (decide (s ≥ start - (ts : Int)) && decide (s < start + 88 * (ts : Int) - ts)) = true := by simp [h1, h2]
  rw [hr]
  simp only [Bool.not_true, Bool.false_eq_true, if_false, show ¬ ts = 0 by omega]
  have hc : (decide ((s - start) / (ts : Int) + 1 < 0) || decide ((s - start) / (ts : Int) + 1 ≥ 88)) = false := by
    simp; omega
  rw [hc]
  simp only [Bool.false_eq_true, if_false]
  refine ⟨_, rfl, ?_⟩
  have hk : ((((s - start) / (ts : Int) + 1).toNat : Nat) : Int) = (s - start) / (ts : Int) + 1 := Int.toNat_of_nonneg (by omega)
  rw [hTn]
  cases hsc : scanUp m start ts ((s - start) / (ts : Int) + 1).toNat (88 - ((s - start) / (ts : Int) + 1).toNat) with
  | none =>
    intro i hi88 hi
    have := (hlt i).mpr hi
    exact scanUp_none m start ts _ _ hsc i (by omega) (by omega)
  | some x =>
    obtain ⟨j, hj1, hj2, hx, hxi, hrest⟩ := scanUp_some m start ts _ _ x hsc
    refine ⟨?_, ⟨j, by omega, hx⟩, hxi, ?_⟩
    · rw [hx]; exact (hlt j).mp (by omega)
    · intro i hi1 hi2
      have hij : i < j := by
        rw [hx] at hi2
        have : (i : Int) * ts < (j : Int) * ts := by omega
        have := Int.lt_of_mul_lt_mul_right this (by omega)
        omega
      exact hrest i (by have := (hlt i).mpr hi1; omega) hij


/-! ### the search across the array sequence -/

/-- consecutive arrays in swap direction -/
def ConsecDown (arrays : List Int) (ts : Nat) : Prop :=
  ∀ k a b, arrays[k]? = some a → arrays[k + 1]? = some b → b = a - 88 * (ts : Int)

def ConsecUp (arrays : List Int) (ts : Nat) : Prop :=
  ∀ k a b, arrays[k]? = some a → arrays[k + 1]? = some b → b = a + 88 * (ts : Int)

/-- the tick from which array `k` is searched when the sequence search started in array `idx` at `s` -/
def searchDown (idx : Nat) (s : Int) (ts : Nat) (k : Nat) (stk : Int) : Int :=
  if k = idx then s else stk + 88 * (ts : Int) - 1

/-- a→b: the answer `(i, r)` of the sequence search started at tick `s` in array `idx`:
    every array before `i` holds no initialized slot at or below its search tick, and in array `i`
    either `r` is the greatest initialized slot at or below the search tick, or there is none and `r`
    is the sentinel (the minimum tick for the left-most array, else the first tick of the LAST
    supplied array) -/
def SeqDownSpec (m : TickMap) (arrays : List Int) (ts : Nat) (idx : Nat) (s : Int) (i : Nat) (r : Int) : Prop :=
  idx ≤ i ∧ ∃ st, arrays[i]? = some st ∧
    (∀ k stk, idx ≤ k → k < i → arrays[k]? = some stk → DownAnswer m stk ts (searchDown idx s ts k stk) none) ∧
    (DownAnswer m st ts (searchDown idx s ts i st) (some r) ∨
      (DownAnswer m st ts (searchDown idx s ts i st) none ∧
        ((r = MIN_TICK_INDEX ∧ st ≤ MIN_TICK_INDEX) ∨ (r = st ∧ i + 1 = arrays.length ∧ ¬ st ≤ MIN_TICK_INDEX))))

theorem seqNext_down (m : TickMap) (arrays : List Int) (ts : Nat) (hts : 0 < ts) (hc : ConsecDown arrays ts) :
    ∀ (fuel idx : Nat) (s start : Int), arrays[idx]? = some start → start ≤ s → s < start + 88 * (ts : Int) →
      fuel + idx ≥ arrays.length →
      ∃ i r, seqNextInit m arrays ts true fuel s idx = .ok (i, r) ∧ SeqDownSpec m arrays ts idx s i r := by
  have hT : ((TICK_ARRAY_SIZE : Nat) : Int) = 88 := rfl
  intro fuel
  induction fuel with
  | zero =>
    intro idx s start hidx _ _ hf
    have : idx < arrays.length := by
      rcases List.getElem?_eq_some_iff.mp hidx with ⟨h, _⟩; exact h
    omega
  | succ fuel ih =>
    intro idx s start hidx h1 h2 hf
    have hlen : idx < arrays.length := by
      rcases List.getElem?_eq_some_iff.mp hidx with ⟨h, _⟩; exact h
    obtain ⟨r0, hr0, hans⟩ := arrayNext_down m start ts s hts h1 h2
    unfold seqNextInit
    rw [hidx]
    simp only [hr0]
    cases r0 with
    | some t =>
      refine ⟨idx, t, rfl, Nat.le_refl _, start, hidx, fun k stk h3 h4 => by omega, Or.inl ?_⟩
      simpa [searchDown] using hans
    | none =>
      simp only [Bool.true_and, Bool.not_true, Bool.false_and, Bool.false_eq_true, if_false, hT]
      by_cases hmin : start ≤ MIN_TICK_INDEX
      · simp only [hmin, decide_true, if_true]
        refine ⟨idx, MIN_TICK_INDEX, rfl, Nat.le_refl _, start, hidx, fun k stk h3 h4 => by omega, Or.inr ⟨?_, Or.inl ⟨rfl, hmin⟩⟩⟩
        simpa [searchDown] using hans
      · simp only [hmin, decide_false, Bool.false_eq_true, if_false]
        by_cases hlast : idx + 1 = arrays.length
        · simp only [hlast, if_true]
          refine ⟨idx, start, rfl, Nat.le_refl _, start, hidx, fun k stk h3 h4 => by omega, Or.inr ⟨?_, Or.inr ⟨rfl, hlast, hmin⟩⟩⟩
          simpa [searchDown] using hans
        · simp only [hlast, if_false]
          have hnext : idx + 1 < arrays.length := by omega
          have hget : arrays[idx + 1]? = some arrays[idx + 1] := List.getElem?_eq_getElem hnext
          have hst' := hc idx start _ hidx hget
          obtain ⟨i, r, hrun, hi, st, hsti, hbefore, hat⟩ :=
            ih (idx + 1) (start - 1) arrays[idx + 1] hget (by omega) (by omega) (by omega)
          refine ⟨i, r, hrun, by omega, st, hsti, ?_, ?_⟩
          · intro k stk hk1 hk2 hkst
            by_cases hki : k = idx
            · subst hki
              rw [hidx] at hkst; cases hkst
              simpa [searchDown] using hans
            · have := hbefore k stk (by omega) hk2 hkst
              have e : searchDown idx s ts k stk = searchDown (idx + 1) (start - 1) ts k stk := by
                unfold searchDown
                by_cases hk' : k = idx + 1
                · subst hk'
                  rw [hget] at hkst; cases hkst
                  simp; omega
                · simp [hki, hk']
              rw [e]; exact this
          · have e : searchDown idx s ts i st = searchDown (idx + 1) (start - 1) ts i st := by
              unfold searchDown
              have hii : ¬ i = idx := by omega
              by_cases hk' : i = idx + 1
              · subst hk'
                rw [hget] at hsti; cases hsti
                simp; omega
              · simp [hii, hk']
            rw [e]; exact hat


def searchUp (idx : Nat) (s : Int) (k : Nat) (stk : Int) : Int :=
  if k = idx then s else stk - 1

/-- b→a: as `SeqDownSpec`, with the least initialized slot above the search tick; sentinels are the
    maximum tick for the right-most array, else the last tick of the LAST supplied array -/
def SeqUpSpec (m : TickMap) (arrays : List Int) (ts : Nat) (idx : Nat) (s : Int) (i : Nat) (r : Int) : Prop :=
  idx ≤ i ∧ ∃ st, arrays[i]? = some st ∧
    (∀ k stk, idx ≤ k → k < i → arrays[k]? = some stk → UpAnswer m stk ts (searchUp idx s k stk) none) ∧
    (UpAnswer m st ts (searchUp idx s i st) (some r) ∨
      (UpAnswer m st ts (searchUp idx s i st) none ∧
        ((r = MAX_TICK_INDEX ∧ st + 88 * (ts : Int) > MAX_TICK_INDEX) ∨
         (r = st + 88 * (ts : Int) - 1 ∧ i + 1 = arrays.length ∧ ¬ st + 88 * (ts : Int) > MAX_TICK_INDEX))))

theorem seqNext_up (m : TickMap) (arrays : List Int) (ts : Nat) (hts : 0 < ts) (hc : ConsecUp arrays ts) :
    ∀ (fuel idx : Nat) (s start : Int), arrays[idx]? = some start → start - (ts : Int) ≤ s → s < start + 88 * (ts : Int) - ts →
      fuel + idx ≥ arrays.length →
      ∃ i r, seqNextInit m arrays ts false fuel s idx = .ok (i, r) ∧ SeqUpSpec m arrays ts idx s i r := by
  have hT : ((TICK_ARRAY_SIZE : Nat) : Int) = 88 := rfl
  intro fuel
  induction fuel with
  | zero =>
    intro idx s start hidx _ _ hf
    have : idx < arrays.length := by
      rcases List.getElem?_eq_some_iff.mp hidx with ⟨h, _⟩; exact h
    omega
  | succ fuel ih =>
    intro idx s start hidx h1 h2 hf
    have hlen : idx < arrays.length := by
      rcases List.getElem?_eq_some_iff.mp hidx with ⟨h, _⟩; exact h
    obtain ⟨r0, hr0, hans⟩ := arrayNext_up m start ts s hts h1 h2
    unfold seqNextInit
    rw [hidx]
    simp only [hr0]
    cases r0 with
    | some t =>
      refine ⟨idx, t, rfl, Nat.le_refl _, start, hidx, fun k stk h3 h4 => by omega, Or.inl ?_⟩
      simpa [searchUp] using hans
    | none =>
      simp only [Bool.false_and, Bool.false_eq_true, if_false, Bool.not_false, Bool.true_and, hT]
      by_cases hmax : start + 88 * (ts : Int) > MAX_TICK_INDEX
      · simp only [hmax, decide_true, if_true]
        refine ⟨idx, MAX_TICK_INDEX, rfl, Nat.le_refl _, start, hidx, fun k stk h3 h4 => by omega, Or.inr ⟨?_, Or.inl ⟨rfl, hmax⟩⟩⟩
        simpa [searchUp] using hans
      · simp only [hmax, decide_false, Bool.false_eq_true, if_false]
        by_cases hlast : idx + 1 = arrays.length
        · simp only [hlast, if_true]
          refine ⟨idx, start + 88 * (ts : Int) - 1, rfl, Nat.le_refl _, start, hidx, fun k stk h3 h4 => by omega,
            Or.inr ⟨?_, Or.inr ⟨rfl, hlast, hmax⟩⟩⟩
          simpa [searchUp] using hans
        · simp only [hlast, if_false]
          have hnext : idx + 1 < arrays.length := by omega
          have hget : arrays[idx + 1]? = some arrays[idx + 1] := List.getElem?_eq_getElem hnext
          have hst' := hc idx start _ hidx hget
          have htsI : (0 : Int) < ts := by omega
          obtain ⟨i, r, hrun, hi, st, hsti, hbefore, hat⟩ :=
            ih (idx + 1) (start + 88 * (ts : Int) - 1) arrays[idx + 1] hget (by omega) (by omega) (by omega)
          refine ⟨i, r, hrun, by omega, st, hsti, ?_, ?_⟩
          · intro k stk hk1 hk2 hkst
            by_cases hki : k = idx
            · subst hki
              rw [hidx] at hkst; cases hkst
              simpa [searchUp] using hans
            · have := hbefore k stk (by omega) hk2 hkst
              have e : searchUp idx s k stk = searchUp (idx + 1) (start + 88 * (ts : Int) - 1) k stk := by
                unfold searchUp
                by_cases hk' : k = idx + 1
                · subst hk'
                  rw [hget] at hkst; cases hkst
                  simp; omega
                · simp [hki, hk']
              rw [e]; exact this
          · have e : searchUp idx s i st = searchUp (idx + 1) (start + 88 * (ts : Int) - 1) i st := by
              unfold searchUp
              have hii : ¬ i = idx := by omega
              by_cases hk' : i = idx + 1
              · subst hk'
                rw [hget] at hsti; cases hsti
                simp; omega
              · simp [hii, hk']
            rw [e]; exact hat


/-! ### the search answer as an interval statement over ALL ticks -/

/-- every array start is a multiple of the spacing (valid start indexes are: `validStart_mod`, C12) -/
def StartsAligned (arrays : List Int) (ts : Nat) : Prop := ∀ (k : Nat) (st : Int), arrays[k]? = some st → st % (ts : Int) = 0

/-- a multiple of the spacing inside an array's span is one of its 88 slots -/
theorem slot_of (st x : Int) (ts : Nat) (hts : 0 < ts) (hst : st % (ts : Int) = 0) (hx : x % (ts : Int) = 0)
    (h1 : st ≤ x) (h2 : x < st + 88 * (ts : Int)) : ∃ j : Nat, j < 88 ∧ x = st + (j : Int) * ts := by
  have htsI : (0 : Int) < ts := by omega
  have hd : (ts : Int) ∣ x - st := Int.dvd_sub (Int.dvd_of_emod_eq_zero hx) (Int.dvd_of_emod_eq_zero hst)
  obtain ⟨q, hq⟩ := hd
  have hq0 : 0 ≤ q := by
    by_cases hneg : q < 0
    · have h3 : q ≤ -1 := by omega
      have h4 : (ts : Int) * q ≤ (ts : Int) * (-1) := Int.mul_le_mul_of_nonneg_left h3 (by omega)
      omega
    · omega
  have hq88 : q < 88 := by
    by_cases hge : (88 : Int) ≤ q
    · have h4 : (ts : Int) * 88 ≤ (ts : Int) * q := Int.mul_le_mul_of_nonneg_left hge (by omega)
      omega
    · omega
  refine ⟨q.toNat, by omega, ?_⟩
  have : ((q.toNat : Nat) : Int) = q := Int.toNat_of_nonneg hq0
  rw [this, Int.mul_comm]; omega

/-- a→b, as a statement about ALL ticks: the search started at tick `s` in array `idx` returns `r ≤ s`
    such that NO initialized grid tick lies in (r, s], and `r` itself is initialized or is the sentinel
    (and then not initialized either, unless it is an initialized slot — which the search would have
    returned) -/
theorem seqNext_down_interval (m : TickMap) (arrays : List Int) (ts : Nat) (hts : 0 < ts) (hc : ConsecDown arrays ts)
    (hal : StartsAligned arrays ts) :
    ∀ (fuel idx : Nat) (s start : Int), arrays[idx]? = some start → start ≤ s → s < start + 88 * (ts : Int) →
      MIN_TICK_INDEX ≤ s → fuel + idx ≥ arrays.length →
      ∃ i r, seqNextInit m arrays ts true fuel s idx = .ok (i, r) ∧ idx ≤ i ∧ r ≤ s ∧
        (∃ st, arrays[i]? = some st ∧ st ≤ r ∧ r < st + 88 * (ts : Int)) ∧
        (∀ x, r < x → x ≤ s → x % (ts : Int) = 0 → initAt m x = false) ∧
        (initAt m r = true ∨ r = MIN_TICK_INDEX ∨ (∃ st, arrays[i]? = some st ∧ r = st ∧ i + 1 = arrays.length ∧ MIN_TICK_INDEX < st)) := by
  have hT : ((TICK_ARRAY_SIZE : Nat) : Int) = 88 := rfl
  intro fuel
  induction fuel with
  | zero =>
    intro idx s start hidx _ _ _ hf
    have : idx < arrays.length := by
      rcases List.getElem?_eq_some_iff.mp hidx with ⟨h, _⟩; exact h
    omega
  | succ fuel ih =>
    intro idx s start hidx h1 h2 hms hf
    have hlen : idx < arrays.length := by
      rcases List.getElem?_eq_some_iff.mp hidx with ⟨h, _⟩; exact h
    have hst := hal idx start hidx
    obtain ⟨r0, hr0, hans⟩ := arrayNext_down m start ts s hts h1 h2
    -- every grid tick of this array at or below s is a slot
    have slots : ∀ x, start ≤ x → x ≤ s → x % (ts : Int) = 0 → ∃ j : Nat, x = start + (j : Int) * ts := by
      intro x hx1 hx2 hx3
      obtain ⟨j, _, hj⟩ := slot_of start x ts hts hst hx3 hx1 (by omega)
      exact ⟨j, hj⟩
    unfold seqNextInit
    rw [hidx]
    simp only [hr0]
    cases r0 with
    | some t =>
      obtain ⟨ht1, ⟨j, hj88, hj⟩, ht3, ht4⟩ := hans
      refine ⟨idx, t, rfl, Nat.le_refl _, ht1, ⟨start, hidx, ?_, ?_⟩, ?_, Or.inl ht3⟩
      · rw [hj]; have : (0 : Int) ≤ (j : Int) * ts := Int.mul_nonneg (by omega) (by omega); omega
      · rw [hj]
        have : (j : Int) * ts < 88 * (ts : Int) := by
          have : (j : Int) < 88 := by omega
          exact Int.mul_lt_mul_of_pos_right this (by omega)
        omega
      · intro x hx1 hx2 hx3
        have hxs : start ≤ x := by
          rw [hj] at hx1
          have : (0 : Int) ≤ (j : Int) * ts := Int.mul_nonneg (by omega) (by omega)
          omega
        obtain ⟨jx, hjx⟩ := slots x hxs hx2 hx3
        rw [hjx]; apply ht4 <;> omega
    | none =>
      have hnone : ∀ x, start ≤ x → x ≤ s → x % (ts : Int) = 0 → initAt m x = false := by
        intro x hx1 hx2 hx3
        obtain ⟨jx, hjx⟩ := slots x hx1 hx2 hx3
        rw [hjx]; apply hans; omega
      simp only [Bool.true_and, Bool.not_true, Bool.false_and, Bool.false_eq_true, if_false, hT]
      by_cases hmin : start ≤ MIN_TICK_INDEX
      · simp only [hmin, decide_true, if_true]
        refine ⟨idx, MIN_TICK_INDEX, rfl, Nat.le_refl _, hms, ⟨start, hidx, hmin, by omega⟩, ?_, Or.inr (Or.inl rfl)⟩
        intro x hx1 hx2 hx3
        exact hnone x (by omega) hx2 hx3
      · simp only [hmin, decide_false, Bool.false_eq_true, if_false]
        by_cases hlast : idx + 1 = arrays.length
        · simp only [hlast, if_true]
          refine ⟨idx, start, rfl, Nat.le_refl _, h1, ⟨start, hidx, Int.le_refl _, by omega⟩, ?_, Or.inr (Or.inr ⟨start, hidx, rfl, hlast, by omega⟩)⟩
          intro x hx1 hx2 hx3
          exact hnone x (by omega) hx2 hx3
        · simp only [hlast, if_false]
          have hnext : idx + 1 < arrays.length := by omega
          have hget : arrays[idx + 1]? = some arrays[idx + 1] := List.getElem?_eq_getElem hnext
          have hst' := hc idx start _ hidx hget
          obtain ⟨i, r, hrun, hi, hrs, hloc, hno, hkind⟩ :=
            ih (idx + 1) (start - 1) arrays[idx + 1] hget (by omega) (by omega) (by omega) (by omega)
          refine ⟨i, r, hrun, by omega, by omega, hloc, ?_, hkind⟩
          intro x hx1 hx2 hx3
          by_cases hxs : start ≤ x
          · exact hnone x hxs hx2 hx3
          · exact hno x hx1 (by omega) hx3

/-- a grid tick above `start − ts` is at or above `start` -/
theorem grid_ge (st x : Int) (ts : Nat) (hts : 0 < ts) (hst : st % (ts : Int) = 0) (hx : x % (ts : Int) = 0)
    (h : st - (ts : Int) < x) : st ≤ x := by
  have hd : (ts : Int) ∣ x - st := Int.dvd_sub (Int.dvd_of_emod_eq_zero hx) (Int.dvd_of_emod_eq_zero hst)
  obtain ⟨q, hq⟩ := hd
  by_cases hneg : q < 0
  · have h3 : q ≤ -1 := by omega
    have h4 : (ts : Int) * q ≤ (ts : Int) * (-1) := Int.mul_le_mul_of_nonneg_left h3 (by omega)
    omega
  · have : 0 ≤ (ts : Int) * q := Int.mul_nonneg (by omega) (by omega)
    omega

/-- b→a, as a statement about ALL ticks: the search started at tick `s` returns `r > s` such that no
    initialized grid tick lies strictly between, and `r` is initialized or the sentinel -/
theorem seqNext_up_interval (m : TickMap) (arrays : List Int) (ts : Nat) (hts : 0 < ts) (hc : ConsecUp arrays ts)
    (hal : StartsAligned arrays ts) :
    ∀ (fuel idx : Nat) (s start : Int), arrays[idx]? = some start → start - (ts : Int) ≤ s → s < start + 88 * (ts : Int) - ts →
      s < MAX_TICK_INDEX → fuel + idx ≥ arrays.length →
      ∃ i r, seqNextInit m arrays ts false fuel s idx = .ok (i, r) ∧ idx ≤ i ∧ s < r ∧
        (∃ st, arrays[i]? = some st ∧ st - (ts : Int) < r ∧ r < st + 88 * (ts : Int)) ∧
        (∀ x, s < x → x < r → x % (ts : Int) = 0 → initAt m x = false) ∧
        (initAt m r = true ∨ r = MAX_TICK_INDEX ∨ (∃ st, arrays[i]? = some st ∧ r = st + 88 * (ts : Int) - 1 ∧ i + 1 = arrays.length ∧ st + 88 * (ts : Int) ≤ MAX_TICK_INDEX)) := by
  have hT : ((TICK_ARRAY_SIZE : Nat) : Int) = 88 := rfl
  intro fuel
  induction fuel with
  | zero =>
    intro idx s start hidx _ _ _ hf
    have : idx < arrays.length := by
      rcases List.getElem?_eq_some_iff.mp hidx with ⟨h, _⟩; exact h
    omega
  | succ fuel ih =>
    intro idx s start hidx h1 h2 hmx hf
    have hlen : idx < arrays.length := by
      rcases List.getElem?_eq_some_iff.mp hidx with ⟨h, _⟩; exact h
    have hst := hal idx start hidx
    have htsI : (0 : Int) < ts := by omega
    obtain ⟨r0, hr0, hans⟩ := arrayNext_up m start ts s hts h1 h2
    -- every grid tick above s and inside this array's span is a slot
    have slots : ∀ x, s < x → x < start + 88 * (ts : Int) → x % (ts : Int) = 0 → ∃ j : Nat, j < 88 ∧ x = start + (j : Int) * ts := by
      intro x hx1 hx2 hx3
      exact slot_of start x ts hts hst hx3 (grid_ge start x ts hts hst hx3 (by omega)) hx2
    unfold seqNextInit
    rw [hidx]
    simp only [hr0]
    cases r0 with
    | some t =>
      obtain ⟨ht1, ⟨j, hj88, hj⟩, ht3, ht4⟩ := hans
      have hjlt : (j : Int) * ts < 88 * (ts : Int) := Int.mul_lt_mul_of_pos_right (by omega) htsI
      have hjge : (0 : Int) ≤ (j : Int) * ts := Int.mul_nonneg (by omega) (by omega)
      refine ⟨idx, t, rfl, Nat.le_refl _, ht1, ⟨start, hidx, by omega, by omega⟩, ?_, Or.inl ht3⟩
      intro x hx1 hx2 hx3
      have hxt : x < start + 88 * (ts : Int) := by
        rw [hj] at hx2
        have : (j : Int) * ts < 88 * (ts : Int) := Int.mul_lt_mul_of_pos_right (by omega) htsI
        omega
      obtain ⟨jx, _, hjx⟩ := slots x hx1 hxt hx3
      rw [hjx]; apply ht4 <;> omega
    | none =>
      have hnone : ∀ x, s < x → x < start + 88 * (ts : Int) → x % (ts : Int) = 0 → initAt m x = false := by
        intro x hx1 hx2 hx3
        obtain ⟨jx, hj88, hjx⟩ := slots x hx1 hx2 hx3
        rw [hjx]; apply hans jx hj88; omega
      simp only [Bool.false_and, Bool.false_eq_true, if_false, Bool.not_false, Bool.true_and, hT]
      by_cases hmax : start + 88 * (ts : Int) > MAX_TICK_INDEX
      · simp only [hmax, decide_true, if_true]
        refine ⟨idx, MAX_TICK_INDEX, rfl, Nat.le_refl _, hmx, ⟨start, hidx, by omega, by omega⟩, ?_, Or.inr (Or.inl rfl)⟩
        intro x hx1 hx2 hx3
        exact hnone x hx1 (by omega) hx3
      · simp only [hmax, decide_false, Bool.false_eq_true, if_false]
        by_cases hlast : idx + 1 = arrays.length
        · simp only [hlast, if_true]
          refine ⟨idx, start + 88 * (ts : Int) - 1, rfl, Nat.le_refl _, by omega, ⟨start, hidx, by omega, by omega⟩, ?_, Or.inr (Or.inr ⟨start, hidx, rfl, hlast, by omega⟩)⟩
          intro x hx1 hx2 hx3
          exact hnone x hx1 (by omega) hx3
        · simp only [hlast, if_false]
          have hnext : idx + 1 < arrays.length := by omega
          have hget : arrays[idx + 1]? = some arrays[idx + 1] := List.getElem?_eq_getElem hnext
          have hst' := hc idx start _ hidx hget
          obtain ⟨i, r, hrun, hi, hrs, hloc, hno, hkind⟩ :=
            ih (idx + 1) (start + 88 * (ts : Int) - 1) arrays[idx + 1] hget (by omega) (by omega) (by omega) (by omega)
          refine ⟨i, r, hrun, by omega, by omega, hloc, ?_, hkind⟩
          intro x hx1 hx2 hx3
          by_cases hxs : x < start + 88 * (ts : Int)
          · exact hnone x hx1 hxs hx3
          · exact hno x (by omega) hx2 hx3

/-! ### which arrays the builder picks -/

def tia (ts : Nat) : Int := ((TICK_ARRAY_SIZE : Nat) : Int) * ts
def minStart (ts : Nat) : Int := MIN_TICK_INDEX - (Int.tmod MIN_TICK_INDEX (tia ts) + tia ts)

theorem tia_eq (ts : Nat) : tia ts = 88 * (ts : Int) := rfl

theorem min_tmod (ts : Nat) (hts : 0 < ts) :
    -(tia ts) < Int.tmod MIN_TICK_INDEX (tia ts) ∧ Int.tmod MIN_TICK_INDEX (tia ts) ≤ 0 ∧
    tia ts ∣ MIN_TICK_INDEX - Int.tmod MIN_TICK_INDEX (tia ts) := by
  have hpos : 0 < tia ts := by rw [tia_eq]; omega
  refine ⟨Int.lt_tmod_of_pos _ hpos, ?_, ?_⟩
  · have : MIN_TICK_INDEX = -443636 := rfl
    rw [this, Int.neg_tmod]
    have := Int.tmod_nonneg (tia ts) (show (0 : Int) ≤ 443636 by decide)
    omega
  · have := Int.mul_tdiv_add_tmod MIN_TICK_INDEX (tia ts)
    exact ⟨Int.tdiv MIN_TICK_INDEX (tia ts), by omega⟩

/-- among multiples of the array span, the valid start indexes are those inside the protocol
    bounds plus the one array straddling the minimum tick -/
theorem valid_of_mult (t : Int) (ts : Nat) (hts : 0 < ts) (hd : tia ts ∣ t) :
    validStartTick t ts = true ↔ ((MIN_TICK_INDEX ≤ t ∧ t ≤ MAX_TICK_INDEX) ∨ t = minStart ts) := by
  have e : ((TICK_ARRAY_SIZE : Nat) : Int) * (ts : Int) = tia ts := rfl
  unfold validStartTick outOfBounds minStart
  simp only [e]
  have hmm : MIN_TICK_INDEX ≤ MAX_TICK_INDEX := by decide
  by_cases hin : MIN_TICK_INDEX ≤ t ∧ t ≤ MAX_TICK_INDEX
  · simp only [hin.1, hin.2, decide_true, Bool.and_self, Bool.not_true, Bool.false_eq_true, if_false]
    simp only [Int.tmod_eq_zero_of_dvd hd, decide_true, true_iff]
    exact Or.inl ⟨trivial, trivial⟩
  · have hout : (!(decide (MIN_TICK_INDEX ≤ t) && decide (t ≤ MAX_TICK_INDEX))) = true := by
      simp only [Bool.not_eq_true', Bool.and_eq_false_iff, decide_eq_false_iff_not]
      by_cases h : MIN_TICK_INDEX ≤ t
      · right; intro h2; exact hin ⟨h, h2⟩
      · left; exact h
    rw [if_pos hout]
    by_cases hgt : t > MIN_TICK_INDEX
    · rw [if_pos hgt]
      constructor
      · intro h; cases h
      · intro h
        rcases h with h | h
        · exact absurd h hin
        · exfalso
          -- minStart < MIN < t
          have := min_tmod ts hts
          have hpos : 0 < tia ts := by rw [tia_eq]; omega
          omega
    · rw [if_neg hgt]
      simp only [decide_eq_true_eq]
      constructor
      · intro h; exact Or.inr h
      · intro h
        rcases h with h | h
        · exact absurd h hin
        · exact h


theorem mult_gap (T u v : Int) (hT : 0 < T) (hu : T ∣ u) (hv : T ∣ v) (h : u < v) : u + T ≤ v := by
  obtain ⟨a, rfl⟩ := hu
  obtain ⟨b, rfl⟩ := hv
  have : a < b := Int.lt_of_mul_lt_mul_left h (by omega)
  have h2 : T * (a + 1) ≤ T * b := Int.mul_le_mul_of_nonneg_left (by omega) (by omega)
  rw [Int.mul_add, Int.mul_one] at h2
  exact h2

/-- a prefix-closed filter of a three-element list keeps a prefix -/
theorem filter3 (p : Int → Bool) (x y z : Int) (h1 : p y = false → p z = false) :
    [x, y, z].filter p = [x, y, z] ∨ [x, y, z].filter p = [x, y] ∨ [x, y, z].filter p = [x] ∨
    [x, y, z].filter p = [] ∨ ([x, y, z].filter p = [y, z] ∧ p x = false) ∨ ([x, y, z].filter p = [y] ∧ p x = false) := by
  cases hx : p x <;> cases hy : p y <;> cases hz : p z <;> simp_all [List.filter]

theorem consecDown_of (l : List Int) (ts : Nat) (x y z : Int) (hy : y = x - 88 * (ts : Int)) (hz : z = y - 88 * (ts : Int))
    (h : l = [x, y, z] ∨ l = [x, y] ∨ l = [x] ∨ l = [] ∨ l = [y, z] ∨ l = [y]) : ConsecDown l ts := by
  intro k a b ha hb
  rcases h with h | h | h | h | h | h <;> subst h
  all_goals
    match k with
    | 0 => simp at ha hb <;> omega
    | 1 => simp at ha hb <;> omega
    | k + 2 => simp at ha hb

theorem consecUp_of (l : List Int) (ts : Nat) (x y z : Int) (hy : y = x + 88 * (ts : Int)) (hz : z = y + 88 * (ts : Int))
    (h : l = [x, y, z] ∨ l = [x, y] ∨ l = [x] ∨ l = [] ∨ l = [y, z] ∨ l = [y]) : ConsecUp l ts := by
  intro k a b ha hb
  rcases h with h | h | h | h | h | h <;> subst h
  all_goals
    match k with
    | 0 => simp at ha hb <;> omega
    | 1 => simp at ha hb <;> omega
    | k + 2 => simp at ha hb


theorem base_facts (cur : Int) (ts : Nat) (hts : 0 < ts) :
    tia ts ∣ cur / tia ts * tia ts ∧ cur / tia ts * tia ts ≤ cur ∧ cur < cur / tia ts * tia ts + tia ts := by
  have hpos : 0 < tia ts := by rw [tia_eq]; omega
  refine ⟨Int.dvd_mul_left _ _, Int.ediv_mul_le _ (by omega), ?_⟩
  have := Int.lt_ediv_add_one_mul_self cur hpos
  rw [Int.add_mul, Int.one_mul] at this
  exact this

/-- invalid start below ⇒ everything further below is invalid (for multiples not above MAX) -/
theorem invalid_down (t : Int) (ts : Nat) (hts : 0 < ts) (hd : tia ts ∣ t) (hle : t ≤ MAX_TICK_INDEX)
    (h : validStartTick t ts = false) : validStartTick (t - tia ts) ts = false := by
  have hpos : 0 < tia ts := by rw [tia_eq]; omega
  have hd2 : tia ts ∣ t - tia ts := Int.dvd_sub hd (Int.dvd_refl _)
  have hv := valid_of_mult t ts hts hd
  have hv2 := valid_of_mult (t - tia ts) ts hts hd2
  have hm := min_tmod ts hts
  have hnot : ¬ ((MIN_TICK_INDEX ≤ t ∧ t ≤ MAX_TICK_INDEX) ∨ t = minStart ts) := by
    intro hh; rw [hv.mpr hh] at h; cases h
  cases hvv : validStartTick (t - tia ts) ts with
  | false => rfl
  | true =>
    exfalso
    have := hv2.mp hvv
    apply hnot
    rcases this with ⟨h1, h2⟩ | h3
    · left; constructor <;> omega
    · -- t - T = minStart ⇒ t = MIN - r ≥ MIN and t ≤ MAX
      unfold minStart at h3
      left; constructor <;> omega

theorem invalid_up (t : Int) (ts : Nat) (hts : 0 < ts) (hd : tia ts ∣ t) (hge : MIN_TICK_INDEX ≤ t)
    (h : validStartTick t ts = false) : validStartTick (t + tia ts) ts = false := by
  have hpos : 0 < tia ts := by rw [tia_eq]; omega
  have hd2 : tia ts ∣ t + tia ts := Int.dvd_add hd (Int.dvd_refl _)
  have hv := valid_of_mult t ts hts hd
  have hv2 := valid_of_mult (t + tia ts) ts hts hd2
  have hm := min_tmod ts hts
  have hnot : ¬ ((MIN_TICK_INDEX ≤ t ∧ t ≤ MAX_TICK_INDEX) ∨ t = minStart ts) := by
    intro hh; rw [hv.mpr hh] at h; cases h
  cases hvv : validStartTick (t + tia ts) ts with
  | false => rfl
  | true =>
    exfalso
    have := hv2.mp hvv
    apply hnot
    rcases this with ⟨h1, h2⟩ | h3
    · left; constructor <;> omega
    · unfold minStart at h3
      omega

/-- the array of the current tick is always a valid start (for an in-bounds current tick) -/
theorem base_valid (cur : Int) (ts : Nat) (hts : 0 < ts) (h1 : MIN_TICK_INDEX ≤ cur) (h2 : cur ≤ MAX_TICK_INDEX) :
    validStartTick (cur / tia ts * tia ts) ts = true := by
  have hpos : 0 < tia ts := by rw [tia_eq]; omega
  obtain ⟨hd, hb1, hb2⟩ := base_facts cur ts hts
  rw [valid_of_mult _ ts hts hd]
  have hm := min_tmod ts hts
  by_cases hge : MIN_TICK_INDEX ≤ cur / tia ts * tia ts
  · left; constructor <;> omega
  · right
    -- base is a multiple with MIN - T < base < MIN; minStart + T = MIN - r is the least multiple ≥ MIN
    unfold minStart
    have hlt : cur / tia ts * tia ts < MIN_TICK_INDEX - Int.tmod MIN_TICK_INDEX (tia ts) := by omega
    have g1 := mult_gap (tia ts) _ _ hpos hd hm.2.2 hlt
    have hd3 : tia ts ∣ MIN_TICK_INDEX - (Int.tmod MIN_TICK_INDEX (tia ts) + tia ts) := by
      have : MIN_TICK_INDEX - (Int.tmod MIN_TICK_INDEX (tia ts) + tia ts) =
          (MIN_TICK_INDEX - Int.tmod MIN_TICK_INDEX (tia ts)) - tia ts := by omega
      rw [this]; exact Int.dvd_sub hm.2.2 (Int.dvd_refl _)
    by_cases heq : cur / tia ts * tia ts = MIN_TICK_INDEX - (Int.tmod MIN_TICK_INDEX (tia ts) + tia ts)
    · exact heq
    · exfalso
      have hlt2 : cur / tia ts * tia ts < MIN_TICK_INDEX - (Int.tmod MIN_TICK_INDEX (tia ts) + tia ts) := by omega
      have g2 := mult_gap (tia ts) _ _ hpos hd hd3 hlt2
      omega

/-- **the sequence the builder can hand to `swap` is consecutive in swap direction** -/
theorem start_indexes_consec (cur : Int) (ts : Nat) (hts : 0 < ts) (h1 : MIN_TICK_INDEX ≤ cur) (h2 : cur ≤ MAX_TICK_INDEX) :
    ConsecDown (startTickIndexes cur ts true) ts ∧ ConsecUp (startTickIndexes cur ts false) ts := by
  have hpos : 0 < tia ts := by rw [tia_eq]; omega
  have e : ((TICK_ARRAY_SIZE : Nat) : Int) * (ts : Int) = tia ts := rfl
  obtain ⟨hd, hb1, hb2⟩ := base_facts cur ts hts
  have hbv := base_valid cur ts hts h1 h2
  have hT := tia_eq ts
  constructor
  · unfold startTickIndexes
    simp only [e, if_true, List.map_cons, List.map_nil]
    have ex : cur / tia ts * tia ts + 0 * tia ts = cur / tia ts * tia ts := by omega
    have ey : cur / tia ts * tia ts + -1 * tia ts = cur / tia ts * tia ts - tia ts := by omega
    have ez : cur / tia ts * tia ts + -2 * tia ts = cur / tia ts * tia ts - tia ts - tia ts := by omega
    rw [ex, ey, ez]
    have hp : validStartTick (cur / tia ts * tia ts - tia ts) ts = false →
        validStartTick (cur / tia ts * tia ts - tia ts - tia ts) ts = false :=
      fun h => invalid_down _ ts hts (Int.dvd_sub hd (Int.dvd_refl _)) (by omega) h
    have := filter3 (fun s => validStartTick s ts) (cur / tia ts * tia ts) (cur / tia ts * tia ts - tia ts) (cur / tia ts * tia ts - tia ts - tia ts) hp
    apply consecDown_of _ ts (cur / tia ts * tia ts) (cur / tia ts * tia ts - tia ts) (cur / tia ts * tia ts - tia ts - tia ts)
      (by omega) (by omega)
    rcases this with h | h | h | h | ⟨h, hx⟩ | ⟨h, hx⟩
    · exact Or.inl h
    · exact Or.inr (Or.inl h)
    · exact Or.inr (Or.inr (Or.inl h))
    · exact Or.inr (Or.inr (Or.inr (Or.inl h)))
    · simp only [hbv] at hx; cases hx
    · simp only [hbv] at hx; cases hx
  · unfold startTickIndexes
    simp only [e, Bool.false_eq_true, if_false]
    by_cases hs : cur + (ts : Int) ≥ cur / tia ts * tia ts + tia ts
    · rw [if_pos hs]
      simp only [List.map_cons, List.map_nil]
      have ex : cur / tia ts * tia ts + 1 * tia ts = cur / tia ts * tia ts + tia ts := by omega
      have ey : cur / tia ts * tia ts + 2 * tia ts = cur / tia ts * tia ts + tia ts + tia ts := by omega
      have ez : cur / tia ts * tia ts + 3 * tia ts = cur / tia ts * tia ts + tia ts + tia ts + tia ts := by omega
      rw [ex, ey, ez]
      have hdx : tia ts ∣ cur / tia ts * tia ts + tia ts := Int.dvd_add hd (Int.dvd_refl _)
      have hp : validStartTick (cur / tia ts * tia ts + tia ts + tia ts) ts = false →
          validStartTick (cur / tia ts * tia ts + tia ts + tia ts + tia ts) ts = false :=
        fun h => invalid_up _ ts hts (Int.dvd_add hdx (Int.dvd_refl _)) (by omega) h
      have := filter3 (fun s => validStartTick s ts) (cur / tia ts * tia ts + tia ts) (cur / tia ts * tia ts + tia ts + tia ts) (cur / tia ts * tia ts + tia ts + tia ts + tia ts) hp
      apply consecUp_of _ ts (cur / tia ts * tia ts + tia ts) (cur / tia ts * tia ts + tia ts + tia ts)
        (cur / tia ts * tia ts + tia ts + tia ts + tia ts) (by omega) (by omega)
      rcases this with h | h | h | h | ⟨h, hx⟩ | ⟨h, hx⟩
      · exact Or.inl h
      · exact Or.inr (Or.inl h)
      · exact Or.inr (Or.inr (Or.inl h))
      · exact Or.inr (Or.inr (Or.inr (Or.inl h)))
      · -- first invalid ⇒ the others are invalid too: contradiction with a non-empty tail
        exfalso
        have i1 := invalid_up _ ts hts hdx (by omega) hx
        have : (cur / tia ts * tia ts + tia ts + tia ts) ∈ [cur / tia ts * tia ts + tia ts + tia ts, cur / tia ts * tia ts + tia ts + tia ts + tia ts] :=
          List.mem_cons_self
        rw [← h] at this
        have := (List.mem_filter.mp this).2
        simp only [i1] at this; cases this
      · exfalso
        have i1 := invalid_up _ ts hts hdx (by omega) hx
        have : (cur / tia ts * tia ts + tia ts + tia ts) ∈ [cur / tia ts * tia ts + tia ts + tia ts] := List.mem_cons_self
        rw [← h] at this
        have := (List.mem_filter.mp this).2
        simp only [i1] at this; cases this
    · rw [if_neg hs]
      simp only [List.map_cons, List.map_nil]
      have ex : cur / tia ts * tia ts + 0 * tia ts = cur / tia ts * tia ts := by omega
      have ey : cur / tia ts * tia ts + 1 * tia ts = cur / tia ts * tia ts + tia ts := by omega
      have ez : cur / tia ts * tia ts + 2 * tia ts = cur / tia ts * tia ts + tia ts + tia ts := by omega
      rw [ex, ey, ez]
      have hp : validStartTick (cur / tia ts * tia ts + tia ts) ts = false →
          validStartTick (cur / tia ts * tia ts + tia ts + tia ts) ts = false :=
        fun h => invalid_up _ ts hts (Int.dvd_add hd (Int.dvd_refl _)) (by omega) h
      have := filter3 (fun s => validStartTick s ts) (cur / tia ts * tia ts) (cur / tia ts * tia ts + tia ts) (cur / tia ts * tia ts + tia ts + tia ts) hp
      apply consecUp_of _ ts (cur / tia ts * tia ts) (cur / tia ts * tia ts + tia ts) (cur / tia ts * tia ts + tia ts + tia ts)
        (by omega) (by omega)
      rcases this with h | h | h | h | ⟨h, hx⟩ | ⟨h, hx⟩
      · exact Or.inl h
      · exact Or.inr (Or.inl h)
      · exact Or.inr (Or.inr (Or.inl h))
      · exact Or.inr (Or.inr (Or.inr (Or.inl h)))
      · simp only [hbv] at hx; cases hx
      · simp only [hbv] at hx; cases hx


theorem consecDown_prefix (l l' : List Int) (ts : Nat) (h : ConsecDown l ts) (hp : l' <+: l) : ConsecDown l' ts := by
  obtain ⟨t, rfl⟩ := hp
  intro k a b ha hb
  have hk1 : k + 1 < l'.length := by
    rcases List.getElem?_eq_some_iff.mp hb with ⟨h, _⟩; exact h
  exact h k a b (by rw [List.getElem?_append_left (by omega)]; exact ha) (by rw [List.getElem?_append_left hk1]; exact hb)

theorem consecUp_prefix (l l' : List Int) (ts : Nat) (h : ConsecUp l ts) (hp : l' <+: l) : ConsecUp l' ts := by
  obtain ⟨t, rfl⟩ := hp
  intro k a b ha hb
  have hk1 : k + 1 < l'.length := by
    rcases List.getElem?_eq_some_iff.mp hb with ⟨h, _⟩; exact h
  exact h k a b (by rw [List.getElem?_append_left (by omega)]; exact ha) (by rw [List.getElem?_append_left hk1]; exact hb)

theorem mem_takeWhile_true {α} (p : α → Bool) (l : List α) (a : α) (h : a ∈ l.takeWhile p) : p a = true := by
  have := @List.all_takeWhile α p l
  exact List.all_eq_true.mp this a h

theorem takeWhile_stop {α} (p : α → Bool) (l : List α) (d : α) (h : (l.takeWhile p).length < l.length) :
    p (l.getD (l.takeWhile p).length d) = false := by
  induction l with
  | nil => simp at h
  | cons x r ih =>
    by_cases hx : p x = true
    · rw [List.takeWhile_cons_of_pos hx] at h ⊢
      simp only [List.length_cons, List.getD_cons_succ] at h ⊢
      exact ih (by omega)
    · rw [List.takeWhile_cons_of_neg hx]
      simpa using hx

/-- what `try_build` returns: a non-empty PREFIX of the required start indexes, every element of
    which is covered by a supplied account, stopping at the first one that is not — so the swap can
    never skip over a missing array — and nothing when a foreign array is among the accounts -/
theorem buildSeq_spec (cur : Int) (ts : Nat) (aToB : Bool) (accts : List Supplied) (seq : List Int)
    (h : buildSeq cur ts aToB accts = .ok seq) :
    seq ≠ [] ∧ seq <+: startTickIndexes cur ts aToB ∧ (∀ s ∈ seq, ∃ a ∈ accts, a.covers s = true) ∧
    (∀ a ∈ accts, a.isForeign = false) ∧
    (seq.length < (startTickIndexes cur ts aToB).length →
      ∀ a ∈ accts, a.covers ((startTickIndexes cur ts aToB).getD seq.length 0) = false) := by
  unfold buildSeq at h
  by_cases hf : accts.any Supplied.isForeign = true
  · rw [if_pos hf] at h; cases h
  · rw [if_neg hf] at h
    simp only [] at h
    split at h
    · cases h
    · rename_i hne
      cases h
      refine ⟨?_, List.takeWhile_prefix _, ?_, ?_, ?_⟩
      · intro he; apply hne; rw [he]; rfl
      · intro s hs
        have := mem_takeWhile_true _ _ s hs
        exact List.any_eq_true.mp this
      · intro a ha
        cases hfa : a.isForeign with
        | false => rfl
        | true => exact absurd (List.any_eq_true.mpr ⟨a, ha, hfa⟩) hf
      · intro hlt a ha
        have := takeWhile_stop (fun s => accts.any (·.covers s)) (startTickIndexes cur ts aToB) 0 hlt
        cases hc : a.covers ((startTickIndexes cur ts aToB).getD
            (List.takeWhile (fun s => accts.any (·.covers s)) (startTickIndexes cur ts aToB)).length 0) with
        | false => rfl
        | true => rw [List.any_eq_true.mpr ⟨a, ha, hc⟩] at this; cases this

theorem any_congr {α} (p : α → Bool) (l1 l2 : List α) (h : ∀ a, a ∈ l1 ↔ a ∈ l2) : l1.any p = l2.any p := by
  cases h1 : l1.any p with
  | true =>
    obtain ⟨a, ha, hp⟩ := List.any_eq_true.mp h1
    exact (List.any_eq_true.mpr ⟨a, (h a).mp ha, hp⟩).symm
  | false =>
    cases h2 : l2.any p with
    | false => rfl
    | true =>
      obtain ⟨a, ha, hp⟩ := List.any_eq_true.mp h2
      rw [List.any_eq_true.mpr ⟨a, (h a).mpr ha, hp⟩] at h1; cases h1

/-- **packaging independence of the sequence**: the order of the supplied accounts, duplicates and
    extra (supplemental or unused) accounts do not matter — only WHICH accounts are supplied -/
theorem buildSeq_congr (cur : Int) (ts : Nat) (aToB : Bool) (l1 l2 : List Supplied) (h : ∀ a, a ∈ l1 ↔ a ∈ l2) :
    buildSeq cur ts aToB l1 = buildSeq cur ts aToB l2 := by
  unfold buildSeq
  rw [any_congr _ l1 l2 h]
  have : (fun s => l1.any (·.covers s)) = (fun s => l2.any (·.covers s)) := by
    funext s; exact any_congr _ l1 l2 h
  rw [this]

/-- an initialized array and an empty account at its address are interchangeable for the builder
    (what differs is only whether ticks can be read from it: C10's `zeroed` theorem below) -/
theorem buildSeq_own_uninit (cur : Int) (ts : Nat) (aToB : Bool) (pre post : List Supplied) (s : Int) :
    buildSeq cur ts aToB (pre ++ .own s :: post) = buildSeq cur ts aToB (pre ++ .uninit s :: post) := by
  unfold buildSeq
  simp [List.any_append, Supplied.isForeign, Supplied.covers]


/-! ### the zeroed proxy -/

/-- `ZeroedTickArray::get_next_init_tick_index` -/
def zeroedNextInit (start : Int) (ts : Nat) (tickIndex : Int) (aToB : Bool) : R (Option Int) :=
  let span : Int := (TICK_ARRAY_SIZE : Int) * ts
  let lower := if !aToB then start - ts else start
  let upper := if !aToB then start + span - ts else start + span
  if !(tickIndex ≥ lower && tickIndex < upper) then .error .InvalidTickArraySequence
  else if ts = 0 then .error .InvalidTickSpacing
  else .ok none

theorem scanDown_eq_none (m : TickMap) (start : Int) (ts k : Nat)
    (h : ∀ i, i ≤ k → initAt m (start + (i : Int) * ts) = false) : scanDown m start ts k = none := by
  induction k with
  | zero =>
    unfold scanDown
    have := h 0 (Nat.le_refl _)
    simp [initAt] at this
    simp [this]
  | succ k ih =>
    unfold scanDown
    have := h (k + 1) (Nat.le_refl _)
    simp only [initAt] at this
    simp only [this, Bool.false_eq_true, if_false]
    exact ih (fun i hi => h i (by omega))

theorem scanUp_eq_none (m : TickMap) (start : Int) (ts : Nat) (n k : Nat)
    (h : ∀ i, k ≤ i → i < k + n → initAt m (start + (i : Int) * ts) = false) : scanUp m start ts k n = none := by
  induction n generalizing k with
  | zero => rfl
  | succ n ih =>
    unfold scanUp
    have := h k (Nat.le_refl _) (by omega)
    simp only [initAt] at this
    simp only [this, Bool.false_eq_true, if_false]
    exact ih (k + 1) (fun i h1 h2 => h i (by omega) (by omega))

/-- **an array holding no initialized tick and the zeroed proxy of an account that does not exist
    answer every search identically** (same `None`, same range errors) -/
theorem zeroed_eq (m : TickMap) (start : Int) (ts : Nat) (t : Int) (aToB : Bool)
    (h : ∀ i : Nat, i < 88 → initAt m (start + (i : Int) * ts) = false) :
    arrayNextInit m start ts t aToB = zeroedNextInit start ts t aToB := by
  have hT : TICK_ARRAY_SIZE = 88 := rfl
  unfold arrayNextInit zeroedNextInit
  cases aToB with
  | true =>
    simp only [Bool.not_true, Bool.false_eq_true, if_false, if_true]
    by_cases hr : (!(decide (t ≥ start) && decide (t < start + ((TICK_ARRAY_SIZE : Nat) : Int) * ts))) = true
    · rw [if_pos hr, if_pos hr]
    · rw [if_neg hr, if_neg hr]
      by_cases hz : ts = 0
      · rw [if_pos hz, if_pos hz]
      · rw [if_neg hz, if_neg hz]
        by_cases ho : (decide ((t - start) / (ts : Int) < 0) || decide ((t - start) / (ts : Int) ≥ ((TICK_ARRAY_SIZE : Nat) : Int))) = true
        · rw [if_pos ho]
        · rw [if_neg ho]
          simp only [Bool.or_eq_true, decide_eq_true_eq, not_or, Int.not_lt, ge_iff_le, Int.not_le] at ho
          have hTi : ((TICK_ARRAY_SIZE : Nat) : Int) = 88 := rfl
          rw [hTi] at ho
          rw [scanDown_eq_none]
          intro i hi
          exact h i (by omega)
  | false =>
    simp only [Bool.not_false, if_true, Bool.false_eq_true, if_false]
    by_cases hr : (!(decide (t ≥ start - (ts : Int)) && decide (t < start + ((TICK_ARRAY_SIZE : Nat) : Int) * ts - ts))) = true
    · rw [if_pos hr, if_pos hr]
    · rw [if_neg hr, if_neg hr]
      by_cases hz : ts = 0
      · rw [if_pos hz, if_pos hz]
      · rw [if_neg hz, if_neg hz]
        by_cases ho : (decide ((t - start) / (ts : Int) + 1 < 0) || decide ((t - start) / (ts : Int) + 1 ≥ ((TICK_ARRAY_SIZE : Nat) : Int))) = true
        · rw [if_pos ho]
        · rw [if_neg ho]
          simp only [Bool.or_eq_true, decide_eq_true_eq, not_or, Int.not_lt, ge_iff_le, Int.not_le] at ho
          have hTi : ((TICK_ARRAY_SIZE : Nat) : Int) = 88 := rfl
          rw [hTi] at ho
          rw [scanUp_eq_none]
          intro i h1 h2
          exact h i (by rw [hT] at h2; omega)

/-! ### what one step can cross -/

/-- a step of the swap loop changes the tick map and the liquidity only by crossing the tick the
    sequence search returned (`nextTickIdx`), only if that tick is initialized and held by the
    array the search found it in, and only when the price reached that tick's price; it then
    applies exactly that tick's `liquidity_net` (negated when moving left) -/
theorem cross_only_target (c : SwapCtx) (s : SwapSt) (sc : SwapStep) (fgIn nai : Nat) (nti : Int) (ntp : Nat) (cr : CrossRes)
    (h : stepCross c s sc fgIn nai nti ntp = .ok cr) :
    (cr.ticks = s.ticks ∧ cr.liq = s.liq) ∨
    (sc.nextPrice = ntp ∧ initAt s.ticks nti = true ∧
      (∃ start, c.arrays[nai]? = some start ∧ inArrayUsable start c.ts nti = true) ∧
      (∃ upd, cr.ticks = s.ticks.set nti upd) ∧
      addLiquidityDelta s.liq (if c.aToB then -(s.ticks.get nti).net else (s.ticks.get nti).net) = .ok cr.liq) := by
  unfold stepCross at h
  by_cases hp : sc.nextPrice = ntp
  · rw [if_pos hp] at h
    simp only [] at h
    cases hst : c.arrays[nai]? with
    | none =>
      rw [hst] at h
      simp at h
    | some start =>
      rw [hst] at h
      simp only [] at h
      by_cases hti : (inArrayUsable start c.ts nti && (s.ticks.get nti).initialized) = true
      · rw [if_pos hti] at h
        cases hal : addLiquidityDelta s.liq (if c.aToB = true then -(s.ticks.get nti).net else (s.ticks.get nti).net) with
        | error e => rw [hal] at h; cases h
        | ok l =>
          rw [hal] at h
          simp only [] at h
          split at h
          · cases h
          · cases h
            right
            simp only [Bool.and_eq_true] at hti
            exact ⟨hp, hti.2, ⟨start, rfl, hti.1⟩, ⟨_, rfl⟩, rfl⟩
      · rw [if_neg hti] at h
        simp only [] at h
        split at h
        · cases h
        · cases h; left; exact ⟨rfl, rfl⟩
  · rw [if_neg hp] at h
    split at h <;> cases h <;> exact Or.inl ⟨rfl, rfl⟩

end WP.C10
