import WP.Model.SdkSwap
import WP.Props.C20
import WP.Props.C02
import WP.Lemmas.Rounding
/-
  C20, swap-step level: the SDK's `compute_swap_step` (model `sdkSwapStep`) returns exactly the step the
  program's `compute_swap` returns, whenever the program returns one whose input plus fee fits a u64 (which the
  amount bookkeeping of the program's swap loop requires of every step it accepts).
-/
set_option linter.unusedSimpArgs false
namespace WP.SdkStep
open WP WP.Gen

def toOpt : AmountDelta → Option Nat
  | .valid v => some v
  | .exceedsMax _ => none

theorem toOption_ok {α} (x : R α) (v : α) (h : x.toOption = some v) : x = .ok v := by
  cases x with
  | error e => simp [Except.toOption] at h
  | ok a => simp [Except.toOption] at h; rw [h]

/-- token A: the SDK's outcome class is the program's -/
theorem deltaAX_of_try (p0 p1 liq : Nat) (up : Bool) (d : AmountDelta)
    (h : tryGetAmountDeltaA p0 p1 liq up = .ok d) : sdkDeltaAX p0 p1 liq up = .ok (toOpt d) := by
  have hle : U64_MAX ≤ U128_MAX := by decide +kernel
  unfold tryGetAmountDeltaA at h
  unfold sdkDeltaAX sdkShl64
  generalize (incOrder p0 p1).1 = lo at *
  generalize (incOrder p0 p1).2 = hi at *
  simp only [] at h ⊢
  by_cases hs : liq * (hi - lo) ≥ TWO128 * TWO64
  · rw [if_pos hs] at h; cases h
  · rw [if_neg hs] at h
    have hs' : ¬ liq * (hi - lo) > U256_MAX / TWO64 := fun x => hs ((C20.shl_cond _).mp x)
    simp only [hs', if_false]
    by_cases hd : hi * lo = 0
    · rw [if_pos hd] at h; cases h
    · rw [if_neg hd] at h
      have hd' : ¬ lo * hi = 0 := by rw [Nat.mul_comm]; exact hd
      simp only [hd', if_false]
      rw [Nat.mul_comm hi lo] at h
      have hq : liq * (hi - lo) * TWO64 / (lo * hi) + 1 < TWO256 := by
        have : liq * (hi - lo) * TWO64 / (lo * hi) ≤ liq * (hi - lo) * TWO64 := Nat.div_le_self _ _
        have h3 : liq * (hi - lo) + 1 ≤ TWO128 * TWO64 := by omega
        have h4 : (liq * (hi - lo) + 1) * TWO64 ≤ TWO128 * TWO64 * TWO64 := Nat.mul_le_mul_right _ h3
        have h5 : TWO128 * TWO64 * TWO64 = TWO256 := by decide +kernel
        rw [h5, Nat.add_mul, Nat.one_mul] at h4
        have h6 : 1 < TWO64 := by decide +kernel
        generalize liq * (hi - lo) * TWO64 / (lo * hi) = Q at *
        generalize liq * (hi - lo) * TWO64 = N at *
        generalize TWO256 = W at *
        omega
      by_cases hr : (up && decide (liq * (hi - lo) * TWO64 % (lo * hi) > 0)) = true
      · have hr' : (up && decide (liq * (hi - lo) * TWO64 % (lo * hi) ≠ 0)) = true := by
          simp only [Bool.and_eq_true, decide_eq_true_eq] at hr ⊢; exact ⟨hr.1, by omega⟩
        rw [if_pos hr, Nat.mod_eq_of_lt hq] at h
        rw [if_pos hr']
        generalize liq * (hi - lo) * TWO64 / (lo * hi) + 1 = Q at *
        by_cases h128 : Q > U128_MAX
        · rw [if_pos h128] at h; cases h
          have : Q > U64_MAX := by omega
          rw [if_pos this]; rfl
        · rw [if_neg h128] at h
          by_cases h64 : Q > U64_MAX
          · rw [if_pos h64] at h; cases h; rw [if_pos h64]; rfl
          · rw [if_neg h64] at h; cases h; rw [if_neg h64]; rfl
      · have hr' : ¬ (up && decide (liq * (hi - lo) * TWO64 % (lo * hi) ≠ 0)) = true := by
          intro x; apply hr
          simp only [Bool.and_eq_true, decide_eq_true_eq] at x ⊢; exact ⟨x.1, Nat.pos_of_ne_zero x.2⟩
        rw [if_neg hr] at h
        rw [if_neg hr']
        generalize liq * (hi - lo) * TWO64 / (lo * hi) = Q at *
        by_cases h128 : Q > U128_MAX
        · rw [if_pos h128] at h; cases h
          have : Q > U64_MAX := by omega
          rw [if_pos this]; rfl
        · rw [if_neg h128] at h
          by_cases h64 : Q > U64_MAX
          · rw [if_pos h64] at h; cases h; rw [if_pos h64]; rfl
          · rw [if_neg h64] at h; cases h; rw [if_neg h64]; rfl

/-- token B: the SDK's outcome class is the program's -/
theorem deltaBX_of_try (p0 p1 liq : Nat) (up : Bool) (d : AmountDelta)
    (h : tryGetAmountDeltaB p0 p1 liq up = .ok d) : sdkDeltaBX p0 p1 liq up = .ok (toOpt d) := by
  have e128 : U128_MAX + 1 = TWO64 * TWO64 := by decide +kernel
  have e64 : U64_MAX + 1 = TWO64 := by decide +kernel
  have c64 : 0 < TWO64 := by decide +kernel
  unfold tryGetAmountDeltaB at h
  unfold sdkDeltaBX
  generalize (incOrder p0 p1).1 = lo at *
  generalize (incOrder p0 p1).2 = hi at *
  simp only [] at h ⊢
  generalize hi - lo = d' at *
  by_cases hz : (decide (liq = 0) || decide (d' = 0)) = true
  · rw [if_pos hz] at h; cases h
    have hp : liq * d' = 0 := by
      simp only [Bool.or_eq_true, decide_eq_true_eq] at hz
      rcases hz with x | x <;> simp [x]
    rw [hp]
    simp only [Nat.zero_div, Nat.zero_mod, Nat.lt_irrefl, decide_false, Bool.and_false, Bool.false_eq_true, if_false]
    have : ¬ 0 > U64_MAX := by omega
    rw [if_neg this]; rfl
  · rw [if_neg hz] at h
    by_cases ho : liq * d' > U128_MAX
    · rw [if_pos ho] at h; cases h
      have hq : TWO64 ≤ liq * d' / TWO64 := by
        rw [Nat.le_div_iff_mul_le c64]; omega
      have hbig : (if (up && decide (liq * d' % TWO64 > 0)) = true then liq * d' / TWO64 + 1 else liq * d' / TWO64) > U64_MAX := by
        split <;> omega
      rw [if_pos hbig]; rfl
    · rw [if_neg ho] at h
      have hq : liq * d' / TWO64 < TWO64 := by
        rw [Nat.div_lt_iff_lt_mul c64]; omega
      simp only [Nat.mod_eq_of_lt hq] at h
      generalize liq * d' / TWO64 = q at *
      generalize (up && decide (liq * d' % TWO64 > 0)) = rnd at *
      cases rnd with
      | false =>
        simp only [Bool.false_and, Bool.false_eq_true, if_false] at h ⊢
        cases h
        have : ¬ q > U64_MAX := by omega
        rw [if_neg this]; rfl
      | true =>
        simp only [Bool.true_and, if_true] at h ⊢
        by_cases hm : q = U64_MAX
        · have h2 : decide (q = U64_MAX) = true := by simp [hm]
          rw [if_pos h2] at h; cases h
          have h1 : q + 1 > U64_MAX := by omega
          rw [if_pos h1]; rfl
        · have h2 : ¬ decide (q = U64_MAX) = true := by simp [hm]
          rw [if_neg h2] at h; cases h
          have h1 : ¬ q + 1 > U64_MAX := by omega
          rw [if_neg h1]; rfl

theorem unwrap_valid (r : R AmountDelta) (v : Nat) (h : unwrapDelta r = .ok v) : r = .ok (.valid v) := by
  unfold unwrapDelta at h
  split at h
  · cases h; rfl
  · cases h
  · cases h

/-- `try_mul_div` on inputs that neither overflow nor divide by zero -/
theorem mulDiv_spec (a p d : Nat) (up : Bool) (hd : d ≠ 0) (hprod : a * p ≤ U128_MAX)
    (hres : (if up && decide (a * p % d ≠ 0) then a * p / d + 1 else a * p / d) ≤ U64_MAX) :
    sdkMulDiv a p d up = .ok (if up && decide (a * p % d ≠ 0) then a * p / d + 1 else a * p / d) := by
  unfold sdkMulDiv
  by_cases hz : (decide (a = 0) || decide (p = 0)) = true
  · rw [if_pos hz]
    have hp : a * p = 0 := by
      simp only [Bool.or_eq_true, decide_eq_true_eq] at hz
      rcases hz with x | x <;> simp [x]
    rw [hp]
    simp
  · rw [if_neg hz]
    have h1 : ¬ a * p > U128_MAX := by omega
    rw [if_neg h1, if_neg hd]
    simp only []
    have h2 : ¬ (if (up && decide (a * p % d ≠ 0)) = true then a * p / d + 1 else a * p / d) > U64_MAX := by omega
    rw [if_neg h2]

theorem wrap_sub (rate : Nat) (hrate : rate ≤ FEE_RATE_HARD_LIMIT) :
    (FEE_RATE_MUL_VALUE + TWO128 - rate) % TWO128 = FEE_RATE_MUL_VALUE - rate := by
  have hM : FEE_RATE_MUL_VALUE = 1000000 := rfl
  have hH : FEE_RATE_HARD_LIMIT = 100000 := rfl
  have h128 : TWO128 = 340282366920938463463374607431768211456 := rfl
  have : FEE_RATE_MUL_VALUE + TWO128 - rate = (FEE_RATE_MUL_VALUE - rate) + TWO128 := by omega
  rw [this, Nat.add_mod_right]
  apply Nat.mod_eq_of_lt; omega

/-- `try_apply_swap_fee` is the program's net budget -/
theorem applyFee_eq (rem rate c : Nat) (hrem : rem ≤ U64_MAX) (hrate : rate ≤ FEE_RATE_HARD_LIMIT)
    (h : amountCalcOf rem rate true = .ok c) : sdkApplyFee rem rate = .ok c := by
  have hM : FEE_RATE_MUL_VALUE = 1000000 := rfl
  have hH : FEE_RATE_HARD_LIMIT = 100000 := rfl
  have hu128 : U128_MAX = 340282366920938463463374607431768211455 := rfl
  have hu64 : U64_MAX = 18446744073709551615 := rfl
  obtain ⟨hc, hle⟩ := C02.amountCalc_spec rem rate c true hrem hrate h
  rw [if_pos rfl] at hc
  unfold C02.netBudget at hc
  unfold sdkApplyFee
  rw [wrap_sub rate hrate]
  generalize hD : FEE_RATE_MUL_VALUE - rate = D at *
  have hDle : D ≤ 1000000 := by omega
  have hprod : rem * D ≤ U128_MAX := by
    have h1 : rem * D ≤ U64_MAX * 1000000 := Nat.mul_le_mul hrem hDle
    have h2 : U64_MAX * 1000000 ≤ U128_MAX := by decide +kernel
    exact Nat.le_trans h1 h2
  have hM0 : FEE_RATE_MUL_VALUE ≠ 0 := by omega
  have key := mulDiv_spec rem D FEE_RATE_MUL_VALUE false hM0 hprod (by simp only [Bool.false_and, Bool.false_eq_true, if_false]; omega)
  simp only [Bool.false_and, Bool.false_eq_true, if_false] at key
  rw [key, hc]

theorem cdiv_split (a r D : Nat) (hD : 0 < D) : cdiv (a * (r + D)) D = cdiv (a * r) D + a := by
  unfold cdiv
  have : a * (r + D) + D - 1 = (a * r + D - 1) + D * a := by
    rw [Nat.mul_add, Nat.mul_comm a D]; omega
  rw [this, Nat.add_mul_div_left _ _ hD]

/-- `try_reverse_apply_swap_fee(x) − x` is the program's fee on `x` -/
theorem reverseFee_eq (a rate : Nat) (ha : a ≤ U64_MAX) (hrate : rate ≤ FEE_RATE_HARD_LIMIT)
    (hsum : a + cdiv (a * rate) (FEE_RATE_MUL_VALUE - rate) ≤ U64_MAX) :
    (match sdkReverseFee a rate with
     | .error e => (Except.error e : R Nat)
     | .ok pre => .ok ((pre + TWO64 - a) % TWO64)) = .ok (cdiv (a * rate) (FEE_RATE_MUL_VALUE - rate)) := by
  have hM : FEE_RATE_MUL_VALUE = 1000000 := rfl
  have hH : FEE_RATE_HARD_LIMIT = 100000 := rfl
  have h64 : TWO64 = 18446744073709551616 := rfl
  have hu128 : U128_MAX = 340282366920938463463374607431768211455 := rfl
  have hu64 : U64_MAX = 18446744073709551615 := rfl
  unfold sdkReverseFee
  rw [wrap_sub rate hrate]
  generalize hD : FEE_RATE_MUL_VALUE - rate = D at *
  have hDpos : 0 < D := by omega
  have hMs : FEE_RATE_MUL_VALUE = rate + D := by omega
  have hprod : a * FEE_RATE_MUL_VALUE ≤ U128_MAX := by
    have h1 : a * FEE_RATE_MUL_VALUE ≤ U64_MAX * 1000000 := by rw [hM]; exact Nat.mul_le_mul_right _ ha
    have h2 : U64_MAX * 1000000 ≤ U128_MAX := by decide +kernel
    exact Nat.le_trans h1 h2
  have hval : (if (true && decide (a * FEE_RATE_MUL_VALUE % D ≠ 0)) = true then a * FEE_RATE_MUL_VALUE / D + 1 else a * FEE_RATE_MUL_VALUE / D)
      = cdiv (a * rate) D + a := by
    rw [← cdiv_split a rate D hDpos, ← hMs, ← roundUp_eq_cdiv _ _ hDpos]
    by_cases hr : a * FEE_RATE_MUL_VALUE % D > 0
    · have : (true && decide (a * FEE_RATE_MUL_VALUE % D ≠ 0)) = true := by simp; omega
      rw [if_pos this, if_pos hr]
    · have : ¬ (true && decide (a * FEE_RATE_MUL_VALUE % D ≠ 0)) = true := by simp; omega
      rw [if_neg this, if_neg hr]
  have key := mulDiv_spec a FEE_RATE_MUL_VALUE D true (by omega) hprod (by rw [hval]; omega)
  rw [hval] at key
  rw [key]
  simp only []
  have : cdiv (a * rate) D + a + TWO64 - a = cdiv (a * rate) D + TWO64 := by omega
  rw [this, Nat.add_mod_right, Nat.mod_eq_of_lt (by omega)]

theorem fixedX_of_try (cur tgt L : Nat) (ein dir : Bool) (d : AmountDelta)
    (h : tryGetAmountFixedDelta cur tgt L ein dir = .ok d) : sdkFixedX cur tgt L dir ein = .ok (toOpt d) := by
  unfold tryGetAmountFixedDelta at h
  unfold sdkFixedX
  by_cases c : dir = ein
  · rw [if_pos c] at h ⊢; exact deltaAX_of_try _ _ _ _ _ h
  · rw [if_neg c] at h ⊢; exact deltaBX_of_try _ _ _ _ _ h

theorem unwrapX_of_delta (x : R (Option Nat)) (t : R AmountDelta) (v : Nat)
    (hx : ∀ d, t = .ok d → x = .ok (toOpt d)) (h : unwrapDelta t = .ok v) : unwrapX x = .ok v := by
  have := unwrap_valid t v h
  rw [hx _ this]; rfl

theorem getFixed_eq (cur nx L : Nat) (ein dir : Bool) (f : Nat)
    (h : getAmountFixedDelta cur nx L ein dir = .ok f) : unwrapX (sdkFixedX cur nx L dir ein) = .ok f := by
  unfold getAmountFixedDelta at h
  unfold sdkFixedX
  by_cases c : dir = ein
  · rw [if_pos c] at h ⊢
    exact unwrapX_of_delta _ _ _ (fun d hd => deltaAX_of_try _ _ _ _ _ hd) h
  · rw [if_neg c] at h ⊢
    exact unwrapX_of_delta _ _ _ (fun d hd => deltaBX_of_try _ _ _ _ _ hd) h

theorem unfixed_eq (cur nx L : Nat) (ein dir : Bool) (u : Nat)
    (h : getAmountUnfixedDelta cur nx L ein dir = .ok u) : sdkUnfixed cur nx L dir ein = .ok u := by
  unfold getAmountUnfixedDelta at h
  unfold sdkUnfixed
  by_cases c : dir = ein
  · have c' : ein = dir := c.symm
    rw [if_pos c] at h; rw [if_pos c']
    exact unwrapX_of_delta _ _ _ (fun d hd => deltaBX_of_try _ _ _ _ _ hd) h
  · have c' : ¬ ein = dir := fun x => c x.symm
    rw [if_neg c] at h; rw [if_neg c']
    exact unwrapX_of_delta _ _ _ (fun d hd => deltaAX_of_try _ _ _ _ _ hd) h

theorem next_eq (cur L amt n : Nat) (ein dir : Bool) (hcur : cur ≤ U128_MAX) (hL : L ≤ U128_MAX) (hamt : amt ≤ U64_MAX)
    (hlo : MIN_SQRT_PRICE_X64 ≤ n) (hhi : n ≤ MAX_SQRT_PRICE_X64)
    (h : getNextSqrtPrice cur L amt ein dir = .ok n) : sdkNext cur L amt dir ein = .ok n := by
  unfold getNextSqrtPrice at h
  unfold sdkNext
  by_cases c : ein = dir
  · rw [if_pos c] at h ⊢
    apply toOption_ok
    rw [C20.sdk_next_a_eq cur L amt ein hcur hL hamt, h]; rfl
  · rw [if_neg c] at h ⊢
    have hL0 : 0 < L := by
      apply Nat.pos_of_ne_zero
      intro hz
      subst hz
      unfold getNextSqrtPriceFromBRoundDown divRoundUpIf at h
      simp at h
    exact (C20.sdk_next_b_eq cur L amt ein n hL0 hcur hL hamt).2 h hlo hhi

/-- **C20, one swap step**: on every step the program computes — in-bounds prices, a u64 amount, a fee rate up to the
    hard limit — and whose input plus fee fits a u64 (what the program's own bookkeeping demands next), the SDK's
    `compute_swap_step` returns the same input, output, next price and fee. -/
theorem sdk_step_eq (rem rate L cur tgt : Nat) (ein dir : Bool) (r : SwapStep)
    (wf : C02.WFStep rem rate L cur tgt dir) (h : computeSwap rem rate L cur tgt ein dir = .ok r)
    (hsum : r.amountIn + r.feeAmount ≤ U64_MAX) :
    sdkSwapStep rem rate L cur tgt dir ein = .ok r := by
  obtain ⟨initial, amountCalc, unfixed, fixed, hinit, hcalc, hnext, hunf, hfix, hin, hout, hfee⟩ :=
    C02.computeSwap_inv rem rate L cur tgt ein dir r h
  have hbetween := C02.step_direction rem rate L cur tgt ein dir r wf h
  have hfeeval := C02.step_fee rem rate L cur tgt ein dir r wf h
  have hmaxle : MAX_SQRT_PRICE_X64 ≤ U128_MAX := by decide +kernel
  have hcurU : cur ≤ U128_MAX := Nat.le_trans wf.cur_hi hmaxle
  obtain ⟨hnlo, hnhi⟩ : MIN_SQRT_PRICE_X64 ≤ r.nextPrice ∧ r.nextPrice ≤ MAX_SQRT_PRICE_X64 := by
    have h1 := wf.cur_lo; have h2 := wf.cur_hi; have h3 := wf.tgt_lo; have h4 := wf.tgt_hi
    by_cases hd : dir = true
    · rw [if_pos hd] at hbetween; omega
    · rw [if_neg hd] at hbetween; omega
  obtain ⟨hcv, hcle⟩ := C02.amountCalc_spec rem rate amountCalc ein wf.remU wf.rateOk hcalc
  have hcalcU : amountCalc ≤ U64_MAX := Nat.le_trans hcle wf.remU
  -- the budget
  have e1 : (if ein then sdkApplyFee rem rate else (.ok rem : R Nat)) = .ok amountCalc := by
    cases ein with
    | true => exact applyFee_eq rem rate amountCalc wf.remU wf.rateOk hcalc
    | false =>
      unfold amountCalcOf at hcalc
      simpa using hcalc
  have e0 := fixedX_of_try cur tgt L ein dir initial hinit
  -- the next price
  have e2 : sdkStepNext (.ok (toOpt initial)) amountCalc cur tgt L dir ein = .ok r.nextPrice := by
    unfold stepNext at hnext
    cases initial with
    | valid v =>
      simp only [AmountDelta.lte, decide_eq_true_eq] at hnext
      simp only [toOpt, sdkStepNext]
      by_cases c : v ≤ amountCalc
      · rw [if_pos c] at hnext ⊢; exact hnext
      · rw [if_neg c] at hnext ⊢
        exact next_eq cur L amountCalc r.nextPrice ein dir hcurU wf.LU hcalcU hnlo hnhi hnext
    | exceedsMax e =>
      simp only [AmountDelta.lte, Bool.false_eq_true, if_false] at hnext
      simp only [toOpt, sdkStepNext]
      exact next_eq cur L amountCalc r.nextPrice ein dir hcurU wf.LU hcalcU hnlo hnhi hnext
  have e3 := unfixed_eq cur r.nextPrice L ein dir unfixed hunf
  -- the fixed amount
  have e4 : sdkStepFixed (.ok (toOpt initial)) r.nextPrice cur tgt L dir ein = .ok fixed := by
    unfold stepFixed at hfix
    cases initial with
    | valid v =>
      simp only [AmountDelta.isExceedsMax, Bool.or_false] at hfix
      simp only [toOpt, sdkStepFixed]
      by_cases c : (!(r.nextPrice == tgt)) = true
      · rw [if_pos c] at hfix ⊢; exact getFixed_eq _ _ _ _ _ _ hfix
      · rw [if_neg c] at hfix ⊢; exact hfix
    | exceedsMax e =>
      simp only [AmountDelta.isExceedsMax, Bool.or_true, if_true] at hfix
      simp only [toOpt, sdkStepFixed]
      exact getFixed_eq _ _ _ _ _ _ hfix
  -- the fee
  have e5 : sdkStepFee rem r.amountIn rate r.nextPrice tgt ein = .ok r.feeAmount := by
    unfold stepFee at hfee
    unfold sdkStepFee
    by_cases c : (ein && !(r.nextPrice == tgt)) = true
    · rw [if_pos c] at hfee ⊢; exact hfee
    · rw [if_neg c]
      have hne : ¬ (ein = true ∧ r.nextPrice ≠ tgt) := by
        intro x; apply c
        simp [x.1, x.2]
      rw [if_neg hne] at hfeeval
      have hinU : r.amountIn ≤ U64_MAX := by omega
      have := reverseFee_eq r.amountIn rate hinU wf.rateOk (by rw [← hfeeval]; exact hsum)
      rw [← hfeeval] at this
      exact this
  unfold sdkSwapStep
  simp only [e0, e1, e2, e3, e4]
  rw [← hin, e5]
  simp only []
  cases r with
  | mk ai ao np fa =>
    simp only [SwapStep.mk.injEq, true_and, and_true] at hout ⊢
    rw [hout]

/-- the hypotheses are met by ordinary steps: an exact-in a→b step that reaches its target and an exact-out b→a
    step that stops short (kernel-evaluated; the SDK model gives the same records, as the theorem says) -/
example : computeSwap 1000000 3000 100000000000000000 18446744073709551616 18446744073700000000 true true
      = .ok { amountIn := 51780, amountOut := 51779, nextPrice := 18446744073700000000, feeAmount := 156 } ∧
    sdkSwapStep 1000000 3000 100000000000000000 18446744073709551616 18446744073700000000 true true
      = .ok { amountIn := 51780, amountOut := 51779, nextPrice := 18446744073700000000, feeAmount := 156 } ∧
    computeSwap 1000000 3000 100000000000000000 18446744073709551616 18446744083700000000 false false
      = .ok { amountIn := 1000001, amountOut := 1000000, nextPrice := 18446744073894019057, feeAmount := 3010 } ∧
    sdkSwapStep 1000000 3000 100000000000000000 18446744073709551616 18446744083700000000 false false
      = .ok { amountIn := 1000001, amountOut := 1000000, nextPrice := 18446744073894019057, feeAmount := 3010 } := by
  decide +kernel

end WP.SdkStep
