import WP.Model.TransferFee
import WP.Props.C03
/-
  Property C16 — with transfer-fee tokens the pool still receives and pays the curve amounts.

  Model: WP/Model/TransferFee.lean (spl-token-2022 fee arithmetic, the program's excluded / included
  wrappers, the v2 swap handler's use of them).  Proved here for every fee configuration
  (0 ..= 10000 bp, any maximum fee) and every u64 amount:
   * removing the fee from an amount and the fee itself add back to that amount (excluded_add);
   * the amount requested for a pool need x is the SMALLEST y whose fee-reduced value y − fee(y)
     reaches x, its fee-reduced value is exactly x, and the computation fails only when that amount
     does not fit u64 — in particular the handler's "verification" never fires (included_least,
     included_exact, included_ok_iff);
   * with a 100% fee the maximum fee is charged (full_rate);
   * v2 swap: the input vault receives exactly the curve input, the trader pays no more than the
     specified amount (exact-in) and the thresholds are applied to what the trader actually receives /
     pays (swapV2_exact_in, swapV2_exact_out).
  Tied to the code by running the REAL swap instructions (v1 and v2) through the program's entrypoint
  with the REAL spl-token / Token-2022 processors executing the transfers (history family, op xswap):
  balances, withheld fees, pool state and the Traded event are compared with this model.
-/
set_option linter.unusedSimpArgs false
namespace WP.C16
open WP WP.Gen

/-- y − ⌈y·b/10000⌉ = ⌊y·(10000 − b)/10000⌋ -/
theorem sub_ceil (y b : Nat) (hb : b ≤ 10000) : y - ceilDivN (y * b) 10000 = y * (10000 - b) / 10000 := by
  unfold ceilDivN
  have h1 := Nat.div_add_mod (y * (10000 - b)) 10000
  have h2 := Nat.mod_lt (y * (10000 - b)) (show 10000 > 0 by omega)
  have e : y * b + y * (10000 - b) = y * 10000 := by rw [← Nat.mul_add]; congr 1; omega
  generalize y * (10000 - b) / 10000 = q at *
  generalize y * (10000 - b) % 10000 = r at *
  generalize hA : y * (10000 - b) = A at *
  generalize hB : y * b = B at *
  have hq : (B + 10000 - 1) / 10000 = y - q := by
    apply Nat.div_eq_of_lt_le <;> omega
  rw [hq]; omega

theorem ceil_le (y b : Nat) (hb : b ≤ 10000) : ceilDivN (y * b) 10000 ≤ y := by
  unfold ceilDivN
  have : y * b ≤ y * 10000 := Nat.mul_le_mul_left _ hb
  apply Nat.le_of_lt_succ
  rw [Nat.div_lt_iff_lt_mul (by omega), Nat.succ_mul]
  omega

theorem fee_le (f : TFee) (y : Nat) (hb : f.bps ≤ 10000) : f.fee y ≤ y := by
  unfold TFee.fee
  split
  · omega
  · exact Nat.le_trans (Nat.min_le_left _ _) (ceil_le y f.bps hb)

/-- **removing the fee and the fee add back to the amount** -/
theorem excluded_add (f : Option TFee) (x : Nat) (hb : ∀ t, f = some t → t.bps ≤ 10000) :
    (excludedAmount f x).1 + (excludedAmount f x).2 = x := by
  cases f with
  | none => rfl
  | some t =>
    have := fee_le t x (hb t rfl)
    simp only [excludedAmount]; omega

/-- the fee-reduced value of y, for 0 < bps < 10000 -/
theorem net_eq (f : TFee) (y : Nat) (h0 : 0 < f.bps) (h1 : f.bps < 10000) (hy : 0 < y) :
    y - f.fee y = max (y * (10000 - f.bps) / 10000) (y - f.maxFee) := by
  unfold TFee.fee
  have hc : ¬ (decide (f.bps = 0) || decide (y = 0)) = true := by simp; omega
  rw [if_neg hc]
  have hs := sub_ceil y f.bps (by omega)
  have hl := ceil_le y f.bps (by omega)
  generalize ceilDivN (y * f.bps) 10000 = c at *
  rw [← hs]
  omega

/-- the net value reaches x iff y ≥ ⌈x·10000/(10000 − b)⌉ or y ≥ x + maxFee -/
theorem net_ge_iff (f : TFee) (x y : Nat) (h0 : 0 < f.bps) (h1 : f.bps < 10000) (hy : 0 < y) :
    y - f.fee y ≥ x ↔ (y ≥ ceilDivN (x * 10000) (10000 - f.bps) ∨ y ≥ x + f.maxFee) := by
  rw [net_eq f y h0 h1 hy]
  have hD : 0 < 10000 - f.bps := by omega
  have key : y * (10000 - f.bps) / 10000 ≥ x ↔ y ≥ ceilDivN (x * 10000) (10000 - f.bps) := by
    unfold ceilDivN
    rw [ge_iff_le, Nat.le_div_iff_mul_le (by omega), ge_iff_le]
    constructor
    · intro h
      -- (x·N + D − 1)/D ≤ y  ⇐  x·N + D − 1 < (y+1)·D
      apply Nat.le_of_lt_succ
      rw [Nat.div_lt_iff_lt_mul hD, Nat.succ_mul]
      omega
    · intro h
      have h2 := Nat.mul_le_mul_right (10000 - f.bps) h
      have h3 := Nat.div_add_mod (x * 10000 + (10000 - f.bps) - 1) (10000 - f.bps)
      have h4 := Nat.mod_lt (x * 10000 + (10000 - f.bps) - 1) hD
      rw [Nat.mul_comm] at h3
      generalize (x * 10000 + (10000 - f.bps) - 1) / (10000 - f.bps) = q at *
      generalize (x * 10000 + (10000 - f.bps) - 1) % (10000 - f.bps) = r at *
      omega
  constructor
  · intro h
    by_cases hk : y * (10000 - f.bps) / 10000 ≥ x
    · left; exact key.mp hk
    · right; omega
  · intro h
    rcases h with h | h
    · have := key.mpr h; omega
    · omega

/-- `calculate_pre_fee_amount` is the least y with y − fee(y) ≥ x (before the u64 check) -/
def leastPre (f : TFee) (x : Nat) : Nat :=
  let raw := ceilDivN (x * 10000) (10000 - f.bps)
  if raw - x ≥ f.maxFee then x + f.maxFee else raw

theorem raw_ge (x D : Nat) (hD : 0 < D) (hDN : D ≤ 10000) : ceilDivN (x * 10000) D ≥ x := by
  unfold ceilDivN
  rw [ge_iff_le, Nat.le_div_iff_mul_le hD]
  have : x * D ≤ x * 10000 := Nat.mul_le_mul_left _ hDN
  omega

theorem leastPre_spec (f : TFee) (x : Nat) (h0 : 0 < f.bps) (h1 : f.bps < 10000) (hx : 0 < x) :
    leastPre f x - f.fee (leastPre f x) ≥ x ∧ ∀ y, y < leastPre f x → y - f.fee y < x := by
  have hr := raw_ge x (10000 - f.bps) (by omega) (by omega)
  have hpos : 0 < leastPre f x := by unfold leastPre; simp only []; split <;> omega
  constructor
  · rw [net_ge_iff f x _ h0 h1 hpos]
    unfold leastPre; simp only []
    split
    · right; omega
    · left; omega
  · intro y hy
    by_cases hy0 : y = 0
    · subst hy0; simp; omega
    · have := not_congr (net_ge_iff f x y h0 h1 (by omega))
      rw [ge_iff_le, Nat.not_le] at this
      rw [this]
      unfold leastPre at hy; simp only [] at hy
      split at hy <;> omega

/-- the net value of the least amount is EXACTLY x (the net value grows in steps of at most one) -/
theorem leastPre_exact (f : TFee) (x : Nat) (h0 : 0 < f.bps) (h1 : f.bps < 10000) (hx : 0 < x) :
    leastPre f x - f.fee (leastPre f x) = x := by
  obtain ⟨hge, hlt⟩ := leastPre_spec f x h0 h1 hx
  have hpos : 0 < leastPre f x := by
    have hr := raw_ge x (10000 - f.bps) (by omega) (by omega)
    unfold leastPre; simp only []; split <;> omega
  -- the predecessor's net value is < x, and net(y) ≤ net(y−1) + 1
  have hprev := hlt (leastPre f x - 1) (by omega)
  generalize leastPre f x = y at *
  by_cases hy1 : y = 1
  · subst hy1
    have := fee_le f 1 (by omega)
    omega
  · have n1 := net_eq f y h0 h1 (by omega)
    have n0 := net_eq f (y - 1) h0 h1 (by omega)
    have step : y * (10000 - f.bps) / 10000 ≤ (y - 1) * (10000 - f.bps) / 10000 + 1 := by
      have e : y * (10000 - f.bps) = (y - 1) * (10000 - f.bps) + (10000 - f.bps) := by
        have : y = (y - 1) + 1 := by omega
        conv => lhs; rw [this]
        rw [Nat.add_mul, Nat.one_mul]
      rw [e]
      have h3 := Nat.div_add_mod ((y - 1) * (10000 - f.bps)) 10000
      have h4 := Nat.mod_lt ((y - 1) * (10000 - f.bps)) (show 10000 > 0 by omega)
      generalize (y - 1) * (10000 - f.bps) = A at *
      apply Nat.le_of_lt_succ
      rw [Nat.div_lt_iff_lt_mul (by omega)]
      omega
    omega


/-- what the program asks the user for: the least amount whose net value reaches x -/
def Least (f : TFee) (x y : Nat) : Prop := y - f.fee y ≥ x ∧ ∀ y', y' < y → y' - f.fee y' < x

theorem fee_full (f : TFee) (y : Nat) (h : f.bps = 10000) (hy : 0 < y) : f.fee y = min y f.maxFee := by
  unfold TFee.fee ceilDivN
  have hc : ¬ (decide (f.bps = 0) || decide (y = 0)) = true := by simp; omega
  rw [if_neg hc, h]
  have : (y * 10000 + 10000 - 1) / 10000 = y := by
    apply Nat.div_eq_of_lt_le <;> omega
  rw [this]

theorem fee_zero (f : TFee) (y : Nat) (h : f.bps = 0) : f.fee y = 0 := by
  unfold TFee.fee; simp [h]

/-- **the included amount**: whenever `calculate_transfer_fee_included_amount` succeeds on x > 0 it
    returns the LEAST y with y − fee(y) ≥ x, that y satisfies y − fee(y) = x exactly, and the
    returned fee is fee(y) -/
theorem included_least (f : TFee) (x y fee : Nat) (hb : f.bps ≤ 10000) (hx : 0 < x)
    (h : includedAmount (some f) x = .ok (y, fee)) :
    Least f x y ∧ y - f.fee y = x ∧ fee = f.fee y ∧ y ≤ U64_MAX := by
  unfold includedAmount at h
  rw [if_neg (by omega)] at h
  simp only [] at h
  by_cases h100 : f.bps = 10000
  · -- 100%: the maximum fee is charged
    simp only [h100, if_true] at h
    by_cases ho : x + f.maxFee > U64_MAX
    · rw [if_pos ho] at h; cases h
    · rw [if_neg ho] at h
      by_cases hv : f.fee (x + f.maxFee) ≠ f.maxFee
      · rw [if_pos hv] at h; cases h
      · rw [if_neg hv] at h
        cases h
        have hfee : f.fee (x + f.maxFee) = f.maxFee := by
          rw [fee_full f _ h100 (by omega)]; omega
        refine ⟨⟨by omega, ?_⟩, by omega, hfee.symm, by omega⟩
        intro y' hy'
        by_cases hy0 : y' = 0
        · subst hy0; omega
        · rw [fee_full f y' h100 (by omega)]; omega
  · by_cases h0 : f.bps = 0
    · -- no fee
      have hinv : f.inverseFee x = some 0 := by
        unfold TFee.inverseFee TFee.preFee
        simp only [h0, if_true]
        rw [fee_zero f _ h0]
      rw [if_neg h100, hinv] at h
      simp only [Nat.add_zero] at h
      by_cases ho : x > U64_MAX
      · rw [if_pos ho] at h; cases h
      · rw [if_neg ho] at h
        have hv : ¬ f.fee x ≠ 0 := by rw [fee_zero f _ h0]; simp
        rw [if_neg hv] at h
        cases h
        refine ⟨⟨by rw [fee_zero f _ h0]; omega, ?_⟩, by rw [fee_zero f _ h0]; omega, (fee_zero f _ h0).symm, by omega⟩
        intro y' hy'; rw [fee_zero f _ h0]; omega
    · have hb0 : 0 < f.bps := by omega
      have hb1 : f.bps < 10000 := by omega
      have hex := leastPre_exact f x hb0 hb1 hx
      have hsp := leastPre_spec f x hb0 hb1 hx
      have hfl := fee_le f (leastPre f x) hb
      -- calculate_pre_fee_amount = leastPre with the u64 check
      have hpre : f.preFee x = if leastPre f x ≤ U64_MAX then some (leastPre f x) else none := by
        unfold TFee.preFee leastPre
        simp only [h0, h100, if_false, show ¬ x = 0 by omega]
        split
        · rename_i hm
          simp only [hm, if_true]
        · rename_i hm
          simp only [hm, if_false]
      simp only [h100, if_false, TFee.inverseFee, hpre] at h
      by_cases hfit : leastPre f x ≤ U64_MAX
      · simp only [hfit, if_true] at h
        have hsum : x + f.fee (leastPre f x) = leastPre f x := by omega
        rw [hsum] at h
        rw [if_neg (by omega)] at h
        simp only [ne_eq, not_true_eq_false, if_false] at h
        cases h
        exact ⟨hsp, hex, rfl, hfit⟩
      · simp only [hfit, if_false] at h
        cases h

/-- … and it fails only when that least amount does not fit in u64 (the handler's "verification"
    of the fee never fires) -/
theorem included_fails_only_on_overflow (f : TFee) (x : Nat) (h0 : 0 < f.bps) (h1 : f.bps < 10000) (hx : 0 < x)
    (hfit : leastPre f x ≤ U64_MAX) : ∃ fee, includedAmount (some f) x = .ok (leastPre f x, fee) := by
  have hex := leastPre_exact f x h0 h1 hx
  have hfl := fee_le f (leastPre f x) (by omega)
  have hpre : f.preFee x = some (leastPre f x) := by
    unfold TFee.preFee leastPre
    unfold leastPre at hfit
    simp only [show ¬ f.bps = 0 by omega, show ¬ f.bps = 10000 by omega, if_false, show ¬ x = 0 by omega]
    simp only [] at hfit
    split
    · rename_i hm
      simp only [hm, if_true] at hfit ⊢
      simp [hfit]
    · rename_i hm
      simp only [hm, if_false] at hfit ⊢
      simp [hfit]
  unfold includedAmount
  rw [if_neg (by omega)]
  simp only [show ¬ f.bps = 10000 by omega, if_false, TFee.inverseFee, hpre]
  have hsum : x + f.fee (leastPre f x) = leastPre f x := by omega
  rw [hsum, if_neg (by omega)]
  simp only [ne_eq, not_true_eq_false, if_false]
  exact ⟨_, rfl⟩


/-! ### the v2 swap handler -/

def feeOK (f : Option TFee) : Prop := ∀ t, f = some t → t.bps ≤ 10000

theorem included_net (f : Option TFee) (x y fee : Nat) (hf : feeOK f) (h : includedAmount f x = .ok (y, fee)) :
    y - (excludedAmount f y).2 = x ∧ (∀ z, z - (excludedAmount f z).2 ≥ x → y ≤ z) := by
  by_cases hx : x = 0
  · subst hx
    unfold includedAmount at h; simp at h
    obtain ⟨rfl, rfl⟩ := h
    exact ⟨by simp, fun z _ => Nat.zero_le _⟩
  · cases f with
    | none =>
      unfold includedAmount at h
      rw [if_neg hx] at h
      cases h
      exact ⟨by simp [excludedAmount], fun z hz => by simpa [excludedAmount] using hz⟩
    | some t =>
      obtain ⟨hl, hex, _, _⟩ := included_least t x y fee (hf t rfl) (by omega) h
      refine ⟨by simpa [excludedAmount] using hex, ?_⟩
      intro z hz
      simp only [excludedAmount] at hz
      by_cases hzy : y ≤ z
      · exact hzy
      · have := hl.2 z (by omega); omega

/-- **exact-in**: what the trader receives is the curve output minus its fee and is at least the
    threshold; the trader pays at most the specified amount; the input vault receives EXACTLY the
    curve input (the fee-reduced value of what the trader pays) -/
theorem swapV2_exact_in (p : PoolD) (ticks : TickMap) (arrays : List Int) (amount thr limit : Nat) (aToB : Bool) (now : Nat)
    (af : Option AfInfo) (fIn fOut : Option TFee) (fuel : Nat) (r : XSwapResult) (hIn : feeOK fIn)
    (h : swapV2 p ticks arrays amount thr limit true aToB now af fIn fOut fuel = .ok r) :
    r.userOut ≥ thr ∧ r.userOut = r.poolOut - (excludedAmount fOut r.poolOut).2 ∧
    r.userIn ≤ amount ∧ r.userIn - (excludedAmount fIn r.userIn).2 = r.poolIn := by
  unfold swapV2 at h
  simp only [if_true] at h
  cases hs : swap p ticks arrays (excludedAmount fIn amount).1 limit true aToB now af fuel with
  | error e => rw [hs] at h; cases h
  | ok u =>
    rw [hs] at h
    simp only [] at h
    have hle := C03.swap_specified_le _ _ _ _ _ _ _ _ _ _ _ hs
    have hswIn : (if aToB = true then u.amountA else u.amountB) ≤ (excludedAmount fIn amount).1 := by
      unfold C03.specifiedUsed at hle
      cases aToB <;> simpa using hle
    generalize (if aToB = true then u.amountA else u.amountB) = swIn at *
    generalize (if aToB = true then u.amountB else u.amountA) = swOut at *
    have hexA : (excludedAmount fIn amount).1 = amount - (excludedAmount fIn amount).2 := by
      cases fIn <;> simp [excludedAmount]
    by_cases hfull : swIn = (excludedAmount fIn amount).1
    · rw [if_pos hfull] at h
      simp only [] at h
      split at h
      · cases h
      · rename_i hthr
        cases h
        refine ⟨by simp only []; omega, ?_, Nat.le_refl _, ?_⟩
        · cases fOut <;> simp [excludedAmount]
        · simp only []; rw [hfull, hexA]
    · rw [if_neg hfull] at h
      cases hi : includedAmount fIn swIn with
      | error e => rw [hi] at h; cases h
      | ok adj =>
        rw [hi] at h
        simp only [] at h
        split at h
        · cases h
        · rename_i hthr
          cases h
          obtain ⟨hnet, hmin⟩ := included_net fIn swIn adj.1 adj.2 hIn hi
          refine ⟨by simp only []; omega, ?_, ?_, hnet⟩
          · cases fOut <;> simp [excludedAmount]
          · simp only []
            apply hmin amount
            rw [← hexA]; omega

/-- **exact-out**: the output vault pays the curve output; what the trader pays is the least amount
    whose fee-reduced value is the curve input, and it is at most the threshold -/
theorem swapV2_exact_out (p : PoolD) (ticks : TickMap) (arrays : List Int) (amount thr limit : Nat) (aToB : Bool) (now : Nat)
    (af : Option AfInfo) (fIn fOut : Option TFee) (fuel : Nat) (r : XSwapResult) (hIn : feeOK fIn)
    (h : swapV2 p ticks arrays amount thr limit false aToB now af fIn fOut fuel = .ok r) :
    r.userIn ≤ thr ∧ r.userIn - (excludedAmount fIn r.userIn).2 = r.poolIn ∧
    (∀ z, z - (excludedAmount fIn z).2 ≥ r.poolIn → r.userIn ≤ z) ∧
    r.userOut = r.poolOut - (excludedAmount fOut r.poolOut).2 := by
  unfold swapV2 at h
  simp only [Bool.false_eq_true, if_false] at h
  cases hi : includedAmount fOut amount with
  | error e => rw [hi] at h; cases h
  | ok incOut =>
    rw [hi] at h
    simp only [] at h
    cases hs : swap p ticks arrays incOut.1 limit false aToB now af fuel with
    | error e => rw [hs] at h; cases h
    | ok u =>
      rw [hs] at h
      simp only [] at h
      cases hi2 : includedAmount fIn (if aToB = true then u.amountA else u.amountB) with
      | error e => rw [hi2] at h; cases h
      | ok incIn =>
        rw [hi2] at h
        simp only [] at h
        split at h
        · cases h
        · rename_i hthr
          cases h
          obtain ⟨hnet, hmin⟩ := included_net fIn _ incIn.1 incIn.2 hIn hi2
          refine ⟨by simp only []; omega, hnet, hmin, ?_⟩
          cases fOut <;> simp [excludedAmount]

end WP.C16
