import WP.Props.PathBase
set_option linter.unusedSimpArgs false
namespace WP.Path
open WP WP.Gen WP.C05 WP.C10

/-! ### the fee manager along the path -/

theorem ti_ge (p : Nat) (t : Int) (h1 : MIN_SQRT_PRICE_X64 ≤ p) (h2 : p ≤ MAX_SQRT_PRICE_X64)
    (ht1 : MIN_TICK_INDEX ≤ t) (ht2 : t ≤ MAX_TICK_INDEX) (h : sp t ≤ p) : t ≤ ti p := by
  obtain ⟨a, b, _, d⟩ := C09.ti_spec p h1 h2
  by_cases hm : ti p < MAX_TICK_INDEX
  · have := d hm
    have := lt_of_sp_lt t (ti p + 1) ht1 ht2 (by omega) (by omega) (by omega)
    omega
  · omega

theorem ti_le (p : Nat) (t : Int) (h1 : MIN_SQRT_PRICE_X64 ≤ p) (h2 : p ≤ MAX_SQRT_PRICE_X64)
    (ht1 : MIN_TICK_INDEX ≤ t) (ht2 : t ≤ MAX_TICK_INDEX) (h : p ≤ sp t) : ti p ≤ t := by
  obtain ⟨a, b, c, _⟩ := C09.ti_spec p h1 h2
  by_cases hlt : t < ti p
  · have := C09.sp_lt t (ti p) ht1 hlt b; omega
  · omega

theorem clamp_bounds (x : Int) : MIN_TICK_INDEX ≤ clampTick x ∧ clampTick x ≤ MAX_TICK_INDEX := by
  unfold clampTick
  have := min_le_max
  omega

theorem clamp_le (x : Int) (h : MIN_TICK_INDEX ≤ x) : clampTick x ≤ x := by
  unfold clampTick; have := min_le_max; omega

theorem clamp_ge (x : Int) (h : x ≤ MAX_TICK_INDEX) : x ≤ clampTick x := by
  unfold clampTick; have := min_le_max; omega

/-- the parts of an adaptive manager that never change during a swap, and what they must satisfy -/
structure MgrOK (d : Bool) (m : AdaptiveMgr) : Prop where
  dir : m.aToB = d
  gs : 0 < m.c.groupSize
  lb : ∀ li lp, m.lowerBound = some (li, lp) →
    lp = sp (li * (m.c.groupSize : Int)) ∧ MIN_TICK_INDEX ≤ li * (m.c.groupSize : Int) ∧ li * (m.c.groupSize : Int) ≤ MAX_TICK_INDEX
  ub : ∀ ui up, m.upperBound = some (ui, up) →
    up = sp (ui * (m.c.groupSize : Int) + m.c.groupSize) ∧ MIN_TICK_INDEX ≤ ui * (m.c.groupSize : Int) + m.c.groupSize ∧
      ui * (m.c.groupSize : Int) + m.c.groupSize ≤ MAX_TICK_INDEX

/-- the tick-group index never lags behind the current tick (in swap direction) -/
def GroupOK (d : Bool) (m : AdaptiveMgr) (tick : Int) : Prop :=
  if d then MIN_TICK_INDEX ≤ tick → m.groupIndex * (m.c.groupSize : Int) ≤ tick
  else tick < m.groupIndex * (m.c.groupSize : Int) + m.c.groupSize

/-- the adaptive-fee variables stay inside their ranges: accumulators capped, the reference group
    index is the group of some tick inside (one below) the protocol bounds -/
def VarOK (c : AfConstants) (v : AfVariables) : Prop :=
  v.volRef ≤ c.maxVolAcc ∧ v.volAcc ≤ c.maxVolAcc ∧
  MIN_TICK_INDEX ≤ v.groupIndexRef * (c.groupSize : Int) + c.groupSize ∧ v.groupIndexRef * (c.groupSize : Int) ≤ MAX_TICK_INDEX

theorem varOK_updateVolAcc (c : AfConstants) (v : AfVariables) (g : Int) (h : VarOK c v) : VarOK c (v.updateVolAcc g c) := by
  unfold AfVariables.updateVolAcc
  exact ⟨h.1, Nat.min_le_right _ _, h.2.2.1, h.2.2.2⟩

def FmOK (d : Bool) (tick : Int) : FeeMgr → Prop
  | .static r => r ≤ FEE_RATE_HARD_LIMIT
  | .adaptive m => MgrOK d m ∧ GroupOK d m tick ∧ VarOK m.c m.v

theorem rate_ok (d : Bool) (tick : Int) (fm : FeeMgr) (h : FmOK d tick fm) : fm.updateVolAcc.totalFeeRate ≤ FEE_RATE_HARD_LIMIT := by
  cases fm with
  | static r => exact h
  | adaptive m =>
    unfold FeeMgr.updateVolAcc FeeMgr.totalFeeRate
    simp only []
    split
    · exact Nat.le_refl _
    · omega

/-- a→b: the bounded target lies between the target and the current price -/
theorem bounded_down (m : AdaptiveMgr) (tick : Int) (price tgt liq : Nat) (ok : MgrOK true m) (g : GroupOK true m tick)
    (h1 : MIN_TICK_INDEX ≤ tick) (h2 : tick ≤ MAX_TICK_INDEX) (h3 : sp tick ≤ price) (ht : tgt ≤ price) :
    tgt ≤ ((FeeMgr.adaptive m).boundedTarget tgt liq).1 ∧ ((FeeMgr.adaptive m).boundedTarget tgt liq).1 ≤ price ∧
    (((FeeMgr.adaptive m).boundedTarget tgt liq).2 = false →
      sp (clampTick (m.groupIndex * (m.c.groupSize : Int))) ≤ ((FeeMgr.adaptive m).boundedTarget tgt liq).1) := by
  have hg : m.groupIndex * (m.c.groupSize : Int) ≤ tick := by
    unfold GroupOK at g; rw [if_pos rfl] at g; exact g h1
  have hgs : (0 : Int) < m.c.groupSize := by have := ok.gs; omega
  unfold FeeMgr.boundedTarget
  simp only [ok.dir, if_true]
  by_cases c1 : m.c.controlFactor = 0
  · rw [if_pos c1]; exact ⟨Nat.le_refl _, ht, fun h => by cases h⟩
  · rw [if_neg c1]
    by_cases c2 : liq = 0
    · rw [if_pos c2]; exact ⟨Nat.le_refl _, ht, fun h => by cases h⟩
    · rw [if_neg c2]
      have hclamp : sp (clampTick (m.groupIndex * (m.c.groupSize : Int))) ≤ price := by
        have hcb := clamp_bounds (m.groupIndex * (m.c.groupSize : Int))
        have hct : clampTick (m.groupIndex * (m.c.groupSize : Int)) ≤ tick := by
          unfold clampTick; omega
        have := C09.sp_le _ tick hcb.1 hct h2
        omega
      have hupper : ∀ ui up, m.upperBound = some (ui, up) → m.groupIndex > ui → up ≤ price := by
        intro ui up hu hgt
        obtain ⟨e1, e2, e3⟩ := ok.ub ui up hu
        have hmul : (ui + 1) * (m.c.groupSize : Int) ≤ m.groupIndex * (m.c.groupSize : Int) :=
          Int.mul_le_mul_of_nonneg_right (by omega) (by omega)
        have hexp : (ui + 1) * (m.c.groupSize : Int) = ui * (m.c.groupSize : Int) + m.c.groupSize := by
          rw [Int.add_mul, Int.one_mul]
        have := C09.sp_le (ui * (m.c.groupSize : Int) + m.c.groupSize) tick e2 (by omega) h2
        rw [e1]; omega
      have fin : ∀ r : Nat × Bool, (r = (tgt, true) ∨ (∃ up, r = (max tgt up, true) ∧ up ≤ price) ∨
            r = (max tgt (sp (clampTick (m.groupIndex * (m.c.groupSize : Int)))), false)) →
          tgt ≤ r.1 ∧ r.1 ≤ price ∧ (r.2 = false → sp (clampTick (m.groupIndex * (m.c.groupSize : Int))) ≤ r.1) := by
        intro r hr
        rcases hr with e | ⟨up, e, hle⟩ | e
        · rw [e]; exact ⟨Nat.le_refl _, ht, fun h => by cases h⟩
        · rw [e]; exact ⟨Nat.le_max_left _ _, Nat.max_le.mpr ⟨ht, hle⟩, fun h => by cases h⟩
        · rw [e]; exact ⟨Nat.le_max_left _ _, Nat.max_le.mpr ⟨ht, hclamp⟩, fun _ => Nat.le_max_right _ _⟩
      apply fin
      have upper_part : ∀ r : Nat × Bool,
          (match (match m.upperBound with
               | some (ui, up) => if m.groupIndex > ui then some (max tgt up, true) else none
               | none => none) with
          | some r => r
          | none => (max tgt (sp (clampTick (m.groupIndex * (m.c.groupSize : Int)))), false)) = r →
          ((∃ up, r = (max tgt up, true) ∧ up ≤ price) ∨
            r = (max tgt (sp (clampTick (m.groupIndex * (m.c.groupSize : Int)))), false)) := by
        intro r hr
        cases hu : m.upperBound with
        | none => rw [hu] at hr; right; exact hr.symm
        | some q =>
          obtain ⟨ui, up⟩ := q
          rw [hu] at hr
          simp only [] at hr
          by_cases hgt : m.groupIndex > ui
          · rw [if_pos hgt] at hr; left; exact ⟨up, hr.symm, hupper ui up hu hgt⟩
          · rw [if_neg hgt] at hr; right; exact hr.symm
      cases hl : m.lowerBound with
      | none =>
        simp only []
        right
        exact upper_part _ rfl
      | some q =>
        obtain ⟨li, lp⟩ := q
        simp only []
        by_cases hlt : m.groupIndex < li
        · rw [if_pos hlt]; left; rfl
        · rw [if_neg hlt]
          simp only []
          right
          exact upper_part _ rfl

/-- b→a: the bounded target lies between the current price and the target -/
theorem bounded_up (m : AdaptiveMgr) (tick : Int) (price tgt liq : Nat) (ok : MgrOK false m) (g : GroupOK false m tick)
    (h1 : MIN_TICK_INDEX - 1 ≤ tick) (h2 : tick < MAX_TICK_INDEX) (h3 : price ≤ sp (tick + 1)) (ht : price ≤ tgt) :
    price ≤ ((FeeMgr.adaptive m).boundedTarget tgt liq).1 ∧ ((FeeMgr.adaptive m).boundedTarget tgt liq).1 ≤ tgt ∧
    (((FeeMgr.adaptive m).boundedTarget tgt liq).2 = false →
      ((FeeMgr.adaptive m).boundedTarget tgt liq).1 ≤ sp (clampTick (m.groupIndex * (m.c.groupSize : Int) + m.c.groupSize))) := by
  have hg : tick < m.groupIndex * (m.c.groupSize : Int) + m.c.groupSize := by
    unfold GroupOK at g; rw [if_neg (by simp)] at g; exact g
  have hgs : (0 : Int) < m.c.groupSize := by have := ok.gs; omega
  unfold FeeMgr.boundedTarget
  simp only [ok.dir, Bool.false_eq_true, if_false]
  by_cases c1 : m.c.controlFactor = 0
  · rw [if_pos c1]; exact ⟨ht, Nat.le_refl _, fun h => by cases h⟩
  · rw [if_neg c1]
    by_cases c2 : liq = 0
    · rw [if_pos c2]; exact ⟨ht, Nat.le_refl _, fun h => by cases h⟩
    · rw [if_neg c2]
      have hclamp : price ≤ sp (clampTick (m.groupIndex * (m.c.groupSize : Int) + m.c.groupSize)) := by
        have hcb := clamp_bounds (m.groupIndex * (m.c.groupSize : Int) + m.c.groupSize)
        have hct : tick + 1 ≤ clampTick (m.groupIndex * (m.c.groupSize : Int) + m.c.groupSize) := by
          unfold clampTick; omega
        have := C09.sp_le (tick + 1) _ (by omega) hct hcb.2
        omega
      have hlower : ∀ li lp, m.lowerBound = some (li, lp) → m.groupIndex < li → price ≤ lp := by
        intro li lp hl hlt
        obtain ⟨e1, e2, e3⟩ := ok.lb li lp hl
        have hmul : (m.groupIndex + 1) * (m.c.groupSize : Int) ≤ li * (m.c.groupSize : Int) :=
          Int.mul_le_mul_of_nonneg_right (by omega) (by omega)
        have hexp : (m.groupIndex + 1) * (m.c.groupSize : Int) = m.groupIndex * (m.c.groupSize : Int) + m.c.groupSize := by
          rw [Int.add_mul, Int.one_mul]
        have := C09.sp_le (tick + 1) (li * (m.c.groupSize : Int)) (by omega) (by omega) e3
        rw [e1]; omega
      have fin : ∀ r : Nat × Bool, (r = (tgt, true) ∨ (∃ lp, r = (min tgt lp, true) ∧ price ≤ lp) ∨
            r = (min tgt (sp (clampTick (m.groupIndex * (m.c.groupSize : Int) + m.c.groupSize))), false)) →
          price ≤ r.1 ∧ r.1 ≤ tgt ∧ (r.2 = false → r.1 ≤ sp (clampTick (m.groupIndex * (m.c.groupSize : Int) + m.c.groupSize))) := by
        intro r hr
        rcases hr with e | ⟨lp, e, hle⟩ | e
        · rw [e]; exact ⟨ht, Nat.le_refl _, fun h => by cases h⟩
        · rw [e]; exact ⟨Nat.le_min.mpr ⟨ht, hle⟩, Nat.min_le_left _ _, fun h => by cases h⟩
        · rw [e]; exact ⟨Nat.le_min.mpr ⟨ht, hclamp⟩, Nat.min_le_left _ _, fun _ => Nat.min_le_right _ _⟩
      apply fin
      have upper_part : ∀ r : Nat × Bool,
          (match (match m.upperBound with
               | some (ui, up) => if m.groupIndex > ui then some (tgt, true) else none
               | none => none) with
          | some r => r
          | none => (min tgt (sp (clampTick (m.groupIndex * (m.c.groupSize : Int) + m.c.groupSize))), false)) = r →
          (r = (tgt, true) ∨
            r = (min tgt (sp (clampTick (m.groupIndex * (m.c.groupSize : Int) + m.c.groupSize))), false)) := by
        intro r hr
        cases hu : m.upperBound with
        | none => rw [hu] at hr; right; exact hr.symm
        | some q =>
          obtain ⟨ui, up⟩ := q
          rw [hu] at hr
          simp only [] at hr
          by_cases hgt : m.groupIndex > ui
          · rw [if_pos hgt] at hr; left; exact hr.symm
          · rw [if_neg hgt] at hr; right; exact hr.symm
      cases hl : m.lowerBound with
      | none =>
        simp only []
        rcases upper_part _ rfl with e | e
        · left; exact e
        · right; right; exact e
      | some q =>
        obtain ⟨li, lp⟩ := q
        simp only []
        by_cases hlt : m.groupIndex < li
        · rw [if_pos hlt]; right; left; exact ⟨lp, rfl, hlower li lp hl hlt⟩
        · rw [if_neg hlt]
          simp only []
          rcases upper_part _ rfl with e | e
          · left; exact e
          · right; right; exact e

/-- what `advanceAfterSkip` does to the manager: only the group index and the variables change;
    the new index is past the group of the tick the step ended on -/
theorem afterSkip_spec (m : AdaptiveMgr) (p' np : Nat) (nti : Int) (fm' : FeeMgr)
    (h : (FeeMgr.adaptive m).advanceAfterSkip p' np nti = .ok fm') :
    ∃ m2 : AdaptiveMgr, fm' = .adaptive m2 ∧ m2.aToB = m.aToB ∧ m2.c = m.c ∧ m2.lowerBound = m.lowerBound ∧
      m2.upperBound = m.upperBound ∧
      (m.aToB = true → m2.groupIndex ≤ (if p' = np then nti else ti p') / (m.c.groupSize : Int) - 1) ∧
      (m.aToB = false → (if p' = np then nti else ti p') / (m.c.groupSize : Int) ≤ m2.groupIndex) ∧
      (m2.v = m.v ∨ ∃ g, m2.v = m.v.updateVolAcc g m.c) := by
  unfold FeeMgr.advanceAfterSkip at h
  simp only [] at h
  generalize hq : (if p' = np then (nti, decide (nti % (m.c.groupSize : Int) = 0))
      else (ti p', decide (ti p' % (m.c.groupSize : Int) = 0) && decide (p' = sp (ti p')))) = q at h
  have hq1 : q.1 = (if p' = np then nti else ti p') := by
    rw [← hq]; split <;> rfl
  rw [← hq1]
  generalize q.1 = T at h ⊢
  generalize q.2 = ob at h
  cases hd : m.aToB with
  | true =>
    rw [hd] at h
    simp only [Bool.not_true, Bool.and_false, Bool.false_eq_true, if_false, Bool.true_and, Bool.false_and, Bool.or_false] at h
    by_cases hlt : T / (m.c.groupSize : Int) < m.groupIndex
    · simp only [hlt, decide_true, if_true] at h
      cases h
      exact ⟨_, rfl, rfl, rfl, rfl, rfl, fun _ => by dsimp only; omega, (fun hh => by cases hh), Or.inr ⟨_, rfl⟩⟩
    · simp only [hlt, decide_false, Bool.false_eq_true, if_false, hd, if_true] at h
      cases h
      exact ⟨_, rfl, rfl, rfl, rfl, rfl, fun _ => by dsimp only; omega, (fun hh => by cases hh), Or.inl rfl⟩
  | false =>
    rw [hd] at h
    simp only [Bool.not_false, Bool.and_true, Bool.false_and, Bool.true_and, Bool.false_or, Bool.false_eq_true, if_false] at h
    by_cases hob : ob = true
    · simp only [hob, if_true] at h
      by_cases hgt : T / (m.c.groupSize : Int) - 1 > m.groupIndex
      · simp only [hgt, decide_true, if_true] at h
        cases h
        exact ⟨_, rfl, rfl, rfl, rfl, rfl, (fun hh => by cases hh), (fun _ => by simp only [Bool.false_eq_true, if_false]; omega), Or.inr ⟨_, rfl⟩⟩
      · simp only [hgt, decide_false, Bool.false_eq_true, if_false, hd] at h
        cases h
        exact ⟨_, rfl, rfl, rfl, rfl, rfl, (fun hh => by cases hh), (fun _ => by simp only [Bool.false_eq_true, if_false]; omega), Or.inl rfl⟩
    · simp only [hob, Bool.false_eq_true, if_false] at h
      by_cases hgt : T / (m.c.groupSize : Int) > m.groupIndex
      · simp only [hgt, decide_true, if_true] at h
        cases h
        exact ⟨_, rfl, rfl, rfl, rfl, rfl, (fun hh => by cases hh), (fun _ => by simp only [Bool.false_eq_true, if_false]; omega), Or.inr ⟨_, rfl⟩⟩
      · simp only [hgt, decide_false, Bool.false_eq_true, if_false, hd] at h
        cases h
        exact ⟨_, rfl, rfl, rfl, rfl, rfl, (fun hh => by cases hh), (fun _ => by simp only [Bool.false_eq_true, if_false]; omega), Or.inl rfl⟩

theorem mgrOK_congr (d : Bool) (m m2 : AdaptiveMgr) (ok : MgrOK d m) (e1 : m2.aToB = m.aToB) (e2 : m2.c = m.c)
    (e3 : m2.lowerBound = m.lowerBound) (e4 : m2.upperBound = m.upperBound) : MgrOK d m2 :=
  { dir := by rw [e1]; exact ok.dir, gs := by rw [e2]; exact ok.gs,
    lb := by rw [e2, e3]; exact ok.lb, ub := by rw [e2, e4]; exact ok.ub }

/-- where the tick index is after a step, in the three cases of `stepCross_spec` -/
def StepEnd (d : Bool) (tick tick' nti : Int) (price p' : Nat) : Prop :=
  (p' = sp nti ∧ tick' = (if d then nti - 1 else nti) ∧ MIN_TICK_INDEX ≤ nti ∧ nti ≤ MAX_TICK_INDEX) ∨
  (p' ≠ sp nti ∧ p' ≠ price ∧ tick' = ti p') ∨ (p' ≠ sp nti ∧ p' = price ∧ tick' = tick)

/-- a→b: after a step the group index is again not ahead of the tick -/
theorem fm_after_down (m : AdaptiveMgr) (fm' : FeeMgr) (tick tick' nti : Int) (price p' : Nat)
    (ok : MgrOK true m) (g : GroupOK true m tick) (hv : VarOK m.c m.v) (tp : TP tick price) (hmin : MIN_TICK_INDEX ≤ tick)
    (hp1 : MIN_SQRT_PRICE_X64 ≤ p') (hp2 : p' ≤ MAX_SQRT_PRICE_X64)
    (hend : StepEnd true tick tick' nti price p')
    (hfm : (sp (clampTick (m.groupIndex * (m.c.groupSize : Int))) ≤ p' ∧ fm' = (FeeMgr.adaptive m).advance) ∨
           (FeeMgr.adaptive m).advanceAfterSkip p' (sp nti) nti = .ok fm') :
    FmOK true tick' fm' := by
  have hgs : (0 : Int) < m.c.groupSize := by have := ok.gs; omega
  have hg : m.groupIndex * (m.c.groupSize : Int) ≤ tick := by
    unfold GroupOK at g; rw [if_pos rfl] at g; exact g hmin
  have hpb := TP_price_bounds _ _ tp
  obtain ⟨t1, t2, t3, t4, t5⟩ : MIN_TICK_INDEX ≤ tick ∧ tick ≤ MAX_TICK_INDEX ∧ sp tick ≤ price ∧
      (tick < MAX_TICK_INDEX → price ≤ sp (tick + 1)) ∧ (tick = MAX_TICK_INDEX → price = sp tick) := by
    rcases tp with h | h
    · exact h
    · omega
  rcases hfm with ⟨hbp, e⟩ | hskip
  · rw [e]
    unfold FeeMgr.advance
    refine ⟨mgrOK_congr true m _ ok rfl rfl rfl rfl, ?_, hv⟩
    unfold GroupOK
    rw [if_pos rfl]
    intro hmin'
    simp only [ok.dir, if_true]
    have hcb := clamp_bounds (m.groupIndex * (m.c.groupSize : Int))
    have hcg := clamp_ge (m.groupIndex * (m.c.groupSize : Int)) (by omega)
    have K : m.groupIndex * (m.c.groupSize : Int) - 1 ≤ tick' := by
      rcases hend with ⟨e1, e2, e3, e4⟩ | ⟨_, _, e2⟩ | ⟨_, _, e2⟩
      · rw [if_pos rfl] at e2
        have : clampTick (m.groupIndex * (m.c.groupSize : Int)) ≤ nti := by
          by_cases hlt : nti < clampTick (m.groupIndex * (m.c.groupSize : Int))
          · have := C09.sp_lt nti _ e3 hlt hcb.2; omega
          · omega
        omega
      · have := ti_ge p' _ hp1 hp2 hcb.1 hcb.2 hbp; omega
      · omega
    rw [Int.add_mul]
    omega
  · obtain ⟨m2, e, a1, a2, a3, a4, a5, _, a7⟩ := afterSkip_spec m p' (sp nti) nti fm' hskip
    rw [e]
    have hv2 : VarOK m2.c m2.v := by
      rw [a2]
      rcases a7 with e7 | ⟨g7, e7⟩
      · rw [e7]; exact hv
      · rw [e7]; exact varOK_updateVolAcc _ _ _ hv
    refine ⟨mgrOK_congr true m m2 ok a1 a2 a3 a4, ?_, hv2⟩
    unfold GroupOK
    rw [if_pos rfl, a2]
    intro hmin'
    have h5 := a5 ok.dir
    have hT : (if p' = sp nti then nti else ti p') - 1 ≤ tick' := by
      rcases hend with ⟨e1, e2, e3, e4⟩ | ⟨e1, _, e2⟩ | ⟨e1, e3, e2⟩
      · rw [if_pos rfl] at e2; rw [if_pos e1]; omega
      · rw [if_neg e1]; omega
      · rw [if_neg e1, e3, e2]
        by_cases hm : tick < MAX_TICK_INDEX
        · have := ti_le price (tick + 1) hpb.1 hpb.2 (by omega) (by omega) (t4 hm); omega
        · have := (C09.ti_spec price hpb.1 hpb.2).2.1; omega
    have hfloor := Int.ediv_mul_le (if p' = sp nti then nti else ti p') (Int.ne_of_gt hgs)
    have hmul := Int.mul_le_mul_of_nonneg_right h5 (Int.le_of_lt hgs)
    rw [Int.sub_mul, Int.one_mul] at hmul
    omega

/-- b→a: after a step the tick is again below the end of the manager's tick group -/
theorem fm_after_up (m : AdaptiveMgr) (fm' : FeeMgr) (tick tick' nti : Int) (price p' : Nat)
    (ok : MgrOK false m) (g : GroupOK false m tick) (hv : VarOK m.c m.v) (tp : TP tick price) (hmax : tick < MAX_TICK_INDEX)
    (hp1 : MIN_SQRT_PRICE_X64 ≤ p') (hp2 : p' ≤ MAX_SQRT_PRICE_X64)
    (hend : StepEnd false tick tick' nti price p')
    (hfm : (p' ≤ sp (clampTick (m.groupIndex * (m.c.groupSize : Int) + m.c.groupSize)) ∧ fm' = (FeeMgr.adaptive m).advance) ∨
           (FeeMgr.adaptive m).advanceAfterSkip p' (sp nti) nti = .ok fm') :
    FmOK false tick' fm' := by
  have hgs : (0 : Int) < m.c.groupSize := by have := ok.gs; omega
  have hg : tick < m.groupIndex * (m.c.groupSize : Int) + m.c.groupSize := by
    unfold GroupOK at g; rw [if_neg (by simp)] at g; exact g
  have hpb := TP_price_bounds _ _ tp
  have htmin : MIN_TICK_INDEX - 1 ≤ tick := by
    rcases tp with h | h <;> omega
  rcases hfm with ⟨hbp, e⟩ | hskip
  · rw [e]
    unfold FeeMgr.advance
    refine ⟨mgrOK_congr false m _ ok rfl rfl rfl rfl, ?_, hv⟩
    unfold GroupOK
    rw [if_neg (by simp)]
    simp only [ok.dir, Bool.false_eq_true, if_false]
    have hcb := clamp_bounds (m.groupIndex * (m.c.groupSize : Int) + m.c.groupSize)
    have hcl := clamp_le (m.groupIndex * (m.c.groupSize : Int) + m.c.groupSize) (by omega)
    have K : tick' ≤ m.groupIndex * (m.c.groupSize : Int) + m.c.groupSize := by
      rcases hend with ⟨e1, e2, e3, e4⟩ | ⟨_, _, e2⟩ | ⟨_, _, e2⟩
      · rw [if_neg (by simp)] at e2
        have : nti ≤ clampTick (m.groupIndex * (m.c.groupSize : Int) + m.c.groupSize) := by
          by_cases hlt : clampTick (m.groupIndex * (m.c.groupSize : Int) + m.c.groupSize) < nti
          · have := C09.sp_lt _ nti hcb.1 hlt e4; omega
          · omega
        omega
      · have := ti_le p' _ hp1 hp2 hcb.1 hcb.2 hbp; omega
      · omega
    rw [Int.add_mul]
    omega
  · obtain ⟨m2, e, a1, a2, a3, a4, _, a6, a7⟩ := afterSkip_spec m p' (sp nti) nti fm' hskip
    rw [e]
    have hv2 : VarOK m2.c m2.v := by
      rw [a2]
      rcases a7 with e7 | ⟨g7, e7⟩
      · rw [e7]; exact hv
      · rw [e7]; exact varOK_updateVolAcc _ _ _ hv
    refine ⟨mgrOK_congr false m m2 ok a1 a2 a3 a4, ?_, hv2⟩
    unfold GroupOK
    rw [if_neg (by simp), a2]
    have h6 := a6 ok.dir
    have hT : tick' ≤ (if p' = sp nti then nti else ti p') := by
      rcases hend with ⟨e1, e2, e3, e4⟩ | ⟨e1, _, e2⟩ | ⟨e1, e3, e2⟩
      · rw [if_neg (by simp)] at e2; rw [if_pos e1]; omega
      · rw [if_neg e1]; omega
      · rw [if_neg e1, e3, e2]
        rcases tp with ⟨b1, b2, b3, _, _⟩ | ⟨b1, _⟩
        · exact ti_ge price tick hpb.1 hpb.2 b1 b2 b3
        · have := (C09.ti_spec price hpb.1 hpb.2).1; omega
    have hmod := Int.emod_lt_of_pos (if p' = sp nti then nti else ti p') hgs
    have hdm := Int.mul_ediv_add_emod (if p' = sp nti then nti else ti p') (m.c.groupSize : Int)
    have hmul := Int.mul_le_mul_of_nonneg_right h6 (Int.le_of_lt hgs)
    rw [Int.mul_comm] at hdm
    omega

/-! ### the same, for either kind of fee manager -/

theorem fm_bounded_down (fm : FeeMgr) (tick : Int) (price tgt liq : Nat) (h : FmOK true tick fm)
    (h1 : MIN_TICK_INDEX ≤ tick) (h2 : tick ≤ MAX_TICK_INDEX) (h3 : sp tick ≤ price) (ht : tgt ≤ price) :
    tgt ≤ (fm.updateVolAcc.boundedTarget tgt liq).1 ∧ (fm.updateVolAcc.boundedTarget tgt liq).1 ≤ price := by
  cases fm with
  | static r => exact ⟨Nat.le_refl _, ht⟩
  | adaptive m =>
    obtain ⟨ok, g, _⟩ := h
    have := bounded_down { m with v := m.v.updateVolAcc m.groupIndex m.c } tick price tgt liq
      (mgrOK_congr true m _ ok rfl rfl rfl rfl) g h1 h2 h3 ht
    exact ⟨this.1, this.2.1⟩

theorem fm_bounded_up (fm : FeeMgr) (tick : Int) (price tgt liq : Nat) (h : FmOK false tick fm)
    (h1 : MIN_TICK_INDEX - 1 ≤ tick) (h2 : tick < MAX_TICK_INDEX) (h3 : price ≤ sp (tick + 1)) (ht : price ≤ tgt) :
    price ≤ (fm.updateVolAcc.boundedTarget tgt liq).1 ∧ (fm.updateVolAcc.boundedTarget tgt liq).1 ≤ tgt := by
  cases fm with
  | static r => exact ⟨ht, Nat.le_refl _⟩
  | adaptive m =>
    obtain ⟨ok, g, _⟩ := h
    have := bounded_up { m with v := m.v.updateVolAcc m.groupIndex m.c } tick price tgt liq
      (mgrOK_congr false m _ ok rfl rfl rfl rfl) g h1 h2 h3 ht
    exact ⟨this.1, this.2.1⟩

theorem fm_next_down (fm fm' : FeeMgr) (tick tick' nti : Int) (price p' tgt liq : Nat) (h : FmOK true tick fm)
    (tp : TP tick price) (hmin : MIN_TICK_INDEX ≤ tick) (ht : tgt ≤ price)
    (hp1 : MIN_SQRT_PRICE_X64 ≤ p') (hp2 : p' ≤ MAX_SQRT_PRICE_X64)
    (hb : (fm.updateVolAcc.boundedTarget tgt liq).1 ≤ p')
    (hend : StepEnd true tick tick' nti price p')
    (hfm : ((fm.updateVolAcc.boundedTarget tgt liq).2 = false ∧ fm' = fm.updateVolAcc.advance) ∨
           fm.updateVolAcc.advanceAfterSkip p' (sp nti) nti = .ok fm') :
    FmOK true tick' fm' := by
  cases fm with
  | static r =>
    rcases hfm with ⟨_, e⟩ | e
    · rw [e]; exact h
    · cases e
  | adaptive m =>
    obtain ⟨ok, g, hv⟩ := h
    have t : MIN_TICK_INDEX ≤ tick ∧ tick ≤ MAX_TICK_INDEX ∧ sp tick ≤ price := by
      rcases tp with ⟨a, b, c, _⟩ | ⟨a, _⟩
      · exact ⟨a, b, c⟩
      · omega
    have ok' := mgrOK_congr true m { m with v := m.v.updateVolAcc m.groupIndex m.c } ok rfl rfl rfl rfl
    have hbd := bounded_down { m with v := m.v.updateVolAcc m.groupIndex m.c } tick price tgt liq ok' g t.1 t.2.1 t.2.2 ht
    apply fm_after_down { m with v := m.v.updateVolAcc m.groupIndex m.c } fm' tick tick' nti price p' ok' g
      (varOK_updateVolAcc _ _ _ hv) tp hmin hp1 hp2 hend
    rcases hfm with ⟨e1, e2⟩ | e
    · left; exact ⟨Nat.le_trans (hbd.2.2 e1) hb, e2⟩
    · right; exact e

theorem fm_next_up (fm fm' : FeeMgr) (tick tick' nti : Int) (price p' tgt liq : Nat) (h : FmOK false tick fm)
    (tp : TP tick price) (hmax : tick < MAX_TICK_INDEX) (ht : price ≤ tgt)
    (hp1 : MIN_SQRT_PRICE_X64 ≤ p') (hp2 : p' ≤ MAX_SQRT_PRICE_X64)
    (hb : p' ≤ (fm.updateVolAcc.boundedTarget tgt liq).1)
    (hend : StepEnd false tick tick' nti price p')
    (hfm : ((fm.updateVolAcc.boundedTarget tgt liq).2 = false ∧ fm' = fm.updateVolAcc.advance) ∨
           fm.updateVolAcc.advanceAfterSkip p' (sp nti) nti = .ok fm') :
    FmOK false tick' fm' := by
  cases fm with
  | static r =>
    rcases hfm with ⟨_, e⟩ | e
    · rw [e]; exact h
    · cases e
  | adaptive m =>
    obtain ⟨ok, g, hv⟩ := h
    have t : MIN_TICK_INDEX - 1 ≤ tick ∧ price ≤ sp (tick + 1) := by
      rcases tp with ⟨a, b, c, d, _⟩ | ⟨a, b⟩
      · exact ⟨by omega, d hmax⟩
      · rw [a, b]; exact ⟨Int.le_refl _, by rw [show MIN_TICK_INDEX - 1 + 1 = MIN_TICK_INDEX by omega]⟩
    have ok' := mgrOK_congr false m { m with v := m.v.updateVolAcc m.groupIndex m.c } ok rfl rfl rfl rfl
    have hbd := bounded_up { m with v := m.v.updateVolAcc m.groupIndex m.c } tick price tgt liq ok' g t.1 hmax t.2 ht
    apply fm_after_up { m with v := m.v.updateVolAcc m.groupIndex m.c } fm' tick tick' nti price p' ok' g
      (varOK_updateVolAcc _ _ _ hv) tp hmax hp1 hp2 hend
    rcases hfm with ⟨e1, e2⟩ | e
    · left; exact ⟨Nat.le_trans hb (hbd.2.2 e1), e2⟩
    · right; exact e

/-! ### establishing the manager invariant: `FeeRateManager::new` -/

/-- what the stored adaptive-fee state must satisfy (validated constants give the first two; the
    variables are kept in range by every swap: `swap_path`) -/
structure InfoOK (info : AfInfo) : Prop where
  gs : 0 < info.constants.groupSize
  red : info.constants.reductionFactor < 10000
  var : VarOK info.constants info.variables

theorem toI32_nonneg (x : Nat) (h : x < 2147483648) : 0 ≤ toI32 x := by
  unfold toI32
  have : x % TWO32 = x := Nat.mod_eq_of_lt (by unfold TWO32; omega)
  rw [this]
  split
  · omega
  · omega

theorem ceilDiv_lt (a : Nat) (h : a < 4294967296) : ceilDiv a 10000 < 2147483648 := by
  unfold ceilDiv
  split <;> omega

theorem updateReference_varOK (c : AfConstants) (v v' : AfVariables) (tick : Int) (now : Nat) (hgs : 0 < c.groupSize)
    (hred : c.reductionFactor < 10000) (hv : VarOK c v) (h1 : MIN_TICK_INDEX - 1 ≤ tick) (h2 : tick ≤ MAX_TICK_INDEX)
    (h : v.updateReference (tick / (c.groupSize : Int)) now c = .ok v') : VarOK c v' := by
  have hgsI : (0 : Int) < c.groupSize := by omega
  have hfloor := Int.ediv_mul_le tick (Int.ne_of_gt hgsI)
  have hmod := Int.emod_lt_of_pos tick hgsI
  have hdm := Int.mul_ediv_add_emod tick (c.groupSize : Int)
  rw [Int.mul_comm] at hdm
  have hgi : MIN_TICK_INDEX ≤ tick / (c.groupSize : Int) * (c.groupSize : Int) + c.groupSize ∧
      tick / (c.groupSize : Int) * (c.groupSize : Int) ≤ MAX_TICK_INDEX := ⟨by omega, by omega⟩
  obtain ⟨a, b, _, _⟩ := hv
  unfold AfVariables.updateReference at h
  simp only [] at h
  split at h
  · cases h
  · split at h
    · cases h; exact ⟨Nat.zero_le _, b, hgi.1, hgi.2⟩
    · split at h
      · cases h; exact ⟨a, b, by assumption, by assumption⟩
      · split at h
        · cases h
          refine ⟨?_, b, hgi.1, hgi.2⟩
          have h3 : v.volAcc * c.reductionFactor / REDUCTION_FACTOR_DENOMINATOR ≤ v.volAcc := by
            apply Nat.div_le_of_le_mul
            unfold REDUCTION_FACTOR_DENOMINATOR
            have : v.volAcc * c.reductionFactor ≤ v.volAcc * 10000 := Nat.mul_le_mul_left _ (by omega)
            omega
          have h4 := Nat.mod_le (v.volAcc * c.reductionFactor / REDUCTION_FACTOR_DENOMINATOR) TWO32
          show (v.volAcc * c.reductionFactor / REDUCTION_FACTOR_DENOMINATOR) % TWO32 ≤ c.maxVolAcc
          omega
        · cases h; exact ⟨Nat.zero_le _, b, hgi.1, hgi.2⟩

/-- the manager built at the start of a swap satisfies the invariant -/
theorem new_ok (d : Bool) (tick : Int) (now rate : Nat) (af : Option AfInfo) (fm : FeeMgr)
    (hrate : rate ≤ FEE_RATE_HARD_LIMIT) (haf : ∀ info, af = some info → InfoOK info)
    (h1 : MIN_TICK_INDEX - 1 ≤ tick) (h2 : tick ≤ MAX_TICK_INDEX)
    (h : FeeMgr.new d tick now rate af = .ok fm) : FmOK d tick fm := by
  unfold FeeMgr.new at h
  cases af with
  | none => cases h; exact hrate
  | some info =>
    obtain ⟨hgs, hred, hv⟩ := haf info rfl
    simp only [] at h
    split at h
    · cases h
    · rename_i v hvr
      cases h
      have hgsI : (0 : Int) < info.constants.groupSize := by omega
      have hv' := updateReference_varOK _ _ _ tick now hgs hred hv h1 h2 hvr
      have hfloor := Int.ediv_mul_le tick (Int.ne_of_gt hgsI)
      have hmod := Int.emod_lt_of_pos tick hgsI
      have hdm := Int.mul_ediv_add_emod tick (info.constants.groupSize : Int)
      rw [Int.mul_comm] at hdm
      have hdelta : 0 ≤ toI32 (ceilDiv ((info.constants.maxVolAcc + TWO32 - v.volRef) % TWO32) VOLATILITY_ACCUMULATOR_SCALE_FACTOR) := by
        apply toI32_nonneg
        have : (info.constants.maxVolAcc + TWO32 - v.volRef) % TWO32 < 4294967296 := Nat.mod_lt _ (by unfold TWO32; omega)
        exact ceilDiv_lt _ this
      refine ⟨?_, ?_, hv'⟩
      · refine { dir := rfl, gs := hgs, lb := ?_, ub := ?_ }
        · intro li lp hl
          simp only [] at hl
          split at hl
          · rename_i hgt
            cases hl
            dsimp only at hgt ⊢
            refine ⟨rfl, by omega, ?_⟩
            have hm := Int.mul_le_mul_of_nonneg_right
              (show v.groupIndexRef - toI32 (ceilDiv ((info.constants.maxVolAcc + TWO32 - v.volRef) % TWO32) VOLATILITY_ACCUMULATOR_SCALE_FACTOR) ≤ v.groupIndexRef by omega)
              (Int.le_of_lt hgsI)
            have := hv'.2.2.2
            omega
          · cases hl
        · intro ui up hu
          simp only [] at hu
          split at hu
          · rename_i hlt
            cases hu
            dsimp only at hlt ⊢
            refine ⟨rfl, ?_, by omega⟩
            have hm := Int.mul_le_mul_of_nonneg_right
              (show v.groupIndexRef ≤ v.groupIndexRef + toI32 (ceilDiv ((info.constants.maxVolAcc + TWO32 - v.volRef) % TWO32) VOLATILITY_ACCUMULATOR_SCALE_FACTOR) by omega)
              (Int.le_of_lt hgsI)
            have := hv'.2.2.1
            omega
          · cases hu
      · unfold GroupOK
        simp only []
        cases d with
        | true => simp only [if_true]; intro _; omega
        | false => simp only [Bool.false_eq_true, if_false]; omega

end WP.Path
