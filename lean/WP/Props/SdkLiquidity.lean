import WP.Props.C20
import WP.Props.PathBase
/-
  C20, liquidity quotes: the SDK's `try_get_token_estimates_from_liquidity` splits the three cases by PRICE
  (`price ≤ sp lower`, `price ≥ sp upper`), the program's `calculate_liquidity_token_deltas` by the current TICK INDEX
  (`tick < lower`, `tick < upper`).  On every pool whose tick index is consistent with its price (`TP`: C09 / C05 at
  every reachable state) the two return the same pair of token amounts, and the SDK fails exactly where the program
  fails — including the boundary states where the price sits exactly on a range bound and the tick index is the
  bound or one below it.
-/
set_option linter.unusedSimpArgs false
namespace WP.SdkLiq
open WP WP.Gen WP.Path

theorem deltaA_same (p L : Nat) (up : Bool) (hp : p ≠ 0) : getAmountDeltaA p p L up = .ok 0 := by
  unfold getAmountDeltaA tryGetAmountDeltaA unwrapDelta incOrder
  have h1 : ¬ p > p := by omega
  have hz : ¬ (0 : Nat) ≥ TWO128 * TWO64 := by decide +kernel
  have hpp : ¬ p * p = 0 := by
    intro c; rcases Nat.mul_eq_zero.mp c with x | x <;> exact hp x
  simp only [if_neg h1, Nat.sub_self, Nat.mul_zero, Nat.zero_mul, if_neg hz, if_neg hpp, Nat.zero_div, Nat.zero_mod,
    Nat.lt_irrefl, decide_false, Bool.and_false, Bool.false_eq_true, if_false]
  have a : ¬ (0 : Nat) > U128_MAX := by omega
  have b : ¬ (0 : Nat) > U64_MAX := by omega
  rw [if_neg a, if_neg b]

theorem deltaB_same (p L : Nat) (up : Bool) : getAmountDeltaB p p L up = .ok 0 := by
  unfold getAmountDeltaB tryGetAmountDeltaB unwrapDelta incOrder
  have h1 : ¬ p > p := by omega
  simp only [if_neg h1, Nat.sub_self, decide_true, Bool.or_true, if_true]

def bind2 (x y : R Nat) : R (Nat × Nat) :=
  match x with
  | .error e => .error e
  | .ok a => match y with
    | .error e => .error e
    | .ok b => .ok (a, b)

theorem toOption_bind2 (x y x' y' : R Nat) : x.toOption = x'.toOption → y.toOption = y'.toOption →
    (bind2 x y).toOption = (bind2 x' y').toOption := by
  intro hx hy
  unfold bind2
  cases x <;> cases x' <;> cases y <;> cases y' <;> simp [Except.toOption] at hx hy ⊢ <;> simp [hx, hy]

theorem toOption_map1 (x x' : R Nat) (f : Nat → Nat × Nat) (hx : x.toOption = x'.toOption) :
    (match x with | .error e => (.error e : R (Nat × Nat)) | .ok a => .ok (f a)).toOption =
    (match x' with | .error e => (.error e : R (Nat × Nat)) | .ok a => .ok (f a)).toOption := by
  cases x <;> cases x' <;> simp_all [Except.toOption]

/-- **C20, token amounts for liquidity.**  For a position `[lower, upper)` inside the tick bounds and a pool whose tick
    index and price are consistent, the SDK's estimate for `liq > 0` (rounded up for a deposit, down for a
    withdrawal) is the program's pair of token deltas, and it is an error exactly when the program's is. -/
theorem sdk_estimates_eq (curTick : Int) (price liq : Nat) (lower upper : Int) (up : Bool)
    (tp : TP curTick price) (hlu : lower < upper) (hlo : MIN_TICK_INDEX ≤ lower) (hhi : upper ≤ MAX_TICK_INDEX)
    (hliq : 0 < liq) (hL : liq ≤ U128_MAX) :
    (sdkTokenEstimates liq price lower upper up).toOption =
      (calculateLiquidityTokenDeltas curTick price lower upper (if up then (liq : Int) else -(liq : Int))).toOption := by
  have hmaxle : MAX_SQRT_PRICE_X64 ≤ U128_MAX := by decide +kernel
  have hpb := TP_price_bounds _ _ tp
  have hplb := sp_in_bounds lower hlo (by omega)
  have hpub := sp_in_bounds upper (by omega) hhi
  have hlt : sp lower < sp upper := C09.sp_lt lower upper hlo hlu hhi
  have hpU : price ≤ U128_MAX := by omega
  have hplU : sp lower ≤ U128_MAX := by omega
  have hpuU : sp upper ≤ U128_MAX := by omega
  have hmin : MIN_SQRT_PRICE_X64 = 4295048016 := rfl
  have hpl0 : sp lower ≠ 0 := by omega
  have hpu0 : sp upper ≠ 0 := by omega
  -- the program's arguments
  have hdz : ¬ (if up then (liq : Int) else -(liq : Int)) = 0 := by cases up <;> simp <;> omega
  have hnat : (if up then (liq : Int) else -(liq : Int)).natAbs = liq := by cases up <;> simp
  have hdec : decide ((if up then (liq : Int) else -(liq : Int)) > 0) = up := by cases up <;> simp <;> omega
  unfold sdkTokenEstimates calculateLiquidityTokenDeltas
  simp only [if_neg hdz, hnat, hdec, if_neg (by omega : ¬ liq = 0), if_neg (by omega : ¬ lower = upper)]
  have eA := fun p0 p1 (h0 : p0 ≤ U128_MAX) (h1 : p1 ≤ U128_MAX) => C20.sdk_delta_a_eq p0 p1 liq up h0 h1 hL
  have eB := fun p0 p1 => C20.sdk_delta_b_eq p0 p1 liq up
  by_cases c1 : curTick < lower
  · -- below the range: the price is at or below the lower bound's price
    rw [if_pos c1]
    have hple : price ≤ sp lower := by
      rcases tp with ⟨a, b, _, d, _⟩ | ⟨a, b⟩
      · have := d (by omega)
        have := C09.sp_le (curTick + 1) lower (by omega) (by omega) (by omega)
        omega
      · rw [b]; exact C09.sp_le _ _ (Int.le_refl _) hlo (by omega)
    rw [if_pos hple]
    exact toOption_map1 _ _ (fun a => (a, 0)) (eA _ _ hplU hpuU)
  · rw [if_neg c1]
    have htk : MIN_TICK_INDEX ≤ curTick ∧ curTick ≤ MAX_TICK_INDEX ∧ sp curTick ≤ price := by
      rcases tp with ⟨a, b, c', _, _⟩ | ⟨a, _⟩
      · exact ⟨a, b, c'⟩
      · omega
    have hpge : sp lower ≤ price := Nat.le_trans (C09.sp_le lower curTick hlo (by omega) htk.2.1) htk.2.2
    by_cases c2 : curTick < upper
    · rw [if_pos c2]
      have hpleu : price ≤ sp upper := by
        rcases tp with ⟨a, b, _, d, _⟩ | ⟨a, b⟩
        · have := d (by omega)
          have := C09.sp_le (curTick + 1) upper (by omega) (by omega) hhi
          omega
        · omega
      by_cases c3 : price ≤ sp lower
      · -- exactly on the lower bound: B(lower, price) = 0 and A(price, upper) = A(lower, upper)
        rw [if_pos c3]
        have he : price = sp lower := by omega
        rw [he, deltaB_same]
        refine Eq.trans (toOption_map1 _ _ (fun a => (a, 0)) (eA (sp lower) (sp upper) hplU hpuU)) ?_
        cases getAmountDeltaA (sp lower) (sp upper) liq up <;> rfl
      · rw [if_neg c3]
        by_cases c4 : price ≥ sp upper
        · -- exactly on the upper bound: A(price, upper) = 0 and B(lower, price) = B(lower, upper)
          rw [if_pos c4]
          have he : price = sp upper := by omega
          rw [he, deltaA_same _ _ _ hpu0]
          refine Eq.trans (toOption_map1 _ _ (fun b => (0, b)) (eB (sp lower) (sp upper))) ?_
          cases getAmountDeltaB (sp lower) (sp upper) liq up <;> rfl
        · rw [if_neg c4]
          have := toOption_bind2 _ _ _ _ (eA price (sp upper) hpU hpuU) (eB (sp lower) price)
          unfold bind2 at this
          exact this
    · rw [if_neg c2]
      have hpgeu : sp upper ≤ price := Nat.le_trans (C09.sp_le upper curTick (by omega) (by omega) htk.2.1) htk.2.2
      have c3 : ¬ price ≤ sp lower := by omega
      rw [if_neg c3, if_pos hpgeu]
      exact toOption_map1 _ _ (fun b => (0, b)) (eB _ _)

/-- the boundary states are real inputs: price exactly on the upper bound with the tick index one below it (after an
    a→b crossing) and on it; an in-range withdrawal (kernel-evaluated on both sides) -/
example : sdkTokenEstimates 1000000000 (sp 128) (-128) 128 true = .ok (0, 12799448) ∧
    calculateLiquidityTokenDeltas 127 (sp 128) (-128) 128 1000000000 = .ok (0, 12799448) ∧
    calculateLiquidityTokenDeltas 128 (sp 128) (-128) 128 1000000000 = .ok (0, 12799448) ∧
    sdkTokenEstimates 1000000000 18446744073709551616 (-128) 128 false = .ok (6379245, 6379245) ∧
    calculateLiquidityTokenDeltas 0 18446744073709551616 (-128) 128 (-1000000000) = .ok (6379245, 6379245) := by
  decide +kernel

end WP.SdkLiq
