import WP.Gen.AnchorSpecs
import WP.Gen.PinoSpecs
import WP.Gen.Routing
/-
  Property C15 — instructions act only on accounts that belong to the pool they name.

  Same method as C04: the code tables are regenerated from /repo on every run; the tables below are
  the hand-written requirements.  `slotRows` lists EVERY account slot of every fund-moving
  instruction with the reason it cannot be substituted:
     root     – the pool (or config) the instruction names; typed `Account<Whirlpool>` (owner + discriminator)
     signer   – must sign
     pinned   – carries an address / has_one / constraint / seeds attribute (listed in `pinRows`)
     program  – `Program<T>` / `Interface<T>`: the program id is fixed by the type
     loader   – tick-array account: validated by the loader the handler calls (`loaderRows`; the loaders
                themselves — owner, discriminator, whirlpool field — are tied by the `loaders` family)
  `slots_complete` proves that the regenerated structs have no slot outside this table, so a new
  unpinned slot, or a slot that loses its attribute, breaks a theorem.
-/
namespace WP.C15
open WP WP.Gen

def pinRows : List (String × String × String × String) := [
  ("CollectFees", "position", "has_one", "whirlpool"),
  ("CollectFees", "position_token_account", "constraint", "position_token_account.mint == position.position_mint"),
  ("CollectFees", "position_token_account", "constraint", "position_token_account.amount == 1"),
  ("CollectFees", "token_owner_account_a", "constraint", "token_owner_account_a.mint == whirlpool.token_mint_a"),
  ("CollectFees", "token_vault_a", "address", "whirlpool.token_vault_a"),
  ("CollectFees", "token_owner_account_b", "constraint", "token_owner_account_b.mint == whirlpool.token_mint_b"),
  ("CollectFees", "token_vault_b", "address", "whirlpool.token_vault_b"),
  ("CollectFees", "token_program", "address", "token::ID"),
  ("CollectProtocolFees", "whirlpool", "has_one", "whirlpools_config"),
  ("CollectProtocolFees", "collect_protocol_fees_authority", "address", "whirlpools_config.collect_protocol_fees_authority"),
  ("CollectProtocolFees", "token_vault_a", "address", "whirlpool.token_vault_a"),
  ("CollectProtocolFees", "token_vault_b", "address", "whirlpool.token_vault_b"),
  ("CollectProtocolFees", "token_destination_a", "constraint", "token_destination_a.mint == whirlpool.token_mint_a"),
  ("CollectProtocolFees", "token_destination_b", "constraint", "token_destination_b.mint == whirlpool.token_mint_b"),
  ("CollectProtocolFees", "token_program", "address", "token::ID"),
  ("CollectReward", "position", "has_one", "whirlpool"),
  ("CollectReward", "position_token_account", "constraint", "position_token_account.mint == position.position_mint"),
  ("CollectReward", "position_token_account", "constraint", "position_token_account.amount == 1"),
  ("CollectReward", "reward_owner_account", "constraint", "reward_owner_account.mint == whirlpool.reward_infos[reward_index as usize].mint"),
  ("CollectReward", "reward_vault", "address", "whirlpool.reward_infos[reward_index as usize].vault"),
  ("CollectReward", "token_program", "address", "token::ID"),
  ("ModifyLiquidity", "token_program", "address", "token::ID"),
  ("ModifyLiquidity", "position", "has_one", "whirlpool"),
  ("ModifyLiquidity", "position_token_account", "constraint", "position_token_account.mint == position.position_mint"),
  ("ModifyLiquidity", "position_token_account", "constraint", "position_token_account.amount == 1"),
  ("ModifyLiquidity", "token_owner_account_a", "constraint", "token_owner_account_a.mint == whirlpool.token_mint_a"),
  ("ModifyLiquidity", "token_owner_account_b", "constraint", "token_owner_account_b.mint == whirlpool.token_mint_b"),
  ("ModifyLiquidity", "token_vault_a", "constraint", "token_vault_a.key() == whirlpool.token_vault_a"),
  ("ModifyLiquidity", "token_vault_b", "constraint", "token_vault_b.key() == whirlpool.token_vault_b"),
  ("SetRewardEmissions", "reward_authority", "address", "whirlpool.reward_authority()"),
  ("SetRewardEmissions", "reward_vault", "address", "whirlpool.reward_infos[reward_index as usize].vault"),
  ("Swap", "token_program", "address", "token::ID"),
  ("Swap", "token_owner_account_a", "constraint", "token_owner_account_a.mint == whirlpool.token_mint_a"),
  ("Swap", "token_vault_a", "address", "whirlpool.token_vault_a"),
  ("Swap", "token_owner_account_b", "constraint", "token_owner_account_b.mint == whirlpool.token_mint_b"),
  ("Swap", "token_vault_b", "address", "whirlpool.token_vault_b"),
  ("Swap", "oracle", "seeds", "[b\"oracle\", whirlpool.key().as_ref()]"),
  ("TwoHopSwap", "token_program", "address", "token::ID"),
  ("TwoHopSwap", "token_owner_account_one_a", "constraint", "token_owner_account_one_a.mint == whirlpool_one.token_mint_a"),
  ("TwoHopSwap", "token_vault_one_a", "address", "whirlpool_one.token_vault_a"),
  ("TwoHopSwap", "token_owner_account_one_b", "constraint", "token_owner_account_one_b.mint == whirlpool_one.token_mint_b"),
  ("TwoHopSwap", "token_vault_one_b", "address", "whirlpool_one.token_vault_b"),
  ("TwoHopSwap", "token_owner_account_two_a", "constraint", "token_owner_account_two_a.mint == whirlpool_two.token_mint_a"),
  ("TwoHopSwap", "token_vault_two_a", "address", "whirlpool_two.token_vault_a"),
  ("TwoHopSwap", "token_owner_account_two_b", "constraint", "token_owner_account_two_b.mint == whirlpool_two.token_mint_b"),
  ("TwoHopSwap", "token_vault_two_b", "address", "whirlpool_two.token_vault_b"),
  ("TwoHopSwap", "oracle_one", "seeds", "[b\"oracle\", whirlpool_one.key().as_ref()]"),
  ("TwoHopSwap", "oracle_two", "seeds", "[b\"oracle\", whirlpool_two.key().as_ref()]"),
  ("UpdateFeesAndRewards", "position", "has_one", "whirlpool"),
  ("CollectFeesV2", "position", "has_one", "whirlpool"),
  ("CollectFeesV2", "position_token_account", "constraint", "position_token_account.mint == position.position_mint"),
  ("CollectFeesV2", "position_token_account", "constraint", "position_token_account.amount == 1"),
  ("CollectFeesV2", "token_mint_a", "address", "whirlpool.token_mint_a"),
  ("CollectFeesV2", "token_mint_b", "address", "whirlpool.token_mint_b"),
  ("CollectFeesV2", "token_owner_account_a", "constraint", "token_owner_account_a.mint == whirlpool.token_mint_a"),
  ("CollectFeesV2", "token_vault_a", "address", "whirlpool.token_vault_a"),
  ("CollectFeesV2", "token_owner_account_b", "constraint", "token_owner_account_b.mint == whirlpool.token_mint_b"),
  ("CollectFeesV2", "token_vault_b", "address", "whirlpool.token_vault_b"),
  ("CollectFeesV2", "token_program_a", "address", "*token_mint_a.to_account_info().owner"),
  ("CollectFeesV2", "token_program_b", "address", "*token_mint_b.to_account_info().owner"),
  ("CollectProtocolFeesV2", "whirlpool", "has_one", "whirlpools_config"),
  ("CollectProtocolFeesV2", "collect_protocol_fees_authority", "address", "whirlpools_config.collect_protocol_fees_authority"),
  ("CollectProtocolFeesV2", "token_mint_a", "address", "whirlpool.token_mint_a"),
  ("CollectProtocolFeesV2", "token_mint_b", "address", "whirlpool.token_mint_b"),
  ("CollectProtocolFeesV2", "token_vault_a", "address", "whirlpool.token_vault_a"),
  ("CollectProtocolFeesV2", "token_vault_b", "address", "whirlpool.token_vault_b"),
  ("CollectProtocolFeesV2", "token_destination_a", "constraint", "token_destination_a.mint == whirlpool.token_mint_a"),
  ("CollectProtocolFeesV2", "token_destination_b", "constraint", "token_destination_b.mint == whirlpool.token_mint_b"),
  ("CollectProtocolFeesV2", "token_program_a", "address", "*token_mint_a.to_account_info().owner"),
  ("CollectProtocolFeesV2", "token_program_b", "address", "*token_mint_b.to_account_info().owner"),
  ("CollectRewardV2", "position", "has_one", "whirlpool"),
  ("CollectRewardV2", "position_token_account", "constraint", "position_token_account.mint == position.position_mint"),
  ("CollectRewardV2", "position_token_account", "constraint", "position_token_account.amount == 1"),
  ("CollectRewardV2", "reward_owner_account", "constraint", "reward_owner_account.mint == whirlpool.reward_infos[reward_index as usize].mint"),
  ("CollectRewardV2", "reward_mint", "address", "whirlpool.reward_infos[reward_index as usize].mint"),
  ("CollectRewardV2", "reward_vault", "address", "whirlpool.reward_infos[reward_index as usize].vault"),
  ("CollectRewardV2", "reward_token_program", "address", "*reward_mint.to_account_info().owner"),
  ("ModifyLiquidityV2", "token_program_a", "address", "*token_mint_a.to_account_info().owner"),
  ("ModifyLiquidityV2", "token_program_b", "address", "*token_mint_b.to_account_info().owner"),
  ("ModifyLiquidityV2", "position", "has_one", "whirlpool"),
  ("ModifyLiquidityV2", "position_token_account", "constraint", "position_token_account.mint == position.position_mint"),
  ("ModifyLiquidityV2", "position_token_account", "constraint", "position_token_account.amount == 1"),
  ("ModifyLiquidityV2", "token_mint_a", "address", "whirlpool.token_mint_a"),
  ("ModifyLiquidityV2", "token_mint_b", "address", "whirlpool.token_mint_b"),
  ("ModifyLiquidityV2", "token_owner_account_a", "constraint", "token_owner_account_a.mint == whirlpool.token_mint_a"),
  ("ModifyLiquidityV2", "token_owner_account_b", "constraint", "token_owner_account_b.mint == whirlpool.token_mint_b"),
  ("ModifyLiquidityV2", "token_vault_a", "constraint", "token_vault_a.key() == whirlpool.token_vault_a"),
  ("ModifyLiquidityV2", "token_vault_b", "constraint", "token_vault_b.key() == whirlpool.token_vault_b"),
  ("SetRewardEmissionsV2", "reward_authority", "address", "whirlpool.reward_authority()"),
  ("SetRewardEmissionsV2", "reward_vault", "address", "whirlpool.reward_infos[reward_index as usize].vault"),
  ("SwapV2", "token_program_a", "address", "*token_mint_a.to_account_info().owner"),
  ("SwapV2", "token_program_b", "address", "*token_mint_b.to_account_info().owner"),
  ("SwapV2", "token_mint_a", "address", "whirlpool.token_mint_a"),
  ("SwapV2", "token_mint_b", "address", "whirlpool.token_mint_b"),
  ("SwapV2", "token_owner_account_a", "constraint", "token_owner_account_a.mint == whirlpool.token_mint_a"),
  ("SwapV2", "token_vault_a", "address", "whirlpool.token_vault_a"),
  ("SwapV2", "token_owner_account_b", "constraint", "token_owner_account_b.mint == whirlpool.token_mint_b"),
  ("SwapV2", "token_vault_b", "address", "whirlpool.token_vault_b"),
  ("SwapV2", "oracle", "seeds", "[b\"oracle\", whirlpool.key().as_ref()]"),
  ("TwoHopSwapV2", "token_mint_input", "address", "whirlpool_one.input_token_mint(a_to_b_one)"),
  ("TwoHopSwapV2", "token_mint_intermediate", "address", "whirlpool_one.output_token_mint(a_to_b_one)"),
  ("TwoHopSwapV2", "token_mint_output", "address", "whirlpool_two.output_token_mint(a_to_b_two)"),
  ("TwoHopSwapV2", "token_program_input", "address", "*token_mint_input.to_account_info().owner"),
  ("TwoHopSwapV2", "token_program_intermediate", "address", "*token_mint_intermediate.to_account_info().owner"),
  ("TwoHopSwapV2", "token_program_output", "address", "*token_mint_output.to_account_info().owner"),
  ("TwoHopSwapV2", "token_owner_account_input", "constraint", "token_owner_account_input.mint == token_mint_input.key()"),
  ("TwoHopSwapV2", "token_vault_one_input", "address", "whirlpool_one.input_token_vault(a_to_b_one)"),
  ("TwoHopSwapV2", "token_vault_one_intermediate", "address", "whirlpool_one.output_token_vault(a_to_b_one)"),
  ("TwoHopSwapV2", "token_vault_two_intermediate", "address", "whirlpool_two.input_token_vault(a_to_b_two)"),
  ("TwoHopSwapV2", "token_vault_two_output", "address", "whirlpool_two.output_token_vault(a_to_b_two)"),
  ("TwoHopSwapV2", "token_owner_account_output", "constraint", "token_owner_account_output.mint == token_mint_output.key()"),
  ("TwoHopSwapV2", "oracle_one", "seeds", "[b\"oracle\", whirlpool_one.key().as_ref()]"),
  ("TwoHopSwapV2", "oracle_two", "seeds", "[b\"oracle\", whirlpool_two.key().as_ref()]"),
  -- the update authority recorded in the position / bundle token's metadata is the program's constant
  ("OpenPositionWithMetadata", "metadata_update_auth", "address", "WP_NFT_UPDATE_AUTH"),
  ("OpenPositionWithTokenExtensions", "metadata_update_auth", "address", "WP_NFT_UPDATE_AUTH"),
  ("InitializePositionBundleWithMetadata", "metadata_update_auth", "address", "WPB_NFT_UPDATE_AUTH")]

/-- every slot of every fund-moving accounts struct, with the reason it cannot be substituted -/
def slotRows : List (String × String × String) := [
  ("CollectFees", "whirlpool", "root"),
  ("CollectFees", "position_authority", "signer"),
  ("CollectFees", "position", "pinned"),
  ("CollectFees", "position_token_account", "pinned"),
  ("CollectFees", "token_owner_account_a", "pinned"),
  ("CollectFees", "token_vault_a", "pinned"),
  ("CollectFees", "token_owner_account_b", "pinned"),
  ("CollectFees", "token_vault_b", "pinned"),
  ("CollectFees", "token_program", "pinned"),
  ("CollectProtocolFees", "whirlpools_config", "root"),
  ("CollectProtocolFees", "whirlpool", "pinned"),
  ("CollectProtocolFees", "collect_protocol_fees_authority", "signer"),
  ("CollectProtocolFees", "token_vault_a", "pinned"),
  ("CollectProtocolFees", "token_vault_b", "pinned"),
  ("CollectProtocolFees", "token_destination_a", "pinned"),
  ("CollectProtocolFees", "token_destination_b", "pinned"),
  ("CollectProtocolFees", "token_program", "pinned"),
  ("CollectReward", "whirlpool", "root"),
  ("CollectReward", "position_authority", "signer"),
  ("CollectReward", "position", "pinned"),
  ("CollectReward", "position_token_account", "pinned"),
  ("CollectReward", "reward_owner_account", "pinned"),
  ("CollectReward", "reward_vault", "pinned"),
  ("CollectReward", "token_program", "pinned"),
  ("ModifyLiquidity", "whirlpool", "root"),
  ("ModifyLiquidity", "token_program", "pinned"),
  ("ModifyLiquidity", "position_authority", "signer"),
  ("ModifyLiquidity", "position", "pinned"),
  ("ModifyLiquidity", "position_token_account", "pinned"),
  ("ModifyLiquidity", "token_owner_account_a", "pinned"),
  ("ModifyLiquidity", "token_owner_account_b", "pinned"),
  ("ModifyLiquidity", "token_vault_a", "pinned"),
  ("ModifyLiquidity", "token_vault_b", "pinned"),
  ("ModifyLiquidity", "tick_array_lower", "loader"),
  ("ModifyLiquidity", "tick_array_upper", "loader"),
  ("SetRewardEmissions", "whirlpool", "root"),
  ("SetRewardEmissions", "reward_authority", "signer"),
  ("SetRewardEmissions", "reward_vault", "pinned"),
  ("Swap", "token_program", "pinned"),
  ("Swap", "token_authority", "signer"),
  ("Swap", "whirlpool", "root"),
  ("Swap", "token_owner_account_a", "pinned"),
  ("Swap", "token_vault_a", "pinned"),
  ("Swap", "token_owner_account_b", "pinned"),
  ("Swap", "token_vault_b", "pinned"),
  ("Swap", "tick_array_0", "loader"),
  ("Swap", "tick_array_1", "loader"),
  ("Swap", "tick_array_2", "loader"),
  ("Swap", "oracle", "pinned"),
  ("TwoHopSwap", "token_program", "pinned"),
  ("TwoHopSwap", "token_authority", "signer"),
  ("TwoHopSwap", "whirlpool_one", "root"),
  ("TwoHopSwap", "whirlpool_two", "root"),
  ("TwoHopSwap", "token_owner_account_one_a", "pinned"),
  ("TwoHopSwap", "token_vault_one_a", "pinned"),
  ("TwoHopSwap", "token_owner_account_one_b", "pinned"),
  ("TwoHopSwap", "token_vault_one_b", "pinned"),
  ("TwoHopSwap", "token_owner_account_two_a", "pinned"),
  ("TwoHopSwap", "token_vault_two_a", "pinned"),
  ("TwoHopSwap", "token_owner_account_two_b", "pinned"),
  ("TwoHopSwap", "token_vault_two_b", "pinned"),
  ("TwoHopSwap", "tick_array_one_0", "loader"),
  ("TwoHopSwap", "tick_array_one_1", "loader"),
  ("TwoHopSwap", "tick_array_one_2", "loader"),
  ("TwoHopSwap", "tick_array_two_0", "loader"),
  ("TwoHopSwap", "tick_array_two_1", "loader"),
  ("TwoHopSwap", "tick_array_two_2", "loader"),
  ("TwoHopSwap", "oracle_one", "pinned"),
  ("TwoHopSwap", "oracle_two", "pinned"),
  ("UpdateFeesAndRewards", "whirlpool", "root"),
  ("UpdateFeesAndRewards", "position", "pinned"),
  ("UpdateFeesAndRewards", "tick_array_lower", "loader"),
  ("UpdateFeesAndRewards", "tick_array_upper", "loader"),
  ("CollectFeesV2", "whirlpool", "root"),
  ("CollectFeesV2", "position_authority", "signer"),
  ("CollectFeesV2", "position", "pinned"),
  ("CollectFeesV2", "position_token_account", "pinned"),
  ("CollectFeesV2", "token_mint_a", "pinned"),
  ("CollectFeesV2", "token_mint_b", "pinned"),
  ("CollectFeesV2", "token_owner_account_a", "pinned"),
  ("CollectFeesV2", "token_vault_a", "pinned"),
  ("CollectFeesV2", "token_owner_account_b", "pinned"),
  ("CollectFeesV2", "token_vault_b", "pinned"),
  ("CollectFeesV2", "token_program_a", "pinned"),
  ("CollectFeesV2", "token_program_b", "pinned"),
  ("CollectFeesV2", "memo_program", "program"),
  ("CollectProtocolFeesV2", "whirlpools_config", "root"),
  ("CollectProtocolFeesV2", "whirlpool", "pinned"),
  ("CollectProtocolFeesV2", "collect_protocol_fees_authority", "signer"),
  ("CollectProtocolFeesV2", "token_mint_a", "pinned"),
  ("CollectProtocolFeesV2", "token_mint_b", "pinned"),
  ("CollectProtocolFeesV2", "token_vault_a", "pinned"),
  ("CollectProtocolFeesV2", "token_vault_b", "pinned"),
  ("CollectProtocolFeesV2", "token_destination_a", "pinned"),
  ("CollectProtocolFeesV2", "token_destination_b", "pinned"),
  ("CollectProtocolFeesV2", "token_program_a", "pinned"),
  ("CollectProtocolFeesV2", "token_program_b", "pinned"),
  ("CollectProtocolFeesV2", "memo_program", "program"),
  ("CollectRewardV2", "whirlpool", "root"),
  ("CollectRewardV2", "position_authority", "signer"),
  ("CollectRewardV2", "position", "pinned"),
  ("CollectRewardV2", "position_token_account", "pinned"),
  ("CollectRewardV2", "reward_owner_account", "pinned"),
  ("CollectRewardV2", "reward_mint", "pinned"),
  ("CollectRewardV2", "reward_vault", "pinned"),
  ("CollectRewardV2", "reward_token_program", "pinned"),
  ("CollectRewardV2", "memo_program", "program"),
  ("ModifyLiquidityV2", "whirlpool", "root"),
  ("ModifyLiquidityV2", "token_program_a", "pinned"),
  ("ModifyLiquidityV2", "token_program_b", "pinned"),
  ("ModifyLiquidityV2", "memo_program", "program"),
  ("ModifyLiquidityV2", "position_authority", "signer"),
  ("ModifyLiquidityV2", "position", "pinned"),
  ("ModifyLiquidityV2", "position_token_account", "pinned"),
  ("ModifyLiquidityV2", "token_mint_a", "pinned"),
  ("ModifyLiquidityV2", "token_mint_b", "pinned"),
  ("ModifyLiquidityV2", "token_owner_account_a", "pinned"),
  ("ModifyLiquidityV2", "token_owner_account_b", "pinned"),
  ("ModifyLiquidityV2", "token_vault_a", "pinned"),
  ("ModifyLiquidityV2", "token_vault_b", "pinned"),
  ("ModifyLiquidityV2", "tick_array_lower", "loader"),
  ("ModifyLiquidityV2", "tick_array_upper", "loader"),
  ("SetRewardEmissionsV2", "whirlpool", "root"),
  ("SetRewardEmissionsV2", "reward_authority", "signer"),
  ("SetRewardEmissionsV2", "reward_vault", "pinned"),
  ("SwapV2", "token_program_a", "pinned"),
  ("SwapV2", "token_program_b", "pinned"),
  ("SwapV2", "memo_program", "program"),
  ("SwapV2", "token_authority", "signer"),
  ("SwapV2", "whirlpool", "root"),
  ("SwapV2", "token_mint_a", "pinned"),
  ("SwapV2", "token_mint_b", "pinned"),
  ("SwapV2", "token_owner_account_a", "pinned"),
  ("SwapV2", "token_vault_a", "pinned"),
  ("SwapV2", "token_owner_account_b", "pinned"),
  ("SwapV2", "token_vault_b", "pinned"),
  ("SwapV2", "tick_array_0", "loader"),
  ("SwapV2", "tick_array_1", "loader"),
  ("SwapV2", "tick_array_2", "loader"),
  ("SwapV2", "oracle", "pinned"),
  ("TwoHopSwapV2", "whirlpool_one", "root"),
  ("TwoHopSwapV2", "whirlpool_two", "root"),
  ("TwoHopSwapV2", "token_mint_input", "pinned"),
  ("TwoHopSwapV2", "token_mint_intermediate", "pinned"),
  ("TwoHopSwapV2", "token_mint_output", "pinned"),
  ("TwoHopSwapV2", "token_program_input", "pinned"),
  ("TwoHopSwapV2", "token_program_intermediate", "pinned"),
  ("TwoHopSwapV2", "token_program_output", "pinned"),
  ("TwoHopSwapV2", "token_owner_account_input", "pinned"),
  ("TwoHopSwapV2", "token_vault_one_input", "pinned"),
  ("TwoHopSwapV2", "token_vault_one_intermediate", "pinned"),
  ("TwoHopSwapV2", "token_vault_two_intermediate", "pinned"),
  ("TwoHopSwapV2", "token_vault_two_output", "pinned"),
  ("TwoHopSwapV2", "token_owner_account_output", "pinned"),
  ("TwoHopSwapV2", "token_authority", "signer"),
  ("TwoHopSwapV2", "tick_array_one_0", "loader"),
  ("TwoHopSwapV2", "tick_array_one_1", "loader"),
  ("TwoHopSwapV2", "tick_array_one_2", "loader"),
  ("TwoHopSwapV2", "tick_array_two_0", "loader"),
  ("TwoHopSwapV2", "tick_array_two_1", "loader"),
  ("TwoHopSwapV2", "tick_array_two_2", "loader"),
  ("TwoHopSwapV2", "oracle_one", "pinned"),
  ("TwoHopSwapV2", "oracle_two", "pinned"),
  ("TwoHopSwapV2", "memo_program", "program")]

def loaderRows : List (String × String) := [
  ("instructions/increase_liquidity.rs", "TickArraysMut::load( &ctx.accounts.tick_array_lower, &ctx.accounts.tick_array_upper, &ctx.accounts.whirlpool.key(), )"),
  ("instructions/swap.rs", "OracleAccessor::new(whirlpool, ctx.accounts.oracle.to_account_info())"),
  ("instructions/swap.rs", "SparseSwapTickSequenceBuilder::new( vec![ ctx.accounts.tick_array_0.to_account_info(), ctx.accounts.tick_array_1.to_account_info(), ctx.accounts.tick_array_2.to_account_info(), ], None, )"),
  ("instructions/two_hop_swap.rs", "OracleAccessor::new(whirlpool_one, ctx.accounts.oracle_one.to_account_info())"),
  ("instructions/two_hop_swap.rs", "OracleAccessor::new(whirlpool_two, ctx.accounts.oracle_two.to_account_info())"),
  ("instructions/two_hop_swap.rs", "SparseSwapTickSequenceBuilder::new( vec![ ctx.accounts.tick_array_one_0.to_account_info(), ctx.accounts.tick_array_one_1.to_account_info(), ctx.accounts.tick_array_one_2.to_account_info(), ], None, )"),
  ("instructions/two_hop_swap.rs", "SparseSwapTickSequenceBuilder::new( vec![ ctx.accounts.tick_array_two_0.to_account_info(), ctx.accounts.tick_array_two_1.to_account_info(), ctx.accounts.tick_array_two_2.to_account_info(), ], None, )"),
  ("instructions/update_fees_and_rewards.rs", "load_tick_array(&ctx.accounts.tick_array_lower, &whirlpool.key())"),
  ("instructions/update_fees_and_rewards.rs", "load_tick_array(&ctx.accounts.tick_array_upper, &whirlpool.key())"),
  ("instructions/v2/increase_liquidity.rs", "TickArraysMut::load( &ctx.accounts.tick_array_lower, &ctx.accounts.tick_array_upper, &ctx.accounts.whirlpool.key(), )"),
  ("instructions/v2/swap.rs", "OracleAccessor::new(whirlpool, ctx.accounts.oracle.to_account_info())"),
  ("instructions/v2/swap.rs", "SparseSwapTickSequenceBuilder::new( vec![ ctx.accounts.tick_array_0.to_account_info(), ctx.accounts.tick_array_1.to_account_info(), ctx.accounts.tick_array_2.to_account_info(), ], remaining_accounts.supplemental_tick_arrays, )"),
  ("instructions/v2/two_hop_swap.rs", "OracleAccessor::new(whirlpool_one, ctx.accounts.oracle_one.to_account_info())"),
  ("instructions/v2/two_hop_swap.rs", "OracleAccessor::new(whirlpool_two, ctx.accounts.oracle_two.to_account_info())"),
  ("instructions/v2/two_hop_swap.rs", "SparseSwapTickSequenceBuilder::new( vec![ ctx.accounts.tick_array_one_0.to_account_info(), ctx.accounts.tick_array_one_1.to_account_info(), ctx.accounts.tick_array_one_2.to_account_info(), ], remaining_accounts.supplemental_tick_arrays_one, )"),
  ("instructions/v2/two_hop_swap.rs", "SparseSwapTickSequenceBuilder::new( vec![ ctx.accounts.tick_array_two_0.to_account_info(), ctx.accounts.tick_array_two_1.to_account_info(), ctx.accounts.tick_array_two_2.to_account_info(), ], remaining_accounts.supplemental_tick_arrays_two, )")]

def twoHopRows : List (String × String) := [
  ("instructions/two_hop_swap.rs", "whirlpool_one.key() == whirlpool_two.key() => DuplicateTwoHopPool"),
  ("instructions/two_hop_swap.rs", "swap_one_output_mint != swap_two_input_mint => InvalidIntermediaryMint"),
  ("instructions/two_hop_swap.rs", "swap_calc_one_output != swap_calc_two_input => IntermediateTokenAmountMismatch"),
  ("instructions/v2/two_hop_swap.rs", "whirlpool_one.key() == whirlpool_two.key() => DuplicateTwoHopPool"),
  ("instructions/v2/two_hop_swap.rs", "swap_one_output_mint != swap_two_input_mint => InvalidIntermediaryMint"),
  ("instructions/v2/two_hop_swap.rs", "swap_calc_one_output != swap_calc_two_input => IntermediateTokenAmountMismatch")]

def pinoPinRows : List (String × String × String × String) := [
  ("pinocchio/instructions/decrease_liquidity.rs", "load_account_mut", "whirlpool_info", "MemoryMappedWhirlpool"),
  ("pinocchio/instructions/decrease_liquidity.rs", "load_account_mut", "position_info", "MemoryMappedPosition"),
  ("pinocchio/instructions/decrease_liquidity.rs", "verify_address", "position.whirlpool()", "whirlpool_info.key()"),
  ("pinocchio/instructions/decrease_liquidity.rs", "load_token_program_account", "position_token_account_info", "MemoryMappedTokenAccount"),
  ("pinocchio/instructions/decrease_liquidity.rs", "verify_constraint", "position_token_account.mint() == position.position_mint()", ""),
  ("pinocchio/instructions/decrease_liquidity.rs", "verify_constraint", "position_token_account.amount() == 1", ""),
  ("pinocchio/instructions/decrease_liquidity.rs", "verify_address", "token_vault_a_info.key()", "whirlpool.token_vault_a()"),
  ("pinocchio/instructions/decrease_liquidity.rs", "verify_address", "token_vault_b_info.key()", "whirlpool.token_vault_b()"),
  ("pinocchio/instructions/decrease_liquidity.rs", "core", "TickArraysMut::load( tick_array_lower_info, tick_array_upper_info, whirlpool_info.key(), )", ""),
  ("pinocchio/instructions/decrease_liquidity_v2.rs", "load_account_mut", "whirlpool_info", "MemoryMappedWhirlpool"),
  ("pinocchio/instructions/decrease_liquidity_v2.rs", "verify_address", "token_program_a_info.key()", "token_mint_a_info.owner()"),
  ("pinocchio/instructions/decrease_liquidity_v2.rs", "verify_address", "token_program_b_info.key()", "token_mint_b_info.owner()"),
  ("pinocchio/instructions/decrease_liquidity_v2.rs", "load_account_mut", "position_info", "MemoryMappedPosition"),
  ("pinocchio/instructions/decrease_liquidity_v2.rs", "verify_address", "position.whirlpool()", "whirlpool_info.key()"),
  ("pinocchio/instructions/decrease_liquidity_v2.rs", "load_token_program_account", "position_token_account_info", "MemoryMappedTokenAccount"),
  ("pinocchio/instructions/decrease_liquidity_v2.rs", "verify_constraint", "position_token_account.mint() == position.position_mint()", ""),
  ("pinocchio/instructions/decrease_liquidity_v2.rs", "verify_constraint", "position_token_account.amount() == 1", ""),
  ("pinocchio/instructions/decrease_liquidity_v2.rs", "verify_address", "token_mint_a_info.key()", "whirlpool.token_mint_a()"),
  ("pinocchio/instructions/decrease_liquidity_v2.rs", "verify_address", "token_mint_b_info.key()", "whirlpool.token_mint_b()"),
  ("pinocchio/instructions/decrease_liquidity_v2.rs", "verify_address", "token_vault_a_info.key()", "whirlpool.token_vault_a()"),
  ("pinocchio/instructions/decrease_liquidity_v2.rs", "verify_address", "token_vault_b_info.key()", "whirlpool.token_vault_b()"),
  ("pinocchio/instructions/decrease_liquidity_v2.rs", "core", "TickArraysMut::load( tick_array_lower_info, tick_array_upper_info, whirlpool_info.key(), )", ""),
  ("pinocchio/instructions/increase_liquidity.rs", "load_account_mut", "whirlpool_info", "MemoryMappedWhirlpool"),
  ("pinocchio/instructions/increase_liquidity.rs", "load_account_mut", "position_info", "MemoryMappedPosition"),
  ("pinocchio/instructions/increase_liquidity.rs", "verify_address", "position.whirlpool()", "whirlpool_info.key()"),
  ("pinocchio/instructions/increase_liquidity.rs", "load_token_program_account", "position_token_account_info", "MemoryMappedTokenAccount"),
  ("pinocchio/instructions/increase_liquidity.rs", "verify_constraint", "position_token_account.mint() == position.position_mint()", ""),
  ("pinocchio/instructions/increase_liquidity.rs", "verify_constraint", "position_token_account.amount() == 1", ""),
  ("pinocchio/instructions/increase_liquidity.rs", "verify_address", "token_vault_a_info.key()", "whirlpool.token_vault_a()"),
  ("pinocchio/instructions/increase_liquidity.rs", "verify_address", "token_vault_b_info.key()", "whirlpool.token_vault_b()"),
  ("pinocchio/instructions/increase_liquidity.rs", "core", "TickArraysMut::load( tick_array_lower_info, tick_array_upper_info, whirlpool_info.key(), )", ""),
  ("pinocchio/instructions/increase_liquidity_by_token_amounts_v2.rs", "load_account_mut", "whirlpool_info", "MemoryMappedWhirlpool"),
  ("pinocchio/instructions/increase_liquidity_by_token_amounts_v2.rs", "verify_address", "token_program_a_info.key()", "token_mint_a_info.owner()"),
  ("pinocchio/instructions/increase_liquidity_by_token_amounts_v2.rs", "verify_address", "token_program_b_info.key()", "token_mint_b_info.owner()"),
  ("pinocchio/instructions/increase_liquidity_by_token_amounts_v2.rs", "load_account_mut", "position_info", "MemoryMappedPosition"),
  ("pinocchio/instructions/increase_liquidity_by_token_amounts_v2.rs", "verify_address", "position.whirlpool()", "whirlpool_info.key()"),
  ("pinocchio/instructions/increase_liquidity_by_token_amounts_v2.rs", "load_token_program_account", "position_token_account_info", "MemoryMappedTokenAccount"),
  ("pinocchio/instructions/increase_liquidity_by_token_amounts_v2.rs", "verify_constraint", "position_token_account.mint() == position.position_mint()", ""),
  ("pinocchio/instructions/increase_liquidity_by_token_amounts_v2.rs", "verify_constraint", "position_token_account.amount() == 1", ""),
  ("pinocchio/instructions/increase_liquidity_by_token_amounts_v2.rs", "verify_address", "token_mint_a_info.key()", "whirlpool.token_mint_a()"),
  ("pinocchio/instructions/increase_liquidity_by_token_amounts_v2.rs", "verify_address", "token_mint_b_info.key()", "whirlpool.token_mint_b()"),
  ("pinocchio/instructions/increase_liquidity_by_token_amounts_v2.rs", "verify_address", "token_vault_a_info.key()", "whirlpool.token_vault_a()"),
  ("pinocchio/instructions/increase_liquidity_by_token_amounts_v2.rs", "verify_address", "token_vault_b_info.key()", "whirlpool.token_vault_b()"),
  ("pinocchio/instructions/increase_liquidity_by_token_amounts_v2.rs", "core", "TickArraysMut::load( tick_array_lower_info, tick_array_upper_info, whirlpool_info.key(), )", ""),
  ("pinocchio/instructions/increase_liquidity_v2.rs", "load_account_mut", "whirlpool_info", "MemoryMappedWhirlpool"),
  ("pinocchio/instructions/increase_liquidity_v2.rs", "verify_address", "token_program_a_info.key()", "token_mint_a_info.owner()"),
  ("pinocchio/instructions/increase_liquidity_v2.rs", "verify_address", "token_program_b_info.key()", "token_mint_b_info.owner()"),
  ("pinocchio/instructions/increase_liquidity_v2.rs", "load_account_mut", "position_info", "MemoryMappedPosition"),
  ("pinocchio/instructions/increase_liquidity_v2.rs", "verify_address", "position.whirlpool()", "whirlpool_info.key()"),
  ("pinocchio/instructions/increase_liquidity_v2.rs", "load_token_program_account", "position_token_account_info", "MemoryMappedTokenAccount"),
  ("pinocchio/instructions/increase_liquidity_v2.rs", "verify_constraint", "position_token_account.mint() == position.position_mint()", ""),
  ("pinocchio/instructions/increase_liquidity_v2.rs", "verify_constraint", "position_token_account.amount() == 1", ""),
  ("pinocchio/instructions/increase_liquidity_v2.rs", "verify_address", "token_mint_a_info.key()", "whirlpool.token_mint_a()"),
  ("pinocchio/instructions/increase_liquidity_v2.rs", "verify_address", "token_mint_b_info.key()", "whirlpool.token_mint_b()"),
  ("pinocchio/instructions/increase_liquidity_v2.rs", "verify_address", "token_vault_a_info.key()", "whirlpool.token_vault_a()"),
  ("pinocchio/instructions/increase_liquidity_v2.rs", "verify_address", "token_vault_b_info.key()", "whirlpool.token_vault_b()"),
  ("pinocchio/instructions/increase_liquidity_v2.rs", "core", "TickArraysMut::load( tick_array_lower_info, tick_array_upper_info, whirlpool_info.key(), )", ""),
  ("pinocchio/instructions/reposition_liquidity_v2.rs", "load_account_mut", "whirlpool_info", "MemoryMappedWhirlpool"),
  ("pinocchio/instructions/reposition_liquidity_v2.rs", "verify_address", "token_program_a_info.key()", "token_mint_a_info.owner()"),
  ("pinocchio/instructions/reposition_liquidity_v2.rs", "verify_address", "token_program_b_info.key()", "token_mint_b_info.owner()"),
  ("pinocchio/instructions/reposition_liquidity_v2.rs", "load_account_mut", "position_account_info", "MemoryMappedPosition"),
  ("pinocchio/instructions/reposition_liquidity_v2.rs", "verify_address", "position.whirlpool()", "whirlpool_info.key()"),
  ("pinocchio/instructions/reposition_liquidity_v2.rs", "load_token_program_account", "position_token_account_info", "MemoryMappedTokenAccount"),
  ("pinocchio/instructions/reposition_liquidity_v2.rs", "verify_constraint", "position_token_account.mint() == position.position_mint()", ""),
  ("pinocchio/instructions/reposition_liquidity_v2.rs", "verify_constraint", "position_token_account.amount() == 1", ""),
  ("pinocchio/instructions/reposition_liquidity_v2.rs", "verify_address", "token_mint_a_info.key()", "whirlpool.token_mint_a()"),
  ("pinocchio/instructions/reposition_liquidity_v2.rs", "verify_address", "token_mint_b_info.key()", "whirlpool.token_mint_b()"),
  ("pinocchio/instructions/reposition_liquidity_v2.rs", "verify_address", "token_vault_a_info.key()", "whirlpool.token_vault_a()"),
  ("pinocchio/instructions/reposition_liquidity_v2.rs", "verify_address", "token_vault_b_info.key()", "whirlpool.token_vault_b()")]

/-- the fund-moving accounts structs covered by the slot table -/
def fundMoving : List String :=
  ["Swap", "SwapV2", "TwoHopSwap", "TwoHopSwapV2", "CollectFees", "CollectFeesV2", "CollectReward", "CollectRewardV2",
   "CollectProtocolFees", "CollectProtocolFeesV2", "ModifyLiquidity", "ModifyLiquidityV2", "UpdateFeesAndRewards",
   "SetRewardEmissions", "SetRewardEmissionsV2"]

def pinOk (r : String × String × String × String) : Bool := hasAttr anchorSpecs r.1 r.2.1 r.2.2.1 r.2.2.2

def slotOk (r : String × String × String) : Bool :=
  match findSpec anchorSpecs r.1 with
  | none => false
  | some s =>
    match findField s r.2.1 with
    | none => false
    | some f =>
      if r.2.2 == "signer" then f.kind == "Signer"
      else if r.2.2 == "pinned" then pinRows.any fun p => p.1 == r.1 && p.2.1 == r.2.1
      else if r.2.2 == "program" then f.kind == "Program" || f.kind == "Interface" || f.kind == "Sysvar"
      else if r.2.2 == "root" then f.kind == "Account" && (f.ty == "Whirlpool" || f.ty == "WhirlpoolsConfig")
      else if r.2.2 == "loader" then f.kind == "UncheckedAccount"
      else false

/-- the regenerated struct has exactly the slots of the table (no unlisted slot) -/
def slotsComplete (spec : String) : Bool :=
  match findSpec anchorSpecs spec with
  | none => false
  | some s => s.fields.all fun f => slotRows.any fun r => r.1 == spec && r.2.1 == f.name

def loaderOk (r : String × String) : Bool :=
  match handlerGuards.find? (·.1 == r.1) with
  | none => false
  | some (_, gs) => gs.any fun g => g.1 == "loader" && g.2 == r.2

def twoHopOk (r : String × String) : Bool :=
  match handlerGuards.find? (·.1 == r.1) with
  | none => false
  | some (_, gs) =>
    -- the rejection is present and precedes the state-changing effect
    let before := gs.takeWhile fun g => g.1 != "effect"
    before.any fun g => g.1 == "reject" && g.2 == r.2

def pinoPinOk (r : String × String × String × String) : Bool :=
  match pinoSpecs.find? (·.file == r.1) with
  | none => false
  | some s =>
    if r.2.1 == "core" then s.core.any (· == r.2.2.1)
    else s.checks.any fun k => k.1 == r.2.1 && k.2.1 == r.2.2.1 && k.2.2 == r.2.2.2

/-- the Pinocchio prologue labels every slot it reads as mutable where the handler writes to it -/
def pinoLabelsOk : Bool :=
  pinoSpecs.all fun s =>
    s.labels.any (fun l => l.1 == "whirlpool_info" && l.2 == "next_mut") &&
    s.labels.any (fun l => l.1 == "token_vault_a_info" && l.2 == "next_mut") &&
    s.labels.any (fun l => l.1 == "token_vault_b_info" && l.2 == "next_mut")

/-- GENERIC back-reference rule over EVERY regenerated accounts struct (fund-moving or not): wherever an existing
    position account and a whirlpool account appear together, the position is tied to that pool by `has_one`
    (a struct that CREATES the position — `init` — writes the link itself).  Seed C15b_8 (reset_position_range
    without the link) showed that the per-instruction tables above covered fund-moving instructions only. -/
def positionLinkOk (s : AccSpec) : Bool :=
  match findField s "position", findField s "whirlpool" with
  | some p, some _ =>
    p.attrs.any (fun a => a.1 == "init") || p.attrs.any (fun a => a.1 == "has_one" && a.2.1 == "whirlpool")
  | _, _ => true

/-- likewise: wherever a position and its token account appear together (and the token account is not being
    created together with the position), the token account is tied to the position's mint and holds exactly one token -/
def positionTokenLinkOk (s : AccSpec) : Bool :=
  match findField s "position", findField s "position_token_account" with
  | some ps, some t =>
    ps.attrs.any (fun a => a.1 == "init") || t.attrs.any (fun a => a.1 == "init") ||
    (t.attrs.any (fun a => a.1 == "constraint" && a.2.1 == "position_token_account.mint == position.position_mint") &&
     t.attrs.any (fun a => a.1 == "constraint" && a.2.1 == "position_token_account.amount == 1"))
  | _, _ => true

/-- an account slot that the instruction itself creates (Anchor `init`, or a fresh keypair that signs) -/
def created (f : AccField) : Bool := f.kind == "Signer" || f.attrs.any (fun a => a.1 == "init")

def hasAttr (f : AccField) (kw ex : String) : Bool := f.attrs.any fun a => a.1 == kw && a.2.1 == ex

/-- `b` appears together with `a` only created, or tied to it by one of the listed attributes -/
def linkOk (a b : String) (ties : List (String × String)) (s : AccSpec) : Bool :=
  match findField s a, findField s b with
  | some _, some f => created f || ties.any fun t => hasAttr f t.1 t.2
  | _, _ => true

/-- the generic back-reference rules, over EVERY regenerated accounts struct:
    a pool's token vaults and reward vaults by address; fee tiers, adaptive fee tiers, config extensions, token
    badges and pools by `has_one` to the config they are used with; the oracle by `has_one` or by its seeds; a
    bundle's token account by mint and amount; a bundled position by seeds over the bundle's mint -/
def backRefsOk (s : AccSpec) : Bool :=
  linkOk "whirlpool" "token_vault_a" [("address", "whirlpool.token_vault_a"), ("constraint", "token_vault_a.key() == whirlpool.token_vault_a")] s &&
  linkOk "whirlpool" "token_vault_b" [("address", "whirlpool.token_vault_b"), ("constraint", "token_vault_b.key() == whirlpool.token_vault_b")] s &&
  linkOk "whirlpool" "reward_vault" [("address", "whirlpool.reward_infos[reward_index as usize].vault")] s &&
  linkOk "whirlpools_config" "fee_tier" [("has_one", "whirlpools_config")] s &&
  linkOk "whirlpools_config" "adaptive_fee_tier" [("has_one", "whirlpools_config")] s &&
  linkOk "whirlpools_config" "whirlpools_config_extension" [("has_one", "whirlpools_config")] s &&
  linkOk "whirlpools_config" "token_badge" [("has_one", "whirlpools_config")] s &&
  linkOk "whirlpools_config" "whirlpool" [("has_one", "whirlpools_config")] s &&
  linkOk "whirlpool" "oracle" [("has_one", "whirlpool"), ("seeds", "[b\"oracle\", whirlpool.key().as_ref()]")] s &&
  linkOk "position_bundle" "bundled_position"
    [("seeds", "[ b\"bundled_position\".as_ref(), position_bundle.position_bundle_mint.key().as_ref(), bundle_index.to_string().as_bytes() ]")] s &&
  (match findField s "position_bundle", findField s "position_bundle_token_account" with
   | some _, some f =>
     created f || (hasAttr f "constraint" "position_bundle_token_account.mint == position_bundle.position_bundle_mint" &&
                   hasAttr f "constraint" "position_bundle_token_account.amount == 1")
   | _, _ => true)

theorem back_references_everywhere : anchorSpecs.all backRefsOk = true := by decide +kernel

-- non-vacuity: how many structs each rule speaks about
example : ((anchorSpecs.filter fun s => (findField s "whirlpool").isSome && (findField s "token_vault_a").isSome).length,
           (anchorSpecs.filter fun s => (findField s "whirlpool").isSome && (findField s "reward_vault").isSome).length,
           (anchorSpecs.filter fun s => (findField s "whirlpools_config").isSome && (findField s "whirlpool").isSome).length,
           (anchorSpecs.filter fun s => (findField s "whirlpool").isSome && (findField s "oracle").isSome).length,
           (anchorSpecs.filter fun s => (findField s "position_bundle").isSome && (findField s "position_bundle_token_account").isSome).length)
    = (12, 6, 9, 4, 5) := by decide +kernel

/-- PDA identity and the remaining pinning attributes (measured by tools/table_mutants.py: these were the
    property-relevant attributes whose deletion no theorem noticed): every `seeds` attribute of every reachable
    struct — the address of a pool, position, tick array, fee tier, oracle, bundle, token badge, config extension
    and lock config IS its identity —, `position_mint = position.position_mint`, the bundle's mint, the lock
    config's and the transfer destination's ties, the fee tier's spacing, the adaptive-tier requirement of the
    delegated setter, and `token program = owner of the mint` for the two-program interface slots.
    (Left out on purpose: payer signatures, `address` attributes that repeat what the `Program<T>` type already
    fixes, the Metaplex update authority, and the three Anchor structs the entrypoint never reaches.) -/
def goldenRows : List (String × String × String × String) := [
  ("InitializeAdaptiveFeeTier", "adaptive_fee_tier", "seeds", "[ b\"fee_tier\", whirlpools_config.key().as_ref(), fee_tier_index.to_le_bytes().as_ref() ]"),
  ("InitializePoolWithAdaptiveFee", "token_badge_a", "seeds", "[b\"token_badge\", whirlpools_config.key().as_ref(), token_mint_a.key().as_ref()]"),
  ("InitializePoolWithAdaptiveFee", "token_badge_b", "seeds", "[b\"token_badge\", whirlpools_config.key().as_ref(), token_mint_b.key().as_ref()]"),
  ("InitializePoolWithAdaptiveFee", "whirlpool", "seeds", "[ b\"whirlpool\".as_ref(), whirlpools_config.key().as_ref(), token_mint_a.key().as_ref(), token_mint_b.key().as_ref(), adaptive_fee_tier.fee_tier_index.to_le_bytes().as_ref() ]"),
  ("InitializePoolWithAdaptiveFee", "oracle", "seeds", "[b\"oracle\", whirlpool.key().as_ref()]"),
  ("InitializePoolWithAdaptiveFee", "token_program_a", "address", "*token_mint_a.to_account_info().owner"),
  ("InitializePoolWithAdaptiveFee", "token_program_b", "address", "*token_mint_b.to_account_info().owner"),
  ("SetFeeRateByDelegatedFeeAuthority", "whirlpool", "constraint", "whirlpool.is_initialized_with_adaptive_fee_tier()"),
  ("CloseBundledPosition", "bundled_position", "seeds", "[ b\"bundled_position\".as_ref(), position_bundle.position_bundle_mint.key().as_ref(), bundle_index.to_string().as_bytes() ]"),
  ("ClosePosition", "position", "seeds", "[b\"position\".as_ref(), position_mint.key().as_ref()]"),
  ("ClosePosition", "position_mint", "address", "position.position_mint"),
  ("ClosePositionWithTokenExtensions", "position", "seeds", "[b\"position\".as_ref(), position_mint.key().as_ref()]"),
  ("ClosePositionWithTokenExtensions", "position_mint", "address", "position.position_mint"),
  ("DeletePositionBundle", "position_bundle_mint", "address", "position_bundle.position_bundle_mint"),
  ("InitializeDynamicTickArray", "tick_array", "seeds", "[b\"tick_array\", whirlpool.key().as_ref(), start_tick_index.to_string().as_bytes()]"),
  ("InitializeFeeTier", "fee_tier", "seeds", "[b\"fee_tier\", config.key().as_ref(), tick_spacing.to_le_bytes().as_ref()]"),
  ("InitializePool", "whirlpool", "seeds", "[ b\"whirlpool\".as_ref(), whirlpools_config.key().as_ref(), token_mint_a.key().as_ref(), token_mint_b.key().as_ref(), tick_spacing.to_le_bytes().as_ref() ]"),
  ("InitializePool", "fee_tier", "constraint", "fee_tier.tick_spacing == tick_spacing"),
  ("InitializePositionBundle", "position_bundle", "seeds", "[b\"position_bundle\".as_ref(), position_bundle_mint.key().as_ref()]"),
  ("InitializePositionBundleWithMetadata", "position_bundle", "seeds", "[b\"position_bundle\".as_ref(), position_bundle_mint.key().as_ref()]"),
  ("InitializeTickArray", "tick_array", "seeds", "[b\"tick_array\", whirlpool.key().as_ref(), start_tick_index.to_string().as_bytes()]"),
  ("LockPosition", "position", "seeds", "[b\"position\".as_ref(), position_mint.key().as_ref()]"),
  ("LockPosition", "position_mint", "address", "position.position_mint"),
  ("LockPosition", "lock_config", "seeds", "[b\"lock_config\".as_ref(), position.key().as_ref()]"),
  ("OpenBundledPosition", "bundled_position", "seeds", "[ b\"bundled_position\".as_ref(), position_bundle.position_bundle_mint.key().as_ref(), bundle_index.to_string().as_bytes() ]"),
  ("OpenPosition", "position", "seeds", "[b\"position\".as_ref(), position_mint.key().as_ref()]"),
  ("OpenPositionWithMetadata", "position", "seeds", "[b\"position\".as_ref(), position_mint.key().as_ref()]"),
  ("OpenPositionWithTokenExtensions", "position", "seeds", "[b\"position\".as_ref(), position_mint.key().as_ref()]"),
  ("Swap", "oracle", "seeds", "[b\"oracle\", whirlpool.key().as_ref()]"),
  ("TransferLockedPosition", "position", "seeds", "[b\"position\".as_ref(), position_mint.key().as_ref()]"),
  ("TransferLockedPosition", "position_mint", "address", "position.position_mint"),
  ("TransferLockedPosition", "destination_token_account", "constraint", "destination_token_account.mint == position.position_mint"),
  ("TransferLockedPosition", "destination_token_account", "constraint", "destination_token_account.key() != position_token_account.key()"),
  ("TransferLockedPosition", "lock_config", "has_one", "position"),
  ("TwoHopSwap", "oracle_one", "seeds", "[b\"oracle\", whirlpool_one.key().as_ref()]"),
  ("TwoHopSwap", "oracle_two", "seeds", "[b\"oracle\", whirlpool_two.key().as_ref()]"),
  ("CollectFeesV2", "token_program_a", "address", "*token_mint_a.to_account_info().owner"),
  ("CollectFeesV2", "token_program_b", "address", "*token_mint_b.to_account_info().owner"),
  ("CollectProtocolFeesV2", "token_program_a", "address", "*token_mint_a.to_account_info().owner"),
  ("CollectProtocolFeesV2", "token_program_b", "address", "*token_mint_b.to_account_info().owner"),
  ("CollectRewardV2", "reward_token_program", "address", "*reward_mint.to_account_info().owner"),
  ("DeleteTokenBadge", "token_badge", "seeds", "[ b\"token_badge\", whirlpools_config.key().as_ref(), token_mint.key().as_ref(), ]"),
  ("InitializeConfigExtension", "config_extension", "seeds", "[ b\"config_extension\", config.key().as_ref(), ]"),
  ("InitializePoolV2", "token_badge_a", "seeds", "[b\"token_badge\", whirlpools_config.key().as_ref(), token_mint_a.key().as_ref()]"),
  ("InitializePoolV2", "token_badge_b", "seeds", "[b\"token_badge\", whirlpools_config.key().as_ref(), token_mint_b.key().as_ref()]"),
  ("InitializePoolV2", "whirlpool", "seeds", "[ b\"whirlpool\".as_ref(), whirlpools_config.key().as_ref(), token_mint_a.key().as_ref(), token_mint_b.key().as_ref(), tick_spacing.to_le_bytes().as_ref() ]"),
  ("InitializePoolV2", "fee_tier", "constraint", "fee_tier.tick_spacing == tick_spacing"),
  ("InitializePoolV2", "token_program_a", "address", "*token_mint_a.to_account_info().owner"),
  ("InitializePoolV2", "token_program_b", "address", "*token_mint_b.to_account_info().owner"),
  ("InitializeRewardV2", "reward_token_badge", "seeds", "[b\"token_badge\", whirlpool.whirlpools_config.as_ref(), reward_mint.key().as_ref()]"),
  ("InitializeRewardV2", "reward_token_program", "address", "*reward_mint.to_account_info().owner"),
  ("InitializeTokenBadge", "token_badge", "seeds", "[ b\"token_badge\", whirlpools_config.key().as_ref(), token_mint.key().as_ref(), ]"),
  ("SwapV2", "token_program_a", "address", "*token_mint_a.to_account_info().owner"),
  ("SwapV2", "token_program_b", "address", "*token_mint_b.to_account_info().owner"),
  ("SwapV2", "oracle", "seeds", "[b\"oracle\", whirlpool.key().as_ref()]"),
  ("TwoHopSwapV2", "token_program_input", "address", "*token_mint_input.to_account_info().owner"),
  ("TwoHopSwapV2", "token_program_intermediate", "address", "*token_mint_intermediate.to_account_info().owner"),
  ("TwoHopSwapV2", "token_program_output", "address", "*token_mint_output.to_account_info().owner"),
  ("TwoHopSwapV2", "oracle_one", "seeds", "[b\"oracle\", whirlpool_one.key().as_ref()]"),
  ("TwoHopSwapV2", "oracle_two", "seeds", "[b\"oracle\", whirlpool_two.key().as_ref()]")]

def goldenOk (r : String × String × String × String) : Bool :=
  match findSpec anchorSpecs r.1 with
  | none => false
  | some s => match findField s r.2.1 with
    | none => false
    | some f => hasAttr f r.2.2.1 r.2.2.2

theorem golden_rows_met : goldenRows.all goldenOk = true := by decide +kernel

theorem position_links_everywhere : anchorSpecs.all positionLinkOk = true := by decide +kernel
theorem position_token_links_everywhere : anchorSpecs.all positionTokenLinkOk = true := by decide +kernel

-- the rule is not vacuous: thirteen structs carry both slots (ten existing positions, three creations)
example : (anchorSpecs.filter fun s => (findField s "position").isSome && (findField s "whirlpool").isSome).length = 13 := by
  decide +kernel

/-- C15(T1): every pinning attribute required is present in the code. -/
theorem pin_rows_met : pinRows.all pinOk = true := by decide +kernel
/-- C15(T2): every slot is of the stated category … -/
theorem slot_rows_met : slotRows.all slotOk = true := by decide +kernel
/-- C15(T3): … and there is no slot outside the table. -/
theorem slots_complete : fundMoving.all slotsComplete = true := by decide +kernel
/-- C15(T4): the handlers load the tick arrays / oracle through the validating loaders. -/
theorem loader_rows_met : loaderRows.all loaderOk = true := by decide +kernel
/-- C15(T5): two-hop swaps reject identical pools, a mismatching intermediate mint and differing
    intermediate amounts before any state change. -/
theorem two_hop_rows_met : twoHopRows.all twoHopOk = true := by decide +kernel
/-- C15(T6): the Pinocchio handlers pin position, position token account, mints, vaults, token
    programs and load the tick arrays against the pool key. -/
theorem pino_pin_rows_met : pinoPinRows.all pinoPinOk = true := by decide +kernel
theorem pino_labels_met : pinoLabelsOk = true := by decide +kernel

/-- semantic reading of a met pin row: acceptance forces the pinned relation -/
theorem pin_enforced (r : String × String × String × String) (hr : pinOk r = true) (env : Env) :
    ∃ s f e, findSpec anchorSpecs r.1 = some s ∧ findField s r.2.1 = some f ∧
      (accepts s env → holdsAttr env f.name (r.2.2.1, r.2.2.2, e)) := by
  obtain ⟨s, f, hs, hf, e, hmem⟩ := hasAttr_sound _ _ _ _ _ hr
  refine ⟨s, f, e, hs, hf, ?_⟩
  intro hacc
  exact (hacc f (findField_mem s r.2.1 f hf).1).2 _ hmem

/-- instance: the vault of a swap must be the pool's vault for that token -/
theorem swap_vault_a_pinned (env : Env) :
    ∃ s, findSpec anchorSpecs "SwapV2" = some s ∧
      (accepts s env → env.key "token_vault_a" = env.evalKey "whirlpool.token_vault_a") := by
  obtain ⟨s, f, e, hs, hf, h⟩ := pin_enforced ("SwapV2", "token_vault_a", "address", "whirlpool.token_vault_a") (by decide +kernel) env
  refine ⟨s, hs, fun hacc => ?_⟩
  have := h hacc
  simp only [holdsAttr] at this
  rw [(findField_mem s _ f hf).2] at this
  exact this

end WP.C15
