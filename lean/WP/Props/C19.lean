import WP.Model.Admission
import WP.Gen.WriteSites
/-
  Property C19 — pools exist only with in-bound parameters and over supported token mints.

  (1) setters and initialisation reject out-of-bound values (theorems about the model, tied by the
      families `setfee`, `initpool`, `afc`);
  (2) the bounded fields are written ONLY inside those checked functions: the inventory of write
      sites is regenerated from the whole source tree on every run and must equal the expected set;
  (3) the adaptive-fee constants accepted by `validate_constants` satisfy the published rules;
  (4) the mint admission function equals the published table for ALL extension lists: an accepted
      Token-2022 mint is not the native mint, has no un-badged freeze authority, and every
      extension in its TLV data is on the supported list, badge-gated ones only with a badge,
      non-transferable / unknown ones never (`admit_sound`), for well-formed and truncated TLV.
  NOT proved: that the swap keeps the price within bounds (C03 `PriceBounded`).
-/
namespace WP.C19
open WP WP.Gen

theorem fee_rate_bound (r v : Nat) (h : updateFeeRate r = .ok v) : v = r ∧ v ≤ MAX_FEE_RATE := by
  unfold updateFeeRate at h
  split at h
  · cases h
  · simp only [Except.ok.injEq] at h; subst h; exact ⟨rfl, by omega⟩

theorem protocol_fee_rate_bound (r v : Nat) (h : updateProtocolFeeRate r = .ok v) : v = r ∧ v ≤ MAX_PROTOCOL_FEE_RATE := by
  unfold updateProtocolFeeRate at h
  split at h
  · cases h
  · simp only [Except.ok.injEq] at h; subst h; exact ⟨rfl, by omega⟩

/-- C19(a): a pool can be initialised only with canonical mint order, an in-bounds price, non-zero
    tick spacing, fee rate ≤ 6% and protocol fee rate ≤ 25%. -/
theorem init_pool_bounds (ma mb price ts fr pr : Nat) (p : PoolD)
    (h : initializePoolChecks ma mb price ts fr pr = .ok p) :
    ma < mb ∧ MIN_SQRT_PRICE_X64 ≤ p.price ∧ p.price ≤ MAX_SQRT_PRICE_X64 ∧ p.ts ≠ 0 ∧
    p.feeRate ≤ MAX_FEE_RATE ∧ p.protoRate ≤ MAX_PROTOCOL_FEE_RATE ∧ p.tick = ti p.price := by
  unfold initializePoolChecks at h
  by_cases c1 : ma ≥ mb
  · rw [if_pos c1] at h; cases h
  · rw [if_neg c1] at h
    by_cases c2 : (!(decide (MIN_SQRT_PRICE_X64 ≤ price) && decide (price ≤ MAX_SQRT_PRICE_X64))) = true
    · rw [if_pos c2] at h; cases h
    · rw [if_neg c2] at h
      by_cases c3 : ts = 0
      · rw [if_pos c3] at h; cases h
      · rw [if_neg c3] at h
        cases hf : updateFeeRate fr with
        | error e => rw [hf] at h; cases h
        | ok f =>
          rw [hf] at h
          cases hp : updateProtocolFeeRate pr with
          | error e => rw [hp] at h; cases h
          | ok q =>
            rw [hp] at h
            simp only [Except.ok.injEq] at h
            subst h
            simp at c2
            exact ⟨by omega, c2.1, c2.2, c3, (fee_rate_bound _ _ hf).2, (protocol_fee_rate_bound _ _ hp).2, rfl⟩

/-- C19(b): accepted adaptive-fee constants satisfy the published validity rules. -/
theorem validate_constants_spec (ts : Nat) (c : AfConstants) (h : validateConstants ts c = true) :
    1 ≤ c.filterPeriod ∧ c.filterPeriod < c.decayPeriod ∧ c.controlFactor < ADAPTIVE_FEE_CONTROL_FACTOR_DENOMINATOR ∧
    c.maxVolAcc * c.groupSize ≤ 4294967295 ∧ c.reductionFactor < REDUCTION_FACTOR_DENOMINATOR ∧
    1 ≤ c.groupSize ∧ c.groupSize ≤ ts ∧ ts % c.groupSize = 0 ∧
    1 ≤ c.majorSwapThresholdTicks ∧ c.majorSwapThresholdTicks ≤ ts * TICK_ARRAY_SIZE := by
  unfold validateConstants at h
  by_cases c1 : c.filterPeriod = 0
  · simp [c1] at h
  · rw [if_neg c1] at h
    by_cases c2 : (decide (c.decayPeriod = 0) || decide (c.decayPeriod ≤ c.filterPeriod)) = true
    · rw [if_pos c2] at h; cases h
    · rw [if_neg c2] at h
      by_cases c3 : c.controlFactor ≥ ADAPTIVE_FEE_CONTROL_FACTOR_DENOMINATOR
      · rw [if_pos c3] at h; cases h
      · rw [if_neg c3] at h
        by_cases c4 : c.maxVolAcc * c.groupSize > 4294967295
        · rw [if_pos c4] at h; cases h
        · rw [if_neg c4] at h
          by_cases c5 : c.reductionFactor ≥ REDUCTION_FACTOR_DENOMINATOR
          · rw [if_pos c5] at h; cases h
          · rw [if_neg c5] at h
            by_cases c6 : (decide (c.groupSize = 0) || decide (c.groupSize > ts) || decide (ts % c.groupSize ≠ 0)) = true
            · rw [if_pos c6] at h; cases h
            · rw [if_neg c6] at h
              by_cases c7 : (decide (c.majorSwapThresholdTicks = 0) || decide (c.majorSwapThresholdTicks > ts * TICK_ARRAY_SIZE)) = true
              · rw [if_pos c7] at h; cases h
              · simp at c2 c6 c7
                refine ⟨by omega, by omega, by omega, by omega, by omega, by omega, by omega, c6.2, by omega, by omega⟩

/-! ### write-site inventory (T) -/

/-- the ONLY functions allowed to assign the bounded fields -/
def expectedWriteSites : List (String × String × String) := [
  ("adaptive_fee_constants", "state/oracle.rs", "initialize_adaptive_fee_constants"),
  ("adaptive_fee_control_factor", "state/adaptive_fee_tier.rs", "update_adaptive_fee_constants"),
  ("adaptive_fee_variables", "state/oracle.rs", "reset_adaptive_fee_variables"),
  ("adaptive_fee_variables", "state/oracle.rs", "update_adaptive_fee_variables"),
  ("decay_period", "state/adaptive_fee_tier.rs", "update_adaptive_fee_constants"),
  ("default_base_fee_rate", "state/adaptive_fee_tier.rs", "update_default_base_fee_rate"),
  ("default_fee_rate", "state/fee_tier.rs", "update_default_fee_rate"),
  ("default_protocol_fee_rate", "state/config.rs", "update_default_protocol_fee_rate"),
  ("fee_rate", "state/whirlpool.rs", "update_fee_rate"),
  ("filter_period", "state/adaptive_fee_tier.rs", "update_adaptive_fee_constants"),
  ("major_swap_threshold_ticks", "state/adaptive_fee_tier.rs", "update_adaptive_fee_constants"),
  ("max_volatility_accumulator", "state/adaptive_fee_tier.rs", "update_adaptive_fee_constants"),
  ("protocol_fee_rate", "state/whirlpool.rs", "update_protocol_fee_rate"),
  ("reduction_factor", "state/adaptive_fee_tier.rs", "update_adaptive_fee_constants"),
  ("sqrt_price", "state/whirlpool.rs", "initialize"),
  ("sqrt_price", "state/whirlpool.rs", "update_after_swap"),
  ("tick_current_index", "state/whirlpool.rs", "initialize"),
  ("tick_current_index", "state/whirlpool.rs", "update_after_swap"),
  ("tick_group_size", "state/adaptive_fee_tier.rs", "update_adaptive_fee_constants"),
  ("tick_spacing", "state/adaptive_fee_tier.rs", "initialize"),
  ("tick_spacing", "state/fee_tier.rs", "initialize"),
  ("tick_spacing", "state/whirlpool.rs", "initialize"),
  ("trade_enable_timestamp", "state/oracle.rs", "initialize")]

/-- C19(c): no function other than the checked setters / initialisers / the swap commit writes a
    bounded field anywhere in the program source (regenerated on every run). -/
theorem write_sites_exact : writeSites = expectedWriteSites := by decide +kernel

/-! ### mint admission -/

/-- the published table: what an accepted extension list looks like -/
def extOk (freeze badge : Bool) (tlv : List Nat) (all : List (Nat × Nat × Nat)) (e : Nat × Nat × Nat) : Prop :=
  match extClass e.1 with
  | .supported => True
  | .badgeGated => badge = true
  | .defaultState => badge = true ∧
      (∃ off len, all.find? (fun x => x.1 == 6) = some (6, off, len) ∧ len = 1 ∧ (tlv.getD off 0 = 1 ∨ freeze = true))
  | .never => False

theorem admitExts_sound (tlv : List Nat) (freeze badge : Bool) (all : List (Nat × Nat × Nat)) :
    ∀ l, admitExts tlv freeze badge all l = .ok true → ∀ e ∈ l, extOk freeze badge tlv all e := by
  intro l
  induction l with
  | nil => intro _ e he; cases he
  | cons hd tl ih =>
    intro h e he
    obtain ⟨ty, off, len⟩ := hd
    unfold admitExts at h
    have key : extOk freeze badge tlv all (ty, off, len) ∧ admitExts tlv freeze badge all tl = .ok true := by
      unfold extOk
      cases hc : extClass ty with
      | supported => simp only [hc] at h ⊢; exact ⟨trivial, h⟩
      | badgeGated =>
        simp only [hc] at h ⊢
        cases badge with
        | false => simp at h
        | true => simp at h; exact ⟨rfl, h⟩
      | defaultState =>
        simp only [hc] at h ⊢
        cases badge with
        | false => simp at h
        | true =>
          simp only [Bool.not_true, Bool.false_eq_true, if_false] at h
          cases hf : all.find? (fun x => x.1 == 6) with
          | none => rw [hf] at h; cases h
          | some r =>
            obtain ⟨t6, o6, l6⟩ := r
            rw [hf] at h
            simp only [] at h
            have ht6 : t6 = 6 := by
              have := List.find?_some hf
              simpa using this
            by_cases c1 : l6 ≠ 1
            · rw [if_pos c1] at h; cases h
            · rw [if_neg c1] at h
              have hl : l6 = 1 := by omega
              by_cases c2 : (decide (tlv.getD o6 0 ≠ 1) && !freeze) = true
              · rw [if_pos c2] at h; cases h
              · rw [if_neg c2] at h
                refine ⟨⟨rfl, o6, l6, by rw [ht6], hl, ?_⟩, h⟩
                cases freeze with
                | true => right; rfl
                | false => left; simp at c2; exact c2
      | never => simp only [hc] at h; cases h
    rcases List.mem_cons.mp he with e1 | e2
    · rw [e1]; exact key.1
    · exact ih key.2 e e2

/-- C19(d): a mint is admitted only if it is a plain SPL mint, or a Token-2022 mint that is not the
    native mint, whose freeze authority (if any) is covered by a token badge, whose TLV data parses,
    and ALL of whose extensions are supported — badge-gated ones only with a badge, a non-default
    account state only with a freeze authority, non-transferable / unknown ones never. -/
theorem admit_sound (token2022 native freeze badge : Bool) (tlv : List Nat)
    (h : isSupportedTokenMint token2022 native freeze badge tlv = .ok true) :
    token2022 = false ∨
    (native = false ∧ (freeze = true → badge = true) ∧
      ∃ exts, parseTlv tlv (tlv.length + 1) 0 [] = .ok exts ∧ ∀ e ∈ exts, extOk freeze badge tlv exts e) := by
  unfold isSupportedTokenMint at h
  cases token2022 with
  | false => left; rfl
  | true =>
    right
    simp only [Bool.not_true, Bool.false_eq_true, if_false] at h
    cases native with
    | true => simp at h
    | false =>
      simp only [Bool.false_eq_true, if_false] at h
      by_cases c : (freeze && !badge) = true
      · rw [if_pos c] at h; cases h
      · rw [if_neg c] at h
        cases hp : parseTlv tlv (tlv.length + 1) 0 [] with
        | error e => rw [hp] at h; cases h
        | ok exts =>
          rw [hp] at h
          refine ⟨rfl, ?_, exts, rfl, admitExts_sound tlv freeze badge exts exts h⟩
          intro hf; cases badge <;> simp [hf] at c ⊢

/-- C19(e): a token badge counts only if it is owned by the program and names this config and this mint. -/
theorem badge_spec (o c m : Bool) : isTokenBadgeInitialized o c m = true ↔ (o = true ∧ c = true ∧ m = true) := by
  unfold isTokenBadgeInitialized; cases o <;> cases c <;> cases m <;> simp

/-- what a successful `Whirlpool::initialize` records -/
theorem init_pool_fields (ma mb price ts fr pr : Nat) (p : PoolD)
    (h : initializePoolChecks ma mb price ts fr pr = .ok p) :
    p.price = price ∧ p.ts = ts ∧ p.feeRate = fr ∧ p.protoRate = pr := by
  unfold initializePoolChecks at h
  split at h
  · cases h
  · split at h
    · cases h
    · split at h
      · cases h
      · cases hf : updateFeeRate fr with
        | error e => rw [hf] at h; cases h
        | ok f =>
          rw [hf] at h
          cases hp : updateProtocolFeeRate pr with
          | error e => rw [hp] at h; cases h
          | ok q =>
            rw [hp] at h
            simp only [Except.ok.injEq] at h
            subst h
            exact ⟨rfl, rfl, (fee_rate_bound _ _ hf).1, (protocol_fee_rate_bound _ _ hp).1⟩

theorem verify_mint_sound (m : MintIn) (u : Unit) (hm : verifySupportedTokenMint m = .ok u) :
    isSupportedTokenMint m.token2022 m.native m.freeze (badgeInit m.badge) m.tlv = .ok true := by
  unfold verifySupportedTokenMint at hm
  split at hm
  · cases hm
  · cases hm
  · assumption

/-- a badge slot counts only when it holds the program-owned badge of exactly this config and mint -/
theorem badgeInit_spec (k : Nat) : badgeInit k = true ↔ (k = 1 ∨ k = 5) := by
  unfold badgeInit isTokenBadgeInitialized
  by_cases h1 : k = 1 ∨ k = 5
  · simp [h1]
  · rw [if_neg h1]
    by_cases h3 : k = 3
    · simp [h3]
    · rw [if_neg h3]
      by_cases h4 : k = 4
      · simp [h4]
      · rw [if_neg h4]; simp [h1]

/-- C19 at instruction level: whenever `initialize_pool_v2` creates a pool, the mint keys are in canonical
    order, the price is within the protocol bounds, the spacing is the fee tier's and non-zero, fee and
    protocol fee rates are the tier's / config's defaults and within their maxima, and BOTH mints pass the
    admission table with the badge that really sits at the badge address of (config, mint). -/
theorem init_pool_v2_sound (keyA keyB : Nat) (a b : MintIn) (price ts tierTs fee proto : Nat) (p : PoolD) (nt : Bool)
    (wrongAddr : Bool) (h : initializePoolV2 keyA keyB a b price ts tierTs fee proto wrongAddr = .ok (p, nt)) :
    wrongAddr = false ∧ keyA < keyB ∧ p.price = price ∧ MIN_SQRT_PRICE_X64 ≤ price ∧ price ≤ MAX_SQRT_PRICE_X64 ∧
    p.ts = ts ∧ tierTs = ts ∧ ts ≠ 0 ∧ p.feeRate = fee ∧ fee ≤ MAX_FEE_RATE ∧
    p.protoRate = proto ∧ proto ≤ MAX_PROTOCOL_FEE_RATE ∧ p.tick = ti price ∧ a.badge ≠ 2 ∧ b.badge ≠ 2 ∧
    isSupportedTokenMint a.token2022 a.native a.freeze (badgeInit a.badge) a.tlv = .ok true ∧
    isSupportedTokenMint b.token2022 b.native b.freeze (badgeInit b.badge) b.tlv = .ok true := by
  unfold initializePoolV2 at h
  split at h
  · cases h
  rename_i hwa
  refine ⟨by cases wrongAddr <;> simp_all, ?_⟩
  split at h
  · cases h
  · rename_i hb
    split at h
    · cases h
    · rename_i hts
      split at h
      · cases h
      · rename_i _ ha
        split at h
        · cases h
        · rename_i _ hbb
          split at h
          · cases h
          · rename_i q hq
            simp only [Except.ok.injEq, Prod.mk.injEq] at h
            obtain ⟨hpq, _⟩ := h
            subst hpq
            obtain ⟨h1, h2, h3, h4, h5, h6, h7⟩ := init_pool_bounds _ _ _ _ _ _ _ hq
            obtain ⟨f1, f2, f3, f4⟩ := init_pool_fields _ _ _ _ _ _ _ hq
            rw [f1] at h2 h3 h7
            rw [f2] at h4
            rw [f3] at h5
            rw [f4] at h6
            exact ⟨h1, f1, h2, h3, f2, by omega, h4, f3, h5, f4, h6, h7,
              fun hh => hb (Or.inl hh), fun hh => hb (Or.inr hh),
              verify_mint_sound a _ ha, verify_mint_sound b _ hbb⟩

theorem valid_te_spec (te : Option Nat) (now : Nat) (perm : Bool) (h : isValidTradeEnableTimestamp te now perm = true) :
    te = none ∨ ∃ t, te = some t ∧ perm = true ∧ t ≤ now + MAX_TRADE_ENABLE_TIMESTAMP_DELTA ∧ now ≤ t + 30 := by
  unfold isValidTradeEnableTimestamp at h
  cases te with
  | none => left; rfl
  | some t =>
    right
    simp only [] at h
    cases perm with
    | false => simp at h
    | true =>
      simp only [Bool.not_true, Bool.false_eq_true, if_false] at h
      by_cases c : t > now
      · rw [if_pos c] at h; exact ⟨t, rfl, rfl, by have := of_decide_eq_true h; omega, by omega⟩
      · rw [if_neg c] at h; exact ⟨t, rfl, rfl, by omega, by have := of_decide_eq_true h; omega⟩

/-- C19 / C14 / C17 at instruction level for adaptive-fee pools: whenever `initialize_pool_with_adaptive_fee`
    creates a pool, the authority slot signed and — for a permissioned tier — is the tier's authority; the mint
    keys are in canonical order; price, fee rate and protocol fee rate are within bounds and are the tier's /
    config's; both mints pass the admission table; the adaptive-fee constants copied into the Oracle satisfy the
    published validity rules for the pool's spacing; and a trade-enable time is accepted only from a
    permissioned tier, at most 72 h ahead and at most 30 s in the past. -/
theorem init_pool_af_sound (keyA keyB : Nat) (a b : MintIn) (price proto now : Nat) (te : Option Nat)
    (authMode : Nat) (perm : Bool) (ts fee : Nat) (c : AfConstants) (p : PoolD) (nt : Bool) (t : Nat)
    (h : initializePoolWithAdaptiveFee keyA keyB a b price proto now te authMode perm ts fee c = .ok (p, nt, t)) :
    authMode ≠ 2 ∧ authMode ≠ 3 ∧ authMode ≠ 4 ∧ (perm = true → authMode ≠ 1) ∧
    keyA < keyB ∧ p.price = price ∧ MIN_SQRT_PRICE_X64 ≤ price ∧ price ≤ MAX_SQRT_PRICE_X64 ∧
    p.ts = ts ∧ ts ≠ 0 ∧ p.feeRate = fee ∧ fee ≤ MAX_FEE_RATE ∧ p.protoRate = proto ∧ proto ≤ MAX_PROTOCOL_FEE_RATE ∧
    isSupportedTokenMint a.token2022 a.native a.freeze (badgeInit a.badge) a.tlv = .ok true ∧
    isSupportedTokenMint b.token2022 b.native b.freeze (badgeInit b.badge) b.tlv = .ok true ∧
    validateConstants ts c = true ∧ t = te.getD 0 ∧
    (te = none ∨ ∃ x, te = some x ∧ perm = true ∧ x ≤ now + MAX_TRADE_ENABLE_TIMESTAMP_DELTA ∧ now ≤ x + 30) := by
  unfold initializePoolWithAdaptiveFee at h
  split at h
  · cases h
  · rename_i h2
    split at h
    · cases h
    rename_i h34
    split at h
    · cases h
    · split at h
      · cases h
      · rename_i hperm
        split at h
        · cases h
        · rename_i _ ha
          split at h
          · cases h
          · rename_i _ hbb
            split at h
            · cases h
            · rename_i hte
              split at h
              · cases h
              · rename_i q hq
                split at h
                · cases h
                · rename_i hc
                  simp only [Except.ok.injEq, Prod.mk.injEq] at h
                  obtain ⟨hpq, _, ht⟩ := h
                  subst hpq
                  obtain ⟨h1, h2', h3, h4, h5, h6, _⟩ := init_pool_bounds _ _ _ _ _ _ _ hq
                  obtain ⟨f1, f2, f3, f4⟩ := init_pool_fields _ _ _ _ _ _ _ hq
                  rw [f1] at h2' h3
                  rw [f2] at h4
                  rw [f3] at h5
                  rw [f4] at h6
                  have hte' : isValidTradeEnableTimestamp te now perm = true := by
                    cases hx : isValidTradeEnableTimestamp te now perm with
                    | true => rfl
                    | false => simp [hx] at hte
                  have hc' : validateConstants ts c = true := by
                    cases hx : validateConstants ts c with
                    | true => rfl
                    | false => simp [hx] at hc
                  refine ⟨h2, fun e => h34 (Or.inl e), fun e => h34 (Or.inr e), ?_, h1, f1, h2', h3, f2, h4, f3, h5, f4, h6, verify_mint_sound a _ ha, verify_mint_sound b _ hbb,
                    hc', ht.symm, valid_te_spec te now perm hte'⟩
                  intro hp ha1
                  apply hperm
                  simp [hp, ha1]

-- Non-vacuity: a Token-2022 mint with a permanent delegate makes a pool only with its badge (kind 1), not with
-- another config's data at the address (kind 3), a foreign-owned copy (kind 4) or nothing (kind 0)
example :
    let pd : Nat → MintIn := fun k => { token2022 := true, native := false, freeze := false, tlv := [12, 0, 0, 0], badge := k }
    let plain : MintIn := { token2022 := false, native := false, freeze := true, tlv := [], badge := 0 }
    (initializePoolV2 1 2 (pd 1) plain (2^64) 64 64 3000 300).toOption.isSome = true ∧
    (initializePoolV2 1 2 (pd 0) plain (2^64) 64 64 3000 300).toOption.isSome = false ∧
    (initializePoolV2 1 2 (pd 3) plain (2^64) 64 64 3000 300).toOption.isSome = false ∧
    (initializePoolV2 1 2 (pd 4) plain (2^64) 64 64 3000 300).toOption.isSome = false ∧
    (initializePoolV2 1 2 (pd 2) plain (2^64) 64 64 3000 300).toOption.isSome = false ∧
    (initializePoolV2 2 1 (pd 1) plain (2^64) 64 64 3000 300).toOption.isSome = false ∧
    (initializePoolV2 1 2 (pd 1) plain (2^64) 64 8 3000 300).toOption.isSome = false := by decide +kernel

-- Non-vacuity: TransferFeeConfig is admitted; PermanentDelegate only with a badge; NonTransferable never;
-- an unknown extension number and a truncated entry are rejected / error
example : (isSupportedTokenMint true false false false [1, 0, 2, 0, 7, 7]).toOption = some true ∧
    (isSupportedTokenMint true false false false [12, 0, 0, 0]).toOption = some false ∧
    (isSupportedTokenMint true false false true [12, 0, 0, 0]).toOption = some true ∧
    (isSupportedTokenMint true false false true [9, 0, 0, 0]).toOption = some false ∧
    (isSupportedTokenMint true false false true [40, 0, 0, 0]).toOption = none ∧
    (isSupportedTokenMint true false false true [1, 0, 9, 0, 1]).toOption = none := by decide +kernel

end WP.C19
