import WP.Props.C19
import WP.Props.SwapPath
/-
  C14 / C19, over histories that CHANGE the constants: `set_adaptive_fee_constants` (model `setAdaptiveFeeConstants`:
  merge of the optional arguments, refusal of a request that changes nothing, validation for the pool's tick spacing,
  RESET of the variables) leaves the pool's adaptive-fee state in the range every swap needs and keeps (`InfoOK`:
  accumulator and reference at most the configured maximum, reference group inside the tick bounds, reduction factor
  below its denominator, positive group size).  Together with `Path.swap_path` (every successful swap keeps `InfoOK` and
  the constants) this gives the clause "the volatility accumulator never exceeds its configured maximum" along every
  sequence of swaps and constant changes — in particular across a LOWERED maximum, which is exactly where a setter that
  kept the variables would break it (`no_reset_breaks` below is that counter-model).
-/
set_option linter.unusedSimpArgs false
namespace WP.SetConstants
open WP WP.Gen WP.Path WP.C05

/-- what a successful `set_adaptive_fee_constants` stores -/
theorem set_constants_spec (ts : Nat) (info info' : AfInfo) (r : AfRequest)
    (h : setAdaptiveFeeConstants ts info r = .ok info') :
    info'.constants = r.apply info.constants ∧ info'.constants ≠ info.constants ∧
    validateConstants ts info'.constants = true ∧ info'.variables = {} := by
  unfold setAdaptiveFeeConstants at h
  simp only [] at h
  by_cases c1 : r.apply info.constants = info.constants
  · rw [if_pos c1] at h; cases h
  · rw [if_neg c1] at h
    by_cases c2 : validateConstants ts (r.apply info.constants) = true
    · rw [if_pos c2] at h
      cases h
      exact ⟨rfl, c1, c2, rfl⟩
    · rw [if_neg c2] at h; cases h

/-- a request that changes nothing is refused, whatever else holds -/
theorem set_constants_unchanged (ts : Nat) (info : AfInfo) (r : AfRequest) (h : r.apply info.constants = info.constants) :
    setAdaptiveFeeConstants ts info r = .error .AdaptiveFeeConstantsUnchanged := by
  unfold setAdaptiveFeeConstants
  simp only [h, if_true]

/-- constants that the validator refuses are never stored -/
theorem set_constants_invalid (ts : Nat) (info : AfInfo) (r : AfRequest) (h : validateConstants ts (r.apply info.constants) = false) :
    ∀ info', setAdaptiveFeeConstants ts info r ≠ .ok info' := by
  intro info' c
  have := (set_constants_spec ts info info' r c).2.2.1
  rw [(set_constants_spec ts info info' r c).1, h] at this
  cases this

/-- an argument that is absent keeps the stored value; one that is present is stored -/
theorem apply_fields (r : AfRequest) (c : AfConstants) :
    (r.apply c).maxVolAcc = r.maxVolAcc.getD c.maxVolAcc ∧ (r.apply c).groupSize = r.groupSize.getD c.groupSize ∧
    (r.apply c).filterPeriod = r.filterPeriod.getD c.filterPeriod ∧ (r.apply c).decayPeriod = r.decayPeriod.getD c.decayPeriod ∧
    (r.apply c).reductionFactor = r.reductionFactor.getD c.reductionFactor ∧ (r.apply c).controlFactor = r.controlFactor.getD c.controlFactor ∧
    (r.apply c).majorSwapThresholdTicks = r.majorSwapThresholdTicks.getD c.majorSwapThresholdTicks :=
  ⟨rfl, rfl, rfl, rfl, rfl, rfl, rfl⟩

/-- **the state after the setter is in range** — whatever the variables were before (a pool that has traded, an
    accumulator above the new maximum) -/
theorem set_constants_infoOK (ts : Nat) (info info' : AfInfo) (r : AfRequest)
    (h : setAdaptiveFeeConstants ts info r = .ok info') : InfoOK info' := by
  obtain ⟨_, _, hv, hz⟩ := set_constants_spec ts info info' r h
  have hs := C19.validate_constants_spec ts info'.constants hv
  have hred : REDUCTION_FACTOR_DENOMINATOR = 10000 := rfl
  refine { gs := by omega, red := by omega, var := ?_ }
  unfold VarOK
  rw [hz]
  have hmin : MIN_TICK_INDEX = -443636 := rfl
  have hmax : MAX_TICK_INDEX = 443636 := rfl
  refine ⟨Nat.zero_le _, Nat.zero_le _, ?_, ?_⟩
  · show MIN_TICK_INDEX ≤ (0 : Int) * (info'.constants.groupSize : Int) + info'.constants.groupSize
    omega
  · show (0 : Int) * (info'.constants.groupSize : Int) ≤ MAX_TICK_INDEX
    omega

/-- one step of a pool's adaptive-fee history: a successful swap (any pool state around it that meets `swap_path`'s
    hypotheses) or a successful change of the constants -/
inductive AfStep : AfInfo → AfInfo → Prop
  | swap (p : PoolD) (ticks : TickMap) (ps : List (Nat × PositionD)) (arrays : List Int) (amount limit : Nat)
      (isInput aToB : Bool) (now fuel : Nat) (info info' : AfInfo) (u : PostSwap)
      (hts : 0 < p.ts) (hseq : SeqOK arrays p.ts aToB)
      (hliq : (p.liq : Int) = sumBy (inRangeLiq p.tick) ps) (tf : TickFacts ticks ps p.ts) (tp : TP p.tick p.price)
      (hL : p.liq ≤ U128_MAX) (hfee : p.feeRate ≤ FEE_RATE_HARD_LIMIT) (hamt : amount ≤ U64_MAX)
      (h : WP.swap p ticks arrays amount limit isInput aToB now (some info) fuel = .ok u) (hu : u.afInfo = some info') :
      AfStep info info'
  | setConstants (ts : Nat) (info info' : AfInfo) (r : AfRequest) (h : setAdaptiveFeeConstants ts info r = .ok info') :
      AfStep info info'

/-- histories: any number of such steps -/
inductive AfReach : AfInfo → AfInfo → Prop
  | refl (i : AfInfo) : AfReach i i
  | step (i j k : AfInfo) (h1 : AfReach i j) (h2 : AfStep j k) : AfReach i k

theorem step_infoOK (i j : AfInfo) (hi : InfoOK i) (h : AfStep i j) : InfoOK j := by
  cases h with
  | swap p ticks ps arrays amount limit isInput aToB now fuel _ _ u hts hseq hliq tf tp hL hfee hamt h hu =>
    have hp := swap_path p ticks ps arrays amount limit isInput aToB now fuel (some i) u hts hseq hliq tf tp hL hfee hamt
      (by intro info he; cases he; exact hi) h
    obtain ⟨info', e1, _, ok⟩ := hp.2.2.2.2.2.2 i rfl
    rw [hu] at e1
    cases e1
    exact ok
  | setConstants ts _ _ r h => exact set_constants_infoOK ts i j r h

/-- **C14 over histories with constant changes**: starting from an Oracle in range (a freshly created one is:
    `set_constants_infoOK` / the initialiser), after ANY sequence of successful swaps and successful
    `set_adaptive_fee_constants` calls the stored accumulator and reference are at most the CURRENT configured
    maximum. -/
theorem accumulator_bounded_over_histories (i j : AfInfo) (hi : InfoOK i) (h : AfReach i j) :
    InfoOK j ∧ j.variables.volAcc ≤ j.constants.maxVolAcc ∧ j.variables.volRef ≤ j.constants.maxVolAcc := by
  have ok : InfoOK j := by
    induction h with
    | refl => exact hi
    | step j k _ h2 ih => exact step_infoOK j k ih h2
  exact ⟨ok, ok.var.2.1, ok.var.1⟩

/-- the setter WITHOUT the reset (what the seeded change C14_16 leaves when the group size is kept) -/
def setNoReset (tickSpacing : Nat) (info : AfInfo) (r : AfRequest) : R AfInfo :=
  let c := r.apply info.constants
  if c = info.constants then .error .AdaptiveFeeConstantsUnchanged
  else if validateConstants tickSpacing c then .ok { info with constants := c }
  else .error .InvalidAdaptiveFeeConstants

def exInfo : AfInfo :=
  ⟨{ filterPeriod := 30, decayPeriod := 600, reductionFactor := 5000, controlFactor := 4000, maxVolAcc := 350000,
     groupSize := 64, majorSwapThresholdTicks := 64 },
   { lastRefUpdateTs := 1000, lastMajorSwapTs := 1000, volRef := 100000, groupIndexRef := 5, volAcc := 290000 }⟩

def exLowered : AfConstants :=
  { filterPeriod := 30, decayPeriod := 600, reductionFactor := 5000, controlFactor := 4000, maxVolAcc := 100000,
    groupSize := 64, majorSwapThresholdTicks := 64 }

/-- the hypotheses are met by a real state, the setter succeeds on it, and the reset is what the theorem needs: lowering
    only the maximum of a pool that has traded keeps the bound with the reset and breaks it without -/
theorem no_reset_breaks :
    (∃ i, setAdaptiveFeeConstants 64 exInfo { maxVolAcc := some 100000 } = .ok i ∧ i.variables.volAcc ≤ i.constants.maxVolAcc) ∧
    (∃ i, setNoReset 64 exInfo { maxVolAcc := some 100000 } = .ok i ∧ ¬ i.variables.volAcc ≤ i.constants.maxVolAcc) := by
  refine ⟨⟨⟨exLowered, {}⟩, by decide +kernel, by decide +kernel⟩, ⟨⟨exLowered, exInfo.variables⟩, by decide +kernel, by decide +kernel⟩⟩

example : setAdaptiveFeeConstants 64 exInfo {} = .error .AdaptiveFeeConstantsUnchanged ∧
    setAdaptiveFeeConstants 64 exInfo { groupSize := some 48 } = .error .InvalidAdaptiveFeeConstants := by
  decide +kernel

end WP.SetConstants
