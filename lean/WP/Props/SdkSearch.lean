import WP.Model.SdkSwap
import WP.Props.C10
/-
  C20, tick search: the SDK's `prev_initialized_tick` / `next_initialized_tick` walk the grid one
  initializable tick at a time over the whole sequence; the program's search scans array by array.  Both are
  characterised the same way: the result `nti` is the nearest grid tick in trade direction that is initialized,
  or the end of the window.  These lemmas derive the SDK's answer from that characterisation.
-/
set_option linter.unusedSimpArgs false
namespace WP.SdkSearch
open WP WP.Gen WP.C10

/-- is `t` a tick the SDK hands out as initialized: on the grid and initialized in the map -/
def gridInit (m : TickMap) (ts : Nat) (t : Int) : Bool := initAt m t && decide (t % (ts : Int) = 0)

/-- what the SDK's search returns for the next tick `nti` -/
def answer (m : TickMap) (ts : Nat) (nti : Int) : Option TickData × Int :=
  (if gridInit m ts nti then some (m.get nti) else none, nti)

theorem tmod_zero_iff (x : Int) (ts : Nat) (hts : 0 < ts) : Int.tmod x ts = 0 ↔ x % (ts : Int) = 0 := by
  constructor
  · intro h
    exact Int.emod_eq_zero_of_dvd (Int.dvd_of_tmod_eq_zero h)
  · intro h
    exact Int.tmod_eq_zero_of_dvd (Int.dvd_of_emod_eq_zero h)

theorem sdkTick_ok (m : TickMap) (lo hi : Int) (ts : Nat) (hts : 0 < ts) (x : Int) (h1 : lo ≤ x) (h2 : x ≤ hi)
    (h3 : x % (ts : Int) = 0) : sdkTick m lo hi ts x = .ok (m.get x) := by
  unfold sdkTick
  have a : ¬ ((decide (x < lo) || decide (x > hi)) = true) := by simp; omega
  have b : ¬ Int.tmod x ts ≠ 0 := by
    intro c; exact c ((tmod_zero_iff x ts hts).mpr h3)
  rw [if_neg a, if_neg b]

/-- a→b walk: from the grid tick `prev` down to `nti` -/
theorem prevLoop_spec (m : TickMap) (lo hi : Int) (ts : Nat) (hts : 0 < ts) (s nti : Int)
    (hlo : lo ≤ nti) (hs : s ≤ hi)
    (hno : ∀ x, nti < x → x ≤ s → x % (ts : Int) = 0 → initAt m x = false)
    (hk : gridInit m ts nti = true ∨ nti = lo) :
    ∀ (fuel : Nat) (prev : Int), prev % (ts : Int) = 0 → prev ≤ s → (gridInit m ts nti = true → nti ≤ prev) →
      prev < lo + (fuel : Int) * ts →
      sdkPrevLoop m lo hi ts (fuel + 1) prev = .ok (answer m ts nti) := by
  have htsI : (0 : Int) < (ts : Int) := by omega
  intro fuel
  induction fuel with
  | zero =>
    intro prev _ _ hinv hb
    have hlt : prev < lo := by simpa using hb
    unfold sdkPrevLoop
    rw [if_pos hlt]
    cases hg : gridInit m ts nti with
    | true => have := hinv hg; omega
    | false =>
      rcases hk with h | h
      · rw [hg] at h; cases h
      · unfold answer; rw [hg, h]; rfl
  | succ fuel ih =>
    intro prev hgrid hps hinv hb
    unfold sdkPrevLoop
    by_cases hlt : prev < lo
    · rw [if_pos hlt]
      cases hg : gridInit m ts nti with
      | true => have := hinv hg; omega
      | false =>
        rcases hk with h | h
        · rw [hg] at h; cases h
        · unfold answer; rw [hg, h]; rfl
    · rw [if_neg hlt]
      rw [sdkTick_ok m lo hi ts hts prev (by omega) (by omega) hgrid]
      simp only []
      by_cases hi' : (m.get prev).initialized = true
      · rw [if_pos hi']
        -- prev is an initialized grid tick ≤ s: it can only be nti
        have hnot : ¬ nti < prev := by
          intro c
          have := hno prev c hps hgrid
          unfold initAt at this; rw [hi'] at this; cases this
        have heq : prev = nti := by
          rcases hk with h | h
          · have := hinv h; omega
          · omega
        subst heq
        have hg : gridInit m ts prev = true := by
          unfold gridInit initAt; rw [hi']; simp [hgrid]
        unfold answer; rw [hg]; rfl
      · rw [if_neg hi', if_pos hgrid]
        apply ih (prev - ts)
        · rw [Int.sub_emod, hgrid]; simp
        · omega
        · intro hg
          have h1 := hinv hg
          have hne : nti ≠ prev := by
            intro c; apply hi'
            unfold gridInit initAt at hg
            simp only [Bool.and_eq_true, decide_eq_true_eq] at hg
            rw [← c]; exact hg.1
          have hgn : nti % (ts : Int) = 0 := by
            unfold gridInit at hg
            simp only [Bool.and_eq_true, decide_eq_true_eq] at hg
            exact hg.2
          have := mult_gap (ts : Int) nti prev htsI (Int.dvd_of_emod_eq_zero hgn) (Int.dvd_of_emod_eq_zero hgrid) (by omega)
          omega
        · have : ((fuel + 1 : Nat) : Int) * ts = (fuel : Int) * ts + ts := by
            rw [Int.natCast_add, Int.add_mul]; simp
          omega

/-- `prev_initialized_tick` from tick `s` -/
theorem prevInit_spec (m : TickMap) (lo hi : Int) (ts : Nat) (hts : 0 < ts) (s nti : Int)
    (hlo : lo ≤ nti) (hns : nti ≤ s) (hs : s ≤ hi)
    (hno : ∀ x, nti < x → x ≤ s → x % (ts : Int) = 0 → initAt m x = false)
    (hk : gridInit m ts nti = true ∨ nti = lo) (fuel : Nat) (hf : s < lo + (fuel : Int) * ts) :
    sdkPrevInit m lo hi ts (fuel + 1) s = .ok (answer m ts nti) := by
  have htsI : (0 : Int) < (ts : Int) := by omega
  unfold sdkPrevInit
  rw [if_neg (by omega), if_neg (by omega)]
  have hfloor : s / (ts : Int) * ts ≤ s := by
    have := Int.mul_ediv_add_emod s ts
    have := Int.emod_nonneg s (by omega : (ts : Int) ≠ 0)
    rw [Int.mul_comm]; omega
  apply prevLoop_spec m lo hi ts hts s nti hlo hs hno hk fuel
  · exact Int.mul_emod_left _ _
  · exact hfloor
  · intro hg
    have hgn : nti % (ts : Int) = 0 := by
      unfold gridInit at hg
      simp only [Bool.and_eq_true, decide_eq_true_eq] at hg
      exact hg.2
    -- nti is a grid tick ≤ s, so it is ≤ floor(s)
    obtain ⟨q, hq⟩ := Int.dvd_of_emod_eq_zero hgn
    have hqs : q ≤ s / (ts : Int) := by
      rw [Int.le_ediv_iff_mul_le htsI]; rw [hq, Int.mul_comm] at hns; exact hns
    have : q * (ts : Int) ≤ s / (ts : Int) * ts := Int.mul_le_mul_of_nonneg_right hqs (by omega)
    rw [hq, Int.mul_comm]; exact this
  · omega

/-- b→a walk: from tick `cur` up to `nti` -/
theorem nextLoop_spec (m : TickMap) (lo hi : Int) (ts : Nat) (hts : 0 < ts) (s nti : Int)
    (hhi : nti ≤ hi)
    (hlow : ∀ x, s < x → x % (ts : Int) = 0 → lo ≤ x)
    (hno : ∀ x, s < x → x < nti → x % (ts : Int) = 0 → initAt m x = false)
    (hk : gridInit m ts nti = true ∨ nti = hi) :
    ∀ (fuel : Nat) (cur : Int), s ≤ cur → (gridInit m ts nti = true → cur < nti) →
      hi - (cur - cur % (ts : Int)) < (fuel : Int) * ts →
      sdkNextLoop m lo hi ts (fuel + 1) cur = .ok (answer m ts nti) := by
  have htsI : (0 : Int) < (ts : Int) := by omega
  intro fuel
  induction fuel with
  | zero =>
    intro cur _ hinv hb
    have hm := Int.emod_nonneg cur (by omega : (ts : Int) ≠ 0)
    have hm2 := Int.emod_lt_of_pos cur htsI
    have hgt : cur - cur % (ts : Int) + ts > hi := by
      have : hi - (cur - cur % (ts : Int)) < 0 := by simpa using hb
      omega
    unfold sdkNextLoop
    simp only []
    rw [if_pos hgt]
    cases hg : gridInit m ts nti with
    | true =>
      have h1 := hinv hg
      have hgn : nti % (ts : Int) = 0 := by
        unfold gridInit at hg
        simp only [Bool.and_eq_true, decide_eq_true_eq] at hg
        exact hg.2
      -- the next grid tick above cur is ≤ nti ≤ hi
      have hd : (ts : Int) ∣ cur - cur % (ts : Int) := Int.dvd_self_sub_emod
      have := mult_gap (ts : Int) (cur - cur % (ts : Int)) nti htsI hd (Int.dvd_of_emod_eq_zero hgn) (by omega)
      omega
    | false =>
      rcases hk with h | h
      · rw [hg] at h; cases h
      · unfold answer; rw [hg, h]; rfl
  | succ fuel ih =>
    intro cur hsc hinv hb
    have hm := Int.emod_nonneg cur (by omega : (ts : Int) ≠ 0)
    have hm2 := Int.emod_lt_of_pos cur htsI
    have hd : (ts : Int) ∣ cur - cur % (ts : Int) := Int.dvd_self_sub_emod
    have hnxg : (cur - cur % (ts : Int) + ts) % (ts : Int) = 0 := by
      apply Int.emod_eq_zero_of_dvd
      exact Int.dvd_add hd (Int.dvd_refl _)
    unfold sdkNextLoop
    simp only []
    by_cases hgt : cur - cur % (ts : Int) + ts > hi
    · rw [if_pos hgt]
      cases hg : gridInit m ts nti with
      | true =>
        have h1 := hinv hg
        have hgn : nti % (ts : Int) = 0 := by
          unfold gridInit at hg
          simp only [Bool.and_eq_true, decide_eq_true_eq] at hg
          exact hg.2
        have := mult_gap (ts : Int) (cur - cur % (ts : Int)) nti htsI hd (Int.dvd_of_emod_eq_zero hgn) (by omega)
        omega
      | false =>
        rcases hk with h | h
        · rw [hg] at h; cases h
        · unfold answer; rw [hg, h]; rfl
    · rw [if_neg hgt]
      generalize hnx : cur - cur % (ts : Int) + ts = nx at *
      have hnxs : s < nx := by omega
      rw [sdkTick_ok m lo hi ts hts nx (hlow nx hnxs hnxg) (by omega) hnxg]
      simp only []
      by_cases hi' : (m.get nx).initialized = true
      · rw [if_pos hi']
        have hnot : ¬ nx < nti := by
          intro c
          have := hno nx hnxs c hnxg
          unfold initAt at this; rw [hi'] at this; cases this
        have hgx : gridInit m ts nx = true := by
          unfold gridInit initAt; rw [hi']; simp [hnxg]
        have heq : nx = nti := by
          rcases hk with h | h
          · have h1 := hinv h
            have hgn : nti % (ts : Int) = 0 := by
              unfold gridInit at h
              simp only [Bool.and_eq_true, decide_eq_true_eq] at h
              exact h.2
            have := mult_gap (ts : Int) (cur - cur % (ts : Int)) nti htsI hd (Int.dvd_of_emod_eq_zero hgn) (by omega)
            omega
          · omega
        subst heq
        unfold answer; rw [hgx]; rfl
      · rw [if_neg hi']
        apply ih nx
        · omega
        · intro hg
          have h1 := hinv hg
          have hgn : nti % (ts : Int) = 0 := by
            unfold gridInit at hg
            simp only [Bool.and_eq_true, decide_eq_true_eq] at hg
            exact hg.2
          have h2 := mult_gap (ts : Int) (cur - cur % (ts : Int)) nti htsI hd (Int.dvd_of_emod_eq_zero hgn) (by omega)
          have hne : nti ≠ nx := by
            intro c; apply hi'
            unfold gridInit initAt at hg
            simp only [Bool.and_eq_true, decide_eq_true_eq] at hg
            rw [← c]; exact hg.1
          omega
        · rw [hnxg]
          have : ((fuel + 1 : Nat) : Int) * ts = (fuel : Int) * ts + ts := by
            rw [Int.natCast_add, Int.add_mul]; simp
          omega

/-- `next_initialized_tick` from tick `s` -/
theorem nextInit_spec (m : TickMap) (lo hi : Int) (ts : Nat) (hts : 0 < ts) (s nti : Int)
    (hsn : s < nti) (hhi : nti ≤ hi)
    (hlow : ∀ x, s < x → x % (ts : Int) = 0 → lo ≤ x)
    (hno : ∀ x, s < x → x < nti → x % (ts : Int) = 0 → initAt m x = false)
    (hk : gridInit m ts nti = true ∨ nti = hi) (fuel : Nat) (hf : hi - (s - s % (ts : Int)) < (fuel : Int) * ts) :
    sdkNextInit m lo hi ts (fuel + 1) s = .ok (answer m ts nti) := by
  unfold sdkNextInit
  rw [if_neg (by omega), if_neg (by omega)]
  exact nextLoop_spec m lo hi ts hts s nti hhi hlow hno hk fuel s (Int.le_refl _) (fun _ => hsn) hf

end WP.SdkSearch
