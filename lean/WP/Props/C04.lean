import WP.Gen.AnchorSpecs
import WP.Gen.PinoSpecs
import WP.Gen.Routing
/-
  Property C04 — only the designated authority can move a position's funds or change settings.

  The tables `Gen.anchorSpecs`, `Gen.handlerGuards`, `Gen.pinoSpecs`, `Gen.programFns`,
  `Gen.pinoRouting` are REGENERATED from /repo on every run (tools/extract_specs.py).  The tables in
  this file are the hand-written REQUIREMENTS (which stored authority must sign which instruction);
  the theorems say that the regenerated code tables meet every requirement, and what acceptance of an
  instruction therefore implies for any invocation environment.  Deleting or weakening a single
  `Signer`, `address =`, `has_one`, position-token constraint, `verify_position_authority*` call or
  `next_signer()` makes `decide` fail on exactly the row that needed it.
-/
namespace WP.C04
open WP WP.Gen

/-! ### requirements -/

/-- (instruction accounts struct, signer slot, stored authority it must equal) -/
def authRows : List (String × String × String) := [
  ("InitializeAdaptiveFeeTier", "fee_authority", "whirlpools_config.fee_authority"),
  ("SetAdaptiveFeeConstants", "fee_authority", "whirlpools_config.fee_authority"),
  ("SetDefaultBaseFeeRate", "fee_authority", "whirlpools_config.fee_authority"),
  ("SetDelegatedFeeAuthority", "fee_authority", "whirlpools_config.fee_authority"),
  ("SetFeeRateByDelegatedFeeAuthority", "delegated_fee_authority", "adaptive_fee_tier.delegated_fee_authority"),
  ("SetInitializePoolAuthority", "fee_authority", "whirlpools_config.fee_authority"),
  ("SetPresetAdaptiveFeeConstants", "fee_authority", "whirlpools_config.fee_authority"),
  ("CollectProtocolFees", "collect_protocol_fees_authority", "whirlpools_config.collect_protocol_fees_authority"),
  ("InitializeFeeTier", "fee_authority", "config.fee_authority"),
  ("InitializeReward", "reward_authority", "whirlpool.reward_authority()"),
  ("SetCollectProtocolFeesAuthority", "collect_protocol_fees_authority", "whirlpools_config.collect_protocol_fees_authority"),
  ("SetDefaultFeeRate", "fee_authority", "whirlpools_config.fee_authority"),
  ("SetDefaultProtocolFeeRate", "fee_authority", "whirlpools_config.fee_authority"),
  ("SetFeeAuthority", "fee_authority", "whirlpools_config.fee_authority"),
  ("SetFeeRate", "fee_authority", "whirlpools_config.fee_authority"),
  ("SetProtocolFeeRate", "fee_authority", "whirlpools_config.fee_authority"),
  ("SetRewardAuthority", "reward_authority", "whirlpool.reward_authority()"),
  ("SetRewardAuthorityBySuperAuthority", "reward_emissions_super_authority", "whirlpools_config.reward_emissions_super_authority"),
  ("SetRewardEmissions", "reward_authority", "whirlpool.reward_authority()"),
  ("SetRewardEmissionsSuperAuthority", "reward_emissions_super_authority", "whirlpools_config.reward_emissions_super_authority"),
  ("CollectProtocolFeesV2", "collect_protocol_fees_authority", "whirlpools_config.collect_protocol_fees_authority"),
  ("DeleteTokenBadge", "token_badge_authority", "whirlpools_config_extension.token_badge_authority"),
  ("InitializeConfigExtension", "fee_authority", "config.fee_authority"),
  ("InitializeRewardV2", "reward_authority", "whirlpool.reward_authority()"),
  ("InitializeTokenBadge", "token_badge_authority", "whirlpools_config_extension.token_badge_authority"),
  ("SetConfigExtensionAuthority", "config_extension_authority", "whirlpools_config_extension.config_extension_authority"),
  ("SetRewardEmissionsV2", "reward_authority", "whirlpool.reward_authority()"),
  ("SetTokenBadgeAttribute", "token_badge_authority", "whirlpools_config_extension.token_badge_authority"),
  ("SetTokenBadgeAuthority", "config_extension_authority", "whirlpools_config_extension.config_extension_authority")]

def adminRows : List (String × String × String) := [
  ("InitializePoolWithAdaptiveFee", "initialize_pool_authority", "adaptive_fee_tier.is_valid_initialize_pool_authority(initialize_pool_authority.key())"),
  ("InitializeConfig", "funder", "is_admin_key(funder.key)"),
  ("SetConfigFeatureFlag", "authority", "is_admin_key(authority.key)")]

def linkRows : List (String × String × String × String) := [
  ("InitializePoolWithAdaptiveFee", "adaptive_fee_tier", "has_one", "whirlpools_config"),
  ("SetAdaptiveFeeConstants", "whirlpool", "has_one", "whirlpools_config"),
  ("SetAdaptiveFeeConstants", "oracle", "has_one", "whirlpool"),
  ("SetDefaultBaseFeeRate", "adaptive_fee_tier", "has_one", "whirlpools_config"),
  ("SetDelegatedFeeAuthority", "adaptive_fee_tier", "has_one", "whirlpools_config"),
  ("SetFeeRateByDelegatedFeeAuthority", "adaptive_fee_tier", "constraint", "adaptive_fee_tier.whirlpools_config == whirlpool.whirlpools_config"),
  ("SetFeeRateByDelegatedFeeAuthority", "adaptive_fee_tier", "constraint", "adaptive_fee_tier.fee_tier_index == whirlpool.fee_tier_index()"),
  ("SetInitializePoolAuthority", "adaptive_fee_tier", "has_one", "whirlpools_config"),
  ("SetPresetAdaptiveFeeConstants", "adaptive_fee_tier", "has_one", "whirlpools_config"),
  ("CollectProtocolFees", "whirlpool", "has_one", "whirlpools_config"),
  ("SetDefaultFeeRate", "fee_tier", "has_one", "whirlpools_config"),
  ("SetFeeRate", "whirlpool", "has_one", "whirlpools_config"),
  ("SetProtocolFeeRate", "whirlpool", "has_one", "whirlpools_config"),
  ("SetRewardAuthorityBySuperAuthority", "whirlpool", "has_one", "whirlpools_config"),
  ("CollectProtocolFeesV2", "whirlpool", "has_one", "whirlpools_config"),
  ("DeleteTokenBadge", "whirlpools_config_extension", "has_one", "whirlpools_config"),
  ("DeleteTokenBadge", "token_badge", "has_one", "whirlpools_config"),
  ("InitializeTokenBadge", "whirlpools_config_extension", "has_one", "whirlpools_config"),
  ("SetConfigExtensionAuthority", "whirlpools_config_extension", "has_one", "whirlpools_config"),
  ("SetTokenBadgeAttribute", "whirlpools_config_extension", "has_one", "whirlpools_config"),
  ("SetTokenBadgeAttribute", "token_badge", "has_one", "whirlpools_config"),
  ("SetTokenBadgeAttribute", "token_badge", "has_one", "token_mint"),
  ("SetTokenBadgeAuthority", "whirlpools_config_extension", "has_one", "whirlpools_config")]

def posAuthRows : List (String × String × String × String × List String × String) := [
  ("CloseBundledPosition", "instructions/close_bundled_position.rs", "position_bundle_authority", "position_bundle_token_account", ["position_bundle_token_account.mint == bundled_position.position_mint", "position_bundle_token_account.mint == position_bundle.position_bundle_mint", "position_bundle_token_account.amount == 1"], "verify_position_bundle_authority( &ctx.accounts.position_bundle_token_account, &ctx.accounts.position_bundle_authority, )"),
  ("ClosePosition", "instructions/close_position.rs", "position_authority", "position_token_account", ["position_token_account.amount == 1", "position_token_account.mint == position.position_mint"], "verify_position_authority( &ctx.accounts.position_token_account, &ctx.accounts.position_authority, )"),
  ("ClosePositionWithTokenExtensions", "instructions/close_position_with_token_extensions.rs", "position_authority", "position_token_account", ["position_token_account.amount == 1", "position_token_account.mint == position.position_mint"], "verify_position_authority_interface( &ctx.accounts.position_token_account, &ctx.accounts.position_authority, )"),
  ("CollectFees", "instructions/collect_fees.rs", "position_authority", "position_token_account", ["position_token_account.mint == position.position_mint", "position_token_account.amount == 1"], "verify_position_authority_interface( &ctx.accounts.position_token_account, &ctx.accounts.position_authority, )"),
  ("CollectReward", "instructions/collect_reward.rs", "position_authority", "position_token_account", ["position_token_account.mint == position.position_mint", "position_token_account.amount == 1"], "verify_position_authority_interface( &ctx.accounts.position_token_account, &ctx.accounts.position_authority, )"),
  ("DeletePositionBundle", "instructions/delete_position_bundle.rs", "position_bundle_owner", "position_bundle_token_account", ["position_bundle_token_account.mint == position_bundle.position_bundle_mint", "position_bundle_token_account.owner == position_bundle_owner.key()", "position_bundle_token_account.amount == 1"], ""),
  ("ModifyLiquidity", "instructions/increase_liquidity.rs", "position_authority", "position_token_account", ["position_token_account.mint == position.position_mint", "position_token_account.amount == 1"], "verify_position_authority_interface( &ctx.accounts.position_token_account, &ctx.accounts.position_authority, )"),
  ("LockPosition", "instructions/lock_position.rs", "position_authority", "position_token_account", ["position_token_account.amount == 1", "position_token_account.mint == position.position_mint"], "verify_position_authority_interface( &ctx.accounts.position_token_account, &ctx.accounts.position_authority, )"),
  ("OpenBundledPosition", "instructions/open_bundled_position.rs", "position_bundle_authority", "position_bundle_token_account", ["position_bundle_token_account.mint == position_bundle.position_bundle_mint", "position_bundle_token_account.amount == 1"], "verify_position_bundle_authority( &ctx.accounts.position_bundle_token_account, &ctx.accounts.position_bundle_authority, )"),
  ("ResetPositionRange", "instructions/reset_position_range.rs", "position_authority", "position_token_account", ["position_token_account.amount == 1", "position_token_account.mint == position.position_mint"], "verify_position_authority_interface( &ctx.accounts.position_token_account, &ctx.accounts.position_authority, )"),
  ("TransferLockedPosition", "instructions/transfer_locked_position.rs", "position_authority", "position_token_account", ["position_token_account.amount == 1", "position_token_account.mint == position.position_mint"], "validate_owner( &ctx.accounts.position_token_account.owner, &ctx.accounts.position_authority.to_account_info(), )"),
  ("CollectFeesV2", "instructions/v2/collect_fees.rs", "position_authority", "position_token_account", ["position_token_account.mint == position.position_mint", "position_token_account.amount == 1"], "verify_position_authority_interface( &ctx.accounts.position_token_account, &ctx.accounts.position_authority, )"),
  ("CollectRewardV2", "instructions/v2/collect_reward.rs", "position_authority", "position_token_account", ["position_token_account.mint == position.position_mint", "position_token_account.amount == 1"], "verify_position_authority_interface( &ctx.accounts.position_token_account, &ctx.accounts.position_authority, )"),
  ("ModifyLiquidityV2", "instructions/v2/increase_liquidity.rs", "position_authority", "position_token_account", ["position_token_account.mint == position.position_mint", "position_token_account.amount == 1"], "verify_position_authority_interface( &ctx.accounts.position_token_account, &ctx.accounts.position_authority, )")]

/-- Pinocchio-dispatched instructions: (handler file, authority label, guard call of the core,
    constraints of the prologue) -/
def pinoRows : List (String × String × String × List String) :=
  let cons := ["position_token_account.mint() == position.position_mint()", "position_token_account.amount() == 1"]
  let g := "pino_verify_position_authority(&position_token_account, position_authority_info)"
  [ ("pinocchio/instructions/increase_liquidity.rs", "position_authority_info", g, cons),
    ("pinocchio/instructions/decrease_liquidity.rs", "position_authority_info", g, cons),
    ("pinocchio/instructions/increase_liquidity_v2.rs", "position_authority_info", g, cons),
    ("pinocchio/instructions/decrease_liquidity_v2.rs", "position_authority_info", g, cons),
    ("pinocchio/instructions/increase_liquidity_by_token_amounts_v2.rs", "position_authority_info", g, cons),
    ("pinocchio/instructions/reposition_liquidity_v2.rs", "position_authority_info", g, cons) ]

/-- instructions that need no stored authority: permissionless initialisers (the funder pays),
    swaps (the token program checks the trader's own authority), fee/reward updates -/
def permissionless : List String := ["IdlInclude", "InitializeDynamicTickArray", "InitializePool", "InitializePoolV2", "InitializePositionBundle", "InitializePositionBundleWithMetadata", "InitializeTickArray", "MigrateRepurposeRewardAuthoritySpace", "OpenPosition", "OpenPositionWithMetadata", "OpenPositionWithTokenExtensions", "Swap", "SwapV2", "TwoHopSwap", "TwoHopSwapV2", "UpdateFeesAndRewards"]

/-! ### decidable checks of the regenerated tables against the requirements -/

def authOk (r : String × String × String) : Bool :=
  hasKind anchorSpecs r.1 r.2.1 "Signer" && hasAttr anchorSpecs r.1 r.2.1 "address" r.2.2

def adminOk (r : String × String × String) : Bool :=
  hasKind anchorSpecs r.1 r.2.1 "Signer" && hasAttr anchorSpecs r.1 r.2.1 "constraint" r.2.2

def linkOk (r : String × String × String × String) : Bool := hasAttr anchorSpecs r.1 r.2.1 r.2.2.1 r.2.2.2

/-- the guard call is present in the handler and precedes every fund-moving effect -/
def guardBeforeEffects (file guard : String) : Bool :=
  match handlerGuards.find? (·.1 == file) with
  | none => false
  | some (_, gs) =>
    let upToGuard := gs.takeWhile fun g => !(g.1 == "call" && g.2 == guard)
    decide (upToGuard.length < gs.length) && upToGuard.all fun g => g.1 != "effect"

def posAuthOk (r : String × String × String × String × List String × String) : Bool :=
  hasKind anchorSpecs r.1 r.2.2.1 "Signer" &&
  r.2.2.2.2.1.all (fun c => hasAttr anchorSpecs r.1 r.2.2.2.1 "constraint" c) &&
  -- an empty guard means the constraints themselves pin the owner (`token_account.owner == signer.key()`)
  (r.2.2.2.2.2 == "" && r.2.2.2.2.1.any (fun c => c == r.2.2.2.1 ++ ".owner == " ++ r.2.2.1 ++ ".key()")
   || guardBeforeEffects r.2.1 r.2.2.2.2.2)

def pinoOk (r : String × String × List String) (file : String) : Bool :=
  match pinoSpecs.find? (·.file == file) with
  | none => false
  | some s =>
    s.labels.any (fun l => l.1 == r.1 && (l.2 == "next_signer" || l.2 == "next_signer_mut")) &&
    s.core.head? == some r.2.1 &&
    r.2.2.all (fun c => s.checks.any fun k => k.1 == "verify_constraint" && k.2.1 == c)

/-- every Pinocchio-routed instruction has a requirement row and every row is routed -/
def routingOk : Bool :=
  pinoRouting.all (fun r => pinoRows.any fun p => p.1 == "pinocchio/instructions/" ++ r.2 ++ ".rs") &&
  decide (pinoRouting.length = pinoRows.length)

/-- every #[program] entry point is classified: it has an authority requirement or is explicitly permissionless -/
def completeOk : Bool :=
  programFns.all fun f =>
    authRows.any (·.1 == f.2.1) || adminRows.any (·.1 == f.2.1) || posAuthRows.any (·.1 == f.2.1) || permissionless.contains f.2.1
      -- entry points whose body is `unreachable!()` because the discriminator is routed to Pinocchio first
      || (f.2.2 == "" && pinoRouting.any fun r => pinoRows.any fun p => p.1 == "pinocchio/instructions/" ++ r.2 ++ ".rs")

/-- C04(T1): every setting-changing / protocol-fee instruction demands a SIGNER whose key is the
    authority stored on-chain for that setting. -/
theorem auth_rows_met : authRows.all authOk = true := by decide +kernel
/-- C04(T2): the admin-gated instructions check the signer against the admin key set. -/
theorem admin_rows_met : adminRows.all adminOk = true := by decide +kernel
/-- C04(T3): the account holding the stored authority is tied to the account being changed. -/
theorem link_rows_met : linkRows.all linkOk = true := by decide +kernel
/-- C04(T4): every position instruction served by Anchor demands a signer, a position-token account of
    that position holding exactly one token, and calls the authority check before any transfer. -/
theorem pos_auth_rows_met : posAuthRows.all posAuthOk = true := by decide +kernel
/-- C04(T5): the same for the Pinocchio-served instructions (`next_signer`, prologue constraints,
    `pino_verify_position_authority` as the FIRST step of the core). -/
theorem pino_rows_met : pinoRows.all (fun r => pinoOk r.2 r.1) = true := by decide +kernel
theorem routing_complete : routingOk = true := by decide +kernel
/-- C04(T6): no entry point is unclassified. -/
theorem classification_complete : completeOk = true := by decide +kernel

/-! ### what acceptance implies -/

/-- generic consequence of a met authority row: whenever the instruction's account validation accepts
    an invocation, the authority slot signed and its key equals the stored authority expression -/
theorem authority_enforced (r : String × String × String) (hr : authOk r = true) (env : Env) :
    ∃ s, findSpec anchorSpecs r.1 = some s ∧
      (accepts s env → env.isSigner r.2.1 = true ∧ env.key r.2.1 = env.evalKey r.2.2) := by
  unfold authOk at hr
  simp only [Bool.and_eq_true] at hr
  obtain ⟨hk, ha⟩ := hr
  obtain ⟨s, f, hs, hf, hkind⟩ := hasKind_sound _ _ _ _ hk
  obtain ⟨s', f', hs', hf', e, hmem⟩ := hasAttr_sound _ _ _ _ _ ha
  rw [hs] at hs'
  cases hs'
  rw [hf] at hf'
  cases hf'
  refine ⟨s, hs, ?_⟩
  intro hacc
  obtain ⟨hfm, hname⟩ := findField_mem s r.2.1 f hf
  have hfield := hacc f hfm
  constructor
  · rw [← hname]; exact hfield.1 hkind
  · have := hfield.2 _ hmem
    simp only [holdsAttr] at this
    rw [← hname]; exact this

/-- instance: set_fee_rate -/
theorem set_fee_rate_auth (env : Env) :
    ∃ s, findSpec anchorSpecs "SetFeeRate" = some s ∧
      (accepts s env → env.isSigner "fee_authority" = true ∧
        env.key "fee_authority" = env.evalKey "whirlpools_config.fee_authority") :=
  authority_enforced ("SetFeeRate", "fee_authority", "whirlpools_config.fee_authority") (by decide +kernel) env

/-- instance: collect_protocol_fees (v1 and v2) pays out only on the collect-protocol-fees authority's signature -/
theorem collect_protocol_fees_auth (env : Env) :
    ∃ s, findSpec anchorSpecs "CollectProtocolFeesV2" = some s ∧
      (accepts s env → env.isSigner "collect_protocol_fees_authority" = true ∧
        env.key "collect_protocol_fees_authority" = env.evalKey "whirlpools_config.collect_protocol_fees_authority") :=
  authority_enforced ("CollectProtocolFeesV2", "collect_protocol_fees_authority", "whirlpools_config.collect_protocol_fees_authority") (by decide +kernel) env

/-! ### the position-authority check itself -/

/-- C04(T7): the check passes only for a SIGNING holder of the position token or its one-token delegate. -/
theorem verify_position_authority_spec (owner : Nat) (delegate : Option Nat) (amt key : Nat) (signer : Bool)
    (h : verifyPositionAuthority owner delegate amt key signer = true) :
    signer = true ∧ (key = owner ∨ (delegate = some key ∧ amt = 1)) := by
  unfold verifyPositionAuthority at h
  cases delegate with
  | none => simp at h; exact ⟨h.2, Or.inl h.1.symm⟩
  | some d =>
    simp only at h
    by_cases e : key = d
    · simp [e] at h; exact ⟨h.1, Or.inr ⟨by rw [e], h.2⟩⟩
    · simp [e] at h; exact ⟨h.2, Or.inl h.1.symm⟩

-- Non-vacuity: an owner that signs passes; the right key without a signature, a wrong key, and a
-- delegate of 0 or 2 tokens do not
example : verifyPositionAuthority 7 none 0 7 true = true ∧ verifyPositionAuthority 7 none 0 7 false = false ∧
    verifyPositionAuthority 7 (some 9) 1 9 true = true ∧ verifyPositionAuthority 7 (some 9) 2 9 true = false ∧
    verifyPositionAuthority 7 (some 9) 0 9 true = false ∧ verifyPositionAuthority 7 (some 9) 1 8 true = false := by decide

end WP.C04
