import WP.Lemmas.Loop
/-
  Property C14 — adaptive fees follow the volatility schedule and stay within the hard limit.

  Model: WP/Model/FeeRate.lean (state/oracle.rs + manager/fee_rate_manager.rs) and the swap loop.
  Proved here, for all constants accepted by `validate_constants`, all stored variables satisfying
  the invariant `AfInv` (established by both constants setters, which reset the variables, and
  preserved by every swap — `af_inv_swap`), all swaps:
   * the volatility accumulator never exceeds its maximum (updateVolAcc_le), and neither does the
     stored reference (updateReference_inv) — which is what makes the unchecked u32 subtraction in
     `FeeRateManager::new` safe (new_no_wrap);
   * static rate ≤ total rate ≤ 100000 = 10% (total_rate_bounds);
   * the rate is the documented function of the accumulator: ⌈f·(acc·size)²/10¹³⌉ capped, without
     u32 wrap-around (adaptive_rate_formula), monotone in the accumulator (adaptive_rate_mono), and
     the accumulator is min(reference + 10000·|reference group − group|, max) (volAcc_formula);
   * the reference update follows the filter / decay / reset-after-3600 s rules (updateReference_spec);
   * the major-swap timestamp is set exactly when the price ratio reaches the threshold (major_swap_iff);
   * control factor 0: the adaptive rate is 0, the total rate is the static rate and no price
     target is ever bounded (zero_control), so each step computes exactly what a static pool computes;
   * trading before the trade-enable time is refused (trade_enabled_spec) — the handler guard itself
     is regenerated from the source (C15/C04 tables: `is_trade_enabled` reject rows).
-/
set_option linter.unusedSimpArgs false
namespace WP.C14
open WP WP.Gen

def AfInv (c : AfConstants) (v : AfVariables) : Prop := v.volRef ≤ c.maxVolAcc ∧ v.volAcc ≤ c.maxVolAcc

theorem updateVolAcc_le (v : AfVariables) (g : Int) (c : AfConstants) : (v.updateVolAcc g c).volAcc ≤ c.maxVolAcc := by
  unfold AfVariables.updateVolAcc; exact Nat.min_le_right _ _

/-- the accumulator of a tick group: reference + 10000 per group of distance, capped -/
theorem volAcc_formula (v : AfVariables) (g : Int) (c : AfConstants) :
    (v.updateVolAcc g c).volAcc = min (v.volRef + (v.groupIndexRef - g).natAbs * 10000) c.maxVolAcc := rfl

theorem updateVolAcc_inv (v : AfVariables) (g : Int) (c : AfConstants) (h : AfInv c v) : AfInv c (v.updateVolAcc g c) :=
  ⟨h.1, updateVolAcc_le v g c⟩

theorem updateVolAcc_other (v : AfVariables) (g : Int) (c : AfConstants) :
    (v.updateVolAcc g c).volRef = v.volRef ∧ (v.updateVolAcc g c).groupIndexRef = v.groupIndexRef ∧
    (v.updateVolAcc g c).lastRefUpdateTs = v.lastRefUpdateTs ∧ (v.updateVolAcc g c).lastMajorSwapTs = v.lastMajorSwapTs :=
  ⟨rfl, rfl, rfl, rfl⟩

/-- the documented reference rules, case by case -/
theorem updateReference_spec (v v' : AfVariables) (g : Int) (now : Nat) (c : AfConstants)
    (h : v.updateReference g now c = .ok v') :
    let maxTs := max v.lastRefUpdateTs v.lastMajorSwapTs
    now ≥ maxTs ∧ v'.volAcc = v.volAcc ∧ v'.lastMajorSwapTs = v.lastMajorSwapTs ∧
    ((now - v.lastRefUpdateTs > 3600 ∧ v'.groupIndexRef = g ∧ v'.volRef = 0 ∧ v'.lastRefUpdateTs = now) ∨
     (now - v.lastRefUpdateTs ≤ 3600 ∧ now - maxTs < c.filterPeriod ∧ v' = v) ∨
     (now - v.lastRefUpdateTs ≤ 3600 ∧ c.filterPeriod ≤ now - maxTs ∧ now - maxTs < c.decayPeriod ∧
        v'.groupIndexRef = g ∧ v'.volRef = (v.volAcc * c.reductionFactor / 10000) % TWO32 ∧ v'.lastRefUpdateTs = now) ∨
     (now - v.lastRefUpdateTs ≤ 3600 ∧ c.decayPeriod ≤ now - maxTs ∧ c.filterPeriod ≤ now - maxTs ∧
        v'.groupIndexRef = g ∧ v'.volRef = 0 ∧ v'.lastRefUpdateTs = now)) := by
  unfold AfVariables.updateReference at h
  have eA : MAX_REFERENCE_AGE = 3600 := rfl
  have eR : REDUCTION_FACTOR_DENOMINATOR = 10000 := rfl
  simp only []
  by_cases h0 : now < max v.lastRefUpdateTs v.lastMajorSwapTs
  · rw [if_pos h0] at h; cases h
  · rw [if_neg h0] at h
    refine ⟨by omega, ?_⟩
    by_cases h1 : now - v.lastRefUpdateTs > MAX_REFERENCE_AGE
    · rw [if_pos h1] at h; cases h
      exact ⟨rfl, rfl, Or.inl ⟨by omega, rfl, rfl, rfl⟩⟩
    · rw [if_neg h1] at h
      by_cases h2 : now - max v.lastRefUpdateTs v.lastMajorSwapTs < c.filterPeriod
      · rw [if_pos h2] at h; cases h
        exact ⟨rfl, rfl, Or.inr (Or.inl ⟨by omega, h2, rfl⟩)⟩
      · rw [if_neg h2] at h
        by_cases h3 : now - max v.lastRefUpdateTs v.lastMajorSwapTs < c.decayPeriod
        · rw [if_pos h3] at h; cases h
          exact ⟨rfl, rfl, Or.inr (Or.inr (Or.inl ⟨by omega, by omega, h3, rfl, by rw [eR], rfl⟩))⟩
        · rw [if_neg h3] at h; cases h
          exact ⟨rfl, rfl, Or.inr (Or.inr (Or.inr ⟨by omega, by omega, by omega, rfl, rfl, rfl⟩))⟩

theorem updateReference_inv (v v' : AfVariables) (g : Int) (now : Nat) (c : AfConstants)
    (hred : c.reductionFactor < 10000) (hinv : AfInv c v) (h : v.updateReference g now c = .ok v') : AfInv c v' := by
  obtain ⟨_, hacc, _, hcase⟩ := updateReference_spec v v' g now c h
  refine ⟨?_, by rw [hacc]; exact hinv.2⟩
  rcases hcase with ⟨_, _, h0, _⟩ | ⟨_, _, he⟩ | ⟨_, _, _, _, hr, _⟩ | ⟨_, _, _, _, h0, _⟩
  · rw [h0]; exact Nat.zero_le _
  · rw [he]; exact hinv.1
  · rw [hr]
    have h1 : v.volAcc * c.reductionFactor / 10000 ≤ v.volAcc := by
      apply Nat.div_le_of_le_mul
      have : v.volAcc * c.reductionFactor ≤ v.volAcc * 10000 := Nat.mul_le_mul_left _ (by omega)
      omega
    have h2 : v.volAcc * c.reductionFactor / 10000 % TWO32 ≤ v.volAcc * c.reductionFactor / 10000 := Nat.mod_le _ _
    have := hinv.2
    omega
  · rw [h0]; exact Nat.zero_le _

/-- both constants setters (`initialize`, set_adaptive_fee_constants) reset the variables -/
theorem reset_inv (c : AfConstants) : AfInv c {} := ⟨Nat.zero_le _, Nat.zero_le _⟩

/-- under the invariant the unchecked `max_volatility_accumulator - volatility_reference` of
    `FeeRateManager::new` does not wrap -/
theorem new_no_wrap (c : AfConstants) (v : AfVariables) (h : AfInv c v) (hm : c.maxVolAcc < TWO32) :
    (c.maxVolAcc + TWO32 - v.volRef) % TWO32 = c.maxVolAcc - v.volRef := by
  have := h.1
  have e : c.maxVolAcc + TWO32 - v.volRef = (c.maxVolAcc - v.volRef) + TWO32 := by omega
  rw [e, Nat.add_mod_right, Nat.mod_eq_of_lt (by omega)]

/-! ### the rate -/

theorem ceilDiv_le (a b n : Nat) (hb : 0 < b) (h : a ≤ n * b) : ceilDiv a b ≤ n := by
  unfold ceilDiv
  have h1 : a / b ≤ n := Nat.div_le_of_le_mul (by rw [Nat.mul_comm]; exact h)
  split
  · exact h1
  · rename_i hne
    by_cases he : a / b = n
    · exfalso; apply hne
      have := Nat.div_mul_le_self a b
      have h2 : n * b ≤ a := by rw [← he]; exact this
      rw [he]; omega
    · omega

theorem le_ceilDiv_mul (a b : Nat) (hb : 0 < b) : a ≤ ceilDiv a b * b := by
  unfold ceilDiv
  split
  · rename_i he; omega
  · have := Nat.lt_div_mul_add hb (a := a)
    rw [Nat.add_mul, Nat.one_mul]; omega

theorem ceilDiv_mono (a a' b : Nat) (hb : 0 < b) (h : a ≤ a') : ceilDiv a b ≤ ceilDiv a' b := by
  apply ceilDiv_le a b _ hb
  have := le_ceilDiv_mul a' b hb
  omega

theorem adaptive_rate_le (c : AfConstants) (v : AfVariables) : computeAdaptiveFeeRate c v ≤ FEE_RATE_HARD_LIMIT := by
  unfold computeAdaptiveFeeRate
  simp only []
  split
  · exact Nat.le_refl _
  · omega

/-- static ≤ total ≤ 10% -/
theorem total_rate_bounds (m : AdaptiveMgr) (hs : m.staticRate ≤ FEE_RATE_HARD_LIMIT) :
    m.staticRate ≤ (FeeMgr.adaptive m).totalFeeRate ∧ (FeeMgr.adaptive m).totalFeeRate ≤ FEE_RATE_HARD_LIMIT := by
  unfold FeeMgr.totalFeeRate
  simp only []
  split
  · exact ⟨hs, Nat.le_refl _⟩
  · exact ⟨Nat.le_add_right _ _, by omega⟩

/-- with validated constants and a capped accumulator the u32 product does not wrap: the rate is
    ⌈factor · (accumulator · group size)² / (100000 · 10000 · 10000)⌉, capped at 100000 -/
theorem adaptive_rate_formula (c : AfConstants) (v : AfVariables) (hc : c.maxVolAcc * c.groupSize ≤ 4294967295)
    (hv : v.volAcc ≤ c.maxVolAcc) :
    computeAdaptiveFeeRate c v =
      min (ceilDiv (c.controlFactor * ((v.volAcc * c.groupSize) * (v.volAcc * c.groupSize))) 10000000000000) 100000 := by
  unfold computeAdaptiveFeeRate
  have hlt : v.volAcc * c.groupSize < TWO32 := by
    have : v.volAcc * c.groupSize ≤ c.maxVolAcc * c.groupSize := Nat.mul_le_mul_right _ hv
    have e : TWO32 = 4294967296 := rfl
    omega
  simp only [Nat.mod_eq_of_lt hlt]
  have e1 : ADAPTIVE_FEE_CONTROL_FACTOR_DENOMINATOR * VOLATILITY_ACCUMULATOR_SCALE_FACTOR * VOLATILITY_ACCUMULATOR_SCALE_FACTOR = 10000000000000 := rfl
  have e2 : FEE_RATE_HARD_LIMIT = 100000 := rfl
  rw [e1, e2]
  split
  · rename_i h; rw [Nat.min_eq_right (by omega)]
  · rename_i h; rw [Nat.min_eq_left (by omega)]

/-- more volatility never lowers the fee -/
theorem adaptive_rate_mono (c : AfConstants) (v v' : AfVariables) (hc : c.maxVolAcc * c.groupSize ≤ 4294967295)
    (hv : v.volAcc ≤ v'.volAcc) (hv' : v'.volAcc ≤ c.maxVolAcc) :
    computeAdaptiveFeeRate c v ≤ computeAdaptiveFeeRate c v' := by
  rw [adaptive_rate_formula c v hc (by omega), adaptive_rate_formula c v' hc hv']
  have h1 : v.volAcc * c.groupSize ≤ v'.volAcc * c.groupSize := Nat.mul_le_mul_right _ hv
  have h2 := Nat.mul_le_mul h1 h1
  have h3 := Nat.mul_le_mul_left c.controlFactor h2
  have := ceilDiv_mono _ _ 10000000000000 (by omega) h3
  exact Nat.le_min.mpr ⟨Nat.le_trans (Nat.min_le_left _ _) this, Nat.min_le_right _ _⟩

/-- control factor 0: charges exactly like a static pool and never bounds a price target -/
theorem zero_control (m : AdaptiveMgr) (h0 : m.c.controlFactor = 0) (hs : m.staticRate ≤ FEE_RATE_HARD_LIMIT) (target liq : Nat) :
    computeAdaptiveFeeRate m.c m.v = 0 ∧ (FeeMgr.adaptive m).totalFeeRate = m.staticRate ∧
    ((FeeMgr.adaptive m).boundedTarget target liq).1 = target := by
  have hr : computeAdaptiveFeeRate m.c m.v = 0 := by
    unfold computeAdaptiveFeeRate ceilDiv
    simp only [h0, Nat.zero_mul, Nat.zero_div, if_true]
    have : ¬ (0 > FEE_RATE_HARD_LIMIT) := by omega
    simp only [this, if_false]
  refine ⟨hr, ?_, ?_⟩
  · unfold FeeMgr.totalFeeRate
    simp only [hr, Nat.add_zero]
    split
    · omega
    · rfl
  · unfold FeeMgr.boundedTarget
    simp [h0]

/-! ### major swap -/

theorem major_swap_iff (v v' : AfVariables) (pre post now : Nat) (c : AfConstants)
    (h : v.updateMajorSwapTs pre post now c = .ok v') :
    ∃ b, isMajorSwap pre post c.majorSwapThresholdTicks = .ok b ∧
      (b = true → v' = { v with lastMajorSwapTs := now }) ∧ (b = false → v' = v) := by
  unfold AfVariables.updateMajorSwapTs at h
  cases hb : isMajorSwap pre post c.majorSwapThresholdTicks with
  | error e => rw [hb] at h; cases h
  | ok b =>
    rw [hb] at h
    cases b with
    | true => simp only [] at h; cases h; exact ⟨true, rfl, fun _ => rfl, fun h => Bool.noConfusion h⟩
    | false => simp only [] at h; cases h; exact ⟨false, rfl, fun h => Bool.noConfusion h, fun _ => rfl⟩

/-- `is_major_swap`: the larger price is at least the smaller one times 1.0001^(threshold/2) in Q64.64 -/
theorem is_major_spec (pre post t : Nat) (b : Bool) (h : isMajorSwap pre post t = .ok b) :
    b = decide (max pre post ≥ (min pre post * sp t % TWO256) / TWO64) := by
  unfold isMajorSwap at h
  simp only [] at h
  split at h
  · cases h
  · cases h; rfl

/-! ### trade-enable time -/

/-- `OracleAccessor::is_trade_enabled` -/
def isTradeEnabled (oracleInitialized : Bool) (tradeEnableTs now : Nat) : Bool :=
  if !oracleInitialized then true else decide (tradeEnableTs ≤ now)

theorem trade_enabled_spec (tradeEnableTs now : Nat) :
    isTradeEnabled true tradeEnableTs now = false ↔ now < tradeEnableTs := by
  unfold isTradeEnabled; simp

/-! ### the invariant along a swap -/

def FmInv : FeeMgr → Prop
  | .static _ => True
  | .adaptive m => AfInv m.c m.v

theorem fm_updateVolAcc_inv (f : FeeMgr) (h : FmInv f) : FmInv f.updateVolAcc := by
  cases f with
  | static r => exact trivial
  | adaptive m => exact updateVolAcc_inv m.v m.groupIndex m.c h

theorem fm_advance_inv (f : FeeMgr) (h : FmInv f) : FmInv f.advance := by
  cases f with
  | static r => exact trivial
  | adaptive m => exact h

theorem fm_advanceAfterSkip_inv (f f' : FeeMgr) (p np : Nat) (nt : Int) (h : FmInv f) (hr : f.advanceAfterSkip p np nt = .ok f') :
    FmInv f' := by
  cases f with
  | static r => cases hr
  | adaptive m =>
    unfold FeeMgr.advanceAfterSkip at hr
    simp only [] at hr
    cases hr
    have key : ∀ (cond : Prop) [Decidable cond] (last : Int),
        AfInv (if cond then { m with groupIndex := last, v := m.v.updateVolAcc last m.c } else m).c
              (if cond then { m with groupIndex := last, v := m.v.updateVolAcc last m.c } else m).v := by
      intro cond _ last
      by_cases hc : cond
      · simp only [hc, if_true]; exact updateVolAcc_inv m.v _ m.c h
      · simp only [hc, if_false]; exact h
    exact key _ _


theorem swapStep_fm (c : SwapCtx) (s s' : SwapSt) (nai : Nat) (nti : Int) (ntp tgt : Nat)
    (h : swapStep c s nai nti ntp tgt = .ok s') :
    s'.fm = s.fm.updateVolAcc.advance ∨ ∃ p np nt, s.fm.updateVolAcc.advanceAfterSkip p np nt = .ok s'.fm := by
  unfold swapStep at h
  simp only [] at h
  split at h
  · cases h
  · split at h
    · cases h
    · split at h
      · cases h
      · split at h
        · cases h
        · split at h
          · cases h
          · rename_i fm' hfm
            simp only [Except.ok.injEq] at h
            subst h
            simp only []
            split at hfm
            · cases hfm; left; rfl
            · right; exact ⟨_, _, _, hfm⟩

theorem swapStep_fm_inv (c : SwapCtx) (s s' : SwapSt) (nai : Nat) (nti : Int) (ntp tgt : Nat)
    (hi : FmInv s.fm) (h : swapStep c s nai nti ntp tgt = .ok s') : FmInv s'.fm := by
  rcases swapStep_fm c s s' nai nti ntp tgt h with h1 | ⟨p, np, nt, h2⟩
  · rw [h1]; exact fm_advance_inv _ (fm_updateVolAcc_inv _ hi)
  · exact fm_advanceAfterSkip_inv _ _ p np nt (fm_updateVolAcc_inv _ hi) h2

theorem new_inv (aToB : Bool) (cur : Int) (now rate : Nat) (info : AfInfo) (f : FeeMgr)
    (hred : info.constants.reductionFactor < 10000) (hi : AfInv info.constants info.variables)
    (h : FeeMgr.new aToB cur now rate (some info) = .ok f) : FmInv f := by
  unfold FeeMgr.new at h
  simp only [] at h
  split at h
  · cases h
  · rename_i v hv
    cases h
    exact updateReference_inv _ _ _ _ _ hred hi hv

/-- **the invariant along a whole swap**: on an adaptive-fee pool whose stored variables satisfy the
    invariant, the variables stored after a successful swap satisfy it again (accumulator and
    reference ≤ the configured maximum), with unchanged constants -/
theorem af_inv_swap (p : PoolD) (ticks : TickMap) (arrays : List Int) (amount limit : Nat) (isInput aToB : Bool)
    (now : Nat) (info : AfInfo) (fuel : Nat) (u : PostSwap)
    (hred : info.constants.reductionFactor < 10000) (hi : AfInv info.constants info.variables)
    (h : swap p ticks arrays amount limit isInput aToB now (some info) fuel = .ok u) :
    ∃ info', u.afInfo = some info' ∧ AfInv info'.constants info'.variables := by
  unfold swap at h
  split at h
  · cases h
  · split at h
    · cases h
    · rename_i rewards _
      split at h
      · cases h
      · rename_i fm hfm
        split at h
        · cases h
        · rename_i s hs
          have h0 : FmInv fm := new_inv _ _ _ _ _ _ hred hi hfm
          have hadp : ∃ m, fm = .adaptive m := by
            unfold FeeMgr.new at hfm
            simp only [] at hfm
            split at hfm
            · cases hfm
            · cases hfm; exact ⟨_, rfl⟩
          have hP : FmInv s.fm ∧ ∃ m, s.fm = .adaptive m := by
            refine swapLoop_induct _ (fun st => FmInv st.fm ∧ ∃ m, st.fm = .adaptive m) ?_ fuel _ s none ?_ hs
            · intro a b nai nti ntp tgt ⟨ha, m, hm⟩ hstep
              refine ⟨swapStep_fm_inv _ _ _ _ _ _ _ ha hstep, ?_⟩
              rcases swapStep_fm _ _ _ _ _ _ _ hstep with h1 | ⟨q, np, nt, h2⟩
              · rw [h1, hm]; exact ⟨_, rfl⟩
              · rw [hm] at h2
                unfold FeeMgr.updateVolAcc FeeMgr.advanceAfterSkip at h2
                simp only [] at h2
                cases h2' : b.fm with
                | static r => rw [h2'] at h2; cases h2
                | adaptive m2 => exact ⟨m2, rfl⟩
            · exact ⟨h0, hadp⟩
          obtain ⟨hs1, m, hm⟩ := hP
          unfold swapFinish at h
          split at h
          · cases h
          · split at h
            · cases h
            · rename_i fm' hfm'
              cases h
              rw [hm] at hfm'
              unfold FeeMgr.updateMajorSwapTs at hfm'
              simp only [] at hfm'
              split at hfm'
              · cases hfm'
              · rename_i v' hv'
                cases hfm'
                refine ⟨_, rfl, ?_⟩
                rw [hm] at hs1
                obtain ⟨b, _, ht, hf⟩ := major_swap_iff _ _ _ _ _ _ hv'
                cases b with
                | true => rw [ht rfl]; exact hs1
                | false => rw [hf rfl]; exact hs1

/-! ### every step of every swap is charged the rate of a tick group -/

/-- the rate of tick group `g` when the volatility reference is `volRef` at reference group `gRef`: static rate plus
    the adaptive rate of the group's accumulator  min(volRef + 10000·|gRef − g|, maximum),  capped at the hard limit -/
def groupRate (staticRate : Nat) (c : AfConstants) (volRef : Nat) (gRef g : Int) : Nat :=
  let acc := min (volRef + (gRef - g).natAbs * VOLATILITY_ACCUMULATOR_SCALE_FACTOR) c.maxVolAcc
  let t := staticRate + computeAdaptiveFeeRate c { volAcc := acc }
  if t > FEE_RATE_HARD_LIMIT then FEE_RATE_HARD_LIMIT else t

theorem groupRate_bounds (r : Nat) (c : AfConstants) (vr : Nat) (gr g : Int) (hr : r ≤ FEE_RATE_HARD_LIMIT) :
    r ≤ groupRate r c vr gr g ∧ groupRate r c vr gr g ≤ FEE_RATE_HARD_LIMIT := by
  unfold groupRate
  simp only []
  split <;> omega

/-- what stays fixed in the fee manager during a whole swap -/
def Frozen (r0 : Nat) (c0 : AfConstants) (vr : Nat) (gr : Int) (f : FeeMgr) : Prop :=
  ∃ m, f = .adaptive m ∧ m.staticRate = r0 ∧ m.c = c0 ∧ m.v.volRef = vr ∧ m.v.groupIndexRef = gr

theorem frozen_updateVolAcc (r0 : Nat) (c0 : AfConstants) (vr : Nat) (gr : Int) (f : FeeMgr) (h : Frozen r0 c0 vr gr f) :
    Frozen r0 c0 vr gr f.updateVolAcc := by
  obtain ⟨m, rfl, a, b, c, d⟩ := h
  exact ⟨_, rfl, a, b, c, d⟩

theorem frozen_advance (r0 : Nat) (c0 : AfConstants) (vr : Nat) (gr : Int) (f : FeeMgr) (h : Frozen r0 c0 vr gr f) :
    Frozen r0 c0 vr gr f.advance := by
  obtain ⟨m, rfl, a, b, c, d⟩ := h
  exact ⟨_, rfl, a, b, c, d⟩

theorem frozen_afterSkip (r0 : Nat) (c0 : AfConstants) (vr : Nat) (gr : Int) (f f' : FeeMgr) (p np : Nat) (nt : Int)
    (h : Frozen r0 c0 vr gr f) (hs : f.advanceAfterSkip p np nt = .ok f') : Frozen r0 c0 vr gr f' := by
  obtain ⟨m, rfl, a, b, c, d⟩ := h
  unfold FeeMgr.advanceAfterSkip at hs
  simp only [] at hs
  cases hs
  refine ⟨_, rfl, ?_, ?_, ?_, ?_⟩
  all_goals simp only []
  all_goals (repeat' split)
  all_goals first | exact a | exact b | exact c | exact d

/-- **C14, per step**: on an adaptive-fee pool a step is computed (`compute_swap`) with the rate of the manager's
    current tick group and recorded with exactly that rate -/
theorem step_charge (c : SwapCtx) (s s' : SwapSt) (nai : Nat) (nti : Int) (ntp tgt : Nat) (m : AdaptiveMgr)
    (hm : s.fm = .adaptive m) (h : swapStep c s nai nti ntp tgt = .ok s') :
    ∃ sc, computeSwap s.remaining (groupRate m.staticRate m.c m.v.volRef m.v.groupIndexRef m.groupIndex) s.liq s.price
            (s.fm.updateVolAcc.boundedTarget tgt s.liq).1 c.isInput c.aToB = .ok sc ∧
      s'.steps = (s.liq, groupRate m.staticRate m.c m.v.volRef m.v.groupIndexRef m.groupIndex,
                  sc.amountIn, sc.amountOut, sc.feeAmount, sc.nextPrice) :: s.steps ∧
      s'.price = sc.nextPrice := by
  have hrate : s.fm.updateVolAcc.totalFeeRate = groupRate m.staticRate m.c m.v.volRef m.v.groupIndexRef m.groupIndex := by
    rw [hm]
    unfold FeeMgr.updateVolAcc FeeMgr.totalFeeRate groupRate AfVariables.updateVolAcc computeAdaptiveFeeRate
    rfl
  unfold swapStep at h
  simp only [] at h
  split at h
  · cases h
  · rename_i sc hsc
    split at h
    · cases h
    · split at h
      · cases h
      · split at h
        · cases h
        · split at h
          · cases h
          · simp only [Except.ok.injEq] at h
            subst h
            rw [hrate] at hsc
            exact ⟨sc, hsc, by simp only [hrate], rfl⟩

/-- **C14 along a whole swap**: every step of every successful swap of an adaptive-fee pool was charged the rate
    `groupRate` of SOME tick group, computed from the pool's static rate, the stored constants, and the volatility
    reference / reference group fixed by `update_reference` at the start of the swap — hence at least the static
    rate and at most 10 % (`groupRate_bounds`) -/
theorem swap_steps_charged (p : PoolD) (ticks : TickMap) (arrays : List Int) (amount limit : Nat) (isInput aToB : Bool)
    (now : Nat) (info : AfInfo) (fuel : Nat) (u : PostSwap)
    (h : swap p ticks arrays amount limit isInput aToB now (some info) fuel = .ok u) :
    ∃ v0, info.variables.updateReference (p.tick / (info.constants.groupSize : Int)) now info.constants = .ok v0 ∧
      ∀ e ∈ u.steps, ∃ g : Int, e.2.1 = groupRate p.feeRate info.constants v0.volRef v0.groupIndexRef g := by
  unfold swap at h
  split at h
  · cases h
  · split at h
    · cases h
    · rename_i rewards _
      split at h
      · cases h
      · rename_i fm hfm
        split at h
        · cases h
        · rename_i s hs
          -- the manager built at the start
          unfold FeeMgr.new at hfm
          simp only [] at hfm
          split at hfm
          · cases hfm
          · rename_i v0 hv0
            cases hfm
            refine ⟨v0, hv0, ?_⟩
            have hP : Frozen p.feeRate info.constants v0.volRef v0.groupIndexRef s.fm ∧
                ∀ e ∈ s.steps, ∃ g : Int, e.2.1 = groupRate p.feeRate info.constants v0.volRef v0.groupIndexRef g := by
              refine swapLoop_induct _ (fun st => Frozen p.feeRate info.constants v0.volRef v0.groupIndexRef st.fm ∧
                ∀ e ∈ st.steps, ∃ g : Int, e.2.1 = groupRate p.feeRate info.constants v0.volRef v0.groupIndexRef g) ?_ fuel _ s none ?_ hs
              · intro a b nai nti ntp tgt ⟨hf, hst⟩ hstep
                constructor
                · rcases swapStep_fm _ _ _ _ _ _ _ hstep with h1 | ⟨q, np, nt, h2⟩
                  · rw [h1]; exact frozen_advance _ _ _ _ _ (frozen_updateVolAcc _ _ _ _ _ hf)
                  · exact frozen_afterSkip _ _ _ _ _ _ q np nt (frozen_updateVolAcc _ _ _ _ _ hf) h2
                · obtain ⟨m, hm, e1, e2, e3, e4⟩ := hf
                  obtain ⟨sc, _, hsteps, _⟩ := step_charge _ _ _ _ _ _ _ m hm hstep
                  rw [hsteps]
                  intro e he
                  rcases List.mem_cons.mp he with rfl | he
                  · exact ⟨m.groupIndex, by simp only []; rw [e1, e2, e3, e4]⟩
                  · exact hst e he
              · exact ⟨⟨_, rfl, rfl, rfl, rfl, rfl⟩, fun e he => by simp [swapInit] at he⟩
            unfold swapFinish at h
            split at h
            · cases h
            · split at h
              · cases h
              · cases h
                intro e he
                exact hP.2 e (List.mem_reverse.mp he)

end WP.C14
