import WP.Props.GrowthPath
import WP.Props.C11
/-
  C11 along the whole swap: a swap accrues each initialized reward ONCE, at its start, for the time
  since the last update and for the liquidity that was in range then; after that, however many
  ticks it crosses, the reward growth INSIDE every liquidity-bearing range stays what it was —
  crossing (flipping the reward-growth-outside values against the reward's global growth) moves no
  reward between ranges.
-/
set_option linter.unusedSimpArgs false
namespace WP.Growth
open WP WP.Gen WP.C05 WP.C10 WP.Path WP.C07

/-- reward-growth-outside value `i` of a tick -/
def ro (i : Nat) (t : TickData) : Nat := t.rgo.getD i 0

theorem range3_getD (f : Nat → Nat) (i : Nat) (hi : i < 3) : ((List.range 3).map f).getD i 0 = f i := by
  have : List.range 3 = [0, 1, 2] := by decide
  rw [this]
  match i, hi with
  | 0, _ => rfl
  | 1, _ => rfl
  | 2, _ => rfl

theorem ro_cross (i : Nat) (hi : i < 3) (t : TickData) (ga gb : Nat) (rw : List RewardInfo) :
    ro i (nextTickCrossUpdate t ga gb rw) =
      if !(rw.getD i {}).initialized then ro i t else wsub (rw.getD i {}).growth (ro i t) := by
  unfold nextTickCrossUpdate ro
  simp only []
  rw [range3_getD _ i hi]

/-- every stored reward growth value is a u128 -/
def RewardsWF (ticks : TickMap) : Prop := ∀ t i, i < 3 → ro i (ticks.get t) < TWO128

theorem rewardsWF_cross (ticks : TickMap) (wf : RewardsWF ticks) (nti : Int) (ga gb : Nat) (rw : List RewardInfo) :
    RewardsWF (ticks.set nti (nextTickCrossUpdate (ticks.get nti) ga gb rw)) := by
  intro t i hi
  rw [C05.tick_get_set]
  by_cases e : t = nti
  · rw [if_pos e, ro_cross i hi]
    split
    · exact wf nti i hi
    · exact wsub_lt _ _
  · rw [if_neg e]; exact wf t i hi

/-- the reward invariant of the loop -/
structure RewardInv (c : SwapCtx) (ps : List (Nat × PositionD)) (s0 s : SwapSt) : Prop where
  wf : RewardsWF s.ticks
  same : ∀ i, i < 3 → (c.rewards.getD i {}).initialized = true → ∀ lo hi, lo < hi → Bound ps lo → Bound ps hi →
    insideInit s.tick lo (ro i (s.ticks.get lo)) hi (ro i (s.ticks.get hi)) (c.rewards.getD i {}).growth =
      insideInit s0.tick lo (ro i (s0.ticks.get lo)) hi (ro i (s0.ticks.get hi)) (c.rewards.getD i {}).growth

theorem step_reward (c : SwapCtx) (ps : List (Nat × PositionD)) (p0 : Nat) (s0 s s' : SwapSt) (nai : Nat) (nti : Int)
    (hG : ∀ i, (c.rewards.getD i {}).growth < TWO128)
    (P : Path c ps p0 s) (_A : Aim c s nai nti) (sh : Shape c s s' nti) (_P' : Path c ps p0 s')
    (q : RewardInv c ps s0 s) : RewardInv c ps s0 s' := by
  obtain ⟨_, hmove⟩ := sh
  exact
    { wf := by
        rcases hmove with ⟨_, b, _⟩ | ⟨h2, _⟩
        · rcases b with ⟨_, b2⟩ | ⟨_, b2⟩
          · rw [b2]; exact rewardsWF_cross _ q.wf _ _ _ _
          · rw [b2]; exact q.wf
        · rw [h2]; exact q.wf,
      same := by
        intro i hi hinit lo hi' hlh bl bh
        rw [← q.same i hi hinit lo hi' hlh bl bh]
        apply move_inside_gen c ps s s' nti lo hi' (ro i) (c.rewards.getD i {}).growth P.tf (fun t => q.wf t i hi) (hG i) hlh bl bh
        rcases hmove with ⟨a, b, c'⟩ | h2
        · left
          refine ⟨a, ?_, c'⟩
          rcases b with ⟨b1, b2⟩ | b
          · left
            refine ⟨b1, _, b2, ?_⟩
            rw [ro_cross i hi, hinit]
            simp only [Bool.not_true, Bool.false_eq_true, if_false]
          · right; exact b
        · right; exact h2 }

/-- **C11 for a whole swap**: with `rewards` the reward infos accrued at the start of the swap
    (`nextRewardInfos`, C11.accrual_spec: each initialized reward advanced by ⌊dt·emissions/L⌋),
    the pool ends with exactly those infos, and for every initialized reward and every range bounded
    by liquidity-bearing ticks the reward growth inside the range is the same after the swap as
    before it (both read against the accrued global growth): crossings move no reward. -/
theorem swap_reward_growth (p : PoolD) (ticks : TickMap) (ps : List (Nat × PositionD)) (arrays : List Int) (amount limit : Nat)
    (isInput aToB : Bool) (now fuel : Nat) (af : Option AfInfo) (u : PostSwap)
    (hts : 0 < p.ts) (hseq : SeqOK arrays p.ts aToB)
    (hliq : (p.liq : Int) = sumBy (inRangeLiq p.tick) ps) (tf : TickFacts ticks ps p.ts) (tp : TP p.tick p.price)
    (hL : p.liq ≤ U128_MAX) (hfee : p.feeRate ≤ FEE_RATE_HARD_LIMIT) (hamt : amount ≤ U64_MAX)
    (haf : ∀ info, af = some info → InfoOK info)
    (wf : RewardsWF ticks) (hGp : ∀ r ∈ p.rewards, r.growth < TWO128)
    (h : swap p ticks arrays amount limit isInput aToB now af fuel = .ok u) :
    ∃ rewards, nextRewardInfos p now = .ok rewards ∧ u.rewards = rewards ∧ RewardsWF u.ticks ∧
      ∀ i, i < 3 → (rewards.getD i {}).initialized = true → ∀ lo hi, lo < hi → Bound ps lo → Bound ps hi →
        insideInit u.tick lo (ro i (u.ticks.get lo)) hi (ro i (u.ticks.get hi)) (rewards.getD i {}).growth =
          insideInit p.tick lo (ro i (ticks.get lo)) hi (ro i (ticks.get hi)) (rewards.getD i {}).growth := by
  obtain ⟨rewards, fm, s, ok, P0, hloop, hfin, hrw⟩ :=
    swap_setup p ticks ps arrays amount limit isInput aToB now fuel af u hts hseq hliq tf tp hL hfee hamt haf h
  have hG : ∀ i, ((swapCtxOf p arrays limit isInput aToB rewards).rewards.getD i {}).growth < TWO128 := by
    intro i
    show (rewards.getD i {}).growth < TWO128
    have hz : (0 : Nat) < TWO128 := by decide
    have hall : ∀ r ∈ rewards, r.growth < TWO128 := by
      unfold nextRewardInfos at hrw
      split at hrw
      · cases hrw
      · split at hrw
        · cases hrw; exact hGp
        · cases hrw
          intro r hr
          obtain ⟨r0, hr0, e⟩ := List.mem_map.mp hr
          rw [← e]
          split
          · exact hGp r0 hr0
          · exact wadd_lt _ _
    unfold List.getD
    cases hget : rewards[i]? with
    | none => exact hz
    | some r => exact hall r (List.mem_of_getElem? hget)
  have q0 : RewardInv (swapCtxOf p arrays limit isInput aToB rewards) ps (swapInit p ticks amount aToB fm)
      (swapInit p ticks amount aToB fm) := { wf := wf, same := fun _ _ _ _ _ _ _ _ => rfl }
  obtain ⟨_, inv⟩ := loop_path_inv _ ps p.price ok
    (fun st => RewardInv (swapCtxOf p arrays limit isInput aToB rewards) ps (swapInit p ticks amount aToB fm) st)
    (fun a b nai nti Pa A sh Pb q => step_reward _ ps p.price _ a b nai nti hG Pa A sh Pb q)
    fuel _ none s P0 q0 (fun _ _ _ _ he => by cases he) hloop
  unfold swapFinish at hfin
  split at hfin
  · cases hfin
  · split at hfin
    · cases hfin
    · cases hfin
      exact ⟨rewards, hrw, rfl, inv.wf, fun i hi hinit lo hi' hlh bl bh => inv.same i hi hinit lo hi' hlh bl bh⟩

end WP.Growth
