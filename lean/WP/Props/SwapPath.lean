import WP.Props.FeePath
import WP.Lemmas.Loop
/-
  The swap path: composition of the step lemmas along the whole swap loop (static and adaptive fee).

  Invariant `Path` of the loop state, relative to the (unchanged) list of positions `ps`:
    * pool liquidity = Σ liquidity of the positions covering the current tick        (C05)
    * every tick's net / gross / initialized flag are the sums over `ps`             (C05)
    * the current tick index and price are consistent (`TP`)                         (C09)
    * the price lies between the start price and the limit                           (C03 PriceBounded)
  proved to be preserved by every iteration given that the next-tick search returned the nearest
  initialized tick (`seqNext_*_interval`, C10) and that a step never moves the price past its target
  (`step_direction`, C02).  Consequences: `SwapPreserves` (C05), `PriceBounded` (C03) and "the swap
  crosses exactly the initialized ticks on its path" (C10) over consecutive,
  aligned tick arrays (what `try_build` hands to the loop: `start_indexes_consec`, `validStart_mod`).
-/
set_option linter.unusedSimpArgs false
namespace WP.Path
open WP WP.Gen WP.C05 WP.C10

/-! ### one iteration, static fee -/

/-- what `stepCross` does, case by case -/
theorem stepCross_spec (c : SwapCtx) (s : SwapSt) (sc : SwapStep) (fgIn nai : Nat) (nti : Int) (ntp : Nat) (cr : CrossRes)
    (h : stepCross c s sc fgIn nai nti ntp = .ok cr) :
    (sc.nextPrice = ntp ∧ cr.tick = (if c.aToB then nti - 1 else nti) ∧ ∃ start, c.arrays[nai]? = some start ∧
      (((inArrayUsable start c.ts nti && (s.ticks.get nti).initialized) = true ∧
          addLiquidityDelta s.liq (if c.aToB then -(s.ticks.get nti).net else (s.ticks.get nti).net) = .ok cr.liq ∧
          cr.ticks = s.ticks.set nti (nextTickCrossUpdate (s.ticks.get nti) (if c.aToB then fgIn else c.fgOtherA)
            (if c.aToB then c.fgOtherB else fgIn) c.rewards)) ∨
       ((inArrayUsable start c.ts nti && (s.ticks.get nti).initialized) = false ∧ cr.liq = s.liq ∧ cr.ticks = s.ticks))) ∨
    (sc.nextPrice ≠ ntp ∧ sc.nextPrice ≠ s.price ∧ cr.tick = ti sc.nextPrice ∧ cr.liq = s.liq ∧ cr.ticks = s.ticks) ∨
    (sc.nextPrice ≠ ntp ∧ sc.nextPrice = s.price ∧ cr.tick = s.tick ∧ cr.liq = s.liq ∧ cr.ticks = s.ticks) := by
  unfold stepCross at h
  by_cases hp : sc.nextPrice = ntp
  · rw [if_pos hp] at h
    simp only [] at h
    cases hst : c.arrays[nai]? with
    | none => rw [hst] at h; simp at h
    | some start =>
      rw [hst] at h
      simp only [] at h
      left
      by_cases hti : (inArrayUsable start c.ts nti && (s.ticks.get nti).initialized) = true
      · rw [if_pos hti] at h
        cases hal : addLiquidityDelta s.liq (if c.aToB = true then -(s.ticks.get nti).net else (s.ticks.get nti).net) with
        | error e => rw [hal] at h; cases h
        | ok l =>
          rw [hal] at h
          simp only [] at h
          split at h
          · cases h
          · cases h
            exact ⟨hp, rfl, start, rfl, Or.inl ⟨hti, rfl, rfl⟩⟩
      · rw [if_neg hti] at h
        simp only [] at h
        split at h
        · cases h
        · cases h
          exact ⟨hp, rfl, start, rfl, Or.inr ⟨by simpa using hti, rfl, rfl⟩⟩
  · rw [if_neg hp] at h
    by_cases hq : sc.nextPrice ≠ s.price
    · rw [if_pos hq] at h; cases h
      right; left; exact ⟨hp, hq, rfl, rfl, rfl⟩
    · rw [if_neg hq] at h; cases h
      right; right; exact ⟨hp, by simpa using hq, rfl, rfl, rfl⟩

/-- the parts of one iteration -/
theorem swapStep_parts (c : SwapCtx) (s s' : SwapSt) (nai : Nat) (nti : Int) (ntp tgt : Nat)
    (h : swapStep c s nai nti ntp tgt = .ok s') :
    ∃ sc fg cr, computeSwap s.remaining s.fm.updateVolAcc.totalFeeRate s.liq s.price
        (s.fm.updateVolAcc.boundedTarget tgt s.liq).1 c.isInput c.aToB = .ok sc ∧
      stepCross c s sc fg nai nti ntp = .ok cr ∧
      s'.price = sc.nextPrice ∧ s'.tick = cr.tick ∧ s'.liq = cr.liq ∧ s'.ticks = cr.ticks ∧
      (fg = (calculateFees sc.feeAmount c.protoRate s.liq s.protoFee s.fgIn).2 ∧ s'.fgIn = fg) ∧
      (((s.fm.updateVolAcc.boundedTarget tgt s.liq).2 = false ∧ s'.fm = s.fm.updateVolAcc.advance) ∨
        s.fm.updateVolAcc.advanceAfterSkip sc.nextPrice ntp nti = .ok s'.fm) ∧
      s'.remaining ≤ s.remaining := by
  have hle : s'.remaining ≤ s.remaining := by
    obtain ⟨sc2, _, _, hamt, _⟩ := C06.swapStep_inv c s s' nai nti ntp tgt h
    split at hamt <;> omega
  unfold swapStep at h
  simp only [] at h
  split at h
  · cases h
  · rename_i sc hsc
    split at h
    · cases h
    · split at h
      · cases h
      · split at h
        · cases h
        · rename_i cr hcr
          split at h
          · cases h
          · rename_i fm' hfm'
            cases h
            refine ⟨sc, _, cr, hsc, hcr, rfl, rfl, rfl, rfl, ⟨rfl, rfl⟩, ?_, hle⟩
            by_cases hb : (s.fm.updateVolAcc.boundedTarget tgt s.liq).2 = true
            · right
              rw [hb] at hfm'
              simp only [Bool.not_true, Bool.false_eq_true, if_false] at hfm'
              exact hfm'
            · left
              have hb' : (s.fm.updateVolAcc.boundedTarget tgt s.liq).2 = false := by
                cases hh : (s.fm.updateVolAcc.boundedTarget tgt s.liq).2 with
                | true => exact absurd hh hb
                | false => rfl
              rw [hb'] at hfm'
              simp only [Bool.not_false, if_true] at hfm'
              cases hfm'
              exact ⟨hb', rfl⟩

/-! ### the loop invariant -/

theorem addLiq_spec (l l' : Nat) (d : Int) (h : addLiquidityDelta l d = .ok l') (hl : l ≤ U128_MAX) :
    (l' : Int) = l + d ∧ l' ≤ U128_MAX := by
  unfold addLiquidityDelta at h
  by_cases h0 : d = 0
  · rw [if_pos h0] at h; cases h; exact ⟨by omega, hl⟩
  · rw [if_neg h0] at h
    by_cases hp : d > 0
    · rw [if_pos hp] at h
      split at h
      · cases h; exact ⟨by omega, by assumption⟩
      · cases h
    · rw [if_neg hp] at h
      split at h
      · cases h; exact ⟨by omega, by omega⟩
      · cases h

/-- the facts about the swap's fixed context the path proof uses (`swap`'s own guards give the
    limit bounds; the account loader gives aligned, consecutive arrays: C10 `buildSeq_spec`) -/
structure CtxOK (c : SwapCtx) : Prop where
  ts : 0 < c.ts
  consec : if c.aToB then C10.ConsecDown c.arrays c.ts else C10.ConsecUp c.arrays c.ts
  aligned : C10.StartsAligned c.arrays c.ts
  lim_lo : MIN_SQRT_PRICE_X64 ≤ c.limit
  lim_hi : c.limit ≤ MAX_SQRT_PRICE_X64

/-- the invariant of the swap loop, relative to the open positions `ps` and the starting price `p0` -/
structure Path (c : SwapCtx) (ps : List (Nat × PositionD)) (p0 : Nat) (s : SwapSt) : Prop where
  liq : (s.liq : Int) = sumBy (inRangeLiq s.tick) ps
  tf : TickFacts s.ticks ps c.ts
  tp : TP s.tick s.price
  lim : if c.aToB then c.limit ≤ s.price ∧ s.price ≤ p0 else p0 ≤ s.price ∧ s.price ≤ c.limit
  fm : FmOK c.aToB s.tick s.fm
  remU : s.remaining ≤ U64_MAX
  liqU : s.liq ≤ U128_MAX

/-- inside the inner loop: `nti` is the next tick to reach, nothing initialized lies between -/
def Aim (c : SwapCtx) (s : SwapSt) (nai : Nat) (nti : Int) : Prop :=
  MIN_TICK_INDEX ≤ nti ∧ nti ≤ MAX_TICK_INDEX ∧
  (∃ st, c.arrays[nai]? = some st ∧ st - (c.ts : Int) < nti ∧ nti < st + 88 * (c.ts : Int)) ∧
  (if c.aToB then nti ≤ s.tick ∧ ∀ x, nti < x → x ≤ s.tick → x % (c.ts : Int) = 0 → initAt s.ticks x = false
   else s.tick < nti ∧ ∀ x, s.tick < x → x < nti → x % (c.ts : Int) = 0 → initAt s.ticks x = false)

theorem cross_upd_same (t : TickData) (ga gb : Nat) (rw : List RewardInfo) :
    (nextTickCrossUpdate t ga gb rw).net = t.net ∧ (nextTickCrossUpdate t ga gb rw).gross = t.gross ∧
    (nextTickCrossUpdate t ga gb rw).initialized = t.initialized := by
  unfold nextTickCrossUpdate
  exact ⟨rfl, rfl, rfl⟩

/-- a tick the loop reaches but does not cross is not initialized: an initialized tick is a grid tick
    inside the bounds, hence a slot of the array the search reported it in -/
theorem not_init_of_not_crossed (c : SwapCtx) (ps : List (Nat × PositionD)) (s : SwapSt) (start nti : Int)
    (ok : CtxOK c) (tf : TickFacts s.ticks ps c.ts) (hst : start % (c.ts : Int) = 0)
    (h1 : start - (c.ts : Int) < nti) (h2 : nti < start + 88 * (c.ts : Int))
    (hno : (inArrayUsable start c.ts nti && (s.ticks.get nti).initialized) = false) : initAt s.ticks nti = false := by
  have hT : ((TICK_ARRAY_SIZE : Nat) : Int) = 88 := rfl
  cases hi : initAt s.ticks nti with
  | false => rfl
  | true =>
    exfalso
    obtain ⟨g1, g2, g3⟩ := init_grid s.ticks ps c.ts tf nti hi
    have hge := C10.grid_ge start nti c.ts ok.ts hst g1 h1
    unfold initAt at hi
    rw [hi] at hno
    have hu : inArrayUsable start c.ts nti = true := by
      unfold inArrayUsable isUsableTick
      rw [hT]
      rw [decide_eq_true (show nti ≥ start from hge), decide_eq_true h2, decide_eq_true g2, decide_eq_true g3, decide_eq_true g1]
      rfl
    rw [hu] at hno
    cases hno

theorem cross_facts (c : SwapCtx) (ps : List (Nat × PositionD)) (s : SwapSt) (liq' : Nat) (ticks' : TickMap) (start nti : Int) (ga gb : Nat)
    (ok : CtxOK c) (tf : TickFacts s.ticks ps c.ts) (hst : start % (c.ts : Int) = 0)
    (h1 : start - (c.ts : Int) < nti) (h2 : nti < start + 88 * (c.ts : Int)) (hL : s.liq ≤ U128_MAX)
    (h : ((inArrayUsable start c.ts nti && (s.ticks.get nti).initialized) = true ∧
          addLiquidityDelta s.liq (if c.aToB then -(s.ticks.get nti).net else (s.ticks.get nti).net) = .ok liq' ∧
          ticks' = s.ticks.set nti (nextTickCrossUpdate (s.ticks.get nti) ga gb c.rewards)) ∨
       ((inArrayUsable start c.ts nti && (s.ticks.get nti).initialized) = false ∧ liq' = s.liq ∧ ticks' = s.ticks)) :
    (liq' : Int) = s.liq + (if c.aToB then -(sumBy (netContrib nti) ps) else sumBy (netContrib nti) ps) ∧
    TickFacts ticks' ps c.ts ∧ liq' ≤ U128_MAX := by
  have hT : ((TICK_ARRAY_SIZE : Nat) : Int) = 88 := rfl
  rcases h with ⟨_, hadd, hticks⟩ | ⟨hno, hl, ht⟩
  · obtain ⟨e1, e2⟩ := addLiq_spec _ _ _ hadd hL
    refine ⟨?_, ?_, e2⟩
    · rw [e1, tf.net nti]
    · rw [hticks]
      have hget : ∀ i, ((s.ticks.set nti (nextTickCrossUpdate (s.ticks.get nti) ga gb c.rewards)).get i).net = (s.ticks.get i).net ∧
          ((s.ticks.set nti (nextTickCrossUpdate (s.ticks.get nti) ga gb c.rewards)).get i).gross = (s.ticks.get i).gross ∧
          ((s.ticks.set nti (nextTickCrossUpdate (s.ticks.get nti) ga gb c.rewards)).get i).initialized = (s.ticks.get i).initialized := by
        intro i
        rw [C05.tick_get_set]
        by_cases e : i = nti
        · rw [if_pos e, e]
          exact cross_upd_same _ _ _ _
        · rw [if_neg e]; exact ⟨rfl, rfl, rfl⟩
      exact { net := fun i => by rw [(hget i).1]; exact tf.net i,
              gross := fun i => by rw [(hget i).2.1]; exact tf.gross i,
              init := fun i => by rw [(hget i).2.1, (hget i).2.2]; exact tf.init i,
              ordered := tf.ordered, grid := tf.grid }
  · rw [hl, ht]
    refine ⟨?_, tf, hL⟩
    have hz : sumBy (netContrib nti) ps = 0 := by
      apply C05.net_zero_of_gross_zero
      cases hi : initAt s.ticks nti with
      | false => exact gross_zero_of_not_init s.ticks ps c.ts tf nti hi
      | true =>
        exfalso
        obtain ⟨g1, g2, g3⟩ := init_grid s.ticks ps c.ts tf nti hi
        have hge := C10.grid_ge start nti c.ts ok.ts hst g1 h1
        unfold initAt at hi
        rw [hi] at hno
        have hu : inArrayUsable start c.ts nti = true := by
          unfold inArrayUsable isUsableTick
          rw [hT]
          rw [decide_eq_true (show nti ≥ start from hge), decide_eq_true h2, decide_eq_true g2, decide_eq_true g3, decide_eq_true g1]
          rfl
        rw [hu] at hno
        cases hno
    rw [hz]
    by_cases hd : c.aToB = true
    · rw [if_pos hd, Int.neg_zero, Int.add_zero]
    · rw [if_neg hd, Int.add_zero]


/-- what one iteration did, in the terms the fee and reward accounting needs: the input-token fee
    growth advanced by the step's LP fee share; then either the tick `nti` was reached (flipped iff
    initialized, nothing initialized skipped on the way) or the tick index moved without passing
    any initialized tick -/
def Shape (c : SwapCtx) (s s' : SwapSt) (nti : Int) : Prop :=
  (∃ fee, s'.fgIn = (calculateFees fee c.protoRate s.liq s.protoFee s.fgIn).2) ∧
  ((s'.tick = (if c.aToB then nti - 1 else nti) ∧
      ((initAt s.ticks nti = true ∧ s'.ticks = s.ticks.set nti (nextTickCrossUpdate (s.ticks.get nti)
          (if c.aToB then s'.fgIn else c.fgOtherA) (if c.aToB then c.fgOtherB else s'.fgIn) c.rewards)) ∨
       (initAt s.ticks nti = false ∧ s'.ticks = s.ticks)) ∧
      (if c.aToB then nti ≤ s.tick ∧ ∀ x, nti < x → x ≤ s.tick → x % (c.ts : Int) = 0 → initAt s.ticks x = false
       else s.tick < nti ∧ ∀ x, s.tick < x → x < nti → x % (c.ts : Int) = 0 → initAt s.ticks x = false)) ∨
   (s'.ticks = s.ticks ∧
      (if c.aToB then s'.tick ≤ s.tick ∧ ∀ x, s'.tick < x → x ≤ s.tick → x % (c.ts : Int) = 0 → initAt s.ticks x = false
       else s.tick ≤ s'.tick ∧ ∀ x, s.tick < x → x ≤ s'.tick → x % (c.ts : Int) = 0 → initAt s.ticks x = false)))

/-- one a→b iteration keeps the loop invariant; while the target is not reached the aim stays valid -/
theorem step_down (c : SwapCtx) (ps : List (Nat × PositionD)) (p0 : Nat) (s s' : SwapSt) (nai : Nat) (nti : Int)
    (ok : CtxOK c) (hd : c.aToB = true) (P : Path c ps p0 s) (A : Aim c s nai nti)
    (h : swapStep c s nai nti (sp nti) (max c.limit (sp nti)) = .ok s') :
    Path c ps p0 s' ∧ (s'.price ≠ max c.limit (sp nti) → Aim c s' nai nti) ∧ Shape c s s' nti := by
  have hfm0 : FmOK true s.tick s.fm := by rw [← hd]; exact P.fm
  obtain ⟨sc, fg, cr, hsc, hcr, ep, et, el, etk, efg, efm, erem⟩ := swapStep_parts c s s' nai nti (sp nti) _ h
  unfold Aim at A
  rw [if_pos hd] at A
  obtain ⟨n1, n2, ⟨st, hst, l1, l2⟩, n3, hno⟩ := A
  have hpb := TP_price_bounds _ _ P.tp
  have hnb := sp_in_bounds nti n1 n2
  have hlim := P.lim
  rw [if_pos hd] at hlim
  have hsn : sp nti ≤ s.price := by
    rcases P.tp with ⟨a, b, c', _, _⟩ | ⟨a, _⟩
    · have := C09.sp_le nti s.tick n1 n3 b; omega
    · omega
  have htk : MIN_TICK_INDEX ≤ s.tick ∧ s.tick ≤ MAX_TICK_INDEX ∧ sp s.tick ≤ s.price := by
    rcases P.tp with ⟨a, b, c', _, _⟩ | ⟨a, _⟩
    · exact ⟨a, b, c'⟩
    · omega
  have htgt : max c.limit (sp nti) ≤ s.price := Nat.max_le.mpr ⟨hlim.1, hsn⟩
  have hbd := fm_bounded_down s.fm s.tick s.price (max c.limit (sp nti)) s.liq hfm0 htk.1 htk.2.1 htk.2.2 htgt
  have wf : C02.WFStep s.remaining s.fm.updateVolAcc.totalFeeRate s.liq s.price
      (s.fm.updateVolAcc.boundedTarget (max c.limit (sp nti)) s.liq).1 c.aToB :=
    { cur_lo := hpb.1, cur_hi := hpb.2,
      tgt_lo := Nat.le_trans (Nat.le_trans ok.lim_lo (Nat.le_max_left _ _)) hbd.1,
      tgt_hi := Nat.le_trans hbd.2 hpb.2,
      dirOk := by rw [if_pos hd]; exact hbd.2,
      remU := P.remU, LU := P.liqU, rateOk := rate_ok true s.tick s.fm hfm0 }
  have hdir0 := C02.step_direction _ _ _ _ _ _ _ sc wf hsc
  rw [if_pos hd] at hdir0
  have hdir : max c.limit (sp nti) ≤ sc.nextPrice ∧ sc.nextPrice ≤ s.price := ⟨Nat.le_trans hbd.1 hdir0.1, hdir0.2⟩
  have hge : sp nti ≤ sc.nextPrice := Nat.le_trans (Nat.le_max_right _ _) hdir.1
  have hgl : c.limit ≤ sc.nextPrice := Nat.le_trans (Nat.le_max_left _ _) hdir.1
  have hp'b : MIN_SQRT_PRICE_X64 ≤ sc.nextPrice ∧ sc.nextPrice ≤ MAX_SQRT_PRICE_X64 := ⟨by omega, by omega⟩
  have hfmN : StepEnd true s.tick s'.tick nti s.price sc.nextPrice → FmOK c.aToB s'.tick s'.fm := by
    intro hend
    rw [hd]
    exact fm_next_down s.fm s'.fm s.tick s'.tick nti s.price sc.nextPrice _ s.liq hfm0 P.tp htk.1 htgt hp'b.1 hp'b.2
      hdir0.1 hend efm
  have hrem' : s'.remaining ≤ U64_MAX := Nat.le_trans erem P.remU
  have hlim' : if c.aToB then c.limit ≤ s'.price ∧ s'.price ≤ p0 else p0 ≤ s'.price ∧ s'.price ≤ c.limit := by
    rw [if_pos hd, ep]; exact ⟨hgl, Nat.le_trans hdir.2 hlim.2⟩
  have hfee : ∃ fee, s'.fgIn = (calculateFees fee c.protoRate s.liq s.protoFee s.fgIn).2 := ⟨sc.feeAmount, by rw [efg.2, efg.1]⟩
  rcases stepCross_spec c s sc fg nai nti (sp nti) cr hcr with
    ⟨hp, htick, start, hstart, hcase⟩ | ⟨hp, hq, htick, hliq, hticks⟩ | ⟨hp, hq, htick, hliq, hticks⟩
  · -- the step reached the tick: cross it
    rw [hst] at hstart
    cases hstart
    obtain ⟨e1, tf', e2⟩ := cross_facts c ps s cr.liq cr.ticks st nti _ _ ok P.tf (ok.aligned nai st hst) l1 l2 P.liqU hcase
    rw [if_pos hd] at e1 htick
    have hcov := cover_const s.ticks ps c.ts P.tf nti s.tick n3 hno
    have hcp := (C05.cross_preserves nti (s.liq : Int) ps P.tf.ordered).1 (by rw [P.liq, hcov])
    constructor
    · exact { liq := by rw [el, et, htick, e1, ← hcp]; omega,
              tf := by rw [etk]; exact tf',
              tp := by rw [et, htick, ep, hp]; exact TP_cross_down nti n1 n2,
              lim := hlim', fm := hfmN (Or.inl ⟨hp, by rw [et, htick, if_pos rfl], n1, n2⟩), remU := hrem', liqU := by rw [el]; exact e2 }
    · refine ⟨?_, hfee, Or.inl ⟨by rw [et, htick, if_pos hd], ?_, by rw [if_pos hd]; exact ⟨n3, hno⟩⟩⟩
      rotate_left
      · rcases hcase with ⟨hti, _, htk⟩ | ⟨hno2, _, htk⟩
        · left
          simp only [Bool.and_eq_true] at hti
          exact ⟨hti.2, by rw [etk, htk, efg.2]⟩
        · right
          exact ⟨not_init_of_not_crossed c ps s st nti ok P.tf (ok.aligned nai st hst) l1 l2 hno2, by rw [etk, htk]⟩
      intro hne; exfalso; apply hne
      rw [ep]
      have h1 := hdir.1
      have h2 : sp nti ≤ max c.limit (sp nti) := Nat.le_max_right _ _
      omega
  · -- the step ended strictly inside: the tick index follows the price
    have hb := ti_between_down s.tick nti s.price sc.nextPrice P.tp n1 n2 hge hdir.2 hq
    have hcov := cover_const s.ticks ps c.ts P.tf (ti sc.nextPrice) s.tick hb.2
      (fun x hx1 hx2 hx3 => hno x (by omega) hx2 hx3)
    have hp'b : MIN_SQRT_PRICE_X64 ≤ sc.nextPrice ∧ sc.nextPrice ≤ MAX_SQRT_PRICE_X64 := ⟨by omega, by omega⟩
    constructor
    · exact { liq := by rw [el, et, hliq, htick, hcov]; exact P.liq,
              tf := by rw [etk, hticks]; exact P.tf,
              tp := by rw [et, htick, ep]; exact TP_ti _ hp'b.1 hp'b.2,
              lim := hlim', fm := hfmN (Or.inr (Or.inl ⟨hp, hq, by rw [et, htick]⟩)), remU := hrem', liqU := by rw [el, hliq]; exact P.liqU }
    · refine ⟨?_, hfee, Or.inr ⟨by rw [etk, hticks], by
        rw [if_pos hd, et, htick]; exact ⟨hb.2, fun x hx1 hx2 hx3 => hno x (by omega) hx2 hx3⟩⟩⟩
      intro _
      unfold Aim
      rw [if_pos hd, et, htick, etk, hticks]
      exact ⟨n1, n2, ⟨st, hst, l1, l2⟩, hb.1, fun x hx1 hx2 hx3 => hno x hx1 (by omega) hx3⟩
  · -- the step did not move the price
    constructor
    · exact { liq := by rw [el, et, hliq, htick]; exact P.liq,
              tf := by rw [etk, hticks]; exact P.tf,
              tp := by rw [et, htick, ep, hq]; exact P.tp,
              lim := hlim', fm := hfmN (Or.inr (Or.inr ⟨hp, hq, by rw [et, htick]⟩)), remU := hrem', liqU := by rw [el, hliq]; exact P.liqU }
    · refine ⟨?_, hfee, Or.inr ⟨by rw [etk, hticks], by
        rw [if_pos hd, et, htick]; exact ⟨Int.le_refl _, fun x hx1 hx2 _ => by omega⟩⟩⟩
      intro _
      unfold Aim
      rw [if_pos hd, et, htick, etk, hticks]
      exact ⟨n1, n2, ⟨st, hst, l1, l2⟩, n3, hno⟩


/-- one b→a iteration keeps the loop invariant; while the target is not reached the aim stays valid -/
theorem step_up (c : SwapCtx) (ps : List (Nat × PositionD)) (p0 : Nat) (s s' : SwapSt) (nai : Nat) (nti : Int)
    (ok : CtxOK c) (hd : ¬ c.aToB = true) (P : Path c ps p0 s) (A : Aim c s nai nti)
    (h : swapStep c s nai nti (sp nti) (min c.limit (sp nti)) = .ok s') :
    Path c ps p0 s' ∧ (s'.price ≠ min c.limit (sp nti) → Aim c s' nai nti) ∧ Shape c s s' nti := by
  have hd' : c.aToB = false := by cases hb : c.aToB <;> simp_all
  have hfm0 : FmOK false s.tick s.fm := by rw [← hd']; exact P.fm
  obtain ⟨sc, fg, cr, hsc, hcr, ep, et, el, etk, efg, efm, erem⟩ := swapStep_parts c s s' nai nti (sp nti) _ h
  unfold Aim at A
  rw [if_neg hd] at A
  obtain ⟨n1, n2, ⟨st, hst, l1, l2⟩, n3, hno⟩ := A
  have hpb := TP_price_bounds _ _ P.tp
  have hnb := sp_in_bounds nti n1 n2
  have hlim := P.lim
  rw [if_neg hd] at hlim
  have hsn : s.price ≤ sp nti := by
    rcases P.tp with ⟨a, b, _, d, _⟩ | ⟨a, b⟩
    · have h1 := d (by omega)
      have := C09.sp_le (s.tick + 1) nti (by omega) (by omega) n2; omega
    · rw [b]; exact C09.sp_le _ _ (Int.le_refl _) n1 n2
  have htk : MIN_TICK_INDEX - 1 ≤ s.tick ∧ s.tick < MAX_TICK_INDEX ∧ s.price ≤ sp (s.tick + 1) := by
    rcases P.tp with ⟨a, b, _, d, _⟩ | ⟨a, b⟩
    · exact ⟨by omega, by omega, d (by omega)⟩
    · refine ⟨by omega, by omega, ?_⟩
      rw [a, b, show MIN_TICK_INDEX - 1 + 1 = MIN_TICK_INDEX by omega]
  have htgt : s.price ≤ min c.limit (sp nti) := Nat.le_min.mpr ⟨hlim.2, hsn⟩
  have hbd := fm_bounded_up s.fm s.tick s.price (min c.limit (sp nti)) s.liq hfm0 htk.1 htk.2.1 htk.2.2 htgt
  have wf : C02.WFStep s.remaining s.fm.updateVolAcc.totalFeeRate s.liq s.price
      (s.fm.updateVolAcc.boundedTarget (min c.limit (sp nti)) s.liq).1 c.aToB :=
    { cur_lo := hpb.1, cur_hi := hpb.2,
      tgt_lo := Nat.le_trans hpb.1 hbd.1,
      tgt_hi := Nat.le_trans hbd.2 (Nat.le_trans (Nat.min_le_left _ _) ok.lim_hi),
      dirOk := by rw [if_neg hd]; exact hbd.1,
      remU := P.remU, LU := P.liqU, rateOk := rate_ok false s.tick s.fm hfm0 }
  have hdir0 := C02.step_direction _ _ _ _ _ _ _ sc wf hsc
  rw [if_neg hd] at hdir0
  have hdir : s.price ≤ sc.nextPrice ∧ sc.nextPrice ≤ min c.limit (sp nti) := ⟨hdir0.1, Nat.le_trans hdir0.2 hbd.2⟩
  have hge : sc.nextPrice ≤ sp nti := Nat.le_trans hdir.2 (Nat.min_le_right _ _)
  have hgl : sc.nextPrice ≤ c.limit := Nat.le_trans hdir.2 (Nat.min_le_left _ _)
  have hp'b : MIN_SQRT_PRICE_X64 ≤ sc.nextPrice ∧ sc.nextPrice ≤ MAX_SQRT_PRICE_X64 := ⟨by omega, by omega⟩
  have hfmN : StepEnd false s.tick s'.tick nti s.price sc.nextPrice → FmOK c.aToB s'.tick s'.fm := by
    intro hend
    rw [hd']
    exact fm_next_up s.fm s'.fm s.tick s'.tick nti s.price sc.nextPrice _ s.liq hfm0 P.tp htk.2.1 htgt hp'b.1 hp'b.2
      hdir0.2 hend efm
  have hrem' : s'.remaining ≤ U64_MAX := Nat.le_trans erem P.remU
  have hlim' : if c.aToB then c.limit ≤ s'.price ∧ s'.price ≤ p0 else p0 ≤ s'.price ∧ s'.price ≤ c.limit := by
    rw [if_neg hd, ep]; exact ⟨Nat.le_trans hlim.1 hdir.1, hgl⟩
  have hfee : ∃ fee, s'.fgIn = (calculateFees fee c.protoRate s.liq s.protoFee s.fgIn).2 := ⟨sc.feeAmount, by rw [efg.2, efg.1]⟩
  rcases stepCross_spec c s sc fg nai nti (sp nti) cr hcr with
    ⟨hp, htick, start, hstart, hcase⟩ | ⟨hp, hq, htick, hliq, hticks⟩ | ⟨hp, hq, htick, hliq, hticks⟩
  · rw [hst] at hstart
    cases hstart
    obtain ⟨e1, tf', e2⟩ := cross_facts c ps s cr.liq cr.ticks st nti _ _ ok P.tf (ok.aligned nai st hst) l1 l2 P.liqU hcase
    rw [if_neg hd] at e1 htick
    have hcov := cover_const s.ticks ps c.ts P.tf s.tick (nti - 1) (by omega) (fun x hx1 hx2 hx3 => hno x hx1 (by omega) hx3)
    have hcp := (C05.cross_preserves nti (s.liq : Int) ps P.tf.ordered).2 (by rw [P.liq, hcov])
    constructor
    · exact { liq := by rw [el, et, htick, e1, ← hcp],
              tf := by rw [etk]; exact tf',
              tp := by rw [et, htick, ep, hp]; exact TP_cross_up nti n1 n2,
              lim := hlim', fm := hfmN (Or.inl ⟨hp, by rw [et, htick, if_neg (by simp)], n1, n2⟩), remU := hrem', liqU := by rw [el]; exact e2 }
    · refine ⟨?_, hfee, Or.inl ⟨by rw [et, htick, if_neg hd], ?_, by rw [if_neg hd]; exact ⟨n3, hno⟩⟩⟩
      rotate_left
      · rcases hcase with ⟨hti, _, htk⟩ | ⟨hno2, _, htk⟩
        · left
          simp only [Bool.and_eq_true] at hti
          exact ⟨hti.2, by rw [etk, htk, efg.2]⟩
        · right
          exact ⟨not_init_of_not_crossed c ps s st nti ok P.tf (ok.aligned nai st hst) l1 l2 hno2, by rw [etk, htk]⟩
      intro hne; exfalso; apply hne
      rw [ep]
      have h1 := hdir.2
      have h2 : min c.limit (sp nti) ≤ sp nti := Nat.min_le_right _ _
      omega
  · have hb := ti_between_up s.tick nti s.price sc.nextPrice P.tp n1 n2 hdir.1 (by omega)
    have hcov := cover_const s.ticks ps c.ts P.tf s.tick (ti sc.nextPrice) hb.1
      (fun x hx1 hx2 hx3 => hno x hx1 (by omega) hx3)
    have hp'b : MIN_SQRT_PRICE_X64 ≤ sc.nextPrice ∧ sc.nextPrice ≤ MAX_SQRT_PRICE_X64 := ⟨by omega, by omega⟩
    constructor
    · exact { liq := by rw [el, et, hliq, htick, ← hcov]; exact P.liq,
              tf := by rw [etk, hticks]; exact P.tf,
              tp := by rw [et, htick, ep]; exact TP_ti _ hp'b.1 hp'b.2,
              lim := hlim', fm := hfmN (Or.inr (Or.inl ⟨hp, hq, by rw [et, htick]⟩)), remU := hrem', liqU := by rw [el, hliq]; exact P.liqU }
    · refine ⟨?_, hfee, Or.inr ⟨by rw [etk, hticks], by
        rw [if_neg hd, et, htick]; exact ⟨hb.1, fun x hx1 hx2 hx3 => hno x hx1 (by omega) hx3⟩⟩⟩
      intro _
      unfold Aim
      rw [if_neg hd, et, htick, etk, hticks]
      exact ⟨n1, n2, ⟨st, hst, l1, l2⟩, hb.2, fun x hx1 hx2 hx3 => hno x (by omega) hx2 hx3⟩
  · constructor
    · exact { liq := by rw [el, et, hliq, htick]; exact P.liq,
              tf := by rw [etk, hticks]; exact P.tf,
              tp := by rw [et, htick, ep, hq]; exact P.tp,
              lim := hlim', fm := hfmN (Or.inr (Or.inr ⟨hp, hq, by rw [et, htick]⟩)), remU := hrem', liqU := by rw [el, hliq]; exact P.liqU }
    · refine ⟨?_, hfee, Or.inr ⟨by rw [etk, hticks], by
        rw [if_neg hd, et, htick]; exact ⟨Int.le_refl _, fun x hx1 hx2 _ => by omega⟩⟩⟩
      intro _
      unfold Aim
      rw [if_neg hd, et, htick, etk, hticks]
      exact ⟨n1, n2, ⟨st, hst, l1, l2⟩, n3, hno⟩


/-! ### the loop -/

/-- a successful sequence search started inside the first array's search range -/
theorem seq_first (m : TickMap) (arrays : List Int) (ts : Nat) (d : Bool) (fuel : Nat) (s : Int) (idx : Nat) (r : Nat × Int)
    (h : seqNextInit m arrays ts d (fuel + 1) s idx = .ok r) :
    ∃ start, arrays[idx]? = some start ∧
      (if d then start ≤ s ∧ s < start + 88 * (ts : Int) else start - (ts : Int) ≤ s ∧ s < start + 88 * (ts : Int) - ts) := by
  have hT : ((TICK_ARRAY_SIZE : Nat) : Int) = 88 := rfl
  unfold seqNextInit at h
  cases harr : arrays[idx]? with
  | none => rw [harr] at h; cases h
  | some start =>
    rw [harr] at h
    simp only [] at h
    refine ⟨start, rfl, ?_⟩
    unfold arrayNextInit at h
    simp only [hT] at h
    cases d with
    | true =>
      simp only [Bool.not_true, Bool.false_eq_true, if_false, if_true] at h ⊢
      by_cases hr : (decide (s ≥ start) && decide (s < start + 88 * (ts : Int))) = true
      · simp only [Bool.and_eq_true, decide_eq_true_eq] at hr; exact ⟨hr.1, hr.2⟩
      · exfalso
        have : (!(decide (s ≥ start) && decide (s < start + 88 * (ts : Int)))) = true := by
          cases hh : (decide (s ≥ start) && decide (s < start + 88 * (ts : Int))) with
          | true => exact absurd hh hr
          | false => rfl
        rw [if_pos this] at h
        cases h
    | false =>
      simp only [Bool.not_false, if_true, Bool.false_eq_true, if_false] at h ⊢
      by_cases hr : (decide (s ≥ start - (ts : Int)) && decide (s < start + 88 * (ts : Int) - ts)) = true
      · simp only [Bool.and_eq_true, decide_eq_true_eq] at hr; exact ⟨hr.1, hr.2⟩
      · exfalso
        have : (!(decide (s ≥ start - (ts : Int)) && decide (s < start + 88 * (ts : Int) - ts))) = true := by
          cases hh : (decide (s ≥ start - (ts : Int)) && decide (s < start + 88 * (ts : Int) - ts)) with
          | true => exact absurd hh hr
          | false => rfl
        rw [if_pos this] at h
        cases h

/-- the search at the top of the outer loop establishes the aim -/
theorem aim_of_search (c : SwapCtx) (ps : List (Nat × PositionD)) (p0 : Nat) (s : SwapSt) (ok : CtxOK c) (P : Path c ps p0 s)
    (hne : c.limit ≠ s.price) (r : Nat × Int)
    (h : seqNextInit s.ticks c.arrays c.ts c.aToB (c.arrays.length + 1) s.tick s.arrayIdx = .ok r) :
    Aim c s r.1 r.2 := by
  obtain ⟨start, harr, hrange⟩ := seq_first _ _ _ _ _ _ _ _ h
  have hpb := TP_price_bounds _ _ P.tp
  have hcons := ok.consec
  have hlim := P.lim
  unfold Aim
  by_cases hd : c.aToB = true
  · rw [if_pos hd] at hrange hcons hlim ⊢
    rw [hd] at h
    have htick : MIN_TICK_INDEX ≤ s.tick ∧ s.tick ≤ MAX_TICK_INDEX := by
      rcases P.tp with ⟨a, b, _⟩ | ⟨_, b⟩
      · exact ⟨a, b⟩
      · exfalso; apply hne; rw [b, sp_min] at hlim ⊢; have := ok.lim_lo; omega
    obtain ⟨i, r', hrun, _, hrs, ⟨st, hst, q1, q2⟩, hno, hkind⟩ :=
      C10.seqNext_down_interval s.ticks c.arrays c.ts ok.ts hcons ok.aligned (c.arrays.length + 1) s.arrayIdx s.tick start
        harr hrange.1 hrange.2 htick.1 (by omega)
    rw [hrun] at h
    cases h
    refine ⟨?_, by omega, ⟨st, hst, by have := ok.ts; omega, q2⟩, hrs, hno⟩
    rcases hkind with hi | hm | ⟨st', _, _, _, hgt⟩
    · exact (init_grid s.ticks ps c.ts P.tf r' hi).2.1
    · omega
    · omega
  · rw [if_neg hd] at hrange hcons hlim ⊢
    have hd' : c.aToB = false := by cases hb : c.aToB <;> simp_all
    rw [hd'] at h
    have htick : s.tick < MAX_TICK_INDEX ∧ MIN_TICK_INDEX - 1 ≤ s.tick := by
      rcases P.tp with ⟨a, b, _, _, e⟩ | ⟨a, _⟩
      · refine ⟨?_, by omega⟩
        by_cases hm : s.tick = MAX_TICK_INDEX
        · exfalso; apply hne; rw [e hm, hm, sp_max] at hlim ⊢; have := ok.lim_hi; omega
        · omega
      · rw [a]; exact ⟨by decide, Int.le_refl _⟩
    obtain ⟨i, r', hrun, _, hrs, ⟨st, hst, q1, q2⟩, hno, hkind⟩ :=
      C10.seqNext_up_interval s.ticks c.arrays c.ts ok.ts hcons ok.aligned (c.arrays.length + 1) s.arrayIdx s.tick start
        harr hrange.1 hrange.2 htick.1 (by omega)
    rw [hrun] at h
    cases h
    refine ⟨by omega, ?_, ⟨st, hst, q1, q2⟩, hrs, hno⟩
    rcases hkind with hi | hm | ⟨st', _, _, _, hgt⟩
    · exact (init_grid s.ticks ps c.ts P.tf r' hi).2.2
    · omega
    · omega

/-- the two nested loops keep the invariant `Path`, and with it any predicate `Q` on the loop state
    that every iteration preserves; the iteration is handed over as its `Shape` AND as the raw step
    equation (so that amount-level facts — C02, C06 — are available to `Q`) -/
theorem loop_path_step (c : SwapCtx) (ps : List (Nat × PositionD)) (p0 : Nat) (ok : CtxOK c) (Q : SwapSt → Prop)
    (hQ : ∀ s s' nai nti, Path c ps p0 s → Aim c s nai nti → Shape c s s' nti → Path c ps p0 s' →
      swapStep c s nai nti (sp nti) (if c.aToB then max c.limit (sp nti) else min c.limit (sp nti)) = .ok s' → Q s → Q s') :
    ∀ (fuel : Nat) (s : SwapSt) (inner : Option (Nat × Int × Nat × Nat)) (s' : SwapSt),
      Path c ps p0 s → Q s →
      (∀ nai nti ntp tgt, inner = some (nai, nti, ntp, tgt) →
        Aim c s nai nti ∧ ntp = sp nti ∧ tgt = (if c.aToB then max c.limit (sp nti) else min c.limit (sp nti))) →
      swapLoop c fuel s inner = .ok s' → Path c ps p0 s' ∧ Q s' := by
  intro fuel
  induction fuel with
  | zero => intro s inner s' _ _ _ h; unfold swapLoop at h; cases h
  | succ fuel ih =>
    intro s inner s' P q hin h
    cases inner with
    | none =>
      unfold swapLoop at h
      by_cases hc : (decide (s.remaining > 0) && decide (c.limit ≠ s.price)) = true
      · rw [if_pos hc] at h
        simp only [Bool.and_eq_true, decide_eq_true_eq] at hc
        cases hs : seqNextInit s.ticks c.arrays c.ts c.aToB (c.arrays.length + 1) s.tick s.arrayIdx with
        | error e => rw [hs] at h; cases h
        | ok r =>
          rw [hs] at h
          simp only [] at h
          refine ih s _ s' P q ?_ h
          intro nai nti ntp tgt he
          cases he
          exact ⟨aim_of_search c ps p0 s ok P hc.2 r hs, rfl, rfl⟩
      · rw [if_neg hc] at h; cases h; exact ⟨P, q⟩
    | some w =>
      obtain ⟨nai, nti, ntp, tgt⟩ := w
      obtain ⟨A, hntp, htgt⟩ := hin nai nti ntp tgt rfl
      unfold swapLoop at h
      cases hst : swapStep c s nai nti ntp tgt with
      | error e => rw [hst] at h; cases h
      | ok s1 =>
        rw [hst] at h
        simp only [] at h
        have hstep : Path c ps p0 s1 ∧ (s1.price ≠ tgt → Aim c s1 nai nti) ∧ Shape c s s1 nti := by
          rw [hntp] at hst
          by_cases hd : c.aToB = true
          · rw [if_pos hd] at htgt; rw [htgt] at hst ⊢
            exact step_down c ps p0 s s1 nai nti ok hd P A hst
          · rw [if_neg hd] at htgt; rw [htgt] at hst ⊢
            exact step_up c ps p0 s s1 nai nti ok hd P A hst
        have q1 : Q s1 := hQ s s1 nai nti P A hstep.2.2 hstep.1 (by rw [← htgt, ← hntp]; exact hst) q
        by_cases hc : (decide (s1.remaining = 0) || decide (s1.price = tgt)) = true
        · rw [if_pos hc] at h
          exact ih s1 none s' hstep.1 q1 (fun _ _ _ _ he => by cases he) h
        · rw [if_neg hc] at h
          simp only [Bool.or_eq_true, decide_eq_true_eq, not_or] at hc
          refine ih s1 _ s' hstep.1 q1 ?_ h
          intro nai' nti' ntp' tgt' he
          cases he
          exact ⟨hstep.2.1 hc.2, hntp, htgt⟩

/-- the same with a predicate that only needs the `Shape` of an iteration -/
theorem loop_path_inv (c : SwapCtx) (ps : List (Nat × PositionD)) (p0 : Nat) (ok : CtxOK c) (Q : SwapSt → Prop)
    (hQ : ∀ s s' nai nti, Path c ps p0 s → Aim c s nai nti → Shape c s s' nti → Path c ps p0 s' → Q s → Q s') :
    ∀ (fuel : Nat) (s : SwapSt) (inner : Option (Nat × Int × Nat × Nat)) (s' : SwapSt),
      Path c ps p0 s → Q s →
      (∀ nai nti ntp tgt, inner = some (nai, nti, ntp, tgt) →
        Aim c s nai nti ∧ ntp = sp nti ∧ tgt = (if c.aToB then max c.limit (sp nti) else min c.limit (sp nti))) →
      swapLoop c fuel s inner = .ok s' → Path c ps p0 s' ∧ Q s' :=
  loop_path_step c ps p0 ok Q (fun s s' nai nti P A sh P' _ q => hQ s s' nai nti P A sh P' q)

/-- the two nested loops keep the invariant -/
theorem loop_path (c : SwapCtx) (ps : List (Nat × PositionD)) (p0 : Nat) (ok : CtxOK c) :
    ∀ (fuel : Nat) (s : SwapSt) (inner : Option (Nat × Int × Nat × Nat)) (s' : SwapSt),
      Path c ps p0 s →
      (∀ nai nti ntp tgt, inner = some (nai, nti, ntp, tgt) →
        Aim c s nai nti ∧ ntp = sp nti ∧ tgt = (if c.aToB then max c.limit (sp nti) else min c.limit (sp nti))) →
      swapLoop c fuel s inner = .ok s' → Path c ps p0 s' := by
  intro fuel s inner s' P hin h
  exact (loop_path_inv c ps p0 ok (fun _ => True) (fun _ _ _ _ _ _ _ _ _ => trivial) fuel s inner s' P trivial hin h).1

/-! ### the whole swap -/

/-- the array sequence handed to `swap` is aligned and consecutive in the swap direction (what the
    builder guarantees: C10 `start_indexes_consec`, `buildSeq_spec`) -/
def SeqOK (arrays : List Int) (ts : Nat) (aToB : Bool) : Prop :=
  (if aToB then C10.ConsecDown arrays ts else C10.ConsecUp arrays ts) ∧ C10.StartsAligned arrays ts

theorem swap_parts (p : PoolD) (ticks : TickMap) (arrays : List Int) (amount limit : Nat) (isInput aToB : Bool)
    (now : Nat) (af : Option AfInfo) (fuel : Nat) (u : PostSwap)
    (h : swap p ticks arrays amount limit isInput aToB now af fuel = .ok u) :
    ∃ rewards fm s, FeeMgr.new aToB p.tick now p.feeRate af = .ok fm ∧
      swapLoop (swapCtxOf p arrays limit isInput aToB rewards) fuel (swapInit p ticks amount aToB fm) none = .ok s ∧
      swapFinish p amount limit isInput aToB now rewards s = .ok u ∧ nextRewardInfos p now = .ok rewards := by
  unfold swap at h
  split at h
  · cases h
  · split at h
    · cases h
    · rename_i rewards hrw
      split at h
      · cases h
      · rename_i fm hfm
        split at h
        · cases h
        · rename_i s hs
          exact ⟨rewards, fm, s, hfm, hs, h, hrw⟩

/-- static pools keep a static manager, adaptive pools an adaptive one with the same constants -/
def FmKind (af : Option AfInfo) (fm : FeeMgr) : Prop :=
  match af, fm with
  | none, .static _ => True
  | some info, .adaptive m => m.c = info.constants
  | _, _ => False

theorem step_kind (c : SwapCtx) (s s' : SwapSt) (nai : Nat) (nti : Int) (ntp tgt : Nat) (af : Option AfInfo)
    (hk : FmKind af s.fm) (h : swapStep c s nai nti ntp tgt = .ok s') : FmKind af s'.fm := by
  obtain ⟨sc, _, _, _, _, _, _, _, _, _, hfm, _⟩ := swapStep_parts c s s' nai nti ntp tgt h
  cases hf : s.fm with
  | static r =>
    rw [hf] at hfm hk
    rcases hfm with ⟨_, e⟩ | e
    · rw [e]; exact hk
    · cases e
  | adaptive m =>
    rw [hf] at hfm hk
    cases af with
    | none => exact absurd hk (by unfold FmKind; simp)
    | some info =>
      rcases hfm with ⟨_, e⟩ | e
      · rw [e]; exact hk
      · obtain ⟨m2, e2, _, a2, _⟩ := afterSkip_spec _ _ _ _ _ e
        rw [e2]
        show m2.c = info.constants
        rw [a2]; exact hk

/-- the pieces of a successful swap, with the loop invariant established for the initial loop state -/
theorem swap_setup (p : PoolD) (ticks : TickMap) (ps : List (Nat × PositionD)) (arrays : List Int) (amount limit : Nat)
    (isInput aToB : Bool) (now fuel : Nat) (af : Option AfInfo) (u : PostSwap)
    (hts : 0 < p.ts) (hseq : SeqOK arrays p.ts aToB)
    (hliq : (p.liq : Int) = sumBy (inRangeLiq p.tick) ps) (tf : TickFacts ticks ps p.ts) (tp : TP p.tick p.price)
    (hL : p.liq ≤ U128_MAX) (hfee : p.feeRate ≤ FEE_RATE_HARD_LIMIT) (hamt : amount ≤ U64_MAX)
    (haf : ∀ info, af = some info → InfoOK info)
    (h : swap p ticks arrays amount limit isInput aToB now af fuel = .ok u) :
    ∃ rewards fm s, CtxOK (swapCtxOf p arrays limit isInput aToB rewards) ∧
      Path (swapCtxOf p arrays limit isInput aToB rewards) ps p.price (swapInit p ticks amount aToB fm) ∧
      swapLoop (swapCtxOf p arrays limit isInput aToB rewards) fuel (swapInit p ticks amount aToB fm) none = .ok s ∧
      swapFinish p amount limit isInput aToB now rewards s = .ok u ∧ nextRewardInfos p now = .ok rewards := by
  obtain ⟨g1, g2, g3, _⟩ := C03.swap_limit_guard _ _ _ _ _ _ _ _ _ _ _ h
  obtain ⟨rewards, fm, s, hfm, hloop, hfin, hrw⟩ := swap_parts _ _ _ _ _ _ _ _ _ _ _ h
  have htb : MIN_TICK_INDEX - 1 ≤ p.tick ∧ p.tick ≤ MAX_TICK_INDEX := by
    have := min_le_max
    rcases tp with ⟨a, b, _⟩ | ⟨a, _⟩ <;> omega
  have hfm0 := new_ok aToB p.tick now p.feeRate af fm hfee haf htb.1 htb.2 hfm
  refine ⟨rewards, fm, s, { ts := hts, consec := hseq.1, aligned := hseq.2, lim_lo := g1, lim_hi := g2 }, ?_, hloop, hfin, hrw⟩
  exact
    { liq := hliq, tf := tf, tp := tp,
      lim := by
        show if aToB = true then adjLimit limit aToB ≤ p.price ∧ p.price ≤ p.price else p.price ≤ p.price ∧ p.price ≤ adjLimit limit aToB
        by_cases hd : aToB = true
        · rw [if_pos hd] at g3 ⊢; exact ⟨Nat.le_of_lt g3, Nat.le_refl _⟩
        · rw [if_neg hd] at g3 ⊢; exact ⟨Nat.le_refl _, Nat.le_of_lt g3⟩,
      fm := hfm0, remU := hamt, liqU := hL }

/-- **the swap as a whole, static or adaptive fee**: for ANY tick map and ANY set of positions that
    the tick map is consistent with, any amount, limit, mode and direction, over an aligned
    consecutive array sequence of any length: the resulting liquidity is again the sum of the
    positions covering the resulting tick, the tick map stays consistent, the tick index stays
    consistent with the price, the price ends between the limit and the starting price, and the
    adaptive-fee state stays in range. -/
theorem swap_path (p : PoolD) (ticks : TickMap) (ps : List (Nat × PositionD)) (arrays : List Int) (amount limit : Nat)
    (isInput aToB : Bool) (now fuel : Nat) (af : Option AfInfo) (u : PostSwap)
    (hts : 0 < p.ts) (hseq : SeqOK arrays p.ts aToB)
    (hliq : (p.liq : Int) = sumBy (inRangeLiq p.tick) ps) (tf : TickFacts ticks ps p.ts) (tp : TP p.tick p.price)
    (hL : p.liq ≤ U128_MAX) (hfee : p.feeRate ≤ FEE_RATE_HARD_LIMIT) (hamt : amount ≤ U64_MAX)
    (haf : ∀ info, af = some info → InfoOK info)
    (h : swap p ticks arrays amount limit isInput aToB now af fuel = .ok u) :
    (u.liq : Int) = sumBy (inRangeLiq u.tick) ps ∧ TickFacts u.ticks ps p.ts ∧ TP u.tick u.price ∧ u.liq ≤ U128_MAX ∧
    (if aToB then adjLimit limit aToB ≤ u.price ∧ u.price ≤ p.price else p.price ≤ u.price ∧ u.price ≤ adjLimit limit aToB) ∧
    (af = none → u.afInfo = none) ∧
    (∀ info, af = some info → ∃ info', u.afInfo = some info' ∧ info'.constants = info.constants ∧ InfoOK info') := by
  obtain ⟨g1, g2, g3, _⟩ := C03.swap_limit_guard _ _ _ _ _ _ _ _ _ _ _ h
  obtain ⟨rewards, fm, s, hfm, hloop, hfin, hrw⟩ := swap_parts _ _ _ _ _ _ _ _ _ _ _ h
  have htb : MIN_TICK_INDEX - 1 ≤ p.tick ∧ p.tick ≤ MAX_TICK_INDEX := by
    have := min_le_max
    rcases tp with ⟨a, b, _⟩ | ⟨a, _⟩ <;> omega
  have hfm0 := new_ok aToB p.tick now p.feeRate af fm hfee haf htb.1 htb.2 hfm
  have hk0 : FmKind af fm := by
    unfold FeeMgr.new at hfm
    cases af with
    | none => cases hfm; trivial
    | some info =>
      simp only [] at hfm
      split at hfm
      · cases hfm
      · cases hfm; show info.constants = info.constants; rfl
  have ok : CtxOK (swapCtxOf p arrays limit isInput aToB rewards) :=
    { ts := hts, consec := hseq.1, aligned := hseq.2, lim_lo := g1, lim_hi := g2 }
  have P0 : Path (swapCtxOf p arrays limit isInput aToB rewards) ps p.price (swapInit p ticks amount aToB fm) :=
    { liq := hliq, tf := tf, tp := tp,
      lim := by
        show if aToB = true then adjLimit limit aToB ≤ p.price ∧ p.price ≤ p.price else p.price ≤ p.price ∧ p.price ≤ adjLimit limit aToB
        by_cases hd : aToB = true
        · rw [if_pos hd] at g3 ⊢; exact ⟨Nat.le_of_lt g3, Nat.le_refl _⟩
        · rw [if_neg hd] at g3 ⊢; exact ⟨Nat.le_refl _, Nat.le_of_lt g3⟩,
      fm := hfm0, remU := hamt, liqU := hL }
  have P := loop_path _ ps p.price ok fuel _ none s P0 (fun _ _ _ _ he => by cases he) hloop
  have hk : FmKind af s.fm :=
    swapLoop_induct _ (fun st => FmKind af st.fm) (fun a b nai nti ntp tgt ha hs => step_kind _ a b nai nti ntp tgt af ha hs)
      fuel _ s none hk0 hloop
  have hfmE := P.fm
  unfold swapFinish at hfin
  split at hfin
  · cases hfin
  · split at hfin
    · cases hfin
    · rename_i fm' hfm'
      cases hfin
      refine ⟨P.liq, P.tf, P.tp, P.liqU, P.lim, ?_, ?_⟩
      · intro hnone
        rw [hnone] at hk
        cases hf : s.fm with
        | static r =>
          rw [hf] at hfm'
          unfold FeeMgr.updateMajorSwapTs at hfm'
          cases hfm'
          rfl
        | adaptive m => rw [hf] at hk; exact absurd hk (by unfold FmKind; simp)
      · intro info hinfo
        rw [hinfo] at hk
        obtain ⟨igs, ired, _⟩ := haf info hinfo
        cases hf : s.fm with
        | static r => rw [hf] at hk; exact absurd hk (by unfold FmKind; simp)
        | adaptive m =>
          rw [hf] at hk hfm' hfmE
          have hc : m.c = info.constants := hk
          obtain ⟨_, _, hv⟩ := hfmE
          unfold FeeMgr.updateMajorSwapTs at hfm'
          simp only [] at hfm'
          split at hfm'
          · cases hfm'
          · rename_i v' hv'
            cases hfm'
            refine ⟨_, rfl, hc, ?_⟩
            have hvv : VarOK m.c v' := by
              unfold AfVariables.updateMajorSwapTs at hv'
              split at hv'
              · cases hv'
              · cases hv'; exact hv
              · cases hv'; exact hv
            exact { gs := by show 0 < m.c.groupSize; rw [hc]; exact igs,
                    red := by show m.c.reductionFactor < 10000; rw [hc]; exact ired,
                    var := hvv }

/-- the static-fee case -/
theorem swap_static (p : PoolD) (ticks : TickMap) (ps : List (Nat × PositionD)) (arrays : List Int) (amount limit : Nat)
    (isInput aToB : Bool) (now fuel : Nat) (u : PostSwap)
    (hts : 0 < p.ts) (hseq : SeqOK arrays p.ts aToB)
    (hliq : (p.liq : Int) = sumBy (inRangeLiq p.tick) ps) (tf : TickFacts ticks ps p.ts) (tp : TP p.tick p.price)
    (hL : p.liq ≤ U128_MAX) (hfee : p.feeRate ≤ FEE_RATE_HARD_LIMIT) (hamt : amount ≤ U64_MAX)
    (h : swap p ticks arrays amount limit isInput aToB now none fuel = .ok u) :
    (u.liq : Int) = sumBy (inRangeLiq u.tick) ps ∧ TickFacts u.ticks ps p.ts ∧ TP u.tick u.price ∧ u.liq ≤ U128_MAX ∧
    u.afInfo = none ∧
    (if aToB then adjLimit limit aToB ≤ u.price ∧ u.price ≤ p.price else p.price ≤ u.price ∧ u.price ≤ adjLimit limit aToB) := by
  obtain ⟨a, b, c, d, e, f, _⟩ := swap_path p ticks ps arrays amount limit isInput aToB now fuel none u hts hseq hliq tf tp hL hfee hamt
    (fun _ hh => by cases hh) h
  exact ⟨a, b, c, d, f rfl, e⟩

end WP.Path
