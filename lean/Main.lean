import WP.Model.Driver
def main : IO Unit := WP.driverMain
