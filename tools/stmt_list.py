#!/usr/bin/env python3
"""list the effect statements (calls whose value is not bound) at the top level of the Anchor instruction handlers:
   file, first line, last line, first line's text.  Used by tools/stmt_mutants.sh (measurement)."""
import os, re, sys
root = sys.argv[1] if len(sys.argv) > 1 else "/repo"
base = os.path.join(root, "programs/whirlpool/src/instructions")
for dp, _, fs in sorted(os.walk(base)):
    for f in sorted(fs):
        if not f.endswith(".rs") or f == "mod.rs":
            continue
        p = os.path.join(dp, f)
        lines = open(p).read().split("\n")
        in_handler = False
        i = 0
        while i < len(lines):
            l = lines[i]
            if re.match(r"pub fn handler", l):
                in_handler = True
            elif in_handler and l.startswith("}"):
                in_handler = False
            if in_handler and re.match(r"    [a-zA-Z_]", l) and not re.match(r"    (let|if|return|Ok\(|match|for|while|else|use|msg!|emit!|require|#|//)", l):
                j = i
                depth = 0
                while True:
                    depth += lines[j].count("(") + lines[j].count("{") + lines[j].count("[") - lines[j].count(")") - lines[j].count("}") - lines[j].count("]")
                    if depth <= 0 and lines[j].rstrip().endswith(";"):
                        break
                    if depth <= 0 and j + 1 < len(lines) and lines[j + 1].startswith("}"):
                        break       # a tail expression: the handler's value
                    j += 1
                    if j >= len(lines):
                        break
                txt = l.strip()
                if not re.match(r"(Ok|Err)\(", txt):
                    print(f"{os.path.relpath(p, base)}\t{i+1}\t{j+1}\t{txt[:90]}")
                i = j
            i += 1
