#!/usr/bin/env python3
"""tools/gen_baseline.py - record the content hashes of the modelled sources of /repo (its committed HEAD, i.e. the
pinned tree plus the recorded `fix:` commits) into /verif/source_baseline.json.  `./check` compares the working tree
with it: where a source file that a property is anchored in differs, the quick tier explores that property further
(more cases, another seed) before it answers.  The baseline decides nothing by itself."""
import hashlib, json, os, subprocess
REPO = "/repo"
DIRS = ["programs/whirlpool/src", "rust-sdk/core/src"]
out = {}
files = subprocess.run(["git", "-C", REPO, "ls-tree", "-r", "--name-only", "HEAD", "--"] + DIRS, capture_output=True, text=True).stdout.split()
for f in files:
    if f.endswith(".rs"):
        blob = subprocess.run(["git", "-C", REPO, "show", f"HEAD:{f}"], capture_output=True).stdout
        out[f] = hashlib.sha256(blob).hexdigest()
json.dump({"head": subprocess.run(["git", "-C", REPO, "rev-parse", "HEAD"], capture_output=True, text=True).stdout.strip(), "files": out},
          open("/verif/source_baseline.json", "w"), indent=0, sort_keys=True)
print(len(out), "files")
