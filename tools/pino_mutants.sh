#!/bin/bash
# MEASUREMENT (not a check), for a `vp run --with-repo` snapshot: every single-line `verify_…(…)?;` /
# `pino_verify_position_authority(…)?;` statement of the seven Pinocchio liquidity handlers is deleted in turn from the
# snapshot's copy of the repository, and the quick checks C15 and C04 are run: does an EXECUTION produce a failing
# input (oracle), or only the regenerated table (proof, no-failing-input-found), or nothing?
set -u
R="${VP_RUN_REPO:-/repo}"
if [ "$R" != "/repo" ]; then
  sed -i "s#/repo/#$R/#g" harness/Cargo.toml check
  export VERIF_REPO="$R"
fi
export VERIF_SPECS="$PWD/work/specs.txt"
./check --setup > setup.log 2>&1; tail -1 setup.log
D=$R/programs/whirlpool/src/pinocchio/instructions
: > pino_mutants.tsv
for f in decrease_liquidity.rs decrease_liquidity_v2.rs increase_liquidity.rs increase_liquidity_v2.rs increase_liquidity_by_token_amounts_v2.rs reposition_liquidity_v2.rs; do
  for n in $(grep -n -E '^\s*(verify_[a-z_]+|pino_verify_position_authority)\(.*\)\?;\s*$' $D/$f | cut -d: -f1); do
    line=$(sed -n "${n}p" $D/$f | sed 's/^ *//')
    sed -i "${n}s/.*/    \/\/ mutant: statement removed/" $D/$f
    res=""
    for c in C15 C04; do
      out=$(./check $c --tier quick 2>&1)
      if echo "$out" | grep -q "^VIOLATION.*no-failing-input-found"; then k="table-only"
      elif echo "$out" | grep -q "^VIOLATION"; then k="execution: $(echo "$out" | grep -m1 -A1 '^VIOLATION' | tail -1 | cut -c1-110)"
      elif echo "$out" | grep -q "^OK"; then k="MISSED"
      else k="other: $(echo "$out" | tail -1 | cut -c1-80)"; fi
      res="$res\t$c: $k"
    done
    echo -e "$f:$n\t$line$res" | tee -a pino_mutants.tsv
    git -C $R checkout -- programs/whirlpool/src/pinocchio/instructions/$f
  done
done
echo done
