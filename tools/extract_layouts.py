"""T (part 3): byte layouts of the account types, as the Anchor types declare them and as the Pinocchio
memory-mapped views declare them; the Pinocchio getters (which field, which integer type); the
discriminators (Anchor: sha256("account:<Name>")[..8], Pinocchio: the literal in the source).

Emitted as Lean data in Gen/Layouts.lean; offsets are COMPUTED IN LEAN (WP/Model/Layout.lean) and
compared by theorems in WP/Props/C12.lean.
"""
import re, hashlib
import extract as X
from extract import ExtractError, strip_comments, write_if_changed
from extract_specs import lean_str, split_top, matching

ANCHOR_STRUCTS = [
    ("state/whirlpool.rs", "Whirlpool", "Whirlpool", "borsh"),
    ("state/whirlpool.rs", "WhirlpoolRewardInfo", None, "borsh"),
    ("state/position.rs", "Position", "Position", "borsh"),
    ("state/position.rs", "PositionRewardInfo", None, "borsh"),
    ("state/tick.rs", "Tick", None, "packed"),
    ("state/fixed_tick_array.rs", "TickArray", "TickArray", "packed"),
    ("state/dynamic_tick_array.rs", "DynamicTickArray", "DynamicTickArray", "borsh"),
    ("state/dynamic_tick_array.rs", "DynamicTickData", None, "borsh"),
]
PINO_STRUCTS = [
    ("pinocchio/state/whirlpool/whirlpool.rs", "MemoryMappedWhirlpool"),
    ("pinocchio/state/whirlpool/whirlpool.rs", "MemoryMappedWhirlpoolRewardInfo"),
    ("pinocchio/state/whirlpool/position.rs", "MemoryMappedPosition"),
    ("pinocchio/state/whirlpool/position.rs", "MemoryMappedPositionRewardInfo"),
    ("pinocchio/state/whirlpool/tick_array/tick.rs", "MemoryMappedTick"),
    ("pinocchio/state/whirlpool/tick_array/fixed_tick_array.rs", "MemoryMappedFixedTickArray"),
    ("pinocchio/state/whirlpool/tick_array/dynamic_tick_array.rs", "MemoryMappedDynamicTickArray"),
]
PRIMS = {"u8": 1, "u16": 2, "u32": 4, "u64": 8, "u128": 16, "i32": 4, "i64": 8, "i128": 16, "bool": 1, "Pubkey": 32}


def pino_aliases():
    txt = strip_comments(X.read("pinocchio/state/mod.rs"))
    al = {}
    for m in re.finditer(r"pub type (\w+)(<[^>]*>)? = (.+?);\s*\n", txt):
        if m.group(2):
            continue
        al[m.group(1)] = m.group(3).strip()
    return al


def const_env():
    env = {}
    for rel in ["state/tick_array.rs", "state/whirlpool.rs", "pinocchio/state/whirlpool/tick_array/mod.rs",
                "pinocchio/state/whirlpool/tick_array/dynamic_tick_array.rs"]:
        txt = strip_comments(X.read(rel))
        for m in re.finditer(r"const (\w+): (?:usize|i32|u16) = ([^;]+);", txt):
            try:
                env[m.group(1)] = X.eval_const_expr(m.group(2), env, rel)
            except Exception:
                pass
    return env


def struct_fields(rel, name):
    txt = strip_comments(X.read(rel))
    m = re.search(r"pub struct %s\s*\{" % re.escape(name), txt)
    if not m:
        raise ExtractError(f"{rel}: struct {name} not found")
    j = matching(txt, m.end() - 1, "{", "}")
    body = txt[m.end():j]
    # attributes before the struct (repr / account kind)
    head = txt[max(0, m.start() - 300):m.start()]
    attrs = re.findall(r"#\[[^\]]*\]", head.split("}")[-1])
    fields = []
    for part in split_top(body):
        part = part.strip()
        if not part:
            continue
        part = re.sub(r"#\[[^\]]*\]", "", part).strip()
        fm = re.match(r"(?:pub(?:\([^)]*\))?\s+)?(\w+)\s*:\s*(.+)$", part, re.S)
        if not fm:
            raise ExtractError(f"{rel}: cannot parse field `{part}` of {name}")
        fields.append((fm.group(1), " ".join(fm.group(2).split())))
    return fields, attrs


def ty_lean(t, env, aliases, known):
    """Rust type text -> Lean `Ty` term"""
    t = t.strip()
    t = re.sub(r"^(crate::state::|super::|crate::pinocchio::state::whirlpool::)+", "", t)
    if t in aliases:
        canon = {"BytesU16": ("u16", 2), "BytesU32": ("u32", 4), "BytesU64": ("u64", 8), "BytesU128": ("u128", 16),
                 "BytesI128": ("i128", 16), "BytesI32": ("i32", 4), "ByteBool": ("bool", 1)}
        if t not in canon:
            raise ExtractError(f"layout: unknown alias {t}")
        # the alias must really be a byte array of that size
        want = canon[t][1]
        m = re.match(r"\[u8;\s*(\d+)\]$", aliases[t])
        if not ((m and int(m.group(1)) == want) or (aliases[t] == "u8" and want == 1)):
            raise ExtractError(f"layout: alias {t} = {aliases[t]} is not {want} bytes")
        return f".prim {lean_str(canon[t][0])} {want}"
    if t in PRIMS:
        return f".prim {lean_str(t.lower())} {PRIMS[t]}"
    m = re.match(r"\[(.+);\s*([^\]]+)\]$", t)
    if m:
        n = m.group(2).strip()
        n = re.sub(r"^(crate::state::|super::)+", "", n)
        nv = int(n) if n.isdigit() else env.get(n)
        if nv is None:
            raise ExtractError(f"layout: unknown array length {n}")
        return f".arr ({ty_lean(m.group(1), env, aliases, known)}) {nv}"
    if t in known:
        return f".struct {lean_str(t)}"
    raise ExtractError(f"layout: unknown type `{t}`")


def pino_getters(rel, name):
    """(getter, return type, field, conversion) for `fn g(&self) -> T { T::from_le_bytes(self.f) }` and friends"""
    txt = strip_comments(X.read(rel))
    m = re.search(r"impl %s\s*\{" % re.escape(name), txt)
    rows = []
    if not m:
        return rows
    j = matching(txt, m.end() - 1, "{", "}")
    body = txt[m.end():j]
    for fm in re.finditer(r"pub fn (\w+)\(&self\)\s*->\s*([^{]+)\{", body):
        k = matching(body, fm.end() - 1, "{", "}")
        b = " ".join(body[fm.end():k].split())
        ret = fm.group(2).strip()
        g = re.match(r"(\w+)::from_le_bytes\(self\.(\w+)\)$", b)
        if g:
            rows.append((fm.group(1), ret, g.group(2), g.group(1)))
            continue
        g = re.match(r"&self\.(\w+)$", b)
        if g:
            rows.append((fm.group(1), ret, g.group(1), "ref"))
            continue
        g = re.match(r"self\.(\w+) != 0$", b)
        if g:
            rows.append((fm.group(1), ret, g.group(1), "nonzero"))
            continue
        g = re.match(r"\[\s*((?:u128::from_le_bytes\(self\.\w+\[\d\]\),?\s*)+)\]$", b)
        if g:
            f = re.findall(r"self\.(\w+)\[(\d)\]", b)
            if [int(x[1]) for x in f] == list(range(len(f))) and len({x[0] for x in f}) == 1:
                rows.append((fm.group(1), ret, f[0][0], "u128-array"))
                continue
        rows.append((fm.group(1), ret, "?", b[:80]))
    return rows


def gen_layouts():
    env = const_env()
    aliases = pino_aliases()
    known_a = {n for _, n, _, _ in ANCHOR_STRUCTS} | {"DynamicTick"}
    known_p = {n for _, n in PINO_STRUCTS}
    out = "import WP.Model.Layout\nnamespace WP.Gen\nopen WP\n\n"
    out += "/-- Anchor account types: (name, repr, fields) -/\ndef anchorStructs : List (String × String × List (String × Ty)) := [\n"
    rows = []
    discs = []
    for rel, name, acct, kind in ANCHOR_STRUCTS:
        fields, attrs = struct_fields(rel, name)
        fl = []
        for f, t in fields:
            if name == "DynamicTickArray" and f == "ticks":
                # variable part: 88 Borsh enums, not a fixed layout; the header is what is compared
                continue
            fl.append(f"({lean_str(f)}, {ty_lean(t, env, aliases, known_a)})")
        packed = any("packed" in a for a in attrs)
        if kind == "packed" and not packed:
            raise ExtractError(f"{rel}: {name} is no longer #[repr(C, packed)]")
        rows.append(f"  ({lean_str(name)}, {lean_str(kind)}, [{', '.join(fl)}])")
        if acct:
            d = hashlib.sha256(("account:" + acct).encode()).digest()[:8]
            discs.append(f"  ({lean_str(name)}, [{', '.join(str(x) for x in d)}])")
    out += ",\n".join(rows) + "]\n\n"
    out += "/-- sha256(\"account:<Name>\")[..8] -/\ndef anchorDiscriminators : List (String × List Nat) := [\n" + ",\n".join(discs) + "]\n\n"
    out += "/-- Pinocchio memory-mapped views (all #[repr(C)] over byte arrays): (name, fields) -/\ndef pinoStructs : List (String × List (String × Ty)) := [\n"
    rows, discs, getters = [], [], []
    for rel, name in PINO_STRUCTS:
        fields, attrs = struct_fields(rel, name)
        if not any("repr(C)" in a for a in attrs):
            raise ExtractError(f"{rel}: {name} is not #[repr(C)]")
        fl = [f"({lean_str(f)}, {ty_lean(t, env, aliases, known_p)})" for f, t in fields]
        rows.append(f"  ({lean_str(name)}, [{', '.join(fl)}])")
        txt = strip_comments(X.read(rel))
        m = re.search(r"impl WhirlpoolProgramAccount for %s\s*\{\s*const DISCRIMINATOR: \[u8; 8\] = \[([^\]]+)\];" % re.escape(name), txt)
        if m:
            vals = [int(x.strip(), 16) for x in m.group(1).split(",") if x.strip()]
            discs.append(f"  ({lean_str(name)}, [{', '.join(str(x) for x in vals)}])")
        for g in pino_getters(rel, name):
            getters.append(f"  ({lean_str(name)}, {lean_str(g[0])}, {lean_str(g[1])}, {lean_str(g[2])}, {lean_str(g[3])})")
    out += ",\n".join(rows) + "]\n\n"
    out += "def pinoDiscriminators : List (String × List Nat) := [\n" + ",\n".join(discs) + "]\n\n"
    out += "/-- Pinocchio getters: (struct, getter, return type, field read, conversion) -/\ndef pinoGetters : List (String × String × String × String × String) := [\n" + ",\n".join(getters) + "]\n\n"
    out += "end WP.Gen\n"
    return write_if_changed("Layouts.lean", out)


def stage3():
    return ["Layouts.lean"] if gen_layouts() else []


X.EXTRA_STAGES.append(stage3)
