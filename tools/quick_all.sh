#!/bin/bash
# run every quick check serially on the current tree (refreshes evidence/); print one verdict line each
cd /verif
for i in $(seq -w 1 20); do
  t0=$(date +%s); out=$(./check C$i --tier quick 2>&1); rc=$?; t1=$(date +%s)
  echo "== C$i rc=$rc ($((t1-t0))s): $(echo "$out" | grep -E '^(OK|VIOLATION|KNOWN-FINDING)' | head -3 | tr '\n' ' ')"
done
