"""Per-property configuration of ./check: Lean modules holding the property theorems, support
modules whose theorems are also audited, and correspondence families (name, quick count, thorough count)."""

PROPS = {
    "C09": {
        "lean_modules": ["WP.Props.C09"],
        "lean_support": ["WP.Props.C09.Check", "WP.Props.C09.Mono", "WP.Props.C09.Bridge", "WP.Props.C09.AllTicks"],
        "lean_dirs": [],
        # sp / tib are exhaustive (every tick; every tick boundary and one unit either side)
        "families": [("sp", 0, 0), ("tib", 0, 0), ("tir", 100000, 10000000)],
        "rule": "sp: all 887273 ticks (exhaustive); tib: sp(t)-1, sp(t), sp(t)+1 for every tick (exhaustive, 2661819 prices); "
                "tir: random in-bounds prices (tick-boundary-relative and interior); every case is non-trivial (a full conversion); distinct by hash of the op line",
        "trusted": ["the exhaustive forward sweep (family sp) makes `sp` of the model equal to sqrt_price_from_tick_index on every tick; "
                    "`ti` of the model is compared with tick_index_from_sqrt_price at every tick boundary +-1 and on random interior prices"],
    },
}
