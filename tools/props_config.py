"""Per-property configuration of ./check: Lean modules holding the property theorems, support
modules whose theorems are also audited, and correspondence families (name, quick count, thorough count)."""

PROPS = {
    "C09": {
        "lean_modules": ["WP.Props.C09"],
        "lean_support": ["WP.Props.C09.Check", "WP.Props.C09.Mono", "WP.Props.C09.Bridge", "WP.Props.C09.AllTicks"],
        "lean_dirs": [],
        # sp / tib are exhaustive (every tick; every tick boundary and one unit either side)
        "families": [("sp", 0, 0), ("tib", 0, 0), ("tir", 100000, 10000000)],
        "rule": "sp: all 887273 ticks (exhaustive); tib: sp(t)-1, sp(t), sp(t)+1 for every tick (exhaustive, 2661819 prices); "
                "tir: random in-bounds prices (tick-boundary-relative and interior); every case is non-trivial (a full conversion); distinct by hash of the op line",
        "trusted": ["the exhaustive forward sweep (family sp) makes `sp` of the model equal to sqrt_price_from_tick_index on every tick; "
                    "`ti` of the model is compared with tick_index_from_sqrt_price at every tick boundary +-1 and on random interior prices"],
    },
    "C02": {
        "lean_modules": ["WP.Props.C02"],
        "lean_support": ["WP.Lemmas.Rounding", "WP.Props.C02.Components", "WP.Props.C02.Inversion", "WP.Props.C02.Amounts",
                         "WP.Props.C02.NextPrice", "WP.Props.C02.Arith", "WP.Props.C02.Direction"],
        "families": [("step", 60000, 5000000), ("da", 20000, 1000000), ("db", 20000, 1000000), ("nsp", 20000, 1000000),
                     ("mdr", 10000, 500000), ("msr", 10000, 500000), ("d256", 20000, 2000000)],
        "rule": "step: compute_swap on (remaining, fee rate, liquidity, current, target, mode, direction) with log-uniform magnitudes, "
                "tick-relative targets and budgets scaled to 0..2.2x the amount the whole move needs, so max, partial and no-move steps all occur; "
                "non-trivial = successful step moving a non-zero amount on well-formed arguments; da/db/nsp/mdr/msr/d256: component functions; "
                "distinct by hash of the op line",
        "trusted": ["exact-arithmetic oracle of family `step` checks every clause of C02 on the implementation with num-bigint, independently of the Lean model"],
    },
    "C05": {
        "lean_modules": ["WP.Props.C05", "WP.Props.Reach"],
        "lean_support": ["WP.Props.SwapPath", "WP.Props.FeePath", "WP.Props.PathBase", "WP.Props.C10", "WP.Props.C09", "WP.Props.C02", "WP.Props.C06", "WP.Props.C03"],
        "families": [("hist", 8000, 400000)],
        "history": True,
        "rule": "hist: random histories (40-100 ops after each `H init`) of open / increase / decrease (Anchor or Pinocchio path, chosen per op) / "
                "update-fees / collect / swap (both directions and modes, limits on and off initialized ticks) / clock / rewards on a real Whirlpool with "
                "fixed, dynamic or mixed tick arrays; digest of the whole state compared with the model after every op; oracle recomputes pool liquidity and "
                "every tick's net/gross/initialized from the positions; non-trivial = an operation that succeeded; distinct by hash of (op line, clock)",
        "trusted": ["C05 in Lean: preservation proved for every operation incl. `swap` through the whole loop, static and adaptive fee, over aligned consecutive array sequences "
                    "(WP.Path.swap_path, WP.Reach.swap_step, WP.Reach.reach: every reachable state); hypotheses kept visible: SeqOK (proved for the loader's output: buildSeq_seqOK), "
                    "u64 amount, fee rate within the hard limit, adaptive-fee state in range (InfoOK, itself preserved)"],
    },
    "C08": {
        "lean_modules": ["WP.Props.C08", "WP.Props.LimitGuards"],
        "lean_support": ["WP.Props.C02.Components", "WP.Props.C02.Amounts", "WP.Lemmas.Rounding"],
        "families": [("ltd", 40000, 2000000), ("est", 40000, 2000000), ("hist", 10000, 300000)],
        "history": True,
        "rule": "hist ops xliqt / xrepo: increase_liquidity_by_token_amounts_v2 (price window, liquidity estimated from fee-excluded token maxima, then the increase with the maxima as limits) and reposition_liquidity_v2 (withdraw all, re-range keeping owed amounts, deposit, net transfers with transfer fees, limits exact / one unit too tight) through the REAL entrypoint, compared with the step-by-step manager-level reference (position, pool, all four tick arrays byte for byte, balances) and with the Lean model; ltd: calculate_liquidity_token_deltas (Anchor and Pinocchio on the same serialized position) over usable ranges of all spacings, "
                "prices on a bound / shifted-tick state / interior / anywhere, liquidity log-uniform up to i128::MAX, both signs; est: "
                "estimate_max_liquidity_from_token_amounts; hist: increase/decrease inside histories; non-trivial = success with a non-zero amount",
        "trusted": ["handler-level token_max/token_min comparisons are not yet tied by the translator (they are exercised only through the model's own check)"],
    },
    "C01": {
        "lean_modules": ["WP.Props.C01"],
        "lean_support": ["WP.Props.Solvency.Basic", "WP.Props.Solvency.Step", "WP.Props.Solvency.Loop", "WP.Props.Solvency.Swap",
                         "WP.Props.Solvency.Ops", "WP.Props.Solvency.Reach", "WP.Props.Solvency.Final", "WP.Props.Solvency.Ext"],
        "families": [("hist", 10000, 500000)],
        "history": True,
        "rule": "hist: random histories (40-100 ops after each `H init`) on a real Whirlpool (fixed / dynamic / mixed tick arrays; Anchor or Pinocchio liquidity path per op; fee accumulators started anywhere in u128 incl. just below wrap-around); the whole state digest is compared with the Lean model after every op and the implementation-side oracles (hist_oracle.rs) run after every op; non-trivial = a successful op; distinct by hash of (op line, clock)",
        "trusted": ["the theorems are about the history state machine WP.Model.Hist (hand-written); it is tied to the code by the digest comparison after every operation of every generated history and by the implementation-side drain oracle (every position fully withdrawn + fees + protocol fees collected, rotating orders, at every prefix) and trader ledger",
                    "hypotheses of the theorems: aligned consecutive array sequences for swaps (the loader's output: buildSeq_seqOK), u64 swap amount, a pool that starts empty with in-bounds price / fee rate / protocol fee rate",
                    "token vault balances are bookkeeping of the transfers the handlers make (plain SPL tokens; transfer fees are C16); reward vaults are outside this property"],
    },
    "C03": {
        "lean_modules": ["WP.Props.C03"],
        "lean_support": ["WP.Props.C06", "WP.Props.SwapPath", "WP.Props.FeePath", "WP.Props.PathBase", "WP.Props.Reach"],
        "families": [("hist", 10000, 500000)],
        "history": True,
        "rule": "hist: random histories (40-100 ops after each `H init`) on a real Whirlpool (fixed / dynamic / mixed tick arrays; Anchor or Pinocchio liquidity path per op; fee accumulators started anywhere in u128 incl. just below wrap-around); the whole state digest is compared with the Lean model after every op and the implementation-side oracles (hist_oracle.rs) run after every op; non-trivial = a successful op; distinct by hash of (op line, clock)",
        "trusted": ["final price between limit and start price: proved through the whole loop (static and adaptive fee) over aligned consecutive array sequences (WP.Path.swap_path, WP.Reach.swap_step), also checked by the swap oracle on the implementation; the handler threshold comparison is modelled (swapThreshold), single and two-hop handlers are not executed here"],
    },
    "C06": {
        "lean_modules": ["WP.Props.C06"],
        "lean_support": ["WP.Props.C02"],
        "families": [("hist", 10000, 500000), ("step", 20000, 1000000)],
        "history": True,
        "rule": "hist op xrew: set_reward_emissions, collect_reward / collect_reward_v2 and collect_protocol_fees / _v2 executed through the REAL entrypoint on a fixture of the current state (right key / stranger / no signature; emission rates around the one-day vault bound; reward mints with transfer fees): result, amounts, what stays owed and the settled pool state compared with the Lean model and the manager-level rule; hist: random histories (40-100 ops after each `H init`) on a real Whirlpool (fixed / dynamic / mixed tick arrays; Anchor or Pinocchio liquidity path per op; fee accumulators started anywhere in u128 incl. just below wrap-around); the whole state digest is compared with the Lean model after every op and the implementation-side oracles (hist_oracle.rs) run after every op; non-trivial = a successful op; distinct by hash of (op line, clock)",
        "trusted": ["per-step trace of the real swap loop comes from the `verif` hook in swap_manager.rs; the emitted Traded event is not decoded here"],
    },
    "C07": {
        "lean_modules": ["WP.Props.C07", "WP.Props.GrowthPath", "WP.Props.ReachGrowth", "WP.Props.PositionFees"],
        "lean_support": ["WP.Props.Reach", "WP.Props.SwapPath", "WP.Props.FeePath", "WP.Props.PathBase"],
        "families": [("pmod", 20000, 1000000), ("hist", 10000, 500000)],
        "history": True,
        "rule": "pmod: one modify-liquidity on an ARBITRARY pool / position / bound-tick state (boundary-biased u128 values, fee growth inside numerically BELOW the position's checkpoint, i.e. wrapped accumulators) run by the Anchor managers and by the Pinocchio port on identical bytes and compared with each other and with the model's credit rule (added after seed C07_6: a checked instead of a wrapping subtraction in the Pinocchio port's fee delta, which a 10000-op history run did not reach); hist: random histories (40-100 ops after each `H init`) on a real Whirlpool (fixed / dynamic / mixed tick arrays; Anchor or Pinocchio liquidity path per op; fee accumulators started anywhere in u128 incl. just below wrap-around); the whole state digest is compared with the Lean model after every op and the implementation-side oracles (hist_oracle.rs) run after every op; non-trivial = a successful op; distinct by hash of (op line, clock)",
        "trusted": ["the composition of the per-step lemmas along a whole swap, and for every swap of every history, is proved in the model (Growth.swap_fee_growth, Reach.history_fee_growth); the chain from growth-inside to a position's credited fees across several updates is checked by the shadow-ledger oracle (exact pro-rata shares from the step trace) and the model correspondence"],
    },
    "C11": {
        "lean_modules": ["WP.Props.C11", "WP.Props.RewardPath", "WP.Props.ReachGrowth", "WP.Props.PositionRewards"],
        "lean_support": ["WP.Props.PositionFees", "WP.Props.C07", "WP.Props.GrowthPath", "WP.Props.Reach", "WP.Props.SwapPath", "WP.Props.FeePath", "WP.Props.PathBase"],
        "families": [("remis", 40000, 2000000), ("hist", 10000, 500000)],
        "history": True,
        "rule": "remis: next_whirlpool_reward_infos + Whirlpool::update_emissions on arbitrary reward states (0-3 initialized rewards, rates 0 / huge, growths near wrap-around, zero liquidity, zero / negative / huge elapsed time, every index incl. 3): every initialized reward must be settled at its OLD rate (exact big-integer oracle), only the addressed reward gets the new rate; hist op xrew: set_reward_emissions, collect_reward / collect_reward_v2 and collect_protocol_fees / _v2 executed through the REAL entrypoint on a fixture of the current state (right key / stranger / no signature; emission rates around the one-day vault bound; reward mints with transfer fees): result, amounts, what stays owed and the settled pool state compared with the Lean model and the manager-level rule; hist: random histories (40-100 ops after each `H init`) on a real Whirlpool (fixed / dynamic / mixed tick arrays; Anchor or Pinocchio liquidity path per op; fee accumulators started anywhere in u128 incl. just below wrap-around); the whole state digest is compared with the Lean model after every op and the implementation-side oracles (hist_oracle.rs) run after every op; non-trivial = a successful op; distinct by hash of (op line, clock)",
        "trusted": ["pro-rata/never-inflated along histories is checked by the reward shadow ledger of the history harness; reward-vault balances are harness bookkeeping (no token program is executed)"],
    },
    "C04": {
        "lean_modules": ["WP.Props.C04"],
        "lean_support": ["WP.Model.Access"],
        "families": [("posauth", 20000, 200000), ("xadm", 8000, 400000), ("xini", 8000, 400000), ("xinitaf", 6000, 300000), ("xbun", 6000, 300000), ("hist", 12000, 300000)],
        "history": True,
        "rule": "xini / xinitaf / xbun: every initialiser (config: admin key; fee tiers, adaptive fee tiers, config extension: fee authority; token badges: the token-badge authority of this config's extension; rewards: reward authority; adaptive-fee pools: the tier's initialize-pool authority) and every position-bundle instruction through the REAL entrypoint with the required authority signing / a stranger signing in its slot / the key passed without signing (bundles also: a one-token delegate): only the first may succeed (oracle), results compared with the Lean models by code name; xadm: 19 settings instructions (fee / protocol fee rates of pools, fee tiers and adaptive fee tiers, every set-authority instruction, adaptive-fee constants, config feature flag, config-extension and token-badge settings) executed through the program's REAL entrypoint on a world of two configs with different authorities: everything right / authority not signing / a stranger signing / the other config's authority with this config's target account or another role's authority / value out of bounds / target account of the other config; the op line carries the environment read from the real accounts, the Lean model answers with `accepts` on the REGENERATED account table (acceptsB_iff) and the setter's bound, so the translated tables and the semantics given to Signer / address / has_one / constraint are compared with Anchor's generated validation; oracle: only the all-right variant may succeed, then only the target account changes AND the value stored is the value asked for (rates of pools / tiers / config; the adaptive-fee constants that result from a PARTIAL set_adaptive_fee_constants - each argument optional -, with the variables reset; an unchanged set refused); hist (ops xliq, xsub): the REAL liquidity instructions through the program's entrypoint with the position owner signing / a stranger signing / the owner not signing, and every account slot of swap_v2 and increase_liquidity_v2 (incl. the signer) replaced by a look-alike: unauthorized variants must be refused and change nothing; posauth: every combination of (owner, delegate present/absent/which, delegated amount 0/1/2/5, token amount, authority key, signer flag) "
                "on real spl-token account bytes through verify_position_authority, verify_position_authority_interface and pino_verify_position_authority "
                "(the space has 1920 points; sampled with replacement far beyond that); non-trivial = an accepted combination; "
                "the instruction tables (63 accounts structs, 6 Pinocchio prologues, handler guards, routing table, #[program] list) are regenerated and checked against the requirement tables by `decide`",
        "trusted": ["semantics given to Anchor's `Signer`, `address =`, `has_one`, `constraint =` and to Pinocchio's next_signer/verify_address/verify_constraint (WP/Model/Access.lean); "
                    "handlers are not executed (no SVM offline): a broken row is reported with the row as witness and no-failing-input-found"],
    },
    "C14": {
        "lean_modules": ["WP.Props.C14", "WP.Props.ZeroControl", "WP.Props.SetConstants"],
        "lean_support": [],
        "families": [("afm", 40000, 2000000), ("hist", 12000, 300000), ("afc", 10000, 300000), ("xinitaf", 6000, 300000), ("xadm", 4000, 200000)],
        "history": True,
        "rule": "xadm: set_adaptive_fee_constants through the REAL entrypoint on an Oracle whose variables are NOT at rest (accumulator 290000 of a maximum 350000): the model runs its own handler (`setAdaptiveFeeConstants`: merge of the optional arguments, unchanged?, valid for the spacing?) on the stored constants and the request, the constants stored are those that result and the variables are reset, so that an accumulator kept across a lowered maximum cannot exceed it (theorems SetConstants.set_constants_infoOK, accumulator_bounded_over_histories: over every sequence of swaps and constant changes); xinitaf: initialize_pool_with_adaptive_fee through the REAL entrypoint: the created Oracle records the pool, the tier's constants (valid by an independent re-implementation of the rules) with zeroed variables and the requested trade-enable time, which is accepted only from a permissioned tier, at most 72 h ahead and 30 s back (model `initializePoolWithAdaptiveFee`, theorem C19.init_pool_af_sound); hist op xhop with a trade-enable mode: a pool whose Oracle says trading starts later refuses a swap alone and as a leg; afm: the real FeeRateManager driven directly: new() (reference update) + four loop iterations (accumulator, total rate, bounded target, advance / advance-after-skip) + major-swap update over "
                "boundary-biased valid constants (all group sizes dividing the spacing, control factor 0 / tiny / maximal, accumulator maximum 0 / around 10000 / u32::MAX / size), arbitrary stored variables "
                "satisfying the invariant, all elapsed-time classes around filter / decay / 3600 s, both directions, zero liquidity, targets inside / at / beyond group boundaries; "
                "hist: half of all pool histories are adaptive-fee pools (H af): per-step rate recomputed from the pre-swap oracle state by an independent implementation of the schedule, stored reference / "
                "accumulator / major-swap timestamp rules, bounds, and every swap of a zero-control-factor pool replayed on a static-fee copy; afc: validate_constants; non-trivial = a step charged more than the static rate",
        "trusted": ["the trade-enable refusal and the writing of the variables back to the Oracle account are handler code (swap.rs / v2): their guards are in the regenerated C04/C15 tables, the handlers are not executed",
                    "the reference group index lies in [MIN_TICK/size, MAX_TICK/size] (it is always the group of an in-bounds current tick); outside it FeeRateManager::new can abort in sqrt_price_from_tick_index"],
    },
    "C15": {
        "lean_modules": ["WP.Props.C15"],
        "lean_support": ["WP.Model.Access"],
        "families": [("ldta", 0, 0), ("posauth", 5000, 50000), ("xadm", 8000, 400000), ("hist", 12000, 300000)],
        "history": True,
        "rule": "xadm: 19 settings instructions (fee / protocol fee rates of pools, fee tiers and adaptive fee tiers, every set-authority instruction, adaptive-fee constants, config feature flag, config-extension and token-badge settings) executed through the program's REAL entrypoint on a world of two configs with different authorities: everything right / authority not signing / a stranger signing / the other config's authority with this config's target account or another role's authority / value out of bounds / target account of the other config; the op line carries the environment read from the real accounts, the Lean model answers with `accepts` on the REGENERATED account table (acceptsB_iff) and the setter's bound, so the translated tables and the semantics given to Signer / address / has_one / constraint are compared with Anchor's generated validation; oracle: only the all-right variant may succeed, then only the target account changes AND the value stored is the value asked for (rates of pools / tiers / config; the adaptive-fee constants that result from a PARTIAL set_adaptive_fee_constants - each argument optional -, with the variables reset; an unchanged set refused); hist (op xsub): every account slot of the real swap_v2 and increase_liquidity_v2 instructions replaced by a look-alike of the same owner and type (vault / tick array / oracle of another pool over the same mints, another mint, another position and its token account, the other token program, a stranger as signer): the instruction must be refused and change nothing; ldta: all 64 combinations of (owner ok, writable, discriminator fixed/dynamic/other/short, whirlpool field ok, mutable load) through the Anchor and the "
                "Pinocchio tick-array loaders (exhaustive); the slot table of the 15 fund-moving accounts structs and 6 Pinocchio prologues is regenerated and checked by `decide`",
        "trusted": ["as C04; the sparse-swap builder's account checks (PDA, ownership) are part of C10's family; token-program-side checks (owner accounts) are Solana's"],
    },
    "C16": {
        "lean_modules": ["WP.Props.C16"],
        "lean_support": ["WP.Props.C03"],
        "families": [("tfee", 60000, 3000000), ("hist", 20000, 400000)],
        "history": True,
        "rule": "tfee: calculate_transfer_fee_included / excluded_amount of BOTH implementations (Anchor on an InterfaceAccount<Mint>, Pinocchio on a memory-mapped account through its own TLV parser and Clock) on a real "
                "Token-2022 mint account with a TransferFeeConfig (rates 0..=10000 bp incl. 0 / 1 / 9999 / 10000, maximum fees 0 / 1 / around the cap / u64::MAX, the fee in force being the older or the newer one), "
                "amounts boundary-biased incl. around maxFee x 10000 / bps; oracle: exact arithmetic (sum, fee-reduced value, minimality, failure only on u64 overflow); hist: op xswap runs the REAL swap and swap_v2 "
                "instructions through the program's entrypoint on accounts built from the current pool state, with the REAL spl-token / Token-2022 processors executing the transfers (plain SPL mints, Token-2022 "
                "mints with and without transfer fee on either side, exact-in / exact-out, both directions, price limits, thresholds off / exactly binding / one unit too tight); compared: trader and vault balance "
                "deltas, withheld fees, pool account vs the manager-level swap, Traded event vs amounts moved, error names; non-trivial = a successful instruction with a transfer fee",
        "trusted": ["native executor (harness/src/svm.rs): BPF-loader input format, Clock/Rent stubs, CPI dispatch with signer-privilege checks, host arms of pinocchio / solana-invoke / solana-msg / anchor-lang routed to it by the vendored copies (marked HOST HOOK)",
                    "liquidity instructions (increase / decrease / reposition v2) and the two-hop handlers are not yet executed; their fee wrappers are the same two functions (tfee)",
                    "transfer hooks and confidential transfers are out of scope"],
    },
    "C17": {
        "lean_modules": ["WP.Props.C17"],
        "lean_support": [],
        "families": [("hist", 20000, 400000)],
        "history": True,
        "rule": "hist, op xhop: the REAL two_hop_swap / two_hop_swap_v2 instruction executed through the program's entrypoint (native executor, real token programs) on a route of two pools — the current state of the "
                "history and a state saved earlier by `H snap`, in either order — sharing an intermediate mint, for all four direction combinations, exact-in / exact-out, price limits on either leg, thresholds "
                "off / exactly binding / one unit too tight, SPL and Token-2022 mints with transfer fees on the outer tokens, static and adaptive-fee pools; on a copy of the same accounts the two REAL single-swap "
                "instructions are executed (exact-out: after quoting leg two); oracles: success iff both legs succeed, the intermediate amounts match and the threshold holds; every program-owned account, all vault "
                "balances and the trader's three balances equal those after the two single swaps; a failed two-hop changes nothing; non-trivial = a successful two-hop",
        "trusted": ["native executor and vendored host hooks (see C16)", "routes use a fee-free intermediate mint (with a fee on it the single-swap history pays the fee twice and is not comparable balance for balance)",
                    "DuplicateTwoHopPool / InvalidIntermediaryMint: account-level guards, covered by the regenerated tables of C04/C15 only"],
    },
    "C18": {
        "lean_modules": ["WP.Props.C18"],
        "lean_support": ["WP.Props.C09"],
        "families": [("reset", 30000, 1000000), ("snap", 30000, 1000000), ("bundle", 30000, 1000000), ("xbun", 6000, 300000), ("hist", 12000, 300000)],
        "rule": "xbun: histories of position-bundle instructions through the REAL entrypoint on a persistent world: initialize_position_bundle (bundle account, mint and associated token account created by Anchor's init, the system program, the real SPL Token processor), open_bundled_position / close_bundled_position over all kinds of indexes (0..255, open ones, 256 and beyond) and ranges, delete_position_bundle; the bundle owner signing / a stranger / nobody / a one-token delegate; closing positions made non-empty (liquidity, owed fee, owed reward); after EVERY op all 256 bundled-position addresses are probed: the bitmap marks exactly the accounts that exist; compared with the bitmap state machine `bundleUpdate` (theorems C18.bundle_update_spec, bitmap_exact, deletable_iff) and the range rules, result codes by name; hist op xopen: open_position and open_position_with_token_extensions (with / without token metadata) through the REAL entrypoint, system program, associated-token program and the real SPL Token / Token-2022 processors, over explicit / invalid / price-derived bounds: one position token, no mint authority left, the resolved and validated range; hist op xlock: lock_position on a Token-2022 position token through the REAL entrypoint (freeze CPI into the real Token-2022 processor, LockConfig created through the system program), then one follow-up on the locked position: decrease / close / re-range / reposition / lock again must be refused, increase / collect fees / transfer_locked_position must work; hist (op xpos): update_fees_and_rewards, collect_fees / collect_fees_v2 (with transfer-fee mints), close_position and reset_position_range executed through the REAL entrypoint on a fixture built from the current state of the history (position account at its PDA, position mint with supply 1, position token account held by the owner or delegated with allowance 1 / 0), signed by the owner / a stranger / nobody / a one-token delegate / a zero-allowance delegate: result and error compared with the Lean model (isPositionEmpty, resetPositionRange, the position-authority rule) and with the manager-level reference; oracles: only the holder or one-token delegate succeeds, close / reset only on empty positions, reset stores a different valid range and zeroes the checkpoints, collect pays exactly the owed amounts (minus transfer fee) and zeroes them; reset: Position::reset_position_range (Anchor) and MemoryMappedPosition::reset_position_range (Pinocchio, keep_owed on/off) on the same serialized "
                "accounts over all spacings, usable/unusable/out-of-bound ticks, empty and non-empty positions; snap: resolve_one_sided_position_ticks with either/both/no "
                "sentinel over prices on and between ticks; bundle: open/close op sequences on a real PositionBundle (indexes incl. byte boundaries and >= 256); "
                "non-trivial = an accepted operation",
        "trusted": ["the associated-token program is a 60-line stand-in in the executor (address check, sizing and initialization by the real token programs); Metaplex metadata (open_position_with_metadata) is not executed"],
    },
    "C10": {
        "lean_modules": ["WP.Props.C10"],
        "lean_support": ["WP.Props.C13", "WP.Props.SwapPath", "WP.Props.FeePath", "WP.Props.PathBase", "WP.Props.Reach"],
        "families": [("hist", 12000, 300000), ("dyn", 10000, 500000)],
        "history": True,
        "rule": "hist: pool histories in which half of the swaps go through the REAL account-packaging layer (AccountInfo objects -> SparseSwapTickSequenceBuilder::new/try_build -> swap) with a random "
                "packaging: stored encoding or re-encoded fixed<->dynamic, empty system-owned accounts at the PDA for arrays without initialized ticks, a required array missing, duplicates, extra arrays "
                "ahead / behind, unrelated empty accounts, an array of another pool, any order, static + supplemental lists; arrays fixed / dynamic / alternating per history; oracles: (1) reference traversal "
                "over the abstract tick set from snapshots (liquidity = every initialized tick in the path applied once; only those ticks' outside values flipped; tick set unchanged) and order / multiplicity "
                "from the step trace, (2) the same swap with the canonical packaging on a copy of the world gives the same result and state; model correspondence on every op; dyn: next-initialized "
                "queries on fixed and dynamic arrays; non-trivial = a successful operation",
        "trusted": ["AccountInfo objects are built by the harness (owner, key, data); the instruction handlers around the builder (remaining-accounts parsing, token transfers) are not executed",
                    "the whole-loop composition of the step lemmas is an oracle + correspondence, not yet a theorem"],
    },
    "C12": {
        "lean_modules": ["WP.Props.C12", "WP.Props.PinoRewards"],
        "lean_support": ["WP.Props.C13"],
        "families": [("pmod", 40000, 2000000), ("poff", 40000, 3000000), ("hist", 10000, 300000), ("dyn", 10000, 500000), ("reset", 20000, 500000)],
        "history": True,
        "rule": "hist ops xliqt / xrepo: increase_liquidity_by_token_amounts_v2 (price window, liquidity estimated from fee-excluded token maxima, then the increase with the maxima as limits) and reposition_liquidity_v2 (withdraw all, re-range keeping owed amounts, deposit, net transfers with transfer fees, limits exact / one unit too tight) through the REAL entrypoint, compared with the step-by-step manager-level reference (position, pool, all four tick arrays byte for byte, balances) and with the Lean model; hist op xliq: the Pinocchio-routed increase / decrease_liquidity (v1, v2) instructions executed through the program's REAL entrypoint with the real token programs, compared with the manager-level result of both implementations, the model and exact fee arithmetic; pmod: one modify-liquidity on an ARBITRARY pool / position / bound-tick state (boundary-biased u128/i128 values, wrapped accumulators, all reward-initialisation prefixes, "
                "fixed and dynamic arrays, bounds in one or two arrays, increases / decreases / full removal, timestamps before / at / after the last update) run by the Anchor managers and by the "
                "Pinocchio port on identical bytes, compared with each other (result, error, every account byte, size / rent decisions) and with the model; poff: the division-free tick-offset routine "
                "against the Anchor checks for boundary and random ticks / spacings / start indexes; hist: every modify of every history is run by both implementations on copies and compared; "
                "dyn: tick arrays maintained by either accessor or both alternately; reset: reset_position_range by both; non-trivial = a successful operation",
        "trusted": ["token transfer, account realloc and event emission around the ported functions are not executed; the instruction prologues are C04/C15",
                    "start indexes are multiples of the spacing because tick arrays are only created through check_is_valid_start_tick (validStart_mod); for other start indexes the two offset routines differ"],
    },
    "C13": {
        "lean_modules": ["WP.Props.C13", "WP.Props.SetupTick"],
        "lean_support": [],
        "families": [("dyn", 20000, 1500000), ("dynx", 0, 0), ("xtarr", 8000, 400000), ("hist", 6000, 150000)],
        "history": True,
        "rule": "xtarr: initialize_tick_array and initialize_dynamic_tick_array (idempotent or not) through the REAL entrypoint for start indexes that are multiples of 88 x spacing inside / at / beyond the tick bounds, off by one tick or one spacing, the left-edge array and its neighbours, i32 extremes, on an address that is free / holds a fixed array / a dynamic array (both created by the real instructions) / an account of another program: a created array is empty, of this pool and start index, of the right size (9988 / 148 bytes), and only for a valid start index; compared with `initializeTickArrayIx` (theorem SetupTick.init_tick_array_sound); hist op xliq: the real liquidity instructions resize the REAL dynamic tick-array accounts and move rent: account length = 148 + 112 n, rent exemption and lamports against the rent ledger; dyn: random op sequences (initialize / modify / de-initialize / uninit->uninit updates, get, next-initialized in both directions incl. the shifted search range and just outside it, "
                "off-grid and out-of-array ticks) over all 88 slots, spacings and start indexes incl. the arrays straddling the minimum / maximum tick, applied to FIVE real arrays: dynamic via Anchor, dynamic via "
                "Pinocchio, dynamic via both alternately, fixed via Anchor, fixed via Pinocchio, and to an abstract slot map; dynx: EXHAUSTIVE over every subset of the representative slots "
                "{0,1,63,64,65,86,87} + one more, initialized ascending / descending / shuffled, each representative then queried, toggled, modified and toggled back; hist: whole-pool histories whose "
                "dynamic arrays' account length and rent units are driven by the TickArrayUpdate the managers return; non-trivial = a successful update (distinct by slot and bitmap)",
        "trusted": ["account realloc and lamport moves (increase/decrease_tick_array_size, transfer_rent_*) are runtime calls: the DECISIONS (TickArrayUpdate) are executed and checked, the resize itself is not",
                    "updates with initialized = false carry default fields (proved for next_tick_modify_liquidity_update: modify_update_canon); a fixed array would store other values verbatim"],
    },
    "C19": {
        "lean_modules": ["WP.Props.C19", "WP.Props.Setup", "WP.Props.SetConstants"],
        "lean_support": [],
        "families": [("mint", 40000, 2000000), ("badge", 0, 0), ("setfee", 10000, 200000), ("afc", 30000, 1000000), ("initpool", 20000, 500000), ("xadm", 8000, 400000), ("xinit", 6000, 300000), ("xinitaf", 6000, 300000), ("xini", 8000, 400000)],
        "rule": "xini: the initialisers through the REAL entrypoint, each on a fresh world: initialize_config (funded by an admin key of this build or by a stranger; default protocol fee rate in / out of bounds), initialize_fee_tier and initialize_adaptive_fee_tier (the config's fee authority signing / a stranger / nobody; the tier address free or taken by a tier of the other kind; spacing 0; fee rate in / out of bounds; the adaptive index equal to the spacing; constants valid or with one rule broken), initialize_reward and initialize_reward_v2 (reward authority signing / stranger / nobody; index = / != the lowest uninitialized one on pools with 0..3 rewards; SPL and Token-2022 mints incl. the native one with the extension sets and badge-slot variants of xinit); initialize_config_extension, initialize_token_badge / delete_token_badge (the config's token-badge authority signing / a stranger / nobody; the TOKEN_BADGE feature on / off; the extension of this or of another config) and initialize_pool v1 (order, price, tier spacing, rates, Token-2022 mints); compared with the Lean models of WP/Model/Setup.lean by result code name and created values (theorems Setup.init_config_sound, init_fee_tier_sound, init_adaptive_fee_tier_sound, init_reward_sound, token_badge_sound, delete_badge_sound, config_extension_sound, init_pool_v1_sound) and independent oracles on what was created; xinitaf: initialize_pool_with_adaptive_fee through the REAL entrypoint (whirlpool AND Oracle created by Anchor's init, vaults by the real token programs) from an adaptive-fee tier that is permissioned or not, carries valid or invalid constants, with the tier's authority signing / a stranger signing / nobody signing, a trade-enable time absent / now / up to and beyond 72 h ahead / up to and beyond 30 s back, and everything xinit varies; compared with the Lean model `initializePoolWithAdaptiveFee` (result code by name, rates, price, tick, flag, recorded trade-enable time; theorem init_pool_af_sound) and independent oracles (constants validity re-implemented, Oracle contents, authority, time window); xinit: initialize_pool_v2 executed through the program's REAL entrypoint (whirlpool account created by Anchor's init, both vaults by the system program and the REAL SPL Token / Token-2022 processors): mint key order canonical / swapped / same mint twice, price inside / at / outside the bounds, fee tier of this or another spacing with fee rate and config protocol fee rate inside / outside their maxima, each mint SPL or Token-2022 (incl. the native mint) with or without freeze authority and one of 13 extension sets built by the real Token-2022 crate, and the badge slot holding nothing / the badge / another config's badge / another config's data at the badge address / the badge under a foreign owner / the badge with the non-transferable attribute; compared with the Lean model `initializePoolV2` (result code by name, fee rates, price, tick, non-transferable flag; theorem init_pool_v2_sound) and an independent walk of the published admission table; xadm: 19 settings instructions (fee / protocol fee rates of pools, fee tiers and adaptive fee tiers, every set-authority instruction, adaptive-fee constants, config feature flag, config-extension and token-badge settings) executed through the program's REAL entrypoint on a world of two configs with different authorities: everything right / authority not signing / a stranger signing / the other config's authority with this config's target account or another role's authority / value out of bounds / target account of the other config; the op line carries the environment read from the real accounts, the Lean model answers with `accepts` on the REGENERATED account table (acceptsB_iff) and the setter's bound, so the translated tables and the semantics given to Signer / address / has_one / constraint are compared with Anchor's generated validation; oracle: only the all-right variant may succeed, then only the target account changes AND the value stored is the value asked for (rates of pools / tiers / config; the adaptive-fee constants that result from a PARTIAL set_adaptive_fee_constants - each argument optional -, with the variables reset; an unchanged set refused); mint: is_supported_token_mint on synthesized SPL / Token-2022 mint accounts (real packed base state; TLV with 0-4 entries drawn from supported, badge-gated, "
                "never-supported, unknown (>27) and zero type numbers, DefaultAccountState values 0/1/2 and wrong lengths, random truncation and trailing bytes; freeze authority, native mint, badge on/off); "
                "badge: all 8 combinations; setfee: all five bounded setters on boundary and random values; afc: validate_constants on boundary-biased constants; initpool: Whirlpool::initialize; "
                "non-trivial = an accepted input",
        "trusted": ["the mint account base layout / Anchor InterfaceAccount<Mint> unpacking (accounts of length 82 or > 165, never 355); sequences of instructions are covered through the write-site inventory, not executed"],
    },
    "C20": {
        "lean_modules": ["WP.Props.C20", "WP.Props.SdkStep", "WP.Props.SdkSwap", "WP.Props.SdkLiquidity", "WP.Props.SdkTransferFee"],
        "lean_support": ["WP.Props.SdkSearch"],
        "families": [("sdkmath", 100000, 5000000), ("sdkticks", 0, 0), ("sdkaf", 60000, 3000000), ("tfee", 30000, 1500000), ("hist", 12000, 300000)],
        "history": True,
        "rule": "sdkmath: the REAL rust-sdk/core crate (linked as is; only ethnum replaced by the vendored stand-in) against the program functions on boundary-biased inputs: token A / B for liquidity, next price from A / B, "
                "token estimates for liquidity over tick ranges incl. both ends of the tick range with huge liquidity, price -> tick, slippage-adjusted min / max (safe-side and exactness oracle); sdkticks: EVERY tick: "
                "tick -> price and price -> tick at and one below each tick price; sdkaf: the SDK's adaptive-fee variable rules (update_reference / update_volatility_accumulator / update_major_swap_timestamp of AdaptiveFeeVariablesFacade) "
                "against the program's AdaptiveFeeVariables methods on arbitrary stored variables over every elapsed-time class around filter / decay / 3600 s measured from BOTH stored timestamps; hist: every swap of every pool history (static and adaptive-fee pools, explicit price limits, partial fills) is also computed by the SDK's "
                "compute_swap on facades of the same pre-swap state and compared (amount A, amount B, total fee); where the program refuses, an SDK number is accepted only for PartialFillError / running off the arrays; "
                "op sdkq: a third of the swaps are asked as QUOTES of the real SDK on the current state, and the Lean model of the SDK's compute_swap (WP/Model/SdkSwap.lean) must give the same three numbers or the same error class; "
                "non-trivial = both sides return a value",
        "trusted": ["ethnum is not in the offline cargo cache: harness/vendor/ethnum is a 500-line stand-in implementing ethnum's documented semantics (release: wrapping arithmetic, checked_shl rejects only shifts >= 256); the two repaired defects were demonstrated with it",
                    "the TypeScript SDK is the same Rust core compiled to WASM plus JS glue; the glue and the wasm boundary (U128 conversions) are not executed",
                    "the Lean model of the SDK's swap loop reuses the program's fee-manager model for the SDK's FeeRateManager (a port of it): tied to the real SDK by sdkq on adaptive-fee histories and by sdkaf",
                    "sort_by_key of TickArraySequence::new is done by the model driver (insertion into an ascending list)"],
    },
}
