#!/bin/bash
# run inside a `vp run --with-repo` snapshot: rebuild everything there and run every thorough check
# against the snapshot's own copy of the repository (so that edits to /repo do not disturb it)
set -u
R="${VP_RUN_REPO:-/repo}"
if [ "$R" != "/repo" ]; then
  sed -i "s#/repo/#$R/#g" harness/Cargo.toml check
  export VERIF_REPO="$R"
fi
export VERIF_SPECS="$PWD/work/specs.txt"
./check --setup > setup.log 2>&1; tail -2 setup.log
for p in ${1:-C01 C02 C03 C04 C05 C06 C07 C08 C10 C11 C12 C13 C14 C15 C16 C17 C18 C19 C20 C09}; do
  t0=$(date +%s)
  ./check $p --tier thorough > thorough_$p.log 2>&1; rc=$?
  echo "== $p rc=$rc ($(( $(date +%s)-t0 ))s): $(grep -E '^OK|^VIOLATION|^KNOWN' thorough_$p.log | head -3 | tr '\n' ' ' | cut -c1-400)"
done
