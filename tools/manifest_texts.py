TEXTS = {
 "C09": {
  "text": "Machine-checked proof (Lean 4 kernel) about the model of sqrt_price_from_tick_index / tick_index_from_sqrt_price: strict monotonicity, end points and the 2^-32 step error for ALL 887273 ticks (kernel enumeration `decide +kernel`, 355 chunks), and for EVERY in-bounds sqrt-price (7.9e28 values, by a monotonicity lemma for the 14-step log2 loop plus per-tick boundary facts) that ti p is the unique tick with sp(ti p) <= p < sp(ti p + 1); ti(sp t) = t. The 42 numeric constants are regenerated from the source on each run; the model is tied to the code by an exhaustive forward sweep (all ticks) and an exhaustive inverse sweep at every tick boundary +-1.",
  "design_ref": "DESIGN.md 5.9",
  "note": "Trusted: Lean kernel (+propext, Classical.choice, Quot.sound), tools/extract.py for the constants, the harness sweep that equates model and implementation on all ticks / all boundaries / sampled interior prices; the structure of tick_index_from_sqrt_price (not just its constants) is modelled by hand, so between boundaries the tie is the sampled family `tir` plus the theorem.",
  "technique": "Lean 4 proof: kernel enumeration over all ticks + monotonicity lemma; exhaustive differential correspondence",
 },
}
PENDING = {}
