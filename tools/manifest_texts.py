TEXTS = {
 "C09": {
  "text": "Machine-checked proof (Lean 4 kernel) about the model of sqrt_price_from_tick_index / tick_index_from_sqrt_price: strict monotonicity, end points and the 2^-32 step error for ALL 887273 ticks (kernel enumeration `decide +kernel`, 355 chunks), and for EVERY in-bounds sqrt-price (7.9e28 values, by a monotonicity lemma for the 14-step log2 loop plus per-tick boundary facts) that ti p is the unique tick with sp(ti p) <= p < sp(ti p + 1); ti(sp t) = t. The 42 numeric constants are regenerated from the source on each run; the model is tied to the code by an exhaustive forward sweep (all ticks) and an exhaustive inverse sweep at every tick boundary +-1.",
  "design_ref": "DESIGN.md 5.9",
  "note": "Trusted: Lean kernel (+propext, Classical.choice, Quot.sound), tools/extract.py for the constants, the harness sweep that equates model and implementation on all ticks / all boundaries / sampled interior prices; the structure of tick_index_from_sqrt_price (not just its constants) is modelled by hand, so between boundaries the tie is the sampled family `tir` plus the theorem.",
  "technique": "Lean 4 proof: kernel enumeration over all ticks + monotonicity lemma; exhaustive differential correspondence",
 },
 "C02": {
  "text": "Machine-checked proof (Lean 4) about the model of compute_swap and its token-math callees, for ALL u64 amounts, u128 liquidities, fee rates <= 100000 and in-bounds ordered price pairs, both modes and directions: price moves only towards and never past the target (step_direction); amount_in is the exact ceiling and amount_out the exact floor (or the smaller request) of the concentrated-liquidity amount for the move actually made (step_in_exact, step_out_exact); an exact-in step never exceeds the net budget and one price unit further would (step_in_le_budget, step_tight_in); an exact-out step one unit nearer would under-deliver (step_tight_out); stopping short exhausts the budget / request (step_exhausts); the fee formula (step_fee). The model is tied to the code by differential testing of compute_swap and each component against the real crate, and every clause is also checked on the implementation by an exact-rational oracle.",
  "design_ref": "DESIGN.md 5.2",
  "note": "Trusted: Lean kernel (+3 standard axioms), the hand-written model of swap_math.rs/token_math.rs/bit_math.rs validated by sampled correspondence (not exhaustive), U256Muldiv::div modelled as Nat division (validated by family d256 against num-bigint).",
  "technique": "Lean 4 proof over Nat of rounding/tightness lemmas; differential correspondence + exact-arithmetic oracle",
 },
}
PENDING = {}
