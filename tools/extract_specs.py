"""T (part 2): account-constraint specs, Pinocchio prologues, handler guards, routing table.

Registers its stages in extract.EXTRA_STAGES.  Everything is emitted as Lean *data* (strings are
whitespace-normalised source text); the meaning given to that data is in lean/WP/Model/Access.lean.
"""
import os, re, glob
import extract as X
from extract import ExtractError, SRC, strip_comments, write_if_changed, norm_ws


def lean_str(s):
    return '"' + s.replace("\\", "\\\\").replace('"', '\\"') + '"'


def split_top(s, sep=","):
    """split on sep at nesting depth 0 of () [] {} <>"""
    out, depth, cur = [], 0, ""
    i = 0
    while i < len(s):
        ch = s[i]
        if ch in "([{":
            depth += 1
        elif ch in ")]}":
            depth -= 1
        elif ch == "<" and re.match(r"[A-Za-z_:']", s[i + 1:i + 2] or " ") and (i == 0 or re.match(r"[A-Za-z0-9_:]", s[i - 1])):
            depth += 1
        elif ch == ">" and depth > 0 and s[i - 1] != "-" and s[i - 1] != "=":
            # generic close (heuristic: only when we opened one)
            depth -= 1
        if ch == sep and depth == 0:
            out.append(cur)
            cur = ""
        else:
            cur += ch
        i += 1
    if cur.strip():
        out.append(cur)
    return out


def matching(txt, i, open_ch, close_ch):
    depth = 0
    for j in range(i, len(txt)):
        if txt[j] == open_ch:
            depth += 1
        elif txt[j] == close_ch:
            depth -= 1
            if depth == 0:
                return j
    raise ExtractError("unbalanced " + open_ch)


KNOWN_ATTR_KEYS = {"mut", "address", "has_one", "constraint", "seeds", "bump", "init", "payer", "space", "close", "owner",
                   "token::mint", "token::authority", "token::token_program", "mint::authority", "mint::decimals",
                   "mint::token_program", "mint::freeze_authority", "associated_token::mint", "associated_token::authority",
                   "associated_token::token_program", "signer", "zero", "init_if_needed", "realloc", "realloc::payer",
                   "realloc::zero", "seeds::program", "executable"}
KNOWN_KINDS = {"Signer", "Account", "InterfaceAccount", "Program", "Interface", "UncheckedAccount", "AccountLoader", "Sysvar",
               "SystemAccount", "AccountInfo"}


def parse_accounts_structs(rel):
    txt = strip_comments(X.read(rel))
    out = []
    for m in re.finditer(r"#\[derive\(Accounts\)\]", txt):
        rest = txt[m.end():]
        # optional #[instruction(...)]
        mm = re.match(r"\s*(?:#\[instruction\((.*?)\)\]\s*)?pub struct (\w+)\s*(?:<[^>]*>)?\s*\{", rest, re.S)
        if not mm:
            line = txt.count("\n", 0, m.start()) + 1
            raise ExtractError(f"{rel}:{line}: cannot parse struct after #[derive(Accounts)]")
        name = mm.group(2)
        bstart = m.end() + mm.end() - 1
        bend = matching(txt, bstart, "{", "}")
        body = txt[bstart + 1:bend]
        fields = []
        pos = 0
        pending_attrs = []
        while pos < len(body):
            mws = re.match(r"\s+", body[pos:])
            if mws:
                pos += mws.end()
                continue
            if body.startswith("#[", pos):
                aend = matching(body, pos + 1, "[", "]")
                attr = body[pos + 2:aend]
                pending_attrs.append(attr)
                pos = aend + 1
                continue
            mf = re.match(r"pub\s+(\w+)\s*:\s*", body[pos:])
            if not mf:
                line = txt.count("\n", 0, bstart + pos) + 1
                raise ExtractError(f"{rel}:{line}: struct {name}: unexpected token `{body[pos:pos+40].strip()}`")
            fname = mf.group(1)
            pos += mf.end()
            # type up to the top-level comma
            depth = 0
            tstart = pos
            while pos < len(body):
                ch = body[pos]
                if ch == "<":
                    depth += 1
                elif ch == ">":
                    depth -= 1
                elif ch == "," and depth == 0:
                    break
                pos += 1
            ty = norm_ws(body[tstart:pos])
            pos += 1
            ty2 = ty
            mb = re.match(r"Box<(.*)>$", ty2)
            if mb:
                ty2 = mb.group(1).strip()
            mo = re.match(r"Option<(.*)>$", ty2)
            optional = False
            if mo:
                ty2 = mo.group(1).strip()
                optional = True
            mk = re.match(r"(\w+)\s*<\s*'info\s*(?:,\s*(.*))?>$", ty2)
            if not mk:
                line = txt.count("\n", 0, bstart + tstart) + 1
                raise ExtractError(f"{rel}:{line}: struct {name}.{fname}: unsupported field type `{ty}`")
            kind, targ = mk.group(1), (mk.group(2) or "").strip()
            if kind not in KNOWN_KINDS:
                line = txt.count("\n", 0, bstart + tstart) + 1
                raise ExtractError(f"{rel}:{line}: struct {name}.{fname}: unknown account kind `{kind}`")
            attrs = []
            for a in pending_attrs:
                a = a.strip()
                ma = re.match(r"account\s*\((.*)\)\s*$", a, re.S)
                if not ma:
                    if a.startswith("account"):
                        continue
                    line = txt.count("\n", 0, bstart + tstart) + 1
                    raise ExtractError(f"{rel}:{line}: struct {name}.{fname}: unsupported attribute `#[{a[:40]}]`")
                for item in split_top(ma.group(1)):
                    item = norm_ws(item)
                    if not item:
                        continue
                    if "=" in item and not re.match(r"^[\w:]+$", item):
                        k, v = item.split("=", 1)
                        k, v = k.strip(), norm_ws(v)
                        # `constraint = a == b` : first '=' is the separator (k has no '=')
                    else:
                        k, v = item, ""
                    # error annotation `expr @ ErrorCode::X`
                    err = ""
                    if " @ " in v:
                        v, err = [x.strip() for x in v.rsplit(" @ ", 1)]
                    if k not in KNOWN_ATTR_KEYS:
                        line = txt.count("\n", 0, bstart + tstart) + 1
                        raise ExtractError(f"{rel}:{line}: struct {name}.{fname}: unknown constraint keyword `{k}`")
                    attrs.append((k, v, err))
            pending_attrs = []
            fields.append({"name": fname, "kind": kind, "ty": targ, "optional": optional, "attrs": attrs})
        out.append({"name": name, "file": rel, "fields": fields})
    return out


def handler_guards(rel):
    """the verify_* calls and `if cond { return Err(..) }` guards of `pub fn handler`, in order"""
    txt = strip_comments(X.read(rel))
    m = re.search(r"pub fn handler\b", txt)
    if not m:
        return []
    i = txt.index("{", txt.index(")", m.end()))
    # skip return type: find the body-opening brace after the signature's `->` if any
    sig_end = re.search(r"\)\s*(->\s*[^{]+)?\{", txt[m.end():], re.S)
    i = m.end() + sig_end.end() - 1
    j = matching(txt, i, "{", "}")
    body = txt[i + 1:j]
    guards = []
    for mm in re.finditer(r"\b(verify_[a-z_0-9]+|validate_owner)\s*\(", body):
        e = matching(body, mm.end() - 1, "(", ")")
        guards.append((mm.start(), "call", norm_ws(body[mm.start():e + 1])))
    for mm in re.finditer(r"\bif\s+([^{}]+?)\s*\{\s*return\s+Err\(\s*(?:ErrorCode|WhirlpoolErrorCode)::(\w+)", body, re.S):
        guards.append((mm.start(), "reject", norm_ws(mm.group(1)) + " => " + mm.group(2)))
    for mm in re.finditer(r"\b(update_and_swap_whirlpool(?:_v2)?|update_and_two_hop_swap_whirlpool(?:_v2)?|transfer_from_vault_to_owner(?:_v2)?|transfer_from_owner_to_vault(?:_v2)?)\s*\(", body):
        guards.append((mm.start(), "effect", mm.group(1)))
    for mm in re.finditer(r"\b(SparseSwapTickSequenceBuilder::new|SparseSwapTickSequenceBuilder::try_build|load_tick_array_mut|load_tick_array|TickArraysMut::load|OracleAccessor::new)\s*\(", body):
        e = matching(body, mm.end() - 1, "(", ")")
        guards.append((mm.start(), "loader", norm_ws(body[mm.start():e + 1])))
    guards.sort()
    return [(k, t) for _, k, t in guards]


def gen_anchor_specs():
    files = sorted(glob.glob(os.path.join(SRC, "instructions", "**", "*.rs"), recursive=True))
    specs = []
    guards = {}
    for f in files:
        rel = os.path.relpath(f, SRC)
        if rel.endswith("mod.rs") or rel.endswith("idl_include.rs"):
            continue
        specs += parse_accounts_structs(rel)
        guards[rel] = handler_guards(rel)
    out = "import WP.Model.Access\nnamespace WP.Gen\nopen WP\n\n"
    out += "def anchorSpecs : List AccSpec := [\n"
    rows = []
    for s in specs:
        frows = []
        for fl in s["fields"]:
            arows = ", ".join(f"({lean_str(k)}, {lean_str(v)}, {lean_str(e)})" for k, v, e in fl["attrs"])
            frows.append(f"    {{ name := {lean_str(fl['name'])}, kind := {lean_str(fl['kind'])}, ty := {lean_str(fl['ty'])}, optional := {'true' if fl['optional'] else 'false'}, attrs := [{arows}] }}")
        rows.append(f"  {{ name := {lean_str(s['name'])}, file := {lean_str(s['file'])}, fields := [\n" + ",\n".join(frows) + "] }")
    out += ",\n".join(rows) + "]\n\n"
    out += "def handlerGuards : List (String × List (String × String)) := [\n"
    grows = []
    for rel in sorted(guards):
        g = ", ".join(f"({lean_str(k)}, {lean_str(t)})" for k, t in guards[rel])
        grows.append(f"  ({lean_str(rel)}, [{g}])")
    out += ",\n".join(grows) + "]\n\nend WP.Gen\n"
    # the same table in a line format for the native executor's account-constraint experiments (family xadm)
    txt = []
    for s in specs:
        txt.append(f"spec {s['name']}")
        for fl in s["fields"]:
            txt.append(f"field {fl['name']} {fl['kind']} {fl['ty'] or '-'}")
            for k, v, _e in fl["attrs"]:
                if k in ("address", "has_one", "constraint"):
                    txt.append(f"attr {k} {v}")
                elif k == "mut":
                    txt.append("flag mut")
        txt.append("end")
    wdir = os.path.join(os.path.dirname(os.path.dirname(os.path.abspath(__file__))), "work")
    os.makedirs(wdir, exist_ok=True)
    with open(os.path.join(wdir, "specs.txt"), "w") as fh:
        fh.write("\n".join(txt) + "\n")
    return write_if_changed("AnchorSpecs.lean", out), specs


PINO_ITER = {"next", "next_mut", "next_signer", "next_signer_mut", "next_program_memo", "next_program_token", "next_program_token_or_token_2022",
             "next_program_system", "next_program_token_2022", "remaining_accounts"}


def gen_pino_specs():
    files = sorted(glob.glob(os.path.join(SRC, "pinocchio", "instructions", "*.rs")))
    out = "import WP.Model.Access\nnamespace WP.Gen\nopen WP\n\ndef pinoSpecs : List PinoSpec := [\n"
    rows = []
    for f in files:
        rel = os.path.relpath(f, SRC)
        if rel.endswith("mod.rs"):
            continue
        raw = X.read(rel)
        m = re.search(r"pub fn handler\s*\(", raw)
        if not m:
            raise ExtractError(f"{rel}: no handler")
        i = raw.index("{", m.end())
        j = matching(raw, i, "{", "}")
        body_raw = raw[i + 1:j]
        start = body_raw.find("AccountIterator::new(accounts)")
        if start < 0:
            raise ExtractError(f"{rel}: `AccountIterator::new(accounts)` not found in handler")
        start = body_raw.index(";", start) + 1
        cut = body_raw.find("// The beginning of handler core logic")
        if cut < 0:
            # handlers without the marker: the prologue ends at the position-authority check
            cut = body_raw.find("pino_verify_position_authority(")
        if cut < 0:
            raise ExtractError(f"{rel}: cannot find the end of the account-validation prologue")
        pro = strip_comments(body_raw[start:cut])
        core = strip_comments(body_raw[cut:])
        labels, checks = [], []
        # statements of the prologue
        stmts = []
        depth = 0
        cur = ""
        for ch in pro:
            cur += ch
            if ch in "({[":
                depth += 1
            elif ch in ")}]":
                depth -= 1
            elif ch == ";" and depth == 0:
                stmts.append(norm_ws(cur))
                cur = ""
        if norm_ws(cur):
            stmts.append(norm_ws(cur))
        for st in stmts:
            ml = re.match(r"let (?:mut )?(\w+) = iter\.(\w+)\(\)\?;$", st)
            if ml:
                if ml.group(2) not in PINO_ITER:
                    raise ExtractError(f"{rel}: unknown AccountIterator method `{ml.group(2)}`")
                labels.append((ml.group(1), ml.group(2)))
                continue
            mv = re.match(r"verify_address\((.*)\)\?;$", st)
            if mv:
                a = [norm_ws(x) for x in split_top(mv.group(1))]
                checks.append(("verify_address", a[0], a[1] if len(a) > 1 else ""))
                continue
            mv = re.match(r"verify_constraint\((.*)\)\?;$", st)
            if mv:
                checks.append(("verify_constraint", norm_ws(mv.group(1)), ""))
                continue
            mv = re.match(r"let (?:mut )?(\w+) = (load_\w+)::<(\w+)>\((\w+)\)\?;$", st)
            if mv:
                checks.append((mv.group(2), mv.group(4), mv.group(3)))
                continue
            checks.append(("other", st, ""))
        core_calls = []
        for mm in re.finditer(r"\b(pino_verify_position_authority|TickArraysMut::load|is_locked_position|verify_[a-z_]+)\s*\(", core):
            e = matching(core, mm.end() - 1, "(", ")")
            core_calls.append(norm_ws(core[mm.start():e + 1]))
        for mm in re.finditer(r"\bif\s+([^{}]+?)\s*\{\s*return\s+Err\(\s*(?:ErrorCode|WhirlpoolErrorCode)::(\w+)", core, re.S):
            core_calls.append("reject: " + norm_ws(mm.group(1)) + " => " + mm.group(2))
        lrows = ", ".join(f"({lean_str(a)}, {lean_str(b)})" for a, b in labels)
        crows = ", ".join(f"({lean_str(a)}, {lean_str(b)}, {lean_str(c)})" for a, b, c in checks)
        krows = ", ".join(lean_str(c) for c in core_calls)
        rows.append(f"  {{ file := {lean_str(rel)}, labels := [{lrows}],\n    checks := [{crows}],\n    core := [{krows}] }}")
    out += ",\n".join(rows) + "]\n\nend WP.Gen\n"
    return write_if_changed("PinoSpecs.lean", out)


def gen_routing():
    rel = "entrypoint.rs"
    txt = strip_comments(X.read(rel))
    m = re.search(r"const PINOCCHIO_INSTRUCTIONS\s*:[^=]*=\s*\[", txt)
    if not m:
        raise ExtractError(f"{rel}: PINOCCHIO_INSTRUCTIONS table not found")
    e = matching(txt, m.end() - 1, "[", "]")
    tbl = txt[m.end():e]
    rows = []
    for item in split_top(tbl):
        item = norm_ws(item)
        if not item:
            continue
        mm = re.match(r"\(\s*(?:crate::)?instruction::(\w+)::DISCRIMINATOR\s*,\s*(?:crate::)?pinocchio::instructions::(\w+)::handler\s*,?\s*\)$", item)
        if not mm:
            raise ExtractError(f"{rel}: unexpected routing entry `{item[:80]}`")
        rows.append((mm.group(1), mm.group(2)))
    # #[program] functions of lib.rs: name -> Context type -> handler path
    lib = strip_comments(X.read("lib.rs"))
    prog = []
    for mm in re.finditer(r"pub fn (\w+)\s*(?:<[^>]*>)?\s*\(\s*ctx:\s*Context<(?:[^,>]*,\s*)*([A-Za-z0-9_]+)(?:<[^>]*>)?\s*>", lib):
        fn, ctx = mm.group(1), mm.group(2)
        # handler path inside the body
        b0 = lib.index("{", mm.end())
        b1 = matching(lib, b0, "{", "}")
        hm = re.search(r"instructions::([\w:]+)::handler", lib[b0:b1])
        prog.append((fn, ctx, hm.group(1) if hm else ""))
    out = "namespace WP.Gen\n\n/-- (instruction struct of `crate::instruction`, module under pinocchio::instructions) -/\n"
    out += "def pinoRouting : List (String × String) := [" + ", ".join(f"({lean_str(a)}, {lean_str(b)})" for a, b in rows) + "]\n\n"
    out += "/-- #[program] entry points: (fn name, Accounts struct, handler module path) -/\n"
    out += "def programFns : List (String × String × String) := [\n" + ",\n".join(f"  ({lean_str(a)}, {lean_str(b)}, {lean_str(c)})" for a, b, c in prog) + "]\n\nend WP.Gen\n"
    return write_if_changed("Routing.lean", out)


def stage():
    changed = []
    ch, _ = gen_anchor_specs()
    if ch:
        changed.append("AnchorSpecs.lean")
    if gen_pino_specs():
        changed.append("PinoSpecs.lean")
    if gen_routing():
        changed.append("Routing.lean")
    return changed


X.EXTRA_STAGES.append(stage)


BOUNDED_FIELDS = ["fee_rate", "protocol_fee_rate", "sqrt_price", "tick_spacing", "tick_current_index", "default_fee_rate",
                  "default_protocol_fee_rate", "default_base_fee_rate", "adaptive_fee_constants", "adaptive_fee_variables",
                  "filter_period", "decay_period", "reduction_factor", "adaptive_fee_control_factor", "max_volatility_accumulator",
                  "tick_group_size", "major_swap_threshold_ticks", "trade_enable_timestamp"]


def strip_cfg_test(txt):
    """remove `#[cfg(test)]` items (modules, fns, impls) from a source text"""
    out = txt
    while True:
        m = re.search(r"#\[cfg\(test\)\]\s*(?:#\[[^\]]*\]\s*)*(?:pub(?:\([^)]*\))?\s+)?(mod|fn|impl|use|const|static|struct)\b", out)
        if not m:
            return out
        if m.group(1) in ("use", "const", "static"):
            e = out.index(";", m.end())
            out = out[:m.start()] + out[e + 1:]
            continue
        b = out.find("{", m.end())
        semi = out.find(";", m.end())
        if semi != -1 and (b == -1 or semi < b):
            out = out[:m.start()] + out[semi + 1:]
            continue
        e = matching(out, b, "{", "}")
        out = out[:m.start()] + out[e + 1:]


def gen_write_sites():
    files = sorted(glob.glob(os.path.join(SRC, "**", "*.rs"), recursive=True))
    rows = []
    for f in files:
        rel = os.path.relpath(f, SRC)
        if rel.startswith("tests/") or "test_utils" in rel or rel.startswith("constants/test"):
            continue
        txt = strip_cfg_test(strip_comments(X.read(rel)))
        # function spans
        fns = []
        for m in re.finditer(r"\bfn\s+(\w+)\s*(?:<[^>{}]*>)?\s*\(", txt):
            try:
                pe = matching(txt, m.end() - 1, "(", ")")
            except ExtractError:
                continue
            b = txt.find("{", pe)
            semi = txt.find(";", pe)
            if b == -1 or (semi != -1 and semi < b):
                continue
            try:
                e = matching(txt, b, "{", "}")
            except ExtractError:
                continue
            fns.append((b, e, m.group(1)))
        for fld in BOUNDED_FIELDS:
            for m in re.finditer(r"(?:\bself|\b\w+|\))\s*\.\s*" + fld + r"\s*(?:=(?!=)|\+=|-=)", txt):
                pos = m.start()
                inner = [x for x in fns if x[0] <= pos <= x[1]]
                fn = min(inner, key=lambda x: x[1] - x[0])[2] if inner else "?"
                rows.append((fld, rel, fn))
    rows = sorted(set(rows))
    out = "namespace WP.Gen\n\n/-- (field, file, enclosing fn) of every assignment to a bounded field outside #[cfg(test)] code -/\n"
    out += "def writeSites : List (String × String × String) := [\n" + ",\n".join(f"  ({lean_str(a)}, {lean_str(b)}, {lean_str(c)})" for a, b, c in rows) + "]\n\nend WP.Gen\n"
    return write_if_changed("WriteSites.lean", out)


def stage2():
    return ["WriteSites.lean"] if gen_write_sites() else []


X.EXTRA_STAGES.append(stage2)
