"""T (part 4): the Rust core SDK (rust-sdk/core).  The SDK re-implements the program's math; where the
re-implementation is the same algorithm with literal constants, the constants and the statement
structure are extracted here and compared with the program's in Lean (WP/Props/C20.lean).
"""
import os, re
import extract as X
from extract import ExtractError, strip_comments, write_if_changed, norm_ws, fn_body

SDK = os.path.join(X.REPO, "rust-sdk/core/src")


def sread(rel):
    p = os.path.join(SDK, rel)
    try:
        with open(p) as f:
            return f.read()
    except OSError as e:
        raise ExtractError(f"{p}: cannot read ({e})")


def ladder(txt, rel, fname, var, step_re, epilogue, prologue_re):
    body, line = fn_body(txt, fname, rel)
    b = norm_ws(body)
    m = re.match(prologue_re, b)
    if not m:
        raise ExtractError(f"{rel}:{line}: {fname}: unexpected prologue")
    odd, even, rest = int(m.group(1)), int(m.group(2)), m.group(3).strip()
    vals = []
    k = 1
    while True:
        mm = re.match(step_re, rest)
        if not mm:
            break
        bit, cst, rest = int(mm.group(1)), int(mm.group(2)), mm.group(3).strip()
        if bit != 2 ** k:
            raise ExtractError(f"{rel}:{line}: {fname}: expected bit {2**k}, found {bit}")
        vals.append(cst)
        k += 1
    if rest != epilogue:
        raise ExtractError(f"{rel}:{line}: {fname}: unexpected epilogue `{rest[:60]}`")
    if len(vals) != 18:
        raise ExtractError(f"{rel}: {fname} has {len(vals)} rungs, expected 18")
    return [odd, even] + vals


def consts_of(txt, names, rel):
    out = []
    for n in names:
        m = re.search(r"const %s: \w+ = (-?[0-9_]+)(?:i128|u128|u32|i32|u64|u16)?;" % n, txt)
        if not m:
            raise ExtractError(f"{rel}: constant {n} not found")
        out.append((n, int(m.group(1).replace("_", ""))))
    return out


def gen_sdk():
    rel = "math/tick.rs"
    txt = strip_comments(sread(rel))
    pos = ladder(txt, rel, "get_sqrt_price_positive_tick", "tick",
                 r"if tick & (\d+) != 0 \{ ratio = mul_shift_96\(ratio, (\d+)\); \}(.*)$", "ratio >> 32",
                 r"let mut ratio: u128 = if tick & 1 != 0 \{ (\d+) \} else \{ (\d+) \};(.*)$")
    neg = ladder(txt, rel, "get_sqrt_price_negative_tick", "abs_tick",
                 r"if abs_tick & (\d+) != 0 \{ ratio = \(ratio \* (\d+)\) >> 64;? \}(.*)$", "ratio",
                 r"let abs_tick = tick\.abs\(\); let mut ratio: u128 = if abs_tick & 1 != 0 \{ (\d+) \} else \{ (\d+) \};(.*)$")
    body, line = fn_body(txt, "mul_shift_96", rel)
    if norm_ws(body) != "let mul: U256 = (<U256>::from(n0) * <U256>::from(n1)) >> 96; mul.as_u128()":
        raise ExtractError(f"{rel}:{line}: SDK mul_shift_96 is not ((n0 * n1) >> 96) as u128")
    body, line = fn_body(txt, "tick_index_to_sqrt_price", rel)
    if norm_ws(body) != "if tick_index >= 0 { get_sqrt_price_positive_tick(tick_index).into() } else { get_sqrt_price_negative_tick(tick_index).into() }":
        raise ExtractError(f"{rel}:{line}: SDK tick_index_to_sqrt_price: unexpected body")
    inv_names = ["LOG_B_2_X32", "BIT_PRECISION", "LOG_B_P_ERR_MARGIN_LOWER_X64", "LOG_B_P_ERR_MARGIN_UPPER_X64"]
    sdk_inv = consts_of(txt, inv_names, rel)
    prog_inv = consts_of(strip_comments(X.read("math/tick_math.rs")), inv_names, "math/tick_math.rs")
    # the inverse function: same statement sequence up to the SDK's type wrappers
    sbody, sline = fn_body(txt, "sqrt_price_to_tick_index", rel)
    pbody, pline = fn_body(strip_comments(X.read("math/tick_math.rs")), "tick_index_from_sqrt_price", "math/tick_math.rs")
    def canon(b, sdk):
        b = norm_ws(b)
        if sdk:
            b = b.replace("let sqrt_price_x64: u128 = sqrt_price.into(); ", "")
            b = b.replace("let actual_tick_high_sqrt_price_x64: u128 = tick_index_to_sqrt_price(tick_high).into();", "let actual_tick_high_sqrt_price_x64: u128 = sqrt_price_from_tick_index(tick_high);")
            b = b.replace("<= sqrt_price_x64", "<= *sqrt_price_x64")
        else:
            # i128 -> i32 of a value that always fits (|log_b(price)| < 2^20 for a u128 price)
            b = b.replace(" .try_into() .unwrap()", " as i32")
        return b
    same_inverse = canon(sbody, True) == canon(pbody, False)
    # other shared constants
    ctxt = strip_comments(sread("constants/pool.rs")) if os.path.exists(os.path.join(SDK, "constants/pool.rs")) else ""
    # the constants the SDK's swap quote shares with the program (rust-sdk/core/src/constants/*.rs)
    shared = []
    for rel2, names in (("constants/swap.rs", ["FEE_RATE_DENOMINATOR", "MIN_SQRT_PRICE", "MAX_SQRT_PRICE"]),
                        ("constants/tick.rs", ["TICK_ARRAY_SIZE", "MIN_TICK_INDEX", "MAX_TICK_INDEX", "FULL_RANGE_ONLY_TICK_SPACING_THRESHOLD"]),
                        ("constants/adaptive_fee.rs", ["FEE_RATE_HARD_LIMIT", "MAX_REFERENCE_AGE", "VOLATILITY_ACCUMULATOR_SCALE_FACTOR",
                                                        "REDUCTION_FACTOR_DENOMINATOR", "ADAPTIVE_FEE_CONTROL_FACTOR_DENOMINATOR"])):
        t2 = strip_comments(sread(rel2))
        for n in names:
            m = re.search(r"const %s: \w+ = (-?[0-9_]+)(?:i128|u128|u32|i32|u64|u16|usize)?;" % n, t2)
            if not m:
                raise ExtractError(f"{rel2}: SDK constant {n} not found")
            shared.append((n, int(m.group(1).replace("_", ""))))
    out = "namespace WP.Gen\n\n"
    out += "/-- the SDK's tick-to-price ladders: [odd, even, rung 2, 4, ..., 262144] -/\n"
    out += "def sdkPosLadder : List Nat := [" + ", ".join(map(str, pos)) + "]\n"
    out += "def sdkNegLadder : List Nat := [" + ", ".join(map(str, neg)) + "]\n"
    out += "def sdkInverseConsts : List (String × Int) := [" + ", ".join(f'("{n}", {v})' for n, v in sdk_inv) + "]\n"
    out += "def progInverseConsts : List (String × Int) := [" + ", ".join(f'("{n}", {v})' for n, v in prog_inv) + "]\n"
    out += f"/-- the statement sequences of sqrt_price_to_tick_index (SDK) and tick_index_from_sqrt_price (program) are identical up to the SDK's U128 wrappers -/\n"
    out += f"def sdkInverseSameText : Bool := {'true' if same_inverse else 'false'}\n"
    out += "/-- constants of the SDK (rust-sdk/core/src/constants) that its swap quote shares with the program -/\n"
    out += "def sdkSharedConsts : List (String × Int) := [" + ", ".join(f'("{n}", {v})' for n, v in shared) + "]\n"
    out += "\nend WP.Gen\n"
    return write_if_changed("SdkConsts.lean", out)


def stage4():
    return ["SdkConsts.lean"] if gen_sdk() else []


X.EXTRA_STAGES.append(stage4)
