#!/bin/bash
# tools/confirm_seed.sh <worktree>    (expects <worktree>/.seed/{patch.diff,demo.diff})
# confirms: (a) demo only -> all tests pass; (b) patch+demo -> some test fails; (c) patch only -> whole suite passes
set -u
w="$1"; cd "$w" || exit 2
export CARGO_NET_OFFLINE=true
run() { cargo test --workspace --no-fail-fast --offline 2>&1 | grep -E "^test result|FAILED|failed|panicked|error(\[|:)" | sort | uniq -c | sort -rn | head -${2:-8}; }
git checkout -q -- . ; git clean -fdq -e .seed
echo "### (c) patch only"; git apply .seed/patch.diff && run c 6; git checkout -q -- . ; git clean -fdq -e .seed
echo "### (a) demo only"; git apply .seed/demo.diff && run a 6; git checkout -q -- . ; git clean -fdq -e .seed
echo "### (b) patch + demo"; git apply .seed/patch.diff && git apply .seed/demo.diff && run b 14; git checkout -q -- . ; git clean -fdq -e .seed
