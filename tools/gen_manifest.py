#!/usr/bin/env python3
"""Regenerate MANIFEST.json from tools/props_config.py + tools/manifest_texts.py."""
import json, os, sys
HERE = os.path.dirname(os.path.abspath(__file__))
sys.path.insert(0, HERE)
from props_config import PROPS
from manifest_texts import TEXTS, PENDING

ROOT = os.path.join(HERE, "..")
ids = [json.loads(l)["id"] for l in open(os.path.join(ROOT, "properties.jsonl"))]
checks = []
na = []
for pid in ids:
    if pid in PROPS and pid in TEXTS:
        t = TEXTS[pid]
        checks.append({
            "property_id": pid,
            "quick_cmd": f"./check {pid} --tier quick",
            "thorough_cmd": f"./check {pid} --tier thorough",
            "evidence_file": f"/verif/evidence/{pid}.json",
            "replay_cmd_template": "./check --replay {path}",
            "engine": "lean4-proof+correspondence",
            "level_claimed": {"category": "proof", "text": t["text"], "design_ref": t["design_ref"]},
            "level_note": t["note"],
            "technique": t["technique"],
        })
    else:
        na.append({"property_id": pid, "reason": PENDING.get(pid, "not yet claimed: model/theorems for this property are not built yet (design in DESIGN.md section 5)")})
m = {
    "version": 1,
    "setup_cmd": "./check --setup",
    "hooks": {
        "guard": "cargo feature `verif` of programs/whirlpool (off by default)",
        "enable": "the harness depends on whirlpool by path with features = [\"verif\"] (cargo build --release --offline --features verif in /verif/harness)",
        "baseline_off_cmd": "cd /repo && cargo nextest run --workspace --no-fail-fast --tool-config-file pb:/w/lib/nextest.toml --profile pb --test-threads 8 --offline",
        "source_commits": ["ea6bd0b", "09915d8"],
        "add_only": True,
    },
    "engines": [
        {"name": "lean4-proof+correspondence", "path": "/verif/check",
         "serves_properties": [c["property_id"] for c in checks],
         "kind_free_text": "Lean 4 theorems about a formal model (lean/WP), tied to /repo by a translator (tools/extract.py -> lean/WP/Gen) and a differential correspondence harness (harness/, real crate by path dependency) with exact-arithmetic oracles"},
    ],
    "checks": checks,
    "not_applicable": na,
    "notes": "See DESIGN.md. Every check regenerates lean/WP/Gen from /repo, rebuilds the theorems (lake, incremental), audits axioms, rebuilds the harness against /repo's working tree and runs the correspondence families.",
}
json.dump(m, open(os.path.join(ROOT, "MANIFEST.json"), "w"), indent=1)
print("checks:", [c["property_id"] for c in checks], "not_applicable:", len(na))
