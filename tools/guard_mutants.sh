#!/bin/bash
# MEASUREMENT (not a check), for a `vp run --with-repo` snapshot: every `return Err(ErrorCode::…)` line of the Anchor
# instruction handlers (programs/whirlpool/src/instructions/**) is neutralised in turn (the guard stays, its refusal goes)
# in the snapshot's copy of the repository, and the quick checks that the file is relevant to are run until one reports.
set -u
R="${VP_RUN_REPO:-/repo}"
if [ "$R" != "/repo" ]; then
  sed -i "s#/repo/#$R/#g" harness/Cargo.toml check
  export VERIF_REPO="$R"
fi
export VERIF_SPECS="$PWD/work/specs.txt"
./check --setup > setup.log 2>&1; tail -1 setup.log
D=$R/programs/whirlpool/src/instructions
: > guard_mutants.tsv
cd $D; files=$(grep -rl -E "return Err\(ErrorCode::" . | sort); cd - > /dev/null
for f in $files; do
  case $f in
    *two_hop*) cs="C17 C03 C14";;
    *swap*) cs="C03 C14 C16";;
    *lock*|*close_*|*open_*|*reset_position*|*bundle*) cs="C18 C04";;
    *liquidity*) cs="C08 C16 C18 C12";;
    *reward*|*collect*) cs="C11 C06 C04";;
    *adaptive*|*set_*|*initialize_*) cs="C19 C14 C04 C13";;
    *) cs="C04 C15 C18 C19";;
  esac
  for n in $(grep -n -E "^\s*return Err\(ErrorCode::\w+\.into\(\)\);\s*$" $D/$f | cut -d: -f1); do
    line=$(sed -n "${n}p" $D/$f | sed 's/^ *//')
    sed -i "${n}s/.*/        \/\/ mutant: refusal removed/" $D/$f
    res="MISSED"
    for c in $cs; do
      out=$(./check $c --tier quick 2>&1)
      if echo "$out" | grep -q "^VIOLATION.*no-failing-input-found"; then res="$c table/proof-only: $(echo "$out" | grep -m1 -A1 '^VIOLATION' | tail -1 | cut -c1-100)"; break
      elif echo "$out" | grep -q "^VIOLATION"; then res="$c execution: $(echo "$out" | grep -m1 -A1 '^VIOLATION' | tail -1 | cut -c1-110)"; break
      elif ! echo "$out" | grep -q "^OK"; then res="$c other: $(echo "$out" | tail -1 | cut -c1-80)"; break; fi
    done
    echo -e "$f:$n\t$line\t$res" | tee -a guard_mutants.tsv
    git -C $R checkout -- programs/whirlpool/src/instructions/$f
  done
done
echo done
