#!/usr/bin/env python3
"""
tools/table_mutants.py [--workers N] [--out FILE]

A MEASUREMENT of the table theorems (C04 / C15 / C18: tools/extract_specs.py -> WP/Gen/AnchorSpecs.lean,
PinoSpecs.lean -> kernel-evaluated requirement tables), not a check: for every checked attribute of every
regenerated accounts struct (address / has_one / constraint / seeds, and every `Signer` kind) and every
verify_* / load_* line of every Pinocchio prologue, the attribute is deleted from the GENERATED table (as if the
source had lost it) and the three Props modules are rebuilt in a scratch copy of the Lean project.
A mutant that no theorem notices is a SURVIVOR: a constraint whose loss the table theorems would not report
(seed C15b_8 was one).  Survivors are listed with the struct and attribute; each is either covered by a generic
rule added afterwards, or justified in DESIGN.md.

Scratch copies live under /tmp/table_mutants.<pid>/ and are removed at the end.
"""
import argparse, json, os, re, shutil, subprocess, sys, tempfile, time
from concurrent.futures import ThreadPoolExecutor

LEAN = "/verif/lean"
MODS = ["WP.Props.C04", "WP.Props.C15", "WP.Props.C18", "WP.Props.LimitGuards"]

def anchor_mutants(text):
    """(label, mutated text) for every attribute / Signer kind"""
    out = []
    # every field line:  { name := "x", kind := "K", ty := "T", optional := b, attrs := [ ... ] }
    spec_pos = [(m.start(), m.group(1)) for m in re.finditer(r'\{ name := "(\w+)", file := "', text)]
    def spec_of(pos):
        name = None
        for p, n in spec_pos:
            if p <= pos:
                name = n
        return name
    for fm in re.finditer(r'\{ name := "(\w+)", kind := "(\w+)", ty := "(\w*)", optional := \w+, attrs := \[(.*?)\] \}', text):
        fld, kind, attrs = fm.group(1), fm.group(2), fm.group(4)
        spec = spec_of(fm.start())
        if kind == "Signer":
            new = text[:fm.start()] + fm.group(0).replace('kind := "Signer"', 'kind := "UncheckedAccount"', 1) + text[fm.end():]
            out.append((f"{spec}.{fld}: Signer -> UncheckedAccount", new))
        a0 = fm.start(4)
        for am in re.finditer(r'\("(\w[\w:]*)", "((?:[^"\\]|\\.)*)", "((?:[^"\\]|\\.)*)"\)(, )?', attrs):
            kw = am.group(1)
            if kw not in ("address", "has_one", "constraint", "seeds"):
                continue
            s, e = a0 + am.start(), a0 + am.end()
            new_attrs = text[a0:s] + text[e:a0 + len(attrs)]
            new_attrs = re.sub(r', $', '', new_attrs)
            new = text[:a0] + new_attrs + text[a0 + len(attrs):]
            out.append((f"{spec}.{fld}: {kw} {am.group(2)[:70]}", new))
    return out

def pino_mutants(text):
    out = []
    for sm in re.finditer(r'\{ file := "([^"]+)", labels := \[(.*?)\],\n\s*checks := \[(.*?)\],\n\s*core := \[(.*?)\] \}', text, re.S):
        f = sm.group(1)
        for grp, name in ((3, "check"), (4, "core")):
            body, b0 = sm.group(grp), sm.start(grp)
            pat = r'\("(\w+)", "((?:[^"\\]|\\.)*)", "((?:[^"\\]|\\.)*)"\)(, )?' if grp == 3 else r'"((?:[^"\\]|\\.)*)"(, )?'
            for am in re.finditer(pat, body):
                if grp == 3 and am.group(1) == "other":
                    continue
                s, e = b0 + am.start(), b0 + am.end()
                nb = text[b0:s] + text[e:b0 + len(body)]
                nb = re.sub(r', $', '', nb)
                new = text[:b0] + nb + text[b0 + len(body):]
                out.append((f"{f} {name}: {am.group(0)[:110]}", new))
        # a signer label loses its signature requirement
        lab, l0 = sm.group(2), sm.start(2)
        for am in re.finditer(r'\("(\w+)", "next_signer"\)', lab):
            s, e = l0 + am.start(), l0 + am.end()
            new = text[:s] + am.group(0).replace("next_signer", "next") + text[e:]
            out.append((f"{f} label: {am.group(1)} next_signer -> next", new))
    return out

def run_mutant(copy, relfile, orig, label, mutated):
    path = os.path.join(copy, relfile)
    open(path, "w").write(mutated)
    t0 = time.time()
    r = subprocess.run(["lake", "build"] + MODS, cwd=copy, capture_output=True, text=True)
    open(path, "w").write(orig)
    failed = re.findall(r"error: (WP/Props/\w+\.lean):(\d+)", r.stdout + r.stderr)
    return {"mutant": label, "file": relfile, "detected": r.returncode != 0, "by": sorted({f"{a}:{b}" for a, b in failed})[:4], "secs": round(time.time() - t0, 1)}

def main():
    ap = argparse.ArgumentParser()
    ap.add_argument("--workers", type=int, default=3)
    ap.add_argument("--out", default="/verif/work/table_mutants.json")
    ap.add_argument("--limit", type=int, default=0)
    a = ap.parse_args()
    root = tempfile.mkdtemp(prefix="table_mutants.")
    try:
        copies = []
        for i in range(a.workers):
            c = os.path.join(root, f"l{i}")
            shutil.copytree(LEAN, c, symlinks=True)
            copies.append(c)
        jobs = []
        for rel, gen in (("WP/Gen/AnchorSpecs.lean", anchor_mutants), ("WP/Gen/PinoSpecs.lean", pino_mutants)):
            orig = open(os.path.join(LEAN, rel)).read()
            for label, mutated in gen(orig):
                if mutated != orig:
                    jobs.append((rel, orig, label, mutated))
        if a.limit:
            jobs = jobs[:a.limit]
        print(f"{len(jobs)} mutants, {a.workers} workers", flush=True)
        results = []
        def worker(k):
            res = []
            for j in jobs[k::a.workers]:
                res.append(run_mutant(copies[k], *j))
                if len(res) % 10 == 0:
                    print(f"worker {k}: {len(res)} done", flush=True)
            return res
        with ThreadPoolExecutor(a.workers) as ex:
            for r in ex.map(worker, range(a.workers)):
                results += r
        surv = [r for r in results if not r["detected"]]
        json.dump({"mutants": len(results), "detected": len(results) - len(surv), "survivors": surv, "all": results}, open(a.out, "w"), indent=1)
        print(f"mutants {len(results)} detected {len(results) - len(surv)} survivors {len(surv)}")
        for r in surv:
            print("SURVIVOR", r["mutant"])
    finally:
        shutil.rmtree(root, ignore_errors=True)

if __name__ == "__main__":
    main()
