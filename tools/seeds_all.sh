#!/bin/bash
# run inside a `vp run --with-repo` snapshot: every QUICK check under several other PRNG seeds
# (a false alarm that depends on the seed shows up here; the registered commands use VERIF_SEED=1)
set -u
R="${VP_RUN_REPO:-/repo}"
if [ "$R" != "/repo" ]; then
  sed -i "s#/repo/#$R/#g" harness/Cargo.toml check
  export VERIF_REPO="$R"
fi
export VERIF_SPECS="$PWD/work/specs.txt"
./check --setup > setup.log 2>&1; tail -2 setup.log
for seed in ${SEEDS:-2 3 5 8 13}; do
  for p in C01 C02 C03 C04 C05 C06 C07 C08 C10 C11 C12 C13 C14 C15 C16 C17 C18 C19 C20; do
    t0=$(date +%s)
    VERIF_SEED=$seed ./check $p --tier quick > seed_${seed}_$p.log 2>&1; rc=$?
    echo "== seed $seed $p rc=$rc ($(( $(date +%s)-t0 ))s): $(grep -E '^OK|^VIOLATION|^KNOWN' seed_${seed}_$p.log | head -3 | tr '\n' ' ' | cut -c1-300)"
  done
done
